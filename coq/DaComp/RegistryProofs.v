(* DaComp/RegistryProofs.v — RegistryKey::next is a cyclic permutation of the writable keys
   (by arithmetic), and consequences for the rotating registry (C07). *)
From FV Require Import DaComp.RegistryModel.
From Coq Require Import Lia.
Open Scope N_scope.

Lemma next_spec k : writable k = true -> next k = Some ((k + 1) mod WRITABLE_COUNT).
Proof.
  unfold writable, next, DEFAULT_VALUE, WRITABLE_COUNT, key_try_from_u32, KEY_SPACE, ZERO. intros H. apply N.ltb_lt in H.
  destruct (N.eqb_spec k 16777215); [lia|].
  destruct (N.eqb_spec (k + 1) 16777215) as [E|E].
  - rewrite E, N.mod_same by lia. reflexivity.
  - rewrite N.mod_small by lia. destruct (N.ltb_spec (k + 1) 16777216); [reflexivity | lia].
Qed.

Lemma next_default : next DEFAULT_VALUE = None.
Proof. reflexivity. Qed.

(* never yields the reserved default key, always a writable key *)
Lemma next_writable k k' : writable k = true -> next k = Some k' -> writable k' = true /\ k' <> DEFAULT_VALUE.
Proof.
  intros H E. rewrite next_spec in E by exact H. injection E as <-.
  assert (Hm : (k + 1) mod WRITABLE_COUNT < WRITABLE_COUNT) by (apply N.mod_lt; unfold WRITABLE_COUNT; lia).
  unfold writable, DEFAULT_VALUE, WRITABLE_COUNT in *. split; [apply N.ltb_lt; exact Hm | lia].
Qed.

Lemma next_wraps : next MAX_WRITABLE = Some ZERO.
Proof. reflexivity. Qed.

Lemma iter_next_spec n : forall k, writable k = true ->
  iter_next n k = Some ((k + N.of_nat n) mod WRITABLE_COUNT).
Proof.
  induction n as [|n IH]; intros k H.
  - cbn [iter_next]. unfold writable, DEFAULT_VALUE, WRITABLE_COUNT in *. apply N.ltb_lt in H.
    rewrite N.add_0_r, N.mod_small by exact H. reflexivity.
  - cbn [iter_next]. rewrite next_spec by exact H.
    assert (Hw : writable ((k + 1) mod WRITABLE_COUNT) = true).
    { unfold writable, DEFAULT_VALUE, WRITABLE_COUNT. apply N.ltb_lt. apply N.mod_lt. lia. }
    rewrite IH by exact Hw. f_equal.
    rewrite N.add_mod_idemp_l by (unfold WRITABLE_COUNT; lia). f_equal. lia.
Qed.

(* injective and surjective on the writable keys: a permutation *)
Lemma next_injective a b c : writable a = true -> writable b = true -> next a = Some c -> next b = Some c -> a = b.
Proof.
  intros Ha Hb Ea Eb. rewrite next_spec in Ea, Eb by assumption. injection Ea as Ea. injection Eb as Eb.
  unfold writable, DEFAULT_VALUE, WRITABLE_COUNT in *. apply N.ltb_lt in Ha, Hb. subst c.
  destruct (N.eq_dec (a + 1) 16777215) as [Ha1|Ha1]; destruct (N.eq_dec (b + 1) 16777215) as [Hb1|Hb1].
  - lia.
  - rewrite Ha1, N.mod_same in Eb by lia. rewrite N.mod_small in Eb by lia. lia.
  - rewrite Hb1, N.mod_same in Eb by lia. rewrite N.mod_small in Eb by lia. lia.
  - rewrite !N.mod_small in Eb by lia. lia.
Qed.

Lemma next_surjective c : writable c = true -> exists a, writable a = true /\ next a = Some c.
Proof.
  intros Hc. unfold writable, DEFAULT_VALUE in Hc. apply N.ltb_lt in Hc.
  destruct (N.eq_dec c 0) as [->|Hn].
  - exists MAX_WRITABLE. split; reflexivity.
  - exists (c - 1). assert (Hw : writable (c - 1) = true) by (unfold writable, DEFAULT_VALUE; apply N.ltb_lt; lia).
    split; [exact Hw|]. rewrite next_spec by exact Hw. unfold WRITABLE_COUNT.
    replace (c - 1 + 1) with c by lia. rewrite N.mod_small by lia. reflexivity.
Qed.

(* cyclic: from any writable key, n steps come back to the start iff WRITABLE_COUNT divides n; so
   the orbit of every key is the whole set and the period is exactly 2^24 - 1 *)
Theorem next_cyclic k n : writable k = true ->
  (iter_next n k = Some k <-> N.of_nat n mod WRITABLE_COUNT = 0).
Proof.
  intros H. rewrite iter_next_spec by exact H.
  unfold writable, DEFAULT_VALUE, WRITABLE_COUNT in *. apply N.ltb_lt in H.
  set (m := N.of_nat n). split.
  - intros E. injection E as E.
    pose proof (N.div_mod m 16777215 ltac:(lia)) as Dm.
    pose proof (N.mod_lt m 16777215 ltac:(lia)) as Lm.
    rewrite Dm in E. replace (k + (16777215 * (m / 16777215) + m mod 16777215))
      with ((k + m mod 16777215) + (m / 16777215) * 16777215) in E by lia.
    rewrite N.mod_add in E by lia.
    destruct (N.lt_ge_cases (k + m mod 16777215) 16777215) as [Hlt|Hge].
    + rewrite N.mod_small in E by exact Hlt. lia.
    + assert (E2 : (k + m mod 16777215) mod 16777215 = k + m mod 16777215 - 16777215).
      { replace (k + m mod 16777215) with ((k + m mod 16777215 - 16777215) + 1 * 16777215) at 1 by lia.
        rewrite N.mod_add by lia. apply N.mod_small. lia. }
      rewrite E2 in E. lia.
  - intros E. f_equal.
    assert (R : (k + m) mod 16777215 = (k + m mod 16777215) mod 16777215) by (symmetry; apply N.add_mod_idemp_r; lia).
    rewrite R, E, N.add_0_r. apply N.mod_small. exact H.
Qed.

Theorem next_reaches_every_key k c : writable k = true -> writable c = true ->
  exists n, (N.of_nat n < WRITABLE_COUNT) /\ iter_next n k = Some c.
Proof.
  intros Hk Hc. unfold writable, DEFAULT_VALUE in *. apply N.ltb_lt in Hk, Hc.
  exists (N.to_nat ((c + WRITABLE_COUNT - k) mod WRITABLE_COUNT)).
  assert (Hm : (c + WRITABLE_COUNT - k) mod WRITABLE_COUNT < WRITABLE_COUNT) by (apply N.mod_lt; unfold WRITABLE_COUNT; lia).
  rewrite N2Nat.id. split; [exact Hm|].
  rewrite iter_next_spec by (unfold writable, DEFAULT_VALUE; apply N.ltb_lt; exact Hk).
  rewrite N2Nat.id. f_equal. unfold WRITABLE_COUNT in *. rewrite N.add_mod_idemp_r by lia.
  destruct (N.le_gt_cases k c).
  - replace (k + (c + 16777215 - k)) with (c + 1 * 16777215) by lia. rewrite N.mod_add by lia. apply N.mod_small. exact Hc.
  - replace (k + (c + 16777215 - k)) with (c + 1 * 16777215) by lia. rewrite N.mod_add by lia. apply N.mod_small. exact Hc.
Qed.

(* distinct step counts below the period give distinct keys: allocations within one window of
   fewer than 2^24 - 1 steps never collide *)
Theorem next_no_collision k i j : writable k = true ->
  N.of_nat i < WRITABLE_COUNT -> N.of_nat j < WRITABLE_COUNT -> iter_next i k = iter_next j k -> i = j.
Proof.
  intros H Hi Hj E. rewrite !iter_next_spec in E by exact H. injection E as E.
  unfold writable, DEFAULT_VALUE, WRITABLE_COUNT in *. apply N.ltb_lt in H.
  assert (G : forall x, x < 16777215 -> (k + x) mod 16777215 = if k + x <? 16777215 then k + x else k + x - 16777215).
  { intros x Hx. destruct (N.ltb_spec (k + x) 16777215).
    - apply N.mod_small. assumption.
    - replace (k + x) with ((k + x - 16777215) + 1 * 16777215) at 1 by lia. rewrite N.mod_add by lia. apply N.mod_small. lia. }
  rewrite !G in E by assumption.
  destruct (N.ltb_spec (k + N.of_nat i) 16777215); destruct (N.ltb_spec (k + N.of_nat j) 16777215); lia.
Qed.

(* key bytes *)
Lemma key_bytes_roundtrip k : is_key k = true -> key_of_bytes (key_bytes k) = Some k.
Proof.
  unfold is_key, KEY_SPACE, key_of_bytes, key_bytes. intros H. apply N.ltb_lt in H.
  rewrite be_encode_length. cbn [Nat.eqb]. rewrite be_decode_encode; [reflexivity|].
  change (256 ^ N.of_nat 3) with 16777216. exact H.
Qed.
