(* DaComp/ContextProofs.v — the harness-style context (rotating registry with per-transaction
   pinning, append-only UTXO table: Run/DaComp.v) satisfies the premises of own_context_holds, so
   it can decompress what it compressed: the premise of C07_roundtrip is satisfiable for every
   transaction the context accepts. *)
From FV Require Import Base.Bytes Base.U64 Base.Map DaComp.RegistryModel DaComp.CompressModel DaComp.TxSchema
  DaComp.DaCompProofs Run.DaComp.
From Coq Require Import Lia.
Open Scope N_scope.

(* ---------------------------------------------------------------- val equality *)
Lemma val_eqb_eq : forall a b, val_eqb a b = true -> a = b.
Proof.
  fix IH 1. intros a b.
  assert (L : forall xs ys,
    (fix leq (xs ys : list val) : bool :=
       match xs, ys with
       | [], [] => true
       | x :: xs', y :: ys' => val_eqb x y && leq xs' ys'
       | _, _ => false
       end) xs ys = true -> (forall x, In x xs -> forall y, val_eqb x y = true -> x = y) -> xs = ys).
  { induction xs as [|x xs IHxs]; intros [|y ys] H Hin; try discriminate; [reflexivity|].
    apply Bool.andb_true_iff in H as [H1 H2].
    f_equal; [apply Hin; [left; reflexivity | exact H1] | apply IHxs; [exact H2 | intros z Hz; apply Hin; right; exact Hz]]. }
  destruct a as [n | bs | | l | l | i l]; destruct b as [n' | bs' | | l' | l' | i' l']; cbn [val_eqb]; intros H; try discriminate.
  - apply N.eqb_eq in H. congruence.
  - apply bytes_eqb_eq in H. congruence.
  - reflexivity.
  - f_equal. apply L; [exact H|]. clear H. induction l as [|x l IHl]; intros z Hz; [contradiction|].
    destruct Hz as [<-|Hz]; [apply IH | apply IHl; exact Hz].
  - f_equal. apply L; [exact H|]. clear H. induction l as [|x l IHl]; intros z Hz; [contradiction|].
    destruct Hz as [<-|Hz]; [apply IH | apply IHl; exact Hz].
  - apply Bool.andb_true_iff in H as [H1 H2]. apply PeanoNat.Nat.eqb_eq in H1. subst i'. f_equal.
    apply L; [exact H2|]. clear H2. induction l as [|x l IHl]; intros z Hz; [contradiction|].
    destruct Hz as [<-|Hz]; [apply IH | apply IHl; exact Hz].
Qed.

(* ---------------------------------------------------------------- registry facts *)
Lemma find_value_sound t v k : find_value t v = Some k -> aget t k = Some v.
Proof.
  unfold find_value. intros H. apply find_some in H as [_ H].
  destruct (aget t k) as [v'|]; [|discriminate]. apply bytes_eqb_eq in H. congruence.
Qed.

Lemma pick_free_not_pinned : forall fuel k pinned k', pick_free fuel k pinned = Some k' ->
  existsb (N.eqb k') pinned = false.
Proof.
  induction fuel as [|f IH]; intros k pinned k' H; cbn [pick_free] in H; [discriminate|].
  destruct (existsb (N.eqb k) pinned) eqn:E.
  - destruct (next k); [apply (IH _ _ _ H) | discriminate].
  - injection H as <-. exact E.
Qed.

Lemma not_pinned_neq k' pinned k : existsb (N.eqb k') pinned = false -> In k pinned -> k' <> k.
Proof.
  intros E Hin Heq. subst k'. assert (C : existsb (N.eqb k) pinned = true).
  { apply existsb_exists. exists k. split; [exact Hin | apply N.eqb_refl]. }
  congruence.
Qed.

(* a registration of the current transaction: resolves, and its key is pinned *)
Definition ks_stable (s : keyspace) (k : N) (b : bytes) : Prop := ks_lookup s k = Some b /\ In k (ks_pinned s).

Lemma ks_compress_step s v s' k a : ks_compress s v = Some (s', k, a) ->
  ks_stable s' k v /\ (forall k0 b0, ks_stable s k0 b0 -> ks_stable s' k0 b0).
Proof.
  unfold ks_compress. destruct (find_value (ks_tbl s) v) as [k1|] eqn:Ef.
  - intros H. injection H as <- <- <-. unfold ks_stable, ks_lookup. cbn [ks_tbl ks_pinned]. split.
    + split; [apply find_value_sound; exact Ef | left; reflexivity].
    + intros k0 b0 [H1 H2]. split; [exact H1 | right; exact H2].
  - destruct (pick_free (S (length (ks_pinned s))) (ks_nxt s) (ks_pinned s)) as [k1|] eqn:Ep; [|discriminate].
    destruct (next k1) as [n'|]; [|discriminate]. intros H. injection H as <- <- <-.
    unfold ks_stable, ks_lookup. cbn [ks_tbl ks_pinned]. split.
    + split; [apply aget_aset_eq | left; reflexivity].
    + intros k0 b0 [H1 H2]. split; [|right; exact H2].
      rewrite aget_aset_neq; [exact H1|]. apply (not_pinned_neq k1 (ks_pinned s) k0); [|exact H2].
      eapply pick_free_not_pinned; exact Ep.
Qed.

Definition reg_stable (r : registry) (ks k : N) (b : bytes) : Prop := ks_stable (reg_get r ks) k b.

Lemma reg_compress_step r ks v r' k a : reg_compress r ks v = Some (r', k, a) ->
  reg_stable r' ks k v /\ (forall ks0 k0 b0, reg_stable r ks0 k0 b0 -> reg_stable r' ks0 k0 b0).
Proof.
  unfold reg_compress. destruct (ks_compress (reg_get r ks) v) as [[[s' k1] a1]|] eqn:E; [|discriminate].
  intros H. injection H as <- <- <-. destruct (ks_compress_step _ _ _ _ _ E) as [A B].
  unfold reg_stable, reg_get. cbn [r_spaces r_start]. split.
  - rewrite aget_aset_eq. exact A.
  - intros ks0 k0 b0 H0. destruct (N.eq_dec ks ks0) as [<-|Hn].
    + rewrite aget_aset_eq. apply B. exact H0.
    + rewrite aget_aset_neq by exact Hn. exact H0.
Qed.

(* ---------------------------------------------------------------- utxo table facts *)
Lemma vindex_sound u : forall l i j, vindex u l i = Some j -> i <= j /\ nth_error l (N.to_nat (j - i)) = Some u.
Proof.
  induction l as [|x l IH]; intros i j H; cbn [vindex] in H; [discriminate|].
  destruct (val_eqb u x) eqn:E.
  - injection H as <-. apply val_eqb_eq in E. subst x. rewrite N.sub_diag. split; [lia | reflexivity].
  - destruct (IH _ _ H) as [Hle Hn]. split; [lia|].
    replace (N.to_nat (j - i)) with (S (N.to_nat (j - (i + 1)))) by lia. exact Hn.
Qed.

Lemma m_utxo_get_inv c cu u : m_utxo_get c cu = Some u ->
  exists i, cu = compressed_utxo i /\ nth_error (m_utxos c) (N.to_nat i) = Some u.
Proof.
  unfold m_utxo_get, compressed_utxo. intros H.
  repeat match type of H with
         | context [match ?x with _ => _ end] => destruct x; try discriminate
         end.
  match type of H with nth_error _ (N.to_nat ?i) = _ => rename i into i0 end.
  exists i0. split; [reflexivity | exact H].
Qed.

(* ---------------------------------------------------------------- the context as a whole *)
Definition m_stable (c : mctx) (f : fact) : Prop :=
  match f with
  | FReg ks k b => reg_stable (m_reg c) ks k b
  | FUtxo cu u => m_utxo_get c cu = Some u
  end.

Lemma m_stable_holds c f : m_stable c f ->
  match f with FReg ks k b => m_reg_get c ks k = Some b | FUtxo cu u => m_utxo_get c cu = Some u end.
Proof. destruct f; cbn [m_stable]; [intros [H _]; exact H | auto]. Qed.

Lemma m_reg_step c ks b c' k : m_reg_compress c ks b = Some (c', k) ->
  m_stable c' (FReg ks k b) /\ (forall f, m_stable c f -> m_stable c' f).
Proof.
  unfold m_reg_compress. destruct (reg_compress (m_reg c) ks b) as [[[r' k1] a]|] eqn:E; [|discriminate].
  intros H. injection H as <- <-. destruct (reg_compress_step _ _ _ _ _ _ E) as [A B]. split.
  - exact A.
  - intros [ks0 k0 b0|cu u]; cbn [m_stable m_reg]; [apply B | unfold m_utxo_get; cbn [m_utxos]; auto].
Qed.

Lemma m_utxo_step c u c' cu : m_utxo_compress c u = Some (c', cu) ->
  m_stable c' (FUtxo cu u) /\ (forall f, m_stable c f -> m_stable c' f).
Proof.
  unfold m_utxo_compress. destruct (vindex u (m_utxos c) 0) as [i|] eqn:E.
  - intros H. injection H as <- <-. split; [|auto].
    cbn [m_stable]. unfold m_utxo_get, compressed_utxo. destruct (vindex_sound _ _ _ _ E) as [_ Hn].
    rewrite N.sub_0_r in Hn. exact Hn.
  - intros H. injection H as <- <-. split.
    + cbn [m_stable]. unfold m_utxo_get, compressed_utxo. cbn [m_utxos]. unfold lenN. rewrite Nat2N.id.
      rewrite nth_error_app2 by lia. rewrite PeanoNat.Nat.sub_diag. reflexivity.
    + intros [ks0 k0 b0|cu0 u0]; cbn [m_stable m_reg]; [auto|].
      intros H0. destruct (m_utxo_get_inv _ _ _ H0) as (i & -> & Hn).
      unfold m_utxo_get, compressed_utxo. cbn [m_utxos].
      rewrite nth_error_app1; [exact Hn|]. apply nth_error_Some. congruence.
Qed.

(* the context decompresses what it compressed: facts of a compression hold in its final state *)
Theorem m_own_context_holds t c v c' comp f :
  m_compress t c v = Some (c', comp, f) -> holds mctx m_reg_get m_utxo_get c' f.
Proof.
  apply (own_context_holds mctx m_reg_compress m_utxo_compress m_reg_get m_utxo_get m_stable
           m_stable_holds m_reg_step m_utxo_step).
Qed.

(* hence, unconditionally in the registrations: *)
Theorem m_roundtrip t c v c' comp f :
  m_compress t c v = Some (c', comp, f) ->
  m_decompress t c' comp = restore mctx m_coin_info m_msg_info m_mint t c' (erase is_skipped t v).
Proof.
  intros H. apply (roundtrip mctx m_reg_compress m_utxo_compress mctx m_reg_get m_utxo_get
                     m_coin_info m_msg_info m_mint c' t c v c' comp f H).
  eapply m_own_context_holds; exact H.
Qed.
