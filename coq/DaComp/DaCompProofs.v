(* DaComp/DaCompProofs.v — round trip and id preservation of DA compression (C07). *)
From FV Require Import DaComp.RegistryModel DaComp.CompressModel DaComp.TxSchema.
From Coq Require Import Lia.
Open Scope N_scope.

Section Proofs.
  Variable St : Type.
  Variable reg_compress : St -> N -> bytes -> option (St * N).
  Variable utxo_compress : St -> val -> option (St * val).
  Variable D : Type.
  Variable reg_get : D -> N -> N -> option bytes.
  Variable utxo_get : D -> val -> option val.
  Variable coin_info : D -> val -> option (val * val * val).
  Variable msg_info : D -> val -> option (val * val * val * val).
  Variable mint_ptr : D -> option val.

  Notation compress := (compress St reg_compress utxo_compress).
  Notation compress_fields := (compress_fields St reg_compress utxo_compress).
  Notation compress_variants := (compress_variants St reg_compress utxo_compress).
  Notation holds := (holds D reg_get utxo_get).
  Notation decompress := (decompress D reg_get utxo_get coin_info msg_info mint_ptr).
  Notation decompress_fields := (decompress_fields D reg_get utxo_get coin_info msg_info mint_ptr).
  Notation decompress_variants := (decompress_variants D reg_get utxo_get coin_info msg_info mint_ptr).
  Notation restore := (restore D coin_info msg_info mint_ptr).
  Notation restore_fields := (restore_fields D coin_info msg_info mint_ptr).
  Notation restore_variants := (restore_variants D coin_info msg_info mint_ptr).

  Lemma holds_app d f1 f2 : holds d (f1 ++ f2) <-> holds d f1 /\ holds d f2.
  Proof.
    induction f1 as [|x f1 IH]; cbn [app CompressModel.holds]; [tauto|].
    destruct x; rewrite IH; tauto.
  Qed.

  (* unfolding equations (the mutual fixpoints do not refold under cbn) *)
  Lemma compress_vec_eq t s l : compress (CVec t) s (VL l) =
    match compress_list St (compress t) s l with Some (s', cs, f) => Some (s', VL cs, f) | None => None end.
  Proof. reflexivity. Qed.
  Lemma compress_struct_eq rk fs s l : compress (CStruct rk fs) s (VR l) =
    match compress_fields fs s l with Some (s', cs, f) => Some (s', VR cs, f) | None => None end.
  Proof. reflexivity. Qed.
  Lemma compress_enum_eq vs s i l : compress (CEnum vs) s (VE i l) =
    match compress_variants vs i s l with Some (s', cs, f) => Some (s', VE i cs, f) | None => None end.
  Proof. reflexivity. Qed.
  Lemma compress_fields_cons_eq n a m t r s v l : compress_fields (CFCons n a m t r) s (v :: l) =
    if is_skipped a then compress_fields r s l
    else match compress t s v with
         | Some (s1, c, f1) =>
             match compress_fields r s1 l with Some (s2, cs, f2) => Some (s2, c :: cs, f1 ++ f2) | None => None end
         | None => None
         end.
  Proof. reflexivity. Qed.
  Lemma decompress_vec_eq t d l : decompress (CVec t) d (VL l) = (let^ vs := cmapM (decompress t d) l in COk (VL vs)).
  Proof. reflexivity. Qed.
  Lemma decompress_struct_eq rk fs d l : decompress (CStruct rk fs) d (VR l) =
    (let^ vs := decompress_fields fs d l in let^ vs' := fill D coin_info msg_info mint_ptr rk d fs vs in COk (VR vs')).
  Proof. reflexivity. Qed.
  Lemma decompress_enum_eq vs d i l : decompress (CEnum vs) d (VE i l) =
    (let^ xs := decompress_variants vs i d l in COk (VE i xs)).
  Proof. reflexivity. Qed.
  Lemma decompress_fields_cons_eq n a m t r d l : decompress_fields (CFCons n a m t r) d l =
    if is_skipped a then let^ vs := decompress_fields r d l in COk (cdefault t :: vs)
    else match l with
         | [] => CErr EShape
         | c :: l' => let^ v := decompress t d c in let^ vs := decompress_fields r d l' in COk (v :: vs)
         end.
  Proof. reflexivity. Qed.
  Lemma restore_vec_eq t d l : restore (CVec t) d (VL l) = (let^ vs := cmapM (restore t d) l in COk (VL vs)).
  Proof. reflexivity. Qed.
  Lemma restore_struct_eq rk fs d l : restore (CStruct rk fs) d (VR l) =
    (let^ vs := restore_fields fs d l in let^ vs' := fill D coin_info msg_info mint_ptr rk d fs vs in COk (VR vs')).
  Proof. reflexivity. Qed.
  Lemma restore_enum_eq vs d i l : restore (CEnum vs) d (VE i l) = (let^ xs := restore_variants vs i d l in COk (VE i xs)).
  Proof. reflexivity. Qed.
  Lemma restore_fields_cons_eq n a m t r d v l : restore_fields (CFCons n a m t r) d (v :: l) =
    if is_skipped a then let^ vs := restore_fields r d l in COk (v :: vs)
    else let^ v' := restore t d v in let^ vs := restore_fields r d l in COk (v' :: vs).
  Proof. reflexivity. Qed.
  Lemma erase_struct_eq sel rk fs l : erase sel (CStruct rk fs) (VR l) = VR (erase_fields sel fs l).
  Proof. reflexivity. Qed.
  Lemma erase_enum_eq sel vs i l : erase sel (CEnum vs) (VE i l) = VE i (erase_variants sel vs i l).
  Proof. reflexivity. Qed.
  Lemma erase_vec_eq sel t l : erase sel (CVec t) (VL l) = VL (map (erase sel t) l).
  Proof. reflexivity. Qed.
  Lemma erase_fields_cons_eq sel n a m t r v l : erase_fields sel (CFCons n a m t r) (v :: l) =
    (if sel a then cdefault t else erase sel t v) :: erase_fields sel r l.
  Proof. reflexivity. Qed.

  Variable d : D.

  Lemma compress_list_rt (cf : St -> val -> option (St * val * list fact)) (dec res : val -> cres val) (er : val -> val) :
    (forall s v s' c f, cf s v = Some (s', c, f) -> holds d f -> dec c = res (er v)) ->
    forall l s s' cs f, compress_list St cf s l = Some (s', cs, f) -> holds d f ->
      cmapM dec cs = cmapM res (map er l).
  Proof.
    intros IH. induction l as [|x l IHl]; intros s s' cs f H Hh; cbn [compress_list] in H.
    - injection H as <- <- <-. reflexivity.
    - destruct (cf s x) as [[[s1 c] f1]|] eqn:E1; [|discriminate].
      destruct (compress_list St cf s1 l) as [[[s2 cs'] f2]|] eqn:E2; [|discriminate].
      injection H as <- <- <-. apply holds_app in Hh as [H1 H2].
      cbn [map cmapM]. rewrite (IH _ _ _ _ _ E1 H1), (IHl _ _ _ _ E2 H2). reflexivity.
  Qed.

  Definition R_cty (t : cty) : Prop :=
    forall s v s' c f, compress t s v = Some (s', c, f) -> holds d f ->
      decompress t d c = restore t d (erase is_skipped t v).
  Definition R_cfields (fs : cfields) : Prop :=
    forall s l s' cs f, compress_fields fs s l = Some (s', cs, f) -> holds d f ->
      decompress_fields fs d cs = restore_fields fs d (erase_fields is_skipped fs l).
  Definition R_cvariants (vs : cvariants) : Prop :=
    forall i s l s' cs f, compress_variants vs i s l = Some (s', cs, f) -> holds d f ->
      decompress_variants vs i d cs = restore_variants vs i d (erase_variants is_skipped vs i l).

  Theorem roundtrip_all : (forall t, R_cty t) /\ (forall fs, R_cfields fs) /\ (forall vs, R_cvariants vs).
  Proof.
    apply cschema_mutind.
    - (* CAtom *) intros dflt s v s' c f H _. cbn [CompressModel.compress CompressModel.compress_fields CompressModel.compress_variants] in H. injection H as <- <- <-. reflexivity.
    - (* CUnit *) intros s v s' c f H _. cbn [CompressModel.compress CompressModel.compress_fields CompressModel.compress_variants] in H. injection H as <- <- <-. reflexivity.
    - (* CReg *) intros ks dflt s v s' c f H Hh. cbn [CompressModel.compress CompressModel.compress_fields CompressModel.compress_variants] in H.
      destruct v as [| b | | | |]; try discriminate.
      destruct (reg_compress s ks b) as [[s1 k]|]; [|discriminate]. injection H as <- <- <-.
      cbn [CompressModel.holds] in Hh. destruct Hh as [Hk _].
      cbn [CompressModel.decompress CompressModel.decompress_fields CompressModel.decompress_variants CompressModel.restore CompressModel.restore_fields CompressModel.restore_variants erase erase_fields erase_variants]. rewrite Hk. reflexivity.
    - (* CUtxo *) intros s v s' c f H Hh. cbn [CompressModel.compress CompressModel.compress_fields CompressModel.compress_variants] in H.
      destruct (utxo_compress s v) as [[s1 c1]|]; [|discriminate]. injection H as <- <- <-.
      cbn [CompressModel.holds] in Hh. destruct Hh as [Hk _].
      cbn [CompressModel.decompress CompressModel.restore]. rewrite Hk. destruct v; reflexivity.
    - (* CVec *) intros t IH s v s' c f H Hh.
      destruct v as [| | | l | |]; try discriminate. rewrite compress_vec_eq in H.
      destruct (compress_list St (compress t) s l) as [[[s1 cs] f1]|] eqn:E; [|discriminate].
      injection H as <- <- <-.
      rewrite decompress_vec_eq, erase_vec_eq, restore_vec_eq.
      rewrite (compress_list_rt (compress t) (decompress t d) (restore t d) (erase is_skipped t) IH l s s1 cs f1 E Hh).
      reflexivity.
    - (* CStruct *) intros rk fs IH s v s' c f H Hh.
      destruct v as [| | | | l |]; try discriminate. rewrite compress_struct_eq in H.
      destruct (compress_fields fs s l) as [[[s1 cs] f1]|] eqn:E; [|discriminate]. injection H as <- <- <-.
      rewrite decompress_struct_eq, erase_struct_eq, restore_struct_eq, (IH _ _ _ _ _ E Hh). reflexivity.
    - (* CEnum *) intros vs IH s v s' c f H Hh.
      destruct v as [| | | | | i l]; try discriminate. rewrite compress_enum_eq in H.
      destruct (compress_variants vs i s l) as [[[s1 cs] f1]|] eqn:E; [|discriminate]. injection H as <- <- <-.
      rewrite decompress_enum_eq, erase_enum_eq, restore_enum_eq, (IH _ _ _ _ _ _ E Hh). reflexivity.
    - (* CFNil *) intros s l s' cs f H _.
      destruct l; [|discriminate]. injection H as <- <- <-. reflexivity.
    - (* CFCons *) intros n a m t IHt r IHr s l s' cs f H Hh.
      destruct l as [|v l]; [discriminate|]. rewrite compress_fields_cons_eq in H.
      rewrite decompress_fields_cons_eq, erase_fields_cons_eq, restore_fields_cons_eq.
      destruct (is_skipped a) eqn:Ea.
      + rewrite (IHr _ _ _ _ _ H Hh). reflexivity.
      + destruct (compress t s v) as [[[s1 c] f1]|] eqn:E1; [|discriminate].
        destruct (compress_fields r s1 l) as [[[s2 cs'] f2]|] eqn:E2; [|discriminate].
        injection H as <- <- <-. apply holds_app in Hh as [H1 H2].
        rewrite (IHt _ _ _ _ _ E1 H1), (IHr _ _ _ _ _ E2 H2). reflexivity.
    - (* CVNil *) intros i s l s' cs f H _. discriminate.
    - (* CVCons *) intros n fs IHfs r IHr i s l s' cs f H Hh.
      destruct i as [|j]; [apply (IHfs _ _ _ _ _ H Hh) | apply (IHr _ _ _ _ _ _ H Hh)].
  Qed.

  (* C07_roundtrip: if the decompression context answers every registration the compression
     produced, decompression yields what the context restores from the value with all skipped
     fields erased *)
  Theorem roundtrip t s v s' c f :
    compress t s v = Some (s', c, f) -> holds d f ->
    decompress t d c = restore t d (erase is_skipped t v).
  Proof. exact (proj1 roundtrip_all t s v s' c f). Qed.

  (* the context's restored facts equal the originals *)
  Definition ctx_agrees (t : cty) (v : val) : Prop :=
    restore t d (erase is_skipped t v) = COk (erase only_default t v).

  Theorem roundtrip_fields t s v s' c f :
    compress t s v = Some (s', c, f) -> holds d f -> ctx_agrees t v ->
    decompress t d c = COk (erase only_default t v).
  Proof. intros H Hh Ha. rewrite (roundtrip t s v s' c f H Hh). exact Ha. Qed.
End Proofs.

(* ================================================================ id preservation *)
Lemma strip_erase_all :
  (forall t, skip_incl t = true -> forall v, strip t (erase only_default t v) = strip t v) /\
  (forall fs, skip_incl_fields fs = true -> forall l, strip_fields fs (erase_fields only_default fs l) = strip_fields fs l) /\
  (forall vs, skip_incl_variants vs = true -> forall i l, strip_variants vs i (erase_variants only_default vs i l) = strip_variants vs i l).
Proof.
  apply cschema_mutind.
  - intros dflt _ v. destruct v; reflexivity.
  - intros _ v. destruct v; reflexivity.
  - intros ks dflt _ v. destruct v; reflexivity.
  - intros _ v. destruct v; reflexivity.
  - intros t IH Hs v. cbn [skip_incl] in Hs. destruct v; try reflexivity.
    cbn [erase strip]. rewrite map_map. f_equal. apply map_ext. intros x. apply IH. exact Hs.
  - intros rk fs IH Hs v. cbn [skip_incl] in Hs. destruct v; try reflexivity.
    cbn [erase strip]. rewrite IH by exact Hs. reflexivity.
  - intros vs IH Hs v. cbn [skip_incl] in Hs. destruct v; try reflexivity.
    cbn [erase strip]. rewrite IH by exact Hs. reflexivity.
  - intros _ l. reflexivity.
  - intros n a m t IHt r IHr Hs l. cbn [skip_incl_fields] in Hs. apply Bool.andb_true_iff in Hs as [Ha Hr].
    destruct l as [|v l]; [reflexivity|]. cbn [erase_fields strip_fields]. rewrite (IHr Hr). f_equal.
    destruct a; cbn [only_default].
    + destruct m; [reflexivity | apply IHt; exact Ha].
    + rewrite Ha. reflexivity.
    + destruct m; [reflexivity | apply IHt; exact Ha].
  - intros _ i l. reflexivity.
  - intros n fs IHfs r IHr Hs i l. cbn [skip_incl_variants] in Hs. apply Bool.andb_true_iff in Hs as [H1 H2].
    cbn [erase_variants strip_variants]. destruct i; [apply IHfs | apply IHr]; assumption.
Qed.

(* C07_id: relative to an id that is a function of the stripped value (the id specification of
   C03: id = h(chain_id ++ enc(strip tx))), a value and its round-tripped image (everything but
   the skipped-and-unrestored fields) have the same id — given the list inclusion skip_incl *)
Theorem id_preserved (A : Type) (idf : val -> A) t v :
  skip_incl t = true -> idf (strip t (erase only_default t v)) = idf (strip t v).
Proof. intros H. rewrite (proj1 strip_erase_all t H v). reflexivity. Qed.

(* the obligation is necessary: a schema with a skipped, unrestored, NON-malleable field changes the id *)
Definition bad_schema : cty := cstruct RKNone [("x"%string, SkipDefault, false, AN)].
Lemma id_not_preserved_without_inclusion :
  skip_incl bad_schema = false /\
  strip bad_schema (erase only_default bad_schema (VR [VN 7])) <> strip bad_schema (VR [VN 7]).
Proof. split; [reflexivity | vm_compute; discriminate]. Qed.

(* ================================================================ natural facts imply ctx_agrees
   for the three context-decompressed structs of the transaction schema *)
Section Restored.
  Variable D : Type.
  Variable coin_info : D -> val -> option (val * val * val).
  Variable msg_info : D -> val -> option (val * val * val * val).
  Variable mint_ptr : D -> option val.
  Variable d : D.

  Lemma coin_signed_restored u o a s tp wi e1 e2 e3 :
    coin_info d u = Some (o, a, s) ->
    ctx_agrees D coin_info msg_info mint_ptr d T_CoinSigned (VR [u; o; a; s; tp; VN wi; VR [e1]; VR [e2]; VR [e3]]).
  Proof. intros H. unfold ctx_agrees. cbn. rewrite H. destruct u; reflexivity. Qed.

  Lemma coin_predicate_restored u o a s tp e1 g p pd :
    coin_info d u = Some (o, a, s) ->
    ctx_agrees D coin_info msg_info mint_ptr d T_CoinPredicate (VR [u; o; a; s; tp; VR [e1]; VN g; VB p; VB pd]).
  Proof. intros H. unfold ctx_agrees. cbn. rewrite H. destruct u; reflexivity. Qed.

  Lemma message_data_predicate_restored sn rc a n e1 g dt p pd :
    msg_info d (VB n) = Some (sn, rc, a, dt) ->
    ctx_agrees D coin_info msg_info mint_ptr d (T_Message T_Empty AN with_data TPredicateCode ABytes)
      (VR [sn; rc; a; VB n; VR [e1]; VN g; dt; VB p; VB pd]).
  Proof. intros H. unfold ctx_agrees. cbn. rewrite H. reflexivity. Qed.

  Lemma message_coin_signed_restored sn rc a n wi e1 e2 e3 e4 :
    msg_info d (VB n) = Some (sn, rc, a, VB []) ->
    ctx_agrees D coin_info msg_info mint_ptr d (T_Message AN T_Empty no_data T_Empty T_Empty)
      (VR [sn; rc; a; VB n; VN wi; VR [e1]; VR [e2]; VR [e3]; VR [e4]]).
  Proof. intros H. unfold ctx_agrees. cbn. rewrite H. reflexivity. Qed.

  Lemma mint_restored bh ti ic oc amt asset gp :
    mint_ptr d = Some (VR [VN bh; VN ti]) ->
    ctx_agrees D coin_info msg_info mint_ptr d T_Mint
      (VR [VR [VN bh; VN ti]; VR [ic; VB []; VB []; VR [VN 0; VN 0]; VB []]; VR [VN oc; VB []; VB []]; VN amt; VB asset; VN gp]) .
  Proof. intros H. unfold ctx_agrees. cbn. rewrite H. reflexivity. Qed.
End Restored.

(* ================================================================ a context can serve as its own
   decompression context: if every registration it hands out is "stable" (keeps holding while the
   same transaction goes on), the facts of a whole compression hold in the final state *)
Section OwnContext.
  Variable St : Type.
  Variable reg_compress : St -> N -> bytes -> option (St * N).
  Variable utxo_compress : St -> val -> option (St * val).
  Variable reg_get : St -> N -> N -> option bytes.
  Variable utxo_get : St -> val -> option val.
  Variable stable : St -> fact -> Prop.

  Hypothesis stable_holds : forall s f, stable s f ->
    match f with FReg ks k b => reg_get s ks k = Some b | FUtxo c u => utxo_get s c = Some u end.
  Hypothesis reg_step : forall s ks b s' k, reg_compress s ks b = Some (s', k) ->
    stable s' (FReg ks k b) /\ (forall f, stable s f -> stable s' f).
  Hypothesis utxo_step : forall s u s' c, utxo_compress s u = Some (s', c) ->
    stable s' (FUtxo c u) /\ (forall f, stable s f -> stable s' f).

  Notation compress := (compress St reg_compress utxo_compress).
  Notation compress_fields := (compress_fields St reg_compress utxo_compress).
  Notation compress_variants := (compress_variants St reg_compress utxo_compress).

  Definition good (s s' : St) (fs : list fact) : Prop :=
    Forall (stable s') fs /\ (forall f, stable s f -> stable s' f).

  Lemma good_app s s1 s2 f1 f2 : good s s1 f1 -> good s1 s2 f2 -> good s s2 (f1 ++ f2).
  Proof.
    intros [A1 B1] [A2 B2]. split.
    - apply Forall_app. split; [|exact A2]. eapply Forall_impl; [|exact A1]. intros a. apply B2.
    - intros f Hf. apply B2, B1, Hf.
  Qed.

  Lemma compress_list_good (cf : St -> val -> option (St * val * list fact)) :
    (forall s v s' c f, cf s v = Some (s', c, f) -> good s s' f) ->
    forall l s s' cs f, compress_list St cf s l = Some (s', cs, f) -> good s s' f.
  Proof.
    intros IH. induction l as [|x l IHl]; intros s s' cs f H; cbn [compress_list] in H.
    - injection H as <- <- <-. split; [constructor | auto].
    - destruct (cf s x) as [[[s1 c] f1]|] eqn:E1; [|discriminate].
      destruct (compress_list St cf s1 l) as [[[s2 cs'] f2]|] eqn:E2; [|discriminate].
      injection H as <- <- <-. eapply good_app; [eapply IH; exact E1 | eapply IHl; exact E2].
  Qed.

  Theorem own_facts_all :
    (forall t s v s' c f, compress t s v = Some (s', c, f) -> good s s' f) /\
    (forall fs s l s' cs f, compress_fields fs s l = Some (s', cs, f) -> good s s' f) /\
    (forall vs i s l s' cs f, compress_variants vs i s l = Some (s', cs, f) -> good s s' f).
  Proof.
    apply cschema_mutind.
    - intros dflt s v s' c f H. injection H as <- <- <-. split; [constructor | auto].
    - intros s v s' c f H. injection H as <- <- <-. split; [constructor | auto].
    - intros ks dflt s v s' c f H. destruct v as [| b | | | |]; try discriminate.
      change (match reg_compress s ks b with Some (s', k) => Some (s', VN k, [FReg ks k b]) | None => None end = Some (s', c, f)) in H.
      destruct (reg_compress s ks b) as [[s1 k]|] eqn:E; [|discriminate]. injection H as <- <- <-.
      destruct (reg_step _ _ _ _ _ E) as [A B]. split; [constructor; [exact A | constructor] | exact B].
    - intros s v s' c f H.
      change (match utxo_compress s v with Some (s', c) => Some (s', c, [FUtxo c v]) | None => None end = Some (s', c, f)) in H.
      destruct (utxo_compress s v) as [[s1 c1]|] eqn:E; [|discriminate]. injection H as <- <- <-.
      destruct (utxo_step _ _ _ _ E) as [A B]. split; [constructor; [exact A | constructor] | exact B].
    - intros t IH s v s' c f H. destruct v as [| | | l | |]; try discriminate.
      change (match compress_list St (compress t) s l with Some (s', cs, f) => Some (s', VL cs, f) | None => None end = Some (s', c, f)) in H.
      destruct (compress_list St (compress t) s l) as [[[s1 cs] f1]|] eqn:E; [|discriminate]. injection H as <- <- <-.
      eapply compress_list_good; [exact IH | exact E].
    - intros rk fs IH s v s' c f H. destruct v as [| | | | l |]; try discriminate.
      change (match compress_fields fs s l with Some (s', cs, f) => Some (s', VR cs, f) | None => None end = Some (s', c, f)) in H.
      destruct (compress_fields fs s l) as [[[s1 cs] f1]|] eqn:E; [|discriminate]. injection H as <- <- <-.
      eapply IH; exact E.
    - intros vs IH s v s' c f H. destruct v as [| | | | | i l]; try discriminate.
      change (match compress_variants vs i s l with Some (s', cs, f) => Some (s', VE i cs, f) | None => None end = Some (s', c, f)) in H.
      destruct (compress_variants vs i s l) as [[[s1 cs] f1]|] eqn:E; [|discriminate]. injection H as <- <- <-.
      eapply IH; exact E.
    - intros s l s' cs f H. destruct l; [|discriminate]. injection H as <- <- <-. split; [constructor | auto].
    - intros n a m t IHt r IHr s l s' cs f H. destruct l as [|v l]; [discriminate|].
      change ((if is_skipped a then compress_fields r s l
               else match compress t s v with
                    | Some (s1, c, f1) =>
                        match compress_fields r s1 l with Some (s2, cs, f2) => Some (s2, c :: cs, f1 ++ f2) | None => None end
                    | None => None
                    end) = Some (s', cs, f)) in H.
      destruct (is_skipped a); [eapply IHr; exact H|].
      destruct (compress t s v) as [[[s1 c] f1]|] eqn:E1; [|discriminate].
      destruct (compress_fields r s1 l) as [[[s2 cs'] f2]|] eqn:E2; [|discriminate].
      injection H as <- <- <-. eapply good_app; [eapply IHt; exact E1 | eapply IHr; exact E2].
    - intros i s l s' cs f H. discriminate.
    - intros n fs IHfs r IHr i s l s' cs f H. destruct i as [|j]; [eapply IHfs | eapply IHr]; exact H.
  Qed.

  Theorem own_context_holds t s v s' c f :
    compress t s v = Some (s', c, f) -> holds St reg_get utxo_get s' f.
  Proof.
    intros H. destruct (proj1 own_facts_all t s v s' c f H) as [A _]. clear H.
    induction A as [|x l Hx _ IH]; [exact I|].
    pose proof (stable_holds _ _ Hx) as Hh. destruct x; cbn [CompressModel.holds]; (split; [exact Hh | exact IH]).
  Qed.
End OwnContext.
