(* DaComp/CompressModel.v — DA compression as schema-directed maps (C07).  Definitions only.

   Mirrors: fuel-derive/src/compression/{compress,decompress}.rs (the derive: fields marked
   `#[compress(skip)]` are dropped from the compressed type and come back as Default),
   fuel-compression/src/impls.rs (identity compression of integers / byte arrays / Bytes, Vec<T>
   element-wise and in order), the `Compressible` impls that substitute a value by a
   RegistryKey (Address, AssetId, ContractId, ScriptCode, PredicateCode) or by a context-chosen
   CompressedUtxoId (UtxoId), and the three hand-written `DecompressibleBy` impls every context
   has to supply because the types only derive `Compress`: Coin<_> and Message<_> (skipped
   fields restored from UTXO / message facts looked up by utxo id / nonce) and Mint (tx_pointer
   from the block being decompressed) - written after fuel-tx/src/tests/da_compression.rs.

   Values (neutral form, produced by the harness from the serde view of the Rust value):
     VN n   integers, registry keys          VB b   byte arrays / Bytes
     VU     unit (PhantomData)               VL l   Vec<T>
     VR l   struct: one value per field      VE i l enum: variant index, field values *)
From FV Require Export Base.Bytes Base.U64.
Open Scope N_scope.

Inductive val : Type :=
| VN (n : N) | VB (b : bytes) | VU | VL (l : list val) | VR (l : list val) | VE (i : nat) (l : list val).

Fixpoint val_eqb (a b : val) : bool :=
  let fix leq (xs ys : list val) : bool :=
    match xs, ys with
    | [], [] => true
    | x :: xs', y :: ys' => val_eqb x y && leq xs' ys'
    | _, _ => false
    end in
  match a, b with
  | VN x, VN y => x =? y
  | VB x, VB y => bytes_eqb x y
  | VU, VU => true
  | VL x, VL y => leq x y
  | VR x, VR y => leq x y
  | VE i x, VE j y => Nat.eqb i j && leq x y
  | _, _ => false
  end.

(* where a skipped field of a context-decompressed type is restored from *)
Inductive rsrc : Type :=
| RCoinOwner | RCoinAmount | RCoinAsset
| RMsgSender | RMsgRecipient | RMsgAmount | RMsgData
| RMintTxPointer.
Definition rsrc_eqb (a b : rsrc) : bool :=
  match a, b with
  | RCoinOwner, RCoinOwner | RCoinAmount, RCoinAmount | RCoinAsset, RCoinAsset
  | RMsgSender, RMsgSender | RMsgRecipient, RMsgRecipient | RMsgAmount, RMsgAmount | RMsgData, RMsgData
  | RMintTxPointer, RMintTxPointer => true
  | _, _ => false
  end.

Inductive fattr : Type :=
| Keep                          (* compressed recursively *)
| SkipDefault                   (* #[compress(skip)], comes back as Default::default() *)
| SkipRestore (src : rsrc).     (* #[compress(skip)], restored by the context's Decompress impl *)
Definition is_skipped (a : fattr) : bool := match a with Keep => false | _ => true end.

(* which context lookup a struct's hand-written Decompress impl performs *)
Inductive rkind : Type := RKNone | RKCoin | RKMessage | RKMint.

Inductive cty : Type :=
| CAtom (dflt : val)                 (* identity compression; Default value of the type *)
| CUnit                              (* PhantomData *)
| CReg (ks : N) (dflt : val)         (* replaced by a RegistryKey of keyspace ks *)
| CUtxo                              (* UtxoId -> CompressedUtxoId, chosen by the context *)
| CVec (t : cty)
| CStruct (rk : rkind) (fs : cfields)
| CEnum (vs : cvariants)
with cfields : Type :=
| CFNil
| CFCons (name : string) (a : fattr) (malleable : bool) (t : cty) (r : cfields)
with cvariants : Type :=
| CVNil
| CVCons (name : string) (fs : cfields) (r : cvariants).

Scheme cty_mind := Induction for cty Sort Prop
  with cfields_mind := Induction for cfields Sort Prop
  with cvariants_mind := Induction for cvariants Sort Prop.
Combined Scheme cschema_mutind from cty_mind, cfields_mind, cvariants_mind.

Fixpoint mk_cfields (l : list (string * fattr * bool * cty)) : cfields :=
  match l with [] => CFNil | (n, a, m, t) :: r => CFCons n a m t (mk_cfields r) end.
Fixpoint mk_cvariants (l : list (string * list (string * fattr * bool * cty))) : cvariants :=
  match l with [] => CVNil | (n, fs) :: r => CVCons n (mk_cfields fs) (mk_cvariants r) end.

(* ---------------------------------------------------------------- Default, erasure, strip *)
Fixpoint cdefault (t : cty) : val :=
  match t with
  | CAtom d => d
  | CUnit => VU
  | CReg _ d => d
  | CUtxo => VR [VB (zeros 32); VN 0]
  | CVec _ => VL []
  | CStruct _ fs => VR (cdefault_fields fs)
  | CEnum _ => VE 0 []                 (* enums are never skipped in the repository schemas *)
  end
with cdefault_fields (fs : cfields) : list val :=
  match fs with CFNil => [] | CFCons _ _ _ t r => cdefault t :: cdefault_fields r end.

(* [erase sel] replaces by Default the fields whose attribute is selected; used with
   sel = is_skipped (what the derive's compressed type forgets) and
   sel = "SkipDefault only" (what is still missing after the context restored what it can) *)
Fixpoint erase (sel : fattr -> bool) (t : cty) (v : val) {struct t} : val :=
  match t, v with
  | CVec t', VL l => VL (map (erase sel t') l)
  | CStruct _ fs, VR l => VR (erase_fields sel fs l)
  | CEnum vs, VE i l => VE i (erase_variants sel vs i l)
  | _, _ => v
  end
with erase_fields (sel : fattr -> bool) (fs : cfields) (l : list val) {struct fs} : list val :=
  match fs, l with
  | CFCons _ a _ t r, v :: l' => (if sel a then cdefault t else erase sel t v) :: erase_fields sel r l'
  | _, _ => []
  end
with erase_variants (sel : fattr -> bool) (vs : cvariants) (i : nat) (l : list val) {struct vs} : list val :=
  match vs with
  | CVNil => l
  | CVCons _ fs r => match i with O => erase_fields sel fs l | S j => erase_variants sel r j l end
  end.
Definition only_default (a : fattr) : bool := match a with SkipDefault => true | _ => false end.

(* the id specification's view (C03): fields flagged malleable are replaced by Default before
   hashing (prepare_sign zeroes them; witnesses are cleared; metadata is not encoded) *)
Fixpoint strip (t : cty) (v : val) {struct t} : val :=
  match t, v with
  | CVec t', VL l => VL (map (strip t') l)
  | CStruct _ fs, VR l => VR (strip_fields fs l)
  | CEnum vs, VE i l => VE i (strip_variants vs i l)
  | _, _ => v
  end
with strip_fields (fs : cfields) (l : list val) {struct fs} : list val :=
  match fs, l with
  | CFCons _ _ m t r, v :: l' => (if m then cdefault t else strip t v) :: strip_fields r l'
  | _, _ => []
  end
with strip_variants (vs : cvariants) (i : nat) (l : list val) {struct vs} : list val :=
  match vs with
  | CVNil => l
  | CVCons _ fs r => match i with O => strip_fields fs l | S j => strip_variants r j l end
  end.

(* list-inclusion obligation: every field that is skipped and NOT restored is malleable *)
Fixpoint skip_incl (t : cty) : bool :=
  match t with
  | CVec t' => skip_incl t'
  | CStruct _ fs => skip_incl_fields fs
  | CEnum vs => skip_incl_variants vs
  | _ => true
  end
with skip_incl_fields (fs : cfields) : bool :=
  match fs with
  | CFNil => true
  | CFCons _ a m t r =>
      (match a with SkipDefault => m | _ => skip_incl t end) && skip_incl_fields r
  end
with skip_incl_variants (vs : cvariants) : bool :=
  match vs with CVNil => true | CVCons _ fs r => skip_incl_fields fs && skip_incl_variants r end.

(* the offending (type-path, field) pairs, for the error message when the obligation fails *)
Fixpoint skip_offenders (t : cty) : list string :=
  match t with
  | CVec t' => skip_offenders t'
  | CStruct _ fs => skip_offenders_fields fs
  | CEnum vs => skip_offenders_variants vs
  | _ => []
  end
with skip_offenders_fields (fs : cfields) : list string :=
  match fs with
  | CFNil => []
  | CFCons n a m t r =>
      (match a with SkipDefault => if m then [] else [n] | _ => skip_offenders t end)
        ++ skip_offenders_fields r
  end
with skip_offenders_variants (vs : cvariants) : list string :=
  match vs with CVNil => [] | CVCons _ fs r => skip_offenders_fields fs ++ skip_offenders_variants r end.

(* ---------------------------------------------------------------- results *)
Inductive cerr : Type :=
| EKeyNotFound | EUtxoNotFound | ECoinNotFound | EMessageNotFound | ENoTxPointer | EShape.
Inductive cres (A : Type) : Type := COk (a : A) | CErr (e : cerr).
Arguments COk {A} a.
Arguments CErr {A} e.
Definition cbind {A B} (r : cres A) (f : A -> cres B) : cres B :=
  match r with COk a => f a | CErr e => CErr e end.
Notation "'let^' x := r 'in' k" := (cbind r (fun x => k))
  (at level 200, x pattern, r at level 100, k at level 200, right associativity).
Fixpoint cmapM {A B} (f : A -> cres B) (l : list A) : cres (list B) :=
  match l with
  | [] => COk []
  | x :: r => let^ y := f x in let^ ys := cmapM f r in COk (y :: ys)
  end.

(* what compression tells the outside world it relies on *)
Inductive fact : Type :=
| FReg (ks key : N) (value : bytes)       (* key of keyspace ks stands for value *)
| FUtxo (compressed utxo : val).          (* compressed id stands for utxo id *)

Section Generic.
  (* ------------------------------------------------------------ abstract compression context *)
  Variable St : Type.                                         (* state of the compressing context *)
  Variable reg_compress : St -> N -> bytes -> option (St * N). (* CompressibleBy<Ctx> for Address.. *)
  Variable utxo_compress : St -> val -> option (St * val).     (* CompressibleBy<Ctx> for UtxoId *)

  (* Vec<T>: element by element, in order, threading the context *)
  Fixpoint compress_list (f : St -> val -> option (St * val * list fact)) (s : St) (l : list val)
    : option (St * list val * list fact) :=
    match l with
    | [] => Some (s, [], [])
    | x :: r =>
        match f s x with
        | Some (s1, c, f1) =>
            match compress_list f s1 r with Some (s2, cs, f2) => Some (s2, c :: cs, f1 ++ f2) | None => None end
        | None => None
        end
    end.

  Fixpoint compress (t : cty) (s : St) (v : val) {struct t} : option (St * val * list fact) :=
    match t with
    | CAtom _ => Some (s, v, [])
    | CUnit => Some (s, v, [])
    | CReg ks _ =>
        match v with
        | VB b => match reg_compress s ks b with Some (s', k) => Some (s', VN k, [FReg ks k b]) | None => None end
        | _ => None
        end
    | CUtxo => match utxo_compress s v with Some (s', c) => Some (s', c, [FUtxo c v]) | None => None end
    | CVec t' =>
        match v with
        | VL l =>
            match compress_list (compress t') s l with
            | Some (s', cs, f) => Some (s', VL cs, f)
            | None => None
            end
        | _ => None
        end
    | CStruct _ fs =>
        match v with
        | VR l => match compress_fields fs s l with Some (s', cs, f) => Some (s', VR cs, f) | None => None end
        | _ => None
        end
    | CEnum vs =>
        match v with
        | VE i l => match compress_variants vs i s l with Some (s', cs, f) => Some (s', VE i cs, f) | None => None end
        | _ => None
        end
    end
  with compress_fields (fs : cfields) (s : St) (l : list val) {struct fs} : option (St * list val * list fact) :=
    match fs, l with
    | CFNil, [] => Some (s, [], [])
    | CFCons _ a _ t r, v :: l' =>
        if is_skipped a then compress_fields r s l'
        else match compress t s v with
             | Some (s1, c, f1) =>
                 match compress_fields r s1 l' with Some (s2, cs, f2) => Some (s2, c :: cs, f1 ++ f2) | None => None end
             | None => None
             end
    | _, _ => None
    end
  with compress_variants (vs : cvariants) (i : nat) (s : St) (l : list val) {struct vs} : option (St * list val * list fact) :=
    match vs with
    | CVNil => None
    | CVCons _ fs r => match i with O => compress_fields fs s l | S j => compress_variants r j s l end
    end.

  (* ------------------------------------------------------------ abstract decompression context *)
  Variable D : Type.
  Variable reg_get : D -> N -> N -> option bytes.            (* DecompressibleBy<Ctx> for Address.. *)
  Variable utxo_get : D -> val -> option val.                (* DecompressibleBy<Ctx> for UtxoId *)
  Variable coin_info : D -> val -> option (val * val * val). (* utxo id -> owner, amount, asset id *)
  Variable msg_info : D -> val -> option (val * val * val * val). (* nonce -> sender, recipient, amount, data *)
  Variable mint_ptr : D -> option val.                       (* tx pointer of the block's mint *)

  Fixpoint holds (d : D) (fs : list fact) : Prop :=
    match fs with
    | [] => True
    | FReg ks k b :: r => reg_get d ks k = Some b /\ holds d r
    | FUtxo c u :: r => utxo_get d c = Some u /\ holds d r
    end.

  Fixpoint field_val (name : string) (fs : cfields) (l : list val) : option val :=
    match fs, l with
    | CFCons n _ _ _ r, v :: l' => if String.eqb n name then Some v else field_val name r l'
    | _, _ => None
    end.
  Fixpoint assoc_src (s : rsrc) (info : list (rsrc * val)) : option val :=
    match info with [] => None | (s', v) :: r => if rsrc_eqb s s' then Some v else assoc_src s r end.
  Fixpoint set_srcs (fs : cfields) (l : list val) (info : list (rsrc * val)) : list val :=
    match fs, l with
    | CFCons _ a _ _ r, v :: l' =>
        (match a with
         | SkipRestore s => match assoc_src s info with Some x => x | None => v end
         | _ => v
         end) :: set_srcs r l' info
    | _, _ => []
    end.

  (* the restoring half of the context's Decompress impl for Coin / Message / Mint: look the facts
     up (by the decompressed utxo id / by the nonce) and put them into the skipped fields *)
  Definition fill (rk : rkind) (d : D) (fs : cfields) (l : list val) : cres (list val) :=
    match rk with
    | RKNone => COk l
    | RKCoin =>
        match field_val "utxo_id" fs l with
        | Some u => match coin_info d u with
                    | Some (o, a, s) => COk (set_srcs fs l [(RCoinOwner, o); (RCoinAmount, a); (RCoinAsset, s)])
                    | None => CErr ECoinNotFound
                    end
        | None => CErr EShape
        end
    | RKMessage =>
        match field_val "nonce" fs l with
        | Some n => match msg_info d n with
                    | Some (sn, rc, a, dt) =>
                        COk (set_srcs fs l [(RMsgSender, sn); (RMsgRecipient, rc); (RMsgAmount, a); (RMsgData, dt)])
                    | None => CErr EMessageNotFound
                    end
        | None => CErr EShape
        end
    | RKMint =>
        match mint_ptr d with
        | Some p => COk (set_srcs fs l [(RMintTxPointer, p)])
        | None => CErr ENoTxPointer
        end
    end.

  Fixpoint decompress (t : cty) (d : D) (c : val) {struct t} : cres val :=
    match t with
    | CAtom _ => COk c
    | CUnit => COk c
    | CReg ks _ =>
        match c with
        | VN k => match reg_get d ks k with Some b => COk (VB b) | None => CErr EKeyNotFound end
        | _ => CErr EShape
        end
    | CUtxo => match utxo_get d c with Some u => COk u | None => CErr EUtxoNotFound end
    | CVec t' => match c with VL l => let^ vs := cmapM (decompress t' d) l in COk (VL vs) | _ => CErr EShape end
    | CStruct rk fs =>
        match c with
        | VR l => let^ vs := decompress_fields fs d l in let^ vs' := fill rk d fs vs in COk (VR vs')
        | _ => CErr EShape
        end
    | CEnum vs =>
        match c with
        | VE i l => let^ xs := decompress_variants vs i d l in COk (VE i xs)
        | _ => CErr EShape
        end
    end
  with decompress_fields (fs : cfields) (d : D) (l : list val) {struct fs} : cres (list val) :=
    match fs with
    | CFNil => match l with [] => COk [] | _ => CErr EShape end
    | CFCons _ a _ t r =>
        if is_skipped a then let^ vs := decompress_fields r d l in COk (cdefault t :: vs)
        else match l with
             | [] => CErr EShape
             | c :: l' => let^ v := decompress t d c in let^ vs := decompress_fields r d l' in COk (v :: vs)
             end
    end
  with decompress_variants (vs : cvariants) (i : nat) (d : D) (l : list val) {struct vs} : cres (list val) :=
    match vs with
    | CVNil => CErr EShape
    | CVCons _ fs r => match i with O => decompress_fields fs d l | S j => decompress_variants r j d l end
    end.

  (* [restore]: the same restoring step applied to an (erased) uncompressed value *)
  Fixpoint restore (t : cty) (d : D) (v : val) {struct t} : cres val :=
    match t with
    | CVec t' => match v with VL l => let^ vs := cmapM (restore t' d) l in COk (VL vs) | _ => CErr EShape end
    | CStruct rk fs =>
        match v with
        | VR l => let^ vs := restore_fields fs d l in let^ vs' := fill rk d fs vs in COk (VR vs')
        | _ => CErr EShape
        end
    | CEnum vs =>
        match v with
        | VE i l => let^ xs := restore_variants vs i d l in COk (VE i xs)
        | _ => CErr EShape
        end
    | _ => COk v
    end
  with restore_fields (fs : cfields) (d : D) (l : list val) {struct fs} : cres (list val) :=
    match fs with
    | CFNil => match l with [] => COk [] | _ => CErr EShape end
    | CFCons _ a _ t r =>
        match l with
        | [] => CErr EShape
        | v :: l' =>
            if is_skipped a then let^ vs := restore_fields r d l' in COk (v :: vs)
            else let^ v' := restore t d v in let^ vs := restore_fields r d l' in COk (v' :: vs)
        end
    end
  with restore_variants (vs : cvariants) (i : nat) (d : D) (l : list val) {struct vs} : cres (list val) :=
    match vs with
    | CVNil => CErr EShape
    | CVCons _ fs r => match i with O => restore_fields fs d l | S j => restore_variants r j d l end
    end.
End Generic.
