(* DaComp/TxSchema.v — the compression schema (universe of DaComp/CompressModel.v) of
   fuel_tx::Transaction as seen through its serde view (the cached `metadata` fields, which are
   #[serde(skip)] and #[compress(skip)], are not part of that view; the harness checks directly
   that they come back as None).

   Three independent pieces of information per field:
     * attribute  Keep / SkipDefault / SkipRestore  — the `#[compress(skip)]` flags are checked
       against the generated Gen/CompressSkips.v (lemma schema_matches_source); which of the
       skipped fields a context restores (SkipRestore) mirrors the hand-written Decompress impls
       for Coin / Message / Mint of the reference context (fuel-tx/src/tests/da_compression.rs);
     * malleable  — the id specification of C03: zeroed by prepare_sign / witnesses cleared.
       (When coq/Codec's C03 machinery is complete this column should be replaced by its
       generated Gen/PrepareSign.v; until then it is written from the prepare_sign bodies.)
     * the field's own compression schema.
   Registry keyspaces: 0 Address, 1 AssetId, 2 ContractId, 3 ScriptCode, 4 PredicateCode. *)
From FV Require Export DaComp.CompressModel.
From FV Require Import Gen.CompressSkips.
Open Scope N_scope.
Local Open Scope string_scope.

Definition z32 : val := VB (zeros 32).
Definition AN : cty := CAtom (VN 0).
Definition A32 : cty := CAtom z32.
Definition ABytes : cty := CAtom (VB []).
Definition APolicies : cty := CAtom VU.
Definition TAddress : cty := CReg 0 z32.
Definition TAssetId : cty := CReg 1 z32.
Definition TContractId : cty := CReg 2 z32.
Definition TScriptCode : cty := CReg 3 (VB []).
Definition TPredicateCode : cty := CReg 4 (VB []).

Definition cstruct (rk : rkind) (l : list (string * fattr * bool * cty)) : cty := CStruct rk (mk_cfields l).
Definition keep (n : string) (t : cty) := (n, Keep, false, t).
Definition keep_m (n : string) (t : cty) := (n, Keep, true, t).           (* kept, but malleable *)
Definition skip_m (n : string) (t : cty) := (n, SkipDefault, true, t).    (* skipped, malleable *)
Definition restored (n : string) (s : rsrc) (t : cty) := (n, SkipRestore s, false, t).

Definition T_TxPointer : cty := cstruct RKNone [keep "block_height" AN; keep "tx_index" AN].
(* Empty<T>(#[compress(skip)] PhantomData<T>): carries no information *)
Definition T_Empty : cty := cstruct RKNone [skip_m "0" CUnit].

Definition T_Coin (wi pgu pred pdata : cty) : cty :=
  cstruct RKCoin [keep "utxo_id" CUtxo; restored "owner" RCoinOwner TAddress; restored "amount" RCoinAmount AN;
                  restored "asset_id" RCoinAsset TAssetId; skip_m "tx_pointer" T_TxPointer;
                  keep "witness_index" wi; keep_m "predicate_gas_used" pgu; keep "predicate" pred;
                  keep "predicate_data" pdata].
Definition T_CoinSigned := T_Coin AN T_Empty T_Empty T_Empty.
Definition T_CoinPredicate := T_Coin T_Empty AN TPredicateCode ABytes.
Definition T_InContract : cty :=
  cstruct RKNone [skip_m "utxo_id" CUtxo; skip_m "balance_root" A32; skip_m "state_root" A32;
                  skip_m "tx_pointer" T_TxPointer; keep "contract_id" TContractId].
Definition T_Message (wi pgu : cty) (data : string * fattr * bool * cty) (pred pdata : cty) : cty :=
  cstruct RKMessage [restored "sender" RMsgSender TAddress; restored "recipient" RMsgRecipient TAddress;
                     restored "amount" RMsgAmount AN; keep "nonce" A32; keep "witness_index" wi;
                     keep_m "predicate_gas_used" pgu; data; keep "predicate" pred; keep "predicate_data" pdata].
Definition no_data := skip_m "data" T_Empty.                      (* MessageCoin*: Empty<Bytes>, Default *)
Definition with_data := restored "data" RMsgData ABytes.          (* MessageData*: restored from the message *)
Definition T_Input : cty :=
  CEnum (mk_cvariants
    [("CoinSigned", [keep "0" T_CoinSigned]);
     ("CoinPredicate", [keep "0" T_CoinPredicate]);
     ("Contract", [keep "0" T_InContract]);
     ("MessageCoinSigned", [keep "0" (T_Message AN T_Empty no_data T_Empty T_Empty)]);
     ("MessageCoinPredicate", [keep "0" (T_Message T_Empty AN no_data TPredicateCode ABytes)]);
     ("MessageDataSigned", [keep "0" (T_Message AN T_Empty with_data T_Empty T_Empty)]);
     ("MessageDataPredicate", [keep "0" (T_Message T_Empty AN with_data TPredicateCode ABytes)])]).

Definition T_OutContract : cty :=
  cstruct RKNone [keep "input_index" AN; skip_m "balance_root" A32; skip_m "state_root" A32].
Definition T_Output : cty :=
  CEnum (mk_cvariants
    [("Coin", [keep "to" TAddress; keep "amount" AN; keep "asset_id" TAssetId]);
     ("Contract", [keep "0" T_OutContract]);
     ("Change", [keep "to" TAddress; skip_m "amount" AN; keep "asset_id" TAssetId]);
     ("Variable", [skip_m "to" TAddress; skip_m "amount" AN; skip_m "asset_id" TAssetId]);
     ("ContractCreated", [keep "contract_id" TContractId; keep "state_root" A32])]).

Definition T_Witness : cty := cstruct RKNone [keep "data" ABytes].
Definition T_StorageSlot : cty := cstruct RKNone [keep "key" A32; keep "value" A32].
Definition T_UpgradePurpose : cty :=
  CEnum (mk_cvariants [("ConsensusParameters", [keep "witness_index" AN; keep "checksum" A32]);
                       ("StateTransition", [keep "root" A32])]).
Definition T_ScriptBody : cty :=
  cstruct RKNone [keep "script_gas_limit" AN; skip_m "receipts_root" A32; keep "script" TScriptCode; keep "script_data" ABytes].
Definition T_CreateBody : cty :=
  cstruct RKNone [keep "bytecode_witness_index" AN; keep "salt" A32; keep "storage_slots" (CVec T_StorageSlot)].
Definition T_UpgradeBody : cty := cstruct RKNone [keep "purpose" T_UpgradePurpose].
Definition T_UploadBody : cty :=
  cstruct RKNone [keep "root" A32; keep "witness_index" AN; keep "subsection_index" AN;
                  keep "subsections_number" AN; keep "proof_set" (CVec A32)].
Definition T_BlobBody : cty := cstruct RKNone [keep "id" A32; keep "witness_index" AN].
Definition T_Chargeable (body : cty) : cty :=
  cstruct RKNone [keep "body" body; keep "policies" APolicies; keep "inputs" (CVec T_Input);
                  keep "outputs" (CVec T_Output); keep_m "witnesses" (CVec T_Witness)].
Definition T_Mint : cty :=
  cstruct RKMint [restored "tx_pointer" RMintTxPointer T_TxPointer; keep "input_contract" T_InContract;
                  keep "output_contract" T_OutContract; keep "mint_amount" AN; keep "mint_asset_id" TAssetId;
                  keep "gas_price" AN].
Definition T_Transaction : cty :=
  CEnum (mk_cvariants
    [("Script", [keep "0" (T_Chargeable T_ScriptBody)]);
     ("Create", [keep "0" (T_Chargeable T_CreateBody)]);
     ("Mint", [keep "0" T_Mint]);
     ("Upgrade", [keep "0" (T_Chargeable T_UpgradeBody)]);
     ("Upload", [keep "0" (T_Chargeable T_UploadBody)]);
     ("Blob", [keep "0" (T_Chargeable T_BlobBody)])]).

(* ---------------------------------------------------------------- tie to the source: skip flags *)
Fixpoint field_flags (fs : cfields) : list (string * bool) :=
  match fs with CFNil => [] | CFCons n a _ _ r => (n, is_skipped a) :: field_flags r end.
Fixpoint variant_flags (vs : cvariants) : list (string * list (string * bool)) :=
  match vs with CVNil => [] | CVCons n fs r => (n, field_flags fs) :: variant_flags r end.
Definition flags_of (t : cty) : list (string * list (string * bool)) :=
  match t with CStruct _ fs => [("", field_flags fs)] | CEnum vs => variant_flags vs | _ => [] end.
(* derives Decompress  <->  nothing for the context to restore *)
Definition derives_decompress (t : cty) : bool :=
  match t with CStruct RKNone _ | CEnum _ => true | _ => false end.

(* Rust item (named as in Gen/CompressSkips.v) -> the schemas instantiating it *)
Definition schema_items : list (string * list cty) :=
  [("blob_BlobBody", [T_BlobBody]);
   ("chargeable_transaction_ChargeableTransaction",
      [T_Chargeable T_ScriptBody; T_Chargeable T_CreateBody; T_Chargeable T_UpgradeBody; T_Chargeable T_UploadBody; T_Chargeable T_BlobBody]);
   ("create_CreateBody", [T_CreateBody]);
   ("input_Empty", [T_Empty]);
   ("input_Input", [T_Input]);
   ("input_coin_Coin", [T_CoinSigned; T_CoinPredicate]);
   ("input_contract_Contract", [T_InContract]);
   ("input_message_Message",
      [T_Message AN T_Empty no_data T_Empty T_Empty; T_Message T_Empty AN no_data TPredicateCode ABytes;
       T_Message AN T_Empty with_data T_Empty T_Empty; T_Message T_Empty AN with_data TPredicateCode ABytes]);
   ("mint_Mint", [T_Mint]);
   ("output_Output", [T_Output]);
   ("output_contract_Contract", [T_OutContract]);
   ("script_ScriptBody", [T_ScriptBody]);
   ("storage_StorageSlot", [T_StorageSlot]);
   ("transaction_Transaction", [T_Transaction]);
   ("tx_pointer_TxPointer", [T_TxPointer]);
   ("upgrade_UpgradeBody", [T_UpgradeBody]);
   ("upgrade_UpgradePurpose", [T_UpgradePurpose]);
   ("upload_UploadBody", [T_UploadBody]);
   ("witness_Witness", [T_Witness])].

Fixpoint flags_eqb (a b : list (string * bool)) : bool :=
  match a, b with
  | [], [] => true
  | (n, x) :: a', (m, y) :: b' => String.eqb n m && Bool.eqb x y && flags_eqb a' b'
  | _, _ => false
  end.
Fixpoint vflags_eqb (a b : list (string * list (string * bool))) : bool :=
  match a, b with
  | [], [] => true
  | (n, x) :: a', (m, y) :: b' => String.eqb n m && flags_eqb x y && vflags_eqb a' b'
  | _, _ => false
  end.
(* the serde view has no `metadata` field *)
Definition drop_metadata (l : list (string * list (string * bool))) :=
  map (fun v => (fst v, filter (fun f => negb (String.eqb (fst f) "metadata")) (snd v))) l.
Fixpoint lookup_item (n : string) (l : list (string * list cty)) : option (list cty) :=
  match l with [] => None | (m, ts) :: r => if String.eqb n m then Some ts else lookup_item n r end.

(* names of the source items that disagree with the schema (empty = tie holds) *)
Definition source_mismatches : list string :=
  map (fun it => fst (fst it))
    (filter (fun it =>
       match it with
       | (name, dec, vs) =>
           match lookup_item name schema_items with
           | Some ts => negb (forallb (fun t => vflags_eqb (flags_of t) (drop_metadata vs) && Bool.eqb (derives_decompress t) dec) ts)
                        || match ts with [] => true | _ => false end
           | None => true
           end
       end) compress_items).

Lemma schema_matches_source : source_mismatches = [] /\ length compress_items = length schema_items.
Proof. split; vm_compute; reflexivity. Qed.

(* the `metadata` fields that the view leaves out are skipped in the source *)
Lemma metadata_is_skipped :
  forallb (fun it => forallb (fun v => forallb (fun f => negb (String.eqb (fst f) "metadata") || snd f) (snd v)) (snd it))
          compress_items = true.
Proof. vm_compute. reflexivity. Qed.

(* ---------------------------------------------------------------- the list-inclusion obligation of C07_id *)
Lemma tx_skip_incl : skip_incl T_Transaction = true /\ skip_offenders T_Transaction = [].
Proof. split; vm_compute; reflexivity. Qed.
