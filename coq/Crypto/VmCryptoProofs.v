(* Crypto/VmCryptoProofs.v — the outcome of a VM signature instruction is a function of the library
   result alone: it does not depend on the previous value of $err. *)
From FV Require Import Base.Bytes Crypto.VmCryptoModel.
Open Scope N_scope.

Theorem vm_recover_independent_of_err e e' lib : vm_recover e lib = vm_recover e' lib.
Proof. destruct lib; reflexivity. Qed.
Theorem vm_ed19_independent_of_err e e' ok : vm_ed19 e ok = vm_ed19 e' ok.
Proof. destruct ok; reflexivity. Qed.

Theorem vm_recover_reports_library e lib :
  (fst (vm_recover e lib) = 0 <-> lib <> None) /\
  (forall pk, lib = Some pk -> vm_recover e lib = (0, pk)) /\
  (lib = None -> vm_recover e lib = (1, zeros 64)).
Proof.
  destruct lib as [pk|]; unfold vm_recover, clear_err, set_err; cbn [fst].
  - split; [split; [discriminate|reflexivity]|]. split; [intros pk' H; injection H as <-; reflexivity|discriminate].
  - split; [split; [discriminate|intros H; exfalso; apply H; reflexivity]|]. split; [discriminate|reflexivity].
Qed.
Theorem vm_ed19_reports_library e ok : vm_ed19 e ok = 0 <-> ok = true.
Proof. destruct ok; unfold vm_ed19, clear_err, set_err; split; intros H; try reflexivity; discriminate H. Qed.
