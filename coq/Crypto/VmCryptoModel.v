(* Crypto/VmCryptoModel.v — L1 model of the flag / output behaviour of the VM signature instructions
   (fuel-vm/src/interpreter/crypto.rs: secp256k1_recover, secp256r1_recover, ed25519_verify).
   The library call is an oracle: its result is an argument.  Definitions only.

     match signature.recover(message) {
         Ok(pub_key) => { memory.write_bytes(owner, a, *pub_key)?; clear_err(err); }
         Err(_)      => { memory.write_bytes(owner, a, [0; PublicKey::LEN])?; set_err(err); }
     }
     if ed25519::verify(..).is_ok() { clear_err(err) } else { set_err(err) }                        *)
From FV Require Import Base.Bytes.
Open Scope N_scope.

Definition clear_err (err : N) : N := 0.       (* *err = 0 *)
Definition set_err (err : N) : N := 1.         (* *err = 1 *)

(* ECK1 / ECR1: $err before, library result -> ($err after, the 64 bytes written at dst) *)
Definition vm_recover (err : N) (lib : option bytes) : N * bytes :=
  match lib with
  | Some pk => (clear_err err, pk)
  | None => (set_err err, zeros 64)
  end.
(* ED19: $err before, library verdict -> $err after *)
Definition vm_ed19 (err : N) (ok : bool) : N := if ok then clear_err err else set_err err.

(* a script step as observed by the harness: library result + what the VM showed after the op *)
Inductive vmop :=
| VRec (lib : option bytes) (err : N) (out : bytes)
| VEd (ok : bool) (err : N)
| VPre (err : N).                 (* some other instruction left $err at this value *)

Fixpoint vm_seq_ok (cur : N) (ops : list vmop) : bool :=
  match ops with
  | [] => true
  | VRec lib e o :: r => let '(e', o') := vm_recover cur lib in (e' =? e) && bytes_eqb o' o && vm_seq_ok e' r
  | VEd ok e :: r => let e' := vm_ed19 cur ok in (e' =? e) && vm_seq_ok e' r
  | VPre e :: r => vm_seq_ok e r
  end.
