(* Crypto/EcdsaWitness.v — concrete witnesses on the executable secp256k1 instance (pure-Z variant) (closed
   computations, no premises).  The same inputs are replayed on the real crates by
   harness/src/bin/ecdsa.rs (f5_witness, the sign oracle on d = 1 / ff..ff, the first C17 case), which
   observes the same results. *)
From Coq Require Import ZArith List Bool.
From FV Require Import Base.Bytes Crypto.EcdsaModel Crypto.Secp256k1.
Open Scope Z_scope.

Definition n_k1 : Z := c_n secp256k1_pure.

(* F5: r = Gx, s = n/2 + 1 (high, below 2^255), even parity, digest 1 *)
Definition f5_sig : bytes :=
  hex "79be667ef9dcbbac55a06295ce870b07029bfcdb2dce28d959f2815b16f817987fffffffffffffffffffffffffffffff5d576e7357a4501ddfe92f46681b20a1".
Definition f5_msg : bytes := hex "0000000000000000000000000000000000000000000000000000000000000001".
Definition f5_key : bytes :=
  hex "3635954789a02e39fb7e54440b6f528d53efd65635ddad7f3c4085f97fdbdc48ba546640fc34571ea374e344860c0e9c6c86c88993e4e5ade70bf1e05f2e9778".

Lemma f5_s_is_half_plus_one : sig_s (fst (decode_signature f5_sig)) = n_k1 / 2 + 1.
Proof. vm_compute. reflexivity. Qed.

(* current code (k256.rs recover normalises s, fix 378a736): both back-ends recover the same key *)
Lemma f5_backends_agree :
  m_recover_k256 secp256k1_pure f5_sig f5_msg = Some f5_key /\
  m_recover secp256k1_pure (rules_libsecp n_k1) f5_sig f5_msg = Some f5_key.
Proof. vm_compute. split; reflexivity. Qed.

(* HISTORICAL (before fix 378a736): recover_from_prehash alone, i.e. the k256 rules without the
   normalisation step, rejects this signature; this is what the k256 back-end used to return *)
Lemma f5_unnormalised_k256_rules_reject :
  m_recover secp256k1_pure (rules_k256 n_k1) f5_sig f5_msg = None.
Proof. vm_compute. reflexivity. Qed.

(* known finding backend-sign-mismatch-message-ge-n: d = 1, 32-byte message ff..ff (>= n).  The two
   libraries return DIFFERENT signatures (k256 feeds m mod n to the RFC 6979 nonce derivation,
   libsecp256k1 the raw bytes); both are valid: each recovers the public key of d = 1, i.e. G *)
Definition sgn_msg : bytes := hex "ffffffffffffffffffffffffffffffffffffffffffffffffffffffffffffffff".
Definition sgn_k256 : bytes :=
  hex "3f8fe493cf305a7f02b2d2c060ba66a8f7bd13a7a64d5200c0655ad069bd85b59cf94236c3857e33a1023a5216cbc81b1dc3adcc1c71f4212df1997ffdfb140a".
Definition sgn_libsecp : bytes :=
  hex "7cb38cc5712e9e11a767615f6080dbc111c9cdd613eb98999fd92a86bafd45407923ca1f4d03471d2866f776ef8a6d3cac099b427331aeb245aa9dafeddcf115".
Lemma sign_ge_n_witness :
  bytes_z sgn_msg >= n_k1 /\ sgn_k256 <> sgn_libsecp /\
  m_recover secp256k1_pure (rules_libsecp n_k1) sgn_k256 sgn_msg = pk_bytes (a_G secp256k1_pure) /\
  m_recover secp256k1_pure (rules_libsecp n_k1) sgn_libsecp sgn_msg = pk_bytes (a_G secp256k1_pure).
Proof. split; [vm_compute; discriminate|]. split; [discriminate|]. vm_compute. split; reflexivity. Qed.

(* F6: a signature produced by the library (d = 0x12345678, digest 1) and the digest 1 + n *)
Definition f6_sig : bytes :=
  hex "b2e9cdc1ce4eb449863712b34442138cd82c659a011ad90ce1e6ad1c28235672e932034f61f88af85e01a3f23eda4aac6e6fa4c9db418ab9219d615ce8e3be71".
Definition f6_msg : bytes := hex "0000000000000000000000000000000000000000000000000000000000000001".
Definition f6_msg' : bytes := hex "fffffffffffffffffffffffffffffffebaaedce6af48a03bbfd25e8cd0364142".
Definition f6_key : bytes :=
  hex "4cf7a9777c51afd98a605cc8dc54787686e632d716ebc6f186d40760845344c3fa3707e9a0908030cf6f8d21febadea9c7501206197433977e7b543e14d5a275".

Lemma f6_msgs : bytes_z f6_msg' = bytes_z f6_msg + n_k1 /\ f6_msg <> f6_msg'.
Proof. split; [vm_compute; reflexivity|discriminate]. Qed.

Lemma f6_same_key :
  m_recover secp256k1_pure (rules_libsecp n_k1) f6_sig f6_msg = Some f6_key /\
  m_recover secp256k1_pure (rules_libsecp n_k1) f6_sig f6_msg' = Some f6_key /\
  m_public_key secp256k1_pure (hex "0000000000000000000000000000000000000000000000000000000012345678") = Some f6_key.
Proof. vm_compute. repeat split; reflexivity. Qed.
