(* Crypto/EcdsaProofs.v — proofs about the model of Crypto/EcdsaModel.v under the group laws of
   Crypto/EcdsaSpec.v (explicit premises). *)
From Coq Require Import ZArith Znumtheory Zdiv Lia List Bool Morphisms Setoid.
From FV Require Import Base.Bytes Crypto.EcdsaModel Crypto.EcdsaSpec.
Import ListNotations.
Open Scope Z_scope.

(* ------------------------------------------------------------------ modular inverse *)
Section InvMod.
  Variable n : Z.
  Local Notation "a == b" := (eqm n a b) (at level 70).

  Lemma egcd_spec a : forall F r0 r1 s0 s1,
    0 <= r1 < r0 -> r0 * r1 < 2 ^ Z.of_nat F ->
    s0 * a == r0 -> s1 * a == r1 ->
    fst (egcd F r0 r1 s0 s1) = Z.gcd r0 r1 /\ snd (egcd F r0 r1 s0 s1) * a == fst (egcd F r0 r1 s0 s1).
  Proof.
    induction F as [|F IH]; intros r0 r1 s0 s1 Hr Hp H0 H1.
    - change (2 ^ Z.of_nat 0) with 1 in Hp. assert (r1 = 0) by nia. subst r1.
      cbn [egcd fst snd]. split; [|exact H0]. rewrite Z.gcd_0_r. lia.
    - cbn [egcd]. destruct (r1 =? 0) eqn:E.
      + apply Z.eqb_eq in E. subst r1. cbn [fst snd]. split; [|exact H0]. rewrite Z.gcd_0_r. lia.
      + apply Z.eqb_neq in E.
        assert (Hm : r0 - r0 / r1 * r1 = r0 mod r1) by (rewrite Z.mod_eq by lia; ring).
        rewrite Hm.
        pose proof (Z.mod_pos_bound r0 r1 ltac:(lia)) as Hb.
        assert (Hq : 1 <= r0 / r1) by (apply Z.div_le_lower_bound; lia).
        assert (H2 : 2 * (r0 mod r1) < r0).
        { pose proof (Z.div_mod r0 r1 ltac:(lia)). nia. }
        destruct (IH r1 (r0 mod r1) s1 (s0 - r0 / r1 * s1)) as [Hg Hs].
        * lia.
        * rewrite Nat2Z.inj_succ, Z.pow_succ_r in Hp by lia. nia.
        * exact H1.
        * rewrite <- Hm.
          replace ((s0 - r0 / r1 * s1) * a) with (s0 * a - r0 / r1 * (s1 * a)) by ring.
          apply Zminus_eqm; [exact H0|]. apply Zmult_eqm; [reflexivity|exact H1].
        * split; [|exact Hs]. rewrite Hg. rewrite Z.gcd_comm, Z.gcd_mod by lia. apply Z.gcd_comm.
  Qed.

  Hypothesis n_prime : prime n.

  Lemma n_gt_1 : 1 < n.
  Proof. destruct n_prime; assumption. Qed.

  Lemma inv_mod_spec a : a mod n <> 0 -> (inv_mod n a * a) mod n = 1.
  Proof.
    intros Ha. pose proof n_gt_1 as Hn.
    pose proof (Z.mod_pos_bound a n ltac:(lia)) as Hb.
    unfold inv_mod.
    destruct (egcd_spec a (egcd_fuel n) n (a mod n) 0 1) as [Hg Hs].
    - lia.
    - unfold egcd_fuel. rewrite Nat2Z.inj_succ, Nat2Z.inj_mul, Z2Nat.id by apply Z.log2_up_nonneg.
      change (Z.of_nat 2) with 2.
      pose proof (Z.log2_up_spec n Hn) as [_ Hl].
      pose proof (Z.log2_up_nonneg n).
      set (L := Z.log2_up n) in *.
      assert (HE : 2 ^ Z.succ (2 * L) = 2 * (2 ^ L * 2 ^ L)).
      { rewrite Z.pow_succ_r by lia. replace (2 * L) with (L + L) by ring. rewrite Z.pow_add_r by lia. ring. }
      rewrite HE. nia.
    - unfold eqm. rewrite Z.mul_0_l, Z_mod_same_full. reflexivity.
    - unfold eqm. rewrite Z.mul_1_l, Z.mod_mod by lia. reflexivity.
    - assert (Hg1 : Z.gcd n (a mod n) = 1).
      { apply Zgcd_1_rel_prime. apply prime_rel_prime; [exact n_prime|].
        intros Hd. apply Z.mod_divide in Hd; [|lia]. rewrite Z.mod_mod in Hd by lia. contradiction. }
      rewrite Hg, Hg1 in Hs. unfold eqm in Hs.
      rewrite Z.mul_mod_idemp_l by lia. rewrite Hs. apply Z.mod_1_l. lia.
  Qed.

  Lemma inv_mod_range a : 0 <= inv_mod n a < n.
  Proof. unfold inv_mod. apply Z.mod_pos_bound. pose proof n_gt_1. lia. Qed.

  Lemma inv_mod_eqm a : a mod n <> 0 -> inv_mod n a * a == 1.
  Proof. intros H. unfold eqm. rewrite inv_mod_spec by exact H. symmetry. apply Z.mod_1_l, n_gt_1. Qed.
End InvMod.

(* ------------------------------------------------------------------ compact signature format *)
Lemma be_decode_acc_lin l : forall acc,
  be_decode_acc acc l = (acc * 256 ^ N.of_nat (length l) + be_decode l)%N.
Proof.
  induction l as [|a l IH]; intros acc.
  - unfold be_decode. cbn [be_decode_acc length]. change (N.of_nat 0) with 0%N. rewrite N.pow_0_r. lia.
  - unfold be_decode. cbn [be_decode_acc length]. rewrite (IH (acc * 256 + a)%N), (IH (0 * 256 + a)%N).
    rewrite Nat2N.inj_succ, N.pow_succ_r'. set (P := (256 ^ N.of_nat (length l))%N). lia.
Qed.

Lemma be_decode_cons a l : be_decode (a :: l) = (a * 256 ^ N.of_nat (length l) + be_decode l)%N.
Proof. unfold be_decode at 1. cbn [be_decode_acc]. rewrite be_decode_acc_lin. lia. Qed.

Lemma two256_N : (256 ^ N.of_nat 32 = 2 ^ 256)%N. Proof. vm_compute. reflexivity. Qed.
Lemma two248_N : (256 ^ N.of_nat 31 = 2 ^ 248)%N. Proof. vm_compute. reflexivity. Qed.

Lemma bytes_z_bytes32 z : 0 <= z < 2 ^ 256 -> bytes_z (z_bytes32 z) = z /\ length (z_bytes32 z) = 32%nat.
Proof.
  intros Hz. unfold bytes_z, z_bytes32. split; [|apply be_encode_length].
  rewrite be_decode_encode.
  - apply Z2N.id. lia.
  - rewrite two256_N. change (2 ^ 256)%N with (Z.to_N (2 ^ 256)). apply Z2N.inj_lt; lia.
Qed.

Lemma firstn_app_exact {A} (l1 l2 : list A) k : length l1 = k -> firstn k (l1 ++ l2) = l1.
Proof. intros <-. rewrite firstn_app, Nat.sub_diag, firstn_all, firstn_O, app_nil_r. reflexivity. Qed.
Lemma skipn_app_exact {A} (l1 l2 : list A) k : length l1 = k -> skipn k (l1 ++ l2) = l2.
Proof. intros <-. rewrite skipn_app, Nat.sub_diag, skipn_all. reflexivity. Qed.

Lemma sig_bytes_rs r s : 0 <= r < 2 ^ 256 -> 0 <= s < 2 ^ 256 ->
  sig_r (sig_bytes r s) = r /\ sig_s (sig_bytes r s) = s.
Proof.
  intros Hr Hs. destruct (bytes_z_bytes32 r Hr) as [Er Lr]. destruct (bytes_z_bytes32 s Hs) as [Es Ls].
  unfold sig_r, sig_s, sig_bytes. rewrite (firstn_app_exact _ _ _ Lr), (skipn_app_exact _ _ _ Lr). auto.
Qed.

(* decode after encode gives back the signature and the parity bit *)
Lemma decode_encode_signature sig v e :
  encode_signature sig v = Some e -> decode_signature e = (sig, v).
Proof.
  unfold encode_signature. destruct (skipn 32 sig) as [|b rest] eqn:Hsk; [discriminate|].
  destruct (b <? 128)%N eqn:Hb; [|discriminate]. apply N.ltb_lt in Hb. intros H. injection H as <-.
  assert (Hlen : length (firstn 32 sig) = 32%nat).
  { apply firstn_length_le. destruct (Nat.le_gt_cases 32 (length sig)) as [?|Hlt]; [assumption|].
    rewrite skipn_all2 in Hsk by lia. discriminate. }
  unfold decode_signature. rewrite (skipn_app_exact _ _ _ Hlen), (firstn_app_exact _ _ _ Hlen).
  rewrite (N.mod_small b 128) by exact Hb.
  assert (E : firstn 32 sig ++ b :: rest = sig) by (rewrite <- Hsk; apply firstn_skipn).
  destruct v.
  - replace ((128 + b) mod 128)%N with b.
    + rewrite E. f_equal. apply N.leb_le. lia.
    + replace (128 + b)%N with (b + 1 * 128)%N by lia. rewrite N.mod_add by lia. symmetry. apply N.mod_small, Hb.
  - rewrite N.add_0_l, (N.mod_small b 128) by exact Hb. rewrite E. f_equal. apply N.leb_gt. exact Hb.
Qed.

(* a signature with s < 2^255 can be encoded: the recovery-bit position is free *)
Lemma encode_signature_free r s v :
  0 <= r < 2 ^ 256 -> 0 <= s < 2 ^ 255 -> exists e, encode_signature (sig_bytes r s) v = Some e.
Proof.
  intros Hr Hs. assert (Hs' : 0 <= s < 2 ^ 256) by lia.
  destruct (bytes_z_bytes32 r Hr) as [_ Lr]. destruct (bytes_z_bytes32 s Hs') as [Es Ls].
  unfold encode_signature, sig_bytes. rewrite (skipn_app_exact _ _ _ Lr).
  destruct (z_bytes32 s) as [|b rest] eqn:Hb; [discriminate|].
  cbn [length] in Ls. injection Ls as Ls.
  unfold bytes_z in Es. rewrite be_decode_cons, Ls, two248_N in Es.
  assert (b < 128)%N.
  { destruct (N.lt_ge_cases b 128) as [?|Hge]; [assumption|exfalso].
    assert (Z.of_N (128 * 2 ^ 248) <= s) by (rewrite <- Es; apply N2Z.inj_le; nia).
    change (Z.of_N (128 * 2 ^ 248)) with (2 ^ 255) in H. lia. }
  apply N.ltb_lt in H. rewrite H. eexists. reflexivity.
Qed.

(* ------------------------------------------------------------------ congruences modulo n *)
Definition cg (n a b : Z) : Prop := a mod n = b mod n.
#[global] Instance cg_equiv n : Equivalence (cg n).
Proof. split; unfold cg; congruence. Qed.
#[global] Instance cg_add n : Proper (cg n ==> cg n ==> cg n) Z.add. Proof. exact (Zplus_eqm n). Qed.
#[global] Instance cg_sub n : Proper (cg n ==> cg n ==> cg n) Z.sub. Proof. exact (Zminus_eqm n). Qed.
#[global] Instance cg_mul n : Proper (cg n ==> cg n ==> cg n) Z.mul. Proof. exact (Zmult_eqm n). Qed.
#[global] Instance cg_opp n : Proper (cg n ==> cg n) Z.opp. Proof. exact (Zopp_eqm n). Qed.
Lemma cg_mod n a : cg n (a mod n) a. Proof. exact (Zmod_eqm n a). Qed.
Lemma cg_eq n a b : a = b -> cg n a b. Proof. intros ->; reflexivity. Qed.
Lemma cg_unfold n a b : cg n a b <-> a mod n = b mod n. Proof. reflexivity. Qed.
Lemma cg_inv n a : prime n -> a mod n <> 0 -> cg n (inv_mod n a * a) 1.
Proof. intros Hp Ha. exact (inv_mod_eqm n Hp a Ha). Qed.
Global Opaque cg.

Section Proofs.
  Variable point : Type.
  Variable pt_eqb : point -> point -> bool.
  Variable add : point -> point -> point.
  Variable neg : point -> point.
  Variable zero : point.
  Variable smul : Z -> point -> point.
  Variable G : point.
  Variable n : Z.
  Variable x_of : point -> Z.
  Variable y_odd : point -> bool.
  Variable lift_x : Z -> bool -> option point.
  Hypothesis L : group_laws point pt_eqb add neg zero smul G n x_of y_odd lift_x.

  Local Notation "a == b" := (cg n a b) (at level 70).
  Local Notation mulG a := (smul a G).
  Local Notation inv a := (inv_mod n a).
  Local Notation rcore := (recover_core point pt_eqb add zero smul G n lift_x).
  Local Notation vcore := (verify_core point pt_eqb add zero smul G n x_of).
  Local Notation vrsv := (verify_rsv point pt_eqb add zero smul G n x_of).
  Local Notation rfin := (recover_finish point pt_eqb add zero smul G n x_of).
  Local Notation rrsv := (recover_rsv point pt_eqb add zero smul G n x_of lift_x).
  Local Notation rng a := (in_range n a).
  Local Notation high a := (is_high n a).

  Lemma Hn : 1 < n.
  Proof. exact (n_gt_1 n (gl_prime _ _ _ _ _ _ _ _ _ _ _ L)). Qed.

  Lemma mulG_eq a b : mulG a = mulG b <-> a == b.
  Proof. rewrite cg_unfold. apply (gl_inj _ _ _ _ _ _ _ _ _ _ _ L). Qed.
  Lemma mulG_cg a b : a == b -> mulG a = mulG b.
  Proof. apply mulG_eq. Qed.
  Lemma mulG_zero a : mulG a = zero <-> a mod n = 0.
  Proof.
    rewrite (gl_zero _ _ _ _ _ _ _ _ _ _ _ L), mulG_eq, cg_unfold, Z.mod_0_l by (pose proof Hn; lia).
    reflexivity.
  Qed.
  Lemma eqb_zero P : pt_eqb P zero = true <-> P = zero.
  Proof. apply (gl_eqb _ _ _ _ _ _ _ _ _ _ _ L). Qed.
  Lemma rng_iff a : rng a = true <-> 1 <= a < n.
  Proof. unfold in_range. rewrite andb_true_iff, Z.leb_le, Z.ltb_lt. reflexivity. Qed.
  Lemma rng_mod a : rng a = true -> a mod n = a /\ a mod n <> 0.
  Proof. intros H%rng_iff. rewrite Z.mod_small by lia. lia. Qed.
  Lemma rng_inv a : rng a = true -> inv a * a == 1.
  Proof. intros H. apply cg_inv; [exact (gl_prime _ _ _ _ _ _ _ _ _ _ _ L)|]. apply rng_mod, H. Qed.
  Lemma cg_small a b : a == b -> 0 <= a < n -> 0 <= b < n -> a = b.
  Proof. rewrite cg_unfold. intros H Ha Hb. rewrite !Z.mod_small in H by lia. exact H. Qed.

  (* multiplying by an invertible scalar is injective *)
  Lemma cg_cancel r a b : rng r = true -> inv r * a == inv r * b -> a == b.
  Proof.
    intros Hr H. pose proof (rng_inv r Hr) as Hi.
    transitivity ((inv r * r) * a); [rewrite Hi; apply cg_eq; ring|].
    transitivity (r * (inv r * a)); [apply cg_eq; ring|]. rewrite H.
    transitivity ((inv r * r) * b); [apply cg_eq; ring|]. rewrite Hi. apply cg_eq; ring.
  Qed.

  (* ---------------------------------------------------------------- recover_core on multiples of G *)
  Lemma rcore_mulG r s v z k q :
    rng r = true -> rng s = true -> lift_x r v = Some (mulG k) ->
    q == inv r * (s * k - z) ->
    rcore r s v z = if q mod n =? 0 then None else Some (mulG q).
  Proof.
    intros Hr Hs Hl Hq. unfold recover_core. rewrite Hr, Hs, Hl. cbn [andb].
    rewrite (gl_smul _ _ _ _ _ _ _ _ _ _ _ L), (gl_add _ _ _ _ _ _ _ _ _ _ _ L).
    assert (E : mulG ((- (inv r * z)) mod n + (inv r * s) mod n * k) = mulG q).
    { apply mulG_cg. rewrite Hq, !cg_mod. apply cg_eq; ring. }
    rewrite E.
    destruct (pt_eqb (mulG q) zero) eqn:Ez; destruct (q mod n =? 0) eqn:Eq; try reflexivity.
    - apply eqb_zero, mulG_zero in Ez. apply Z.eqb_neq in Eq. contradiction.
    - apply Z.eqb_eq, mulG_zero, eqb_zero in Eq. congruence.
  Qed.

  (* every point is a multiple of G: general shape of a successful recovery *)
  Lemma rcore_some r s v z Q :
    rcore r s v z = Some Q ->
    rng r = true /\ rng s = true /\
    exists k, lift_x r v = Some (mulG k) /\ Q = mulG (inv r * (s * k - z)) /\ (inv r * (s * k - z)) mod n <> 0.
  Proof.
    intros H. pose proof H as H0. unfold recover_core in H.
    destruct (rng r) eqn:Hr; [|discriminate]. destruct (rng s) eqn:Hs; [|discriminate]. cbn [andb] in H.
    destruct (lift_x r v) as [R|] eqn:Hl; [|discriminate].
    destruct (gl_gen _ _ _ _ _ _ _ _ _ _ _ L R) as [k ->].
    rewrite (rcore_mulG r s v z k (inv r * (s * k - z)) Hr Hs Hl ltac:(reflexivity)) in H0.
    destruct ((inv r * (s * k - z)) mod n =? 0) eqn:E; [discriminate|].
    apply Z.eqb_neq in E. injection H0 as <-. repeat split. exists k. repeat split; assumption.
  Qed.

  (* ---------------------------------------------------------------- verify_core on multiples of G *)
  Lemma vcore_mulG q r s z t :
    rng r = true -> rng s = true ->
    t == inv s * (z + r * q) ->
    vcore (mulG q) r s z = negb (t mod n =? 0) && (x_of (mulG t) mod n =? r).
  Proof.
    intros Hr Hs Ht. unfold verify_core. rewrite Hr, Hs. cbn [andb].
    rewrite (gl_smul _ _ _ _ _ _ _ _ _ _ _ L), (gl_add _ _ _ _ _ _ _ _ _ _ _ L).
    assert (E : mulG ((z * inv s) mod n + (r * inv s) mod n * q) = mulG t).
    { apply mulG_cg. rewrite Ht, !cg_mod. apply cg_eq; ring. }
    rewrite E. f_equal. f_equal.
    destruct (pt_eqb (mulG t) zero) eqn:Ez; destruct (t mod n =? 0) eqn:Eq; try reflexivity.
    - apply eqb_zero, mulG_zero in Ez. apply Z.eqb_neq in Eq. contradiction.
    - apply Z.eqb_eq, mulG_zero, eqb_zero in Eq. congruence.
  Qed.

  (* a recovered key always passes the textbook verification equation (no high-s rule) *)
  Lemma recover_verify_core r s v z Q : rcore r s v z = Some Q -> vcore Q r s z = true.
  Proof.
    intros H. destruct (rcore_some _ _ _ _ _ H) as (Hr & Hs & k & Hl & -> & Hq).
    destruct (gl_lift_sound _ _ _ _ _ _ _ _ _ _ _ L _ _ _ Hl) as (Hnz & Hx & _).
    rewrite (vcore_mulG _ r s z k Hr Hs).
    - assert (k mod n <> 0) by (intros E; apply Hnz, mulG_zero, E).
      destruct (k mod n =? 0) eqn:E; [apply Z.eqb_eq in E; contradiction|]. cbn [negb andb].
      rewrite Hx. apply Z.eqb_eq. apply rng_mod, Hr.
    - pose proof (rng_inv r Hr) as Hir. pose proof (rng_inv s Hs) as His.
      transitivity ((inv s * s) * ((inv r * r) * k) + inv s * z * (1 - inv r * r)); [|apply cg_eq; ring].
      rewrite Hir, His. apply cg_eq; ring.
  Qed.

  Lemma cg_mul_n a : a * n == 0.
  Proof. rewrite cg_unfold, Z_mod_mult, Z.mod_0_l by (pose proof Hn; lia). reflexivity. Qed.

  Lemma G_nonzero : G <> zero.
  Proof.
    intros E. pose proof Hn.
    assert (H1 : mulG 1 = mulG 0).
    { rewrite E at 1. rewrite (gl_zero _ _ _ _ _ _ _ _ _ _ _ L) at 1.
      rewrite (gl_smul _ _ _ _ _ _ _ _ _ _ _ L). reflexivity. }
    apply mulG_eq in H1. rewrite cg_unfold, Z.mod_1_l, Z.mod_0_l in H1 by lia. discriminate.
  Qed.

  (* ---------------------------------------------------------------- binding to the message *)
  Lemma rcore_binding r s v z z' Q : rcore r s v z = Some Q -> rcore r s v z' = Some Q -> z == z'.
  Proof.
    intros H1 H2.
    destruct (rcore_some _ _ _ _ _ H1) as (Hr & Hs & k & Hl & HQ & _).
    destruct (rcore_some _ _ _ _ _ H2) as (_ & _ & k' & Hl' & HQ' & _).
    rewrite Hl in Hl'. injection Hl' as Hk. apply mulG_eq in Hk.
    rewrite HQ in HQ'. apply mulG_eq in HQ'. apply (cg_cancel r) in HQ'; [|exact Hr].
    rewrite <- Hk in HQ'.
    transitivity (s * k - (s * k - z)); [apply cg_eq; ring|]. rewrite HQ'. apply cg_eq; ring.
  Qed.

  (* ---------------------------------------------------------------- s -> n - s with the parity flipped *)
  Lemma lift_flip r v k : lift_x r v = Some (mulG k) -> lift_x r (negb v) = Some (mulG (- k)).
  Proof.
    intros Hl. destruct (gl_lift_sound _ _ _ _ _ _ _ _ _ _ _ L _ _ _ Hl) as (Hnz & Hx & Hy).
    destruct (gl_neg_coord _ _ _ _ _ _ _ _ _ _ _ L _ Hnz) as (Hx' & Hy').
    rewrite (gl_neg _ _ _ _ _ _ _ _ _ _ _ L) in Hx', Hy'.
    assert (Hnz' : mulG (- k) <> zero).
    { intros E. apply Hnz. apply mulG_zero. apply mulG_zero in E.
      pose proof Hn. apply Z.mod_divide in E; [|lia]. apply Z.mod_divide; [lia|].
      apply Z.divide_opp_r in E. rewrite Z.opp_involutive in E. exact E. }
    pose proof (gl_lift_complete _ _ _ _ _ _ _ _ _ _ _ L _ Hnz') as Hc.
    rewrite Hx', Hy', Hx, Hy in Hc. exact Hc.
  Qed.

  Lemma rng_flip s : rng s = true -> rng (n - s) = true.
  Proof. rewrite !rng_iff. lia. Qed.

  Lemma rcore_flip r s v z : rng s = true -> rcore r (n - s) (negb v) z = rcore r s v z.
  Proof.
    intros Hs. pose proof (rng_flip s Hs) as Hs'.
    destruct (rng r) eqn:Hr; [|unfold recover_core; rewrite Hr; reflexivity].
    destruct (lift_x r v) as [R|] eqn:Hl.
    - destruct (gl_gen _ _ _ _ _ _ _ _ _ _ _ L R) as [k ->].
      rewrite (rcore_mulG r s v z k (inv r * (s * k - z)) Hr Hs Hl ltac:(reflexivity)).
      apply (rcore_mulG r (n - s) (negb v) z (- k) _ Hr Hs' (lift_flip _ _ _ Hl)).
      transitivity (inv r * (s * k - z) - inv r * k * n); [|apply cg_eq; ring].
      rewrite (cg_mul_n (inv r * k)). apply cg_eq; ring.
    - destruct (lift_x r (negb v)) as [R|] eqn:Hl'.
      + destruct (gl_gen _ _ _ _ _ _ _ _ _ _ _ L R) as [k ->].
        apply lift_flip in Hl'. rewrite negb_involutive in Hl'. congruence.
      + unfold recover_core. rewrite Hl, Hl'. destruct (rng r && rng s), (rng r && rng (n - s)); reflexivity.
  Qed.

  (* ---------------------------------------------------------------- rule sets *)
  Lemma rrsv_eff A r s v z :
    rrsv A r s v z = if rec_s_eff A s then rcore r s v z else None.
  Proof.
    unfold recover_rsv, recover_finish, rec_s_eff.
    destruct (rec_s_ok A s); cbn [andb]; [|reflexivity].
    destruct (rcore r s v z) as [Q|] eqn:Hc; [|destruct (negb (rec_reverify A) || ver_s_ok A s); reflexivity].
    destruct (rec_reverify A); cbn [negb orb]; [|reflexivity].
    unfold verify_rsv. rewrite (recover_verify_core _ _ _ _ _ Hc). destruct (ver_s_ok A s); reflexivity.
  Qed.

  Lemma rrsv_some_core A r s v z Q : rrsv A r s v z = Some Q -> rcore r s v z = Some Q.
  Proof. rewrite rrsv_eff. destruct (rec_s_eff A s); [auto|discriminate]. Qed.

  (* for every s in [1,n) some (r, v, z) is recoverable / some (Q, r, z) verifies *)
  Lemma rcore_witness s : rng s = true -> exists r v z Q, rcore r s v z = Some Q.
  Proof.
    intros Hs. destruct (gl_gen _ _ _ _ _ _ _ _ _ _ _ L G) as [k0 Hk0].
    pose proof G_nonzero as Hg. pose proof (gl_Gx _ _ _ _ _ _ _ _ _ _ _ L) as Hx.
    assert (Hr : rng (x_of G) = true) by (apply rng_iff; lia).
    assert (Hl : lift_x (x_of G) (y_odd G) = Some (mulG k0)).
    { rewrite <- Hk0. exact (gl_lift_complete _ _ _ _ _ _ _ _ _ _ _ L _ Hg). }
    exists (x_of G), (y_odd G), (s * k0 - x_of G), (mulG 1).
    rewrite (rcore_mulG _ s _ _ k0 1 Hr Hs Hl).
    - pose proof Hn. rewrite Z.mod_1_l by lia. reflexivity.
    - pose proof (rng_inv _ Hr) as Hi. rewrite <- Hi. apply cg_eq; ring.
  Qed.

  Lemma vcore_witness s : rng s = true -> exists Q r z, vcore Q r s z = true.
  Proof.
    intros Hs. destruct (gl_gen _ _ _ _ _ _ _ _ _ _ _ L G) as [k0 Hk0].
    pose proof G_nonzero as Hg. pose proof (gl_Gx _ _ _ _ _ _ _ _ _ _ _ L) as Hx.
    assert (Hr : rng (x_of G) = true) by (apply rng_iff; lia).
    exists G, (x_of G), (s * k0 - x_of G * k0).
    assert (Ht : k0 == inv s * (s * k0 - x_of G * k0 + x_of G * k0)).
    { pose proof (rng_inv _ Hs) as Hi.
      transitivity ((inv s * s) * k0); [rewrite Hi; apply cg_eq; ring|apply cg_eq; ring]. }
    pose proof (vcore_mulG k0 _ s _ k0 Hr Hs Ht) as Hv. rewrite <- Hk0 in Hv. rewrite Hv.
    assert (k0 mod n <> 0) by (intros E; apply Hg; rewrite Hk0; apply mulG_zero, E).
    destruct (k0 mod n =? 0) eqn:E; [apply Z.eqb_eq in E; contradiction|]. cbn [negb andb].
    apply Z.eqb_eq. apply rng_mod, Hr.
  Qed.

  Theorem recover_same_rules_iff A B :
    (forall r s v z, rrsv A r s v z = rrsv B r s v z) <->
    (forall s, 1 <= s < n -> rec_s_eff A s = rec_s_eff B s).
  Proof.
    split.
    - intros H s Hs%rng_iff. destruct (rcore_witness s Hs) as (r & v & z & Q & Hc).
      specialize (H r s v z). rewrite !rrsv_eff, Hc in H.
      destruct (rec_s_eff A s), (rec_s_eff B s); congruence.
    - intros H r s v z. rewrite !rrsv_eff.
      destruct (rng s) eqn:Hs.
      + rewrite (H s) by (apply rng_iff, Hs). reflexivity.
      + assert (rcore r s v z = None) as -> by (unfold recover_core; rewrite Hs, andb_false_r; reflexivity).
        destruct (rec_s_eff A s), (rec_s_eff B s); reflexivity.
  Qed.

  Theorem verify_same_rules_iff A B :
    (forall Q r s z, vrsv A Q r s z = vrsv B Q r s z) <->
    (forall s, 1 <= s < n -> ver_s_ok A s = ver_s_ok B s).
  Proof.
    split.
    - intros H s Hs%rng_iff. destruct (vcore_witness s Hs) as (Q & r & z & Hv).
      specialize (H Q r s z). unfold verify_rsv in H. rewrite Hv in H.
      destruct (ver_s_ok A s), (ver_s_ok B s); congruence.
    - intros H Q r s z. unfold verify_rsv.
      destruct (rng s) eqn:Hs.
      + rewrite (H s) by (apply rng_iff, Hs). reflexivity.
      + assert (vcore Q r s z = false) as -> by (unfold verify_core; rewrite Hs, andb_false_r; reflexivity).
        destruct (ver_s_ok A s), (ver_s_ok B s); reflexivity.
  Qed.

  (* the two secp256k1 back-ends *)
  Local Notation RL := (rules_libsecp n).
  Local Notation RK := (rules_k256 n).

  Lemma eff_libsecp s : rec_s_eff RL s = true.
  Proof. reflexivity. Qed.
  Lemma eff_k256 s : rec_s_eff RK s = low_s n s.
  Proof. reflexivity. Qed.

  Theorem backends_verify_agree Q r s z : vrsv RK Q r s z = vrsv RL Q r s z.
  Proof. reflexivity. Qed.

  Theorem backends_recover_agree_low_s r s v z : high s = false -> rrsv RK r s v z = rrsv RL r s v z.
  Proof. intros H. rewrite !rrsv_eff, eff_libsecp, eff_k256. unfold low_s. rewrite H. reflexivity. Qed.

  (* HISTORICAL (before fix 378a736): without the normalisation step, i.e. calling recover_from_prehash
     (= recover_rsv under rules_k256) directly as k256.rs did, the back-ends differed for every high s.
     The current k256.rs recover is recover_rsv_normalising; see k256_normalising_agrees below. *)
  Theorem unnormalised_k256_recover_differs_high_s s :
    1 <= s < n -> high s = true ->
    exists r v z Q, rrsv RL r s v z = Some Q /\ rrsv RK r s v z = None.
  Proof.
    intros Hs%rng_iff Hh. destruct (rcore_witness s Hs) as (r & v & z & Q & Hc).
    exists r, v, z, Q. rewrite !rrsv_eff, eff_libsecp, eff_k256, Hc. unfold low_s. rewrite Hh. split; reflexivity.
  Qed.

  Lemma high_flip_low s : high s = true -> high (n - s) = false.
  Proof.
    unfold is_high. rewrite Z.ltb_lt, Z.ltb_ge. intros H.
    pose proof (Z.div_mod n 2 ltac:(lia)). pose proof (Z.mod_pos_bound n 2 ltac:(lia)). lia.
  Qed.

  (* the normalisation done by k256.rs recover (fix 378a736) gives agreement on every input *)
  Theorem k256_normalising_agrees r s v z :
    recover_rsv_normalising point pt_eqb add zero smul G n x_of lift_x RK r s v z = rrsv RL r s v z.
  Proof.
    unfold recover_rsv_normalising. rewrite !rrsv_eff, eff_libsecp, !eff_k256. unfold low_s.
    destruct (rng s) eqn:Hs; cbn [andb].
    - destruct (high s) eqn:Hh.
      + rewrite (high_flip_low s Hh). cbn [negb]. apply rcore_flip, Hs.
      + reflexivity.
    - assert (rcore r s v z = None) as -> by (unfold recover_core; rewrite Hs, andb_false_r; reflexivity).
      destruct (negb (high s)); reflexivity.
  Qed.

  (* ---------------------------------------------------------------- signing *)
  Local Notation sgn := (sign_rsv point pt_eqb zero smul G n x_of y_odd).

  Lemma sign_rsv_inv d k z r s v :
    sgn d k z = Some (r, s, v) ->
    mulG k <> zero /\ r = x_of (mulG k) /\ rng r = true /\
    exists s0, s0 == inv k * (z + r * d) /\ rng s0 = true /\
      ((high s0 = false /\ s = s0 /\ v = y_odd (mulG k)) \/
       (high s0 = true /\ s = n - s0 /\ v = negb (y_odd (mulG k)))).
  Proof.
    unfold sign_rsv. pose proof Hn as Hn'.
    destruct (pt_eqb (mulG k) zero) eqn:Ez; [discriminate|].
    set (r' := x_of (mulG k) mod n). set (s' := (inv k * (z + r' * d)) mod n).
    destruct ((r' =? 0) || (s' =? 0)) eqn:E0; [discriminate|].
    apply orb_false_iff in E0 as [Er Es]. apply Z.eqb_neq in Er, Es.
    destruct (x_of (mulG k) <? n) eqn:Ex; cbn [negb]; [|discriminate]. apply Z.ltb_lt in Ex.
    pose proof (gl_x_nonneg _ _ _ _ _ _ _ _ _ _ _ L (mulG k)) as Hx0.
    assert (Hr' : r' = x_of (mulG k)) by (unfold r'; apply Z.mod_small; lia).
    assert (Hnz : mulG k <> zero) by (intros E; apply eqb_zero in E; congruence).
    assert (Hs' : rng s' = true).
    { apply rng_iff. pose proof (Z.mod_pos_bound (inv k * (z + r' * d)) n ltac:(lia)). fold s' in H. lia. }
    assert (Hrr : rng r' = true) by (apply rng_iff; lia).
    assert (Hcg : s' == inv k * (z + r' * d)) by (unfold s'; apply cg_mod).
    destruct (high s') eqn:Eh; intros H; injection H as <- <- <-;
      (split; [exact Hnz|split; [exact Hr'|split; [exact Hrr|]]]); exists s';
      (split; [exact Hcg|split; [exact Hs'|]]); [right|left]; repeat split; assumption.
  Qed.

  Theorem sign_core_correct d k z r s v :
    rng d = true -> rng k = true -> sgn d k z = Some (r, s, v) ->
    rcore r s v z = Some (mulG d) /\ 1 <= s <= n / 2.
  Proof.
    intros Hd Hk Hs. destruct (sign_rsv_inv _ _ _ _ _ _ Hs) as (Hnz & Hr & Hrr & s0 & Hs0 & Hrs0 & Hcase).
    pose proof (rng_inv k Hk) as Hik. pose proof (rng_inv r Hrr) as Hir.
    assert (Hl : lift_x r (y_odd (mulG k)) = Some (mulG k)).
    { rewrite Hr. apply (gl_lift_complete _ _ _ _ _ _ _ _ _ _ _ L), Hnz. }
    assert (Hcore : rcore r s0 (y_odd (mulG k)) z = Some (mulG d)).
    { rewrite (rcore_mulG r s0 _ z k d Hrr Hrs0 Hl).
      - destruct (rng_mod d Hd) as [_ Hd0]. destruct (d mod n =? 0) eqn:E; [apply Z.eqb_eq in E; contradiction|reflexivity].
      - rewrite Hs0.
        transitivity (inv r * ((inv k * k) * (z + r * d) - z)); [|apply cg_eq; ring].
        rewrite Hik. transitivity ((inv r * r) * d); [rewrite Hir; apply cg_eq; ring|apply cg_eq; ring]. }
    apply rng_iff in Hrs0 as Hb.
    destruct Hcase as [(Hh & -> & ->)|(Hh & -> & ->)].
    - split; [exact Hcore|]. unfold is_high in Hh. apply Z.ltb_ge in Hh. lia.
    - split; [rewrite rcore_flip by exact Hrs0; exact Hcore|].
      pose proof (high_flip_low _ Hh) as Hl'. unfold is_high in Hl'. apply Z.ltb_ge in Hl'. lia.
  Qed.

  (* rule sets that accept every normalised signature *)
  Definition accepts_low_s (A : rules) : Prop :=
    forall s, 1 <= s <= n / 2 -> rec_s_ok A s = true /\ ver_s_ok A s = true.

  Theorem sign_rsv_correct A d k z r s v :
    accepts_low_s A -> rng d = true -> rng k = true -> sgn d k z = Some (r, s, v) ->
    rrsv A r s v z = Some (mulG d) /\ vrsv A (mulG d) r s z = true /\ 1 <= s <= n / 2.
  Proof.
    intros HA Hd Hk Hs. destruct (sign_core_correct _ _ _ _ _ _ Hd Hk Hs) as [Hc Hb].
    destruct (HA s Hb) as [Ha1 Ha2].
    split; [|split; [|exact Hb]].
    - rewrite rrsv_eff. unfold rec_s_eff. rewrite Ha1, Ha2, orb_true_r. exact Hc.
    - unfold verify_rsv. rewrite Ha2. apply (recover_verify_core _ _ _ _ _ Hc).
  Qed.

  Lemma accepts_low_libsecp : accepts_low_s RL.
  Proof. intros s Hs. split; [reflexivity|]. cbn. unfold low_s, is_high. apply negb_true_iff, Z.ltb_ge. lia. Qed.
  Lemma accepts_low_k256 : accepts_low_s RK.
  Proof. intros s Hs. split; [reflexivity|]. cbn. unfold low_s, is_high. apply negb_true_iff, Z.ltb_ge. lia. Qed.
  Lemma accepts_low_p256 : accepts_low_s rules_p256.
  Proof. intros s Hs. split; reflexivity. Qed.

  (* ---------------------------------------------------------------- byte level *)
  Local Notation rec := (recover point pt_eqb add zero smul G n x_of lift_x).
  Local Notation ver := (verify point pt_eqb add zero smul G n x_of).
  Local Notation sgnb := (sign point pt_eqb zero smul G n x_of y_odd).
  Local Notation mz := (msg_z n).

  Theorem recover_binding A sig m m' Q :
    rec A sig m = Some Q -> rec A sig m' = Some Q -> bytes_z m mod n = bytes_z m' mod n.
  Proof.
    unfold recover. destruct (decode_signature sig) as [sg v].
    intros H1%rrsv_some_core H2%rrsv_some_core.
    pose proof (rcore_binding _ _ _ _ _ _ H1 H2) as H. apply cg_unfold in H.
    unfold msg_z in H. pose proof Hn. rewrite !Z.mod_mod in H by lia. exact H.
  Qed.

  Theorem message_plus_n A sig m m' :
    bytes_z m' = bytes_z m + n ->
    rec A sig m' = rec A sig m /\ forall Q, ver A sig Q m' = ver A sig Q m.
  Proof.
    intros H. assert (E : mz m' = mz m).
    { unfold msg_z. rewrite H. replace (bytes_z m + n) with (bytes_z m + 1 * n) by ring. apply Z_mod_plus_full. }
    unfold recover, verify. rewrite E. split; [reflexivity|intros; reflexivity].
  Qed.

  Lemma half_lt_2_255 : n < 2 ^ 256 -> forall s, s <= n / 2 -> s < 2 ^ 255.
  Proof.
    intros H s Hs. assert (n / 2 < 2 ^ 255); [|lia].
    apply Z.div_lt_upper_bound; [lia|]. change (2 * 2 ^ 255) with (2 ^ 256). exact H.
  Qed.

  Theorem sign_normalised d k z r s v :
    sgn d k z = Some (r, s, v) ->
    1 <= r < n /\ 1 <= s <= n / 2 /\
    (n < 2 ^ 256 -> s < 2 ^ 255 /\
       exists e, encode_signature (sig_bytes r s) v = Some e /\ decode_signature e = (sig_bytes r s, v)).
  Proof.
    intros Hs. destruct (sign_rsv_inv _ _ _ _ _ _ Hs) as (_ & _ & Hrr & s0 & _ & Hrs0 & Hcase).
    apply rng_iff in Hrr. apply rng_iff in Hrs0 as Hb.
    assert (Hlow : 1 <= s <= n / 2).
    { destruct Hcase as [(Hh & -> & _)|(Hh & -> & _)].
      - unfold is_high in Hh. apply Z.ltb_ge in Hh. lia.
      - pose proof (high_flip_low _ Hh) as Hl'. unfold is_high in Hl'. apply Z.ltb_ge in Hl'. lia. }
    split; [exact Hrr|split; [exact Hlow|]]. intros H256.
    pose proof (half_lt_2_255 H256 s ltac:(lia)) as H255. split; [exact H255|].
    destruct (encode_signature_free r s v ltac:(lia) ltac:(lia)) as [e He].
    exists e. split; [exact He|]. apply decode_encode_signature, He.
  Qed.

  Theorem sign_correct A d k msg :
    n < 2 ^ 256 -> accepts_low_s A -> rng d = true ->
    valid_nonce point pt_eqb zero smul G n x_of y_odd d k (mz msg) = true ->
    exists e, sgnb d k msg = Some e /\ rec A e msg = Some (mulG d) /\ ver A e (mulG d) msg = true /\
              1 <= sig_s (fst (decode_signature e)) <= n / 2.
  Proof.
    intros H256 HA Hd Hv. unfold valid_nonce in Hv. apply andb_true_iff in Hv as [Hk Hv].
    destruct (sgn d k (mz msg)) as [[[r s] v]|] eqn:Hs; [|discriminate].
    destruct (sign_rsv_correct A _ _ _ _ _ _ HA Hd Hk Hs) as (Hrec & Hver & Hb).
    destruct (sign_normalised _ _ _ _ _ _ Hs) as (Hr & _ & Hfmt). destruct (Hfmt H256) as (H255 & e & He & Hde).
    destruct (sig_bytes_rs r s ltac:(lia) ltac:(lia)) as [Er Es].
    exists e. unfold sign, recover, verify. rewrite Hs, Hde, Er, Es. cbn [fst]. rewrite Es. auto.
  Qed.

  Theorem recover_backends_agree_low_s sig msg :
    high (sig_s (fst (decode_signature sig))) = false -> rec RK sig msg = rec RL sig msg.
  Proof.
    unfold recover. destruct (decode_signature sig) as [sg v]. cbn [fst].
    apply backends_recover_agree_low_s.
  Qed.

  Theorem k256_recover_is_high_s_filter r s v z :
    rrsv RK r s v z = if low_s n s then rcore r s v z else None.
  Proof. rewrite rrsv_eff, eff_k256. reflexivity. Qed.

  Theorem libsecp_recover_is_core r s v z : rrsv RL r s v z = rcore r s v z.
  Proof. rewrite rrsv_eff, eff_libsecp. reflexivity. Qed.

  (* verify_core is textbook ECDSA validity *)
  Theorem verify_core_spec Q r s z :
    vcore Q r s z = true <-> ecdsa_valid point add zero smul G n x_of Q r s z.
  Proof.
    unfold verify_core, ecdsa_valid. split.
    - destruct (rng r) eqn:Hr; [|discriminate]. destruct (rng s) eqn:Hs; [|discriminate]. cbn [andb].
      intros H. apply andb_true_iff in H as [H1 H2]. apply negb_true_iff in H1. apply Z.eqb_eq in H2.
      split; [apply rng_iff, Hr|split; [apply rng_iff, Hs|]].
      exists (inv s). split.
      + apply inv_mod_spec; [exact (gl_prime _ _ _ _ _ _ _ _ _ _ _ L)|apply rng_mod, Hs].
      + split; [|exact H2]. intros E. apply eqb_zero in E. congruence.
    - intros (Hr & Hs & w & Hw & Hnz & Hx). apply rng_iff in Hr, Hs. rewrite Hr, Hs. cbn [andb].
      assert (Ew : w == inv s).
      { pose proof (rng_inv s Hs) as Hi. assert (Hw' : w * s == 1).
        { rewrite cg_unfold, Hw. symmetry. apply Z.mod_1_l, Hn. }
        transitivity (w * (inv s * s)); [rewrite Hi; apply cg_eq; ring|].
        transitivity ((w * s) * inv s); [apply cg_eq; ring|]. rewrite Hw'. apply cg_eq; ring. }
      assert (E1 : (z * inv s) mod n = (z * w) mod n) by (apply cg_unfold; rewrite Ew; reflexivity).
      assert (E2 : (r * inv s) mod n = (r * w) mod n) by (apply cg_unfold; rewrite Ew; reflexivity).
      rewrite E1, E2. apply andb_true_iff. split; [|apply Z.eqb_eq, Hx].
      apply negb_true_iff. destruct (pt_eqb _ zero) eqn:E; [|reflexivity]. apply eqb_zero in E. contradiction.
  Qed.

  (* ---------------------------------------------------------------- the two back-ends, current code *)
  Theorem backends_recover_agree sig msg :
    recover_norm point pt_eqb add zero smul G n x_of lift_x RK sig msg = rec RL sig msg.
  Proof.
    unfold recover_norm, recover. destruct (decode_signature sig) as [sg v]. apply k256_normalising_agrees.
  Qed.
End Proofs.

(* the normalising recover of the k256 back-end is plain recover on normalised signatures (in particular
   on every signature produced by sign) *)
Theorem recover_norm_low_s (point : Type) pt_eqb add zero smul (G : point) n x_of lift_x A sig msg :
  is_high n (sig_s (fst (decode_signature sig))) = false ->
  recover_norm point pt_eqb add zero smul G n x_of lift_x A sig msg =
  recover point pt_eqb add zero smul G n x_of lift_x A sig msg.
Proof.
  unfold recover_norm, recover, recover_rsv_normalising. destruct (decode_signature sig) as [sg v]. cbn [fst].
  intros ->. rewrite andb_false_r. reflexivity.
Qed.

(* deterministic signing: the back-ends feed the nonce oracle with m mod n resp. m; equal below n *)
Theorem sign_det_agree_below_n (point : Type) pt_eqb zero smul (G : point) n x_of y_odd nonce d msg :
  bytes_z msg < n ->
  sign_det point pt_eqb zero smul G n x_of y_odd nonce true d msg =
  sign_det point pt_eqb zero smul G n x_of y_odd nonce false d msg.
Proof.
  intros H. unfold sign_det. rewrite Z.mod_small; [reflexivity|].
  split; [unfold bytes_z; apply N2Z.is_nonneg|exact H].
Qed.
