(* Crypto/Secp256k1.v — EXECUTABLE instance of the abstract group of Crypto/EcdsaModel.v:
   short-Weierstrass curves y^2 = x^3 + a x + b over F_p, affine points over Z (None = infinity).
   Scalar multiplication runs internally in Jacobian coordinates (one inversion at the end) and
   reduction modulo p uses the special form p = 2^256 - c, because Z.modulo on 512-bit numbers
   costs ~9 ms under vm_compute.  Used ONLY by the correspondence run (Run/Ecdsa.v) and for the
   concrete `_refuted` witnesses; no theorem depends on this file being a group.  Validated by the
   known-answer Examples below and, on every check, against k256 / libsecp256k1 / p256.          *)
From Coq Require Import Uint63 ZArith List Bool.
From FV Require Import Base.Bytes Crypto.EcdsaModel.
Import ListNotations.
Open Scope Z_scope.

Definition two256 : Z := Eval vm_compute in 2 ^ 256.
Definition mask256 : Z := Eval vm_compute in 2 ^ 256 - 1.

(* ---- fast product of two integers in [0, 2^261): 9 limbs of 29 bits in primitive 63-bit integers
   (each column sum is < 9 * 2^58 < 2^63), reassembled by Horner.  Pos.mul on 256-bit operands costs
   ~1 ms under vm_compute, this ~0.1 ms.  Checked against Z.mul by the Examples at the end. *)
Definition mask29 : Z := Eval vm_compute in 2 ^ 29 - 1.
Fixpoint to_limbs (k : nat) (x : Z) : list int :=
  match k with
  | O => []
  | S k' => Uint63.of_Z (Z.land x mask29) :: to_limbs k' (Z.shiftr x 29)
  end.
Fixpoint scale_add (ai : int) (b acc : list int) : list int :=
  match b with
  | [] => acc
  | bj :: b' =>
      match acc with
      | cj :: acc' => Uint63.add cj (Uint63.mul ai bj) :: scale_add ai b' acc'
      | [] => Uint63.mul ai bj :: scale_add ai b' []
      end
  end.
Fixpoint mul_cols (a b : list int) : list int :=
  match a with
  | [] => []
  | ai :: a' => scale_add ai b (0%uint63 :: mul_cols a' b)
  end.
Fixpoint of_cols (c : list int) : Z :=
  match c with
  | [] => 0
  | x :: r => Z.shiftl (of_cols r) 29 + Uint63.to_Z x
  end.
Definition zmul (x y : Z) : Z := of_cols (mul_cols (to_limbs 9 x) (to_limbs 9 y)).

Record curve := {
  c_p : Z; c_a : Z; c_b : Z; c_n : Z; c_gx : Z; c_gy : Z;
  c_cmul : Z -> Z;                (* h |-> h * (2^256 - p) *)
  c_mul : Z -> Z -> Z;            (* product of two field elements as an integer: Z.mul, or the limb version *)
}.

(* x mod p for 0 <= x, using 2^256 = c (mod p) *)
Fixpoint red_loop (fuel : nat) (C : curve) (x : Z) : Z :=
  match fuel with
  | O => x mod c_p C
  | S f => if Z.shiftr x 256 =? 0 then (if x <? c_p C then x else x - c_p C)
           else red_loop f C (Z.land x mask256 + c_cmul C (Z.shiftr x 256))
  end.
Definition red (C : curve) (x : Z) : Z := red_loop 12 C x.

Section Curve.
  Variable C : curve.
  Definition fmul (x y : Z) : Z := red C (c_mul C x y).
  Definition fsq (x : Z) : Z := red C (c_mul C x x).
  Definition fadd (x y : Z) : Z := let s := x + y in if s <? c_p C then s else s - c_p C.
  Definition fsub (x y : Z) : Z := let d := x - y in if d <? 0 then d + c_p C else d.
  Definition fdbl (x : Z) : Z := fadd x x.
  Fixpoint fpow (x : Z) (e : positive) : Z :=
    match e with
    | xH => x
    | xO q => fsq (fpow x q)
    | xI q => fmul x (fsq (fpow x q))
    end.

  Definition apoint := option (Z * Z).
  Definition jpoint := (Z * Z * Z)%type.            (* Z = 0: infinity *)
  Definition jinf : jpoint := (1, 1, 0).

  Definition jdbl (P : jpoint) : jpoint :=
    let '(X, Y, Zc) := P in
    if (Zc =? 0) || (Y =? 0) then jinf else
    let YY := fsq Y in
    let S := fdbl (fdbl (fmul X YY)) in
    let XX := fsq X in
    let M0 := fadd (fdbl XX) XX in
    let M := if c_a C =? 0 then M0 else fadd M0 (fmul (c_a C mod c_p C) (fsq (fsq Zc))) in
    let X' := fsub (fsq M) (fdbl S) in
    let Y' := fsub (fmul M (fsub S X')) (fdbl (fdbl (fdbl (fsq YY)))) in
    let Z' := fdbl (fmul Y Zc) in
    (X', Y', Z').

  (* Jacobian + affine *)
  Definition jmadd (P : jpoint) (Q : apoint) : jpoint :=
    match Q with
    | None => P
    | Some (x2, y2) =>
        let '(X1, Y1, Z1) := P in
        if Z1 =? 0 then (x2, y2, 1) else
        let Z1Z1 := fsq Z1 in
        let U2 := fmul x2 Z1Z1 in
        let S2 := fmul y2 (fmul Z1 Z1Z1) in
        let H := fsub U2 X1 in
        let r := fsub S2 Y1 in
        if H =? 0 then (if r =? 0 then jdbl P else jinf) else
        let HH := fsq H in
        let HHH := fmul H HH in
        let V := fmul X1 HH in
        let X3 := fsub (fsub (fsq r) HHH) (fdbl V) in
        let Y3 := fsub (fmul r (fsub V X3)) (fmul Y1 HHH) in
        (X3, Y3, fmul Z1 H)
    end.

  Definition to_affine (P : jpoint) : apoint :=
    let '(X, Y, Zc) := P in
    if Zc =? 0 then None else
    let zi := inv_mod (c_p C) Zc in
    let zi2 := fsq zi in
    Some (fmul X zi2, fmul Y (fmul zi zi2)).

  Fixpoint jmul_pos (k : positive) (P : apoint) : jpoint :=
    match k with
    | xH => jmadd jinf P
    | xO q => jdbl (jmul_pos q P)
    | xI q => jmadd (jdbl (jmul_pos q P)) P
    end.

  Definition a_neg (P : apoint) : apoint :=
    match P with None => None | Some (x, y) => Some (x, if y =? 0 then 0 else c_p C - y) end.
  Definition a_add (P Q : apoint) : apoint :=
    match P with None => Q | Some (x, y) => to_affine (jmadd (x, y, 1) Q) end.
  Definition a_smul (k : Z) (P : apoint) : apoint :=
    match k with
    | Z0 => None
    | Zpos q => to_affine (jmul_pos q P)
    | Zneg q => a_neg (to_affine (jmul_pos q P))
    end.
  Definition a_eqb (P Q : apoint) : bool :=
    match P, Q with
    | None, None => true
    | Some (x1, y1), Some (x2, y2) => (x1 =? x2) && (y1 =? y2)
    | _, _ => false
    end.
  Definition a_x (P : apoint) : Z := match P with Some (x, _) => x | None => 0 end.
  Definition a_yodd (P : apoint) : bool := match P with Some (_, y) => Z.odd y | None => false end.
  Definition rhs (x : Z) : Z := fadd (fmul x (fadd (fsq x) (c_a C mod c_p C))) (c_b C).
  Definition on_curve (x y : Z) : bool :=
    (0 <=? x) && (x <? c_p C) && (0 <=? y) && (y <? c_p C) && (fsq y =? rhs x).
  (* p = 3 (mod 4) for both curves: sqrt(t) = t^((p+1)/4) *)
  Definition a_lift (x : Z) (odd : bool) : option apoint :=
    if (0 <=? x) && (x <? c_p C) then
      let t := rhs x in
      if t =? 0 then (if odd then None else Some (Some (x, 0))) else
      let y := fpow t (Z.to_pos ((c_p C + 1) / 4)) in
      if fsq y =? t then Some (Some (x, if Bool.eqb (Z.odd y) odd then y else c_p C - y)) else None
    else None.
  Definition a_G : apoint := Some (c_gx C, c_gy C).

  (* uncompressed public key without prefix: x || y, 32 bytes each *)
  Definition pk_bytes (P : apoint) : option bytes :=
    match P with Some (x, y) => Some (z_bytes32 x ++ z_bytes32 y) | None => None end.
  Definition pk_parse (b : bytes) : apoint :=
    let x := bytes_z (firstn 32 b) in
    let y := bytes_z (skipn 32 b) in
    if on_curve x y then Some (x, y) else None.

  (* the model of EcdsaModel.v on this curve *)
  Definition m_recover (A : rules) (sig msg : bytes) : option bytes :=
    match recover apoint a_eqb a_add None a_smul a_G (c_n C) a_x a_lift A sig msg with
    | Some Q => pk_bytes Q
    | None => None
    end.
  (* the k256 back-end (normalising recover, fix 378a736) *)
  Definition m_recover_k256 (sig msg : bytes) : option bytes :=
    match recover_norm apoint a_eqb a_add None a_smul a_G (c_n C) a_x a_lift (rules_k256 (c_n C)) sig msg with
    | Some Q => pk_bytes Q
    | None => None
    end.
  (* accepted?  (an unparsable public key is a rejection: InvalidPublicKey) *)
  Definition m_verify (A : rules) (sig pk msg : bytes) : bool :=
    match pk_parse pk with
    | Some Q => verify apoint a_eqb a_add None a_smul a_G (c_n C) a_x A sig (Some Q) msg
    | None => false
    end.
  Definition m_sign (d k : Z) (msg : bytes) : option bytes :=
    sign apoint a_eqb None a_smul a_G (c_n C) a_x a_yodd d k msg.
  Definition m_public_key (d : bytes) : option bytes := pk_bytes (a_smul (bytes_z d) a_G).
End Curve.

Definition k1_p : Z := 0xFFFFFFFFFFFFFFFFFFFFFFFFFFFFFFFFFFFFFFFFFFFFFFFFFFFFFFFEFFFFFC2F.
Definition k1_n : Z := 0xFFFFFFFFFFFFFFFFFFFFFFFFFFFFFFFEBAAEDCE6AF48A03BBFD25E8CD0364141.
Definition k1_gx : Z := 0x79BE667EF9DCBBAC55A06295CE870B07029BFCDB2DCE28D959F2815B16F81798.
Definition k1_gy : Z := 0x483ADA7726A3C4655DA4FBFC0E1108A8FD17B448A68554199C47D08FFB10D4B8.
(* 2^256 - p = 2^32 + 977 *)
Definition k1_cmul (h : Z) : Z := Z.shiftl h 32 + h * 977.

Definition secp256k1 : curve := {|
  c_p := k1_p; c_a := 0; c_b := 7; c_n := k1_n; c_gx := k1_gx; c_gy := k1_gy;
  c_cmul := k1_cmul;
  c_mul := zmul;
|}.

(* the same curve with plain Z.mul: no primitive integers; used for the `_refuted` witnesses so that
   they are closed under the global context (slower) *)
Definition secp256k1_pure : curve := {|
  c_p := k1_p; c_a := 0; c_b := 7; c_n := k1_n; c_gx := k1_gx; c_gy := k1_gy;
  c_cmul := k1_cmul;
  c_mul := Z.mul;
|}.

Definition secp256r1 : curve := {|
  c_p := 0xFFFFFFFF00000001000000000000000000000000FFFFFFFFFFFFFFFFFFFFFFFF;
  c_a := -3;
  c_b := 0x5AC635D8AA3A93E7B3EBBD55769886BC651D06B0CC53B0F63BCE3C3E27D2604B;
  c_n := 0xFFFFFFFF00000000FFFFFFFFFFFFFFFFBCE6FAADA7179E84F3B9CAC2FC632551;
  c_gx := 0x6B17D1F2E12C4247F8BCE6E563A440F277037D812DEB33A0F4A13945D898C296;
  c_gy := 0x4FE342E2FE1A7F9B8EE7EB4A7C0F9E162BCE33576B315ECECBB6406837BF51F5;
  (* 2^256 - p = 2^224 - 2^192 - 2^96 + 1 *)
  c_cmul := fun h => Z.shiftl h 224 - Z.shiftl h 192 - Z.shiftl h 96 + h;
  c_mul := zmul;
|}.

(* ---- known answers (validation of the instance; not used by any theorem) ---- *)
Example cmul_k1 : c_cmul secp256k1 1 = two256 - c_p secp256k1. Proof. vm_compute. reflexivity. Qed.
Example cmul_r1 : c_cmul secp256r1 1 = two256 - c_p secp256r1. Proof. vm_compute. reflexivity. Qed.
Example G_on_k1 : on_curve secp256k1 (c_gx secp256k1) (c_gy secp256k1) = true.
Proof. vm_compute. reflexivity. Qed.
Example G_on_r1 : on_curve secp256r1 (c_gx secp256r1) (c_gy secp256r1) = true.
Proof. vm_compute. reflexivity. Qed.
Example red_k1_ok :
  let x := c_gx secp256k1 * c_gy secp256k1 in
  red secp256k1 x = x mod c_p secp256k1 /\ red secp256k1 (mask256 * mask256) = (mask256 * mask256) mod c_p secp256k1.
Proof. vm_compute. split; reflexivity. Qed.
Example red_r1_ok :
  let x := c_gx secp256r1 * c_gy secp256r1 in
  red secp256r1 x = x mod c_p secp256r1 /\ red secp256r1 (mask256 * mask256) = (mask256 * mask256) mod c_p secp256r1.
Proof. vm_compute. split; reflexivity. Qed.
Example zmul_ok :
  let a := c_gx secp256k1 in let b := c_gy secp256r1 in
  zmul a b = a * b /\ zmul mask256 mask256 = mask256 * mask256 /\ zmul 0 a = 0 /\ zmul a 1 = a /\
  zmul (c_p secp256k1 - 1) (c_p secp256r1 - 1) = (c_p secp256k1 - 1) * (c_p secp256r1 - 1) /\
  zmul (2 ^ 261 - 1) (2 ^ 261 - 1) = (2 ^ 261 - 1) * (2 ^ 261 - 1).
Proof. vm_compute. repeat split; reflexivity. Qed.
(* 2G and 3G of secp256k1 (public test vectors) *)
Example k1_2G : a_smul secp256k1 2 (a_G secp256k1) =
  Some (0xC6047F9441ED7D6D3045406E95C07CD85C778E4B8CEF3CA7ABAC09B95C709EE5,
        0x1AE168FEA63DC339A3C58419466CEAEEF7F632653266D0E1236431A950CFE52A).
Proof. vm_compute. reflexivity. Qed.
Example k1_3G : a_add secp256k1 (a_smul secp256k1 2 (a_G secp256k1)) (a_G secp256k1) =
  Some (0xF9308A019258C31049344F85F89D5229B531C845836F99B08601F113BCE036F9,
        0x388F7B0F632DE8140FE337E62A37F3566500A99934C2231B6CB9FD7584B8E672).
Proof. vm_compute. reflexivity. Qed.
Example k1_pure_3G : a_add secp256k1_pure (a_smul secp256k1_pure 2 (a_G secp256k1_pure)) (a_G secp256k1_pure) =
  a_add secp256k1 (a_smul secp256k1 2 (a_G secp256k1)) (a_G secp256k1).
Proof. vm_compute. reflexivity. Qed.
Example k1_lift_G : a_lift secp256k1 (c_gx secp256k1) false = Some (a_G secp256k1).
Proof. vm_compute. reflexivity. Qed.
Example r1_lift_G : a_lift secp256r1 (c_gx secp256r1) true = Some (a_G secp256r1).
Proof. vm_compute. reflexivity. Qed.
(* the generators have order n: (n-1) G = -G *)
Example k1_order : a_smul secp256k1 (c_n secp256k1 - 1) (a_G secp256k1) = a_neg secp256k1 (a_G secp256k1).
Proof. vm_compute. reflexivity. Qed.
Example r1_order : a_smul secp256r1 (c_n secp256r1 - 1) (a_G secp256r1) = a_neg secp256r1 (a_G secp256r1).
Proof. vm_compute. reflexivity. Qed.
