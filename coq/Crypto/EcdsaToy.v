(* Crypto/EcdsaToy.v — non-vacuity: the premises [group_laws] of the C16/C17 theorems are satisfiable.
   Model: the cyclic group Z/7 (every group satisfying the laws with n = 7 is isomorphic to it), with
   "coordinates" x(P) = min(P, 7-P), parity(P) = [P > 3], so that P and -P share x and differ in parity,
   exactly like affine coordinates on a curve over a field of odd characteristic. *)
From Coq Require Import ZArith Znumtheory Zdiv Lia List Bool.
From FV Require Import Base.Bytes Crypto.EcdsaModel Crypto.EcdsaSpec.
Open Scope Z_scope.

Inductive z7 := A0 | A1 | A2 | A3 | A4 | A5 | A6.
Definition to_Z (P : z7) : Z :=
  match P with A0 => 0 | A1 => 1 | A2 => 2 | A3 => 3 | A4 => 4 | A5 => 5 | A6 => 6 end.
Definition of_Z (a : Z) : z7 :=
  match a mod 7 with 0 => A0 | 1 => A1 | 2 => A2 | 3 => A3 | 4 => A4 | 5 => A5 | _ => A6 end.
Definition t_eqb (P Q : z7) : bool := to_Z P =? to_Z Q.
Definition t_add (P Q : z7) : z7 := of_Z (to_Z P + to_Z Q).
Definition t_neg (P : z7) : z7 := of_Z (- to_Z P).
Definition t_smul (a : Z) (P : z7) : z7 := of_Z (a * to_Z P).
Definition t_x (P : z7) : Z := Z.min (to_Z P) (7 - to_Z P).
Definition t_odd (P : z7) : bool := 3 <? to_Z P.
Definition t_lift (x : Z) (b : bool) : option z7 :=
  if (1 <=? x) && (x <=? 3) then Some (of_Z (if b then - x else x)) else None.

Lemma of_to P : of_Z (to_Z P) = P. Proof. destruct P; reflexivity. Qed.
Lemma to_of a : to_Z (of_Z a) = a mod 7.
Proof.
  pose proof (Z.mod_pos_bound a 7 ltac:(lia)) as H.
  assert (E : a mod 7 = 0 \/ a mod 7 = 1 \/ a mod 7 = 2 \/ a mod 7 = 3 \/ a mod 7 = 4 \/ a mod 7 = 5 \/ a mod 7 = 6) by lia.
  unfold of_Z. destruct E as [E|[E|[E|[E|[E|[E|E]]]]]]; rewrite E; reflexivity.
Qed.
Lemma of_Z_cg a b : a mod 7 = b mod 7 -> of_Z a = of_Z b.
Proof. unfold of_Z. intros ->. reflexivity. Qed.
Lemma to_Z_inj P Q : to_Z P = to_Z Q -> P = Q.
Proof. intros H. rewrite <- (of_to P), <- (of_to Q), H. reflexivity. Qed.

Lemma prime_7 : prime 7.
Proof.
  apply prime_intro; [lia|]. intros m Hm.
  assert (E : m = 1 \/ m = 2 \/ m = 3 \/ m = 4 \/ m = 5 \/ m = 6) by lia.
  destruct E as [->|[->|[->|[->|[->| ->]]]]]; apply Zgcd_1_rel_prime; reflexivity.
Qed.

Example toy_group_laws : group_laws z7 t_eqb t_add t_neg A0 t_smul A1 7 t_x t_odd t_lift.
Proof.
  constructor.
  - exact prime_7.
  - intros P Q. unfold t_eqb. rewrite Z.eqb_eq. split; [apply to_Z_inj|intros ->; reflexivity].
  - intros P. exists (to_Z P). unfold t_smul. cbn [to_Z]. rewrite Z.mul_1_r, of_to. reflexivity.
  - intros a b. unfold t_smul. cbn [to_Z]. rewrite !Z.mul_1_r. split.
    + intros H. apply (f_equal to_Z) in H. rewrite !to_of in H. exact H.
    + apply of_Z_cg.
  - intros a b. unfold t_add, t_smul. cbn [to_Z]. rewrite !Z.mul_1_r, !to_of. apply of_Z_cg.
    symmetry. apply Zplus_mod.
  - intros a b. unfold t_smul. cbn [to_Z]. rewrite !Z.mul_1_r, to_of. apply of_Z_cg.
    apply Zmult_mod_idemp_r.
  - reflexivity.
  - intros a. unfold t_neg, t_smul. cbn [to_Z]. rewrite !Z.mul_1_r, to_of. apply of_Z_cg.
    apply (Zopp_eqm 7). apply Zmod_eqm.
  - intros x b P. unfold t_lift. destruct ((1 <=? x) && (x <=? 3)) eqn:E; [|discriminate].
    apply andb_true_iff in E as [E1 E2]. apply Z.leb_le in E1, E2.
    assert (Hx : x = 1 \/ x = 2 \/ x = 3) by lia.
    destruct Hx as [->|[->| ->]]; destruct b; intros H; injection H as <-; vm_compute; repeat split; discriminate.
  - intros P HP. destruct P; try reflexivity. congruence.
  - intros P HP. destruct P; try (split; reflexivity). congruence.
  - intros P. destruct P; vm_compute; discriminate.
  - vm_compute. split; reflexivity.
Qed.

(* a concrete run of the model in the toy group: key d = 3, nonce k = 2, digest z = 5 *)
Example toy_sign :
  sign_rsv z7 t_eqb A0 t_smul A1 7 t_x t_odd 3 2 5 = Some (2, 2, false) /\
  valid_nonce z7 t_eqb A0 t_smul A1 7 t_x t_odd 3 2 5 = true /\
  recover_rsv z7 t_eqb t_add A0 t_smul A1 7 t_x t_lift (rules_k256 7) 2 2 false 5 = Some (t_smul 3 A1) /\
  verify_rsv z7 t_eqb t_add A0 t_smul A1 7 t_x (rules_k256 7) (t_smul 3 A1) 2 2 5 = true /\
  (* high s = 7 - 2 = 5 with the parity flipped: accepted by the libsecp256k1 rules, rejected by k256's *)
  recover_rsv z7 t_eqb t_add A0 t_smul A1 7 t_x t_lift (rules_libsecp 7) 2 5 true 5 = Some (t_smul 3 A1) /\
  recover_rsv z7 t_eqb t_add A0 t_smul A1 7 t_x t_lift (rules_k256 7) 2 5 true 5 = None.
Proof. vm_compute. repeat split; reflexivity. Qed.

(* deterministic signing with a nonce oracle that separates a digest >= n from its residue: the
   "reduce first" (k256) and "raw" (libsecp256k1) variants then produce different signatures *)
Definition toy_nonce (d x : Z) : Z := if x <? 7 then 3 else 1.
Example toy_sign_det_differs_ge_n :
  bytes_z [8%N] >= 7 /\
  sign_det z7 t_eqb A0 t_smul A1 7 t_x t_odd toy_nonce true 3 [8%N] <>
  sign_det z7 t_eqb A0 t_smul A1 7 t_x t_odd toy_nonce false 3 [8%N].
Proof. split; [vm_compute; discriminate|]. vm_compute. discriminate. Qed.
(* both variants do produce a signature (the difference is not a failure of one of them) *)
Example toy_sign_det_both_sign :
  sign_rsv z7 t_eqb A0 t_smul A1 7 t_x t_odd 3 (toy_nonce 3 (8 mod 7)) (8 mod 7) = Some (3, 1, false) /\
  sign_rsv z7 t_eqb A0 t_smul A1 7 t_x t_odd 3 (toy_nonce 3 8) (8 mod 7) = Some (1, 3, true).
Proof. vm_compute. split; reflexivity. Qed.
