(* Crypto/EcdsaModel.v — L1 model of fuel-crypto's secp256 signing / recovery / verification
   (fuel-crypto/src/secp256/{signature_format.rs, backend/k1/k256.rs, backend/k1/secp256k1.rs,
   backend/r1/p256.rs}) over an ABSTRACT group given as Section variables.  Definitions only.

   What each back-end does (read off the crates, see DESIGN.md 6/C16):
     libsecp256k1 (std build)      parse_compact: r,s < n;  recover: r,s <> 0, r lifts with the
                                   requested parity, Q = r^-1 (s R - z G) <> infinity;  NO high-s test.
                                   verify: r,s <> 0, s <= n/2 (secp256k1_ecdsa_verify), x(R') = r.
     k256 (no-std build)           Signature::from_slice: r,s in [1,n);  recover_from_prehash: same Q,
                                   then RE-VERIFIES the signature with the recovered key;
                                   verify_prehashed rejects s > n/2.  Since fix 378a736 the fuel wrapper
                                   (backend/k1/k256.rs recover) first NORMALISES: if s > n/2 it passes
                                   (r, n - s) with the opposite parity to recover_from_prehash.
     p256 (secp256r1)              as k256 but verify does not look at high s.
   The message enters only as  z = m mod n  (both libraries reduce the 32-byte digest).           *)
From Coq Require Import ZArith List Bool.
From FV Require Import Base.Bytes.
Import ListNotations.
Open Scope Z_scope.

(* ------------------------------------------------------------------ scalars modulo n *)
(* extended Euclid on (n, a mod n): invariant  r_i = s_i * a (mod n) *)
Fixpoint egcd (fuel : nat) (r0 r1 s0 s1 : Z) : Z * Z :=
  match fuel with
  | O => (r0, s0)
  | S f => if r1 =? 0 then (r0, s0)
           else let q := r0 / r1 in egcd f r1 (r0 - q * r1) s1 (s0 - q * s1)
  end.
Definition egcd_fuel (n : Z) : nat := S (2 * Z.to_nat (Z.log2_up n)).
Definition inv_mod (n a : Z) : Z := snd (egcd (egcd_fuel n) n (a mod n) 0 1) mod n.

(* ------------------------------------------------------------------ compact signature format *)
(* signature_format.rs: the y-parity of R lives in the top bit of byte 32 (= bit 255 of s).
   For a byte b:  b & 0x7f = b mod 128,  (b & 0x80) != 0  <->  128 <= b,  b >> 7 == 0 <-> b < 128. *)
Definition decode_signature (sig : bytes) : bytes * bool :=
  match skipn 32 sig with
  | b :: rest => (firstn 32 sig ++ (b mod 128)%N :: rest, (128 <=? b)%N)
  | [] => (sig, false)
  end.
(* None = the `assert!(signature[32] >> 7 == 0, "Non-normalized signature")` panic *)
Definition encode_signature (sig : bytes) (is_y_odd : bool) : option bytes :=
  match skipn 32 sig with
  | b :: rest => if (b <? 128)%N
                 then Some (firstn 32 sig ++ ((if is_y_odd then 128 else 0) + b mod 128)%N :: rest)
                 else None
  | [] => None
  end.

Definition bytes_z (b : bytes) : Z := Z.of_N (be_decode b).
Definition z_bytes32 (z : Z) : bytes := be_encode 32 (Z.to_N z).
Definition sig_r (sig : bytes) : Z := bytes_z (firstn 32 sig).
Definition sig_s (sig : bytes) : Z := bytes_z (skipn 32 sig).
Definition sig_bytes (r s : Z) : bytes := z_bytes32 r ++ z_bytes32 s.

(* acceptance rules that differ between back-ends *)
Record rules := {
  rec_s_ok : Z -> bool;        (* test on s made by `recover` before the group computation *)
  rec_reverify : bool;         (* recover re-runs verify with the recovered key (ecdsa crate) *)
  ver_s_ok : Z -> bool;        (* test on s made by `verify` *)
}.

Section Ecdsa.
  Variable point : Type.
  Variable pt_eqb : point -> point -> bool.
  Variable add : point -> point -> point.
  Variable zero : point.
  Variable smul : Z -> point -> point.
  Variable G : point.
  Variable n : Z.                                   (* group order *)
  Variable x_of : point -> Z.                       (* affine x as an integer in [0,p) *)
  Variable y_odd : point -> bool.
  Variable lift_x : Z -> bool -> option point.      (* decompression: x, parity -> point *)

  Definition in_range (a : Z) : bool := (1 <=? a) && (a <? n).
  Definition is_high (s : Z) : bool := n / 2 <? s.
  Definition msg_z (msg : bytes) : Z := bytes_z msg mod n.

  (* Q = r^-1 (s R - z G); rules common to all back-ends: r,s in [1,n), r lifts, Q <> infinity *)
  Definition recover_core (r s : Z) (v : bool) (z : Z) : option point :=
    if in_range r && in_range s then
      match lift_x r v with
      | None => None
      | Some R =>
          let ri := inv_mod n r in
          let u1 := (- (ri * z)) mod n in
          let u2 := (ri * s) mod n in
          let Q := add (smul u1 G) (smul u2 R) in
          if pt_eqb Q zero then None else Some Q
      end
    else None.

  (* x(z s^-1 G + r s^-1 Q) mod n = r *)
  Definition verify_core (Q : point) (r s z : Z) : bool :=
    if in_range r && in_range s then
      let w := inv_mod n s in
      let u1 := (z * w) mod n in
      let u2 := (r * w) mod n in
      let R := add (smul u1 G) (smul u2 Q) in
      negb (pt_eqb R zero) && (x_of R mod n =? r)
    else false.

  (* (written with `if`, not `&&`: vm_compute is strict and would evaluate both sides) *)
  Definition verify_rsv (A : rules) (Q : point) (r s z : Z) : bool :=
    if ver_s_ok A s then verify_core Q r s z else false.

  (* what a back-end does with the candidate key computed by recover_core *)
  Definition recover_finish (A : rules) (r s z : Z) (core : option point) : option point :=
    if rec_s_ok A s then
      match core with
      | Some Q => if rec_reverify A then (if verify_rsv A Q r s z then Some Q else None) else Some Q
      | None => None
      end
    else None.
  Definition recover_rsv (A : rules) (r s : Z) (v : bool) (z : Z) : option point :=
    recover_finish A r s z (recover_core r s v z).

  (* the effective test on s applied by `recover` *)
  Definition rec_s_eff (A : rules) (s : Z) : bool :=
    rec_s_ok A s && (negb (rec_reverify A) || ver_s_ok A s).

  Definition low_s (s : Z) : bool := negb (is_high s).
  Definition rules_libsecp : rules :=
    {| rec_s_ok := fun _ => true; rec_reverify := false; ver_s_ok := low_s |}.
  Definition rules_k256 : rules :=
    {| rec_s_ok := fun _ => true; rec_reverify := true; ver_s_ok := low_s |}.
  Definition rules_p256 : rules :=
    {| rec_s_ok := fun _ => true; rec_reverify := true; ver_s_ok := fun _ => true |}.
  (* k256 back-end (k256.rs recover since fix 378a736): `sig.normalize_s()` and flip `is_y_odd`,
     then recover_from_prehash, i.e. recover_rsv under rules_k256 *)
  Definition recover_rsv_normalising (A : rules) (r s : Z) (v : bool) (z : Z) : option point :=
    if in_range s && is_high s then recover_rsv A r (n - s) (negb v) z else recover_rsv A r s v z.

  (* byte level: [u8;64] signature, [u8;32] message *)
  Definition recover (A : rules) (sig msg : bytes) : option point :=
    let '(sg, v) := decode_signature sig in
    recover_rsv A (sig_r sg) (sig_s sg) v (msg_z msg).
  (* the k256 back-end's recover: decode, normalise, recover under A (= rules_k256) *)
  Definition recover_norm (A : rules) (sig msg : bytes) : option point :=
    let '(sg, v) := decode_signature sig in
    recover_rsv_normalising A (sig_r sg) (sig_s sg) v (msg_z msg).
  Definition verify (A : rules) (sig : bytes) (Q : point) (msg : bytes) : bool :=
    let '(sg, _) := decode_signature sig in
    verify_rsv A Q (sig_r sg) (sig_s sg) (msg_z msg).

  (* signing with an explicit nonce k (the libraries derive k by RFC 6979; not modelled).
     None = the library call fails or panics:
       R = infinity, r = 0, s = 0 (retry with the next nonce in the libraries), or x(R) >= n
       ("reduced-x recovery ids are never generated" expect in backend/k1/*.rs). *)
  Definition sign_rsv (d k z : Z) : option (Z * Z * bool) :=
    let R := smul k G in
    if pt_eqb R zero then None else
    let r := x_of R mod n in
    let s := (inv_mod n k * (z + r * d)) mod n in
    if (r =? 0) || (s =? 0) then None
    else if negb (x_of R <? n) then None
    else if is_high s then Some (r, n - s, negb (y_odd R)) else Some (r, s, y_odd R).

  Definition valid_nonce (d k z : Z) : bool :=
    in_range k && match sign_rsv d k z with Some _ => true | None => false end.

  Definition sign (d k : Z) (msg : bytes) : option bytes :=
    match sign_rsv d k (msg_z msg) with
    | Some (r, s, v) => encode_signature (sig_bytes r s) v
    | None => None
    end.

  Definition public_key (d : Z) : point := smul d G.

  (* deterministic signing: the nonce is a function of the key and of the digest octets (RFC 6979
     HMAC-DRBG, an oracle here; for a fixed length the octets are determined by their integer value).
     k256 feeds the digest REDUCED modulo n (bits2octets), libsecp256k1 the raw 32 bytes. *)
  Definition sign_det (nonce : Z -> Z -> Z) (reduce_first : bool) (d : Z) (msg : bytes) : option bytes :=
    sign d (nonce d (if reduce_first then bytes_z msg mod n else bytes_z msg)) msg.
End Ecdsa.
