(* Vm/GasSpec.v — L3 specification for C26 "gas is charged monotonically and never exceeds the
   limit", written from the property text; exact integer arithmetic.

   State: context gas c, global gas g, and the context gas the suspended callers keep
   (one entry per call frame).  Events of an execution:
     Charge x   pay x: allowed iff x <= c; then c, g both decrease by x.  Otherwise the
                instruction panics OutOfGas, c becomes 0 and g decreases by the old c.
     Call a     forward f = min(c, a) to the callee: the caller keeps c - f.
     Return     the callee's unspent context gas goes back to the caller.
   Cost of a dependent operation: base + units / units_per_gas  resp.  base + units * gas_per_unit,
   capped at 2^64 - 1. *)
From FV Require Import Base.Bytes Base.U64 Vm.GasTypes.
Open Scope N_scope.

Definition cost_spec (c : cost_val) (units : N) : N :=
  match c with
  | CFixed x => x
  | CLight b upg => N.min (b + units / upg) u64_max
  | CHeavy b gpu => N.min (b + units * gpu) u64_max
  end.

Record gstate := { cgas : N; ggas : N; saved : list N }.

Inductive gevent := Charge (x : N) | Call (fwd_arg : N) | Return.

Fixpoint sum (l : list N) : N := match l with [] => 0 | x :: t => x + sum t end.

(* what the specification allows as the next state; None = execution stops with OutOfGas in
   the state given by [oog_state] *)
Definition spec_event (s : gstate) (e : gevent) : option gstate :=
  match e with
  | Charge x => if x <=? cgas s then Some {| cgas := cgas s - x; ggas := ggas s - x; saved := saved s |} else None
  | Call a => let f := N.min (cgas s) a in
              Some {| cgas := f; ggas := ggas s; saved := (cgas s - f) :: saved s |}
  | Return => match saved s with
              | [] => Some s
              | k :: t => Some {| cgas := cgas s + k; ggas := ggas s; saved := t |}
              end
  end.
Definition oog_state (s : gstate) : gstate := {| cgas := 0; ggas := ggas s - cgas s; saved := saved s |}.

(* the invariant of the property: context gas (plus what suspended callers keep) never
   exceeds the global gas *)
Definition gas_inv (s : gstate) : Prop := cgas s + sum (saved s) <= ggas s.

Definition init_state (limit : N) : gstate := {| cgas := limit; ggas := limit; saved := [] |}.
