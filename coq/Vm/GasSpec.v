(* Vm/GasSpec.v — L3 specification for C26 "gas is charged monotonically and never exceeds the
   limit", written from the property text; exact integer arithmetic.

   State: context gas c, global gas g, and the context gas the suspended callers keep
   (one entry per call frame).  Events of an execution:
     Charge x   pay x: allowed iff x <= c; then c, g both decrease by x.  Otherwise the
                instruction panics OutOfGas, c becomes 0 and g decreases by the old c.
     Call a     forward f = min(c, a) to the callee: the caller keeps c - f.
     Return     the callee's unspent context gas goes back to the caller.
   Cost of a dependent operation: base + units / units_per_gas  resp.  base + units * gas_per_unit,
   capped at 2^64 - 1. *)
From FV Require Import Base.Bytes Base.U64 Vm.GasTypes.
Open Scope N_scope.

Definition cost_spec (c : cost_val) (units : N) : N :=
  match c with
  | CFixed x => x
  | CLight b upg => N.min (b + units / upg) u64_max
  | CHeavy b gpu => N.min (b + units * gpu) u64_max
  end.

Record gstate := { cgas : N; ggas : N; saved : list N }.

Inductive gevent := Charge (x : N) | Call (fwd_arg : N) | Return.

Fixpoint sum (l : list N) : N := match l with [] => 0 | x :: t => x + sum t end.

(* what the specification allows as the next state; None = execution stops with OutOfGas in
   the state given by [oog_state] *)
Definition spec_event (s : gstate) (e : gevent) : option gstate :=
  match e with
  | Charge x => if x <=? cgas s then Some {| cgas := cgas s - x; ggas := ggas s - x; saved := saved s |} else None
  | Call a => let f := N.min (cgas s) a in
              Some {| cgas := f; ggas := ggas s; saved := (cgas s - f) :: saved s |}
  | Return => match saved s with
              | [] => Some s
              | k :: t => Some {| cgas := cgas s + k; ggas := ggas s; saved := t |}
              end
  end.
Definition oog_state (s : gstate) : gstate := {| cgas := 0; ggas := ggas s - cgas s; saved := saved s |}.

(* the invariant of the property: context gas (plus what suspended callers keep) never
   exceeds the global gas *)
Definition gas_inv (s : gstate) : Prop := cgas s + sum (saved s) <= ggas s.

Definition init_state (limit : N) : gstate := {| cgas := limit; ggas := limit; saved := [] |}.

(* ---- charge sequences of the instructions that charge more than once or depend on a size
   (from the FuelVM gas-cost description; independent of the code).  "base" / "per unit" refer
   to the dependent cost of the instruction:
     CSIZ, CROO   base, then per byte of the contract's code
     CCP          base, then per byte of max(code size, $rD)
     LDC          base, then per byte of: mode 0 max(code size, padded $rC); mode 1 max(blob size,
                  padded $rC); mode 2 padded $rC (nothing when $rC = 0)
     BSIZ         base, then per byte of the blob;   BLDD  base, then per byte of max($rD, blob size)
     CALL         base, then per byte of the padded code size, then 40 * new_storage_per_byte when the
                  callee's balance entry for the forwarded asset is created
     TR, MINT     fixed cost, then 40 * new_storage_per_byte when a balance entry is created *)
From FV Require Import Vm.FlowSpec.
Open Scope string_scope.
Definition spec_gas_seq : list (N * cseq) := [
  (0x30 (* CSIZ *), [(GAlways, ChBase "csiz"); (GAlways, ChDepNoBase "csiz" (XObs OCodeSize))]);
  (0x2f (* CROO *), [(GAlways, ChBase "croo"); (GAlways, ChDepNoBase "croo" (XObs OCodeSize))]);
  (0x2e (* CCP  *), [(GAlways, ChBase "ccp"); (GAlways, ChDepNoBase "ccp" (XMax (XObs OCodeSize) (XReg FD)))]);
  (0x32 (* LDC  *), [(GAlways, ChBase "ldc");
                     (GModeIs 0, ChDepNoBase "ldc" (XMax (XObs OCodeSize) (XPad8 (XReg FC))));
                     (GModeIs 1, ChDepNoBase "ldc" (XMax (XObs OBlobSize) (XPad8Max (XReg FC))));
                     (GAnd (GModeIs 2) (GNz (XReg FC)), ChDepNoBase "ldc" (XPad8Max (XReg FC)))]);
  (0xba (* BSIZ *), [(GAlways, ChBase "bsiz"); (GAlways, ChDepNoBase "bsiz" (XObs OBlobSize))]);
  (0xbb (* BLDD *), [(GAlways, ChBase "bldd"); (GAlways, ChDepNoBase "bldd" (XMax (XReg FD) (XObs OBlobSize)))]);
  (0x2d (* CALL *), [(GAlways, ChBase "call"); (GAlways, ChDepNoBase "call" (XPad8 (XObs OCodeSize))); (GNewEntry, ChPerByte 40)]);
  (0x3c (* TR   *), [(GAlways, ChFixed "tr"); (GNewEntry, ChPerByte 40)]);
  (0x35 (* MINT *), [(GAlways, ChFixed "mint"); (GNewEntry, ChPerByte 40)]);
  (* single dependent charges: base + per unit of the named operand *)
  (0x25 (* RETD *), [(GAlways, ChDep "retd" (XReg FB))]);
  (0x26 (* ALOC *), [(GAlways, ChDep "aloc" (XReg FA))]);
  (0x27 (* MCL  *), [(GAlways, ChDep "mcl" (XReg FB))]);
  (0x28 (* MCP  *), [(GAlways, ChDep "mcp" (XReg FC))]);
  (0x29 (* MEQ  *), [(GAlways, ChDep "meq" (XReg FD))]);
  (0x34 (* LOGD *), [(GAlways, ChDep "logd" (XReg FD))]);
  (0x40 (* ED19 *), [(GAlways, ChDep "ed19" (XReg0is32 FD))]);
  (0x41 (* K256 *), [(GAlways, ChDep "k256" (XReg FC))]);
  (0x42 (* S256 *), [(GAlways, ChDep "s256" (XReg FC))]);
  (0x4c (* SMO  *), [(GAlways, ChDep "smo" (XReg FC))]);
  (0x60 (* MCPI *), [(GAlways, ChDep "mcpi" (XImm I12))]);
  (0x70 (* MCLI *), [(GAlways, ChDep "mcli" (XImm I18))]);
  (0x91 (* CFEI *), [(GAlways, ChDep "cfei" (XImm I24))]);
  (0x93 (* CFE  *), [(GAlways, ChDep "cfe" (XReg FA))]);
  (0xbe (* EPAR *), [(GAlways, ChDep "epar" (XReg FC))]);
  (0x3d (* TRO  *), [(GAlways, ChFixed "tro")]);
  (0x2c (* BURN *), [(GAlways, ChFixed "burn")])
].
(* storage instructions: `noop`, then micro-operations: SRW/SPLD/SRDD/SRDI one read; SRWQ reads;
   SWW and SUPD/SUPI read then write; SWWQ (read, write) per slot; SCWQ reads then clear; SCLR
   clear; SWRD/SWRI write.  read: read_hot/read_cold per byte of the value; write: storage_write per
   byte of the new value, then new_storage_per_byte per byte grown; clear: storage_clear per slot *)
Definition spec_gas_storage : list (N * sshape) := [
  (0x37, ShReadsClear); (0x38, ShRead); (0x39, ShReads); (0x3a, ShReadWrite); (0x3b, ShReadWrites);
  (0xc0, ShClear); (0xc1, ShRead); (0xc2, ShRead); (0xc3, ShWrite); (0xc4, ShWrite); (0xc5, ShReadWrite);
  (0xc6, ShReadWrite); (0xc7, ShRead)].
