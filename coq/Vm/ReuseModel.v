(* Vm/ReuseModel.v — L1 model of what survives between transactions on one Interpreter instance
   and of how a new transaction re-initialises it, function by function:

     struct Interpreter { registers, memory, frames, receipts, tx, initial_balances,
       input_contracts, input_contracts_index_to_output_index, storage, debugger, context,
       balances, interpreter_params, panic_context, ecal_state, verifier, owner_ptr,
       storage_slot_cache }                                     (interpreter.rs)         -> vm
     Interpreter::with_storage_and_ecal                         (constructors.rs)        -> vm_fresh
     MemoryInstance::{new, reset, grow_stack, verify, write_noownerchecks} (memory.rs)   -> mem_*
     init_inner / init_script / init_predicate  incl. push_stack! (initialization.rs)   -> same names
     RuntimeBalances::to_vm                                     (balances.rs)            -> to_vm
     set_gas                                                    (gas.rs)
     append_panic_receipt (consumes panic_context)              (flow.rs)                -> append_panic_receipt
     Debugger::clear_last_state, called by init_inner (repair 22c6df9 of finding F9)     -> clear_last_state (env)
     check_predicate: a NEW interpreter around the caller's memory (executors/main.rs)   -> predicate_vm

   The memory keeps what the Rust struct keeps: the stack buffer (its length is the stack
   high-water mark), the heap BUFFER (possibly over-allocated, dirty below hp; an arbitrary type
   H here, read through `heap_read`), and hp.  Everything computed from the transaction and the
   consensus parameters (id, serialisation, offsets, owner, balances table, ...) enters as
   arbitrary functions of (Params, Tx); the instruction set enters as an arbitrary step
   function.  Definitions only. *)
From Coq Require Import List NArith Bool.
From FV Require Import Base.Bytes Base.U64.
Import ListNotations.
Open Scope N_scope.
Set Implicit Arguments.

Definition MEM_SIZE : N := 67108864.        (* consts.rs: VM_MAX_RAM = MEM_SIZE = 64 MiB *)
Definition VM_MAX_RAM : N := MEM_SIZE.
Definition VM_REGISTER_COUNT : nat := 64.
Definition REG_ONE : nat := 1.  Definition REG_PC : nat := 3.  Definition REG_SSP : nat := 4.
Definition REG_SP : nat := 5.   Definition REG_HP : nat := 7.  Definition REG_GGAS : nat := 9.
Definition REG_CGAS : nat := 10. Definition REG_IS : nat := 12.
Definition ASSET_LEN : N := 32.
Definition BALANCE_ENTRY_SIZE : N := 40.    (* AssetId::LEN + WORD_SIZE *)

Fixpoint set_nth {A} (n : nat) (x : A) (l : list A) : list A :=
  match n, l with
  | _, [] => []
  | O, _ :: t => x :: t
  | S k, h :: t => h :: set_nth k x t
  end.

Inductive panic_reason := MemoryOverflow | MemoryGrowthOverlap | UninitalizedMemoryAccess.

(* ------------------------------------------------------------------ memory *)
Section Memory.
  Variable H : Type.                               (* the heap Vec<u8>, whatever it holds *)
  Record memory := { m_stack : bytes; m_heap : H; m_hp : N }.

  (* MemoryInstance::reset: stack.truncate(0); hp = MEM_SIZE; the heap buffer is kept as it is *)
  Definition mem_reset (m : memory) : memory := {| m_stack := []; m_heap := m_heap m; m_hp := MEM_SIZE |}.

  (* grow_stack(new_sp): Vec::resize(new_sp, 0) *)
  Definition mem_grow_stack (m : memory) (new_sp : N) : memory + panic_reason :=
    if VM_MAX_RAM <? new_sp then inr MemoryOverflow
    else if lenN (m_stack m) <? new_sp then
      if m_hp m <? new_sp then inr MemoryGrowthOverlap
      else inl {| m_stack := m_stack m ++ zeros (N.to_nat (new_sp - lenN (m_stack m))); m_heap := m_heap m; m_hp := m_hp m |}
    else inl m.

  (* verify(addr, len) *)
  Definition mem_verify (m : memory) (addr len : N) : option panic_reason :=
    if (MEM_SIZE <? addr) || (MEM_SIZE <? len) then Some MemoryOverflow
    else let e := addr + len in
      if MEM_SIZE <? e then Some MemoryOverflow
      else if (e <=? lenN (m_stack m)) || (m_hp m <=? addr) then None
      else Some UninitalizedMemoryAccess.

  (* write_noownerchecks(addr, data.len()).copy_from_slice(data), for ranges in the stack (the
     only ones initialisation writes); None = the range is not (entirely) in the stack buffer *)
  Definition mem_write_stack (m : memory) (addr : N) (data : bytes) : option memory :=
    match mem_verify m addr (lenN data) with
    | Some _ => None
    | None =>
        if addr + lenN data <=? lenN (m_stack m) then
          Some {| m_stack := firstn (N.to_nat addr) (m_stack m) ++ data ++ skipn (N.to_nat (addr + lenN data)) (m_stack m);
                  m_heap := m_heap m; m_hp := m_hp m |}
        else None
    end.
End Memory.
Arguments m_stack {H}. Arguments m_heap {H}. Arguments m_hp {H}.

(* ------------------------------------------------------------------ the instance *)
Inductive context :=
| CtxPredicateEstimation (program : N * N)
| CtxPredicateVerification (program : N * N)
| CtxScript (block_height : N)
| CtxCall (block_height : N)
| CtxNotInitialized.

Inductive bug_variant := TransactionOwnerIndexOutOfBounds | TransactionOwnerInputHasNoOwner (index : N).
Inductive init_error := EStorage | EValidity | EBug (b : bug_variant) | EPanic (r : panic_reason).

Section Instance.
  (* opaque components *)
  Variables (H Tx Params Storage Debugger Frame Receipt IB RB C Ecal Verifier Slot : Type).
  (* PanicContext::{None, ContractId(id)} *)
  Inductive panic_context := PCNone | PCContractId (c : C).

  Record vm := mkVm {
    registers : list N;
    mem : memory H;
    frames : list Frame;
    receipts : list Receipt;
    tx : Tx;
    initial_balances : IB;
    input_contracts : list C;
    input_contracts_index_to_output_index : list (N * N);
    storage : Storage;
    debugger : Debugger;
    ctx : context;
    balances : RB;
    interpreter_params : Params;
    pctx : panic_context;
    ecal_state : Ecal;
    verifier : Verifier;
    owner_ptr : option N;
    storage_slot_cache : list Slot;
  }.

  (* what the transaction and the parameters determine, and the defaults of the constructor *)
  Record env := mkEnv {
    prepare_sign : Tx -> Tx;
    input_contracts_of : Tx -> list C;
    owner_of : Params -> Tx -> option N + bug_variant;     (* the owner-pointer computation *)
    io_index_of : Tx -> list (N * N);
    tx_id : Params -> Tx -> bytes;
    base_asset_id : Params -> bytes;
    max_inputs : Params -> N;
    tx_offset : Params -> N;
    tx_size : Tx -> N;
    tx_to_bytes : Tx -> bytes;
    script_gas_limit : Tx -> option N;                      (* None: not a script *)
    script_offset : Tx -> option N;
    runtime_balances : IB -> option RB;                     (* TryFrom<InitialBalances>, may overflow *)
    rb_entries : RB -> list (N * (bytes * N));              (* (memory offset, (asset id, value)) *)
    block_height : Storage -> option N;
    clear_last_state : Debugger -> Debugger;                (* Debugger::clear_last_state: last_state := None, rest kept *)
    ib_default : IB; tx_default : Tx; rb_default : RB; debugger_default : Debugger; verifier_default : Verifier;
  }.
  Variable E : env.

  (* Interpreter::with_storage_and_ecal *)
  Definition vm_fresh (m : memory H) (s : Storage) (p : Params) (e : Ecal) : vm :=
    {| registers := repeat 0 VM_REGISTER_COUNT; mem := m; frames := []; receipts := []; tx := (tx_default E);
       initial_balances := (ib_default E); input_contracts := []; input_contracts_index_to_output_index := [];
       storage := s; debugger := (debugger_default E); ctx := CtxNotInitialized; balances := (rb_default E);
       interpreter_params := p; pctx := PCNone; ecal_state := e; verifier := (verifier_default E);
       owner_ptr := None; storage_slot_cache := [] |}.

  Inductive init_result :=
  | IOk (v : vm)
  | IErr (e : init_error) (v : vm)          (* Err(e); the instance is left as far as initialisation got *)
  | IHostPanic.                             (* an `expect` fired *)

  Definition reg (v : vm) (r : nat) : N := nth r (registers v) 0.
  Definition set_reg (v : vm) (r : nat) (x : N) : vm :=
    mkVm (set_nth r x (registers v)) (mem v) (frames v) (receipts v) (tx v) (initial_balances v) (input_contracts v)
         (input_contracts_index_to_output_index v) (storage v) (debugger v) (ctx v) (balances v) (interpreter_params v)
         (pctx v) (ecal_state v) (verifier v) (owner_ptr v) (storage_slot_cache v).
  Definition set_mem (v : vm) (m : memory H) : vm :=
    mkVm (registers v) m (frames v) (receipts v) (tx v) (initial_balances v) (input_contracts v)
         (input_contracts_index_to_output_index v) (storage v) (debugger v) (ctx v) (balances v) (interpreter_params v)
         (pctx v) (ecal_state v) (verifier v) (owner_ptr v) (storage_slot_cache v).
  Definition set_ctx (v : vm) (c : context) : vm :=
    mkVm (registers v) (mem v) (frames v) (receipts v) (tx v) (initial_balances v) (input_contracts v)
         (input_contracts_index_to_output_index v) (storage v) (debugger v) c (balances v) (interpreter_params v)
         (pctx v) (ecal_state v) (verifier v) (owner_ptr v) (storage_slot_cache v).
  Definition set_balances (v : vm) (b : RB) : vm :=
    mkVm (registers v) (mem v) (frames v) (receipts v) (tx v) (initial_balances v) (input_contracts v)
         (input_contracts_index_to_output_index v) (storage v) (debugger v) (ctx v) b (interpreter_params v)
         (pctx v) (ecal_state v) (verifier v) (owner_ptr v) (storage_slot_cache v).
  Definition set_pctx (v : vm) (p : panic_context) : vm :=
    mkVm (registers v) (mem v) (frames v) (receipts v) (tx v) (initial_balances v) (input_contracts v)
         (input_contracts_index_to_output_index v) (storage v) (debugger v) (ctx v) (balances v) (interpreter_params v)
         p (ecal_state v) (verifier v) (owner_ptr v) (storage_slot_cache v).
  Definition push_receipt (v : vm) (r : Receipt) : vm :=
    mkVm (registers v) (mem v) (frames v) (receipts v ++ [r]) (tx v) (initial_balances v) (input_contracts v)
         (input_contracts_index_to_output_index v) (storage v) (debugger v) (ctx v) (balances v) (interpreter_params v)
         (pctx v) (ecal_state v) (verifier v) (owner_ptr v) (storage_slot_cache v).

  (* push_stack!(data) *)
  Definition push_stack (v : vm) (data : bytes) (k : vm -> init_result) : init_result :=
    let old_ssp := reg v REG_SSP in
    match checked_add U64 old_ssp (lenN data) with
    | None => IHostPanic
    | Some new_ssp =>
        match mem_grow_stack (mem v) new_ssp with
        | inr r => IErr (EPanic r) v
        | inl m1 =>
            let v1 := set_reg (set_mem v m1) REG_SSP new_ssp in
            match mem_write_stack m1 old_ssp data with
            | None => IHostPanic
            | Some m2 => k (set_mem v1 m2)
            end
        end
    end.

  (* RuntimeBalances::to_vm *)
  Fixpoint write_entries (m : memory H) (es : list (N * (bytes * N))) : option (memory H) :=
    match es with
    | [] => Some m
    | (ofs, (asset, value)) :: rest =>
        match mem_write_stack m ofs asset with
        | None => None
        | Some m1 =>
            match mem_write_stack m1 (saturating_add U64 ofs ASSET_LEN) (be_encode 8 value) with
            | None => None
            | Some m2 => write_entries m2 rest
            end
        end
    end.
  Definition to_vm (v : vm) (rb : RB) (k : vm -> init_result) : init_result :=
    let len := saturating_mul U64 ((max_inputs E) (interpreter_params v)) BALANCE_ENTRY_SIZE in
    match checked_add U64 (reg v REG_SSP) len with
    | None => IHostPanic
    | Some new_ssp =>
        match mem_grow_stack (mem v) new_ssp with
        | inr _ => IHostPanic
        | inl m1 =>
            match write_entries m1 ((rb_entries E) rb) with
            | None => IHostPanic
            | Some m2 => k (set_balances (set_reg (set_mem v m2) REG_SSP new_ssp) rb)
            end
        end
    end.

  (* init_inner *)
  Definition init_inner (v : vm) (t : Tx) (ib : IB) (rb : RB) (gas_limit : N) : init_result :=
    let t := (prepare_sign E) t in
    (* self.tx = tx; self.debugger.clear_last_state(); self.input_contracts = ... *)
    let v := mkVm (registers v) (mem v) (frames v) (receipts v) t (initial_balances v) ((input_contracts_of E) t)
                  (input_contracts_index_to_output_index v) (storage v) ((clear_last_state E) (debugger v)) (ctx v) (balances v) (interpreter_params v)
                  (pctx v) (ecal_state v) (verifier v) (owner_ptr v) (storage_slot_cache v) in
    match (owner_of E) (interpreter_params v) t with
    | inr b => IErr (EBug b) v
    | inl owner =>
        let v := mkVm
          (* registers.iter_mut().for_each(|r| *r = 0); ONE = 1; HP = VM_MAX_RAM *)
          (set_nth REG_HP VM_MAX_RAM (set_nth REG_ONE 1 (repeat 0 VM_REGISTER_COUNT)))
          (mem_reset (mem v))             (* memory.reset() *)
          []                                (* frames.clear() *)
          []                                (* receipts.clear() *)
          (tx v) ib (input_contracts v) ((io_index_of E) t) (storage v) (debugger v) (ctx v) (balances v)
          (interpreter_params v) (pctx v) (ecal_state v) (verifier v)
          owner
          []                                (* storage_slot_cache.clear() *) in
        push_stack v ((tx_id E) (interpreter_params v) t) (fun v =>
        push_stack v ((base_asset_id E) (interpreter_params v)) (fun v =>
        to_vm v rb (fun v =>
        (* set_gas(gas_limit) *)
        let v := set_reg (set_reg v REG_GGAS gas_limit) REG_CGAS gas_limit in
        push_stack v (be_encode 8 ((tx_size E) t)) (fun v =>
        push_stack v ((tx_to_bytes E) t) (fun v =>
        IOk (set_reg v REG_SP (reg v REG_SSP)))))))
    end.

  (* init_script(Ready<Tx>): the ready transaction is the transaction and its checked balances *)
  Definition init_script (v : vm) (t : Tx) (ib : IB) : init_result :=
    match (block_height E) (storage v) with
    | None => IErr EStorage v
    | Some bh =>
        let v := set_ctx v (CtxScript bh) in
        let gas_limit := match (script_gas_limit E) t with Some g => g | None => 0 end in
        match (runtime_balances E) ib with
        | None => IErr EValidity v
        | Some rb =>
            match init_inner v t ib rb gas_limit with
            | IOk v' =>
                match (script_offset E) (tx v') with
                | Some off =>
                    let offset := saturating_add U64 ((tx_offset E) (interpreter_params v')) off in
                    IOk (set_reg (set_reg v' REG_PC offset) REG_IS offset)
                | None => IOk v'
                end
            | other => other
            end
        end
    end.

  (* init_predicate(context, tx, gas_limit); `range` = context.predicate().program().words() *)
  Definition init_predicate (v : vm) (c : context) (t : Tx) (gas_limit : N) : init_result :=
    let v := set_ctx v c in
    match (runtime_balances E) (ib_default E) with
    | None => IErr EValidity v
    | Some rb =>
        match c with
        | CtxPredicateEstimation range | CtxPredicateVerification range =>
            match init_inner v t (ib_default E) rb gas_limit with
            | IOk v' => IOk (set_reg (set_reg v' REG_PC (fst range)) REG_IS (fst range))
            | other => other
            end
        | _ => IHostPanic                  (* .expect("The context is not predicate") *)
        end
    end.

  (* check_predicate: `Interpreter::with_storage_and_ecal(memory, PredicateStorage, params, ecal)`
     around whatever memory the caller supplies (fresh, reused, or taken from a pool) *)
  Definition predicate_vm (m : memory H) (s : Storage) (p : Params) (e : Ecal) : vm := vm_fresh m s p e.

  (* append_panic_receipt: the panic context is moved into the receipt and reset *)
  Variable panic_receipt : vm -> N -> panic_context -> Receipt.
  Definition append_panic_receipt (v : vm) (reason : N) : vm :=
    set_pctx (push_receipt v (panic_receipt v reason (pctx v))) PCNone.

  (* ---------------------------------------------------------------- observation *)
  Variable heap_read : H -> N -> N.          (* the byte the heap buffer holds for an address *)

  (* the accessible memory: stack buffer, hp, heap bytes at or above hp *)
  Definition mem_obs_eq (a b : memory H) : Prop :=
    m_stack a = m_stack b /\ m_hp a = m_hp b /\
    forall x, m_hp a <= x -> x < MEM_SIZE -> heap_read (m_heap a) x = heap_read (m_heap b) x.

  (* two instances are indistinguishable: every field equal, memories equal where accessible *)
  Definition obs_eq (a b : vm) : Prop :=
    registers a = registers b /\ mem_obs_eq (mem a) (mem b) /\ frames a = frames b /\ receipts a = receipts b /\
    tx a = tx b /\ initial_balances a = initial_balances b /\ input_contracts a = input_contracts b /\
    input_contracts_index_to_output_index a = input_contracts_index_to_output_index b /\
    storage a = storage b /\ debugger a = debugger b /\ ctx a = ctx b /\ balances a = balances b /\
    interpreter_params a = interpreter_params b /\ pctx a = pctx b /\ ecal_state a = ecal_state b /\
    verifier a = verifier b /\ owner_ptr a = owner_ptr b /\ storage_slot_cache a = storage_slot_cache b.

  (* agreement on what initialisation does not reset: storage, parameters, panic context, ecal
     state, verifier, and the debugger UP TO its last state (which init_inner forgets) *)
  Definition same_config (a b : vm) : Prop :=
    storage a = storage b /\ (clear_last_state E) (debugger a) = (clear_last_state E) (debugger b) /\
    interpreter_params a = interpreter_params b /\
    pctx a = pctx b /\ ecal_state a = ecal_state b /\ verifier a = verifier b.
  (* what a successful initialisation leaves of the instance v0 in v: everything it does not reset,
     the debugger with its last state forgotten *)
  Definition untouched (v0 v : vm) : Prop :=
    storage v = storage v0 /\ debugger v = (clear_last_state E) (debugger v0) /\
    interpreter_params v = interpreter_params v0 /\
    pctx v = pctx v0 /\ ecal_state v = ecal_state v0 /\ verifier v = verifier v0.

  Definition res_obs_eq (a b : init_result) : Prop :=
    match a, b with
    | IOk x, IOk y => obs_eq x y
    | IErr e x, IErr f y => e = f
    | IHostPanic, IHostPanic => True
    | _, _ => False
    end.

  (* ---------------------------------------------------------------- running *)
  Variable Res : Type.
  Variable step : vm -> vm + Res.            (* one iteration of run_program / verify_predicate, finalisation included *)
  Fixpoint run (n : nat) (v : vm) : option Res :=
    match n with
    | O => None
    | S k => match step v with inl v' => run k v' | inr r => Some r end
    end.

  (* transact: init_script, then run (Err of init = the error) *)
  Inductive tx_result := TDone (r : Res) | TInitErr (e : init_error) | THostPanic | TFuel.
  Definition transact (n : nat) (v : vm) (t : Tx) (ib : IB) : tx_result :=
    match init_script v t ib with
    | IOk v' => match run n v' with Some r => TDone r | None => TFuel end
    | IErr e _ => TInitErr e
    | IHostPanic => THostPanic
    end.

  (* ---------------------------------------------------------------- panic context across a run *)
  (* run_program as far as the panic context is concerned: an executed instruction proceeds, ends
     the run normally, fails with a recoverable panic (then append_panic_receipt runs), or fails
     with a fatal error (Bug / storage error: returned as is) *)
  Inductive instr_outcome := OProceed | OEnd | OPanic (reason : N) | OFatal.
  Variable exec : vm -> vm * instr_outcome.
  Fixpoint run_program_pc (n : nat) (v : vm) : option vm :=
    match n with
    | O => None
    | S k =>
        match exec v with
        | (v', OProceed) => run_program_pc k v'
        | (v', OEnd) => Some v'
        | (v', OPanic r) => Some (append_panic_receipt v' r)
        | (v', OFatal) => Some v'
        end
    end.
End Instance.
Arguments PCNone {C}.
Arguments IHostPanic {H Tx Params Storage Debugger Frame Receipt IB RB C Ecal Verifier Slot}.
