(* Vm/OutcomeSpec.v — L3 specification for C28, written from the property text: what a
   well-formed receipt list of a completed script execution looks like. *)
From FV Require Import Base.Bytes Base.U64 Gen.AssetTable Vm.OutcomeModel.
Open Scope N_scope.

(* receipts that may occur before the end: anything but Panic, Revert, ScriptResult and a
   return of the top-level program *)
Definition interior (r : receipt) : bool :=
  match r with RcBody _ | RcReturn false _ => true | _ => false end.

(* exactly one script result, last; preceded by a panic receipt exactly when the result is Panic;
   Success exactly when the top-level program returned (the receipt before the result is its
   Return / ReturnData), Revert exactly when it reverted (the receipt before is the Revert) *)
Definition wellformed (rs : list receipt) (result : N) : Prop :=
  exists body gas,
    Forall (fun r => interior r = true) body /\
    ((result = SER_Success /\ exists k, rs = body ++ [RcReturn true k; RcScriptResult result gas]) \/
     (result = SER_Revert /\ rs = body ++ [RcRevert; RcScriptResult result gas]) \/
     (result = SER_Panic /\ exists reason, rs = body ++ [RcPanic reason; RcScriptResult result gas])).

Definition count (p : receipt -> bool) (rs : list receipt) : nat := length (filter p rs).
