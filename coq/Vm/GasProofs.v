(* Vm/GasProofs.v — proofs for C26. *)
From FV Require Import Base.Bytes Base.U64 Vm.FlowSpec Vm.GasTypes Vm.GasSpec Gen.GasTable Vm.GasModel.
From Coq Require Import Lia.
Open Scope N_scope.

(* ---- dependent cost resolution = specification *)
Lemma resolve_eq_spec c units :
  match c with CLight _ upg => upg <> 0 | _ => True end ->
  resolve c units = cost_spec c units.
Proof.
  destruct c as [x | b upg | b gpu]; intros H; cbn [resolve cost_spec resolve_without_base cost_base].
  - reflexivity.
  - unfold saturating_add, u64_max, U64. reflexivity.
  - unfold saturating_add, saturating_mul, u64_max, U64. lia.
Qed.

(* ---- one event: the model does what the specification says, keeps the invariant, and
   never reaches the arithmetic the code assumes impossible *)
Definition to_res (s : gstate) (o : option gstate) : gres :=
  match o with Some s' => GOk s' | None => GOutOfGas (oog_state s) end.

Lemma model_event_eq_spec s e :
  gas_inv s -> ggas s < U64 -> model_event s e = to_res s (spec_event s e).
Proof.
  unfold gas_inv. intros Hinv Hg. destruct e as [x | a |]; cbn [model_event spec_event to_res].
  - unfold gas_charge, oog_state, saturating_sub.
    destruct (N.ltb_spec (cgas s) x); destruct (N.leb_spec x (cgas s)); try lia; cbn [to_res]; [reflexivity|].
    destruct (N.ltb_spec (ggas s) x); [lia | reflexivity].
  - unfold call_forward, checked_sub.
    destruct (N.leb_spec (N.min (cgas s) a) (cgas s)); [reflexivity | lia].
  - unfold ret_credit, checked_add. destruct (saved s) as [|k t] eqn:E; [reflexivity|].
    cbn [sum] in Hinv. destruct (N.ltb_spec (cgas s + k) U64); [reflexivity | lia].
Qed.

Lemma spec_event_inv s e s' : gas_inv s -> spec_event s e = Some s' -> gas_inv s' /\ ggas s' <= ggas s.
Proof.
  unfold gas_inv. intros Hinv. destruct e as [x | a |]; cbn [spec_event].
  - destruct (N.leb_spec x (cgas s)); intro E; inversion E; subst; cbn [cgas ggas saved]. lia.
  - intro E; inversion E; subst; cbn [cgas ggas saved sum]. lia.
  - destruct (saved s) as [|k t] eqn:Es; cbn [sum] in Hinv; intro E; inversion E; subst; cbn [cgas ggas saved]; rewrite ?Es; cbn [sum]; lia.
Qed.

Lemma oog_inv s : gas_inv s -> gas_inv (oog_state s) /\ ggas (oog_state s) <= ggas s /\ cgas (oog_state s) = 0.
Proof. unfold gas_inv, oog_state. cbn [cgas ggas saved]. lia. Qed.

Lemma model_event_no_bug s e : gas_inv s -> ggas s < U64 -> model_event s e <> GBug.
Proof. intros. rewrite model_event_eq_spec by assumption. destruct (spec_event s e); discriminate. Qed.

(* ---- whole histories *)
Lemma run_inv es : forall s,
  gas_inv s -> ggas s < U64 ->
  match run s es with
  | GOk s' => gas_inv s' /\ ggas s' <= ggas s
  | GOutOfGas s' => gas_inv s' /\ ggas s' <= ggas s /\ cgas s' = 0
  | GBug => False
  end.
Proof.
  induction es as [|e t IH]; intros s Hinv Hg; cbn [run].
  - split; [assumption | lia].
  - rewrite model_event_eq_spec by assumption.
    destruct (spec_event s e) as [s1|] eqn:E; cbn [to_res].
    + destruct (spec_event_inv s e s1 Hinv E) as [H1 H2].
      specialize (IH s1 H1 ltac:(lia)). destruct (run s1 t); [| |assumption]; intuition lia.
    + apply oog_inv. assumption.
Qed.

Lemma inv_implies_cgas_le s : gas_inv s -> cgas s <= ggas s.
Proof. unfold gas_inv. lia. Qed.

Lemma init_inv limit : gas_inv (init_state limit).
Proof. unfold gas_inv, init_state. cbn. lia. Qed.

(* ---- Charge exactness *)
Lemma charge_ok s x : gas_inv s -> x <= cgas s ->
  gas_charge s x = GOk {| cgas := cgas s - x; ggas := ggas s - x; saved := saved s |}.
Proof.
  unfold gas_inv, gas_charge. intros.
  destruct (N.ltb_spec (cgas s) x); [lia|]. destruct (N.ltb_spec (ggas s) x); [lia | reflexivity].
Qed.
Lemma charge_oog s x : cgas s < x ->
  gas_charge s x = GOutOfGas {| cgas := 0; ggas := ggas s - cgas s; saved := saved s |}.
Proof. unfold gas_charge, saturating_sub. intros. destruct (N.ltb_spec (cgas s) x); [reflexivity | lia]. Qed.

(* ---- forwarding and credit-back *)
Lemma forward_bound s a s' : call_forward s a = GOk s' ->
  cgas s' = N.min (cgas s) a /\ cgas s' <= cgas s /\ cgas s' <= a /\
  saved s' = (cgas s - cgas s') :: saved s /\ ggas s' = ggas s.
Proof.
  unfold call_forward, checked_sub. destruct (N.leb_spec (N.min (cgas s) a) (cgas s)); [|lia].
  intro E; inversion E; subst; cbn [cgas ggas saved]. repeat split; lia.
Qed.

Lemma run_app a : forall s b, run s (a ++ b) = match run s a with GOk s' => run s' b | r => r end.
Proof.
  induction a as [|e t IH]; intros s b; cbn [run app]; [reflexivity|].
  destruct (model_event s e); [apply IH | reflexivity | reflexivity].
Qed.

Lemma run_charges xs : forall s s1, gas_inv s -> ggas s < U64 ->
  run s (map Charge xs) = GOk s1 ->
  sum xs <= cgas s /\ cgas s1 = cgas s - sum xs /\ ggas s1 = ggas s - sum xs /\ saved s1 = saved s.
Proof.
  induction xs as [|x t IH]; intros s s1 Hinv Hg; cbn [map run sum].
  - intro E; inversion E; subst. repeat split; lia.
  - rewrite model_event_eq_spec by assumption. cbn [spec_event].
    destruct (N.leb_spec x (cgas s)); cbn [to_res]; [|discriminate].
    intro E. apply IH in E; cbn [cgas ggas saved] in *.
    + destruct E as (A & B & C & D). repeat split; try lia; assumption.
    + unfold gas_inv in *. cbn [cgas ggas saved]. lia.
    + lia.
Qed.

(* a call that forwards gas, spends t in the callee and returns: the caller ends up with
   exactly its previous context gas minus t; nothing is lost or created *)
Lemma call_return_credit s a xs s' :
  gas_inv s -> ggas s < U64 ->
  run s (Call a :: map Charge xs ++ [Return]) = GOk s' ->
  sum xs <= N.min (cgas s) a /\
  cgas s' = cgas s - sum xs /\ ggas s' = ggas s - sum xs /\ saved s' = saved s.
Proof.
  intros Hinv Hg. cbn [run]. rewrite model_event_eq_spec by assumption. cbn [spec_event to_res].
  set (s0 := {| cgas := N.min (cgas s) a; ggas := ggas s; saved := (cgas s - N.min (cgas s) a) :: saved s |}).
  assert (H0 : gas_inv s0) by (unfold gas_inv in *; subst s0; cbn [cgas ggas saved sum]; lia).
  rewrite run_app. destruct (run s0 (map Charge xs)) as [s1| |] eqn:E1; try discriminate.
  destruct (run_charges xs s0 s1 H0 Hg E1) as (Hs & Hc & Hgg & Hsv).
  cbn [run]. unfold model_event, ret_credit. rewrite Hsv. subst s0. cbn [cgas ggas saved] in *.
  unfold checked_add. unfold gas_inv in Hinv.
  destruct (N.ltb_spec (cgas s1 + (cgas s - N.min (cgas s) a)) U64); [|intro; discriminate].
  intro E; inversion E; subst; cbn [cgas ggas saved]. repeat split; try lia; reflexivity.
Qed.

(* ---- script result *)
Lemma gas_used_formula limit es :
  limit < U64 ->
  match run (init_state limit) es with
  | GOk s | GOutOfGas s => gas_used limit s = Some (limit - ggas s) /\ ggas s <= limit /\ cgas s <= ggas s
  | GBug => False
  end.
Proof.
  intros Hl. pose proof (run_inv es (init_state limit) (init_inv limit) Hl) as H.
  unfold gas_used, checked_sub. cbn [init_state ggas] in H.
  destruct (run (init_state limit) es) as [s|s|]; [| |assumption].
  - destruct H as [Hi Hm]. destruct (N.leb_spec (ggas s) limit); [|lia].
    repeat split; try lia. apply inv_implies_cgas_le; assumption.
  - destruct H as (Hi & Hm & _). destruct (N.leb_spec (ggas s) limit); [|lia].
    repeat split; try lia. apply inv_implies_cgas_le; assumption.
Qed.

(* ---- generated table obligations (closed finite checks) *)
Definition sel_is_none (s : cost_sel) : bool := match s with SelNone => true | _ => false end.
Definition base_costs_ok : bool :=
  forallb (fun e => sel_is_none (snd (snd e)) ||
                    match base_cost_default (fst e) with Some g => 1 <=? g | None => false end) gas_table.
Lemma base_costs_ok_true : base_costs_ok = true.
Proof. vm_compute. reflexivity. Qed.

Lemma base_cost_default_ge_1 op name sel :
  In (op, (name, sel)) gas_table -> sel <> SelNone ->
  exists g, base_cost_default op = Some g /\ 1 <= g.
Proof.
  intros Hin Hsel. pose proof base_costs_ok_true as H. unfold base_costs_ok in H.
  rewrite forallb_forall in H. specialize (H _ Hin). cbn [fst snd] in H.
  destruct sel; cbn [sel_is_none orb] in H; try contradiction;
  (destruct (base_cost_default op) as [g|]; [|discriminate]; exists g; split; [reflexivity|];
   apply N.leb_le; assumption).
Qed.

Definition defaults_wellformed : bool :=
  forallb (fun d => match snd d with CLight _ upg => 1 <=? upg | _ => true end) default_costs &&
  forallb (fun e => match sel_field (snd (snd e)) with
                    | Some f => match slookup f default_costs with Some _ => true | None => false end
                    | None => true end) gas_table &&
  forallb (fun e => N.of_nat (length (filter (fun d => fst d =? fst e) gas_table)) =? 1) gas_table.
Lemma defaults_wellformed_true : defaults_wellformed = true.
Proof. vm_compute. reflexivity. Qed.

(* ---- charge sequences: charging c1, c2, ... one after the other is charging their sum when
   the gas suffices; otherwise the run stops with OutOfGas at the first charge that exceeds what
   is left, with cgas = 0 and ggas reduced by the cgas the instruction started with — the
   final state does not depend on how the total is split *)
Lemma oog_state_after_charge s x :
  gas_inv s -> x <= cgas s ->
  oog_state {| cgas := cgas s - x; ggas := ggas s - x; saved := saved s |} = oog_state s.
Proof. unfold gas_inv, oog_state. cbn [cgas ggas saved]. intros. f_equal. lia. Qed.

Lemma run_charge_sequence l : forall s,
  gas_inv s -> ggas s < U64 ->
  run s (map Charge l) =
  if oog_justified (cgas s) l then GOutOfGas (oog_state s)
  else GOk {| cgas := cgas s - sum l; ggas := ggas s - sum l; saved := saved s |}.
Proof.
  induction l as [|x t IH]; intros s Hinv Hg; cbn [map run oog_justified sum].
  - destruct s as [c g sv]; cbn [cgas ggas saved]. repeat rewrite N.sub_0_r. reflexivity.
  - rewrite model_event_eq_spec by assumption. cbn [spec_event].
    destruct (N.ltb_spec (cgas s) x); destruct (N.leb_spec x (cgas s)); try lia; cbn [to_res]; [reflexivity|].
    set (s1 := {| cgas := cgas s - x; ggas := ggas s - x; saved := saved s |}).
    assert (H1 : gas_inv s1) by (unfold gas_inv in *; subst s1; cbn [cgas ggas saved]; lia).
    rewrite (IH s1 H1) by (subst s1; cbn [ggas]; lia).
    subst s1. cbn [cgas ggas saved]. destruct (oog_justified (cgas s - x) t).
    + rewrite oog_state_after_charge by assumption. reflexivity.
    + f_equal. f_equal; lia.
Qed.

Lemma oog_justified_iff l : forall cg,
  oog_justified cg l = true <-> exists xs y zs, l = (xs ++ y :: zs)%list /\ sum xs <= cg /\ cg < sum xs + y.
Proof.
  induction l as [|x t IH]; intros cg; cbn [oog_justified].
  - split; [discriminate|]. intros (xs & y & zs & E & _). destruct xs; discriminate.
  - destruct (N.ltb_spec cg x).
    + split; [|reflexivity]. intros _. exists [], x, t. cbn [app sum]. repeat split; lia.
    + rewrite IH. split.
      * intros (xs & y & zs & E & A & B). exists (x :: xs), y, zs. subst. cbn [app sum]. repeat split; lia.
      * intros (xs & y & zs & E & A & B). destruct xs as [|x' xs]; cbn [app sum] in *.
        -- inversion E; subst. lia.
        -- inversion E; subst. exists xs, y, zs. repeat split; lia.
Qed.

Lemma not_justified_sum l : forall cg, oog_justified cg l = false -> sum l <= cg.
Proof.
  induction l as [|x t IH]; intros cg; cbn [oog_justified sum]; [lia|].
  destruct (N.ltb_spec cg x); [discriminate|]. intro E. apply IH in E. lia.
Qed.

(* the generated full charge sequences are the specified ones *)
Lemma gen_seq_is_spec op s : In (op, s) spec_gas_seq -> nlookup op gas_seq = Some s.
Proof.
  unfold spec_gas_seq. cbn [In]. intros H.
  repeat (destruct H as [H|H]; [inversion H; subst; reflexivity|]). contradiction.
Qed.
Lemma gen_storage_is_spec : gas_storage = spec_gas_storage.
Proof. reflexivity. Qed.
(* every opcode has a sequence; the multi-charge opcodes are exactly those of the spec table or storage shapes *)
Definition seq_cover_ok : bool :=
  forallb (fun e => match nlookup (fst e) gas_seq with Some _ => true | None => false end) gas_table &&
  forallb (fun op => match nlookup op spec_gas_seq, nlookup op gas_storage with None, None => false | _, _ => true end) gas_more.
Lemma seq_cover_ok_true : seq_cover_ok = true.
Proof. vm_compute. reflexivity. Qed.

(* ---- non-vacuity *)
Example ex_state : gstate := {| cgas := 70; ggas := 1000; saved := [100; 30] |}.
Example ex_state_inv : gas_inv ex_state /\ ggas ex_state < U64.
Proof. unfold gas_inv, ex_state, U64. cbn. lia. Qed.
Example ex_history :
  run ex_state [Charge 10; Call 25; Charge 7; Return; Charge 60] =
  GOutOfGas {| cgas := 0; ggas := 1000 - 17 - 53; saved := [100; 30] |}.
Proof. vm_compute. reflexivity. Qed.
Example ex_credit :
  run ex_state (Call 25 :: map Charge [3; 4] ++ [Return]) = GOk {| cgas := 63; ggas := 993; saved := [100; 30] |}.
Proof. vm_compute. reflexivity. Qed.
Example ex_resolve : resolve (CLight 2 214) 1024 = 6 /\ resolve (CHeavy 5 3) 10 = 35.
Proof. vm_compute. split; reflexivity. Qed.
Example ex_seq : oog_justified 10 [3; 4; 5; 1] = true /\ oog_justified 12 [3; 4; 5] = false.
Proof. vm_compute. split; reflexivity. Qed.
Example ex_table : In (16, ("ADD", SelFixed "add")) gas_table.
Proof. vm_compute. left. reflexivity. Qed.
