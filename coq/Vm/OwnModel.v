(* Vm/OwnModel.v — L1 model of the memory-ownership mechanism of fuel-vm, function by function
   (fuel-vm/src/interpreter/memory.rs unless noted):

     OwnershipRegisters::new / only_allow_stack_write      -> own_new / only_allow_stack_write
     has_ownership_stack / _heap / _range, verify_ownership -> has_ownership_* / verify_ownership
     ToAddr, MemoryInstance::verify                         -> to_addr / verify
     MemoryInstance::read / write_noownerchecks / write     -> mem_read / write_noownerchecks / mem_write
     MemoryInstance::memcopy                                -> mem_memcopy
     MemoryInstance::grow_stack / grow_heap_by              -> grow_stack / grow_heap_by
     try_update_stack_pointer / stack_pointer_overflow      -> try_update_sp
     store_u8/u16/u32/u64, load_*, memclear, memcopy, memeq -> store_model / load_model / ...
   and the classification of every opcode by the route its memory writes take
   (user write through the ownership check / VM's own write with the region it may touch).

   Memory is the flat zero-initialised array of C23 ([m_data]) with the two accessibility
   bounds the Rust structure carries ([m_stack_len] = stack.len(), the high-water mark of the
   stack, and [m_hp]).  Definitions only. *)
From FV Require Import Base.Bytes Base.U64 Gen.VmConsts.
Open Scope N_scope.

(* ------------------------------------------------------------------ results *)
Inductive res (A : Type) : Type := Ok (a : A) | Err (reason : N).
Arguments Ok {A} a.
Arguments Err {A} reason.
Definition rbind {A B} (r : res A) (f : A -> res B) : res B :=
  match r with Ok a => f a | Err e => Err e end.
Notation "'rdo' x <- r ; k" := (rbind r (fun x => k)) (at level 200, x name, r at level 100, k at level 200).
Notation "'rdo' ' p <- r ; k" := (rbind r (fun p => k)) (at level 200, p pattern, r at level 100, k at level 200).

(* ------------------------------------------------------------------ ownership registers *)
Record ownregs := { o_sp : N; o_ssp : N; o_hp : N; o_prev_hp : N }.

(* OwnershipRegisters::new: prev_hp = frames.last().registers()[HP], or VM_MAX_RAM in an
   external context (no frame) *)
Definition own_new (ssp sp hp : N) (frame_hp : option N) : ownregs :=
  {| o_sp := sp; o_ssp := ssp; o_hp := hp;
     o_prev_hp := match frame_hp with Some h => h | None => VM_MAX_RAM end |}.

(* OwnershipRegisters::only_allow_stack_write(sp, ssp, hp): prev_hp = hp *)
Definition only_allow_stack_write (sp ssp hp : N) : ownregs :=
  {| o_sp := sp; o_ssp := ssp; o_hp := hp; o_prev_hp := hp |}.

(* Range<Word>::is_empty = !(start < end) *)
Definition range_empty (s e : N) : bool := negb (s <? e).

Definition has_ownership_stack (o : ownregs) (s e : N) : bool :=
  if range_empty s e && (s =? o_ssp o) then true
  else if negb ((o_ssp o <=? s) && (s <? o_sp o)) then false       (* !(ssp..sp).contains(&start) *)
  else if VM_MAX_RAM <? e then false
  else (o_ssp o <=? e) && (e <=? o_sp o).                           (* (ssp..=sp).contains(&end) *)

Definition has_ownership_heap (o : ownregs) (s e : N) : bool :=
  if range_empty s e && (s =? o_hp o) then true
  else if s <? o_hp o then false
  else negb (o_hp o =? o_prev_hp o) && (e <=? o_prev_hp o).

Definition has_ownership_range (o : ownregs) (s e : N) : bool :=
  has_ownership_stack o s e || has_ownership_heap o s e.

Definition verify_ownership (o : ownregs) (s e : N) : res unit :=
  if has_ownership_range o s e then Ok tt else Err PANIC_MemoryOwnership.

(* the two regions of the property statement *)
Definition in_owned_stack (o : ownregs) (x : N) : Prop := o_ssp o <= x < o_sp o.
Definition in_owned_heap (o : ownregs) (x : N) : Prop := o_hp o <= x < o_prev_hp o.
Definition in_owned (o : ownregs) (x : N) : Prop := in_owned_stack o x \/ in_owned_heap o x.
Definition in_ownedb (o : ownregs) (x : N) : bool :=
  ((o_ssp o <=? x) && (x <? o_sp o)) || ((o_hp o <=? x) && (x <? o_prev_hp o)).

(* ------------------------------------------------------------------ memory *)
Record amem := { m_data : N -> N; m_stack_len : N; m_hp : N }.

(* ToAddr for Word / usize: the u64 -> usize conversion cannot fail on a 64-bit host *)
Definition to_addr (x : N) : res N := if MEM_SIZE <? x then Err PANIC_MemoryOverflow else Ok x.

(* MemoryInstance::verify -> (start, end) *)
Definition verify (m : amem) (addr count : N) : res (N * N) :=
  rdo start <- to_addr addr;
  rdo len <- to_addr count;
  let e := start + len in               (* usize saturating_add: both <= MEM_SIZE, never saturates *)
  if MEM_SIZE <? e then Err PANIC_MemoryOverflow
  else if (e <=? m_stack_len m) || (m_hp m <=? start) then Ok (start, e)
  else Err PANIC_UninitalizedMemoryAccess.

(* bytes [a, a+n) of the flat array *)
Fixpoint read_range (d : N -> N) (a : N) (n : nat) : bytes :=
  match n with O => [] | S k => d a :: read_range d (a + 1) k end.

Definition mem_read (m : amem) (addr count : N) : res bytes :=
  rdo '(s, e) <- verify m addr count;
  Ok (read_range (m_data m) s (N.to_nat (e - s))).

(* the array after storing [bs] at [a] *)
Definition set_range (d : N -> N) (a : N) (bs : bytes) : N -> N :=
  fun x => if (a <=? x) && (x <? a + lenN bs) then nth (N.to_nat (x - a)) bs 0 else d x.

Definition with_data (m : amem) (d : N -> N) : amem :=
  {| m_data := d; m_stack_len := m_stack_len m; m_hp := m_hp m |}.

(* write_noownerchecks(addr, len) followed by copy_from_slice(bs) / fill: no ownership check *)
Definition write_noownerchecks (m : amem) (addr : N) (bs : bytes) : res amem :=
  rdo '(s, _) <- verify m addr (lenN bs);
  Ok (with_data m (set_range (m_data m) s bs)).

(* MemoryInstance::write(owner, addr, len) followed by the store *)
Definition mem_write (m : amem) (o : ownregs) (addr : N) (bs : bytes) : res amem :=
  rdo '(s, e) <- verify m addr (lenN bs);
  rdo _ <- verify_ownership o s e;
  Ok (with_data m (set_range (m_data m) s bs)).

(* the check part alone (what the trace validation replays: the bytes are the implementation's) *)
Definition write_check (m : amem) (o : ownregs) (addr len : N) : res (N * N) :=
  rdo '(s, e) <- verify m addr len;
  rdo _ <- verify_ownership o s e;
  Ok (s, e).

(* MemoryInstance::memcopy(dst, src, length, owner) *)
Definition ranges_overlap (ds de ss se : N) : bool :=
  ((ds <=? ss) && (ss <? de)) || ((ss <=? ds) && (ds <? se)) ||
  ((ds <? se) && (se <=? de)) || ((ss <? de) && (de <=? se)).

Definition memcopy_check (m : amem) (o : ownregs) (dst src len : N) : res (N * N) :=
  rdo '(ds, de) <- verify m dst len;
  rdo '(ss, se) <- verify m src len;
  if ranges_overlap ds de ss se then Err PANIC_MemoryWriteOverlap
  else rdo _ <- verify_ownership o ds de; Ok (ds, de).

Definition mem_memcopy (m : amem) (o : ownregs) (dst src len : N) : res amem :=
  rdo '(ds, de) <- memcopy_check m o dst src len;
  Ok (with_data m (set_range (m_data m) ds (read_range (m_data m) src (N.to_nat len)))).

(* MemoryInstance::grow_stack(new_sp): the new bytes are zero (Vec::resize(new_sp, 0)) *)
Definition zero_range (d : N -> N) (lo hi : N) : N -> N :=
  fun x => if (lo <=? x) && (x <? hi) then 0 else d x.

Definition grow_stack (m : amem) (new_sp : N) : res amem :=
  if VM_MAX_RAM <? new_sp then Err PANIC_MemoryOverflow
  else if m_stack_len m <? new_sp then
    if m_hp m <? new_sp then Err PANIC_MemoryGrowthOverlap
    else Ok {| m_data := zero_range (m_data m) (m_stack_len m) new_sp; m_stack_len := new_sp; m_hp := m_hp m |}
  else Ok m.

(* MemoryInstance::grow_heap_by(sp, hp, amount): new_hp; zeroes [new_hp, hp); truncates the stack *)
Definition grow_heap_by (m : amem) (sp amount : N) : res amem :=
  match checked_sub (m_hp m) amount with
  | None => Err PANIC_MemoryOverflow
  | Some new_hp =>
      if new_hp <? sp then Err PANIC_MemoryGrowthOverlap
      else Ok {| m_data := zero_range (m_data m) new_hp (m_hp m);
                 m_stack_len := N.min (m_stack_len m) new_hp; m_hp := new_hp |}
  end.

(* try_update_stack_pointer(sp, ssp, hp, new_sp, memory) -> memory (sp := new_sp on success) *)
Definition try_update_sp (m : amem) (ssp hp new_sp : N) : res amem :=
  if new_sp <? ssp then Err PANIC_MemoryOverflow
  else if hp <? new_sp then Err PANIC_MemoryGrowthOverlap
  else grow_stack m new_sp.

(* ------------------------------------------------------------------ simple memory instructions
   (after their gas charge succeeded): exact outcome = Ok (dst range) or the panic reason *)

(* store_uN(dst_addr, value, imm): addr = dst_addr.checked_add(imm * size) *)
Definition store_check (m : amem) (o : ownregs) (size dst_addr imm : N) : res (N * N) :=
  match checked_add U64 dst_addr (imm * size) with
  | None => Err PANIC_MemoryOverflow
  | Some addr => write_check m o addr size
  end.

(* load_uN(result, src_addr, imm): WriteRegKey::try_from(result) first *)
Definition load_check (m : amem) (ra size src_addr imm : N) : res (N * N) :=
  if ra <? REG_WRITABLE then Err PANIC_ReservedRegisterNotWritable
  else match checked_add U64 src_addr (imm * size) with
       | None => Err PANIC_MemoryOverflow
       | Some addr => verify m addr size
       end.

(* memeq(result, b, c, d): register key, then read(b, d), read(c, d) *)
Definition memeq_check (m : amem) (ra b c d : N) : res unit :=
  if ra <? REG_WRITABLE then Err PANIC_ReservedRegisterNotWritable
  else rdo _ <- verify m b d; rdo _ <- verify m c d; Ok tt.

(* ------------------------------------------------------------------ opcode classes *)
Inductive fld := FA | FB | FC | FD.
Inductive lenspec :=
| LConst (n : N)          (* fixed number of bytes *)
| LReg (f : fld)          (* value of the register named by field f *)
| LImm.                   (* the instruction's immediate *)

Inductive wclass :=
| WNone                                   (* never writes VM memory *)
| WStore (size : N)                       (* SB/SQW/SHW/SW: exact model [store_check] *)
| WClear (len : lenspec)                  (* MCL/MCLI: write(owner, $rA, len).fill(0) *)
| WCopy (len : lenspec)                   (* MCP/MCPI: memcopy($rA, $rB, len, owner) *)
| WUser (len : lenspec) (skip : bool)     (* one write(owner, $rA, len); skip: the handler may
                                             legitimately not reach the write on success *)
| WUserMulti                              (* SRWQ: $rD separate 32-byte write(owner, ..) calls *)
| WPush                                   (* PSHL/PSHH: [$sp, $sp + 8 * popcount(mask)) *)
| WGrow                                   (* CFE/CFEI: new stack bytes [$sp, $sp') zero-initialised *)
| WAloc                                   (* ALOC: [$hp', $hp) zeroed *)
| WCall                                   (* frame + code at [$sp, $sp'), balance entry if external *)
| WLdc                                    (* [$ssp, $ssp + padded len), frame code-size word *)
| WBal                                    (* TR/SMO: balance entry if external *)
| WTro                                    (* balance entry if external + the variable output *)
| WEcal.                                  (* handler supplied by the embedder *)

Inductive rclass := RNone | RLoad (size : N) | RMeq.

Definition op_class (op : N) : wclass :=
  if op =? OP_SB then WStore 1 else if op =? OP_SQW then WStore 2
  else if op =? OP_SHW then WStore 4 else if op =? OP_SW then WStore 8
  else if op =? OP_MCL then WClear (LReg FB) else if op =? OP_MCLI then WClear LImm
  else if op =? OP_MCP then WCopy (LReg FC) else if op =? OP_MCPI then WCopy LImm
  else if (op =? OP_BHSH) || (op =? OP_CB) || (op =? OP_CROO) || (op =? OP_K256) || (op =? OP_S256)
       then WUser (LConst 32) false
  else if (op =? OP_ECK1) || (op =? OP_ECR1) || (op =? OP_ECOP) then WUser (LConst 64) false
  else if (op =? OP_CCP) || (op =? OP_BLDD) then WUser (LReg FD) false
  else if (op =? OP_WDOP) || (op =? OP_WDML) || (op =? OP_WDDV) || (op =? OP_WDMD) || (op =? OP_WDAM) || (op =? OP_WDMM)
       then WUser (LConst 16) false
  else if (op =? OP_WQOP) || (op =? OP_WQML) || (op =? OP_WQDV) || (op =? OP_WQMD) || (op =? OP_WQAM) || (op =? OP_WQMM)
       then WUser (LConst 32) false
  else if op =? OP_SRDD then WUser (LReg FD) true
  else if op =? OP_SRDI then WUser LImm true
  else if op =? OP_SRWQ then WUserMulti
  else if (op =? OP_PSHL) || (op =? OP_PSHH) then WPush
  else if (op =? OP_CFE) || (op =? OP_CFEI) then WGrow
  else if op =? OP_ALOC then WAloc
  else if op =? OP_CALL then WCall
  else if op =? OP_LDC then WLdc
  else if (op =? OP_TR) || (op =? OP_SMO) then WBal
  else if op =? OP_TRO then WTro
  else if op =? OP_ECAL then WEcal
  else WNone.

Definition op_rclass (op : N) : rclass :=
  if op =? OP_LB then RLoad 1 else if op =? OP_LQW then RLoad 2
  else if op =? OP_LHW then RLoad 4 else if op =? OP_LW then RLoad 8
  else if op =? OP_MEQ then RMeq else RNone.

(* ---- tie to the handlers (Gen.VmConsts.handler_routes): the interpreter method an opcode's
   Execute handler calls determines the kind of its class *)
Inductive wkind := KNone | KStore | KClear | KCopy | KUser | KUserMulti | KPush | KGrow | KAloc | KCall | KLdc | KBal | KTro | KEcal.
Definition kind_of (c : wclass) : wkind :=
  match c with
  | WNone => KNone | WStore _ => KStore | WClear _ => KClear | WCopy _ => KCopy | WUser _ _ => KUser
  | WUserMulti => KUserMulti | WPush => KPush | WGrow => KGrow | WAloc => KAloc | WCall => KCall | WLdc => KLdc
  | WBal => KBal | WTro => KTro | WEcal => KEcal
  end.
Definition wkind_eqb (a b : wkind) : bool :=
  match a, b with
  | KNone, KNone | KStore, KStore | KClear, KClear | KCopy, KCopy | KUser, KUser | KUserMulti, KUserMulti
  | KPush, KPush | KGrow, KGrow | KAloc, KAloc | KCall, KCall | KLdc, KLdc | KBal, KBal | KTro, KTro | KEcal, KEcal => true
  | _, _ => false
  end.

Open Scope string_scope.
(* interpreter methods that write VM memory, with the kind of write they perform; every
   other method is expected not to write memory (kind KNone) *)
Definition route_kind (method : string) : wkind :=
  if existsb (String.eqb method) ["store_u8"; "store_u16"; "store_u32"; "store_u64"] then KStore
  else if String.eqb method "memclear" then KClear
  else if String.eqb method "memcopy" then KCopy
  else if existsb (String.eqb method)
       ["block_hash"; "block_proposer"; "code_root"; "code_copy"; "keccak256"; "sha256"; "secp256k1_recover";
        "secp256r1_recover"; "ec_operation"; "blob_load_data"; "dynamic_storage_read";
        "alu_wideint_op_u128"; "alu_wideint_op_u256"; "alu_wideint_mul_u128"; "alu_wideint_mul_u256";
        "alu_wideint_div_u128"; "alu_wideint_div_u256"; "alu_wideint_muldiv_u128"; "alu_wideint_muldiv_u256";
        "alu_wideint_addmod_u128"; "alu_wideint_addmod_u256"; "alu_wideint_mulmod_u128"; "alu_wideint_mulmod_u256"] then KUser
  else if String.eqb method "push_selected_registers" then KPush
  else if String.eqb method "malloc" then KAloc
  else if String.eqb method "prepare_call" then KCall
  else if String.eqb method "load_contract_code" then KLdc
  else if existsb (String.eqb method) ["transfer"; "message_output"] then KBal
  else if String.eqb method "transfer_output" then KTro
  else if String.eqb method "external_call" then KEcal
  else KNone.
Close Scope string_scope.

Fixpoint lookup_op (name : string) (l : list (N * string)) : option N :=
  match l with [] => None | (b, n) :: t => if String.eqb n name then Some b else lookup_op name t end.

(* kind implied by the routes of one handler: the first memory-writing method; a handler that
   calls memory.write itself (SRWQ) is KUserMulti; stack_pointer_overflow grows (CFE/CFEI) or
   shrinks (CFS/CFSI) the stack: the shrinking ones never change memory *)
Definition routes_kind (calls direct : list string) : wkind :=
  if existsb (String.eqb "memory.write"%string) direct then KUserMulti
  else match filter (fun k => negb (wkind_eqb k KNone)) (map route_kind calls) with
       | k :: _ => k
       | [] => KNone
       end.

Definition route_ok (e : string * list string * list string) : bool :=
  let '(name, calls, direct) := e in
  match lookup_op name opcode_names with
  | None => false
  | Some op =>
      let k := kind_of (op_class op) in
      if existsb (String.eqb "stack_pointer_overflow"%string) calls
      then wkind_eqb k KGrow || wkind_eqb k KNone
      else wkind_eqb k (routes_kind calls direct)
  end.

(* ------------------------------------------------------------------ regions of the VM's own writes *)
(* value field of a balance-table entry: the table has [max_inputs] entries of
   (asset id: 32 bytes, value: 8 bytes) starting at VM_MEMORY_BALANCES_OFFSET *)
Definition in_balance_value (max_inputs x : N) : bool :=
  (VM_MEMORY_BALANCES_OFFSET <=? x) && (x <? VM_MEMORY_BALANCES_OFFSET + max_inputs * BALANCE_ENTRY_SIZE) &&
  (32 <=? (x - VM_MEMORY_BALANCES_OFFSET) mod BALANCE_ENTRY_SIZE).

Definition in_range (lo len x : N) : bool := (lo <=? x) && (x <? lo + len).

(* padded_len_word *)
Definition padded_len (len : N) : N :=
  let md := len mod WORD_SIZE in if md =? 0 then len else len + (WORD_SIZE - md).

Fixpoint popcount_pos (p : positive) : N :=
  match p with xH => 1 | xO q => popcount_pos q | xI q => 1 + popcount_pos q end.
Definition popcount (n : N) : N := match n with 0 => 0 | Npos p => popcount_pos p end.
