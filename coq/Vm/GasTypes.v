(* Vm/GasTypes.v — types shared by the generated gas table (Gen/GasTable.v), the gas model
   and its consumers (C26, C29). *)
From FV Require Import Base.Bytes Vm.FlowSpec.
Open Scope N_scope.

(* one entry of a gas schedule (GasCostsValues field): a fixed cost or a DependentCost *)
Inductive cost_val :=
| CFixed (g : N)
| CLight (base units_per_gas : N)      (* DependentCost::LightOperation *)
| CHeavy (base gas_per_unit : N).      (* DependentCost::HeavyOperation *)
Definition cost_base (c : cost_val) : N :=
  match c with CFixed g => g | CLight b _ => b | CHeavy b _ => b end.

(* the first gas charge of an opcode handler *)
Inductive cost_sel :=
| SelFixed (field : string)            (* gas_charge(gas_costs().field()) *)
| SelDep (field : string)              (* dependent_gas_charge(gas_costs().field(), units) *)
| SelDepBase (field : string)          (* CALL: gas_charge(field.base()), the rest later *)
| SelInner (field : string)            (* charged inside the helper: gas_charge(field.base()) first *)
| SelNone.                             (* no charge (ECAL) *)
Definition sel_field (s : cost_sel) : option string :=
  match s with SelFixed f | SelDep f | SelDepBase f | SelInner f => Some f | SelNone => None end.

(* where the unit count of a dependent first charge is read from (rfield/immw: Vm/FlowSpec.v) *)
Inductive unit_src := UReg (f : rfield) | UImm (w : immw) | UReg0is32 (f : rfield).
