(* Vm/GasTypes.v — types shared by the generated gas table (Gen/GasTable.v), the gas model
   and its consumers (C26, C29). *)
From FV Require Import Base.Bytes Vm.FlowSpec.
Open Scope N_scope.

(* one entry of a gas schedule (GasCostsValues field): a fixed cost or a DependentCost *)
Inductive cost_val :=
| CFixed (g : N)
| CLight (base units_per_gas : N)      (* DependentCost::LightOperation *)
| CHeavy (base gas_per_unit : N).      (* DependentCost::HeavyOperation *)
Definition cost_base (c : cost_val) : N :=
  match c with CFixed g => g | CLight b _ => b | CHeavy b _ => b end.

(* the first gas charge of an opcode handler *)
Inductive cost_sel :=
| SelFixed (field : string)            (* gas_charge(gas_costs().field()) *)
| SelDep (field : string)              (* dependent_gas_charge(gas_costs().field(), units) *)
| SelDepBase (field : string)          (* CALL: gas_charge(field.base()), the rest later *)
| SelInner (field : string)            (* charged inside the helper: gas_charge(field.base()) first *)
| SelNone.                             (* no charge (ECAL) *)
Definition sel_field (s : cost_sel) : option string :=
  match s with SelFixed f | SelDep f | SelDepBase f | SelInner f => Some f | SelNone => None end.

(* where the unit count of a dependent first charge is read from (rfield/immw: Vm/FlowSpec.v) *)
Inductive unit_src := UReg (f : rfield) | UImm (w : immw) | UReg0is32 (f : rfield).

(* ---- full charge sequence of a handler (C26 exact totals) *)
(* sizes the instruction reads from storage while it executes (observed per step) *)
Inductive obsq := OCodeSize | OBlobSize.
(* unit expressions *)
Inductive uexpr :=
| XReg (f : rfield) | XImm (w : immw) | XObs (o : obsq)
| XMax (a b : uexpr)
| XPad8 (a : uexpr)          (* padded_len_*(a), the instruction panics on u64 overflow *)
| XPad8Max (a : uexpr)       (* padded_len_word(a).unwrap_or(u64::MAX) *)
| XReg0is32 (f : rfield).
Inductive cguard :=
| GAlways
| GModeIs (n : N)            (* the Imm06 of the instruction equals n *)
| GNewEntry                  (* a balance entry was created by the instruction *)
| GNz (u : uexpr)            (* the expression is non-zero *)
| GAnd (a b : cguard).
Inductive charge_item :=
| ChFixed (field : string)                     (* gas_charge(field) *)
| ChDep (field : string) (u : uexpr)           (* dependent_gas_charge(field, u): base + units *)
| ChBase (field : string)                      (* gas_charge(field.base()) *)
| ChDepNoBase (field : string) (u : uexpr)     (* dependent_gas_charge_without_base(field, u) *)
| ChPerByte (n : N).                           (* gas_charge(n * new_storage_per_byte), saturating *)
Definition cseq := list (cguard * charge_item).

(* storage micro-operations of the storage instructions (after their `noop` charge) *)
Inductive smicro :=
| MRead (hot : bool) (len : N)                 (* storage_read_slot: read_hot/read_cold on the value length (0 if unset) *)
| MWrite (new_len old_len : N)                 (* storage_write_slot: storage_write(new_len) + new_storage_per_byte * (new_len - old_len) *)
| MClear (range : N).                          (* storage_clear_slot_range: storage_clear(range) *)
(* shape of the micro-operation list an opcode may produce *)
Inductive sshape := ShRead | ShReads | ShReadWrite | ShReadWrites | ShReadsClear | ShClear | ShWrite.
