(* Vm/InputsTie.v — the order of the input-contract check relative to the contract-state
   accesses in each Rust function the model Vm/InputsModel.v mirrors, as extracted from the
   sources by tools/gen_kvtable.py on every check (Gen/KvTable.v).  A moved, removed or added
   check / access changes a list and breaks one of these: the model must then be re-read. *)
From Coq Require Import List String.
From FV Require Import Gen.KvTable.
Import ListNotations.
Open Scope string_scope.

(* CALL: the callee's code size is read and the caller debited BEFORE the input check
   (InputsModel.step: r_pre of OpCall); the finding reported for C30 *)
Example tie_prepare_call : fpi_prepare_call =
  ["mem_read"; "read_bytes"; "contract_size"; "current_contract"; "balance_decrease"; "external_balance_sub"; "check_contract_in_inputs";
   "balance_increase"; "internal_contract"; "mem_write"; "code_read_exact"; "frames_push"].
Proof. reflexivity. Qed.
Example tie_load_contract_code : fpi_load_contract_code =
  ["is_predicate"; "read_bytes"; "check_contract_in_inputs"; "contract_size"; "copy_from_storage_ContractsRawCode"; "read_bytes"; "inc_pc"].
Proof. reflexivity. Qed.
Example tie_load_blob_code : fpi_load_blob_code = ["read_bytes"; "blob_size"; "copy_from_storage_BlobData"; "read_bytes"; "inc_pc"].
Proof. reflexivity. Qed.
Example tie_code_copy : fpi_code_copy =
  ["read_bytes"; "mem_write"; "check_contract_in_inputs"; "contract_size"; "copy_from_storage_ContractsRawCode"; "inc_pc"].
Proof. reflexivity. Qed.
Example tie_code_root : fpi_code_root = ["mem_write"; "read_bytes"; "check_contract_in_inputs"; "contract_size"; "storage_contract"; "inc_pc"].
Proof. reflexivity. Qed.
Example tie_code_size : fpi_code_size = ["read_bytes"; "check_contract_in_inputs"; "contract_size"; "inc_pc"].
Proof. reflexivity. Qed.
Example tie_contract_balance : fpi_contract_balance = ["read_bytes"; "read_bytes"; "check_contract_in_inputs"; "balance_read"; "inc_pc"].
Proof. reflexivity. Qed.
Example tie_transfer : fpi_transfer =
  ["read_bytes"; "read_bytes"; "check_contract_in_inputs"; "transfer_zero_coins"; "internal_contract"; "balance_decrease"; "external_balance_sub";
   "balance_increase"; "inc_pc"].
Proof. reflexivity. Qed.
Example tie_transfer_output : fpi_transfer_output =
  ["read_bytes"; "read_bytes"; "transfer_zero_coins"; "internal_contract"; "balance_decrease"; "external_balance_sub"; "inc_pc"].
Proof. reflexivity. Qed.
Example tie_mint : fpi_mint = ["internal_contract"; "read_bytes"; "balance_read"; "balance_replace"; "inc_pc"].
Proof. reflexivity. Qed.
Example tie_burn : fpi_burn = ["internal_contract"; "read_bytes"; "balance_read"; "balance_insert"; "inc_pc"].
Proof. reflexivity. Qed.
Example tie_message_output : fpi_message_output =
  ["mem_read"; "read_bytes"; "read_bytes"; "current_contract"; "balance_decrease"; "external_balance_sub"; "inc_pc"].
Proof. reflexivity. Qed.
(* PredicateStorage refuses every operation on the contract tables (each method body checked by the translator) *)
Example tie_predicate_storage : List.length predicate_storage_refuses = 19%nat.
Proof. reflexivity. Qed.
