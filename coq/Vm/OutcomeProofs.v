(* Vm/OutcomeProofs.v — proofs about Vm/OutcomeModel.v (C28). *)
From FV Require Import Base.Bytes Base.U64 Gen.AssetTable Merkle.RFC6962 Merkle.BinaryModel Merkle.BinaryProofs
     Vm.OutcomeModel Vm.OutcomeSpec.
Open Scope N_scope.

Lemma rlen_app rs r : rlen (rs ++ [r]) = rlen rs + 1.
Proof. induction rs as [|x t IH]; cbn [app rlen]; [reflexivity | rewrite IH; lia]. Qed.
Lemma rlen_length rs : rlen rs = N.of_nat (length rs).
Proof. induction rs as [|x t IH]; cbn [rlen length]; [reflexivity | rewrite IH; lia]. Qed.

Ltac maxr := unfold MAX_RECEIPTS in *.

(* ------------------------------------------------------------------ push *)
(* the list never grows beyond MAX_RECEIPTS, whatever is pushed in whatever order *)
Lemma push_bound rs r rs' : rlen rs <= MAX_RECEIPTS -> push rs r = PushOk rs' -> rlen rs' <= MAX_RECEIPTS /\ rs' = rs ++ [r].
Proof.
  unfold push. intros Hb. destruct (N.eqb_spec (rlen rs) MAX_RECEIPTS); [discriminate|].
  destruct (_ || _); [discriminate|]. intros H; injection H as <-. rewrite rlen_app. split; [lia | reflexivity].
Qed.

(* ordinary receipts leave the last two slots free *)
Lemma push_body_bound rs r rs' :
  rlen rs <= MAX_RECEIPTS - 2 -> is_script_result r = false -> is_panic r = false -> push rs r = PushOk rs' ->
  rlen rs' <= MAX_RECEIPTS - 2 /\ rs' = rs ++ [r].
Proof.
  unfold push. intros Hb H1 H2. rewrite H1, H2. cbn [orb negb]. rewrite !Bool.andb_true_r.
  destruct (N.eqb_spec (rlen rs) MAX_RECEIPTS); [discriminate|].
  destruct (N.eqb_spec (rlen rs) (MAX_RECEIPTS - 1)); cbn [orb]; [discriminate|].
  destruct (N.eqb_spec (rlen rs) (MAX_RECEIPTS - 2)); cbn [orb]; [discriminate|].
  intros H; injection H as <-. rewrite rlen_app. split; [maxr; lia | reflexivity].
Qed.

Lemma push_body_bound' rs r rs' :
  push rs r = PushOk rs' -> rlen rs <= MAX_RECEIPTS - 2 -> is_script_result r = false -> is_panic r = false ->
  rlen rs' <= MAX_RECEIPTS - 2 /\ rs' = rs ++ [r].
Proof. intros P H H1 H2. exact (push_body_bound rs r rs' H H1 H2 P). Qed.

(* a failed push of an ordinary receipt is TooManyReceipts (never the Bug) while two slots are free *)
Lemma push_body_no_bug rs r : rlen rs <= MAX_RECEIPTS - 2 -> push rs r <> PushFull.
Proof.
  unfold push. intros Hb. destruct (N.eqb_spec (rlen rs) MAX_RECEIPTS); [maxr; lia|].
  destruct (_ || _); discriminate.
Qed.

(* the reserved slots: a panic receipt always fits while two slots are free, then the script result *)
Lemma push_panic_ok rs reason : rlen rs <= MAX_RECEIPTS - 2 ->
  push rs (RcPanic reason) = PushOk (rs ++ [RcPanic reason]).
Proof.
  unfold push. intros Hb. cbn [is_script_result is_panic orb negb]. rewrite Bool.andb_false_r, Bool.orb_false_r, Bool.andb_true_r.
  destruct (N.eqb_spec (rlen rs) MAX_RECEIPTS); [maxr; lia|].
  destruct (N.eqb_spec (rlen rs) (MAX_RECEIPTS - 1)); [maxr; lia|]. reflexivity.
Qed.
Lemma push_result_ok rs result gas : rlen rs <= MAX_RECEIPTS - 1 ->
  push rs (RcScriptResult result gas) = PushOk (rs ++ [RcScriptResult result gas]).
Proof.
  unfold push. intros Hb. cbn [is_script_result is_panic orb negb]. rewrite !Bool.andb_false_r. cbn [orb].
  destruct (N.eqb_spec (rlen rs) MAX_RECEIPTS); [maxr; lia|]. reflexivity.
Qed.

(* ------------------------------------------------------------------ the run loop *)
Definition running_inv (s : rstate) : Prop :=
  Forall (fun r => interior r = true) (st_receipts s) /\ rlen (st_receipts s) <= MAX_RECEIPTS - 2.

Lemma Forall_snoc {A} (P : A -> Prop) l x : Forall P l -> P x -> Forall P (l ++ [x]).
Proof. intros H Hx. apply Forall_app. split; [exact H | constructor; [exact Hx | constructor]]. Qed.

Lemma finish_done rs result gas : rlen rs <= MAX_RECEIPTS - 1 ->
  finish rs result gas = Done (rs ++ [RcScriptResult result gas]) result.
Proof. intros H. unfold finish. rewrite (push_result_ok _ _ _ H). reflexivity. Qed.

(* every instruction sequence: the run completes in the well-formed shape, or is still running;
   the final pushes never fail *)
Theorem run_shape gas prog : forall s,
  running_inv s ->
  match run gas s prog with
  | Done rs result =>
      exists body tail, rs = st_receipts s ++ body ++ tail /\ Forall (fun r => interior r = true) body /\
        rlen rs <= MAX_RECEIPTS /\
        ((result = SER_Success /\ exists k, tail = [RcReturn true k; RcScriptResult result gas]) \/
         (result = SER_Revert /\ tail = [RcRevert; RcScriptResult result gas]) \/
         (result = SER_Panic /\ exists reason, tail = [RcPanic reason; RcScriptResult result gas]))
  | Running s' => running_inv s'
  | HostPanic | Aborted => False
  end.
Proof.
  induction prog as [|i rest IH]; intros s [HF HL]; cbn [run].
  - split; assumption.
  - (* the panic path, from any state whose receipts are those of s *)
    assert (PANIC : forall reason s', st_receipts s' = st_receipts s ->
              match (match push (st_receipts s') (RcPanic reason) with PushOk rs => finish rs SER_Panic gas | _ => HostPanic end) with
              | Done rs result =>
                  exists body tail, rs = st_receipts s ++ body ++ tail /\ Forall (fun r => interior r = true) body /\
                    rlen rs <= MAX_RECEIPTS /\
                    ((result = SER_Success /\ exists k, tail = [RcReturn true k; RcScriptResult result gas]) \/
                     (result = SER_Revert /\ tail = [RcRevert; RcScriptResult result gas]) \/
                     (result = SER_Panic /\ exists reason, tail = [RcPanic reason; RcScriptResult result gas]))
              | Running s' => running_inv s'
              | HostPanic | Aborted => False
              end).
    { intros reason s' E. rewrite E. rewrite (push_panic_ok _ reason HL).
      rewrite finish_done; [|rewrite rlen_app; maxr; lia].
      exists [], [RcPanic reason; RcScriptResult SER_Panic gas]. cbn [app]. repeat split.
      - rewrite <- app_assoc. reflexivity.
      - constructor.
      - rewrite !rlen_app. maxr; lia.
      - right; right. split; [reflexivity|]. exists reason. reflexivity. }
    destruct i as [k| |k|k| |reason]; cbn [exec].
    + (* IBody *)
      destruct (push (st_receipts s) (RcBody k)) as [rs| |] eqn:P.
      * destruct (push_body_bound' _ _ _ P HL eq_refl eq_refl) as [B ->].
        specialize (IH {| st_receipts := st_receipts s ++ [RcBody k]; st_depth := st_depth s |}).
        cbn [st_receipts] in IH.
        assert (I1 : running_inv {| st_receipts := st_receipts s ++ [RcBody k]; st_depth := st_depth s |}).
        { split; cbn [st_receipts]; [apply Forall_snoc; [exact HF | reflexivity] | exact B]. }
        specialize (IH I1). destruct (run gas _ rest) as [rs result|s'| |]; try exact IH.
        destruct IH as (body & tail & E & FB & LB & T). exists (RcBody k :: body), tail. repeat split.
        -- rewrite E. rewrite <- !app_assoc. reflexivity.
        -- constructor; [reflexivity | exact FB].
        -- exact LB.
        -- exact T.
      * exfalso. exact (push_body_no_bug _ _ HL P).
      * apply (PANIC PR_TooManyReceipts s eq_refl).
    + (* ISilent *)
      apply IH. split; assumption.
    + (* ICall *)
      destruct (push (st_receipts s) (RcBody k)) as [rs| |] eqn:P.
      * destruct (push_body_bound' _ _ _ P HL eq_refl eq_refl) as [B ->].
        specialize (IH {| st_receipts := st_receipts s ++ [RcBody k]; st_depth := st_depth s + 1 |}).
        cbn [st_receipts] in IH.
        assert (I1 : running_inv {| st_receipts := st_receipts s ++ [RcBody k]; st_depth := st_depth s + 1 |}).
        { split; cbn [st_receipts]; [apply Forall_snoc; [exact HF | reflexivity] | exact B]. }
        specialize (IH I1). destruct (run gas _ rest) as [rs result|s'| |]; try exact IH.
        destruct IH as (body & tail & E & FB & LB & T). exists (RcBody k :: body), tail. repeat split.
        -- rewrite E. rewrite <- !app_assoc. reflexivity.
        -- constructor; [reflexivity | exact FB].
        -- exact LB.
        -- exact T.
      * exfalso. exact (push_body_no_bug _ _ HL P).
      * apply (PANIC PR_TooManyReceipts s eq_refl).
    + (* IRet *)
      destruct (push (st_receipts s) (RcReturn (st_depth s =? 0) k)) as [rs| |] eqn:P.
      * destruct (push_body_bound' _ _ _ P HL eq_refl eq_refl) as [B ->].
        destruct (st_depth s =? 0) eqn:Dz; cbn [negb].
        -- (* top-level return: Success *)
           cbn [st_receipts]. rewrite finish_done; [|maxr; lia].
           exists [], [RcReturn true k; RcScriptResult SER_Success gas]. cbn [app]. repeat split.
           ++ rewrite <- app_assoc. reflexivity.
           ++ constructor.
           ++ rewrite rlen_app. maxr; lia.
           ++ left. split; [reflexivity|]. exists k. reflexivity.
        -- specialize (IH {| st_receipts := st_receipts s ++ [RcReturn false k]; st_depth := st_depth s - 1 |}).
           cbn [st_receipts] in IH.
           assert (I1 : running_inv {| st_receipts := st_receipts s ++ [RcReturn false k]; st_depth := st_depth s - 1 |}).
           { split; cbn [st_receipts]; [apply Forall_snoc; [exact HF | reflexivity] | exact B]. }
           specialize (IH I1). destruct (run gas _ rest) as [rs result|s'| |]; try exact IH.
           destruct IH as (body & tail & E & FB & LB & T). exists (RcReturn false k :: body), tail. repeat split.
           ++ rewrite E. rewrite <- !app_assoc. reflexivity.
           ++ constructor; [reflexivity | exact FB].
           ++ exact LB.
           ++ exact T.
      * exfalso. exact (push_body_no_bug _ _ HL P).
      * apply (PANIC PR_TooManyReceipts {| st_receipts := st_receipts s; st_depth := st_depth s - 1 |} eq_refl).
    + (* IRvrt *)
      destruct (push (st_receipts s) RcRevert) as [rs| |] eqn:P.
      * destruct (push_body_bound' _ _ _ P HL eq_refl eq_refl) as [B ->].
        cbn [st_receipts]. rewrite finish_done; [|maxr; lia].
        exists [], [RcRevert; RcScriptResult SER_Revert gas]. cbn [app]. repeat split.
        -- rewrite <- app_assoc. reflexivity.
        -- constructor.
        -- rewrite rlen_app. maxr; lia.
        -- right; left. split; reflexivity.
      * exfalso. exact (push_body_no_bug _ _ HL P).
      * apply (PANIC PR_TooManyReceipts s eq_refl).
    + (* IFail *)
      apply (PANIC reason s eq_refl).
Qed.

Lemma initial_inv : running_inv initial.
Proof. split; cbn; [constructor | maxr; lia]. Qed.

(* for every program: a completed execution has a well-formed receipt list of at most 65,535 receipts *)
Theorem completed_wellformed gas prog rs result :
  run gas initial prog = Done rs result ->
  wellformed rs result /\ rlen rs <= MAX_RECEIPTS /\ N.of_nat (length rs) <= 65535.
Proof.
  intros H. pose proof (run_shape gas prog initial initial_inv) as S. rewrite H in S.
  destruct S as (body & tail & E & FB & LB & T). cbn [initial st_receipts app] in E.
  split; [|split; [exact LB|]].
  - exists body, gas. split; [exact FB|]. rewrite E.
    destruct T as [[-> [k ->]] | [[-> ->] | [-> [reason ->]]]].
    + left. split; [reflexivity|]. exists k. reflexivity.
    + right; left. split; reflexivity.
    + right; right. split; [reflexivity|]. exists reason. reflexivity.
  - rewrite rlen_length in LB. maxr. lia.
Qed.

(* the final pushes (panic receipt through `expect`, script result through `?`) never fail *)
Theorem run_never_aborts gas prog :
  run gas initial prog <> HostPanic /\ run gas initial prog <> Aborted.
Proof.
  pose proof (run_shape gas prog initial initial_inv) as S.
  destruct (run gas initial prog); try contradiction; split; discriminate.
Qed.

(* ------------------------------------------------------------------ consequences of the shape *)
Lemma count_app p (a b : list receipt) : count p (a ++ b) = (count p a + count p b)%nat.
Proof. unfold count. rewrite filter_app, app_length. reflexivity. Qed.
Lemma count_interior_zero p body :
  (forall r, interior r = true -> p r = false) -> Forall (fun r => interior r = true) body -> count p body = O.
Proof.
  intros Hp F. unfold count. induction F as [|x l Hx F IH]; cbn [filter]; [reflexivity|].
  rewrite (Hp _ Hx). exact IH.
Qed.

Theorem wellformed_facts rs result :
  wellformed rs result ->
  (* exactly one script result, and it is last *)
  count is_script_result rs = 1%nat /\ (exists gas, last rs RcRevert = RcScriptResult result gas) /\
  (* a panic receipt exactly when the result is Panic, then exactly one, right before the result *)
  (count is_panic rs = if result =? SER_Panic then 1%nat else O) /\
  (result = SER_Panic -> exists pre reason gas, rs = pre ++ [RcPanic reason; RcScriptResult result gas]) /\
  (* success iff the top-level program returned, revert iff it reverted *)
  (result = SER_Success <-> exists pre k gas, rs = pre ++ [RcReturn true k; RcScriptResult result gas]) /\
  (result = SER_Revert <-> exists pre gas, rs = pre ++ [RcRevert; RcScriptResult result gas]) /\
  (result = SER_Success \/ result = SER_Revert \/ result = SER_Panic) /\
  (* the client's revert decision *)
  should_revert rs = negb (result =? SER_Success).
Proof.
  intros (body & gas & FB & T).
  assert (Cs : count is_script_result body = O) by (apply count_interior_zero; [intros [] ; cbn; congruence | exact FB]).
  assert (Cp : count is_panic body = O) by (apply count_interior_zero; [intros [] ; cbn; congruence | exact FB]).
  assert (Sr : should_revert body = false).
  { unfold should_revert. clear -FB. induction FB as [|x l Hx F IH]; cbn [existsb]; [reflexivity|].
    rewrite IH. destruct x as [| [] | | |]; cbn in *; congruence. }
  assert (LastTwo : forall x y, last (body ++ [x; y]) RcRevert = y).
  { intros x y. change (body ++ [x; y]) with (body ++ [x] ++ [y]). rewrite (app_assoc body [x] [y]). apply last_last. }
  assert (NoSnoc : forall (pre : list receipt) a b a' b', pre ++ [a; b] = body ++ [a'; b'] -> a = a' /\ b = b').
  { intros pre a b a' b' E. change (pre ++ [a] ++ [b] = body ++ [a'] ++ [b']) in E. rewrite (app_assoc pre [a] [b]), (app_assoc body [a'] [b']) in E.
    apply app_inj_tail in E as [E ->]. apply app_inj_tail in E as [_ ->]. split; reflexivity. }
  destruct T as [[-> [k ->]] | [[-> ->] | [-> [reason ->]]]]; repeat split.
  all: try reflexivity.
  all: try (rewrite count_app, ?Cs, ?Cp; reflexivity).
  all: try (eexists; apply LastTwo).
  all: try (intros H; discriminate H).
  all: try (intros; do 3 eexists; reflexivity).
  all: try (intros; do 2 eexists; reflexivity).
  all: try (intros (pre & k' & g' & E); symmetry in E; apply NoSnoc in E as [E _]; discriminate E).
  all: try (intros (pre & g' & E); symmetry in E; apply NoSnoc in E as [E _]; discriminate E).
  all: try (left; reflexivity).
  all: try (right; left; reflexivity).
  all: try (right; right; reflexivity).
  all: try (unfold should_revert in *; rewrite existsb_app, Sr; reflexivity).
Qed.

(* at most MAX_RECEIPTS receipts for ALL push sequences, whatever the receipts and their order *)
Fixpoint push_all (rs : list receipt) (xs : list receipt) : list receipt :=
  match xs with
  | [] => rs
  | x :: t => push_all (match push rs x with PushOk rs' => rs' | _ => rs end) t
  end.
Theorem push_all_bound xs : forall rs, rlen rs <= MAX_RECEIPTS -> rlen (push_all rs xs) <= MAX_RECEIPTS.
Proof.
  induction xs as [|x t IH]; intros rs H; cbn [push_all]; [exact H|].
  apply IH. destruct (push rs x) as [rs'| |] eqn:P; [|exact H|exact H].
  apply (push_bound _ _ _ H P).
Qed.

(* ------------------------------------------------------------------ receipts root *)
Section RootProofs.
  Context {D : Type}.
  Variables (leaf_sum : bytes -> D) (node_sum : D -> D -> D) (empty_sum : D).
  Variable enc : receipt -> bytes.

  Lemma calc_push_all_snoc l : forall s d,
    calc_push_all leaf_sum node_sum s (l ++ [d]) = (do s' <- calc_push_all leaf_sum node_sum s l; calc_push leaf_sum node_sum s' d).
  Proof.
    induction l as [|x t IH]; intros s d; cbn [app calc_push_all].
    - cbn [opt_bind]. destruct (calc_push leaf_sum node_sum s d); reflexivity.
    - destruct (calc_push leaf_sum node_sum s x) as [s1|]; cbn [opt_bind]; [apply IH | reflexivity].
  Qed.

  Definition rctx_inv (c : @rctx D) : Prop :=
    rc_tree c = calc_push_all leaf_sum node_sum [] (map enc (rc_receipts c)) /\ rlen (rc_receipts c) <= MAX_RECEIPTS.

  Lemma rctx_push_inv c r c' : rctx_inv c -> rctx_push leaf_sum node_sum enc c r = Some c' -> rctx_inv c'.
  Proof.
    intros [T L]. unfold rctx_push. destruct (push (rc_receipts c) r) as [rs| |] eqn:P; try discriminate.
    intros H; injection H as <-. destruct (push_bound _ _ _ L P) as [B ->]. split; cbn [rc_receipts rc_tree].
    - rewrite map_app. cbn [map]. rewrite calc_push_all_snoc. rewrite T. reflexivity.
    - exact B.
  Qed.

  Lemma rctx_push_all_inv rs : forall c, rctx_inv c -> rctx_inv (rctx_push_all leaf_sum node_sum enc c rs).
  Proof.
    induction rs as [|r t IH]; intros c I; cbn [rctx_push_all]; [exact I|].
    apply IH. destruct (rctx_push leaf_sum node_sum enc c r) as [c'|] eqn:P; [eapply rctx_push_inv; eassumption | exact I].
  Qed.

  (* the incremental root of the context is the RFC 6962 tree hash of the encoded receipts *)
  Theorem rctx_root_is_MTH c :
    rctx_inv c ->
    rctx_root node_sum empty_sum c = Some (MTH leaf_sum node_sum empty_sum (map enc (rc_receipts c))).
  Proof.
    intros [T L]. unfold rctx_root. rewrite T.
    rewrite <- (calculator_root_is_MTH leaf_sum node_sum empty_sum (map enc (rc_receipts c))).
    - reflexivity.
    - rewrite map_length, <- rlen_length. maxr. change (2 ^ 63) with 9223372036854775808. lia.
  Qed.

  Theorem receipts_root_is_MTH rs :
    let c := rctx_push_all leaf_sum node_sum enc (@rctx_new D) rs in
    rctx_root node_sum empty_sum c = Some (MTH leaf_sum node_sum empty_sum (map enc (rc_receipts c))) /\
    rlen (rc_receipts c) <= MAX_RECEIPTS.
  Proof.
    cbn zeta. assert (I : rctx_inv (rctx_push_all leaf_sum node_sum enc (@rctx_new D) rs)).
    { apply rctx_push_all_inv. split; cbn; [reflexivity | maxr; lia]. }
    split; [apply rctx_root_is_MTH; exact I | apply I].
  Qed.
End RootProofs.

(* ------------------------------------------------------------------ MemoryClient rollback *)
Theorem client_rollback {T : Type} (s : @mstorage T) (writes : T -> T) (ok : bool) (rs : list receipt) :
  ms_memory s = ms_transacted s ->
  (ok = false \/ should_revert rs = true) ->
  ms_memory (client_transact s writes ok rs) = ms_memory s /\
  ms_transacted (client_transact s writes ok rs) = ms_transacted s.
Proof.
  intros C [-> | R]; unfold client_transact.
  - cbn. split; [symmetry; exact C | reflexivity].
  - rewrite R. destruct ok; cbn; split; try reflexivity; symmetry; exact C.
Qed.

Theorem client_commit {T : Type} (s : @mstorage T) (writes : T -> T) (rs : list receipt) :
  should_revert rs = false ->
  ms_memory (client_transact s writes true rs) = writes (ms_memory s) /\
  ms_transacted (client_transact s writes true rs) = writes (ms_memory s).
Proof. intros R. unfold client_transact. rewrite R. cbn. split; reflexivity. Qed.

(* a completed run that did not succeed is rolled back by the in-memory client; a successful one
   is committed *)
Theorem completed_rollback {T : Type} gas prog rs result (s : @mstorage T) (writes : T -> T) :
  run gas initial prog = Done rs result ->
  ms_memory s = ms_transacted s ->
  (result <> SER_Success -> ms_memory (client_transact s writes true rs) = ms_memory s) /\
  (result = SER_Success -> ms_memory (client_transact s writes true rs) = writes (ms_memory s)).
Proof.
  intros H C. destruct (completed_wellformed _ _ _ _ H) as [W _].
  destruct (wellformed_facts _ _ W) as (_ & _ & _ & _ & _ & _ & _ & SR).
  split; intros R.
  - apply client_rollback; [exact C|]. right. rewrite SR. destruct (N.eqb_spec result SER_Success); [contradiction | reflexivity].
  - apply client_commit. rewrite SR, R. reflexivity.
Qed.

(* the hypothesis `memory = transacted` of the rollback theorems is forced: MemoryClient::deploy does
   not commit, so a deployment followed by a reverted script is lost with it (the client returns to
   its last COMMITTED state, not to the state before the failed script) *)
Theorem rollback_after_deploy_refuted :
  exists (s : @mstorage (list N)) (dep w : list N -> list N) (rs : list receipt),
    ms_memory s = ms_transacted s /\ should_revert rs = true /\
    ms_memory (client_transact (client_deploy s dep) w true rs) <> ms_memory (client_deploy s dep).
Proof.
  exists {| ms_memory := []; ms_transacted := [] |}, (cons 1), (fun x => x), [RcRevert; RcScriptResult SER_Revert 0].
  repeat split. cbn. discriminate.
Qed.

(* after any committed point (a successful script) failed scripts do restore the state before them *)
Theorem rollback_after_commit {T : Type} (s : @mstorage T) (w1 w2 : T -> T) (rs1 rs2 : list receipt) :
  should_revert rs1 = false -> should_revert rs2 = true ->
  let s1 := client_transact s w1 true rs1 in
  ms_memory (client_transact s1 w2 true rs2) = ms_memory s1.
Proof.
  intros R1 R2. cbn zeta. apply client_rollback; [|right; exact R2].
  destruct (client_commit s w1 rs1 R1) as [-> ->]. reflexivity.
Qed.

(* ------------------------------------------------------------------ examples *)
Example example_run_success :
  run 17 initial [IBody RK_Log; ICall RK_Call; IBody RK_Transfer; IRet RK_Return; ISilent; IRet RK_ReturnData]
  = Done [RcBody RK_Log; RcBody RK_Call; RcBody RK_Transfer; RcReturn false RK_Return; RcReturn true RK_ReturnData;
          RcScriptResult SER_Success 17] SER_Success.
Proof. vm_compute. reflexivity. Qed.
Example example_run_revert_in_call :
  run 5 initial [ICall RK_Call; ICall RK_Call; IRvrt; IBody RK_Log]
  = Done [RcBody RK_Call; RcBody RK_Call; RcRevert; RcScriptResult SER_Revert 5] SER_Revert.
Proof. vm_compute. reflexivity. Qed.
Example example_run_panic :
  run 9 initial [IBody RK_Log; IFail PR_OutOfGas]
  = Done [RcBody RK_Log; RcPanic PR_OutOfGas; RcScriptResult SER_Panic 9] SER_Panic.
Proof. vm_compute. reflexivity. Qed.
