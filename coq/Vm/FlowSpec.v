(* Vm/FlowSpec.v — L3 specification for C25 "control flow lands exactly where the
   specification says".  Written from the property text and the FuelVM instruction-set
   specification (fuel-specs, "Control Flow Instructions"), independent of the Rust code:
   exact integer arithmetic over Z, no saturation.

     JI   imm        $pc = $is + imm * 4
     JNEI a b imm    if $rA != $rB: $pc = $is + imm * 4          else $pc += 4
     JNZI a imm      if $rA != 0:   $pc = $is + imm * 4          else $pc += 4
     JMP  a          $pc = $is + $rA * 4
     JNE  a b c      if $rA != $rB: $pc = $is + $rC * 4          else $pc += 4
     JMPF a imm      $pc += ($rA + imm + 1) * 4
     JMPB a imm      $pc -= ($rA + imm + 1) * 4
     JNZF a b imm    if $rA != 0:   $pc += ($rB + imm + 1) * 4   else $pc += 4
     JNZB a b imm    if $rA != 0:   $pc -= ($rB + imm + 1) * 4   else $pc += 4
     JNEF a b c imm  if $rA != $rB: $pc += ($rC + imm + 1) * 4   else $pc += 4
     JNEB a b c imm  if $rA != $rB: $pc -= ($rC + imm + 1) * 4   else $pc += 4
     JAL  a b imm    $rA = $pc + 4 (discarded if rA is $zero; panic if rA is another reserved
                     register); then $pc = $rB + imm * 4
   Panic (MemoryOverflow) if the target is not a memory address (outside [0, VM_MAX_RAM)). *)
From FV Require Import Base.Bytes Base.U64.
From Coq Require Import ZArith.
Open Scope string_scope.
Open Scope N_scope.

Definition VM_MAX_RAM : N := 67108864.          (* 64 MiB *)
Definition REG_PC : N := 3.
Definition REG_SSP : N := 4.
Definition REG_IS : N := 12.
Definition REG_WRITABLE : N := 16.              (* first user-writable register *)

Inductive jmode := Assign | RelIS | RelFwd | RelBwd.
Inductive rfield := FA | FB | FC | FD.
Inductive immw := I06 | I12 | I18 | I24.
Inductive jcond := CTrue | CNe (x y : rfield) | CNz (x : rfield).
Inductive jsrc := SZero | SReg (x : rfield) | SImm (w : immw).
Record jentry := { j_mode : jmode; j_cond : jcond; j_dyn : jsrc; j_fixed : jsrc; j_link : option rfield }.
Inductive fclass := KJump | KIncPc | KCall | KRet | KRevert.

Inductive freason := RMemoryOverflow | RReservedRegister.
(* result of executing a flow instruction whose gas charge succeeded *)
Inductive fres :=
| FOk (pc' : N) (wr : option (N * N))      (* new $pc, register written (index, value) *)
| FPanic (r : freason).

(* ---- instruction word fields (32-bit word: opcode byte, then 24 argument bits) *)
Definition field (f : rfield) (w : N) : N :=
  match f with
  | FA => (w / 262144) mod 64 | FB => (w / 4096) mod 64 | FC => (w / 64) mod 64 | FD => w mod 64
  end.
Definition imm (i : immw) (w : N) : N :=
  match i with I06 => w mod 64 | I12 => w mod 4096 | I18 => w mod 262144 | I24 => w mod 16777216 end.
Definition opcode_of (w : N) : N := w / 16777216.

Definition src_val (s : jsrc) (w : N) (r : N -> N) : N :=
  match s with SZero => 0 | SReg f => r (field f w) | SImm i => imm i w end.
Definition cond_val (c : jcond) (w : N) (r : N -> N) : bool :=
  match c with
  | CTrue => true
  | CNe x y => negb (r (field x w) =? r (field y w))
  | CNz x => negb (r (field x w) =? 0)
  end.
Definition upd (r : N -> N) (k v : N) : N -> N := fun x => if x =? k then v else r x.

(* ---- the target, as an integer *)
Definition target_Z (m : jmode) (is pc dyn fixed : Z) : Z :=
  match m with
  | Assign => dyn + 4 * fixed
  | RelIS => is + 4 * (dyn + fixed)
  | RelFwd => pc + 4 * (dyn + fixed + 1)
  | RelBwd => pc - 4 * (dyn + fixed + 1)
  end%Z.

Definition jump_spec (cond : bool) (m : jmode) (is pc dyn fixed : N) : option N :=
  if cond then
    let t := target_Z m (Z.of_N is) (Z.of_N pc) (Z.of_N dyn) (Z.of_N fixed) in
    if ((0 <=? t) && (t <? Z.of_N VM_MAX_RAM))%Z then Some (Z.to_N t) else None
  else Some (pc + 4).

(* the return-address write of JAL *)
Definition link_spec (l : option rfield) (w : N) (r : N -> N) : (N -> N) * option (N * N) + freason :=
  match l with
  | None => inl (r, None)
  | Some f =>
      let k := field f w in
      if k =? 0 then inl (r, None)
      else if k <? REG_WRITABLE then inr RReservedRegister
      else inl (upd r k (r REG_PC + 4), Some (k, r REG_PC + 4))
  end.

Definition spec_exec (e : jentry) (w : N) (r : N -> N) : fres :=
  match link_spec (j_link e) w r with
  | inr reason => FPanic reason
  | inl (r', wr) =>
      match jump_spec (cond_val (j_cond e) w r') (j_mode e) (r REG_IS) (r REG_PC)
                      (src_val (j_dyn e) w r') (src_val (j_fixed e) w r') with
      | Some pc' => FOk pc' wr
      | None => FPanic RMemoryOverflow
      end
  end.

(* ---- the instruction table of the ISA specification (opcode byte, mnemonic, semantics) *)
Definition J m c d f l := {| j_mode := m; j_cond := c; j_dyn := d; j_fixed := f; j_link := l |}.
Definition isa_jump : list (N * (string * jentry)) := [
  (0x4a, ("JMP",  J RelIS  CTrue        (SReg FA)  SZero      None));
  (0x4b, ("JNE",  J RelIS  (CNe FA FB)  (SReg FC)  SZero      None));
  (0x5b, ("JNEI", J RelIS  (CNe FA FB)  (SImm I12) SZero      None));
  (0x73, ("JNZI", J RelIS  (CNz FA)     (SImm I18) SZero      None));
  (0x74, ("JMPF", J RelFwd CTrue        (SReg FA)  (SImm I18) None));
  (0x75, ("JMPB", J RelBwd CTrue        (SReg FA)  (SImm I18) None));
  (0x76, ("JNZF", J RelFwd (CNz FA)     (SReg FB)  (SImm I12) None));
  (0x77, ("JNZB", J RelBwd (CNz FA)     (SReg FB)  (SImm I12) None));
  (0x78, ("JNEF", J RelFwd (CNe FA FB)  (SReg FC)  (SImm I06) None));
  (0x79, ("JNEB", J RelBwd (CNe FA FB)  (SReg FC)  (SImm I06) None));
  (0x90, ("JI",   J RelIS  CTrue        (SImm I24) SZero      None));
  (0x99, ("JAL",  J Assign CTrue        (SReg FB)  (SImm I12) (Some FA)))
].

(* ---- executable region and sequential flow *)
(* an instruction at pc may execute only if is <= pc < ssp *)
Definition in_executable_region (is ssp pc : N) : Prop := is <= pc /\ pc < ssp.
(* a successful non-control-flow instruction *)
Definition next_pc (pc : N) : N := pc + 4.
