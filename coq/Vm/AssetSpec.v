(* Vm/AssetSpec.v — L3 specification for C27, written from the property text:
   the per-asset ledger equation of a script execution, and what it means that a receipt
   "matches a balance movement of exactly that amount".  Independent of the machine's code:
   it only looks at transaction inputs / outputs, the contracts' balance table before and
   after, the minted / burned / message totals, the fee, and at holdings of accounts. *)
From FV Require Import Base.Bytes Base.U64 Vm.AssetModel.
Open Scope N_scope.

(* ------------------------------------------------------------------ totals per asset *)
(* spendable input amount; message-data inputs count only when [count_data] *)
Fixpoint in_spendable (base a : asset) (count_data : bool) (ins : list input) : N :=
  match ins with
  | [] => 0
  | ICoin a' amt :: r => (if a' =? a then amt else 0) + in_spendable base a count_data r
  | IMsgCoin amt :: r => (if base =? a then amt else 0) + in_spendable base a count_data r
  | IMsgData amt :: r => (if (base =? a) && count_data then amt else 0) + in_spendable base a count_data r
  | IContract _ :: r => in_spendable base a count_data r
  end.

Fixpoint out_coin (a : asset) (outs : list output) : N :=
  match outs with
  | [] => 0
  | OCoin _ amt a' :: r => (if a' =? a then amt else 0) + out_coin a r
  | _ :: r => out_coin a r
  end.
Fixpoint out_change (a : asset) (outs : list output) : N :=
  match outs with
  | [] => 0
  | OChange _ amt a' :: r => (if a' =? a then amt else 0) + out_change a r
  | _ :: r => out_change a r
  end.
Fixpoint out_variable (a : asset) (outs : list output) : N :=
  match outs with
  | [] => 0
  | OVariable _ amt a' :: r => (if a' =? a then amt else 0) + out_variable a r
  | _ :: r => out_variable a r
  end.
Fixpoint has_change (a : asset) (outs : list output) : bool :=
  match outs with
  | [] => false
  | OChange _ _ a' :: r => (a' =? a) || has_change a r
  | _ :: r => has_change a r
  end.

(* number of Change outputs of asset a; a checked transaction has at most one
   (ValidityError::TransactionOutputChangeAssetIdDuplicated) *)
Fixpoint change_count (a : asset) (outs : list output) : N :=
  match outs with
  | [] => 0
  | OChange _ _ a' :: r => (if a' =? a then 1 else 0) + change_count a r
  | _ :: r => change_count a r
  end.
Definition change_unique (outs : list output) : Prop := forall a, change_count a outs <= 1.
(* boolean check over the assets that occur *)
Definition change_unique_b (outs : list output) : bool :=
  forallb (fun o => match o with OChange _ _ a => change_count a outs <=? 1 | _ => true end) outs.

(* sum over all contracts of their balance of asset a *)
Fixpoint csum (a : asset) (cb : list ((cid * asset) * N)) : N :=
  match cb with
  | [] => 0
  | ((_, a'), v) :: r => (if a' =? a then v else 0) + csum a r
  end.

(* ------------------------------------------------------------------ the ledger equation
   inputs + contracts' prior balances + minted
     = coin + change + variable outputs + contracts' final balances + burned
       + balance left without a change output
       + (base asset) fee actually charged + amounts sent in outgoing messages            *)
Definition leftover (base a : asset) (outs : list output) (free : list (asset * N)) (refund : N) : N :=
  if has_change a outs then 0 else getd free a + (if a =? base then refund else 0).

Definition ledger_equation (base a : asset) (ins : list input) (cb0 : list ((cid * asset) * N))
           (max_fee refund : N) (f : final) : Prop :=
  in_spendable base a (negb (f_revert f)) ins + csum a cb0 + getd (f_minted f) a
  = out_coin a (f_outs f) + out_change a (f_outs f) + out_variable a (f_outs f)
    + csum a (f_cbal f) + getd (f_burned f) a
    + leftover base a (f_outs f) (f_free f) refund
    + (if a =? base then (max_fee - refund) + f_msgout f else 0).

(* boolean version, evaluated on observed data by the trace checker *)
Definition ledger_equation_b (base a : asset) (ins : list input) (cb0 : list ((cid * asset) * N))
           (max_fee refund : N) (f : final) : bool :=
  (in_spendable base a (negb (f_revert f)) ins + csum a cb0 + getd (f_minted f) a)
  =? (out_coin a (f_outs f) + out_change a (f_outs f) + out_variable a (f_outs f)
      + csum a (f_cbal f) + getd (f_burned f) a
      + leftover base a (f_outs f) (f_free f) refund
      + (if a =? base then (max_fee - refund) + f_msgout f else 0)).

(* failed execution (C28 uses it too): variable outputs zeroed, change = initial free balance
   (+ refund for the base asset) *)
Fixpoint failed_outputs_ok (base : asset) (refund : N) (initial : list (asset * N)) (outs : list output) : bool :=
  match outs with
  | [] => true
  | OVariable _ amt _ :: r => (amt =? 0) && failed_outputs_ok base refund initial r
  | OChange _ amt a :: r =>
      (amt =? getd initial a + (if a =? base then refund else 0)) && failed_outputs_ok base refund initial r
  | _ :: r => failed_outputs_ok base refund initial r
  end.

(* ------------------------------------------------------------------ balance movements *)
Inductive account := AFree | AContract (c : cid) | AVariable.
Definition account_eqb (x y : account) : bool :=
  match x, y with
  | AFree, AFree => true
  | AContract c, AContract d => c =? d
  | AVariable, AVariable => true
  | _, _ => false
  end.

Definition free_value (s : vm) (a : asset) : N :=
  match nget (v_bal s) a with Some b => bvalue b | None => 0 end.

Definition holding (s : vm) (x : account) (a : asset) : N :=
  match x with
  | AFree => free_value s a
  | AContract c => balance (v_cbal s) c a
  | AVariable => out_variable a (v_outs s)
  end.

(* where value comes from / goes to: an account, the mint (supply), the burn sink, a message *)
Inductive endpoint := Acc (x : account) | Supply | Burnt | Message.
Definition is_acc (e : endpoint) (x : account) : bool := match e with Acc y => account_eqb y x | _ => false end.
Definition is_supply (e : endpoint) : bool := match e with Supply => true | _ => false end.
Definition is_burnt (e : endpoint) : bool := match e with Burnt => true | _ => false end.
Definition is_message (e : endpoint) : bool := match e with Message => true | _ => false end.

(* exactly [amt] of asset [a] left [src] and arrived at [dst]; nothing else moved *)
Definition moved (src dst : endpoint) (a : asset) (amt : N) (s s' : vm) : Prop :=
  (forall x b, holding s' x b + (if is_acc src x && (b =? a) then amt else 0)
               = holding s x b + (if is_acc dst x && (b =? a) then amt else 0)) /\
  (forall b, getd (v_minted s') b = getd (v_minted s) b + (if is_supply src && (b =? a) then amt else 0)) /\
  (forall b, getd (v_burned s') b = getd (v_burned s) b + (if is_burnt dst && (b =? a) then amt else 0)) /\
  v_msgout s' = v_msgout s + (if is_message dst then amt else 0).

Definition source_of (cx : ctx) : endpoint :=
  match cx with Script => Acc AFree | Internal c => Acc (AContract c) end.

(* the movement an operation's receipt announces *)
Definition announced (asset_of : cid -> N -> asset) (base : asset) (o : op) (r : areceipt)
  : option (endpoint * endpoint * asset * N) :=
  match o, r with
  | OpTransfer cx _ _ _, RTransfer from to amt a =>
      if from =? ctx_id cx then Some (source_of cx, Acc (AContract to), a, amt) else None
  | OpTransferOut cx _ _ _ _, RTransferOut from _ amt a =>
      if from =? ctx_id cx then Some (source_of cx, Acc AVariable, a, amt) else None
  | OpCall cx _ _ _, RCall from to amt a =>
      if from =? ctx_id cx then Some (source_of cx, Acc (AContract to), a, amt) else None
  | OpMint (Internal c) _ _, RMint sub c' amt =>
      if c' =? c then Some (Supply, Acc (AContract c), asset_of c sub, amt) else None
  | OpBurn (Internal c) _ _, RBurn sub c' amt =>
      if c' =? c then Some (Acc (AContract c), Burnt, asset_of c sub, amt) else None
  | OpMessageOut cx _, RMessageOut amt => Some (source_of cx, Message, base, amt)
  | _, _ => None
  end.
