(* Vm/NoCrashModel.v — the mechanism behind "execution always terminates within the gas limit":
   the run loop of run_program / verify_predicate (executors/main.rs, executors/predicate.rs) over
   an abstract machine in which EVERY executed instruction first pays its base cost:

     execute: fetch_instruction -> instruction_per_inner -> instruction_inner:
       Opcode::try_from(raw[0])  (undefined opcode => InvalidInstruction, the run ends)
       <handler>::execute        every `impl Execute` in opcodes_impl.rs starts with
                                 gas_charge(cost) / dependent_gas_charge(cost, units) — for a few
                                 (CALL, CSIZ, LDC, CCP, CROO, BSIZ, BLDD, ...) after decoding and
                                 checks that can only panic; Gen/GasTable.v records that first charge
                                 per opcode, regenerated from the source on every check
       gas_charge (gas.rs)       Vm/GasModel.v gas_charge: OutOfGas ends the run
     any Err(e) ends the run (there is no catch): only Ok(Proceed) / Ok(Return) inside a call
     continue the loop.

   Parametric in the machine state and in what handlers do before (`pre`) and after (`post`)
   their first charge.  Definitions only. *)
From Coq Require Import List NArith Bool.
From FV Require Import Base.Bytes Base.U64 Vm.FlowSpec Vm.GasTypes Vm.GasSpec Gen.GasTable Vm.GasModel.
Import ListNotations.
Open Scope N_scope.

Section NoCrash.
  Variable St : Type.
  Variable Res : Type.
  Variable gas_of : St -> gstate.              (* $cgas, $ggas (and the gas saved in call frames) *)
  Variable set_gas : St -> gstate -> St.
  Variable fetch : St -> option N.             (* None: the fetch failed; Some b: opcode byte raw[0] *)
  Variable fault : St -> Res.                  (* result of a failed fetch *)
  Variable base_cost : N -> option N.          (* schedule: base of the first charge of an opcode; None: undefined
                                                  opcode, or an opcode that charges nothing (ECAL) *)
  Variable no_charge : N -> St -> Res.         (* undefined opcode => InvalidInstruction; ECAL with the default
                                                  handler => EcalError: the run ends *)
  Variable pre : N -> St -> St + Res.          (* decoding / checks before the first charge: continue or end *)
  Variable extra : N -> St -> N.               (* the dependent part of the first charge *)
  Variable post : N -> St -> St + Res.         (* the rest of the handler and run_program's treatment of its result *)
  Variable out_of_gas : St -> Res.
  Variable bug : St -> Res.                    (* the unchecked subtraction of gas_charge would underflow *)

  Definition step (s : St) : St + Res :=
    match fetch s with
    | None => inr (fault s)
    | Some op =>
        match base_cost op with
        | None => inr (no_charge op s)
        | Some b =>
            match pre op s with
            | inr r => inr r
            | inl s1 =>
                match gas_charge (gas_of s1) (b + extra op s1) with
                | GOk g => post op (set_gas s1 g)
                | GOutOfGas g => inr (out_of_gas (set_gas s1 g))
                | GBug => inr (bug s1)
                end
            end
        end
    end.

  Fixpoint run (n : nat) (s : St) : option Res :=
    match n with
    | O => None
    | S k => match step s with inl s' => run k s' | inr r => Some r end
    end.

  (* number of instructions executed before the run ends (None: not within n) *)
  Fixpoint steps (n : nat) (s : St) : option nat :=
    match n with
    | O => None
    | S k => match step s with inl s' => option_map S (steps k s') | inr _ => Some 1%nat end
    end.
End NoCrash.
