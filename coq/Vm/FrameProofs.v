(* Vm/FrameProofs.v — proofs about the call-frame machine (Vm/FrameModel.v):
   invariant preservation, what each operation may change in memory (C24 over the machine),
   register restoration, depth, caller's stack unchanged, heap readable after return (C34). *)
From Coq Require Import PeanoNat.
From FV Require Import Base.Bytes Base.U64 Gen.VmConsts Vm.OwnModel Vm.OwnProofs Vm.FrameModel.
Open Scope N_scope.

(* ------------------------------------------------------------------ small facts *)
Lemma upd_same r k v : upd r k v k = v.
Proof. unfold upd. rewrite N.eqb_refl. reflexivity. Qed.
Lemma upd_other r k v i : i <> k -> upd r k v i = r i.
Proof. unfold upd. intros H. destruct (N.eqb_spec i k); [contradiction|reflexivity]. Qed.

Lemma option_map_some {A B} (f : A -> B) o y : option_map f o = Some y -> exists x, o = Some x /\ y = f x.
Proof. destruct o; cbn; intros H; [injection H as <-; eauto | discriminate]. Qed.
Lemma res_opt_some {A} (r : res A) a : res_opt r = Some a -> r = Ok a.
Proof. destruct r; cbn; intros H; [injection H as <-; reflexivity | discriminate]. Qed.

Ltac somes :=
  repeat match goal with
  | H : option_map _ _ = Some _ |- _ => apply option_map_some in H as (? & H & ?)
  | H : res_opt _ = Some _ |- _ => apply res_opt_some in H
  end.

Lemma CF_SIZE_val : CF_SIZE = 600. Proof. reflexivity. Qed.
Lemma CF_CODE_val : CF_CODE_SIZE_OFFSET = 576. Proof. reflexivity. Qed.
Lemma U64_val : U64 = 18446744073709551616. Proof. reflexivity. Qed.

(* register indices are distinct: decided by computation *)
Ltac regne := vm_compute; discriminate.

(* ------------------------------------------------------------------ frames_ok monotonicity *)
Lemma frames_ok_mono vm fp ssp hp ssp' hp' fs :
  ssp <= ssp' -> hp' <= hp -> frames_ok vm fp ssp hp fs -> frames_ok vm fp ssp' hp' fs.
Proof.
  intros Hs Hh. destruct fs as [|f rest]; cbn [frames_ok].
  - intros [-> ?]. split; [reflexivity | lia].
  - intros (-> & ? & ? & ? & ? & ?). repeat split; auto; lia.
Qed.

(* the frame pointers grow towards the innermost frame *)
Lemma frames_ok_chain vm fs : forall fp ssp hp f rest,
  frames_ok vm fp ssp hp (fs ++ f :: rest) -> f_regs f REG_SP <= fp.
Proof.
  induction fs as [|g fs IH]; intros fp ssp hp f rest; cbn [app frames_ok].
  - intros (-> & _). lia.
  - intros (-> & H1 & H2 & H3 & H4 & H5). pose proof (IH _ _ _ _ _ H5) as H6.
    destruct fs as [|h fs']; cbn [app frames_ok] in H5; destruct H5 as (E & L & _); lia.
Qed.

(* ------------------------------------------------------------------ register lookups *)
Ltac rsimp := repeat first [rewrite upd_same | rewrite upd_other by (vm_compute; discriminate)].
Ltac rsimp_in H := repeat first [rewrite upd_same in H | rewrite upd_other in H by (vm_compute; discriminate)].

Lemma sat_add_small a b : a + b < U64 -> saturating_add U64 a b = a + b.
Proof. unfold saturating_add. intros H. rewrite U64_val in *. lia. Qed.
Lemma sat_add_ge a b : a < U64 -> a <= saturating_add U64 a b.
Proof. unfold saturating_add. rewrite U64_val. lia. Qed.
Lemma sat_add_bounded a b c : saturating_add U64 a b <= c -> c < U64 - 1 -> saturating_add U64 a b = a + b.
Proof. unfold saturating_add. rewrite U64_val. lia. Qed.

Lemma layout_same_eqs r r' :
  layout_regs_same r r' = true ->
  r' REG_SSP = r REG_SSP /\ r' REG_SP = r REG_SP /\ r' REG_FP = r REG_FP /\ r' REG_HP = r REG_HP.
Proof.
  unfold layout_regs_same. rewrite !andb_true_iff, !N.eqb_eq. tauto.
Qed.

(* facts about call_regs *)
Lemma call_regs_saved r total amount gas_fwd cgas1 ggas1 k :
  k <> REG_CGAS -> k <> REG_GGAS -> fst (call_regs r total amount gas_fwd cgas1 ggas1) k = r k.
Proof. intros. unfold call_regs. cbn [fst]. rewrite !upd_other; auto. Qed.

Lemma call_regs_layout r total amount gas_fwd cgas1 ggas1 :
  let r' := snd (call_regs r total amount gas_fwd cgas1 ggas1) in
  r' REG_SP = saturating_add U64 (r REG_SP) total /\ r' REG_SSP = saturating_add U64 (r REG_SP) total /\
  r' REG_FP = r REG_SP /\ r' REG_HP = r REG_HP.
Proof. unfold call_regs. cbn [snd]. repeat split; rsimp; reflexivity. Qed.

(* ------------------------------------------------------------------ invariant preservation *)
Lemma with_data_bounds m d : m_stack_len (with_data m d) = m_stack_len m /\ m_hp (with_data m d) = m_hp m.
Proof. split; reflexivity. Qed.

Lemma write_noownerchecks_ok m a bs m' :
  write_noownerchecks m a bs = Ok m' -> m' = with_data m (set_range (m_data m) a bs).
Proof.
  unfold write_noownerchecks, rbind. destruct (verify m a (lenN bs)) as [[s e]|] eqn:V; [|discriminate].
  apply verify_ok_iff in V as (-> & _). intros H; injection H as <-. reflexivity.
Qed.

Lemma mem_memcopy_ok m o dst src len m' :
  mem_memcopy m o dst src len = Ok m' ->
  m' = with_data m (set_range (m_data m) dst (read_range (m_data m) src (N.to_nat len))).
Proof.
  unfold mem_memcopy, rbind. destruct (memcopy_check m o dst src len) as [[ds de]|] eqn:C; [|discriminate].
  apply memcopy_check_ok in C as (-> & _). intros H; injection H as <-. reflexivity.
Qed.

Lemma Inv_mem_data s d : Inv s -> Inv (with_mem s (with_data (v_mem s) d)).
Proof. unfold Inv. cbn. auto. Qed.

Theorem step_inv s op s' : Inv s -> step s op = Some s' -> Inv s' /\ v_vm_hi s' = v_vm_hi s.
Proof.
  intros (I1 & I2 & I3 & I4 & I5 & I6) H.
  assert (Hu : VM_MAX_RAM < U64 - 1) by (vm_compute; reflexivity).
  destruct op; cbn [step] in H.
  - (* CHavoc *)
    destruct (layout_regs_same (v_regs s) r') eqn:L; [|discriminate]. injection H as <-.
    apply layout_same_eqs in L as (E1 & E2 & E3 & E4).
    split; [|reflexivity]. unfold Inv. cbn [v_regs v_mem v_frames v_vm_hi with_regs].
    rewrite E1, E2, E3, E4. repeat split; assumption.
  - (* CWrite *)
    somes. subst s'. apply mem_write_check in H as [_ ->].
    split; [|reflexivity]. apply Inv_mem_data. unfold Inv; repeat split; assumption.
  - (* CCopy *)
    somes. subst s'. apply mem_memcopy_ok in H as ->.
    split; [|reflexivity]. apply Inv_mem_data. unfold Inv; repeat split; assumption.
  - (* CCfe *)
    destruct (N.leb_spec U64 (v_regs s REG_SP + n)); [discriminate|]. somes. subst s'.
    apply try_update_sp_spec in H as [Hb G]. apply grow_stack_spec in G as (G1 & G2 & G3 & G4 & _).
    split; [|reflexivity]. unfold Inv. cbn [v_regs v_mem v_frames v_vm_hi mk]. rsimp.
    repeat split; try lia. exact I6.
  - (* CCfs *)
    destruct (N.ltb_spec (v_regs s REG_SP) n); [discriminate|]. somes. subst s'.
    apply try_update_sp_spec in H as [Hb G]. apply grow_stack_spec in G as (G1 & G2 & G3 & G4 & _).
    split; [|reflexivity]. unfold Inv. cbn [v_regs v_mem v_frames v_vm_hi mk]. rsimp.
    repeat split; try lia. exact I6.
  - (* CAloc *)
    somes. subst s'. apply grow_heap_spec in H as (G1 & G2 & G3 & G4 & _).
    split; [|reflexivity]. unfold Inv. cbn [v_regs v_mem v_frames v_vm_hi mk]. rsimp.
    repeat split; try lia.
    eapply frames_ok_mono; [| |exact I6]; lia.
  - (* CPush *)
    destruct (try_update_sp _ _ _ _) as [m1|] eqn:T; [|discriminate]. somes. subst s'.
    apply try_update_sp_spec in T as [Hb G]. apply grow_stack_spec in G as (G1 & G2 & G3 & G4 & _).
    apply write_noownerchecks_ok in H as ->.
    split; [|reflexivity]. unfold Inv. cbn [v_regs v_mem v_frames v_vm_hi mk with_data m_stack_len m_hp]. rsimp.
    repeat split; try lia. exact I6.
  - (* CPop *)
    destruct (checked_sub _ _) as [new_sp|] eqn:Cs; [|discriminate].
    destruct (layout_regs_same (v_regs s) r') eqn:L; [|discriminate]. somes. subst s'.
    apply layout_same_eqs in L as (E1 & E2 & E3 & E4).
    apply try_update_sp_spec in H as [Hb G]. apply grow_stack_spec in G as (G1 & G2 & G3 & G4 & _).
    split; [|reflexivity]. unfold Inv. cbn [v_regs v_mem v_frames v_vm_hi mk]. rsimp.
    rewrite E1, E3, E4. repeat split; try lia. exact I6.
  - (* CLdc *)
    destruct (N.eqb_spec (v_regs s REG_SSP) (v_regs s REG_SP)) as [Es|]; cbn [negb] in H; [|discriminate].
    destruct (grow_stack _ _) as [m1|] eqn:G; [|discriminate].
    destruct (mem_write m1 _ _ _) as [m2|] eqn:W; [|discriminate].
    apply grow_stack_spec in G as (G1 & G2 & G3 & G4 & _).
    apply mem_write_check in W as [_ ->].
    set (new_sp := saturating_add U64 (v_regs s REG_SSP) (lenN code)) in *.
    assert (Hge : v_regs s REG_SSP <= new_sp) by (apply sat_add_ge; lia).
    assert (Inv2 : forall fs m3, fs = v_frames s -> m_stack_len m3 = m_stack_len m1 -> m_hp m3 = m_hp m1 ->
                   Inv (mk s (upd (upd (v_regs s) REG_SP new_sp) REG_SSP new_sp) fs m3)).
    { intros fs m3 -> L1 L2. unfold Inv. cbn [v_regs v_mem v_frames v_vm_hi mk]. rsimp. rewrite L1, L2.
      repeat split; try lia.
      eapply frames_ok_mono; [| |exact I6]; lia. }
    destruct (v_frames s) as [|f rest] eqn:Fr.
    + injection H as <-. split; [|reflexivity]. apply Inv2; auto.
    + destruct (mem_read _ _ _) as [old|]; [|discriminate].
      destruct (checked_add _ _ _) as [ns|]; [|discriminate]. somes. subst s'.
      apply write_noownerchecks_ok in H as ->.
      split; [|reflexivity]. apply Inv2; auto.
  - (* CVmWrite *)
    destruct (N.leb_spec (a + lenN bs) (v_vm_hi s)); [|discriminate]. somes. subst s'.
    apply write_noownerchecks_ok in H as ->.
    split; [|reflexivity]. apply Inv_mem_data. unfold Inv; repeat split; assumption.
  - (* CCall *)
    destruct (call_regs _ _ _ _ _ _) as [saved r'] eqn:CR.
    destruct (negb _); [discriminate|].
    destruct (grow_stack _ _) as [m1|] eqn:G; [|discriminate]. somes. subst s'.
    apply write_noownerchecks_ok in H as ->.
    pose proof (call_regs_layout (v_regs s) (CF_SIZE + padded_len (lenN code)) amount gas_fwd cgas1 ggas1) as L.
    rewrite CR in L. cbn [snd] in L. destruct L as (L1 & L2 & L3 & L4).
    assert (Sv : forall k, k <> REG_CGAS -> k <> REG_GGAS -> saved k = v_regs s k).
    { intros k K1 K2. pose proof (call_regs_saved (v_regs s) (CF_SIZE + padded_len (lenN code)) amount gas_fwd cgas1 ggas1 k K1 K2) as E.
      rewrite CR in E. exact E. }
    apply grow_stack_spec in G as (G1 & G2 & G3 & G4 & _).
    assert (Hns : r' REG_SP = v_regs s REG_SP + (CF_SIZE + padded_len (lenN code))).
    { rewrite L1 in *. apply (sat_add_bounded _ _ VM_MAX_RAM); [exact G3 | exact Hu]. }
    split; [|reflexivity]. unfold Inv. cbn [v_regs v_mem v_frames v_vm_hi mk with_data m_stack_len m_hp].
    rewrite L2, L3, L4, <- L1.
    cbn [frames_ok f_regs f_code_size_padded].
    rewrite !Sv by (vm_compute; discriminate).
    repeat split; try lia. exact I6.
  - (* CRet *)
    unfold return_from in H. destruct (v_frames s) as [|f rest] eqn:Fr; somes; subst s'.
    + unfold ret_regs in H. injection H as <-.
      split; [|reflexivity]. unfold Inv. cbn [v_regs v_mem v_frames v_vm_hi mk]. rsimp. try rewrite Fr in I6. repeat split; try assumption; apply I6.
    + unfold ret_regs in H. destruct (checked_add _ _ _) as [cg|]; [|discriminate]. injection H as <-.
      cbn [frames_ok] in I6. destruct I6 as (F1 & F2 & F3 & F4 & F5 & F6).
      split; [|reflexivity]. unfold Inv. cbn [v_regs v_mem v_frames v_vm_hi mk]. rsimp.
      repeat split; try lia.
      eapply frames_ok_mono; [| |exact F6]; lia.
  - (* CRetd *)
    destruct (mem_read _ _ _); [|discriminate].
    unfold return_from in H. destruct (v_frames s) as [|f rest] eqn:Fr; somes; subst s'.
    + unfold ret_regs in H. injection H as <-.
      split; [|reflexivity]. unfold Inv. cbn [v_regs v_mem v_frames v_vm_hi mk]. rsimp. try rewrite Fr in I6. repeat split; try assumption; apply I6.
    + unfold ret_regs in H. destruct (checked_add _ _ _) as [cg|]; [|discriminate]. injection H as <-.
      cbn [frames_ok] in I6. destruct I6 as (F1 & F2 & F3 & F4 & F5 & F6).
      split; [|reflexivity]. unfold Inv. cbn [v_regs v_mem v_frames v_vm_hi mk]. rsimp.
      repeat split; try lia.
      eapply frames_ok_mono; [| |exact F6]; lia.
Qed.

(* ------------------------------------------------------------------ what a step may change (C24 over the machine) *)
Lemma changed_trans (d0 d1 d2 : N -> N) x : d2 x <> d0 x -> d2 x <> d1 x \/ d1 x <> d0 x.
Proof. intros H. destruct (N.eq_dec (d2 x) (d1 x)) as [E|E]; [right; congruence | left; exact E]. Qed.

Lemma lenN_app {A} (a b : list A) : lenN (a ++ b) = lenN a + lenN b.
Proof. unfold lenN. rewrite app_length. lia. Qed.

Lemma lenN_word_bytes v : lenN (word_bytes v) = 8.
Proof. unfold lenN, word_bytes. rewrite be_encode_length. reflexivity. Qed.

Lemma lenN_flat_words (f : N -> N) l : lenN (flat_map (fun i => word_bytes (f i)) l) = 8 * lenN l.
Proof.
  induction l as [|v l IH]; [reflexivity|].
  cbn [flat_map]. rewrite lenN_app, lenN_word_bytes, IH. unfold lenN. cbn [length]. lia.
Qed.

Lemma lenN_flat_word_bytes l : lenN (flat_map word_bytes l) = 8 * lenN l.
Proof. exact (lenN_flat_words (fun v => v) l). Qed.

Theorem step_changes s op s' :
  Inv s -> step s op = Some s' ->
  forall x, m_data (v_mem s') x <> m_data (v_mem s) x -> in_owned (cur_owner s) x \/ vm_region s op x.
Proof.
  intros (I1 & I2 & I3 & I4 & I5 & I6) H x Hx.
  assert (Hu : VM_MAX_RAM < U64 - 1) by (vm_compute; reflexivity).
  destruct op; cbn [step] in H.
  - destruct (layout_regs_same _ _); [|discriminate]. injection H as <-. cbn in Hx. congruence.
  - somes. subst s'. left. eapply mem_write_owned; eauto.
  - somes. subst s'. left. eapply mem_memcopy_owned; eauto.
  - (* CCfe *)
    destruct (N.leb_spec U64 (v_regs s REG_SP + n)); [discriminate|]. somes. subst s'.
    apply try_update_sp_spec in H as [Hb G]. apply grow_stack_spec in G as (_ & _ & _ & _ & G5).
    right. cbn [vm_region]. cbn [v_mem mk] in Hx. apply G5 in Hx. lia.
  - (* CCfs *)
    destruct (N.ltb_spec (v_regs s REG_SP) n); [discriminate|]. somes. subst s'.
    apply try_update_sp_spec in H as [Hb G]. apply grow_stack_spec in G as (_ & _ & _ & _ & G5).
    cbn [v_mem mk] in Hx. apply G5 in Hx. lia.
  - (* CAloc *)
    somes. subst s'. apply grow_heap_spec in H as (G1 & G2 & G3 & G4 & G5).
    right. cbn [vm_region]. cbn [v_mem mk] in Hx. apply G5 in Hx. lia.
  - (* CPush *)
    destruct (try_update_sp _ _ _ _) as [m1|] eqn:T; [|discriminate]. somes. subst s'.
    apply try_update_sp_spec in T as [Hb G]. apply grow_stack_spec in G as (_ & _ & _ & _ & G5).
    apply write_noownerchecks_ok in H as ->. cbn [v_mem mk with_data m_data] in Hx.
    right. cbn [vm_region]. rewrite <- lenN_flat_word_bytes.
    assert (Hs : saturating_add U64 (v_regs s REG_SP) (lenN (flat_map word_bytes vals))
                 <= v_regs s REG_SP + lenN (flat_map word_bytes vals)) by (unfold saturating_add; lia).
    apply (changed_trans _ (m_data m1)) in Hx as [Hx|Hx].
    + apply set_range_changed in Hx. lia.
    + apply G5 in Hx. lia.
  - (* CPop *)
    destruct (checked_sub _ _) as [new_sp|] eqn:Cs; [|discriminate].
    destruct (layout_regs_same _ _); [|discriminate]. somes. subst s'.
    unfold checked_sub in Cs. destruct (N.leb_spec (8 * k) (v_regs s REG_SP)); [|discriminate]. injection Cs as <-.
    apply try_update_sp_spec in H as [Hb G]. apply grow_stack_spec in G as (_ & _ & _ & _ & G5).
    cbn [v_mem mk] in Hx. apply G5 in Hx. lia.
  - (* CLdc *)
    destruct (N.eqb_spec (v_regs s REG_SSP) (v_regs s REG_SP)) as [Es|]; cbn [negb] in H; [|discriminate].
    destruct (grow_stack _ _) as [m1|] eqn:G; [|discriminate].
    destruct (mem_write m1 _ _ _) as [m2|] eqn:W; [|discriminate].
    apply grow_stack_spec in G as (_ & _ & _ & _ & G5).
    apply mem_write_check in W as [_ ->].
    set (new_sp := saturating_add U64 (v_regs s REG_SSP) (lenN code)) in *.
    assert (Hs : new_sp <= v_regs s REG_SSP + lenN code) by (unfold new_sp, saturating_add; lia).
    right. cbn [vm_region].
    assert (Core : forall y, set_range (m_data m1) (v_regs s REG_SSP) code y <> m_data (v_mem s) y ->
                   v_regs s REG_SSP <= y < v_regs s REG_SSP + lenN code).
    { intros y Hy. apply (changed_trans _ (m_data m1)) in Hy as [Hy|Hy].
      - apply set_range_changed in Hy. exact Hy.
      - apply G5 in Hy. lia. }
    destruct (v_frames s) as [|f rest] eqn:Fr.
    + injection H as <-. cbn [v_mem mk with_data m_data] in Hx. left. apply Core. exact Hx.
    + destruct (mem_read _ _ _) as [old|]; [|discriminate].
      destruct (checked_add _ _ _) as [ns|]; [|discriminate]. somes. subst s'.
      apply write_noownerchecks_ok in H as ->. cbn [v_mem mk with_data m_data] in Hx.
      apply (changed_trans _ (set_range (m_data m1) (v_regs s REG_SSP) code)) in Hx as [Hx|Hx].
      * right. split; [unfold is_internal; rewrite Fr; reflexivity|].
        apply set_range_changed in Hx. rewrite lenN_word_bytes in Hx.
        cbn [frames_ok] in I6. destruct I6 as (F1 & F2 & _).
        rewrite sat_add_small in Hx; [exact Hx|]. rewrite CF_CODE_val, U64_val. rewrite CF_SIZE_val in F2.
        unfold VM_MAX_RAM in *. lia.
      * left. apply Core. exact Hx.
  - (* CVmWrite *)
    destruct (N.leb_spec (a + lenN bs) (v_vm_hi s)); [|discriminate]. somes. subst s'.
    apply write_noownerchecks_ok in H as ->. cbn [v_mem with_mem with_data m_data] in Hx.
    right. cbn [vm_region]. apply set_range_changed in Hx. lia.
  - (* CCall *)
    destruct (call_regs _ _ _ _ _ _) as [saved r'] eqn:CR.
    destruct (N.eqb_spec (lenN (frame_bytes
      {| f_to := to; f_asset := asset; f_regs := saved; f_code_size_padded := padded_len (lenN code); f_a := a; f_b := b |}
      ++ code ++ zeros (N.to_nat (padded_len (lenN code) - lenN code))))
      (CF_SIZE + padded_len (lenN code))) as [El|]; cbn [negb] in H; [|discriminate].
    destruct (grow_stack _ _) as [m1|] eqn:G; [|discriminate]. somes. subst s'.
    apply write_noownerchecks_ok in H as ->. cbn [v_mem mk with_data m_data] in Hx.
    pose proof (call_regs_layout (v_regs s) (CF_SIZE + padded_len (lenN code)) amount gas_fwd cgas1 ggas1) as L.
    rewrite CR in L. cbn [snd] in L. destruct L as (L1 & L2 & L3 & L4).
    apply grow_stack_spec in G as (_ & _ & G3 & _ & G5).
    assert (Hns : r' REG_SP = v_regs s REG_SP + (CF_SIZE + padded_len (lenN code))).
    { rewrite L1 in *. apply (sat_add_bounded _ _ VM_MAX_RAM); [exact G3 | exact Hu]. }
    right. cbn [vm_region].
    apply (changed_trans _ (m_data m1)) in Hx as [Hx|Hx].
    + apply set_range_changed in Hx. rewrite El, L3 in Hx. lia.
    + apply G5 in Hx. lia.
  - (* CRet *)
    unfold return_from in H. destruct (v_frames s); somes; subst s'; cbn in Hx; congruence.
  - destruct (mem_read _ _ _); [|discriminate].
    unfold return_from in H. destruct (v_frames s); somes; subst s'; cbn in Hx; congruence.
Qed.

(* every byte the current context owns lies at or above [base] *)
Lemma owned_above_base s x : Inv s -> in_owned (cur_owner s) x -> base s <= x.
Proof.
  intros (I1 & I2 & I3 & I4 & I5 & I6) Ho. unfold base.
  assert (Hs : v_regs s REG_SSP <= x).
  { destruct Ho as [Ho|Ho]; unfold in_owned_stack, in_owned_heap, cur_owner, own_new in Ho; cbn in Ho; lia. }
  destruct (v_frames s) as [|f rest]; cbn [frames_ok] in I6.
  - lia.
  - destruct I6 as (F1 & F2 & _). lia.
Qed.

Lemma vm_region_above_base s op s' x :
  Inv s -> step s op = Some s' -> vm_region s op x ->
  base s <= x \/ (x < v_vm_hi s /\ exists a bs, op = CVmWrite a bs).
Proof.
  intros (I1 & I2 & I3 & I4 & I5 & I6) H V.
  assert (Hb : base s <= v_regs s REG_SSP).
  { unfold base. destruct (v_frames s) as [|f rest]; cbn [frames_ok] in I6; [lia|]. destruct I6 as (F1 & F2 & _). lia. }
  destruct op; cbn [vm_region] in V; try contradiction.
  - left. lia.
  - (* CAloc: the new heap pointer is not below $sp *)
    cbn [step] in H. somes. apply grow_heap_spec in H as (G1 & G2 & G3 & _). left. lia.
  - left. lia.
  - destruct V as [V|[Hi V]]; [left; lia|].
    left. unfold base. unfold is_internal in Hi. destruct (v_frames s); [discriminate|]. lia.
  - right. split; [lia|eauto].
  - left. lia.
Qed.

Theorem step_changes_above_base s op s' x :
  Inv s -> step s op = Some s' -> m_data (v_mem s') x <> m_data (v_mem s) x ->
  base s <= x \/ (x < v_vm_hi s /\ exists a bs, op = CVmWrite a bs).
Proof.
  intros I H Hx. destruct (step_changes s op s' I H x Hx) as [O|V].
  - left. apply owned_above_base; auto.
  - eapply vm_region_above_base; eauto.
Qed.

(* ------------------------------------------------------------------ the frame stack along a step *)
Inductive frames_change (s s' : vstate) : Prop :=
| FcSame : v_frames s' = v_frames s -> frames_change s s'
| FcPush f : v_frames s' = f :: v_frames s ->
             (forall k, k <> REG_CGAS -> k <> REG_GGAS -> f_regs f k = v_regs s k) -> frames_change s s'
| FcPop f a b : v_frames s = f :: v_frames s' ->
                ret_regs (v_regs s) (Some f) a b = Some (v_regs s') -> frames_change s s'.

Lemma step_frames s op s' : step s op = Some s' -> frames_change s s'.
Proof.
  intros H. destruct op; cbn [step] in H.
  - destruct (layout_regs_same _ _); [|discriminate]. injection H as <-. apply FcSame. reflexivity.
  - somes. subst s'. apply FcSame. reflexivity.
  - somes. subst s'. apply FcSame. reflexivity.
  - destruct (_ <=? _); [discriminate|]. somes. subst s'. apply FcSame. reflexivity.
  - destruct (_ <? _); [discriminate|]. somes. subst s'. apply FcSame. reflexivity.
  - somes. subst s'. apply FcSame. reflexivity.
  - destruct (try_update_sp _ _ _ _); [|discriminate]. somes. subst s'. apply FcSame. reflexivity.
  - destruct (checked_sub _ _); [|discriminate]. destruct (layout_regs_same _ _); [|discriminate].
    somes. subst s'. apply FcSame. reflexivity.
  - destruct (negb _); [discriminate|]. destruct (grow_stack _ _); [|discriminate].
    destruct (mem_write _ _ _ _); [|discriminate].
    destruct (v_frames s) as [|f rest] eqn:Fr.
    + injection H as <-. apply FcSame. cbn. auto.
    + destruct (mem_read _ _ _); [|discriminate]. destruct (checked_add _ _ _); [|discriminate].
      somes. subst s'. apply FcSame. cbn. auto.
  - destruct (_ <=? _); [|discriminate]. somes. subst s'. apply FcSame. reflexivity.
  - destruct (call_regs _ _ _ _ _ _) as [saved r'] eqn:CR.
    destruct (negb _); [discriminate|]. destruct (grow_stack _ _); [|discriminate]. somes. subst s'.
    eapply FcPush; [reflexivity|]. intros k K1 K2. cbn [f_regs].
    pose proof (call_regs_saved (v_regs s) (CF_SIZE + padded_len (lenN code)) amount gas_fwd cgas1 ggas1 k K1 K2) as E.
    rewrite CR in E. exact E.
  - unfold return_from in H. destruct (v_frames s) as [|f rest] eqn:Fr; somes; subst s'.
    + apply FcSame. cbn. auto.
    + eapply FcPop; [cbn; rewrite Fr; reflexivity | cbn; exact H].
  - destruct (mem_read _ _ _); [|discriminate].
    unfold return_from in H. destruct (v_frames s) as [|f rest] eqn:Fr; somes; subst s'.
    + apply FcSame. cbn. auto.
    + eapply FcPop; [cbn; rewrite Fr; reflexivity | cbn; exact H].
Qed.

(* ------------------------------------------------------------------ register restoration *)
Definition preserved_reg (k : N) : Prop :=
  k <> REG_CGAS /\ k <> REG_GGAS /\ k <> REG_RET /\ k <> REG_RETL /\ k <> REG_HP /\ k <> REG_PC.

Theorem ret_regs_restores r f a b r' :
  ret_regs r (Some f) a b = Some r' ->
  (forall k, preserved_reg k -> r' k = f_regs f k) /\
  r' REG_PC = inc_pc (f_regs f REG_PC) /\
  r' REG_HP = r REG_HP /\ r' REG_GGAS = r REG_GGAS /\ r' REG_RET = a /\ r' REG_RETL = b /\
  r' REG_CGAS = r REG_CGAS + f_regs f REG_CGAS.
Proof.
  unfold ret_regs. intros H. unfold checked_add in H.
  destruct (N.ltb_spec (upd (upd r REG_RET a) REG_RETL b REG_CGAS + f_regs f REG_CGAS) U64); [|discriminate].
  injection H as <-. rsimp. repeat split; try reflexivity.
  intros k (K1 & K2 & K3 & K4 & K5 & K6). rewrite !upd_other; auto.
Qed.

(* the callee's execution: from the state right after a CALL that pushed [f0], while the depth
   stays above the caller's *)
Definition agree_below (s s' : vstate) (hi : N) : Prop :=
  forall x, v_vm_hi s <= x < hi -> m_data (v_mem s') x = m_data (v_mem s) x.

Lemma run_above_callee frames0 f0 ops : forall s s2,
  Inv s -> (exists fs, v_frames s = fs ++ f0 :: frames0) ->
  run_above (length frames0) s ops = Some s2 ->
  Inv s2 /\ v_vm_hi s2 = v_vm_hi s /\ agree_below s s2 (f_regs f0 REG_SP) /\
  m_hp (v_mem s2) <= m_hp (v_mem s) /\
  ((exists fs, v_frames s2 = fs ++ f0 :: frames0) \/
   (v_frames s2 = frames0 /\ exists r a b, ret_regs r (Some f0) a b = Some (v_regs s2))).
Proof.
  induction ops as [|op rest IH]; intros s s2 I [fs Hf] H; cbn [run_above] in H.
  - injection H as <-. split; [exact I|]. split; [reflexivity|]. split; [intros x _; reflexivity|]. split; [lia|]. left; eauto.
  - destruct (Nat.ltb (length frames0) (depth s)); [|discriminate].
    destruct (step s op) as [s1|] eqn:St; [|discriminate].
    destruct (step_inv s op s1 I St) as [I1 Vm].
    assert (Ag : agree_below s s1 (f_regs f0 REG_SP)).
    { intros x Hx. destruct (N.eq_dec (m_data (v_mem s1) x) (m_data (v_mem s) x)) as [E|E]; [exact E|].
      exfalso. destruct (step_changes_above_base s op s1 x I St E) as [B|[B _]]; [|lia].
      assert (f_regs f0 REG_SP <= base s); [|lia].
      unfold base. rewrite Hf. destruct I as (_ & _ & _ & _ & _ & I6). rewrite Hf in I6.
      destruct fs as [|g fs']; cbn [app] in *.
      - cbn [frames_ok] in I6. destruct I6 as (-> & _). lia.
      - eapply (frames_ok_chain _ (g :: fs')). cbn [app]. exact I6. }
    assert (Hp : m_hp (v_mem s1) <= m_hp (v_mem s)).
    { destruct I as (_ & _ & _ & I4 & _ & I6). destruct I1 as (_ & _ & _ & I4' & _ & _).
      rewrite I4, I4'. clear IH H.
      destruct op; cbn [step] in St.
      - destruct (layout_regs_same _ _) eqn:L; [|discriminate]. injection St as <-.
        apply layout_same_eqs in L as (_ & _ & _ & E). cbn. lia.
      - somes. subst s1. cbn. lia.
      - somes. subst s1. cbn. lia.
      - destruct (_ <=? _); [discriminate|]. somes. subst s1. cbn. rsimp. lia.
      - destruct (_ <? _); [discriminate|]. somes. subst s1. cbn. rsimp. lia.
      - somes. subst s1. apply grow_heap_spec in St as (G1 & _). cbn [v_regs mk]. rsimp. lia.
      - destruct (try_update_sp _ _ _ _); [|discriminate]. somes. subst s1. cbn. rsimp. lia.
      - destruct (checked_sub _ _); [|discriminate]. destruct (layout_regs_same _ _) eqn:L; [|discriminate].
        somes. subst s1. apply layout_same_eqs in L as (_ & _ & _ & E). cbn. rsimp. lia.
      - destruct (negb _); [discriminate|]. destruct (grow_stack _ _); [|discriminate].
        destruct (mem_write _ _ _ _); [|discriminate].
        destruct (v_frames s) as [|f rest'].
        + injection St as <-. cbn. rsimp. lia.
        + destruct (mem_read _ _ _); [|discriminate]. destruct (checked_add _ _ _); [|discriminate].
          somes. subst s1. cbn. rsimp. lia.
      - destruct (_ <=? _); [|discriminate]. somes. subst s1. cbn. lia.
      - destruct (call_regs _ _ _ _ _ _) as [saved r'] eqn:CR.
        destruct (negb _); [discriminate|]. destruct (grow_stack _ _); [|discriminate]. somes. subst s1.
        pose proof (call_regs_layout (v_regs s) (CF_SIZE + padded_len (lenN code)) amount gas_fwd cgas1 ggas1) as L.
        rewrite CR in L. cbn [snd] in L. destruct L as (_ & _ & _ & L4). cbn [v_regs mk]. lia.
      - unfold return_from in St. destruct (v_frames s) as [|f rest']; somes; subst s1; cbn [v_regs mk].
        + unfold ret_regs in St. injection St as <-. rsimp. lia.
        + apply ret_regs_restores in St as (_ & _ & E & _). lia.
      - destruct (mem_read _ _ _); [|discriminate].
        unfold return_from in St. destruct (v_frames s) as [|f rest']; somes; subst s1; cbn [v_regs mk].
        + unfold ret_regs in St. injection St as <-. rsimp. lia.
        + apply ret_regs_restores in St as (_ & _ & E & _). lia. }
    assert (Comb : forall s2', Inv s2' /\ v_vm_hi s2' = v_vm_hi s1 /\ agree_below s1 s2' (f_regs f0 REG_SP) /\
                   m_hp (v_mem s2') <= m_hp (v_mem s1) /\
                   ((exists fs, v_frames s2' = fs ++ f0 :: frames0) \/
                    (v_frames s2' = frames0 /\ exists r a b, ret_regs r (Some f0) a b = Some (v_regs s2'))) ->
                   Inv s2' /\ v_vm_hi s2' = v_vm_hi s /\ agree_below s s2' (f_regs f0 REG_SP) /\
                   m_hp (v_mem s2') <= m_hp (v_mem s) /\
                   ((exists fs, v_frames s2' = fs ++ f0 :: frames0) \/
                    (v_frames s2' = frames0 /\ exists r a b, ret_regs r (Some f0) a b = Some (v_regs s2')))).
    { intros s2' (A & B & C & D & E). split; [exact A|]. split; [congruence|]. split; [|split; [lia|exact E]].
      intros x Hx. rewrite C by (rewrite Vm; exact Hx). apply Ag. exact Hx. }
    destruct (step_frames s op s1 St) as [Same | g Push _ | g a b Pop Rr].
    + apply Comb. apply IH; auto. exists fs. rewrite Same. exact Hf.
    + apply Comb. apply IH; auto. exists (g :: fs). rewrite Push, Hf. reflexivity.
    + rewrite Hf in Pop. destruct fs as [|h fs']; cbn [app] in Pop; injection Pop as <- Hr.
      * (* the matching return: depth is back to the caller's, nothing more runs above it *)
        destruct rest as [|op2 rest2]; cbn [run_above] in H.
        -- injection H as <-. split; [exact I1|]. split; [exact Vm|]. split; [exact Ag|]. split; [exact Hp|].
           right. split; [symmetry; exact Hr | eauto].
        -- unfold depth in H. rewrite <- Hr in H.
           destruct (Nat.ltb_spec (length frames0) (length frames0)); [lia|discriminate].
      * apply Comb. apply IH; auto. exists fs'. symmetry. exact Hr.
Qed.

(* ------------------------------------------------------------------ CALL and LDC: exact change regions *)
Lemma call_step_facts s to asset a b code amount gas_fwd cgas1 ggas1 s1 :
  Inv s -> step s (CCall to asset a b code amount gas_fwd cgas1 ggas1) = Some s1 ->
  let total := CF_SIZE + padded_len (lenN code) in
  let saved := fst (call_regs (v_regs s) total amount gas_fwd cgas1 ggas1) in
  let f := {| f_to := to; f_asset := asset; f_regs := saved; f_code_size_padded := padded_len (lenN code); f_a := a; f_b := b |} in
  v_regs s1 = snd (call_regs (v_regs s) total amount gas_fwd cgas1 ggas1) /\
  v_frames s1 = f :: v_frames s /\
  v_regs s1 REG_SP = v_regs s REG_SP + total /\
  m_hp (v_mem s1) = m_hp (v_mem s) /\
  (forall x, m_data (v_mem s1) x <> m_data (v_mem s) x -> v_regs s REG_SP <= x < v_regs s REG_SP + total) /\
  (forall x, v_regs s REG_SP <= x < v_regs s REG_SP + total ->
             m_data (v_mem s1) x = nth (N.to_nat (x - v_regs s REG_SP))
                                       (frame_bytes f ++ code ++ zeros (N.to_nat (padded_len (lenN code) - lenN code))) 0).
Proof.
  intros (I1 & I2 & I3 & I4 & I5 & I6) H. cbn zeta.
  assert (Hu : VM_MAX_RAM < U64 - 1) by (vm_compute; reflexivity).
  cbn [step] in H.
  destruct (call_regs _ _ _ _ _ _) as [saved r'] eqn:CR. cbn [fst snd].
  destruct (N.eqb_spec (lenN (frame_bytes
      {| f_to := to; f_asset := asset; f_regs := saved; f_code_size_padded := padded_len (lenN code); f_a := a; f_b := b |}
      ++ code ++ zeros (N.to_nat (padded_len (lenN code) - lenN code))))
      (CF_SIZE + padded_len (lenN code))) as [El|]; cbn [negb] in H; [|discriminate].
  destruct (grow_stack _ _) as [m1|] eqn:G; [|discriminate]. somes. subst s1.
  apply write_noownerchecks_ok in H as ->. cbn [v_regs v_frames v_mem mk with_data m_data m_hp].
  pose proof (call_regs_layout (v_regs s) (CF_SIZE + padded_len (lenN code)) amount gas_fwd cgas1 ggas1) as L.
  rewrite CR in L. cbn [snd] in L. destruct L as (L1 & L2 & L3 & L4).
  apply grow_stack_spec in G as (G1 & _ & G3 & _ & G5).
  assert (Hns : r' REG_SP = v_regs s REG_SP + (CF_SIZE + padded_len (lenN code))).
  { rewrite L1 in *. apply (sat_add_bounded _ _ VM_MAX_RAM); [exact G3 | exact Hu]. }
  split; [reflexivity|]. split; [reflexivity|]. split; [exact Hns|]. split; [exact G1|]. split.
  - intros x Hx. apply (changed_trans _ (m_data m1)) in Hx as [Hx|Hx].
    + apply set_range_changed in Hx. rewrite El, L3 in Hx. lia.
    + apply G5 in Hx. lia.
  - intros x Hx. unfold set_range. rewrite El, L3.
    destruct (N.leb_spec (v_regs s REG_SP) x); [|lia].
    destruct (N.ltb_spec x (v_regs s REG_SP + (CF_SIZE + padded_len (lenN code)))); [|lia].
    reflexivity.
Qed.

Theorem ldc_changes s code s' :
  Inv s -> step s (CLdc code) = Some s' ->
  v_regs s REG_SSP = v_regs s REG_SP /\
  (forall x, m_data (v_mem s') x <> m_data (v_mem s) x ->
     (v_regs s REG_SSP <= x < v_regs s REG_SSP + lenN code) \/
     (is_internal s = true /\ v_regs s REG_FP + CF_CODE_SIZE_OFFSET <= x < v_regs s REG_FP + CF_CODE_SIZE_OFFSET + 8)).
Proof.
  intros I H. split.
  - cbn [step] in H. destruct (N.eqb_spec (v_regs s REG_SSP) (v_regs s REG_SP)); [auto|discriminate].
  - intros x Hx. destruct (step_changes s (CLdc code) s' I H x Hx) as [O|V]; [|exact V].
    (* an owned byte cannot have changed: $ssp = $sp, and the heap is not written by LDC;
       redo the case analysis for the heap side *)
    exfalso. destruct I as (I1 & I2 & I3 & I4 & I5 & I6).
    cbn [step] in H.
    destruct (N.eqb_spec (v_regs s REG_SSP) (v_regs s REG_SP)) as [Es|]; cbn [negb] in H; [|discriminate].
    destruct O as [O|O]; unfold in_owned_stack, in_owned_heap, cur_owner, own_new in O; cbn in O; [lia|].
    destruct (grow_stack _ _) as [m1|] eqn:G; [|discriminate].
    destruct (mem_write m1 _ _ _) as [m2|] eqn:W; [|discriminate].
    pose proof G as G'. apply grow_stack_spec in G' as (_ & _ & G3 & _ & G5).
    assert (Hnb : saturating_add U64 (v_regs s REG_SSP) (lenN code) <= v_regs s REG_HP).
    { unfold grow_stack in G.
      destruct (N.ltb_spec VM_MAX_RAM (saturating_add U64 (v_regs s REG_SSP) (lenN code))); [discriminate|].
      destruct (N.ltb_spec (m_stack_len (v_mem s)) (saturating_add U64 (v_regs s REG_SSP) (lenN code))).
      - destruct (N.ltb_spec (m_hp (v_mem s)) (saturating_add U64 (v_regs s REG_SSP) (lenN code))); [discriminate|]. lia.
      - lia. }
    pose proof (stack_only_owner_writes_stack _ _ _ _ _ _ _ W) as SW.
    apply mem_write_check in W as [_ ->].
    assert (Core : forall y, set_range (m_data m1) (v_regs s REG_SSP) code y <> m_data (v_mem s) y -> y < v_regs s REG_HP).
    { intros y Hy. apply (changed_trans _ (m_data m1)) in Hy as [Hy|Hy].
      - specialize (SW y). cbn [m_data with_data] in SW. apply SW in Hy. lia.
      - apply G5 in Hy. lia. }
    destruct (v_frames s) as [|f rest] eqn:Fr.
    + injection H as <-. cbn [v_mem mk with_data m_data] in Hx. apply Core in Hx. lia.
    + destruct (mem_read _ _ _) as [old|]; [|discriminate].
      destruct (checked_add _ _ _) as [ns|]; [|discriminate]. somes. subst s'.
      apply write_noownerchecks_ok in H as ->. cbn [v_mem mk with_data m_data] in Hx.
      apply (changed_trans _ (set_range (m_data m1) (v_regs s REG_SSP) code)) in Hx as [Hx|Hx].
      * apply set_range_changed in Hx. rewrite lenN_word_bytes in Hx.
        cbn [frames_ok] in I6. destruct I6 as (F1 & F2 & _).
        rewrite sat_add_small in Hx.
        -- rewrite CF_CODE_val in Hx. rewrite CF_SIZE_val in F2. lia.
        -- rewrite CF_CODE_val, U64_val. rewrite CF_SIZE_val in F2. unfold VM_MAX_RAM in *. lia.
      * apply Core in Hx. lia.
Qed.

(* ------------------------------------------------------------------ runs *)
Theorem run_inv ops : forall s s', Inv s -> run s ops = Some s' -> Inv s' /\ v_vm_hi s' = v_vm_hi s.
Proof.
  induction ops as [|op rest IH]; intros s s' I H; cbn [run] in H.
  - injection H as <-. auto.
  - destruct (step s op) as [s1|] eqn:St; [|discriminate].
    destruct (step_inv s op s1 I St) as [I1 V1]. destruct (IH s1 s' I1 H) as [I2 V2].
    split; [exact I2 | congruence].
Qed.

(* every step of every run from a state satisfying the invariant is constrained *)
Theorem run_steps_constrained ops1 op s s1 s2 :
  Inv s -> run s ops1 = Some s1 -> step s1 op = Some s2 ->
  forall x, m_data (v_mem s2) x <> m_data (v_mem s1) x -> in_owned (cur_owner s1) x \/ vm_region s1 op x.
Proof.
  intros I R St. destruct (run_inv ops1 s s1 I R) as [I1 _]. exact (step_changes s1 op s2 I1 St).
Qed.

(* ------------------------------------------------------------------ C34: callee initial state *)
Theorem callee_init s to asset a b code amount gas_fwd cgas1 ggas1 s1 :
  Inv s -> step s (CCall to asset a b code amount gas_fwd cgas1 ggas1) = Some s1 ->
  let r := v_regs s in
  let r1 := v_regs s1 in
  let code_start := r REG_SP + CF_SIZE in
  r1 REG_FP = r REG_SP /\
  r1 REG_SSP = code_start + padded_len (lenN code) /\ r1 REG_SP = r1 REG_SSP /\
  r1 REG_PC = code_start /\ r1 REG_IS = code_start /\
  r1 REG_BAL = amount /\ r1 REG_FLAG = 0 /\
  r1 REG_CGAS = N.min cgas1 gas_fwd /\ r1 REG_GGAS = ggas1 /\
  (forall k, k <> REG_FP -> k <> REG_SSP -> k <> REG_SP -> k <> REG_PC -> k <> REG_IS -> k <> REG_BAL ->
             k <> REG_FLAG -> k <> REG_CGAS -> k <> REG_GGAS -> r1 k = r k) /\
  depth s1 = S (depth s).
Proof.
  intros I H. cbn zeta.
  destruct (call_step_facts _ _ _ _ _ _ _ _ _ _ _ I H) as (E & Fs & Sp & _).
  assert (Ss : v_regs s1 REG_SSP = v_regs s1 REG_SP).
  { rewrite E. unfold call_regs. cbn [snd]. rsimp. reflexivity. }
  split; [rewrite E; unfold call_regs; cbn [snd]; rsimp; reflexivity|].
  split; [rewrite Ss, Sp; lia|]. split; [symmetry; exact Ss|].
  rewrite E. unfold call_regs. cbn [snd]. rsimp.
  repeat split; try reflexivity.
  - intros k K1 K2 K3 K4 K5 K6 K7 K8 K9. rewrite !upd_other; auto.
  - unfold depth. rewrite Fs. reflexivity.
Qed.

(* the frame pointer chain, strong form: the current stack region starts after every enclosing
   frame and its code *)
Lemma frames_ok_chain_code vm fs : forall fp ssp hp f rest,
  frames_ok vm fp ssp hp (fs ++ f :: rest) -> f_regs f REG_SP + CF_SIZE + f_code_size_padded f <= ssp.
Proof.
  induction fs as [|g fs IH]; intros fp ssp hp f rest; cbn [app frames_ok].
  - intros (-> & H & _). exact H.
  - intros (-> & H1 & H2 & H3 & H4 & H5). pose proof (IH _ _ _ _ _ H5) as H6. lia.
Qed.

(* whatever the callee (or anything it calls) owns lies after the frame and the copied code *)
Theorem callee_owned_after_code s fs f0 frames0 x :
  Inv s -> v_frames s = fs ++ f0 :: frames0 -> in_owned (cur_owner s) x ->
  f_regs f0 REG_SP + CF_SIZE + f_code_size_padded f0 <= x.
Proof.
  intros (I1 & I2 & I3 & I4 & I5 & I6) Hf Ho. rewrite Hf in I6.
  apply frames_ok_chain_code in I6.
  destruct Ho as [Ho|Ho]; unfold in_owned_stack, in_owned_heap, cur_owner, own_new in Ho; cbn in Ho; lia.
Qed.

(* ------------------------------------------------------------------ C34: call ... return *)
Theorem call_return_preserves_caller s0 to asset a b code amount gas_fwd cgas1 ggas1 s1 ops s2 :
  Inv s0 ->
  step s0 (CCall to asset a b code amount gas_fwd cgas1 ggas1) = Some s1 ->
  run_above (depth s0) s1 ops = Some s2 ->
  depth s2 = depth s0 ->
  (forall k, preserved_reg k -> v_regs s2 k = v_regs s0 k) /\
  v_regs s2 REG_PC = inc_pc (v_regs s0 REG_PC) /\
  v_frames s2 = v_frames s0 /\
  (forall x, v_vm_hi s0 <= x < v_regs s0 REG_SP -> m_data (v_mem s2) x = m_data (v_mem s0) x) /\
  v_regs s2 REG_HP <= v_regs s0 REG_HP /\
  Inv s2.
Proof.
  intros I0 Hc Hr Hd.
  destruct (step_inv _ _ _ I0 Hc) as [I1 V1].
  destruct (call_step_facts _ _ _ _ _ _ _ _ _ _ _ I0 Hc) as (E & Fs & Sp & Hp & Ch & _).
  set (f0 := {| f_to := to; f_asset := asset;
                f_regs := fst (call_regs (v_regs s0) (CF_SIZE + padded_len (lenN code)) amount gas_fwd cgas1 ggas1);
                f_code_size_padded := padded_len (lenN code); f_a := a; f_b := b |}) in *.
  destruct (run_above_callee (v_frames s0) f0 ops s1 s2 I1) as (I2 & V2 & Ag & Hh & Fr).
  { exists []. exact Fs. }
  { exact Hr. }
  assert (Sv : forall k, k <> REG_CGAS -> k <> REG_GGAS -> f_regs f0 k = v_regs s0 k).
  { intros k K1 K2. unfold f0. cbn [f_regs]. apply call_regs_saved; auto. }
  destruct Fr as [[fs Hf] | [Hf (r & ra & rb & Rr)]].
  - exfalso. unfold depth in Hd. rewrite Hf, app_length in Hd. cbn [length] in Hd. lia.
  - apply ret_regs_restores in Rr as (R1 & R2 & _).
    split; [intros k Pk; rewrite (R1 k Pk); destruct Pk as (K1 & K2 & _); apply Sv; auto|].
    split; [rewrite R2, Sv by (vm_compute; discriminate); reflexivity|].
    split; [exact Hf|].
    split.
    + intros x Hx. rewrite Ag.
      * destruct (N.eq_dec (m_data (v_mem s1) x) (m_data (v_mem s0) x)) as [Eq|Ne]; [exact Eq|].
        apply Ch in Ne. lia.
      * rewrite V1. rewrite Sv by (vm_compute; discriminate). exact Hx.
    + split; [|exact I2].
      destruct I2 as (_ & _ & _ & J4 & _). destruct I0 as (_ & _ & _ & K4 & _). lia.
Qed.

(* two readings of the theorem above, stated separately *)
Theorem call_return_stack_unchanged s0 to asset a b code amount gas_fwd cgas1 ggas1 s1 ops s2 :
  Inv s0 ->
  step s0 (CCall to asset a b code amount gas_fwd cgas1 ggas1) = Some s1 ->
  run_above (depth s0) s1 ops = Some s2 ->
  depth s2 = depth s0 ->
  forall x, v_vm_hi s0 <= x < v_regs s0 REG_SP -> m_data (v_mem s2) x = m_data (v_mem s0) x.
Proof.
  intros I H R D. exact (proj1 (proj2 (proj2 (proj2 (call_return_preserves_caller _ _ _ _ _ _ _ _ _ _ _ _ _ I H R D))))).
Qed.

Theorem call_return_depth s0 to asset a b code amount gas_fwd cgas1 ggas1 s1 ops s2 :
  Inv s0 ->
  step s0 (CCall to asset a b code amount gas_fwd cgas1 ggas1) = Some s1 ->
  run_above (depth s0) s1 ops = Some s2 ->
  depth s1 = S (depth s0) /\
  (* while the callee runs the depth stays above the caller's; it is back exactly when the
     frame pushed by this CALL has been popped, and then the whole frame stack is the caller's *)
  (depth s2 = depth s0 -> v_frames s2 = v_frames s0) /\
  (depth s0 <= depth s2)%nat.
Proof.
  intros I H R.
  destruct (step_inv _ _ _ I H) as [I1 _].
  destruct (call_step_facts _ _ _ _ _ _ _ _ _ _ _ I H) as (_ & Fs & _).
  split; [unfold depth; rewrite Fs; reflexivity|].
  split.
  - intros D. exact (proj1 (proj2 (proj2 (call_return_preserves_caller _ _ _ _ _ _ _ _ _ _ _ _ _ I H R D)))).
  - match type of Fs with v_frames s1 = ?f0 :: _ =>
      destruct (run_above_callee (v_frames s0) f0 ops s1 s2 I1 (ex_intro _ [] Fs) R) as (_ & _ & _ & _ & Fr) end.
    unfold depth. destruct Fr as [[fs Hf] | [Hf _]].
    + rewrite Hf, app_length. cbn [length]. lia.
    + rewrite Hf. lia.
Qed.

(* heap memory the callee allocated stays accessible to the caller: after the return $hp is
   the callee's last $hp, every range at or above it (inside the address space) can be read,
   and the part below the caller's old $hp is even owned by the caller *)
Theorem heap_readable_after_return s a n :
  Inv s -> v_regs s REG_HP <= a -> a + n <= MEM_SIZE -> verify (v_mem s) a n = Ok (a, a + n).
Proof.
  intros (_ & _ & _ & I4 & _) Ha Hn. apply verify_ok_iff. repeat split; auto. right. lia.
Qed.

Theorem callee_heap_owned_by_caller s0 s2 a n :
  Inv s0 -> Inv s2 -> v_frames s2 = v_frames s0 -> v_regs s2 REG_HP <= v_regs s0 REG_HP ->
  0 < n -> v_regs s2 REG_HP <= a -> a + n <= v_regs s0 REG_HP ->
  has_ownership_range (cur_owner s2) a (a + n) = true.
Proof.
  intros (_ & _ & _ & _ & K5 & K6) (_ & _ & _ & _ & _ & _) Hf Hh Hn Ha He.
  apply ownership_nonempty; [lia|]. right. unfold cur_owner, own_new. cbn [o_hp o_prev_hp]. rewrite Hf.
  destruct (v_frames s0) as [|f rest]; cbn [frames_ok] in K6.
  - lia.
  - destruct K6 as (_ & _ & K & _). lia.
Qed.

(* ------------------------------------------------------------------ frame serialization *)
Lemma frame_bytes_length f :
  length (f_to f) = 32%nat -> length (f_asset f) = 32%nat -> lenN (frame_bytes f) = CF_SIZE.
Proof.
  intros H1 H2. unfold frame_bytes. rewrite !lenN_app, lenN_flat_words, !lenN_word_bytes.
  unfold lenN. rewrite H1, H2. reflexivity.
Qed.

Lemma padded_len_ge n : n <= padded_len n /\ padded_len n < n + 8 /\ padded_len n mod 8 = 0.
Proof.
  unfold padded_len. change WORD_SIZE with 8.
  pose proof (N.mod_upper_bound n 8 ltac:(lia)) as Hm.
  pose proof (N.div_mod n 8 ltac:(lia)) as Hd.
  destruct (N.eqb_spec (n mod 8) 0) as [E|E].
  - split; [lia|]. split; [lia|exact E].
  - assert (Hr : n + (8 - n mod 8) = (n / 8 + 1) * 8).
    { remember (n mod 8) as r. remember (n / 8) as q. clear Heqr Heqq. lia. }
    split; [|split].
    + remember (n mod 8) as r. clear Heqr Hr Hd. lia.
    + remember (n mod 8) as r. clear Heqr Hr Hd. lia.
    + rewrite Hr. apply N.mod_mul. lia.
Qed.

Theorem call_payload_length f code :
  length (f_to f) = 32%nat -> length (f_asset f) = 32%nat ->
  lenN (frame_bytes f ++ code ++ zeros (N.to_nat (padded_len (lenN code) - lenN code))) = CF_SIZE + padded_len (lenN code).
Proof.
  intros H1 H2. rewrite !lenN_app, (frame_bytes_length f H1 H2).
  assert (Z : lenN (zeros (N.to_nat (padded_len (lenN code) - lenN code))) = padded_len (lenN code) - lenN code).
  { unfold zeros, lenN. rewrite repeat_length, N2Nat.id. reflexivity. }
  rewrite Z. pose proof (padded_len_ge (lenN code)). lia.
Qed.

(* ------------------------------------------------------------------ non-vacuity *)
Definition ex_regs : regs :=
  fun i => if i =? REG_ONE then 1 else if i =? REG_PC then 10376 else if i =? REG_SSP then 11000
           else if i =? REG_SP then 11064 else if i =? REG_HP then VM_MAX_RAM else if i =? REG_GGAS then 100000
           else if i =? REG_CGAS then 100000 else if i =? REG_IS then 10368 else if i =? 20 then 777 else 0.
Definition ex_state : vstate :=
  {| v_regs := ex_regs; v_frames := [];
     v_mem := {| m_data := fun x => x mod 251; m_stack_len := 11064; m_hp := VM_MAX_RAM |}; v_vm_hi := 11000 |}.
Example ex_state_inv : Inv ex_state.
Proof. unfold Inv; cbn; repeat split; try reflexivity; vm_compute; discriminate. Qed.

Definition ex_id (b : N) : bytes := repeat b 32.
Definition ex_call : cop := CCall (ex_id 7) (ex_id 9) 5 6 [1; 2; 3; 4; 5; 6; 7; 8; 9; 10] 3 50000 99000 99000.
(* the callee extends its stack, writes it, allocates, writes its heap, calls again, the inner
   callee returns data, then the callee returns *)
Definition ex_callee_ops : list cop :=
  [CCfe 64; CWrite 11700 [42; 43]; CAloc 16; CWrite 67108850 [1; 2; 3];
   CCall (ex_id 8) (ex_id 9) 1 2 [0; 0; 0; 0] 0 1000 40000 98000; CCfe 8; CWrite 12352 [5]; CRetd 12352 1;
   CHavoc (fun i => if i =? 20 then 123456 else if i =? REG_OF then 1 else
                    (* layout registers as they are at that point *)
                    if i =? REG_SSP then 11680 else if i =? REG_SP then 11744 else if i =? REG_FP then 11064
                    else if i =? REG_HP then 67108848 else 0);
   CRet 1].

Definition ex_after : option vstate :=
  match step ex_state ex_call with Some s1 => run_above 0 s1 ex_callee_ops | None => None end.

Example ex_call_return :
  match ex_after with
  | Some s2 =>
      (Nat.eqb (depth s2) 0) && (v_regs s2 20 =? 777) && (v_regs s2 REG_PC =? 10380) &&
      (v_regs s2 REG_SP =? 11064) && (v_regs s2 REG_SSP =? 11000) && (v_regs s2 REG_FP =? 0) &&
      (v_regs s2 REG_HP =? 67108848) && (v_regs s2 REG_RET =? 1) && (v_regs s2 REG_OF =? 0) &&
      (m_data (v_mem s2) 11010 =? 11010 mod 251) && (m_data (v_mem s2) 67108851 =? 2)
  | None => false
  end = true.
Proof. vm_compute. reflexivity. Qed.

(* hostile callee: tries to overwrite the caller's stack / the saved frame / the transaction *)
Example ex_hostile_refused :
  match step ex_state ex_call with
  | Some s1 =>
      match step s1 (CWrite 11010 [0]), step s1 (CWrite 11100 [0]), step s1 (CWrite 500 [0]),
            step s1 (CWrite 67108860 [0]), step s1 (CWrite 20000 [0]) with
      | None, None, None, None, None => true
      | _, _, _, _, _ => false
      end
  | None => false
  end = true.
Proof. vm_compute. reflexivity. Qed.
