(* Vm/KvQuads.v — the two looping handlers with memory traffic, SRWQ and SWWQ, against their
   declarative specifications (KvSpec.spec_read_quads / spec_write_quads): proofs of
   KvInstr.srwq_statement and KvInstr.swwq_statement. *)
From Coq Require Import PeanoNat.
From FV Require Import Base.Bytes Vm.KvSpec Vm.KvModel Vm.KvProofs Vm.KvInstr.
Open Scope N_scope.

Lemma filter_key_seq_ge n : forall k, KEY_LIMIT <= k -> filter (fun k' => k' <? KEY_LIMIT) (key_seq n k) = [].
Proof.
  induction n as [|n IH]; intros k H; [reflexivity|]. cbn [key_seq filter].
  destruct (N.ltb_spec k KEY_LIMIT); [lia|]. apply IH. lia.
Qed.
Lemma key_seq_map n : forall k, key_seq n k = map (fun j => k + N.of_nat j) (seq 0 n).
Proof.
  induction n as [|n IH]; intros k; [reflexivity|]. cbn [key_seq seq map]. f_equal; [change (N.of_nat 0) with 0; lia|].
  rewrite IH, <- seq_shift, map_map. apply map_ext. intros j. rewrite Nat2N.inj_succ. lia.
Qed.
Lemma valid_step key i n :
  key + i < KEY_LIMIT ->
  (Nat.eqb n 0 || (key + (i + 1) + N.of_nat n - 1 <? KEY_LIMIT)) = (key + i + N.of_nat (S n) - 1 <? KEY_LIMIT).
Proof.
  intros H. rewrite Nat2N.inj_succ. destruct n as [|n'].
  - cbn [Nat.eqb orb]. change (N.of_nat 0) with 0. symmetry. apply N.ltb_lt. lia.
  - cbn [Nat.eqb orb]. f_equal. lia.
Qed.

Section Quads.
  Context (e : henv) (m : kvmap) (c : N).
  Let max := h_max_len e.

  (* ---------------- SRWQ ---------------- *)
  Definition mem_of (key start i : N) (n : nat) : list (N * bytes) :=
    map (fun j => (sat64 (start + 32 * (i + N.of_nat j)), slot32_data (m c (key + i + N.of_nat j)))) (seq 0 n).

  Lemma mem_of_succ key start i n :
    mem_of key start i (S n) = (sat64 (start + 32 * i), slot32_data (m c (key + i))) :: mem_of key start (i + 1) n.
  Proof.
    unfold mem_of. cbn [seq map]. change (N.of_nat 0) with 0. rewrite !N.add_0_r. f_equal.
    rewrite <- seq_shift, map_map. apply map_ext. intros j. rewrite Nat2N.inj_succ.
    f_equal; [f_equal; lia | f_equal; f_equal; lia].
  Qed.

  Lemma srwq_loop_plain {A} key start (k : bool -> list (N * bytes) -> kprog A) n : forall i allset acc,
    (forall j, (j < n)%nat -> h_wr e (sat64 (start + 32 * (i + N.of_nat j))) 32 = None) ->
    run_plain max (srwq_loop e n c key start i allset acc k) m =
      if negb (forallb (fun k' => slot32_ok (m c k')) (filter (fun k' => k' <? KEY_LIMIT) (key_seq n (key + i))))
      then (SPanic KR_StorageOutOfBounds, m, [])
      else if negb (Nat.eqb n 0 || (key + i + N.of_nat n - 1 <? KEY_LIMIT)) then (SPanic KR_TooManySlots, m, [])
      else run_plain max (k (allset && forallb (fun k' => is_some (m c k')) (key_seq n (key + i))) (rev acc ++ mem_of key start i n)) m.
  Proof.
    induction n as [|n IH]; intros i allset acc Hw.
    - cbn [srwq_loop key_seq filter forallb negb Nat.eqb orb]. unfold mem_of. cbn [seq map]. rewrite andb_true_r, app_nil_r. reflexivity.
    - cbn [srwq_loop]. unfold key_add.
      destruct (N.ltb_spec (key + i) KEY_LIMIT) as [Hlt|Hge].
      + cbn [run_plain].
        assert (H0 : h_wr e (sat64 (start + 32 * i)) 32 = None).
        { specialize (Hw O ltac:(lia)). change (N.of_nat 0) with 0 in Hw. rewrite N.add_0_r in Hw. exact Hw. }
        rewrite H0.
        assert (Hw' : forall j, (j < n)%nat -> h_wr e (sat64 (start + 32 * (i + 1 + N.of_nat j))) 32 = None).
        { intros j Hj. specialize (Hw (S j) ltac:(lia)). rewrite Nat2N.inj_succ in Hw. replace (i + 1 + N.of_nat j) with (i + N.succ (N.of_nat j)) by lia. exact Hw. }
        cbn [key_seq filter]. destruct (N.ltb_spec (key + i) KEY_LIMIT); [|lia]. cbn [forallb].
        cbn [Nat.eqb orb]. rewrite <- (valid_step key i n Hlt). rewrite mem_of_succ.
        destruct (m c (key + i)) as [bs|] eqn:Em.
        * cbn [slot32_ok is_some slot32_data]. destruct (lenN bs =? 32) eqn:E32.
          -- rewrite (IH (i + 1) allset ((sat64 (start + 32 * i), bs) :: acc) Hw').
             replace (key + (i + 1)) with (key + i + 1) by lia. cbn [andb rev]. rewrite <- app_assoc. reflexivity.
          -- reflexivity.
        * cbn [slot32_ok is_some slot32_data].
          rewrite (IH (i + 1) false ((sat64 (start + 32 * i), zeros 32) :: acc) Hw').
          replace (key + (i + 1)) with (key + i + 1) by lia. cbn [andb rev]. rewrite andb_false_r, <- app_assoc. reflexivity.
      + cbn [run_plain]. rewrite (filter_key_seq_ge (S n) (key + i) Hge). cbn [forallb negb Nat.eqb orb].
        rewrite Nat2N.inj_succ. destruct (N.ltb_spec (key + i + N.succ (N.of_nat n) - 1) KEY_LIMIT); [lia|reflexivity].
  Qed.

  Hypothesis Hctx : h_ctx e = Some c.

  Theorem srwq_plain b va vc vd kb :
    h_rd e vc 32 = MOk kb -> REG_WRITABLE <= b ->
    (forall a, In a (srwq_addrs va (N.to_nat vd)) -> h_wr e a 32 = None) ->
    match spec_read_quads m c (be_decode kb) vd with
    | SPanic r => run_plain max (h_srwq e b va vc vd) m = (SPanic r, m, [])
    | SOk (data, f) =>
        exists mem, run_plain max (h_srwq e b va vc vd) m = (SOk {| o_regs := [(b, f)]; o_err := None; o_mem := mem |}, m, [])
                    /\ concat (map snd mem) = data /\ map fst mem = srwq_addrs va (N.to_nat vd)
    end.
  Proof.
    intros Hk Hb Hw. unfold spec_read_quads, h_srwq, with_key, with_ctx, to_usize. rewrite Hk.
    destruct (U32_MAX <? vd); [reflexivity|]. rewrite Hctx.
    set (key := be_decode kb). set (n := N.to_nat vd).
    assert (Hw' : forall j, (j < n)%nat -> h_wr e (sat64 (va + 32 * (0 + N.of_nat j))) 32 = None).
    { intros j Hj. apply Hw. unfold srwq_addrs. apply in_map_iff. exists j. split; [f_equal; lia | apply in_seq; lia]. }
    rewrite (srwq_loop_plain key va _ n 0 true [] Hw'). rewrite N.add_0_r.
    unfold range_keys. fold n.
    destruct (negb (forallb (fun k' => slot32_ok (m c k')) (filter (fun k' => k' <? KEY_LIMIT) (key_seq n key)))); [reflexivity|].
    rewrite (range_ok_alt key vd). fold n. rewrite !N.add_0_r.
    destruct (Nat.eqb n 0 || (key + N.of_nat n - 1 <? KEY_LIMIT)) eqn:Hr; cbn [negb]; [|reflexivity].
    assert (Hks : filter (fun k' => k' <? KEY_LIMIT) (key_seq n key) = key_seq n key).
    { apply key_seq_all_valid. destruct (Nat.eqb_spec n 0); [left; assumption|]. right. cbn [orb] in Hr. apply N.ltb_lt in Hr. lia. }
    rewrite Hks. unfold wreg_legacy. destruct (N.ltb_spec b REG_WRITABLE); [lia|]. cbn [run_plain rev app andb].
    eexists. split; [reflexivity|]. split.
    - f_equal. unfold mem_of. rewrite map_map. cbn [snd]. rewrite key_seq_map, map_map. apply map_ext. intros j. rewrite N.add_0_r. reflexivity.
    - unfold mem_of, srwq_addrs. rewrite map_map. cbn [fst]. apply map_ext. intros j. rewrite N.add_0_l. reflexivity.
  Qed.

  (* ---------------- SWWQ ---------------- *)
  Lemma count_absent_cons mm k ks :
    count_absent mm c (k :: ks) = (if is_some (mm c k) then 0 else 1) + count_absent mm c ks.
  Proof.
    unfold count_absent. cbn [filter]. destruct (is_some (mm c k)); cbn [negb]; unfold lenN; cbn [length]; lia.
  Qed.
  Lemma key_seq_gt n : forall k k', In k' (key_seq n k) -> k <= k'.
  Proof.
    induction n as [|n IH]; intros k k' H; [destruct H|]. cbn [key_seq] in H. destruct H as [<-|H]; [lia|]. apply IH in H. lia.
  Qed.
  Lemma count_absent_set mm k v ks :
    (forall k', In k' ks -> k < k') -> count_absent (kv_set mm c k v) c ks = count_absent mm c ks.
  Proof.
    intros H. unfold count_absent. f_equal. apply filter_ext_in. intros k' Hin. unfold kv_set.
    rewrite N.eqb_refl. cbn [andb]. destruct (N.eqb_spec k' k) as [->|]; [specialize (H k Hin); lia | reflexivity].
  Qed.

  (* all keys valid: every chunk is written, the count of absent slots is that of the map before *)
  Lemma swwq_loop_valid {A} key start (k : N -> kprog A) : forall chunks i unset mm,
    32 <= max ->
    (forall j, (j < length chunks)%nat -> h_rd e (sat64 (start + 32 * (i + N.of_nat j))) 32 = MOk (nth j chunks [])) ->
    (forall ch, In ch chunks -> lenN ch = 32) ->
    (chunks = [] \/ key + i + lenN chunks - 1 < KEY_LIMIT) ->
    run_plain max (swwq_loop e (length chunks) c key start i unset k) mm =
      let '(r, m', w) := run_plain max (k (unset + count_absent mm c (key_seq (length chunks) (key + i)))) (kv_set_chunks mm c (key + i) chunks) in
      (r, m', chunk_writes c (key + i) chunks ++ w).
  Proof.
    induction chunks as [|ch chunks IH]; intros i unset mm Hmax Hrd Hlen Hval.
    - cbn [length swwq_loop key_seq kv_set_chunks chunk_writes app]. unfold count_absent. cbn [filter]. unfold lenN at 1. cbn [length].
      rewrite N.add_0_r. destruct (run_plain max (k unset) mm) as [[r m'] w]. reflexivity.
    - cbn [length swwq_loop]. unfold key_add.
      destruct Hval as [Hval|Hval]; [discriminate|]. unfold lenN in Hval. cbn [length] in Hval. rewrite Nat2N.inj_succ in Hval.
      destruct (N.ltb_spec (key + i) KEY_LIMIT) as [Hlt|]; [|lia].
      cbn [run_plain].
      assert (H0 : h_rd e (sat64 (start + 32 * i)) 32 = MOk ch).
      { specialize (Hrd O ltac:(cbn [length]; lia)). change (N.of_nat 0) with 0 in Hrd. rewrite N.add_0_r in Hrd. exact Hrd. }
      rewrite H0. cbn [run_plain].
      assert (Hch : lenN ch = 32) by (apply Hlen; left; reflexivity).
      rewrite Hch. destruct (N.ltb_spec max 32); [lia|].
      assert (Hrd' : forall j, (j < length chunks)%nat -> h_rd e (sat64 (start + 32 * (i + 1 + N.of_nat j))) 32 = MOk (nth j chunks [])).
      { intros j Hj. specialize (Hrd (S j) ltac:(cbn [length]; lia)). rewrite Nat2N.inj_succ in Hrd. cbn [nth] in Hrd.
        replace (i + 1 + N.of_nat j) with (i + N.succ (N.of_nat j)) by lia. exact Hrd. }
      assert (Hlen' : forall ch', In ch' chunks -> lenN ch' = 32) by (intros ch' H'; apply Hlen; right; exact H').
      assert (Hval' : chunks = [] \/ key + (i + 1) + lenN chunks - 1 < KEY_LIMIT).
      { destruct chunks; [left; reflexivity|right]. unfold lenN in *. cbn [length] in *. rewrite Nat2N.inj_succ in *. lia. }
      rewrite (IH (i + 1) (if is_some (mm c (key + i)) then unset else unset + 1) (kv_set mm c (key + i) ch) Hmax Hrd' Hlen' Hval').
      replace (key + (i + 1)) with (key + i + 1) by lia.
      cbn [key_seq kv_set_chunks chunk_writes]. rewrite count_absent_cons.
      rewrite count_absent_set by (intros k' Hin; apply key_seq_gt in Hin; lia).
      replace ((if is_some (mm c (key + i)) then unset else unset + 1) + count_absent mm c (key_seq (length chunks) (key + i + 1)))
        with (unset + ((if is_some (mm c (key + i)) then 0 else 1) + count_absent mm c (key_seq (length chunks) (key + i + 1))))
        by (destruct (is_some (mm c (key + i))); lia).
      destruct (run_plain max (k (unset + ((if is_some (mm c (key + i)) then 0 else 1) + count_absent mm c (key_seq (length chunks) (key + i + 1)))))
                  (kv_set_chunks (kv_set mm c (key + i) ch) c (key + i + 1) chunks)) as [[r m'] w].
      reflexivity.
  Qed.

  (* some key of the range leaves the key space: TooManySlots (after the valid prefix has been written) *)
  Lemma swwq_loop_overflow {A} key start (k : N -> kprog A) : forall n i unset mm,
    32 <= max -> (n <> O) -> KEY_LIMIT <= key + i + N.of_nat n - 1 ->
    (forall j, (j < n)%nat -> exists ch, h_rd e (sat64 (start + 32 * (i + N.of_nat j))) 32 = MOk ch /\ lenN ch = 32) ->
    fst (fst (run_plain max (swwq_loop e n c key start i unset k) mm)) = SPanic KR_TooManySlots.
  Proof.
    induction n as [|n IH]; intros i unset mm Hmax Hn Hov Hrd; [congruence|].
    cbn [swwq_loop]. unfold key_add. destruct (N.ltb_spec (key + i) KEY_LIMIT) as [Hlt|]; [|reflexivity].
    cbn [run_plain]. destruct (Hrd O ltac:(lia)) as (ch & H0 & Hch). change (N.of_nat 0) with 0 in H0. rewrite N.add_0_r in H0.
    rewrite H0. cbn [run_plain]. rewrite Hch. destruct (N.ltb_spec max 32); [lia|].
    rewrite Nat2N.inj_succ in Hov.
    assert (Hn' : n <> O) by (intros ->; change (N.of_nat 0) with 0 in Hov; lia).
    assert (Hrd' : forall j, (j < n)%nat -> exists ch', h_rd e (sat64 (start + 32 * (i + 1 + N.of_nat j))) 32 = MOk ch' /\ lenN ch' = 32).
    { intros j Hj. destruct (Hrd (S j) ltac:(lia)) as (ch' & H' & L'). rewrite Nat2N.inj_succ in H'. exists ch'.
      replace (i + 1 + N.of_nat j) with (i + N.succ (N.of_nat j)) by lia. auto. }
    specialize (IH (i + 1) (if is_some (mm c (key + i)) then unset else unset + 1) (kv_set mm c (key + i) ch) Hmax Hn' ltac:(lia) Hrd').
    destruct (run_plain max (swwq_loop e n c key start (i + 1) (if is_some (mm c (key + i)) then unset else unset + 1) k) (kv_set mm c (key + i) ch)) as [[r m'] w].
    cbn [fst] in *. exact IH.
  Qed.

  Theorem swwq_plain b va vc vd kb chunks :
    h_rd e va 32 = MOk kb -> be_decode kb < KEY_LIMIT -> REG_WRITABLE <= b -> lenN chunks = vd ->
    (forall j, (j < length chunks)%nat -> h_rd e (sat64 (vc + 32 * N.of_nat j)) 32 = MOk (nth j chunks [])) ->
    (forall ch, In ch chunks -> lenN ch = 32) ->
    match spec_write_quads m c (be_decode kb) chunks max with
    | SPanic r => fst (fst (run_plain max (h_swwq e b va vc vd) m)) = SPanic r
    | SOk (m', f) =>
        exists m2, run_plain max (h_swwq e b va vc vd) m = (SOk (out_regs [(b, f)]), m2, chunk_writes c (be_decode kb) chunks) /\ kv_eq m2 m'
    end.
  Proof.
    intros Hk Hkey Hb Hn Hrd Hlen. unfold spec_write_quads, h_swwq, with_key, with_ctx, to_usize. cbv zeta. rewrite Hk. unfold bytes in *. rewrite !Hn.
    destruct (U32_MAX <? vd); [reflexivity|]. rewrite Hctx.
    set (key := be_decode kb).
    assert (Hnat : N.to_nat vd = length chunks) by (rewrite <- Hn; unfold lenN; apply Nat2N.id).
    rewrite Hnat.
    assert (Hrd0 : forall j, (j < length chunks)%nat -> h_rd e (sat64 (vc + 32 * (0 + N.of_nat j))) 32 = MOk (nth j chunks [])).
    { intros j Hj. rewrite N.add_0_l. apply Hrd; exact Hj. }
    destruct (N.ltb_spec 0 vd) as [Hpos|Hzero]; cbn [andb].
    - destruct (N.ltb_spec max 32) as [Hsmall|Hbig].
      + (* the first write is refused *)
        destruct chunks as [|ch chunks]; [unfold lenN in Hn; cbn [length] in Hn; lia|].
        cbn [length swwq_loop]. unfold key_add.
        destruct (N.ltb_spec (key + 0) KEY_LIMIT) as [_|Hge]; [|subst key; lia].
        cbn [run_plain]. pose proof (Hrd O ltac:(cbn [length]; lia)) as H0. change (N.of_nat 0) with 0 in H0. cbn [nth] in H0.
        rewrite H0. cbn [run_plain]. rewrite (Hlen ch (or_introl eq_refl)). destruct (N.ltb_spec max 32); [reflexivity|lia].
      + destruct (range_ok key vd) eqn:Hr; cbn [negb].
        * assert (Hval : chunks = [] \/ key + 0 + lenN chunks - 1 < KEY_LIMIT).
          { right. unfold range_ok in Hr. destruct (N.eqb_spec vd 0); [lia|]. cbn [orb] in Hr. apply N.ltb_lt in Hr. rewrite Hn. lia. }
          rewrite (swwq_loop_valid key vc _ chunks 0 0 m Hbig Hrd0 Hlen Hval). rewrite N.add_0_r, N.add_0_l.
          unfold wreg_legacy. destruct (N.ltb_spec b REG_WRITABLE); [lia|]. cbn [run_plain].
          eexists. split; [rewrite app_nil_r; f_equal; f_equal|intros ? ?; reflexivity].
          rewrite (range_keys_ok key vd Hr), Hnat. reflexivity.
        * apply swwq_loop_overflow; try assumption.
          -- intros E. rewrite E in Hnat. lia.
          -- unfold range_ok in Hr. destruct (N.eqb_spec vd 0); [lia|]. cbn [orb] in Hr. apply N.ltb_ge in Hr.
             rewrite <- Hnat, N2Nat.id. lia.
          -- intros j Hj. exists (nth j chunks []). split; [apply Hrd0; exact Hj | apply Hlen, nth_In; exact Hj].
    - assert (vd = 0) by lia. subst vd. destruct chunks; [|unfold lenN in H; cbn [length] in H; lia].
      cbn [length swwq_loop]. unfold range_ok. cbn [N.eqb orb negb].
      unfold wreg_legacy. destruct (N.ltb_spec b REG_WRITABLE); [lia|]. cbn [run_plain kv_set_chunks chunk_writes].
      eexists. split; [reflexivity | intros ? ?; reflexivity].
  Qed.
End Quads.

Theorem srwq_statement_holds : srwq_statement.
Proof. intros e m c b va vc vd kb Hc Hk Hb Hw. exact (srwq_plain e m c Hc b va vc vd kb Hk Hb Hw). Qed.
Theorem swwq_statement_holds : swwq_statement.
Proof. intros e m c b va vc vd kb chunks Hc Hk Hkey Hb Hn Hrd Hlen. exact (swwq_plain e m c Hc b va vc vd kb chunks Hk Hkey Hb Hn Hrd Hlen). Qed.

(* the hypotheses are satisfiable: two chunks written at 2^256-2 (the last two keys), read back *)
Definition quads_env : henv :=
  {| h_ctx := Some 7; h_max_len := 64;
     h_rd := fun a l => if a =? 100 then MOk (repeat 255 31 ++ [254]) else if a =? 200 then MOk (repeat 1 32) else if a =? 232 then MOk (repeat 2 32) else MFault 4;
     h_wr := fun a l => if (a =? 300) || (a =? 332) then None else Some 7 |}.
Example quads_roundtrip :
  let '(r, m1, w) := run_plain 64 (h_swwq quads_env 17 100 200 2) kv_empty in
  r = SOk (out_regs [(17, 2)]) /\
  fst (fst (run_plain 64 (h_srwq quads_env 17 300 100 2) m1)) =
    SOk {| o_regs := [(17, 1)]; o_err := None; o_mem := [(300, repeat 1 32); (332, repeat 2 32)] |} /\
  fst (fst (run_plain 64 (h_srwq quads_env 17 300 100 3) m1)) = SPanic KR_TooManySlots.
Proof. vm_compute. repeat split; reflexivity. Qed.
