(* Vm/AssetModel.v — L1 abstract machine of the asset mechanism of fuel-vm (C27), function by
   function (definitions only):

     initial_free_balances, add_up_input_balances, deduct_max_fee_from_base_asset,
       reduce_free_balances_by_coin_outputs      (checked_transaction/balances.rs)
     RuntimeBalances::{try_from(InitialBalances), try_from_iter, checked_balance_sub,
       set_memory_balance_inner, to_vm}          (interpreter/balances.rs)
     balance, balance_increase, balance_decrease, TransferCtx::{transfer, transfer_output}
                                                 (interpreter/contract.rs)
     external_asset_id_balance_sub, set_variable_output     (interpreter/internal.rs)
     replace_variable_output, update_outputs     (interpreter.rs)
     coin forwarding of PrepareCallCtx::prepare_call        (interpreter/flow.rs)
     MintCtx::mint, BurnCtx::burn, MessageOutputCtx::message_output   (interpreter/blockchain.rs)
     Output::prepare_sign (as done by init_inner)           (fuel-tx output.rs)
     MemoryClient::transact commit / revert of the balances table   (memory_client.rs)

   Not modelled (they are the business of other properties and enter the trace validation as
   environment panics): gas charging, memory reads of the operands, receipt-list capacity,
   call-frame construction.  Identifiers (asset ids, contract ids, addresses, sub ids) are the
   32-byte values read as big-endian numbers.  u64 arithmetic uses checked_add/checked_sub of
   Base/U64.v exactly where the Rust code does. *)
From FV Require Import Base.Bytes Base.U64 Gen.AssetTable.
Open Scope N_scope.

Notation asset := N (only parsing).
Notation cid := N (only parsing).

(* ------------------------------------------------------------------ maps with unique keys
   BTreeMap / HashMap / the storage table: association lists, update replaces in place *)
Section KMap.
  Context {K V : Type} (keqb : K -> K -> bool).
  Fixpoint kget (m : list (K * V)) (k : K) : option V :=
    match m with
    | [] => None
    | (k', v) :: r => if keqb k' k then Some v else kget r k
    end.
  Fixpoint kset (m : list (K * V)) (k : K) (v : V) : list (K * V) :=
    match m with
    | [] => [(k, v)]
    | (k', v') :: r => if keqb k' k then (k', v) :: r else (k', v') :: kset r k v
    end.
End KMap.

Definition pair_eqb (x y : N * N) : bool := (fst x =? fst y) && (snd x =? snd y).

Notation nget := (kget N.eqb).
Notation nset := (kset N.eqb).
Notation cget := (kget pair_eqb).
Notation cset := (kset pair_eqb).
Definition getd (m : list (N * N)) (k : N) : N := match nget m k with Some v => v | None => 0 end.

(* ------------------------------------------------------------------ transaction parts *)
Inductive input :=
| ICoin (a : asset) (amt : N)      (* CoinSigned / CoinPredicate *)
| IMsgCoin (amt : N)               (* MessageCoinSigned / MessageCoinPredicate (base asset) *)
| IMsgData (amt : N)               (* MessageDataSigned / MessageDataPredicate: retryable *)
| IContract (c : cid).

Inductive output :=
| OCoin (to : N) (amt : N) (a : asset)
| OChange (to : N) (amt : N) (a : asset)
| OVariable (to : N) (amt : N) (a : asset)
| OOther.                          (* Contract / ContractCreated: carry no amount *)

(* Output::prepare_sign, applied by init_inner to every output before execution *)
Definition prepare_output (o : output) : output :=
  match o with
  | OChange to _ a => OChange to 0 a
  | OVariable _ _ _ => OVariable 0 0 0
  | o => o
  end.

(* ------------------------------------------------------------------ checked_transaction/balances.rs *)
(* add_up_input_balances: None = overflow *)
Fixpoint add_up_input_balances (base : asset) (ins : list input) (nr : list (asset * N)) (retry : N)
  : option (list (asset * N) * N) :=
  match ins with
  | [] => Some (nr, retry)
  | ICoin a amt :: r =>
      do b <- checked_add U64 (getd nr a) amt; add_up_input_balances base r (nset nr a b) retry
  | IMsgCoin amt :: r =>
      do b <- checked_add U64 (getd nr base) amt; add_up_input_balances base r (nset nr base b) retry
  | IMsgData amt :: r =>
      do t <- checked_add U64 retry amt; add_up_input_balances base r nr t
  | IContract _ :: r => add_up_input_balances base r nr retry
  end.

(* entry(base).or_default() then checked_sub *)
Definition deduct_max_fee (base : asset) (max_fee : N) (nr : list (asset * N)) : option (list (asset * N)) :=
  do b <- checked_sub (getd nr base) max_fee; Some (nset nr base b).

Fixpoint reduce_by_coin_outputs (outs : list output) (nr : list (asset * N)) : option (list (asset * N)) :=
  match outs with
  | [] => Some nr
  | OCoin _ amt a :: r =>
      do cur <- nget nr a;                       (* TransactionOutputCoinAssetIdNotFound *)
      do b <- checked_sub cur amt;               (* InsufficientInputAmount *)
      reduce_by_coin_outputs r (nset nr a b)
  | _ :: r => reduce_by_coin_outputs r nr
  end.

(* (non_retryable_balances, retryable_balance) *)
Definition initial_free_balances (base : asset) (ins : list input) (outs : list output) (max_fee : N)
  : option (list (asset * N) * N) :=
  do p <- add_up_input_balances base ins [] 0;
  do nr <- deduct_max_fee base max_fee (fst p);
  do nr' <- reduce_by_coin_outputs outs nr;
  Some (nr', snd p).

(* ------------------------------------------------------------------ interpreter/balances.rs *)
(* Balance { value, offset } *)
Definition balance_t := (N * N)%type.
Definition bvalue (b : balance_t) : N := fst b.
Definition boffset (b : balance_t) : N := snd b.

(* sorted_by_key(|k| k.0): insertion sort on the asset id *)
Fixpoint insert_sorted (e : asset * N) (l : list (asset * N)) : list (asset * N) :=
  match l with
  | [] => [e]
  | x :: r => if fst e <=? fst x then e :: x :: r else x :: insert_sorted e r
  end.
Definition sort_by_key (l : list (asset * N)) : list (asset * N) := fold_right insert_sorted [] l.

(* try_from_iter: enumerate the sorted pairs; offset_i = BALANCES_OFFSET + i * ENTRY_SIZE *)
Fixpoint try_from_sorted (i : N) (l : list (asset * N)) (state : list (asset * balance_t))
  : option (list (asset * balance_t)) :=
  match l with
  | [] => Some state
  | (a, bal) :: r =>
      let offset := VM_MEMORY_BALANCES_OFFSET + i * BALANCE_ENTRY_SIZE in
      let cur := match nget state a with Some b => b | None => (0, offset) end in
      do v <- checked_add U64 (bvalue cur) bal;
      try_from_sorted (i + 1) r (nset state a (v, boffset cur))
  end.
Definition try_from_iter (l : list (asset * N)) : option (list (asset * balance_t)) :=
  try_from_sorted 0 (sort_by_key l) [].

(* TryFrom<InitialBalances>: the retryable amount is added to the base asset's entry *)
Definition runtime_balances_of (base : asset) (nr : list (asset * N)) (retry : N)
  : option (list (asset * balance_t)) :=
  do b <- checked_add U64 (getd nr base) retry;
  try_from_iter (nset nr base b).

(* to_vm: both cells of every entry; the table area is zero before *)
Fixpoint to_vm (state : list (asset * balance_t)) (mem : list (N * N)) : list (N * N) :=
  match state with
  | [] => mem
  | (a, b) :: r => to_vm r (nset (nset mem (boffset b) a) (boffset b + ASSET_ID_LEN) (bvalue b))
  end.

(* checked_balance_sub (with set_memory_balance_inner): state first, then the value cell *)
Definition checked_balance_sub (state : list (asset * balance_t)) (mem : list (N * N)) (a : asset) (v : N)
  : option (list (asset * balance_t) * list (N * N)) :=
  match (do b <- nget state a; do nv <- checked_sub (bvalue b) v; Some (nv, boffset b)) with
  | Some (nv, ofs) => Some (nset state a (nv, ofs), nset mem (ofs + ASSET_ID_LEN) nv)
  | None => if v =? 0 then Some (state, mem) else None
  end.

(* the table as a program reads it: n entries of (asset id, value) from BALANCES_OFFSET *)
Definition mem_cell (mem : list (N * N)) (addr : N) : N := getd mem addr.
Fixpoint table_in_memory (mem : list (N * N)) (i : N) (n : nat) : list (asset * N) :=
  match n with
  | O => []
  | S k => let ofs := VM_MEMORY_BALANCES_OFFSET + i * BALANCE_ENTRY_SIZE in
           (mem_cell mem ofs, mem_cell mem (ofs + ASSET_ID_LEN)) :: table_in_memory mem (i + 1) k
  end.

(* ------------------------------------------------------------------ the machine *)
Inductive res (A : Type) := Ok (a : A) | Panic (reason : N).
Arguments Ok {A} _.
Arguments Panic {A} _.
Definition rbind {A B} (r : res A) (f : A -> res B) : res B :=
  match r with Ok a => f a | Panic x => Panic x end.
Notation "'dor' x <- o ; k" := (rbind o (fun x => k)) (at level 200, x name, o at level 100, k at level 200).
Notation "'dor' ' p <- o ; k" := (rbind o (fun p => k)) (at level 200, p pattern, o at level 100, k at level 200).

Record vm := {
  v_bal : list (asset * balance_t);       (* RuntimeBalances.state *)
  v_mem : list (N * N);                   (* the cells of VM memory holding the balance table *)
  v_cbal : list ((cid * asset) * N);      (* ContractsAssets *)
  v_outs : list output;                   (* tx.outputs (mirrored in VM memory by update_memory_output) *)
  (* ghost totals, used only to state the ledger equation *)
  v_minted : list (asset * N);
  v_burned : list (asset * N);
  v_msgout : N;
}.

Inductive ctx := Script | Internal (c : cid).
Definition ctx_id (cx : ctx) : cid := match cx with Script => 0 | Internal c => c end.   (* unwrap_or_default *)

Inductive op :=
| OpTransfer (cx : ctx) (dst : cid) (a : asset) (amt : N)               (* TR *)
| OpTransferOut (cx : ctx) (to : N) (idx : N) (a : asset) (amt : N)     (* TRO *)
| OpCall (cx : ctx) (dst : cid) (a : asset) (amt : N)                   (* CALL: coin forwarding *)
| OpMint (cx : ctx) (sub : N) (amt : N)                                 (* MINT *)
| OpBurn (cx : ctx) (sub : N) (amt : N)                                 (* BURN *)
| OpMessageOut (cx : ctx) (amt : N).                                    (* SMO *)

(* the amount-carrying part of the receipt each operation pushes *)
Inductive areceipt :=
| RTransfer (from to : cid) (amt : N) (a : asset)
| RTransferOut (from : cid) (to : N) (amt : N) (a : asset)
| RCall (from to : cid) (amt : N) (a : asset)
| RMint (sub : N) (c : cid) (amt : N)
| RBurn (sub : N) (c : cid) (amt : N)
| RMessageOut (amt : N).

Section Machine.
  (* ContractId::asset_id(sub_id) = SHA-256(contract_id || sub_id) *)
  Variable asset_of : cid -> N -> asset.
  Variable base : asset.
  Variable input_contracts : list cid.

  Definition in_inputs (c : cid) : bool := existsb (N.eqb c) input_contracts.

  (* contract.rs: balance / balance_increase / balance_decrease *)
  Definition balance (cb : list ((cid * asset) * N)) (c : cid) (a : asset) : N :=
    match cget cb (c, a) with Some v => v | None => 0 end.

  Definition balance_increase (cb : list ((cid * asset) * N)) (c : cid) (a : asset) (amt : N)
    : res (list ((cid * asset) * N) * bool) :=
    if amt =? 0 then Ok (cb, false)
    else match checked_add U64 (balance cb c a) amt with
         | None => Panic PR_BalanceOverflow
         | Some b => Ok (cset cb (c, a) b, match cget cb (c, a) with None => true | Some _ => false end)
         end.

  Definition balance_decrease (cb : list ((cid * asset) * N)) (c : cid) (a : asset) (amt : N)
    : res (list ((cid * asset) * N)) :=
    if amt =? 0 then Ok cb
    else match checked_sub (balance cb c a) amt with
         | None => Panic PR_NotEnoughBalance
         | Some b => Ok (cset cb (c, a) b)
         end.

  (* internal.rs: external_asset_id_balance_sub *)
  Definition external_balance_sub (s : vm) (a : asset) (v : N) : res vm :=
    match checked_balance_sub (v_bal s) (v_mem s) a v with
    | None => Panic PR_NotEnoughBalance
    | Some (st, mem) =>
        Ok {| v_bal := st; v_mem := mem; v_cbal := v_cbal s; v_outs := v_outs s;
              v_minted := v_minted s; v_burned := v_burned s; v_msgout := v_msgout s |}
    end.

  Definition with_cbal (s : vm) (cb : list ((cid * asset) * N)) : vm :=
    {| v_bal := v_bal s; v_mem := v_mem s; v_cbal := cb; v_outs := v_outs s;
       v_minted := v_minted s; v_burned := v_burned s; v_msgout := v_msgout s |}.
  Definition with_outs (s : vm) (o : list output) : vm :=
    {| v_bal := v_bal s; v_mem := v_mem s; v_cbal := v_cbal s; v_outs := o;
       v_minted := v_minted s; v_burned := v_burned s; v_msgout := v_msgout s |}.

  (* debit of the funding source: the current contract's balance, or the free balance *)
  Definition debit (s : vm) (cx : ctx) (a : asset) (amt : N) : res vm :=
    match cx with
    | Internal src => dor cb <- balance_decrease (v_cbal s) src a amt; Ok (with_cbal s cb)
    | Script => external_balance_sub s a amt
    end.

  Definition credit (s : vm) (dst : cid) (a : asset) (amt : N) : res vm :=
    dor p <- balance_increase (v_cbal s) dst a amt; Ok (with_cbal s (fst p)).

  (* TransferCtx::transfer *)
  Definition transfer (s : vm) (cx : ctx) (dst : cid) (a : asset) (amt : N) : res (vm * areceipt) :=
    if negb (in_inputs dst) then Panic PR_ContractNotInInputs
    else if amt =? 0 then Panic PR_TransferZeroCoins
    else
      dor s1 <- debit s cx a amt;
      dor s2 <- credit s1 dst a amt;
      Ok (s2, RTransfer (ctx_id cx) dst amt a).

  (* replace_variable_output: the slot must be a Variable output whose amount is still 0 *)
  Fixpoint replace_variable_output (outs : list output) (idx : N) (o : output) : option (list output) :=
    match outs with
    | [] => None
    | x :: r =>
        if idx =? 0 then
          match x with
          | OVariable _ amt _ => if amt =? 0 then Some (o :: r) else None
          | _ => None
          end
        else do r' <- replace_variable_output r (idx - 1) o; Some (x :: r')
    end.

  (* TransferCtx::transfer_output *)
  Definition transfer_output (s : vm) (cx : ctx) (to : N) (idx : N) (a : asset) (amt : N) : res (vm * areceipt) :=
    if amt =? 0 then Panic PR_TransferZeroCoins
    else
      dor s1 <- debit s cx a amt;
      match replace_variable_output (v_outs s1) idx (OVariable to amt a) with
      | None => Panic PR_OutputNotFound
      | Some o => Ok (with_outs s1 o, RTransferOut (ctx_id cx) to amt a)
      end.

  (* PrepareCallCtx::prepare_call, the coin-forwarding part (debit, inputs check, credit) *)
  Definition call_forward (s : vm) (cx : ctx) (dst : cid) (a : asset) (amt : N) : res (vm * areceipt) :=
    dor s1 <- debit s cx a amt;
    if negb (in_inputs dst) then Panic PR_ContractNotInInputs
    else
      dor s2 <- credit s1 dst a amt;
      Ok (s2, RCall (ctx_id cx) dst amt a).

  Definition bump (m : list (asset * N)) (a : asset) (amt : N) : list (asset * N) := nset m a (getd m a + amt).

  (* MintCtx::mint *)
  Definition mint (s : vm) (cx : ctx) (sub : N) (amt : N) : res (vm * areceipt) :=
    match cx with
    | Script => Panic PR_ExpectedInternalContext
    | Internal c =>
        let a := asset_of c sub in
        match checked_add U64 (balance (v_cbal s) c a) amt with
        | None => Panic PR_BalanceOverflow
        | Some b =>
            Ok ({| v_bal := v_bal s; v_mem := v_mem s; v_cbal := cset (v_cbal s) (c, a) b; v_outs := v_outs s;
                   v_minted := bump (v_minted s) a amt; v_burned := v_burned s; v_msgout := v_msgout s |},
                RMint sub c amt)
        end
    end.

  (* BurnCtx::burn *)
  Definition burn (s : vm) (cx : ctx) (sub : N) (amt : N) : res (vm * areceipt) :=
    match cx with
    | Script => Panic PR_ExpectedInternalContext
    | Internal c =>
        let a := asset_of c sub in
        match checked_sub (balance (v_cbal s) c a) amt with
        | None => Panic PR_NotEnoughBalance
        | Some b =>
            Ok ({| v_bal := v_bal s; v_mem := v_mem s; v_cbal := cset (v_cbal s) (c, a) b; v_outs := v_outs s;
                   v_minted := v_minted s; v_burned := bump (v_burned s) a amt; v_msgout := v_msgout s |},
                RBurn sub c amt)
        end
    end.

  (* MessageOutputCtx::message_output, after its length / memory validations *)
  Definition message_output (s : vm) (cx : ctx) (amt : N) : res (vm * areceipt) :=
    dor s1 <- debit s cx base amt;
    Ok ({| v_bal := v_bal s1; v_mem := v_mem s1; v_cbal := v_cbal s1; v_outs := v_outs s1;
           v_minted := v_minted s1; v_burned := v_burned s1; v_msgout := v_msgout s1 + amt |},
        RMessageOut amt).

  Definition step (s : vm) (o : op) : res (vm * areceipt) :=
    match o with
    | OpTransfer cx dst a amt => transfer s cx dst a amt
    | OpTransferOut cx to idx a amt => transfer_output s cx to idx a amt
    | OpCall cx dst a amt => call_forward s cx dst a amt
    | OpMint cx sub amt => mint s cx sub amt
    | OpBurn cx sub amt => burn s cx sub amt
    | OpMessageOut cx amt => message_output s cx amt
    end.

  (* a whole execution: operations until the first panic *)
  Fixpoint run (s : vm) (ops : list op) : vm * list areceipt * option N :=
    match ops with
    | [] => (s, [], None)
    | o :: r =>
        match step s o with
        | Panic x => (s, [], Some x)
        | Ok (s', rc) => let '(sf, rcs, p) := run s' r in (sf, rc :: rcs, p)
        end
    end.

  (* ---------------------------------------------------------------- initialisation *)
  Definition init_vm (ins : list input) (outs : list output) (max_fee : N) (cb : list ((cid * asset) * N))
    : option (vm * list (asset * N)) :=
    do p <- initial_free_balances base ins outs max_fee;
    do st <- runtime_balances_of base (fst p) (snd p);
    Some ({| v_bal := st; v_mem := to_vm st []; v_cbal := cb; v_outs := map prepare_output outs;
             v_minted := []; v_burned := []; v_msgout := 0 |}, fst p).

  (* ---------------------------------------------------------------- finalisation *)
  (* update_outputs; None = Err(BalanceOverflow) or a missing key under Index (host panic) *)
  Definition update_output (revert : bool) (refund : N) (initial : list (asset * N))
             (bal : list (asset * balance_t)) (o : output) : option output :=
    match o with
    | OChange to _ a =>
        if revert && (a =? base) then
          do i <- nget initial base; do v <- checked_add U64 i refund; Some (OChange to v a)
        else if revert then
          do i <- nget initial a; Some (OChange to i a)
        else if a =? base then
          do b <- nget bal a; do v <- checked_add U64 (bvalue b) refund; Some (OChange to v a)
        else
          do b <- nget bal a; Some (OChange to (bvalue b) a)
    | OVariable to _ a => if revert then Some (OVariable to 0 a) else Some o
    | o => Some o
    end.
  Fixpoint update_outputs (revert : bool) (refund : N) (initial : list (asset * N))
           (bal : list (asset * balance_t)) (outs : list output) : option (list output) :=
    match outs with
    | [] => Some []
    | o :: r => do o' <- update_output revert refund initial bal o;
                do r' <- update_outputs revert refund initial bal r; Some (o' :: r')
    end.

  (* how the program ended if no asset operation panicked *)
  Inductive ending := EndReturn | EndRevert | EndPanic.

  Record final := {
    f_revert : bool;
    f_outs : list output;                    (* outputs of the final transaction *)
    f_cbal : list ((cid * asset) * N);       (* ContractsAssets after MemoryClient's commit / revert *)
    f_free : list (asset * N);               (* free balances the change outputs are computed from *)
    f_minted : list (asset * N); f_burned : list (asset * N); f_msgout : N;   (* effective (zero if reverted) *)
    f_receipts : list areceipt;
    f_table : list (asset * N);              (* the balance table in memory at the end *)
  }.

  Definition values_of (st : list (asset * balance_t)) : list (asset * N) := map (fun e => (fst e, bvalue (snd e))) st.

  Definition execute (ins : list input) (outs : list output) (max_fee : N) (cb0 : list ((cid * asset) * N))
             (ops : list op) (e : ending) (refund : N) : option final :=
    do p <- init_vm ins outs max_fee cb0;
    let '(s0, initial) := p in
    let '(s, rcs, pn) := run s0 ops in
    let revert := match pn, e with None, EndReturn => false | _, _ => true end in
    do o <- update_outputs revert refund initial (v_bal s) (v_outs s);
    Some {| f_revert := revert; f_outs := o;
            f_cbal := if revert then cb0 else v_cbal s;
            f_free := if revert then initial else values_of (v_bal s);
            f_minted := if revert then [] else v_minted s;
            f_burned := if revert then [] else v_burned s;
            f_msgout := if revert then 0 else v_msgout s;
            f_receipts := rcs;
            f_table := table_in_memory (v_mem s) 0 (length (v_bal s)) |}.
End Machine.
