(* Vm/FlowProofs.v — proofs for C25: the L1 model of the jump code (saturating u64
   arithmetic) computes exactly the L3 specification (exact integers), for every entry shape,
   all register values and all immediates; the generated handler table equals the ISA table;
   fetch and program-counter discipline facts. *)
From FV Require Import Base.Bytes Base.U64 Vm.FlowSpec Gen.FlowTable Vm.FlowModel.
From Coq Require Import ZArith Lia.
Open Scope N_scope.

Lemma max_ram_gen : VM_MAX_RAM_gen = VM_MAX_RAM.
Proof. reflexivity. Qed.

(* the handler table extracted from opcodes_impl.rs is the ISA table *)
Lemma gen_table_is_isa : jump_table = isa_jump.
Proof. reflexivity. Qed.

Ltac unfold_u64 :=
  unfold jump_model, jump_spec, inc_pc, saturating_add, saturating_mul, checked_sub, INSTR_SIZE,
    VM_MAX_RAM_gen, VM_MAX_RAM, U64 in *.

(* JumpArgs::jump = specification, for every mode *)
Lemma jump_model_eq_spec cond m is pc dyn fixed :
  is < U64 -> pc + 4 < U64 -> dyn < U64 -> fixed < U64 ->
  jump_model cond m is pc dyn fixed = jump_spec cond m is pc dyn fixed.
Proof.
  intros His Hpc Hdyn Hfix. unfold_u64.
  destruct cond; cbn [negb].
  - destruct m; cbn [target_Z].
    + (* Assign *)
      destruct (N.leb_spec 67108864 (N.min (dyn + N.min (fixed * 4) (18446744073709551616 - 1)) (18446744073709551616 - 1)));
      destruct (Z.leb_spec 0 (Z.of_N dyn + 4 * Z.of_N fixed));
      destruct (Z.ltb_spec (Z.of_N dyn + 4 * Z.of_N fixed) (Z.of_N 67108864)); cbn [andb]; try reflexivity; try lia.
      f_equal. lia.
    + (* RelIS *)
      destruct (N.leb_spec 67108864 (N.min (is + N.min (N.min (dyn + fixed) (18446744073709551616 - 1) * 4) (18446744073709551616 - 1)) (18446744073709551616 - 1)));
      destruct (Z.leb_spec 0 (Z.of_N is + 4 * (Z.of_N dyn + Z.of_N fixed)));
      destruct (Z.ltb_spec (Z.of_N is + 4 * (Z.of_N dyn + Z.of_N fixed)) (Z.of_N 67108864)); cbn [andb]; try reflexivity; try lia.
      f_equal. lia.
    + (* RelFwd *)
      destruct (N.leb_spec 67108864 (N.min (pc + N.min (N.min (N.min (dyn + fixed) (18446744073709551616 - 1) + 1) (18446744073709551616 - 1) * 4) (18446744073709551616 - 1)) (18446744073709551616 - 1)));
      destruct (Z.leb_spec 0 (Z.of_N pc + 4 * (Z.of_N dyn + Z.of_N fixed + 1)));
      destruct (Z.ltb_spec (Z.of_N pc + 4 * (Z.of_N dyn + Z.of_N fixed + 1)) (Z.of_N 67108864)); cbn [andb]; try reflexivity; try lia.
      f_equal. lia.
    + (* RelBwd *)
      set (ob := N.min (N.min (N.min (dyn + fixed) (18446744073709551616 - 1) + 1) (18446744073709551616 - 1) * 4) (18446744073709551616 - 1)).
      destruct (N.leb_spec ob pc) as [Hle | Hgt].
      * destruct (N.leb_spec 67108864 (pc - ob));
        destruct (Z.leb_spec 0 (Z.of_N pc - 4 * (Z.of_N dyn + Z.of_N fixed + 1)));
        destruct (Z.ltb_spec (Z.of_N pc - 4 * (Z.of_N dyn + Z.of_N fixed + 1)) (Z.of_N 67108864)); cbn [andb];
        subst ob; try reflexivity; try lia.
        f_equal. lia.
      * destruct (Z.leb_spec 0 (Z.of_N pc - 4 * (Z.of_N dyn + Z.of_N fixed + 1))); cbn [andb]; [|reflexivity].
        subst ob. lia.
  - f_equal. lia.
Qed.

(* untaken conditional jumps advance by one instruction *)
Lemma jump_untaken m is pc dyn fixed :
  pc + 4 < U64 -> jump_model false m is pc dyn fixed = Some (pc + 4).
Proof. intros. unfold_u64. cbn [negb]. f_equal. lia. Qed.

(* panic exactly when the integer target is not an address *)
Lemma jump_panics_iff m is pc dyn fixed :
  is < U64 -> pc + 4 < U64 -> dyn < U64 -> fixed < U64 ->
  (jump_model true m is pc dyn fixed = None <->
   (target_Z m (Z.of_N is) (Z.of_N pc) (Z.of_N dyn) (Z.of_N fixed) < 0 \/
    Z.of_N VM_MAX_RAM <= target_Z m (Z.of_N is) (Z.of_N pc) (Z.of_N dyn) (Z.of_N fixed))%Z).
Proof.
  intros. rewrite jump_model_eq_spec by assumption. unfold jump_spec.
  destruct (Z.leb_spec 0 (target_Z m (Z.of_N is) (Z.of_N pc) (Z.of_N dyn) (Z.of_N fixed)));
  destruct (Z.ltb_spec (target_Z m (Z.of_N is) (Z.of_N pc) (Z.of_N dyn) (Z.of_N fixed)) (Z.of_N VM_MAX_RAM));
  cbn [andb]; split; intro; try discriminate; try lia; reflexivity.
Qed.

Lemma jump_lands m is pc dyn fixed t :
  is < U64 -> pc + 4 < U64 -> dyn < U64 -> fixed < U64 ->
  jump_model true m is pc dyn fixed = Some t ->
  Z.of_N t = target_Z m (Z.of_N is) (Z.of_N pc) (Z.of_N dyn) (Z.of_N fixed) /\ t < VM_MAX_RAM.
Proof.
  intros ? ? ? ?. rewrite jump_model_eq_spec by assumption. unfold jump_spec.
  destruct (Z.leb_spec 0 (target_Z m (Z.of_N is) (Z.of_N pc) (Z.of_N dyn) (Z.of_N fixed)));
  destruct (Z.ltb_spec (target_Z m (Z.of_N is) (Z.of_N pc) (Z.of_N dyn) (Z.of_N fixed)) (Z.of_N VM_MAX_RAM));
  cbn [andb]; intro E; inversion E; subst. split; lia.
Qed.

(* ---- whole handlers *)
Lemma field_lt f w : field f w < 64.
Proof. destruct f; cbn [field]; apply N.mod_lt; discriminate. Qed.
Lemma imm_lt i w : imm i w < U64.
Proof.
  destruct i; cbn [imm]; unfold U64;
  match goal with |- ?a mod ?b < _ => assert (a mod b < b) by (apply N.mod_lt; discriminate) end; lia.
Qed.

Definition regs_u64 (r : N -> N) : Prop := forall k, r k < U64.

Lemma src_val_lt s w r : regs_u64 r -> src_val s w r < U64.
Proof. intros Hr. destruct s; cbn [src_val]; [unfold U64; lia | apply Hr | apply imm_lt]. Qed.

Lemma upd_u64 r k v : regs_u64 r -> v < U64 -> regs_u64 (upd r k v).
Proof. intros Hr Hv x. unfold upd. destruct (x =? k); auto. Qed.

Theorem model_exec_eq_spec e w r :
  regs_u64 r -> r REG_PC + 4 < U64 ->
  model_exec e w r = spec_exec e w r.
Proof.
  intros Hr Hpc. unfold model_exec, spec_exec, link_spec, write_user_register.
  assert (Hsat : saturating_add U64 (r REG_PC) INSTR_SIZE = r REG_PC + 4)
    by (unfold saturating_add, INSTR_SIZE, U64 in *; lia).
  destruct (j_link e) as [f|].
  - rewrite Hsat. destruct (field f w =? 0).
    + rewrite jump_model_eq_spec; auto using src_val_lt; try apply Hr.
    + destruct (field f w <? REG_WRITABLE); [reflexivity|].
      rewrite jump_model_eq_spec; auto using src_val_lt, upd_u64; try apply Hr.
  - rewrite jump_model_eq_spec; auto using src_val_lt; try apply Hr.
Qed.

(* JAL stores the return address pc + 4 in a writable link register *)
Lemma jal_links e w r pc' wr f :
  regs_u64 r -> r REG_PC + 4 < U64 -> j_link e = Some f -> field f w <> 0 ->
  model_exec e w r = FOk pc' wr -> wr = Some (field f w, r REG_PC + 4) /\ REG_WRITABLE <= field f w.
Proof.
  intros Hr Hpc Hl Hnz. rewrite model_exec_eq_spec by assumption. unfold spec_exec, link_spec. rewrite Hl.
  destruct (N.eqb_spec (field f w) 0); [contradiction|].
  destruct (N.ltb_spec (field f w) REG_WRITABLE); [discriminate|].
  destruct (jump_spec _ _ _ _ _ _); intro E; inversion E; subst. split; [reflexivity|assumption].
Qed.
Lemma jal_reserved e w r f :
  j_link e = Some f -> field f w <> 0 -> field f w < REG_WRITABLE ->
  model_exec e w r = FPanic RReservedRegister.
Proof.
  intros Hl Hnz Hlt. unfold model_exec, write_user_register. rewrite Hl.
  destruct (N.eqb_spec (field f w) 0); [contradiction|].
  destruct (N.ltb_spec (field f w) REG_WRITABLE); [reflexivity|lia].
Qed.

(* ---- the hypothesis pc + 4 < 2^64 is needed: at pc = 2^64 - 1 a huge backward offset
   saturates to 2^64 - 1 and checked_sub lands on 0 where the specification panics.  (Not
   reachable by a program: an executed instruction has pc + 4 <= VM_MAX_RAM, see fetch_ok_iff.) *)
Lemma jump_model_refuted_at_pc_max :
  exists is pc dyn fixed, is < U64 /\ pc < U64 /\ dyn < U64 /\ fixed < U64 /\
    jump_model true RelBwd is pc dyn fixed <> jump_spec true RelBwd is pc dyn fixed.
Proof.
  exists 0, u64_max, (2 ^ 63), 0. repeat split; try (vm_compute; reflexivity).
  vm_compute. discriminate.
Qed.

(* ---- fetch *)
Lemma fetch_ok_iff is ssp stack_len hp pc :
  pc < U64 ->
  (fetch_model is ssp stack_len hp pc = None <->
   (pc + 4 <= VM_MAX_RAM /\ (pc + 4 <= stack_len \/ hp <= pc)) /\ is <= pc /\ pc < ssp).
Proof.
  intros Hpc. unfold fetch_model, mem_verify, saturating_add, VM_MAX_RAM_gen, VM_MAX_RAM, U64 in *.
  destruct (N.ltb_spec 67108864 (N.min (pc + 4) (18446744073709551616 - 1))).
  - split; [discriminate | lia].
  - destruct (N.leb_spec (N.min (pc + 4) (18446744073709551616 - 1)) stack_len);
    destruct (N.leb_spec hp pc); cbn [orb];
    destruct (N.ltb_spec pc is); destruct (N.leb_spec ssp pc); cbn [orb];
    split; intro; try discriminate; try reflexivity; lia.
Qed.

Lemma fetch_reason is ssp stack_len hp pc reason :
  pc < U64 -> fetch_model is ssp stack_len hp pc = Some reason ->
  (reason = PANIC_MemoryOverflow /\ VM_MAX_RAM < pc + 4) \/
  (reason = PANIC_UninitalizedMemoryAccess /\ pc + 4 <= VM_MAX_RAM /\ stack_len < pc + 4 /\ pc < hp) \/
  (reason = PANIC_MemoryNotExecutable /\ pc + 4 <= VM_MAX_RAM /\ (pc < is \/ ssp <= pc)).
Proof.
  intros Hpc. unfold fetch_model, mem_verify, saturating_add, VM_MAX_RAM_gen, VM_MAX_RAM, U64 in *.
  destruct (N.ltb_spec 67108864 (N.min (pc + 4) (18446744073709551616 - 1))).
  - intro E; inversion E. left. split; [reflexivity | lia].
  - destruct (N.leb_spec (N.min (pc + 4) (18446744073709551616 - 1)) stack_len);
    destruct (N.leb_spec hp pc); cbn [orb];
    destruct (N.ltb_spec pc is); destruct (N.leb_spec ssp pc); cbn [orb];
    intro E; inversion E; try (right; right; split; [reflexivity | lia]);
    (right; left; split; [reflexivity | lia]).
Qed.

(* ---- sequential flow *)
Lemma inc_pc_exact pc : pc + 4 < U64 -> inc_pc pc = next_pc pc.
Proof. unfold inc_pc, next_pc, saturating_add, INSTR_SIZE, U64. lia. Qed.

Lemma step_pc_incpc pc sp c : pc + 4 < U64 -> step_pc KIncPc 0 pc sp c = Some (pc + 4).
Proof. intros. cbn [step_pc]. rewrite inc_pc_exact by assumption. reflexivity. Qed.

Lemma step_pc_panic cls pc sp c : step_pc cls 4 pc sp c = Some pc.
Proof. reflexivity. Qed.

(* table facts, closed finite checks over the generated tables *)
Definition table_ok : bool :=
  forallb (fun e => match class_of (fst e) with Some KJump => true | _ => false end) jump_table &&
  forallb (fun c => match snd (snd c) with
                    | KJump => match jump_entry (fst c) with Some _ => true | None => false end
                    | _ => match jump_entry (fst c) with Some _ => false | None => true end
                    end) flow_class &&
  (N.of_nat (length jump_table) =? 12) &&
  forallb (fun c => N.of_nat (length (filter (fun d => fst d =? fst c) flow_class)) =? 1) flow_class.
Lemma table_ok_true : table_ok = true.
Proof. vm_compute. reflexivity. Qed.

(* ---- non-vacuity: the hypotheses are satisfiable by non-trivial values *)
Definition example_regs : N -> N := fun k => if k =? 3 then 10368 else if k =? 12 then 10000 else if k =? 16 then 7 else 0.
Example example_regs_ok : regs_u64 example_regs /\ example_regs REG_PC + 4 < U64.
Proof.
  split; [|vm_compute; reflexivity].
  intro k. unfold example_regs, U64. destruct (k =? 3); [lia|]. destruct (k =? 12); [lia|]. destruct (k =? 16); lia.
Qed.
(* JMPF $r16, 5 at pc = 10368 with r16 = 7: lands on 10368 + (7+5+1)*4 *)
Example example_jmpf : model_exec (J RelFwd CTrue (SReg FA) (SImm I18) None) (0x74 * 16777216 + 16 * 262144 + 5) example_regs
                       = FOk (10368 + 52) None.
Proof. vm_compute. reflexivity. Qed.
Example example_fetch : fetch_model 10000 12000 13000 67108000 10368 = None.
Proof. vm_compute. reflexivity. Qed.
Example example_panic : jump_model true RelBwd 0 100 30 0 = None.
Proof. vm_compute. reflexivity. Qed.
