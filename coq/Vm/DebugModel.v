(* Vm/DebugModel.v — L1 model of the debugger mechanism of fuel-vm, function by function:

     Debugger {is_active, single_stepping, breakpoints, last_state}        (state/debugger.rs)
       set_single_stepping / clear_breakpoints / set_breakpoint /
       remove_breakpoint / eval_state / set_last_state                      -> same names
     impl PartialEq<Breakpoint> for ProgramState                            (state.rs)   -> ps_eq_bp
     DebugEval::should_continue                                             (state/debug.rs)
     Interpreter::eval_debugger_state                                       (interpreter/debug.rs) -> eval_debugger_state
     Interpreter::instruction_per_inner  (the debugger guard in front of
       every instruction, evaluated AFTER a successful fetch)               (executors/instruction.rs) -> guard
     Interpreter::run_program  (the loop; a debug event stores
       RunProgram(d) as last state and returns it)                          (executors/main.rs) -> run_loop / run_program
     Interpreter::resume                                                    (executors/debug.rs) -> resume
     Debugger::clear_last_state, called by init_inner for every new
       transaction (repair 22c6df9 of finding F9)                           (state/debugger.rs, initialization.rs) -> clear_last_state, transact
     "resume after every debug event until completion" (the client loop of
       the property text)                                                   -> drive

   The interpreter itself is NOT modelled: the section is parametric in
     St            the whole VM state (registers, memory, frames, receipts, balances, storage, tx)
     Res           what a finished run_program yields (Ok(Return|ReturnData|Revert) with the finalised
                   receipts/outputs/storage, or Err(e))
     fetch         fetch_instruction succeeded (pc readable and inside [$is,$ssp))
     exec          instruction_inner + run_program's treatment of its result: either the next state
                   (Proceed, or Return inside a call) or the final result (incl. panic receipt,
                   script-result receipt, finalize_outputs)
     fault         the final result when the fetch failed
     cur_contract  frames.last().map(CallFrame::to)
     pc_off        $pc.saturating_sub($is)
   All five are arbitrary (deterministic) functions.  Loops carry fuel; running out of fuel is the
   outcome OFuel, which the theorems exclude.  Definitions only. *)
From Coq Require Import List NArith Bool.
Import ListNotations.
Open Scope N_scope.

Section Debug.
  Variable C : Type.                       (* ContractId *)
  Variable C_eqb : C -> C -> bool.
  Variable C_default : C.                  (* ContractId::default(): "unset contract target" = the script *)
  Variable St : Type.
  Variable Res : Type.
  Variable fetch : St -> bool.
  Variable exec : St -> St + Res.
  Variable fault : St -> Res.
  Variable cur_contract : St -> option C.
  Variable pc_off : St -> N.
  Variable script_empty : bool.            (* script.script().is_empty(): a property of the transaction *)
  Variable empty_result : St -> Res.       (* the special-cased `ret(1)` run of an empty script *)

  (* Breakpoint { contract, pc } *)
  Definition bpoint := (C * N)%type.
  Definition bp_eqb (a b : bpoint) : bool := C_eqb (fst a) (fst b) && (snd a =? snd b).

  Inductive debug_eval := DBreakpoint (b : bpoint) | DContinue.
  Definition should_continue (d : debug_eval) : bool :=
    match d with DContinue => true | DBreakpoint _ => false end.

  (* ProgramState; the three non-debug variants carry a final value *)
  Inductive program_state :=
  | PFinal (r : Res)
  | PRunProgram (d : debug_eval)
  | PVerifyPredicate (d : debug_eval).

  Definition is_debug (s : program_state) : bool :=
    match s with PFinal _ => false | _ => true end.

  (* impl PartialEq<Breakpoint> for ProgramState *)
  Definition ps_eq_bp (s : program_state) (b : bpoint) : bool :=
    match s with
    | PRunProgram (DBreakpoint b') | PVerifyPredicate (DBreakpoint b') => bp_eqb b' b
    | _ => false
    end.

  (* HashMap<ContractId, HashSet<Word>> as an association list of lists *)
  Definition bpmap := list (C * list N).
  Fixpoint bp_get (m : bpmap) (c : C) : option (list N) :=
    match m with
    | [] => None
    | (c', set) :: m' => if C_eqb c' c then Some set else bp_get m' c
    end.
  Fixpoint bp_update (m : bpmap) (c : C) (f : list N -> list N) : bpmap :=
    match m with
    | [] => []
    | (c', set) :: m' => if C_eqb c' c then (c', f set) :: m' else (c', set) :: bp_update m' c f
    end.
  Definition set_insert (pc : N) (set : list N) : list N :=
    if existsb (N.eqb pc) set then set else pc :: set.
  Definition set_remove (pc : N) (set : list N) : list N :=
    filter (fun x => negb (x =? pc)) set.

  Record debugger := mkDebugger {
    is_active : bool;
    single_stepping : bool;
    breakpoints : bpmap;
    last_state : option program_state;
  }.
  Definition debugger_default : debugger :=
    {| is_active := false; single_stepping := false; breakpoints := []; last_state := None |}.

  Definition set_single_stepping (d : debugger) (b : bool) : debugger :=
    {| is_active := true; single_stepping := b; breakpoints := breakpoints d; last_state := last_state d |}.
  Definition clear_breakpoints (d : debugger) : debugger :=
    {| is_active := is_active d; single_stepping := single_stepping d; breakpoints := []; last_state := last_state d |}.
  Definition set_breakpoint (d : debugger) (b : bpoint) : debugger :=
    let '(contract, pc) := b in
    let m := match bp_get (breakpoints d) contract with
             | Some _ => bp_update (breakpoints d) contract (set_insert pc)
             | None => (contract, [pc]) :: breakpoints d
             end in
    {| is_active := true; single_stepping := single_stepping d; breakpoints := m; last_state := last_state d |}.
  Definition remove_breakpoint (d : debugger) (b : bpoint) : debugger :=
    {| is_active := true; single_stepping := single_stepping d;
       breakpoints := bp_update (breakpoints d) (fst b) (set_remove (snd b)); last_state := last_state d |}.
  Definition set_last_state (d : debugger) (s : program_state) : debugger :=
    {| is_active := true; single_stepping := single_stepping d; breakpoints := breakpoints d; last_state := Some s |}.
  (* last_state.take() *)
  Definition take_last_state (d : debugger) : debugger :=
    {| is_active := is_active d; single_stepping := single_stepping d; breakpoints := breakpoints d; last_state := None |}.

  (* Debugger::clear_last_state (does not activate the debugger) *)
  Definition clear_last_state (d : debugger) : debugger :=
    {| is_active := is_active d; single_stepping := single_stepping d; breakpoints := breakpoints d; last_state := None |}.

  (* Debugger::eval_state *)
  Definition eval_state (d : debugger) (contract : option C) (pc : N) : debugger * debug_eval :=
    let contract := match contract with Some c => c | None => C_default end in
    let last := last_state d in
    let d' := take_last_state d in
    let current : bpoint := (contract, pc) in
    let report :=
      match last with
      | Some s => if ps_eq_bp s current then DContinue else DBreakpoint current
      | None => DBreakpoint current
      end in
    if single_stepping d then (d', report)
    else
      match bp_get (breakpoints d) contract with
      | Some set => if existsb (N.eqb pc) set then (d', report) else (d', DContinue)
      | None => (d', DContinue)
      end.

  (* Interpreter::eval_debugger_state *)
  Definition eval_debugger_state (d : debugger) (s : St) : debugger * debug_eval :=
    eval_state d (cur_contract s) (pc_off s).

  (* the head of instruction_per_inner: Some e = `return Ok(debug.into())` *)
  Definition guard (d : debugger) (s : St) : debugger * option debug_eval :=
    if is_active d then
      let '(d', e) := eval_debugger_state d s in
      if should_continue e then (d', None) else (d', Some e)
    else (d, None).

  Inductive outcome :=
  | OFinal (r : Res)
  | ODebug (e : debug_eval) (s : St)       (* Ok(ProgramState::RunProgram(e)); the VM is suspended in s *)
  | OFuel.

  (* the `loop` of run_program (non-empty script) *)
  Fixpoint run_loop (n : nat) (d : debugger) (s : St) : debugger * outcome :=
    match n with
    | O => (d, OFuel)
    | S n' =>
        if fetch s then
          let '(d1, g) := guard d s in
          match g with
          | Some e => (set_last_state d1 (PRunProgram e), ODebug e s)
          | None =>
              match exec s with
              | inl s' => run_loop n' d1 s'
              | inr r => (d1, OFinal r)
              end
          end
        else (d, OFinal (fault s))
    end.

  Definition run_program (n : nat) (d : debugger) (s : St) : debugger * outcome :=
    if script_empty then (d, OFinal (empty_result s)) else run_loop n d s.

  (* Interpreter::transact as far as the debugger goes: init_script -> init_inner forgets the last
     suspended state of any earlier (possibly abandoned) session, then run -> run_program; s is the
     freshly initialised VM state *)
  Definition transact (n : nat) (d : debugger) (s : St) : debugger * outcome :=
    run_program n (clear_last_state d) s.

  (* Interpreter::resume *)
  Inductive resume_result :=
  | RDebugStateNotInitialized
  | RUnimplemented                         (* `unimplemented!()`: a host panic *)
  | ROut (o : outcome).
  Definition resume (n : nat) (d : debugger) (s : St) : debugger * resume_result :=
    match last_state d with
    | None => (d, RDebugStateNotInitialized)
    | Some (PFinal r) => (d, ROut (OFinal r))
    | Some (PVerifyPredicate _) => (d, RUnimplemented)
    | Some (PRunProgram _) =>
        let '(d', o) := run_program n d s in
        match o with
        | ODebug e _ => (set_last_state d' (PRunProgram e), ROut o)
        | _ => (d', ROut o)
        end
    end.

  (* The client of the property text: transact, then resume after every debug event until
     completion.  k bounds the number of resumes, n the iterations of each run_program.
     Result: the reported events, each with the suspended VM state, and the final result. *)
  Definition event := (bpoint * St)%type.
  Fixpoint drive_from (k n : nat) (d : debugger) (o : outcome) : list event * option Res :=
    match o with
    | OFinal r => ([], Some r)
    | OFuel => ([], None)
    | ODebug DContinue _ => ([], None)
    | ODebug (DBreakpoint b) s =>
        match k with
        | O => ([(b, s)], None)
        | S k' =>
            match resume n d s with
            | (d', ROut o') => let '(evs, r) := drive_from k' n d' o' in ((b, s) :: evs, r)
            | (_, _) => ([(b, s)], None)
            end
        end
    end.
  Definition drive (k n : nat) (d : debugger) (s : St) : list event * option Res :=
    let '(d', o) := transact n d s in drive_from k n d' o.
  (* the same client on the code BEFORE repair 22c6df9, where a new transaction inherited the
     debugger's last state (kept only for the historical witness of finding F9) *)
  Definition drive_before_22c6df9 (k n : nat) (d : debugger) (s : St) : list event * option Res :=
    let '(d', o) := run_program n d s in drive_from k n d' o.

  (* ------------------------------------------------------------------ the run without a debugger *)
  Fixpoint plain_loop (n : nat) (s : St) : option Res :=
    match n with
    | O => None
    | S n' =>
        if fetch s then
          match exec s with
          | inl s' => plain_loop n' s'
          | inr r => Some r
          end
        else Some (fault s)
    end.
  Definition plain_run (n : nat) (s : St) : option Res :=
    if script_empty then Some (empty_result s) else plain_loop n s.

  (* the states in which the plain run fetches and executes an instruction ("arrivals") *)
  Fixpoint arrivals (n : nat) (s : St) : list St :=
    match n with
    | O => []
    | S n' =>
        if fetch s then
          s :: match exec s with inl s' => arrivals n' s' | inr _ => [] end
        else []
    end.

  (* the location the debugger sees in state s *)
  Definition loc (s : St) : bpoint :=
    (match cur_contract s with Some c => c | None => C_default end, pc_off s).

  (* does the configuration ask for a stop at this location? *)
  Definition has_breakpoint (d : debugger) (b : bpoint) : bool :=
    match bp_get (breakpoints d) (fst b) with
    | Some set => existsb (N.eqb (snd b)) set
    | None => false
    end.
  Definition wants (d : debugger) (s : St) : bool :=
    is_active d && (single_stepping d || has_breakpoint d (loc s)).
  (* the last-state suppression: the location just resumed from is not reported again *)
  Definition suppressed (d : debugger) (s : St) : bool :=
    match last_state d with Some p => ps_eq_bp p (loc s) | None => false end.
  Definition triggers (d : debugger) (s : St) : bool := wants d s && negb (suppressed d s).
  (* the debugger after an instruction has been let through *)
  Definition after (d : debugger) : debugger := if is_active d then take_last_state d else d.

  (* which arrivals are reported, given the debugger at the start *)
  Fixpoint expected (d : debugger) (l : list St) : list St :=
    match l with
    | [] => []
    | s :: rest => (if triggers d s then [s] else []) ++ expected (after d) rest
    end.

  Definition ev_of (s : St) : event := (loc s, s).
End Debug.

Arguments DContinue {C}.
Arguments OFuel {C St Res}.
Arguments OFinal {C St Res} r.
Arguments RDebugStateNotInitialized {C St Res}.
Arguments RUnimplemented {C St Res}.
Arguments debugger_default {C Res}.
