(* Vm/KvInstr.v — Part 3 of the C33 proofs: what each instruction handler of Vm/KvModel.v
   computes on the plain map (KvSpec.run_plain) equals the declarative instruction
   specification of Vm/KvSpec.v, whenever the other subsystems do not fault (the key and the
   source bytes are readable, the destination is writable, result registers are writable,
   a contract is executing).  Together with KvProofs.run_l1_refines (store+cache = plain map
   for every program) this gives: the implementation model returns what the specification says. *)
From Coq Require Import PeanoNat.
From FV Require Import Base.Bytes Vm.KvSpec Vm.KvModel Vm.KvProofs.
Open Scope N_scope.

Lemma lenN_app {A} (a b : list A) : lenN (a ++ b) = lenN a + lenN b.
Proof. unfold lenN. rewrite app_length. lia. Qed.
Lemma lenN_word_value v : lenN (word_value v) = 32.
Proof. unfold word_value, zeros. rewrite lenN_app. unfold lenN. rewrite be_encode_length, repeat_length. reflexivity. Qed.

(* ---- ranges ---- *)
Lemma key_seq_all_valid n : forall k,
  (n = O \/ k + N.of_nat n - 1 < KEY_LIMIT) -> filter (fun k' => k' <? KEY_LIMIT) (key_seq n k) = key_seq n k.
Proof.
  induction n as [|n IH]; intros k H; [reflexivity|]. cbn [key_seq filter].
  destruct H as [H|H]; [discriminate|]. rewrite Nat2N.inj_succ in H.
  destruct (N.ltb_spec k KEY_LIMIT); [|lia]. f_equal. apply IH.
  destruct n; [left; reflexivity | right; rewrite Nat2N.inj_succ in *; lia].
Qed.
Lemma range_keys_ok k n : range_ok k n = true -> range_keys k n = key_seq (N.to_nat n) k.
Proof.
  unfold range_ok, range_keys. intros H. apply key_seq_all_valid.
  destruct (N.eqb_spec n 0) as [Hz|Hn]; [left; rewrite Hz; reflexivity|]. right. cbn [orb] in H. apply N.ltb_lt in H.
  rewrite N2Nat.id. lia.
Qed.
Lemma range_ok_alt k n :
  range_ok k n = (Nat.eqb (N.to_nat n) 0) || (k + 0 + N.of_nat (N.to_nat n) - 1 <? KEY_LIMIT).
Proof.
  unfold range_ok. rewrite N2Nat.id, N.add_0_r.
  destruct (N.eqb_spec n 0) as [->|Hn]; [reflexivity|].
  destruct (Nat.eqb_spec (N.to_nat n) 0) as [H0|H0]; [lia|]. cbn [orb].
  replace (k + n - 1) with (k + (n - 1)) by lia. reflexivity.
Qed.


Section Instr.
  Context (e : henv) (m : kvmap) (c : N).
  Let max := h_max_len e.
  Hypothesis Hctx : h_ctx e = Some c.

  (* ---- SRW ---- *)
  Lemma srw_plain a b vc d kb :
    h_rd e vc 32 = MOk kb -> a <> b -> REG_WRITABLE <= a -> REG_WRITABLE <= b ->
    run_plain max (h_srw e a b vc d) m =
      match spec_read_word m c (be_decode kb) d with
      | SOk (w, f) => (SOk (out_regs [(a, w); (b, f)]), m, [])
      | SPanic r => (SPanic r, m, [])
      end.
  Proof.
    intros Hk Hab Ha Hb. unfold h_srw, with_key, with_ctx, spec_read_word, wreg_legacy. rewrite Hk, Hctx.
    destruct (N.eqb_spec a b); [contradiction|]. cbn [run_plain].
    destruct (N.ltb_spec a REG_WRITABLE); [lia|]. destruct (N.ltb_spec b REG_WRITABLE); [lia|].
    destruct (m c (be_decode kb)) as [v|]; [|reflexivity].
    destruct (N.ltb_spec (lenN v) (8 * d + 8)), (N.leb_spec (8 * d + 8) (lenN v)); try lia; reflexivity.
  Qed.

  (* ---- SWW ---- *)
  Lemma sww_plain b va vc kb :
    h_rd e va 32 = MOk kb -> REG_WRITABLE <= b ->
    run_plain max (h_sww e b va vc) m =
      match spec_write_word m c (be_decode kb) vc max with
      | SOk (m', f) => (SOk (out_regs [(b, f)]), m', [WWrite c (be_decode kb) (word_value vc)])
      | SPanic r => (SPanic r, m, [])
      end.
  Proof.
    intros Hk Hb. unfold h_sww, with_key, with_ctx, spec_write_word, wreg_legacy. rewrite Hk, Hctx.
    cbn [run_plain]. rewrite lenN_word_value.
    destruct (N.ltb_spec max 32), (N.leb_spec 32 max); try lia; [reflexivity|].
    destruct (N.ltb_spec b REG_WRITABLE); [lia|]. reflexivity.
  Qed.

  (* ---- SCLR ---- *)
  Lemma sclr_plain va vb kb :
    h_rd e va 32 = MOk kb ->
    run_plain max (h_sclr e va vb) m =
      match spec_clear m c (be_decode kb) vb with
      | SOk m' => (SOk out0, m', [WRemoveRange c (be_decode kb) vb])
      | SPanic r => (SPanic r, m, [])
      end.
  Proof.
    intros Hk. unfold h_sclr, with_key, with_ctx, spec_clear, to_usize. rewrite Hk.
    destruct (U32_MAX <? vb); [reflexivity|]. rewrite Hctx. cbn [run_plain].
    destruct (negb (range_ok (be_decode kb) vb)); reflexivity.
  Qed.

  (* ---- SRDD / SRDI ---- *)
  Lemma srd_plain buf kp off len kb :
    h_rd e kp 32 = MOk kb -> h_wr e buf len = None ->
    run_plain max (h_srdd e buf kp off len) m =
      match spec_read_dyn m c (be_decode kb) off len with
      | SOk (Some data) => (SOk {| o_regs := []; o_err := Some 0; o_mem := [(buf, data)] |}, m, [])
      | SOk None => (SOk {| o_regs := []; o_err := Some 1; o_mem := [] |}, m, [])
      | SPanic r => (SPanic r, m, [])
      end.
  Proof.
    intros Hk Hw. unfold h_srdd, with_key, with_ctx, spec_read_dyn, to_usize. rewrite Hk, Hctx.
    destruct (U32_MAX <? off); [reflexivity|]. destruct (U32_MAX <? len); [reflexivity|]. cbn [orb run_plain].
    destruct (m c (be_decode kb)) as [v|]; [|reflexivity].
    destruct (off + len <=? lenN v); [rewrite Hw|]; reflexivity.
  Qed.
  (* a refused destination is reported only for a present slot whose slice is in bounds *)
  Lemma srd_absent_ignores_destination buf kp off len kb :
    h_rd e kp 32 = MOk kb -> m c (be_decode kb) = None -> off <= U32_MAX -> len <= U32_MAX ->
    run_plain max (h_srdd e buf kp off len) m = (SOk {| o_regs := []; o_err := Some 1; o_mem := [] |}, m, []).
  Proof.
    intros Hk Hm Ho Hl. unfold h_srdd, with_key, with_ctx, to_usize. rewrite Hk, Hctx.
    destruct (N.ltb_spec U32_MAX off); [lia|]. destruct (N.ltb_spec U32_MAX len); [lia|].
    cbn [run_plain]. rewrite Hm. reflexivity.
  Qed.

  (* ---- SWRD / SWRI ---- *)
  Lemma swr_plain kp vp len kb data :
    h_rd e kp 32 = MOk kb -> h_rd e vp len = MOk data -> len <= U32_MAX ->
    run_plain max (h_swrd e kp vp len) m =
      match spec_write_dyn m c (be_decode kb) data max with
      | SOk m' => (SOk out0, m', [WWrite c (be_decode kb) data])
      | SPanic r => (SPanic r, m, [])
      end.
  Proof.
    intros Hk Hd Hlen. unfold h_swrd, with_key, with_ctx, spec_write_dyn, to_usize. rewrite Hctx, Hk.
    destruct (N.ltb_spec U32_MAX len); [lia|]. rewrite Hd. cbn [run_plain].
    destruct (N.ltb_spec max (lenN data)), (N.leb_spec (lenN data) max); try lia; reflexivity.
  Qed.

  (* ---- SUPD / SUPI ---- *)
  Lemma firstn_app_le {A} (a b : list A) n : (n <= length a)%nat -> firstn n (a ++ b) = firstn n a.
  Proof. intros H. rewrite firstn_app. replace (n - length a)%nat with O by lia. cbn [firstn]. apply app_nil_r. Qed.
  Lemma resize_splice_eq v off data :
    off <= lenN v -> resize_splice v off (off + lenN data) data = splice v off data.
  Proof.
    intros Hoff. unfold resize_splice, splice. unfold lenN in *.
    destruct (N.ltb_spec (N.of_nat (length v)) (off + N.of_nat (length data))) as [Hlt|Hge].
    - rewrite firstn_app_le by lia. f_equal. f_equal.
      rewrite skipn_all2; [rewrite skipn_all2; [reflexivity|lia]|].
      rewrite app_length. unfold zeros. rewrite repeat_length. lia.
    - reflexivity.
  Qed.
  Lemma lenN_splice v off data : off <= lenN v -> off + lenN data <= lenN (splice v off data).
  Proof.
    intros H. unfold splice. rewrite !lenN_app. unfold lenN in *. rewrite firstn_length, skipn_length. lia.
  Qed.
  Lemma sup_plain kp vp off len kb data :
    h_rd e kp 32 = MOk kb -> h_rd e vp len = MOk data -> lenN data = len -> len <= U32_MAX -> max < U64_MAX ->
    run_plain max (h_supd e kp vp off len) m =
      match spec_update_dyn m c (be_decode kb) off data max with
      | SOk m' =>
          let v := match m c (be_decode kb) with Some v => v | None => [] end in
          (SOk out0, m', [WWrite c (be_decode kb) (splice v (if off =? U64_MAX then lenN v else off) data)])
      | SPanic r => (SPanic r, m, [])
      end.
  Proof.
    intros Hk Hd Hl Hlen Hmax. unfold h_supd, with_key, with_ctx, spec_update_dyn, to_usize. rewrite Hctx, Hk. cbn [run_plain].
    set (v := match m c (be_decode kb) with Some v => v | None => [] end).
    set (off' := if off =? U64_MAX then lenN v else off).
    destruct (negb (off =? U64_MAX) && (U32_MAX <? off)); [reflexivity|].
    destruct (N.ltb_spec (lenN v) off') as [Hgap|Hok]; [reflexivity|].
    destruct (N.ltb_spec U32_MAX len); [lia|].
    fold max. unfold sat64. pose proof (lenN_splice v off' data Hok) as Hsp. rewrite Hl in Hsp.
    destruct (N.ltb_spec max (N.min (off' + len) U64_MAX)) as [H1|H1].
    - destruct (N.ltb_spec max (lenN (splice v off' data))); [reflexivity|lia].
    - rewrite Hd. cbn [run_plain]. rewrite N.min_l by lia. rewrite <- Hl, resize_splice_eq by lia.
      destruct (max <? lenN (splice v off' data)); reflexivity.
  Qed.

  (* ---- SPLD ---- *)
  Lemma spld_plain a vb kb :
    h_rd e vb 32 = MOk kb -> a = 0 \/ REG_WRITABLE <= a ->
    run_plain max (h_spld e a vb) m =
      let '(len, err) := spec_preload m c (be_decode kb) in
      (SOk {| o_regs := if a =? 0 then [] else [(a, len)]; o_err := Some err; o_mem := [] |}, m, []).
  Proof.
    intros Hk Ha. unfold h_spld, with_key, with_ctx, spec_preload. rewrite Hk, Hctx. cbn [run_plain].
    destruct (m c (be_decode kb)) as [v|]; destruct (N.eqb_spec a 0); try reflexivity;
      (destruct (N.ltb_spec a REG_WRITABLE); [destruct Ha; [contradiction | lia] | reflexivity]).
  Qed.

  (* the read loop of SCWQ: all keys valid -> conjunction of presence flags; else TooManySlots *)
  Lemma isset_loop_plain {A} key (k : bool -> kprog A) n : forall i acc,
    run_plain max (isset_loop n c key i acc k) m =
      if (Nat.eqb n 0) || (key + i + N.of_nat n - 1 <? KEY_LIMIT)
      then run_plain max (k (acc && forallb (fun k' => is_some (m c k')) (key_seq n (key + i)))) m
      else (SPanic KR_TooManySlots, m, []).
  Proof.
    induction n as [|n IH]; intros i acc.
    - cbn [isset_loop key_seq forallb Nat.eqb orb]. rewrite andb_true_r. reflexivity.
    - cbn [isset_loop Nat.eqb orb]. unfold key_add. rewrite Nat2N.inj_succ.
      destruct (N.ltb_spec (key + i) KEY_LIMIT) as [Hlt|Hge].
      + cbn [run_plain]. rewrite IH. replace (key + (i + 1)) with (key + i + 1) by lia.
        cbn [key_seq forallb]. rewrite andb_assoc.
        destruct n as [|n'].
        * cbn [Nat.eqb orb]. change (N.of_nat 0) with 0.
          destruct (N.ltb_spec (key + i + N.succ 0 - 1) KEY_LIMIT); [reflexivity|lia].
        * cbn [Nat.eqb orb]. replace (key + i + 1 + N.of_nat (S n') - 1) with (key + i + N.succ (N.of_nat (S n')) - 1) by lia.
          reflexivity.
      + destruct (N.ltb_spec (key + i + N.succ (N.of_nat n) - 1) KEY_LIMIT); [lia|reflexivity].
  Qed.

  (* ---- SCWQ ---- *)
  Lemma scwq_plain b va vc kb :
    h_rd e va 32 = MOk kb -> REG_WRITABLE <= b ->
    run_plain max (h_scwq e b va vc) m =
      match spec_clear_quads m c (be_decode kb) vc with
      | SOk (m', f) => (SOk (out_regs [(b, f)]), m', [WRemoveRange c (be_decode kb) vc])
      | SPanic r => (SPanic r, m, [])
      end.
  Proof.
    intros Hk Hb. unfold h_scwq, with_key, with_ctx, spec_clear_quads, to_usize. rewrite Hk.
    destruct (U32_MAX <? vc); [reflexivity|]. rewrite Hctx.
    rewrite isset_loop_plain. rewrite <- range_ok_alt.
    destruct (range_ok (be_decode kb) vc) eqn:Hr; cbn [negb]; [|reflexivity].
    unfold wreg_legacy. destruct (N.ltb_spec b REG_WRITABLE); [lia|]. cbn [run_plain]. rewrite Hr. cbn [negb].
    rewrite (range_keys_ok _ _ Hr), N.add_0_r. reflexivity.
  Qed.
End Instr.

(* outside a contract every storage instruction is refused (after its key has been read,
   for the instructions that read the key first) *)
Lemma no_contract_no_effect e i m :
  h_ctx e = None ->
  exists r, run_plain (h_max_len e) (handler e i) m = (SPanic r, m, []).
Proof.
  intros H. destruct i; cbn [handler];
    unfold h_scwq, h_srw, h_srwq, h_sww, h_swwq, h_sclr, h_srdd, h_swrd, h_supd, h_spld, with_key, with_ctx, to_usize;
    rewrite ?H;
    try (match goal with |- context [h_rd e ?p 32] => destruct (h_rd e p 32) end);
    try (match goal with |- context [U32_MAX <? ?x] => destruct (U32_MAX <? x) end); cbn [run_plain]; eauto.
Qed.

(* ---------- SRWQ / SWWQ: full statements (see Properties/C33.v for their status) ---------- *)
Definition srwq_addrs (va : N) (n : nat) : list N := map (fun j => sat64 (va + 32 * N.of_nat j)) (seq 0 n).
Definition srwq_statement : Prop :=
  forall (e : henv) (m : kvmap) (c b va vc vd : N) (kb : bytes),
    h_ctx e = Some c -> h_rd e vc 32 = MOk kb -> REG_WRITABLE <= b ->
    (forall a, In a (srwq_addrs va (N.to_nat vd)) -> h_wr e a 32 = None) ->
    match spec_read_quads m c (be_decode kb) vd with
    | SPanic r => run_plain (h_max_len e) (h_srwq e b va vc vd) m = (SPanic r, m, [])
    | SOk (data, f) =>
        exists mem, run_plain (h_max_len e) (h_srwq e b va vc vd) m =
                      (SOk {| o_regs := [(b, f)]; o_err := None; o_mem := mem |}, m, [])
                    /\ concat (map snd mem) = data /\ map fst mem = srwq_addrs va (N.to_nat vd)
    end.
Fixpoint chunk_writes (c k : N) (chunks : list bytes) : list wevent :=
  match chunks with [] => [] | v :: r => WWrite c k v :: chunk_writes c (k + 1) r end.
Definition swwq_statement : Prop :=
  forall (e : henv) (m : kvmap) (c b va vc vd : N) (kb : bytes) (chunks : list bytes),
    h_ctx e = Some c -> h_rd e va 32 = MOk kb -> be_decode kb < KEY_LIMIT -> REG_WRITABLE <= b -> lenN chunks = vd ->
    (forall j, (j < length chunks)%nat -> h_rd e (sat64 (vc + 32 * N.of_nat j)) 32 = MOk (nth j chunks [])) ->
    (forall ch, In ch chunks -> lenN ch = 32) ->
    match spec_write_quads m c (be_decode kb) chunks (h_max_len e) with
    | SPanic r => fst (fst (run_plain (h_max_len e) (h_swwq e b va vc vd) m)) = SPanic r
    | SOk (m', f) =>
        exists m2, run_plain (h_max_len e) (h_swwq e b va vc vd) m =
                     (SOk (out_regs [(b, f)]), m2, chunk_writes c (be_decode kb) chunks) /\ kv_eq m2 m'
    end.

(* ---------- the hypotheses of the lemmas above are satisfiable ---------- *)
Definition example_env : henv :=
  {| h_ctx := Some 7; h_max_len := 64;
     h_rd := fun a l => if a =? 100 then MOk (be_encode 32 5) else if a =? 200 then MOk (firstn (N.to_nat l) (repeat 9 40)) else MFault 4;
     h_wr := fun a l => if a =? 300 then None else Some 7 |}.
Definition example_map : kvmap := kv_set (kv_set kv_empty 7 5 (repeat 1 32)) 7 6 [1; 2; 3].
Example example_srw : run_plain 64 (h_srw example_env 16 17 100 1) example_map = (SOk (out_regs [(16, 72340172838076673); (17, 1)]), example_map, []).
Proof. vm_compute. reflexivity. Qed.
Example example_srw_oob : fst (fst (run_plain 64 (h_srw example_env 16 17 100 4) example_map)) = SPanic KR_StorageOutOfBounds.
Proof. vm_compute. reflexivity. Qed.
Example example_scwq_overflow :
  fst (fst (run_plain 64 (h_scwq {| h_ctx := Some 7; h_max_len := 64; h_rd := fun _ _ => MOk (repeat 255 32); h_wr := fun _ _ => None |} 17 100 2) example_map))
  = SPanic KR_TooManySlots.
Proof. vm_compute. reflexivity. Qed.
Example example_swr_too_long : fst (fst (run_plain 64 (h_swrd example_env 100 200 40) example_map)) = SOk out0
                               /\ fst (fst (run_plain 32 (h_swrd example_env 100 200 40) example_map)) = SPanic KR_StorageOutOfBounds.
Proof. vm_compute. split; reflexivity. Qed.
