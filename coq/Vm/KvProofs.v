(* Vm/KvProofs.v — proofs for C33 about Vm/KvModel.v (L1) against Vm/KvSpec.v (L3).
   Part 1: the slot functions (store + cache) — cache coherence, refinement to the plain map,
           cache on = cache off except hot/cold gas — by induction over ALL programs [kprog].
   Part 2: lifting to transactions and histories.
   Part 3 (KvInstr.v): what each instruction handler computes on the plain map. *)
From FV Require Import Base.Bytes Vm.KvSpec Vm.KvModel.
Open Scope N_scope.

(* ---------- pair-keyed maps ---------- *)
Lemma pkey_eqb_spec a b : reflect (a = b) (pkey_eqb a b).
Proof.
  destruct a as [a1 a2], b as [b1 b2]. unfold pkey_eqb. cbn [fst snd].
  destruct (N.eqb_spec a1 b1) as [->|H1]; destruct (N.eqb_spec a2 b2) as [->|H2]; cbn [andb];
    constructor; congruence.
Qed.
Lemma pkey_eqb_refl a : pkey_eqb a a = true.
Proof. destruct (pkey_eqb_spec a a); congruence. Qed.
Lemma pget_pset_eq {V} (m : pmap V) k v : pget (pset m k v) k = Some v.
Proof. unfold pset. cbn [pget]. rewrite pkey_eqb_refl. reflexivity. Qed.
Lemma pget_pset_neq {V} (m : pmap V) k k' v : k <> k' -> pget (pset m k v) k' = pget m k'.
Proof. intros H. unfold pset. cbn [pget]. destruct (pkey_eqb_spec k k'); [contradiction|reflexivity]. Qed.
Lemma pget_pset {V} (m : pmap V) k k' v : pget (pset m k v) k' = if pkey_eqb k k' then Some v else pget m k'.
Proof. unfold pset. cbn [pget]. reflexivity. Qed.
Lemma pget_pdel {V} (m : pmap V) k k' : pget (pdel m k) k' = if pkey_eqb k k' then None else pget m k'.
Proof.
  induction m as [|[k0 v] r IH]; cbn [pdel pget].
  - destruct (pkey_eqb k k'); reflexivity.
  - destruct (pkey_eqb_spec k0 k) as [->|Hn].
    + rewrite IH. destruct (pkey_eqb_spec k k'); reflexivity.
    + cbn [pget]. rewrite IH. destruct (pkey_eqb_spec k0 k') as [->|Hn'].
      * destruct (pkey_eqb_spec k k'); [congruence|reflexivity].
      * reflexivity.
Qed.

(* ---------- abstraction and invariant ---------- *)
Definition abs (st : kst) : kvmap := fun c k => pget (st_store st) (c, k).
(* cache !! k = Some v  ->  store !! k = v   (v : option bytes, None = known absent) *)
Definition coherent (st : kst) : Prop :=
  forall k v, pget (st_cache st) k = Some v -> pget (st_store st) k = v.

Lemma coherent_begin_tx st : coherent (st_begin_tx st).
Proof. intros k v H. cbn in H. discriminate. Qed.
Lemma coherent_drop st : coherent (drop_cache st).
Proof. intros k v H. cbn in H. discriminate. Qed.
Lemma abs_begin_tx st : abs (st_begin_tx st) = abs st.
Proof. reflexivity. Qed.

(* ---------- ranges ---------- *)
Lemma remove_range_get n : forall s c k c' k',
  pget (remove_range n s c k) (c', k') =
  if (c' =? c) && (k <=? k') && (k' <? k + N.of_nat n) then None else pget s (c', k').
Proof.
  induction n as [|n IH]; intros s c k c' k'.
  - cbn [remove_range]. change (N.of_nat 0) with 0.
    destruct (c' =? c); cbn [andb]; [|reflexivity].
    destruct (N.leb_spec k k'); cbn [andb]; [|reflexivity].
    destruct (N.ltb_spec k' (k + 0)); [lia|reflexivity].
  - cbn [remove_range]. rewrite IH, pget_pdel. rewrite Nat2N.inj_succ.
    unfold pkey_eqb; cbn [fst snd]. rewrite (N.eqb_sym c c').
    destruct (N.eqb_spec c' c) as [->|Hc]; cbn [andb]; [|reflexivity].
    destruct (N.leb_spec (k + 1) k'), (N.ltb_spec k' (k + 1 + N.of_nat n)), (N.leb_spec k k'),
      (N.ltb_spec k' (k + N.succ (N.of_nat n))), (N.eqb_spec k k'); cbn [andb]; try reflexivity; lia.
Qed.

Lemma cache_clear_get n : forall ca c k i ca' c' k',
  cache_clear n ca c k i = Some ca' ->
  pget ca' (c', k') =
  if (c' =? c) && (k + i <=? k') && (k' <? k + i + N.of_nat n) then Some None else pget ca (c', k').
Proof.
  induction n as [|n IH]; intros ca c k i ca' c' k' H.
  - cbn [cache_clear] in H. injection H as <-. change (N.of_nat 0) with 0.
    destruct (c' =? c); cbn [andb]; [|reflexivity].
    destruct (N.leb_spec (k + i) k'); cbn [andb]; [|reflexivity].
    destruct (N.ltb_spec k' (k + i + 0)); [lia|reflexivity].
  - cbn [cache_clear] in H. unfold key_add in H. destruct (k + i <? KEY_LIMIT); [|discriminate].
    rewrite (IH _ _ _ _ _ c' k' H), pget_pset. rewrite Nat2N.inj_succ.
    unfold pkey_eqb; cbn [fst snd]. rewrite (N.eqb_sym c c').
    destruct (N.eqb_spec c' c) as [->|Hc]; cbn [andb]; [|reflexivity].
    destruct (N.leb_spec (k + (i + 1)) k'), (N.ltb_spec k' (k + (i + 1) + N.of_nat n)), (N.leb_spec (k + i) k'),
      (N.ltb_spec k' (k + i + N.succ (N.of_nat n))), (N.eqb_spec (k + i) k'); cbn [andb]; try reflexivity; lia.
Qed.

(* the cache loop fails exactly when the last key of the range leaves the key space *)
Lemma cache_clear_none n : forall ca c k i,
  cache_clear n ca c k i = None <-> (n <> O /\ KEY_LIMIT <= k + i + N.of_nat n - 1).
Proof.
  induction n as [|n IH]; intros ca c k i.
  - cbn [cache_clear]. split; [discriminate | intros [H _]; congruence].
  - cbn [cache_clear]. unfold key_add. rewrite Nat2N.inj_succ.
    destruct (N.ltb_spec (k + i) KEY_LIMIT) as [Hlt|Hge].
    + rewrite IH. split.
      * intros [Hn H]. split; [discriminate | lia].
      * intros [_ H]. destruct n as [|n']; [change (N.of_nat 0) with 0 in H; lia|]. split; [discriminate|lia].
    + split; [intros _; split; [discriminate|lia] | reflexivity].
Qed.
(* for a 32-byte key (k < 2^256) the loop's own overflow test is dead code once the
   precheck of storage_clear_slot_range has passed *)
Lemma cache_clear_total ca c k n :
  k < KEY_LIMIT -> ((1 <? n) && negb (k + (n - 1) <? KEY_LIMIT)) = false ->
  cache_clear (N.to_nat n) ca c k 0 <> None.
Proof.
  intros Hk Hpre H. apply cache_clear_none in H as [Hn H]. rewrite N2Nat.id in H.
  destruct (N.ltb_spec 1 n); cbn [andb] in Hpre.
  - apply negb_false_iff, N.ltb_lt in Hpre. lia.
  - assert (n = 1) by (destruct (N.eq_dec n 0) as [->|]; [cbn in Hn; congruence | lia]). subst n. lia.
Qed.

Lemma clear_panics_iff st c k n :
  (exists st' ev g, clear_slot_range st c k n = (SPanic KR_TooManySlots, st', ev, g) /\ st' = st /\ ev = [] /\ g = [])
  \/ (range_ok k n = true /\ exists ca, cache_clear (N.to_nat n) (st_cache st) c k 0 = Some ca /\
      clear_slot_range st c k n =
        (SOk tt, {| st_store := remove_range (N.to_nat n) (st_store st) c k; st_cache := ca |}, [ERemoveRange c k n], [GClear n])).
Proof.
  unfold clear_slot_range, range_ok.
  destruct (N.ltb_spec 1 n) as [H1|H1]; cbn [andb].
  - destruct (N.ltb_spec (k + (n - 1)) KEY_LIMIT) as [Hlt|Hge]; cbn [negb].
    + right. split; [apply orb_true_r|].
      destruct (cache_clear (N.to_nat n) (st_cache st) c k 0) as [ca|] eqn:E.
      * exists ca; split; reflexivity.
      * apply cache_clear_none in E as [_ E]. rewrite N2Nat.id in E. lia.
    + left. do 3 eexists. eauto.
  - destruct (cache_clear (N.to_nat n) (st_cache st) c k 0) as [ca|] eqn:E.
    + right. split.
      * destruct (N.eqb_spec n 0); [reflexivity|]. cbn [orb]. apply N.ltb_lt.
        destruct (N.ltb_spec (k + (n - 1)) KEY_LIMIT); [assumption|].
        assert (Hn : cache_clear (N.to_nat n) (st_cache st) c k 0 = None).
        { apply cache_clear_none. rewrite N2Nat.id. split; [lia|lia]. }
        congruence.
      * exists ca; split; reflexivity.
    + left. do 3 eexists. eauto.
Qed.

(* ---------- Part 1: every program ---------- *)
Lemma read_slot_ok st c k :
  coherent st ->
  let '(v, st1, ev, g) := read_slot st c k in
  v = pget (st_store st) (c, k) /\ st_store st1 = st_store st /\ coherent st1 /\ writes_of ev = [].
Proof.
  intros Hc. unfold read_slot. destruct (pget (st_cache st) (c, k)) as [v|] eqn:E.
  - repeat split; auto. symmetry; apply Hc; exact E.
  - repeat split; auto. intros k' v' H. cbn [st_cache st_store] in *. rewrite pget_pset in H.
    destruct (pkey_eqb_spec (c, k) k') as [<-|Hn]; [congruence | apply Hc; exact H].
Qed.

Lemma slot_len_ok st c k :
  coherent st ->
  let '(l, st1, ev) := slot_len_no_gas st c k in
  l = olen (pget (st_store st) (c, k)) /\ st_store st1 = st_store st /\ coherent st1 /\ writes_of ev = [].
Proof.
  intros Hc. unfold slot_len_no_gas. destruct (pget (st_cache st) (c, k)) as [v|] eqn:E.
  - repeat split; auto. rewrite (Hc _ _ E). reflexivity.
  - repeat split; auto. intros k' v' H. cbn [st_cache st_store] in *. rewrite pget_pset in H.
    destruct (pkey_eqb_spec (c, k) k') as [<-|Hn]; [congruence | apply Hc; exact H].
Qed.

Lemma writes_of_app a b : writes_of (a ++ b) = writes_of a ++ writes_of b.
Proof. induction a as [|[] a IH]; cbn [app writes_of]; rewrite ?IH; reflexivity. Qed.

Lemma write_slot_ok max st c k v :
  coherent st ->
  let '(w, st1, ev, g) := write_slot max st c k v in
  coherent st1 /\
  if max <? lenN v then w = SPanic KR_StorageOutOfBounds /\ st_store st1 = st_store st /\ writes_of ev = [] /\ g = []
  else w = SOk tt /\ st_store st1 = pset (st_store st) (c, k) v /\ writes_of ev = [WWrite c k v] /\
       g = [GWrite (lenN v) (lenN v - olen (pget (st_store st) (c, k)))].
Proof.
  intros Hc. unfold write_slot. pose proof (slot_len_ok st c k Hc) as H.
  destruct (slot_len_no_gas st c k) as [[l st1] ev1]. destruct H as (Hl & Hs & Hc1 & Hw).
  destruct (max <? lenN v).
  - repeat split; auto.
  - split; [|repeat split].
    + intros k' v' H. cbn [st_cache st_store] in *. rewrite pget_pset in H. rewrite pget_pset.
      destruct (pkey_eqb (c, k) k'); [congruence | apply Hc1; exact H].
    + cbn [st_store]. rewrite Hs. reflexivity.
    + rewrite writes_of_app, Hw. reflexivity.
    + rewrite Hl. reflexivity.
Qed.

Lemma abs_pset st st1 c k v :
  st_store st1 = pset (st_store st) (c, k) v -> kv_eq (abs st1) (kv_set (abs st) c k v).
Proof.
  intros H c' k'. unfold abs, kv_set. rewrite H, pget_pset. unfold pkey_eqb; cbn [fst snd].
  rewrite (N.eqb_sym c c'), (N.eqb_sym k k'). reflexivity.
Qed.

Lemma clear_slot_ok st c k n :
  coherent st ->
  let '(w, st1, ev, g) := clear_slot_range st c k n in
  coherent st1 /\
  if range_ok k n then w = SOk tt /\ kv_eq (abs st1) (kv_clear_range (abs st) c k n) /\ writes_of ev = [WRemoveRange c k n] /\ g = [GClear n]
  else w = SPanic KR_TooManySlots /\ st1 = st /\ ev = [] /\ g = [].
Proof.
  intros Hc. destruct (clear_panics_iff st c k n) as [(st' & ev & g & E & -> & -> & ->) | (Hok & ca & Eca & E)].
  - rewrite E. split; [exact Hc|].
    destruct (range_ok k n) eqn:Hr; [|auto].
    (* range_ok but a panic: impossible *)
    exfalso. unfold clear_slot_range in E. unfold range_ok in Hr.
    destruct (N.ltb_spec 1 n) as [H1|H1]; cbn [andb] in E.
    + destruct (N.ltb_spec (k + (n - 1)) KEY_LIMIT) as [Hlt|Hge]; cbn [negb] in E.
      * destruct (cache_clear (N.to_nat n) (st_cache st) c k 0) eqn:Ec; [discriminate|].
        apply cache_clear_none in Ec as [_ Ec]. rewrite N2Nat.id in Ec. lia.
      * destruct (N.eqb_spec n 0); [lia|]. cbn [orb] in Hr. first [discriminate | apply N.ltb_lt in Hr; lia].
    + destruct (cache_clear (N.to_nat n) (st_cache st) c k 0) eqn:Ec; [discriminate|].
      apply cache_clear_none in Ec as [Hn Ec]. rewrite N2Nat.id in Ec.
      destruct (N.eqb_spec n 0) as [->|]; [cbn in Hn; congruence|]. cbn [orb] in Hr. first [discriminate | apply N.ltb_lt in Hr; lia].
  - rewrite E, Hok. split; [|repeat split].
    + intros [c' k'] v H. cbn [st_cache st_store] in *.
      rewrite (cache_clear_get _ _ _ _ _ _ c' k' Eca) in H. rewrite remove_range_get.
      rewrite N2Nat.id in *. rewrite N.add_0_r in H.
      destruct ((c' =? c) && (k <=? k') && (k' <? k + n)); [congruence | apply Hc; exact H].
    + intros c' k'. unfold abs, kv_clear_range. cbn [st_store]. rewrite remove_range_get, N2Nat.id. reflexivity.
Qed.

Lemma run_plain_ext {A} max (p : kprog A) : forall m1 m2,
  kv_eq m1 m2 ->
  let '(r1, m1', w1) := run_plain max p m1 in
  let '(r2, m2', w2) := run_plain max p m2 in
  r1 = r2 /\ kv_eq m1' m2' /\ w1 = w2.
Proof.
  induction p as [a|r|c k cont IH|c k v cont IH|c k n cont IH]; intros m1 m2 He; cbn [run_plain].
  - auto.
  - auto.
  - rewrite (He c k). apply IH; exact He.
  - destruct (max <? lenN v); [auto|].
    assert (He' : kv_eq (kv_set m1 c k v) (kv_set m2 c k v)).
    { intros c' k'. unfold kv_set. destruct ((c' =? c) && (k' =? k)); [reflexivity | apply He]. }
    specialize (IH _ _ He').
    destruct (run_plain max cont (kv_set m1 c k v)) as [[r1 m1'] w1],
             (run_plain max cont (kv_set m2 c k v)) as [[r2 m2'] w2].
    destruct IH as (-> & ? & ->). auto.
  - destruct (negb (range_ok k n)); [auto|].
    assert (He' : kv_eq (kv_clear_range m1 c k n) (kv_clear_range m2 c k n)).
    { intros c' k'. unfold kv_clear_range. destruct ((c' =? c) && (k <=? k') && (k' <? k + n)); [reflexivity | apply He]. }
    specialize (IH _ _ He').
    destruct (run_plain max cont (kv_clear_range m1 c k n)) as [[r1 m1'] w1],
             (run_plain max cont (kv_clear_range m2 c k n)) as [[r2 m2'] w2].
    destruct IH as (-> & ? & ->). auto.
Qed.

(* Refinement + invariant, all programs, all states. *)
Theorem run_l1_refines {A} max (p : kprog A) : forall st m,
  coherent st -> kv_eq m (abs st) ->
  let '(r, st', ev, g) := run_l1 max p st in
  let '(r2, m', w) := run_plain max p m in
  r = r2 /\ coherent st' /\ kv_eq m' (abs st') /\ writes_of ev = w.
Proof.
  induction p as [a|r|c k cont IH|c k v cont IH|c k n cont IH]; intros st m Hc He; cbn [run_l1 run_plain].
  - auto.
  - auto.
  - pose proof (read_slot_ok st c k Hc) as H.
    destruct (read_slot st c k) as [[[v st1] ev] g]. destruct H as (Hv & Hs & Hc1 & Hw).
    assert (He1 : kv_eq m (abs st1)) by (intros c' k'; unfold abs; rewrite Hs; apply He).
    assert (Hm : m c k = v) by (rewrite Hv; apply He).
    rewrite Hm. specialize (IH v st1 m Hc1 He1).
    destruct (run_l1 max (cont v) st1) as [[[r st2] ev2] g2].
    destruct (run_plain max (cont v) m) as [[r2 m'] w].
    destruct IH as (-> & ? & ? & <-). rewrite writes_of_app, Hw. auto.
  - pose proof (write_slot_ok max st c k v Hc) as H.
    destruct (write_slot max st c k v) as [[[w st1] ev] g]. destruct H as (Hc1 & H).
    destruct (max <? lenN v).
    + destruct H as (-> & Hs & Hw & _). repeat split; auto. intros c' k'. unfold abs. rewrite Hs. apply He.
    + destruct H as (-> & Hs & Hw & _).
      assert (He1 : kv_eq (kv_set m c k v) (abs st1)).
      { intros c' k'. rewrite (abs_pset st st1 c k v Hs c' k'). unfold kv_set.
        destruct ((c' =? c) && (k' =? k)); [reflexivity | apply He]. }
      specialize (IH st1 _ Hc1 He1).
      destruct (run_l1 max cont st1) as [[[r st2] ev2] g2].
      destruct (run_plain max cont (kv_set m c k v)) as [[r2 m'] w2].
      destruct IH as (-> & ? & ? & <-). rewrite writes_of_app, Hw. auto.
  - pose proof (clear_slot_ok st c k n Hc) as H.
    destruct (clear_slot_range st c k n) as [[[w st1] ev] g]. destruct H as (Hc1 & H).
    destruct (range_ok k n); cbn [negb].
    + destruct H as (-> & Hs & Hw & _).
      assert (He1 : kv_eq (kv_clear_range m c k n) (abs st1)).
      { intros c' k'. rewrite (Hs c' k'). unfold kv_clear_range.
        destruct ((c' =? c) && (k <=? k') && (k' <? k + n)); [reflexivity | apply He]. }
      specialize (IH st1 _ Hc1 He1).
      destruct (run_l1 max cont st1) as [[[r st2] ev2] g2].
      destruct (run_plain max cont (kv_clear_range m c k n)) as [[r2 m'] w2].
      destruct IH as (-> & ? & ? & <-). rewrite writes_of_app, Hw. auto.
    + destruct H as (-> & -> & -> & _). auto.
Qed.

Corollary run_l1_coherent {A} max (p : kprog A) st :
  coherent st -> coherent (snd (fst (fst (run_l1 max p st)))).
Proof.
  intros Hc. pose proof (run_l1_refines max p st (abs st) Hc (fun _ _ => eq_refl)) as H.
  destruct (run_l1 max p st) as [[[r st'] ev] g]. destruct (run_plain max p (abs st)) as [[r2 m'] w].
  cbn [fst snd]. tauto.
Qed.

(* ---------- cache on = cache off, except hot/cold ---------- *)
Inductive gnote_nc := NRead (units : N) | NWrite (units new_bytes : N) | NClear (n : N).
Definition erase_hot (g : gnote) : gnote_nc :=
  match g with
  | GReadHot u | GReadCold u => NRead u
  | GWrite u nb => NWrite u nb
  | GClear n => NClear n
  end.
Definition store_eq (s1 s2 : kst) : Prop := forall k, pget (st_store s1) k = pget (st_store s2) k.

Lemma drop_cache_store st : st_store (drop_cache st) = st_store st.
Proof. reflexivity. Qed.

Lemma read_slot_gas st c k : coherent st ->
  map erase_hot (snd (read_slot st c k)) = [NRead (olen (pget (st_store st) (c, k)))].
Proof.
  intros Hc. unfold read_slot. destruct (pget (st_cache st) (c, k)) eqn:E; cbn [snd map erase_hot].
  - rewrite (Hc _ _ E). reflexivity.
  - reflexivity.
Qed.

Theorem l1_vs_nocache {A} max (p : kprog A) : forall st1 st2,
  coherent st1 -> store_eq st1 st2 ->
  let '(r1, s1, ev1, g1) := run_l1 max p st1 in
  let '(r2, s2, ev2, g2) := run_nocache max p st2 in
  r1 = r2 /\ store_eq s1 s2 /\ writes_of ev1 = writes_of ev2 /\ map erase_hot g1 = map erase_hot g2.
Proof.
  induction p as [a|r|c k cont IH|c k v cont IH|c k n cont IH]; intros st1 st2 Hc He; cbn [run_l1 run_nocache].
  - auto.
  - auto.
  - pose proof (read_slot_ok st1 c k Hc) as H1. pose proof (read_slot_gas st1 c k Hc) as G1.
    pose proof (read_slot_ok (drop_cache st2) c k (coherent_drop st2)) as H2.
    pose proof (read_slot_gas (drop_cache st2) c k (coherent_drop st2)) as G2.
    destruct (read_slot st1 c k) as [[[v1 s1] e1] g1]. destruct (read_slot (drop_cache st2) c k) as [[[v2 s2] e2] g2].
    destruct H1 as (Hv1 & Hs1 & Hc1 & Hw1). destruct H2 as (Hv2 & Hs2 & _ & Hw2). cbn [snd] in G1, G2.
    rewrite drop_cache_store in *. pose proof (He (c, k)) as Hek.
    assert (Hvv : v2 = v1) by congruence. clear Hv2. subst v2.
    assert (He1 : store_eq s1 (drop_cache s2)) by (intros k'; rewrite drop_cache_store, Hs1, Hs2; apply He).
    specialize (IH v1 s1 (drop_cache s2) Hc1 He1).
    destruct (run_l1 max (cont v1) s1) as [[[r1 s1'] e1'] g1'].
    destruct (run_nocache max (cont v1) (drop_cache s2)) as [[[r2 s2'] e2'] g2'].
    destruct IH as (-> & ? & Hw & Hg).
    split; [reflexivity|]. split; [assumption|]. split; [rewrite !writes_of_app; congruence | rewrite !map_app; congruence].
  - pose proof (write_slot_ok max st1 c k v Hc) as H1.
    pose proof (write_slot_ok max (drop_cache st2) c k v (coherent_drop st2)) as H2.
    destruct (write_slot max st1 c k v) as [[[w1 s1] e1] g1]. destruct (write_slot max (drop_cache st2) c k v) as [[[w2 s2] e2] g2].
    destruct H1 as (Hc1 & H1). destruct H2 as (_ & H2). rewrite drop_cache_store in *. pose proof (He (c, k)) as Hek.
    destruct (max <? lenN v).
    + destruct H1 as (-> & Hs1 & Hw1 & ->). destruct H2 as (-> & Hs2 & Hw2 & ->).
      repeat split; auto; try congruence.
      intros k'. rewrite drop_cache_store, Hs1, Hs2. apply He.
    + destruct H1 as (-> & Hs1 & Hw1 & ->). destruct H2 as (-> & Hs2 & Hw2 & ->).
      assert (He1 : store_eq s1 (drop_cache s2)).
      { intros k'. rewrite drop_cache_store, Hs1, Hs2, !pget_pset. destruct (pkey_eqb (c, k) k'); [reflexivity | apply He]. }
      specialize (IH s1 (drop_cache s2) Hc1 He1).
      destruct (run_l1 max cont s1) as [[[r1 s1'] e1'] g1'].
      destruct (run_nocache max cont (drop_cache s2)) as [[[r2 s2'] e2'] g2'].
      destruct IH as (-> & ? & Hw & Hg).
      split; [reflexivity|]. split; [assumption|]. split; [rewrite !writes_of_app; congruence | rewrite !map_app; cbn [map erase_hot]; congruence].
  - pose proof (clear_slot_ok st1 c k n Hc) as H1.
    pose proof (clear_slot_ok (drop_cache st2) c k n (coherent_drop st2)) as H2.
    destruct (clear_slot_range st1 c k n) as [[[w1 s1] e1] g1]. destruct (clear_slot_range (drop_cache st2) c k n) as [[[w2 s2] e2] g2].
    destruct H1 as (Hc1 & H1). destruct H2 as (_ & H2).
    destruct (range_ok k n).
    + destruct H1 as (-> & Hs1 & Hw1 & ->). destruct H2 as (-> & Hs2 & Hw2 & ->).
      assert (He1 : store_eq s1 (drop_cache s2)).
      { intros [c' k']. rewrite drop_cache_store. pose proof (Hs1 c' k') as E1. pose proof (Hs2 c' k') as E2.
        unfold abs, kv_clear_range in E1, E2. rewrite drop_cache_store in E2. rewrite E1, E2.
        destruct ((c' =? c) && (k <=? k') && (k' <? k + n)); [reflexivity | apply He]. }
      specialize (IH s1 (drop_cache s2) Hc1 He1).
      destruct (run_l1 max cont s1) as [[[r1 s1'] e1'] g1'].
      destruct (run_nocache max cont (drop_cache s2)) as [[[r2 s2'] e2'] g2'].
      destruct IH as (-> & ? & Hw & Hg).
      split; [reflexivity|]. split; [assumption|]. split; [rewrite !writes_of_app; congruence | rewrite !map_app; congruence].
    + destruct H1 as (-> & -> & -> & ->). destruct H2 as (-> & -> & -> & ->).
      repeat split; auto.
Qed.

(* ---------- Part 2: transactions and histories ---------- *)
Lemma run_tx_refines calls : forall st m,
  coherent st -> kv_eq m (abs st) ->
  let '(outs, st', ok) := run_tx_l1 calls st in
  let '(outs2, m', ok2) := run_tx_plain calls m in
  outs = outs2 /\ ok = ok2 /\ coherent st' /\ kv_eq m' (abs st').
Proof.
  induction calls as [|[e i] r IH]; intros st m Hc He; cbn [run_tx_l1 run_tx_plain].
  - auto.
  - pose proof (run_l1_refines (h_max_len e) (handler e i) st m Hc He) as H.
    destruct (run_l1 (h_max_len e) (handler e i) st) as [[[res st1] ev] g].
    destruct (run_plain (h_max_len e) (handler e i) m) as [[res2 m1] w].
    destruct H as (<- & Hc1 & He1 & _).
    destruct res as [o|rr]; [|auto].
    specialize (IH st1 m1 Hc1 He1).
    destruct (run_tx_l1 r st1) as [[outs st2] ok]. destruct (run_tx_plain r m1) as [[outs2 m2] ok2].
    destruct IH as (-> & -> & ? & ?). auto.
Qed.

(* Every history: the implementation model (store + cache, cache cleared per transaction,
   failed transactions discarded) returns exactly what the plain map returns, and ends in the
   same map. *)
Theorem run_history_refines txs : forall st m,
  kv_eq m (abs st) ->
  let '(outs, st') := run_history_l1 txs st in
  let '(outs2, m') := run_history_plain txs m in
  outs = outs2 /\ kv_eq m' (abs st').
Proof.
  induction txs as [|tx r IH]; intros st m He; cbn [run_history_l1 run_history_plain].
  - auto.
  - pose proof (run_tx_refines tx (st_begin_tx st) m (coherent_begin_tx st) He) as H.
    destruct (run_tx_l1 tx (st_begin_tx st)) as [[outs st1] ok]. destruct (run_tx_plain tx m) as [[outs2 m1] ok2].
    destruct H as (-> & -> & Hc1 & He1).
    assert (He' : kv_eq (if ok2 then m1 else m) (abs (if ok2 then st1 else st_begin_tx st))) by (destruct ok2; assumption).
    specialize (IH _ _ He').
    destruct (run_history_l1 r (if ok2 then st1 else st_begin_tx st)) as [rest stf].
    destruct (run_history_plain r (if ok2 then m1 else m)) as [rest2 mf].
    destruct IH as (-> & ?). auto.
Qed.

(* ---------- non-vacuity ---------- *)
(* a coherent state with a non-empty cache (one present, one known-absent entry) *)
Example coherent_nontrivial :
  coherent {| st_store := [((1, 2), [3; 4])]; st_cache := [((1, 2), Some [3; 4]); ((1, 5), None)] |}.
Proof.
  intros k v H. unfold st_cache, st_store in *. unfold pget in *.
  destruct (pkey_eqb_spec (1, 2) k) as [<-|N1].
  - injection H as <-. reflexivity.
  - destruct (pkey_eqb_spec (1, 5) k) as [<-|N2]; [|discriminate]. injection H as <-. reflexivity.
Qed.
(* a stale cache entry is NOT coherent, and the cached interpreter then really differs from the
   plain map: the invariant is needed *)
Example stale_cache_differs :
  let st := {| st_store := [((1, 2), [3])]; st_cache := [((1, 2), Some [9])] |} in
  fst (fst (fst (run_l1 64 (KRead 1 2 (fun v => KRet v)) st))) <> fst (fst (run_plain 64 (KRead 1 2 (fun v => KRet v)) (abs st))).
Proof. vm_compute. congruence. Qed.
