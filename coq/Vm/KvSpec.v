(* Vm/KvSpec.v — L3 specification for C33: contract storage is a plain key-value map
   (contract id, 32-byte key) -> byte string, and every storage instruction is a function of
   that map.  Written from the property text and the instruction set specification, NOT from
   the Rust code: no cache, no gas, no loops over a backing store; ranges are intervals.

   Keys are numbers < 2^256 (big-endian reading of the 32 key bytes); a range of n slots
   starting at key k is the interval [k, k+n); it is legal iff it does not leave the key space. *)
From FV Require Import Base.Bytes.
Open Scope N_scope.

Definition KEY_LIMIT : N := 2 ^ 256.
Definition U64_MAX : N := 18446744073709551615.
(* operands that are lengths, offsets or slot counts must fit 32 bits (the VM converts them to a
   platform-independent usize); larger values are refused before anything else happens *)
Definition U32_MAX : N := 4294967295.

(* panic reasons a storage instruction can produce; [KR_Other b] = a fault of another
   subsystem (memory access, register write) reported with its reason byte *)
Inductive kreason :=
| KR_StorageOutOfBounds | KR_TooManySlots | KR_ExpectedInternalContext
| KR_ReservedRegisterNotWritable | KR_MemoryOverflow | KR_Other (byte : N).

Inductive sres (A : Type) := SOk (a : A) | SPanic (r : kreason).
Arguments SOk {A} a.
Arguments SPanic {A} r.

(* ---------- the plain map ---------- *)
Definition kvmap := N -> N -> option bytes.        (* contract id -> key -> value *)
Definition kv_empty : kvmap := fun _ _ => None.
Definition kv_set (m : kvmap) (c k : N) (v : bytes) : kvmap :=
  fun c' k' => if (c' =? c) && (k' =? k) then Some v else m c' k'.
(* remove the keys of the interval [k, k+n) of contract c *)
Definition kv_clear_range (m : kvmap) (c k n : N) : kvmap :=
  fun c' k' => if (c' =? c) && (k <=? k') && (k' <? k + n) then None else m c' k'.
Definition kv_eq (m1 m2 : kvmap) : Prop := forall c k, m1 c k = m2 c k.

(* a range of n slots starting at k stays inside the key space (n = 0: always) *)
Definition range_ok (k n : N) : bool := (n =? 0) || (k + (n - 1) <? KEY_LIMIT).
(* k, k+1, ..., k+n-1 *)
Fixpoint key_seq (n : nat) (k : N) : list N :=
  match n with O => [] | S n' => k :: key_seq n' (k + 1) end.
(* the keys of the range that exist (those below 2^256) *)
Definition range_keys (k n : N) : list N :=
  filter (fun k' => k' <? KEY_LIMIT) (key_seq (N.to_nat n) k).

Definition is_some {A} (o : option A) : bool := match o with Some _ => true | None => false end.
Definition b2n (b : bool) : N := if b then 1 else 0.
Definition slice (v : bytes) (off len : N) : bytes := firstn (N.to_nat len) (skipn (N.to_nat off) v).
Definition word_value (val : N) : bytes := be_encode 8 val ++ zeros 24.

(* ---------- word instructions (SRW / SWW) ---------- *)
(* SRW: the off-th 8-byte word of the slot; absent slot: value 0 and flag 0 *)
Definition spec_read_word (m : kvmap) (c k off : N) : sres (N * N) :=
  match m c k with
  | None => SOk (0, 0)
  | Some v => if 8 * off + 8 <=? lenN v then SOk (be_decode (slice v (8 * off) 8), 1)
              else SPanic KR_StorageOutOfBounds
  end.
(* SWW: the slot becomes the 32-byte value [val as 8 big-endian bytes | 24 zero bytes];
   the flag says whether the slot was absent before *)
Definition spec_write_word (m : kvmap) (c k val max_len : N) : sres (kvmap * N) :=
  if 32 <=? max_len then SOk (kv_set m c k (word_value val), b2n (negb (is_some (m c k))))
  else SPanic KR_StorageOutOfBounds.

(* ---------- 32-byte slot ranges (SRWQ / SWWQ / SCWQ / SCLR) ---------- *)
Definition slot32_ok (o : option bytes) : bool :=
  match o with Some v => lenN v =? 32 | None => true end.
Definition slot32_data (o : option bytes) : bytes := match o with Some v => v | None => zeros 32 end.
(* SRWQ: every present slot of the range must hold exactly 32 bytes; the result is the
   concatenation of the slot values (zeros for absent slots) and the "all present" flag *)
Definition spec_read_quads (m : kvmap) (c k n : N) : sres (bytes * N) :=
  if U32_MAX <? n then SPanic KR_TooManySlots else
  let ks := range_keys k n in
  if negb (forallb (fun k' => slot32_ok (m c k')) ks) then SPanic KR_StorageOutOfBounds
  else if negb (range_ok k n) then SPanic KR_TooManySlots
  else SOk (concat (map (fun k' => slot32_data (m c k')) ks), b2n (forallb (fun k' => is_some (m c k')) ks)).
(* SWWQ: slot k+i := i-th 32-byte chunk of data; result = number of slots absent before *)
Fixpoint kv_set_chunks (m : kvmap) (c k : N) (chunks : list bytes) : kvmap :=
  match chunks with
  | [] => m
  | v :: r => kv_set_chunks (kv_set m c k v) c (k + 1) r
  end.
Definition count_absent (m : kvmap) (c : N) (ks : list N) : N :=
  lenN (filter (fun k' => negb (is_some (m c k'))) ks).
Definition spec_write_quads (m : kvmap) (c k : N) (chunks : list bytes) (max_len : N) : sres (kvmap * N) :=
  let n := lenN chunks in
  if U32_MAX <? n then SPanic KR_TooManySlots else
  if (0 <? n) && (max_len <? 32) then SPanic KR_StorageOutOfBounds
  else if negb (range_ok k n) then SPanic KR_TooManySlots
  else SOk (kv_set_chunks m c k chunks, count_absent m c (range_keys k n)).
(* SCWQ: clears the range, flag = all slots were present *)
Definition spec_clear_quads (m : kvmap) (c k n : N) : sres (kvmap * N) :=
  if U32_MAX <? n then SPanic KR_TooManySlots else
  if negb (range_ok k n) then SPanic KR_TooManySlots
  else SOk (kv_clear_range m c k n, b2n (forallb (fun k' => is_some (m c k')) (range_keys k n))).
(* SCLR *)
Definition spec_clear (m : kvmap) (c k n : N) : sres kvmap :=
  if U32_MAX <? n then SPanic KR_TooManySlots else
  if negb (range_ok k n) then SPanic KR_TooManySlots else SOk (kv_clear_range m c k n).

(* ---------- dynamic-length instructions (SRDD/SRDI, SWRD/SWRI, SUPD/SUPI, SPLD) ---------- *)
(* read len bytes at offset off: None = slot absent ($err = 1, nothing written) *)
Definition spec_read_dyn (m : kvmap) (c k off len : N) : sres (option bytes) :=
  if (U32_MAX <? off) || (U32_MAX <? len) then SPanic KR_MemoryOverflow else
  match m c k with
  | None => SOk None
  | Some v => if off + len <=? lenN v then SOk (Some (slice v off len)) else SPanic KR_StorageOutOfBounds
  end.
Definition spec_write_dyn (m : kvmap) (c k : N) (data : bytes) (max_len : N) : sres kvmap :=
  if lenN data <=? max_len then SOk (kv_set m c k data) else SPanic KR_StorageOutOfBounds.
(* update: overwrite data at offset off of the current value (absent = empty), growing the value
   with the written bytes (never leaving a gap: off <= current length); off = u64::MAX means
   "append" *)
Definition splice (v : bytes) (off : N) (data : bytes) : bytes :=
  firstn (N.to_nat off) v ++ data ++ skipn (N.to_nat (off + lenN data)) v.
Definition spec_update_dyn (m : kvmap) (c k off : N) (data : bytes) (max_len : N) : sres kvmap :=
  let v := match m c k with Some v => v | None => [] end in
  let off' := if off =? U64_MAX then lenN v else off in
  if negb (off =? U64_MAX) && (U32_MAX <? off) then SPanic KR_MemoryOverflow
  else if lenN v <? off' then SPanic KR_StorageOutOfBounds
  else let v' := splice v off' data in
       if max_len <? lenN v' then SPanic KR_StorageOutOfBounds      (* the new value must respect the limit *)
       else SOk (kv_set m c k v').
(* SPLD: (length, $err) *)
Definition spec_preload (m : kvmap) (c k : N) : N * N :=
  match m c k with Some v => (lenN v, 0) | None => (0, 1) end.

(* ---------- programs over the plain map ----------
   A storage instruction (and any sequence of them) is a program built from three slot
   primitives; its meaning on the plain map is [run_plain].  Reads return what the map holds,
   writes and clears change the map and nothing else; a written value longer than the
   consensus limit, and a range leaving the key space, are refused. *)
Inductive kprog (A : Type) :=
| KRet (a : A)
| KFail (r : kreason)
| KRead (c k : N) (cont : option bytes -> kprog A)
| KWrite (c k : N) (v : bytes) (cont : kprog A)
| KClear (c k n : N) (cont : kprog A).
Arguments KRet {A} a.
Arguments KFail {A} r.
Arguments KRead {A} c k cont.
Arguments KWrite {A} c k v cont.
Arguments KClear {A} c k n cont.

(* persistent effects in program order *)
Inductive wevent := WWrite (c k : N) (v : bytes) | WRemoveRange (c k n : N).

Fixpoint run_plain {A} (max_len : N) (p : kprog A) (m : kvmap) : sres A * kvmap * list wevent :=
  match p with
  | KRet a => (SOk a, m, [])
  | KFail r => (SPanic r, m, [])
  | KRead c k cont => run_plain max_len (cont (m c k)) m
  | KWrite c k v cont =>
      if max_len <? lenN v then (SPanic KR_StorageOutOfBounds, m, [])
      else let '(r, m', w) := run_plain max_len cont (kv_set m c k v) in (r, m', WWrite c k v :: w)
  | KClear c k n cont =>
      if negb (range_ok k n) then (SPanic KR_TooManySlots, m, [])
      else let '(r, m', w) := run_plain max_len cont (kv_clear_range m c k n) in (r, m', WRemoveRange c k n :: w)
  end.

Fixpoint kbind {A B} (p : kprog A) (f : A -> kprog B) : kprog B :=
  match p with
  | KRet a => f a
  | KFail r => KFail r
  | KRead c k cont => KRead c k (fun v => kbind (cont v) f)
  | KWrite c k v cont => KWrite c k v (kbind cont f)
  | KClear c k n cont => KClear c k n (kbind cont f)
  end.
