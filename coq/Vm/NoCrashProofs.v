(* Vm/NoCrashProofs.v — termination of the run loop of Vm/NoCrashModel.v within the gas limit, and
   the obligation on the generated default gas table that makes it apply. *)
From Coq Require Import List NArith Bool Lia.
From FV Require Import Base.Bytes Base.U64 Vm.FlowSpec Vm.GasTypes Vm.GasSpec Gen.GasTable Vm.GasModel Vm.GasProofs
                       Vm.NoCrashModel.
Import ListNotations.
Open Scope N_scope.

Section NoCrashProofs.
  Variable St : Type.
  Variable Res : Type.
  Variable gas_of : St -> gstate.
  Variable set_gas : St -> gstate -> St.
  Variable fetch : St -> option N.
  Variable fault : St -> Res.
  Variable base_cost : N -> option N.
  Variable no_charge : N -> St -> Res.
  Variable pre : N -> St -> St + Res.
  Variable extra : N -> St -> N.
  Variable post : N -> St -> St + Res.
  Variable out_of_gas : St -> Res.
  Variable bug : St -> Res.

  Local Notation step := (step St Res gas_of set_gas fetch fault base_cost no_charge pre extra post out_of_gas bug).
  Local Notation run := (run St Res gas_of set_gas fetch fault base_cost no_charge pre extra post out_of_gas bug).
  Local Notation steps := (steps St Res gas_of set_gas fetch fault base_cost no_charge pre extra post out_of_gas bug).
  Local Notation G s := (ggas (gas_of s)).

  (* every charged base cost is at least 1 (the obligation on the gas schedule) *)
  Hypothesis base_cost_pos : forall op b, base_cost op = Some b -> 1 <= b.
  (* writing the gas registers, reading them back *)
  Hypothesis gas_set_get : forall s g, gas_of (set_gas s g) = g.
  (* nothing but gas_charge changes $ggas upwards: what handlers do before and after their first
     charge never increases the global gas *)
  Hypothesis pre_ggas : forall op s s1, pre op s = inl s1 -> G s1 <= G s.
  Hypothesis post_ggas : forall op s s', post op s = inl s' -> G s' <= G s.

  (* C29_progress: an instruction after which the loop continues has consumed at least one unit of
     global gas *)
  Lemma step_progress (s s' : St) : step s = inl s' -> G s' + 1 <= G s.
  Proof.
    unfold NoCrashModel.step.
    destruct (fetch s) as [op|]; [|discriminate].
    destruct (base_cost op) as [b|] eqn:Hb; [|discriminate].
    destruct (pre op s) as [s1|r] eqn:Hp; [|discriminate].
    pose proof (base_cost_pos op b Hb) as Hpos. pose proof (pre_ggas op s s1 Hp) as Hpre.
    unfold gas_charge.
    destruct (cgas (gas_of s1) <? b + extra op s1); [discriminate|].
    destruct (ggas (gas_of s1) <? b + extra op s1) eqn:Hg; [discriminate|].
    intro Hpost. apply post_ggas in Hpost. rewrite gas_set_get in Hpost. cbn [ggas] in Hpost.
    apply N.ltb_ge in Hg. lia.
  Qed.

  (* C29_terminates: the run ends within (global gas + 1) instructions *)
  Lemma run_terminates_aux (k : nat) : forall s, (N.to_nat (G s) <= k)%nat -> exists r, run (S k) s = Some r.
  Proof.
    induction k as [|k IH]; intros s Hk; cbn [NoCrashModel.run].
    - destruct (step s) as [s'|r] eqn:E; [|eauto]. apply step_progress in E. lia.
    - destruct (step s) as [s'|r] eqn:E; [|eauto]. apply step_progress in E.
      apply IH. lia.
  Qed.

  Theorem run_terminates (s : St) : exists r, run (S (N.to_nat (G s))) s = Some r.
  Proof. apply run_terminates_aux. lia. Qed.

  Lemma steps_S (n : nat) (s : St) :
    steps (S n) s = match step s with inl s' => option_map S (steps n s') | inr _ => Some 1%nat end.
  Proof. reflexivity. Qed.

  Lemma steps_bound_aux (k : nat) : forall s, (N.to_nat (G s) <= k)%nat ->
    exists m, steps (S k) s = Some m /\ (m <= N.to_nat (G s) + 1)%nat.
  Proof.
    induction k as [|k IH]; intros s Hk; rewrite steps_S.
    - destruct (step s) as [s'|r] eqn:E; [apply step_progress in E; lia|]. exists 1%nat. split; [reflexivity|lia].
    - destruct (step s) as [s'|r] eqn:E.
      + apply step_progress in E. destruct (IH s' ltac:(lia)) as (m & Hm & Hle).
        exists (S m). rewrite Hm. split; [reflexivity|lia].
      + exists 1%nat. split; [reflexivity|lia].
  Qed.

  (* the number of executed instructions is at most the global gas at the start, plus one *)
  Theorem steps_bound (s : St) :
    exists m, steps (S (N.to_nat (G s))) s = Some m /\ (m <= N.to_nat (G s) + 1)%nat.
  Proof. apply steps_bound_aux. lia. Qed.
End NoCrashProofs.

(* ---------------------------------------------------------------- the obligation on the generated table *)
Lemma nlookup_in {A} (k : N) : forall (l : list (N * A)) v, nlookup k l = Some v -> In (k, v) l.
Proof.
  induction l as [|[k' v'] t IH]; intros v H; cbn [nlookup] in H; [discriminate|].
  destruct (k =? k') eqn:E.
  - apply N.eqb_eq in E. subst. injection H as <-. left. reflexivity.
  - right. apply IH. exact H.
Qed.

(* under the DEFAULT schedule every opcode that charges at all charges at least 1 first *)
Theorem base_cost_default_pos (op b : N) : base_cost_default op = Some b -> 1 <= b.
Proof.
  intro H. pose proof H as H0. unfold base_cost_default, first_sel in H.
  destruct (nlookup op gas_table) as [[name sel]|] eqn:E; cbn [option_map snd] in H; [|discriminate].
  pose proof (nlookup_in _ _ _ E) as Hin.
  assert (Hs : sel <> SelNone). { intro; subst; discriminate. }
  destruct (base_cost_default_ge_1 op name sel Hin Hs) as (g & Hg & Hle).
  rewrite H0 in Hg. injection Hg as ->. exact Hle.
Qed.

(* ---------------------------------------------------------------- non-vacuity of the premises *)
(* a machine whose state is (gas registers, remaining opcode bytes): every instruction pays the
   default base cost of its opcode; handlers do nothing else *)
Module NoCrashExample.
  Definition St := (gstate * list N)%type.
  Definition gas_of (s : St) := fst s.
  Definition set_gas (s : St) (g : gstate) : St := (g, snd s).
  Definition fetch (s : St) : option N := match snd s with [] => None | op :: _ => Some op end.
  Definition pre (op : N) (s : St) : St + N := inl s.
  Definition post (op : N) (s : St) : St + N := inl (fst s, tl (snd s)).
  Definition run := NoCrashModel.run St N gas_of set_gas fetch (fun _ => 0) base_cost_default (fun op _ => op) pre (fun _ _ => 0) post (fun _ => 1) (fun _ => 2).

  Example premises_hold :
    (forall op b, base_cost_default op = Some b -> 1 <= b) /\
    (forall s g, gas_of (set_gas s g) = g) /\
    (forall op s s1, pre op s = inl s1 -> ggas (gas_of s1) <= ggas (gas_of s)) /\
    (forall op s s', post op s = inl s' -> ggas (gas_of s') <= ggas (gas_of s)).
  Proof.
    split; [exact base_cost_default_pos|]. split; [reflexivity|]. split.
    - intros op s s1 H. injection H as <-. apply N.le_refl.
    - intros op s s' H. injection H as <-. apply N.le_refl.
  Qed.
  (* ADD (0x10), ADDI (0x50), then an undefined opcode byte 0x0f: ends with InvalidInstruction *)
  Example runs : run 4 ({| cgas := 10; ggas := 10; saved := [] |}, [16; 80; 15]) = Some 15.
  Proof. vm_compute. reflexivity. Qed.
  (* with 1 unit of gas the second instruction runs out of gas *)
  Example runs_out_of_gas : run 3 ({| cgas := 1; ggas := 1; saved := [] |}, [16; 80; 15]) = Some 1.
  Proof. vm_compute. reflexivity. Qed.
End NoCrashExample.
