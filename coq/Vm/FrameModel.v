(* Vm/FrameModel.v — L1 model of call frames and of the abstract machine used for C24 / C34.

     CallFrame (layout, to_bytes)                         fuel-vm/src/call.rs        -> frame / frame_bytes
     PrepareCallCtx::prepare_call (from the gas forward on) interpreter/flow.rs      -> call_regs / step (CCall ..)
     RetCtx::ret / ret_data / return_from_context          interpreter/flow.rs       -> ret_regs / step (CRet ..)
     Context::update_from_frame_pointer                    context.rs                -> is_internal (= frames <> [])
     OwnershipRegisters::new                               interpreter/memory.rs     -> cur_owner
     stack_pointer_overflow (CFE/CFEI/CFS/CFSI), malloc (ALOC), push/pop_selected_registers,
     LoadContractCodeCtx::load_* (LDC), balance / output writes of the VM      -> step (CCfe .. CVmWrite)

   The machine abstracts an instruction to the effect it has on the layout registers
   ($ssp $sp $fp $hp), on the frame stack and on memory: [CHavoc] stands for every instruction
   that only changes other registers (ALU, jumps, flags, gas, loads ...), [CWrite]/[CCopy] for
   every instruction that stores through MemoryInstance::write / memcopy.  Gas charging, balance
   bookkeeping and receipts are not modelled here (C26/C27/C28); the gas registers after the
   charges of CALL enter as parameters.  Definitions only. *)
From FV Require Import Base.Bytes Base.U64 Gen.VmConsts Vm.OwnModel.
Open Scope N_scope.

Definition regs := N -> N.
Definition upd (r : regs) (k v : N) : regs := fun i => if i =? k then v else r i.

Definition reg_ids : list N := map N.of_nat (seq 0 64).
Definition regs_of_list (l : list N) : regs := fun i => nth (N.to_nat i) l 0.
Definition regs_eqb (r : regs) (l : list N) : bool :=
  Nat.eqb (length l) 64 && forallb (fun i => r i =? nth (N.to_nat i) l 0) reg_ids.

Definition INSTR_SIZE : N := 4.
Definition inc_pc (pc : N) : N := saturating_add U64 pc INSTR_SIZE.

(* ------------------------------------------------------------------ call frames *)
Record frame := {
  f_to : bytes; f_asset : bytes;          (* ContractId, AssetId: 32 bytes each *)
  f_regs : regs;                          (* registers prior to the called execution *)
  f_code_size_padded : N; f_a : N; f_b : N
}.

(* canonical serialization (CallFrame::to_bytes): to | asset_id | 64 registers | code size | a | b,
   words big-endian *)
Definition word_bytes (v : N) : bytes := be_encode 8 v.
Definition frame_bytes (f : frame) : bytes :=
  f_to f ++ f_asset f ++ flat_map (fun i => word_bytes (f_regs f i)) reg_ids
  ++ word_bytes (f_code_size_padded f) ++ word_bytes (f_a f) ++ word_bytes (f_b f).

(* reading a frame back from its bytes (what a debugger / the harness does) *)
Definition slice (bs : bytes) (off len : N) : bytes := firstn (N.to_nat len) (skipn (N.to_nat off) bs).
Definition word_at (bs : bytes) (off : N) : N := be_decode (slice bs off 8).
Definition frame_of_bytes (bs : bytes) : frame :=
  {| f_to := slice bs CF_TO_OFFSET 32; f_asset := slice bs CF_ASSET_OFFSET 32;
     f_regs := fun i => word_at bs (CF_REGS_OFFSET + 8 * i);
     f_code_size_padded := word_at bs CF_CODE_SIZE_OFFSET; f_a := word_at bs CF_A_OFFSET; f_b := word_at bs CF_B_OFFSET |}.

(* ------------------------------------------------------------------ register effect of CALL *)
(* prepare_call from `forward_gas_amount` on.  cgas1/ggas1: $cgas/$ggas after the charges of
   the instruction; total = CallFrame::serialized_size() + code_size_padded.
   Returns (registers saved in the frame, registers of the callee). *)
Definition call_regs (r : regs) (total amount gas_fwd cgas1 ggas1 : N) : regs * regs :=
  let forward := N.min cgas1 gas_fwd in
  let saved := upd (upd r REG_CGAS (cgas1 - forward)) REG_GGAS ggas1 in
  let old_sp := r REG_SP in
  let new_sp := saturating_add U64 old_sp total in
  let code_start := old_sp + CF_SIZE in
  let r1 := upd saved REG_SP new_sp in
  let r2 := upd r1 REG_SSP new_sp in
  let r3 := upd r2 REG_FP old_sp in
  let r4 := upd r3 REG_PC code_start in
  let r5 := upd r4 REG_BAL amount in
  let r6 := upd r5 REG_IS code_start in
  let r7 := upd r6 REG_CGAS forward in
  (saved, upd r7 REG_FLAG 0).

(* register effect of RET / RETD: ret/ret_data set $ret/$retl, return_from_context pops the frame *)
Definition ret_regs (r : regs) (fr : option frame) (a b : N) : option regs :=
  let r1 := upd (upd r REG_RET a) REG_RETL b in
  match fr with
  | None => Some (upd r1 REG_PC (inc_pc (r1 REG_PC)))
  | Some f =>
      match checked_add U64 (r1 REG_CGAS) (f_regs f REG_CGAS) with
      | None => None                                  (* Bug::ContextGasOverflow *)
      | Some cgas =>
          let r2 := upd (upd (upd (upd (upd (f_regs f) REG_CGAS cgas) REG_GGAS (r1 REG_GGAS))
                                  REG_RET (r1 REG_RET)) REG_RETL (r1 REG_RETL)) REG_HP (r1 REG_HP) in
          Some (upd r2 REG_PC (inc_pc (r2 REG_PC)))
      end
  end.

(* ------------------------------------------------------------------ machine state *)
Record vstate := {
  v_regs : regs;
  v_frames : list frame;          (* Interpreter::frames, innermost first *)
  v_mem : amem;
  v_vm_hi : N                     (* end of the VM's own area [0, vm_hi): tx id, base asset id, balance
                                     table, transaction bytes = the script's initial $ssp *)
}.

Definition with_regs (s : vstate) (r : regs) : vstate :=
  {| v_regs := r; v_frames := v_frames s; v_mem := v_mem s; v_vm_hi := v_vm_hi s |}.
Definition with_mem (s : vstate) (m : amem) : vstate :=
  {| v_regs := v_regs s; v_frames := v_frames s; v_mem := m; v_vm_hi := v_vm_hi s |}.
Definition mk (s : vstate) (r : regs) (fs : list frame) (m : amem) : vstate :=
  {| v_regs := r; v_frames := fs; v_mem := m; v_vm_hi := v_vm_hi s |}.

Definition depth (s : vstate) : nat := length (v_frames s).
Definition is_internal (s : vstate) : bool := match v_frames s with [] => false | _ => true end.

(* OwnershipRegisters::new(vm) *)
Definition cur_owner (s : vstate) : ownregs :=
  own_new (v_regs s REG_SSP) (v_regs s REG_SP) (v_regs s REG_HP)
          (match v_frames s with [] => None | f :: _ => Some (f_regs f REG_HP) end).

Definition layout_regs_same (r r' : regs) : bool :=
  (r' REG_SSP =? r REG_SSP) && (r' REG_SP =? r REG_SP) && (r' REG_FP =? r REG_FP) && (r' REG_HP =? r REG_HP).

Inductive cop :=
| CHavoc (r' : regs)                       (* any instruction changing only non-layout registers *)
| CWrite (a : N) (bs : bytes)              (* any store through MemoryInstance::write(owner, ..) *)
| CCopy (dst src len : N)                  (* MCP/MCPI *)
| CCfe (n : N)                             (* CFE/CFEI *)
| CCfs (n : N)                             (* CFS/CFSI *)
| CAloc (n : N)                            (* ALOC *)
| CPush (vals : list N)                    (* PSHL/PSHH: the selected register values *)
| CPop (k : N) (r' : regs)                 (* POPL/POPH: k registers restored from the stack *)
| CLdc (code : bytes)                      (* LDC (any mode): the bytes to append, already padded *)
| CVmWrite (a : N) (bs : bytes)            (* balance entry / transaction output written by the VM *)
| CCall (to asset : bytes) (a b : N) (code : bytes) (amount gas_fwd cgas1 ggas1 : N)
| CRet (a : N)                             (* RET *)
| CRetd (a b : N).                         (* RETD *)

Definition res_opt {A} (r : res A) : option A := match r with Ok a => Some a | Err _ => None end.

Definition return_from (s : vstate) (a b : N) : option vstate :=
  match v_frames s with
  | [] => option_map (fun r => mk s r [] (v_mem s)) (ret_regs (v_regs s) None a b)
  | f :: rest => option_map (fun r => mk s r rest (v_mem s)) (ret_regs (v_regs s) (Some f) a b)
  end.

(* None = the instruction panics (the transaction ends) *)
Definition step (s : vstate) (op : cop) : option vstate :=
  let r := v_regs s in
  let m := v_mem s in
  match op with
  | CHavoc r' => if layout_regs_same r r' then Some (with_regs s r') else None
  | CWrite a bs => option_map (with_mem s) (res_opt (mem_write m (cur_owner s) a bs))
  | CCopy dst src len => option_map (with_mem s) (res_opt (mem_memcopy m (cur_owner s) dst src len))
  | CCfe n =>
      (* stack_pointer_overflow(overflowing_add) *)
      let new_sp := r REG_SP + n in
      if U64 <=? new_sp then None
      else option_map (fun m' => mk s (upd r REG_SP new_sp) (v_frames s) m')
                      (res_opt (try_update_sp m (r REG_SSP) (r REG_HP) new_sp))
  | CCfs n =>
      if r REG_SP <? n then None
      else let new_sp := r REG_SP - n in
           option_map (fun m' => mk s (upd r REG_SP new_sp) (v_frames s) m')
                      (res_opt (try_update_sp m (r REG_SSP) (r REG_HP) new_sp))
  | CAloc n =>
      option_map (fun m' => mk s (upd r REG_HP (m_hp m')) (v_frames s) m') (res_opt (grow_heap_by m (r REG_SP) n))
  | CPush vals =>
      let bs := flat_map word_bytes vals in
      let write_at := r REG_SP in
      let new_sp := saturating_add U64 write_at (lenN bs) in
      match try_update_sp m (r REG_SSP) (r REG_HP) new_sp with
      | Err _ => None
      | Ok m1 => option_map (fun m' => mk s (upd r REG_SP new_sp) (v_frames s) m')
                            (res_opt (write_noownerchecks m1 write_at bs))
      end
  | CPop k r' =>
      match checked_sub (r REG_SP) (8 * k) with
      | None => None
      | Some new_sp =>
          if layout_regs_same r r' then
            option_map (fun m' => mk s (upd r' REG_SP new_sp) (v_frames s) m')
                       (res_opt (try_update_sp m (r REG_SSP) (r REG_HP) new_sp))
          else None
      end
  | CLdc code =>
      let ssp := r REG_SSP in
      if negb (ssp =? r REG_SP) then None               (* ExpectedUnallocatedStack *)
      else
        let length := lenN code in
        let new_sp := saturating_add U64 ssp length in
        match grow_stack m new_sp with
        | Err _ => None
        | Ok m1 =>
            let owner := only_allow_stack_write new_sp ssp (r REG_HP) in
            match mem_write m1 owner ssp code with
            | Err _ => None
            | Ok m2 =>
                let r2 := upd (upd r REG_SP new_sp) REG_SSP new_sp in
                match v_frames s with
                | [] => Some (mk s r2 [] m2)
                | _ :: _ =>
                    (* the frame's code-size word, without an ownership check *)
                    let ptr := saturating_add U64 (r REG_FP) CF_CODE_SIZE_OFFSET in
                    match mem_read m2 ptr 8 with
                    | Err _ => None
                    | Ok old =>
                        match checked_add U64 (padded_len (be_decode old)) length with
                        | None => None
                        | Some new_size =>
                            option_map (fun m3 => mk s r2 (v_frames s) m3)
                                       (res_opt (write_noownerchecks m2 ptr (word_bytes new_size)))
                        end
                    end
                end
            end
        end
  | CVmWrite a bs =>
      if a + lenN bs <=? v_vm_hi s then option_map (with_mem s) (res_opt (write_noownerchecks m a bs)) else None
  | CCall to asset a b code amount gas_fwd cgas1 ggas1 =>
      let code_size := lenN code in
      let padded := padded_len code_size in
      let total := CF_SIZE + padded in
      let '(saved, r') := call_regs r total amount gas_fwd cgas1 ggas1 in
      let f := {| f_to := to; f_asset := asset; f_regs := saved; f_code_size_padded := padded; f_a := a; f_b := b |} in
      let payload := frame_bytes f ++ code ++ zeros (N.to_nat (padded - code_size)) in
      if negb (lenN payload =? total) then None           (* ids are 32 bytes *)
      else
        match grow_stack m (r' REG_SP) with
        | Err _ => None
        | Ok m1 => option_map (fun m2 => mk s r' (f :: v_frames s) m2)
                              (res_opt (write_noownerchecks m1 (r' REG_FP) payload))
        end
  | CRet a => return_from s a 0
  | CRetd a b =>
      match mem_read m a b with
      | Err _ => None
      | Ok _ => return_from s a b
      end
  end.

(* ------------------------------------------------------------------ invariant *)
(* the chain of frames: each frame sits at its caller's $sp, the current stack region starts
   after the frame and the copied code, the heap pointer never moves up *)
Fixpoint frames_ok (vm_hi fp ssp hp : N) (fs : list frame) : Prop :=
  match fs with
  | [] => fp = 0 /\ vm_hi <= ssp
  | f :: rest =>
      let r := f_regs f in
      fp = r REG_SP /\ fp + CF_SIZE + f_code_size_padded f <= ssp /\ hp <= r REG_HP /\
      r REG_SSP <= r REG_SP /\ r REG_HP <= VM_MAX_RAM /\
      frames_ok vm_hi (r REG_FP) (r REG_SSP) (r REG_HP) rest
  end.

Definition Inv (s : vstate) : Prop :=
  let r := v_regs s in
  let m := v_mem s in
  r REG_SSP <= r REG_SP /\ r REG_SP <= m_stack_len m /\ m_stack_len m <= m_hp m /\ m_hp m = r REG_HP /\
  r REG_HP <= VM_MAX_RAM /\ frames_ok (v_vm_hi s) (r REG_FP) (r REG_SSP) (r REG_HP) (v_frames s).

(* lowest address the current context (or the VM on its behalf) may change outside the VM area:
   the frame pointer of the current frame (= the caller's $sp), or the end of the VM area *)
Definition base (s : vstate) : N :=
  match v_frames s with [] => v_vm_hi s | _ :: _ => v_regs s REG_FP end.

(* region an operation's VM-own write may touch (besides the owned regions) *)
Definition vm_region (s : vstate) (op : cop) (x : N) : Prop :=
  let r := v_regs s in
  match op with
  | CCfe n => r REG_SP <= x < r REG_SP + n
  | CAloc n => r REG_HP - n <= x < r REG_HP
  | CPush vals => r REG_SP <= x < r REG_SP + 8 * lenN vals
  | CLdc code => (r REG_SSP <= x < r REG_SSP + lenN code) \/
                 (is_internal s = true /\ r REG_FP + CF_CODE_SIZE_OFFSET <= x < r REG_FP + CF_CODE_SIZE_OFFSET + 8)
  | CVmWrite a bs => a <= x < a + lenN bs /\ a + lenN bs <= v_vm_hi s
  | CCall _ _ _ _ code _ _ _ _ => r REG_SP <= x < r REG_SP + CF_SIZE + padded_len (lenN code)
  | _ => False
  end.

(* execution while the call depth stays above [floor]: every operation starts at depth > floor *)
Fixpoint run_above (floor : nat) (s : vstate) (ops : list cop) : option vstate :=
  match ops with
  | [] => Some s
  | op :: rest =>
      if Nat.ltb floor (depth s) then
        match step s op with Some s' => run_above floor s' rest | None => None end
      else None
  end.

(* plain execution *)
Fixpoint run (s : vstate) (ops : list cop) : option vstate :=
  match ops with
  | [] => Some s
  | op :: rest => match step s op with Some s' => run s' rest | None => None end
  end.
