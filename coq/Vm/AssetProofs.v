(* Vm/AssetProofs.v — proofs about the asset machine of Vm/AssetModel.v (C27):
   every operation is a movement of exactly the receipt's amount (step_moved), preserves the
   per-asset total (step_conserves), keeps the balance table in memory equal to the internal
   free balances (table invariant), and the ledger equation of Vm/AssetSpec.v holds at
   finalisation for every operation sequence and every ending (ledger_holds). *)
From FV Require Import Base.Bytes Base.U64 Gen.AssetTable Vm.AssetModel Vm.AssetSpec.
Open Scope N_scope.

(* ------------------------------------------------------------------ maps *)
Section KMapFacts.
  Context {K V : Type} (keqb : K -> K -> bool).
  Hypothesis keqb_spec : forall x y, reflect (x = y) (keqb x y).

  Lemma kget_kset (m : list (K * V)) k v k' :
    kget keqb (kset keqb m k v) k' = if keqb k k' then Some v else kget keqb m k'.
  Proof.
    induction m as [|[k0 v0] r IH]; cbn [kset kget].
    - reflexivity.
    - destruct (keqb_spec k0 k) as [->|Hn]; cbn [kget].
      + destruct (keqb_spec k k'); reflexivity.
      + rewrite IH. destruct (keqb_spec k0 k') as [->|Hn'].
        * destruct (keqb_spec k k') as [->|]; [contradiction | reflexivity].
        * reflexivity.
  Qed.

  Lemma kset_keys_in (m : list (K * V)) k v :
    kget keqb m k <> None -> map fst (kset keqb m k v) = map fst m.
  Proof.
    induction m as [|[k0 v0] r IH]; cbn [kset kget map fst]; intros H.
    - congruence.
    - destruct (keqb_spec k0 k) as [->|Hn]; cbn [map fst]; [reflexivity|].
      f_equal. apply IH. exact H.
  Qed.

  Lemma kset_keys_notin (m : list (K * V)) k v :
    kget keqb m k = None -> map fst (kset keqb m k v) = map fst m ++ [k].
  Proof.
    induction m as [|[k0 v0] r IH]; cbn [kset kget map fst app]; intros H.
    - reflexivity.
    - destruct (keqb_spec k0 k) as [->|Hn]; [discriminate|]. cbn [map fst]. f_equal. apply IH. exact H.
  Qed.

  Lemma kget_none_notin (m : list (K * V)) k : kget keqb m k = None <-> ~ In k (map fst m).
  Proof.
    induction m as [|[k0 v0] r IH]; cbn [kget map fst In]; split; intros H; auto.
    - destruct (keqb_spec k0 k) as [->|Hn]; [discriminate|]. intros [E|I]; [congruence|]. apply IH in H. contradiction.
    - destruct (keqb_spec k0 k) as [->|Hn]; [exfalso; apply H; left; reflexivity|].
      apply IH. intros I. apply H. right. exact I.
  Qed.
End KMapFacts.

Lemma Neqb_spec x y : reflect (x = y) (x =? y).
Proof. apply N.eqb_spec. Qed.
Lemma pair_eqb_spec x y : reflect (x = y) (pair_eqb x y).
Proof.
  destruct x as [a b], y as [c d]. unfold pair_eqb; cbn [fst snd].
  destruct (N.eqb_spec a c) as [->|H1]; destruct (N.eqb_spec b d) as [->|H2]; cbn [andb]; constructor; congruence.
Qed.

Lemma nget_nset {V} (m : list (N * V)) k v k' : nget (nset m k v) k' = if k =? k' then Some v else nget m k'.
Proof. apply kget_kset. exact Neqb_spec. Qed.
Lemma cget_cset (m : list ((N * N) * N)) k v k' : cget (cset m k v) k' = if pair_eqb k k' then Some v else cget m k'.
Proof. apply kget_kset. exact pair_eqb_spec. Qed.

Lemma getd_nset (m : list (N * N)) k v k' : getd (nset m k v) k' = if k =? k' then v else getd m k'.
Proof. unfold getd. rewrite nget_nset. destruct (k =? k'); reflexivity. Qed.

Lemma getd_bump m a amt b : getd (bump m a amt) b = getd m b + (if b =? a then amt else 0).
Proof.
  unfold bump. rewrite getd_nset. rewrite (N.eqb_sym b a).
  destruct (N.eqb_spec a b) as [->|]; lia.
Qed.

(* ------------------------------------------------------------------ sums *)
Lemma csum_cset a cb c a' v :
  csum a (cset cb (c, a') v) + (if a' =? a then balance cb c a' else 0) = csum a cb + (if a' =? a then v else 0).
Proof.
  unfold balance. induction cb as [|[[c0 a0] v0] r IH]; cbn [kset kget csum].
  - destruct (a' =? a); lia.
  - destruct (pair_eqb_spec (c0, a0) (c, a')) as [E|Hn].
    + injection E as -> ->. cbn [csum]. destruct (a' =? a); lia.
    + cbn [csum]. destruct (a0 =? a); destruct (a' =? a); lia.
Qed.

Lemma balance_cset cb c a v d b :
  balance (cset cb (c, a) v) d b = if (c =? d) && (a =? b) then v else balance cb d b.
Proof. unfold balance. rewrite cget_cset. unfold pair_eqb; cbn [fst snd]. destruct ((c =? d) && (a =? b)); reflexivity. Qed.

Lemma replace_variable_sum outs idx to amt a o' b :
  replace_variable_output outs idx (OVariable to amt a) = Some o' ->
  out_variable b o' = out_variable b outs + (if a =? b then amt else 0).
Proof.
  revert idx o'. induction outs as [|x r IH]; intros idx o' H; cbn [replace_variable_output] in H.
  - discriminate.
  - destruct (idx =? 0).
    + destruct x; try discriminate. destruct (N.eqb_spec amt0 0) as [->|]; [|discriminate].
      injection H as <-. cbn [out_variable]. destruct (a0 =? b); destruct (a =? b); lia.
    + destruct (replace_variable_output r (idx - 1) _) as [r'|] eqn:E; [|discriminate]. cbn [opt_bind] in H.
      injection H as <-. specialize (IH _ _ E). destruct x; cbn [out_variable]; rewrite IH; lia.
Qed.

(* ------------------------------------------------------------------ one operation *)
Section Step.
  Variable asset_of : cid -> N -> asset.
  Variable base : asset.
  Variable inputs : list cid.

  Ltac svm := cbn [v_bal v_mem v_cbal v_outs v_minted v_burned v_msgout with_cbal with_outs] in *.

  Definition same_ghost (s s' : vm) : Prop :=
    v_minted s' = v_minted s /\ v_burned s' = v_burned s /\ v_msgout s' = v_msgout s.

  Lemma checked_balance_sub_value st mem a v st' mem' b :
    checked_balance_sub st mem a v = Some (st', mem') ->
    (match nget st' b with Some x => bvalue x | None => 0 end) + (if b =? a then v else 0)
    = match nget st b with Some x => bvalue x | None => 0 end.
  Proof.
    unfold checked_balance_sub. destruct (nget st a) as [[val ofs]|] eqn:G; cbn [opt_bind bvalue boffset fst snd].
    - unfold checked_sub. destruct (N.leb_spec v val) as [Hle|Hgt]; cbn [opt_bind].
      + intros H; injection H as <- <-. rewrite nget_nset. rewrite (N.eqb_sym b a).
        destruct (N.eqb_spec a b) as [->|]; [rewrite G; cbn [bvalue fst]; lia | lia].
      + destruct (N.eqb_spec v 0) as [->|]; [|discriminate]. intros H; injection H as <- <-.
        destruct (b =? a); lia.
    - destruct (N.eqb_spec v 0) as [->|]; [|discriminate]. intros H; injection H as <- <-.
      destruct (b =? a); lia.
  Qed.

  (* debit: exactly amt leaves the source account; totals of the other components untouched *)
  Lemma debit_spec s cx a amt s1 :
    debit s cx a amt = Ok s1 ->
    v_outs s1 = v_outs s /\ same_ghost s s1 /\
    (forall b, free_value s1 b + csum b (v_cbal s1) + (if b =? a then amt else 0)
               = free_value s b + csum b (v_cbal s)) /\
    (forall x b, holding s1 x b + (if is_acc (source_of cx) x && (b =? a) then amt else 0) = holding s x b).
  Proof.
    unfold debit. destruct cx as [|src].
    - unfold external_balance_sub. destruct (checked_balance_sub _ _ _ _) as [[st mem]|] eqn:E; [|discriminate].
      intros H; injection H as <-. unfold same_ghost. svm. repeat split; try reflexivity.
      + intros b. unfold free_value; svm. pose proof (checked_balance_sub_value _ _ _ _ _ _ b E). lia.
      + intros x b. destruct x; cbn [holding source_of is_acc account_eqb andb]; unfold free_value; svm; try lia.
        pose proof (checked_balance_sub_value _ _ _ _ _ _ b E). lia.
    - unfold balance_decrease. destruct (N.eqb_spec amt 0) as [->|Hz]; cbn [rbind].
      + intros H; injection H as <-. unfold same_ghost. svm. repeat split; try reflexivity.
        * intros b. unfold free_value; svm. destruct (b =? a); lia.
        * intros x b. destruct x; cbn [holding source_of is_acc account_eqb andb]; unfold free_value; svm; try lia.
          destruct ((src =? c) && (b =? a)); lia.
      + unfold checked_sub. destruct (N.leb_spec amt (balance (v_cbal s) src a)) as [Hle|]; [|discriminate].
        cbn [rbind]. intros H; injection H as <-. unfold same_ghost. svm. repeat split; try reflexivity.
        * intros b. unfold free_value; svm.
          pose proof (csum_cset b (v_cbal s) src a (balance (v_cbal s) src a - amt)) as C.
          rewrite (N.eqb_sym b a). destruct (a =? b); lia.
        * intros x b. destruct x; cbn [holding source_of is_acc account_eqb andb]; unfold free_value; svm; try lia.
          rewrite balance_cset. rewrite (N.eqb_sym b a).
          destruct (N.eqb_spec src c) as [->|]; cbn [andb]; [|lia].
          destruct (N.eqb_spec a b) as [->|]; lia.
  Qed.

  Lemma credit_spec s dst a amt s2 :
    credit s dst a amt = Ok s2 ->
    v_outs s2 = v_outs s /\ same_ghost s s2 /\
    (forall b, free_value s2 b + csum b (v_cbal s2)
               = free_value s b + csum b (v_cbal s) + (if b =? a then amt else 0)) /\
    (forall x b, holding s2 x b = holding s x b + (if is_acc (Acc (AContract dst)) x && (b =? a) then amt else 0)).
  Proof.
    unfold credit, balance_increase. destruct (N.eqb_spec amt 0) as [->|Hz]; cbn [rbind fst].
    - intros H; injection H as <-. unfold same_ghost. svm. repeat split; try reflexivity.
      + intros b. unfold free_value; svm. destruct (b =? a); lia.
      + intros x b. destruct x; cbn [holding is_acc account_eqb andb]; unfold free_value; svm; try lia.
        destruct ((dst =? c) && (b =? a)); lia.
    - unfold checked_add. destruct (N.ltb_spec (balance (v_cbal s) dst a + amt) U64) as [Hlt|]; [|discriminate].
      cbn [rbind fst]. intros H; injection H as <-. unfold same_ghost. svm. repeat split; try reflexivity.
      + intros b. unfold free_value; svm.
        pose proof (csum_cset b (v_cbal s) dst a (balance (v_cbal s) dst a + amt)) as C.
        rewrite (N.eqb_sym b a). destruct (a =? b); lia.
      + intros x b. destruct x; cbn [holding is_acc account_eqb andb]; unfold free_value; svm; try lia.
        rewrite balance_cset. rewrite (N.eqb_sym b a).
        destruct (N.eqb_spec dst c) as [->|]; cbn [andb]; [|lia].
        destruct (N.eqb_spec a b) as [->|]; lia.
  Qed.

  Definition total (a : asset) (s : vm) : N :=
    free_value s a + csum a (v_cbal s) + out_variable a (v_outs s) + getd (v_burned s) a
    + (if a =? base then v_msgout s else 0).

  Ltac ghost H := destruct H as (?Hm & ?Hb & ?Hg).

  (* every successful operation is the movement its receipt announces, of exactly that amount *)
  Theorem step_moved s o s' r :
    step asset_of base inputs s o = Ok (s', r) ->
    exists src dst a amt, announced asset_of base o r = Some (src, dst, a, amt) /\ moved src dst a amt s s'.
  Proof.
    destruct o as [cx dst a amt|cx to idx a amt|cx dst a amt|cx sub amt|cx sub amt|cx amt]; cbn [step].
    - (* TR *)
      unfold transfer. destruct (negb _); [discriminate|]. destruct (amt =? 0); [discriminate|].
      destruct (debit s cx a amt) as [s1|] eqn:D; cbn [rbind]; [|discriminate].
      destruct (credit s1 dst a amt) as [s2|] eqn:C; cbn [rbind]; [|discriminate].
      intros H; injection H as <- <-.
      destruct (debit_spec _ _ _ _ _ D) as (O1 & G1 & _ & H1). destruct (credit_spec _ _ _ _ _ C) as (O2 & G2 & _ & H2).
      exists (source_of cx), (Acc (AContract dst)), a, amt. split.
      { cbn [announced]. rewrite N.eqb_refl. reflexivity. }
      ghost G1. ghost G2. unfold moved. repeat split.
      + intros x b. rewrite H2. rewrite <- (H1 x b). lia.
      + intros b. rewrite Hm0, Hm. destruct cx; cbn; lia.
      + intros b. rewrite Hb0, Hb. cbn; lia.
      + rewrite Hg0, Hg. cbn; lia.
    - (* TRO *)
      unfold transfer_output. destruct (amt =? 0); [discriminate|].
      destruct (debit s cx a amt) as [s1|] eqn:D; cbn [rbind]; [|discriminate].
      destruct (replace_variable_output _ _ _) as [o'|] eqn:R; [|discriminate].
      intros H; injection H as <- <-.
      destruct (debit_spec _ _ _ _ _ D) as (O1 & G1 & _ & H1).
      exists (source_of cx), (Acc AVariable), a, amt. split.
      { cbn [announced]. rewrite N.eqb_refl. reflexivity. }
      ghost G1. unfold moved, with_outs; cbn [v_minted v_burned v_msgout]. repeat split.
      + intros x b. rewrite <- (H1 x b).
        destruct x; cbn [holding is_acc account_eqb andb v_cbal v_outs]; try (unfold free_value; cbn [v_bal]; lia).
        rewrite (replace_variable_sum _ _ _ _ _ _ b R). rewrite (N.eqb_sym b a).
        destruct cx; cbn [source_of is_acc account_eqb andb]; lia.
      + intros b. rewrite Hm. destruct cx; cbn; lia.
      + intros b. rewrite Hb. cbn; lia.
      + rewrite Hg. cbn; lia.
    - (* CALL *)
      unfold call_forward.
      destruct (debit s cx a amt) as [s1|] eqn:D; cbn [rbind]; [|discriminate].
      destruct (negb _); [discriminate|].
      destruct (credit s1 dst a amt) as [s2|] eqn:C; cbn [rbind]; [|discriminate].
      intros H; injection H as <- <-.
      destruct (debit_spec _ _ _ _ _ D) as (O1 & G1 & _ & H1). destruct (credit_spec _ _ _ _ _ C) as (O2 & G2 & _ & H2).
      exists (source_of cx), (Acc (AContract dst)), a, amt. split.
      { cbn [announced]. rewrite N.eqb_refl. reflexivity. }
      ghost G1. ghost G2. unfold moved. repeat split.
      + intros x b. rewrite H2. rewrite <- (H1 x b). lia.
      + intros b. rewrite Hm0, Hm. destruct cx; cbn; lia.
      + intros b. rewrite Hb0, Hb. cbn; lia.
      + rewrite Hg0, Hg. cbn; lia.
    - (* MINT *)
      unfold mint. destruct cx as [|c]; [discriminate|].
      unfold checked_add. destruct (N.ltb_spec (balance (v_cbal s) c (asset_of c sub) + amt) U64) as [Hlt|]; [|discriminate].
      intros H; injection H as <- <-.
      exists Supply, (Acc (AContract c)), (asset_of c sub), amt. split.
      { cbn [announced]. rewrite N.eqb_refl. reflexivity. }
      unfold moved; cbn [v_minted v_burned v_msgout is_supply is_burnt is_message andb]. repeat split.
      + intros x b. destruct x; cbn [holding is_acc account_eqb andb v_cbal v_outs]; try (unfold free_value; cbn [v_bal]; lia).
        rewrite balance_cset. rewrite (N.eqb_sym b (asset_of c sub)).
        destruct (N.eqb_spec c c0) as [->|]; cbn [andb]; [|lia].
        destruct (N.eqb_spec (asset_of c0 sub) b) as [<-|]; lia.
      + intros b. rewrite getd_bump. lia.
      + intros b. lia.
      + lia.
    - (* BURN *)
      unfold burn. destruct cx as [|c]; [discriminate|].
      unfold checked_sub. destruct (N.leb_spec amt (balance (v_cbal s) c (asset_of c sub))) as [Hle|]; [|discriminate].
      intros H; injection H as <- <-.
      exists (Acc (AContract c)), Burnt, (asset_of c sub), amt. split.
      { cbn [announced]. rewrite N.eqb_refl. reflexivity. }
      unfold moved; cbn [v_minted v_burned v_msgout is_supply is_burnt is_message andb]. repeat split.
      + intros x b. destruct x; cbn [holding is_acc account_eqb andb v_cbal v_outs]; try (unfold free_value; cbn [v_bal]; lia).
        rewrite balance_cset. rewrite (N.eqb_sym b (asset_of c sub)).
        destruct (N.eqb_spec c c0) as [->|]; cbn [andb]; [|lia].
        destruct (N.eqb_spec (asset_of c0 sub) b) as [<-|]; lia.
      + intros b. lia.
      + intros b. rewrite getd_bump. lia.
      + lia.
    - (* SMO *)
      unfold message_output.
      destruct (debit s cx base amt) as [s1|] eqn:D; cbn [rbind]; [|discriminate].
      intros H; injection H as <- <-.
      destruct (debit_spec _ _ _ _ _ D) as (O1 & G1 & _ & H1).
      exists (source_of cx), Message, base, amt. split; [reflexivity|].
      ghost G1. unfold moved; cbn [v_minted v_burned v_msgout is_supply is_burnt is_message andb]. repeat split.
      + intros x b. rewrite <- (H1 x b).
        destruct x; cbn [holding is_acc account_eqb andb v_cbal v_outs v_bal]; unfold free_value; cbn [v_bal]; lia.
      + intros b. rewrite Hm. destruct cx; cbn; lia.
      + intros b. rewrite Hb. lia.
      + rewrite Hg. lia.
  Qed.

  (* every successful operation preserves, per asset,
     free + sum of contract balances + variable outputs + burned (+ messages for base) - minted *)
  Theorem step_conserves s o s' r :
    step asset_of base inputs s o = Ok (s', r) ->
    forall a, total a s' + getd (v_minted s) a = total a s + getd (v_minted s') a.
  Proof.
    unfold total.
    destruct o as [cx dst a amt|cx to idx a amt|cx dst a amt|cx sub amt|cx sub amt|cx amt]; cbn [step].
    - unfold transfer. destruct (negb _); [discriminate|]. destruct (amt =? 0); [discriminate|].
      destruct (debit s cx a amt) as [s1|] eqn:D; cbn [rbind]; [|discriminate].
      destruct (credit s1 dst a amt) as [s2|] eqn:C; cbn [rbind]; [|discriminate].
      intros H; injection H as <- <-. intros b.
      destruct (debit_spec _ _ _ _ _ D) as (O1 & G1 & T1 & _). destruct (credit_spec _ _ _ _ _ C) as (O2 & G2 & T2 & _).
      ghost G1. ghost G2. rewrite O2, O1, Hm0, Hm, Hb0, Hb, Hg0, Hg. specialize (T1 b). specialize (T2 b). lia.
    - unfold transfer_output. destruct (amt =? 0); [discriminate|].
      destruct (debit s cx a amt) as [s1|] eqn:D; cbn [rbind]; [|discriminate].
      destruct (replace_variable_output _ _ _) as [o'|] eqn:R; [|discriminate].
      intros H; injection H as <- <-. intros b.
      destruct (debit_spec _ _ _ _ _ D) as (O1 & G1 & T1 & _). ghost G1.
      unfold with_outs, free_value; cbn [v_bal v_cbal v_outs v_minted v_burned v_msgout].
      rewrite (replace_variable_sum _ _ _ _ _ _ b R). rewrite O1, Hm, Hb, Hg.
      specialize (T1 b). unfold free_value in T1. rewrite (N.eqb_sym a b). lia.
    - unfold call_forward.
      destruct (debit s cx a amt) as [s1|] eqn:D; cbn [rbind]; [|discriminate].
      destruct (negb _); [discriminate|].
      destruct (credit s1 dst a amt) as [s2|] eqn:C; cbn [rbind]; [|discriminate].
      intros H; injection H as <- <-. intros b.
      destruct (debit_spec _ _ _ _ _ D) as (O1 & G1 & T1 & _). destruct (credit_spec _ _ _ _ _ C) as (O2 & G2 & T2 & _).
      ghost G1. ghost G2. rewrite O2, O1, Hm0, Hm, Hb0, Hb, Hg0, Hg. specialize (T1 b). specialize (T2 b). lia.
    - unfold mint. destruct cx as [|c]; [discriminate|].
      unfold checked_add. destruct (N.ltb_spec (balance (v_cbal s) c (asset_of c sub) + amt) U64) as [Hlt|]; [|discriminate].
      intros H; injection H as <- <-. intros b. unfold free_value; cbn [v_bal v_cbal v_outs v_minted v_burned v_msgout].
      rewrite getd_bump.
      pose proof (csum_cset b (v_cbal s) c (asset_of c sub) (balance (v_cbal s) c (asset_of c sub) + amt)) as C.
      rewrite (N.eqb_sym b (asset_of c sub)). destruct (asset_of c sub =? b); lia.
    - unfold burn. destruct cx as [|c]; [discriminate|].
      unfold checked_sub. destruct (N.leb_spec amt (balance (v_cbal s) c (asset_of c sub))) as [Hle|]; [|discriminate].
      intros H; injection H as <- <-. intros b. unfold free_value; cbn [v_bal v_cbal v_outs v_minted v_burned v_msgout].
      rewrite getd_bump.
      pose proof (csum_cset b (v_cbal s) c (asset_of c sub) (balance (v_cbal s) c (asset_of c sub) - amt)) as C.
      rewrite (N.eqb_sym b (asset_of c sub)). destruct (asset_of c sub =? b); lia.
    - unfold message_output.
      destruct (debit s cx base amt) as [s1|] eqn:D; cbn [rbind]; [|discriminate].
      intros H; injection H as <- <-. intros b.
      destruct (debit_spec _ _ _ _ _ D) as (O1 & G1 & T1 & _). ghost G1.
      unfold free_value; cbn [v_bal v_cbal v_outs v_minted v_burned v_msgout].
      rewrite O1, Hm, Hb, Hg. specialize (T1 b). unfold free_value in T1. destruct (b =? base); lia.
  Qed.
End Step.

(* ------------------------------------------------------------------ maps with distinct keys *)
From Coq Require Import Permutation.

Definition keys {V} (m : list (N * V)) : list N := map fst m.

Lemma nget_none_notin {V} (m : list (N * V)) k : nget m k = None <-> ~ In k (keys m).
Proof. apply kget_none_notin. exact Neqb_spec. Qed.

Lemma nset_notin_app {V} (m : list (N * V)) k v : nget m k = None -> nset m k v = m ++ [(k, v)].
Proof.
  induction m as [|[k0 v0] r IH]; cbn [kset kget app]; intros H; [reflexivity|].
  destruct (N.eqb_spec k0 k); [discriminate|]. f_equal. apply IH. exact H.
Qed.

Lemma NoDup_snoc {A} (l : list A) x : NoDup l -> ~ In x l -> NoDup (l ++ [x]).
Proof.
  intros H Hn. induction H as [|y l Hy H IH]; cbn [app].
  - constructor; [intros []|constructor].
  - constructor.
    + intros I. apply in_app_or in I as [I|[E|[]]]; [contradiction|]. subst. apply Hn. left. reflexivity.
    + apply IH. intros I. apply Hn. right. exact I.
Qed.

Lemma nset_nodup {V} (m : list (N * V)) k v : NoDup (keys m) -> NoDup (keys (nset m k v)).
Proof.
  intros H. unfold keys. destruct (nget m k) eqn:G.
  - rewrite (kset_keys_in N.eqb Neqb_spec); [exact H | congruence].
  - rewrite (kset_keys_notin N.eqb Neqb_spec _ _ _ G).
    apply NoDup_snoc; [exact H|]. apply nget_none_notin. exact G.
Qed.

Lemma nget_in {V} (m : list (N * V)) k v : NoDup (keys m) -> (nget m k = Some v <-> In (k, v) m).
Proof.
  induction m as [|[k0 v0] r IH]; cbn [kget keys map fst In]; intros H.
  - split; [discriminate | intros []].
  - inversion H as [|? ? Hn Hr]; subst. destruct (N.eqb_spec k0 k) as [->|Hne].
    + split.
      * intros E; injection E as ->. left. reflexivity.
      * intros [E|I]; [injection E as ->; reflexivity|].
        exfalso. apply Hn. change (In (fst (k, v)) (map fst r)). apply in_map. exact I.
    + rewrite (IH Hr). split; [intros I; right; exact I | intros [E|I]; [congruence | exact I]].
Qed.

Lemma nget_perm {V} (m m' : list (N * V)) k : NoDup (keys m) -> Permutation m m' -> nget m k = nget m' k.
Proof.
  intros H P. assert (H' : NoDup (keys m')).
  { unfold keys. eapply Permutation_NoDup; [apply Permutation_map; exact P | exact H]. }
  destruct (nget m k) as [v|] eqn:G.
  - symmetry. apply (nget_in _ _ _ H'). eapply Permutation_in; [exact P|]. apply (nget_in _ _ _ H). exact G.
  - symmetry. apply nget_none_notin. apply nget_none_notin in G. intros I. apply G.
    unfold keys in *. eapply Permutation_in; [apply Permutation_map; apply Permutation_sym; exact P | exact I].
Qed.

Lemma insert_sorted_perm e l : Permutation (insert_sorted e l) (e :: l).
Proof.
  induction l as [|x r IH]; cbn [insert_sorted]; [apply Permutation_refl|].
  destruct (fst e <=? fst x); [apply Permutation_refl|].
  eapply Permutation_trans; [apply perm_skip; exact IH | apply perm_swap].
Qed.
Lemma sort_by_key_perm l : Permutation (sort_by_key l) l.
Proof.
  induction l as [|x r IH]; cbn [sort_by_key fold_right]; [constructor|].
  eapply Permutation_trans; [apply insert_sorted_perm | apply perm_skip; exact IH].
Qed.

(* ------------------------------------------------------------------ initial free balances *)
Definition fvl (st : list (N * balance_t)) (a : N) : N :=
  match nget st a with Some b => bvalue b | None => 0 end.

Fixpoint layout_ok (i : N) (st : list (N * balance_t)) : Prop :=
  match st with
  | [] => True
  | (_, b) :: r => boffset b = VM_MEMORY_BALANCES_OFFSET + i * BALANCE_ENTRY_SIZE /\ layout_ok (i + 1) r
  end.

Lemma layout_snoc st : forall i a v,
  layout_ok i st ->
  layout_ok i (st ++ [(a, (v, VM_MEMORY_BALANCES_OFFSET + (i + N.of_nat (length st)) * BALANCE_ENTRY_SIZE))]).
Proof.
  induction st as [|[a0 b0] r IH]; intros i a v H; cbn [app layout_ok length].
  - split; [|exact I]. cbn [boffset snd]. f_equal. f_equal. lia.
  - destruct H as [H1 H2]. split; [exact H1|].
    replace (i + N.of_nat (S (length r))) with ((i + 1) + N.of_nat (length r)) by lia.
    apply IH. exact H2.
Qed.

Section Init.
  Variable base : N.

  Lemma add_up_spec ins : forall nr retry nr' retry',
    add_up_input_balances base ins nr retry = Some (nr', retry') ->
    (NoDup (keys nr) -> NoDup (keys nr')) /\
    forall a cd, in_spendable base a cd ins + getd nr a + (if (base =? a) && cd then retry else 0)
                 = getd nr' a + (if (base =? a) && cd then retry' else 0).
  Proof.
    induction ins as [|x r IH]; intros nr retry nr' retry' H; cbn [add_up_input_balances] in H.
    - injection H as <- <-. split; [auto|]. intros a cd. cbn [in_spendable]. lia.
    - destruct x as [a0 amt|amt|amt|c].
      + unfold checked_add in H. destruct (N.ltb_spec (getd nr a0 + amt) U64) as [Hcmp|]; [|discriminate]. cbn [opt_bind] in H.
        destruct (IH _ _ _ _ H) as [N1 E1]. split; [intros D; apply N1; apply nset_nodup; exact D|].
        intros a cd. specialize (E1 a cd). rewrite getd_nset in E1. cbn [in_spendable].
        destruct (N.eqb_spec a0 a) as [->|]; lia.
      + unfold checked_add in H. destruct (N.ltb_spec (getd nr base + amt) U64) as [Hcmp|]; [|discriminate]. cbn [opt_bind] in H.
        destruct (IH _ _ _ _ H) as [N1 E1]. split; [intros D; apply N1; apply nset_nodup; exact D|].
        intros a cd. specialize (E1 a cd). rewrite getd_nset in E1. cbn [in_spendable].
        destruct (N.eqb_spec base a) as [->|]; cbn [andb] in *; lia.
      + unfold checked_add in H. destruct (N.ltb_spec (retry + amt) U64) as [Hcmp|]; [|discriminate]. cbn [opt_bind] in H.
        destruct (IH _ _ _ _ H) as [N1 E1]. split; [exact N1|].
        intros a cd. specialize (E1 a cd). cbn [in_spendable].
        destruct ((base =? a) && cd); lia.
      + destruct (IH _ _ _ _ H) as [N1 E1]. split; [exact N1|]. intros a cd. cbn [in_spendable]. apply E1.
  Qed.

  Lemma deduct_spec max_fee nr nr' :
    deduct_max_fee base max_fee nr = Some nr' ->
    (NoDup (keys nr) -> NoDup (keys nr')) /\
    forall a, getd nr' a + (if a =? base then max_fee else 0) = getd nr a.
  Proof.
    unfold deduct_max_fee, checked_sub. destruct (N.leb_spec max_fee (getd nr base)) as [Hcmp|]; [|discriminate].
    cbn [opt_bind]. intros H; injection H as <-. split; [apply nset_nodup|].
    intros a. rewrite getd_nset. rewrite (N.eqb_sym a base). destruct (N.eqb_spec base a) as [<-|]; lia.
  Qed.

  Lemma reduce_spec outs : forall nr nr',
    reduce_by_coin_outputs outs nr = Some nr' ->
    (NoDup (keys nr) -> NoDup (keys nr')) /\
    forall a, getd nr' a + out_coin a outs = getd nr a.
  Proof.
    induction outs as [|o r IH]; intros nr nr' H; cbn [reduce_by_coin_outputs] in H.
    - injection H as <-. split; [auto|]. intros a. cbn [out_coin]. lia.
    - destruct o as [to amt a0|to amt a0|to amt a0|]; try (destruct (IH _ _ H) as [N1 E1]; split; [exact N1|]; intros a; cbn [out_coin]; apply E1).
      destruct (nget nr a0) as [cur|] eqn:G; [|discriminate]. cbn [opt_bind] in H.
      unfold checked_sub in H. destruct (N.leb_spec amt cur) as [Hcmp|]; [|discriminate]. cbn [opt_bind] in H.
      destruct (IH _ _ H) as [N1 E1]. split; [intros D; apply N1; apply nset_nodup; exact D|].
      intros a. specialize (E1 a). rewrite getd_nset in E1. cbn [out_coin].
      destruct (N.eqb_spec a0 a) as [->|]; [|lia]. assert (getd nr a = cur) by (unfold getd; rewrite G; reflexivity). lia.
  Qed.

  Lemma initial_spec ins outs max_fee nr retry :
    initial_free_balances base ins outs max_fee = Some (nr, retry) ->
    NoDup (keys nr) /\
    forall a cd, in_spendable base a cd ins
                 = getd nr a + (if a =? base then max_fee else 0) + out_coin a outs
                   + (if (base =? a) && cd then retry else 0).
  Proof.
    unfold initial_free_balances.
    destruct (add_up_input_balances base ins [] 0) as [[nr0 rt]|] eqn:A; [|discriminate]. cbn [opt_bind fst snd].
    destruct (deduct_max_fee base max_fee nr0) as [nr1|] eqn:D; [|discriminate]. cbn [opt_bind].
    destruct (reduce_by_coin_outputs outs nr1) as [nr2|] eqn:R; [|discriminate]. cbn [opt_bind].
    intros H; injection H as <- <-.
    destruct (add_up_spec _ _ _ _ _ A) as [NA EA]. destruct (deduct_spec _ _ _ D) as [ND ED].
    destruct (reduce_spec _ _ _ R) as [NR ER].
    split; [apply NR, ND, NA; constructor|].
    intros a cd. specialize (EA a cd). specialize (ED a). specialize (ER a).
    unfold getd in EA at 1. cbn [kget] in EA.
    destruct ((base =? a) && cd); lia.
  Qed.

  Lemma tfs_spec l : forall i st st',
    try_from_sorted i l st = Some st' ->
    NoDup (keys st ++ keys l) -> layout_ok 0 st -> N.of_nat (length st) = i ->
    layout_ok 0 st' /\ forall a, fvl st' a = match nget l a with Some v => v | None => fvl st a end.
  Proof.
    induction l as [|[a0 bal] r IH]; intros i st st' H D L Len; cbn [try_from_sorted] in H.
    - injection H as <-. split; [exact L|]. intros a. reflexivity.
    - assert (Hnot : ~ In a0 (keys st)).
      { intros I. apply NoDup_remove_2 in D. apply D. apply in_or_app. left. exact I. }
      assert (Hnr : ~ In a0 (keys r)).
      { intros I. apply NoDup_remove_2 in D. apply D. apply in_or_app. right. exact I. }
      pose proof (proj2 (nget_none_notin st a0) Hnot) as G. rewrite G in H.
      cbn [bvalue boffset fst snd] in H. unfold checked_add in H.
      destruct (N.ltb_spec (0 + bal) U64) as [Hcmp|]; [|discriminate]. cbn [opt_bind] in H.
      rewrite (nset_notin_app _ _ _ G) in H.
      assert (D' : NoDup (keys (st ++ [(a0, (0 + bal, VM_MEMORY_BALANCES_OFFSET + i * BALANCE_ENTRY_SIZE))]) ++ keys r)).
      { unfold keys in *. rewrite map_app. cbn [map fst]. rewrite <- app_assoc. exact D. }
      assert (L' : layout_ok 0 (st ++ [(a0, (0 + bal, VM_MEMORY_BALANCES_OFFSET + i * BALANCE_ENTRY_SIZE))])).
      { replace i with (0 + N.of_nat (length st)) by lia. apply layout_snoc. exact L. }
      destruct (IH _ _ _ H D' L') as [L2 V2].
      { rewrite app_length. cbn [length]. lia. }
      split; [exact L2|]. intros a. rewrite V2. cbn [kget].
      rewrite <- (nset_notin_app _ _ _ G). unfold fvl. rewrite nget_nset.
      destruct (N.eqb_spec a0 a) as [->|].
      + rewrite (proj2 (nget_none_notin r a) Hnr). cbn [bvalue fst]. lia.
      + reflexivity.
  Qed.

  Lemma runtime_spec nr retry st :
    runtime_balances_of base nr retry = Some st -> NoDup (keys nr) ->
    layout_ok 0 st /\ forall a, fvl st a = getd nr a + (if a =? base then retry else 0).
  Proof.
    unfold runtime_balances_of, checked_add. destruct (N.ltb_spec (getd nr base + retry) U64) as [Hcmp|]; [|discriminate].
    cbn [opt_bind]. unfold try_from_iter. intros H D.
    pose proof (nset_nodup nr base (getd nr base + retry) D) as D1.
    pose proof (sort_by_key_perm (nset nr base (getd nr base + retry))) as P.
    assert (D2 : NoDup (keys (sort_by_key (nset nr base (getd nr base + retry))))).
    { unfold keys. eapply Permutation_NoDup; [apply Permutation_map; apply Permutation_sym; exact P | exact D1]. }
    destruct (tfs_spec _ _ _ _ H) as [L V]; [exact D2 | exact I | reflexivity |].
    split; [exact L|]. intros a. rewrite V.
    rewrite (nget_perm _ _ a D2 P). rewrite nget_nset. unfold fvl; cbn [kget].
    rewrite (N.eqb_sym a base). destruct (N.eqb_spec base a) as [<-|]; [lia|].
    unfold getd. destruct (nget nr a); lia.
  Qed.
End Init.

(* ------------------------------------------------------------------ the balance table in memory *)
Fixpoint cells_ok (mem : list (N * N)) (st : list (N * balance_t)) : Prop :=
  match st with
  | [] => True
  | (a, b) :: r => getd mem (boffset b) = a /\ getd mem (boffset b + ASSET_ID_LEN) = bvalue b /\ cells_ok mem r
  end.

Ltac consts := unfold VM_MEMORY_BALANCES_OFFSET, BALANCE_ENTRY_SIZE, ASSET_ID_LEN in *.

Lemma getd_nset_ne (m : list (N * N)) k v k' : k <> k' -> getd (nset m k v) k' = getd m k'.
Proof. intros H. rewrite getd_nset. destruct (N.eqb_spec k k'); [contradiction | reflexivity]. Qed.

Lemma cells_frame r : forall j mem addr x,
  layout_ok j r -> addr < VM_MEMORY_BALANCES_OFFSET + j * BALANCE_ENTRY_SIZE -> cells_ok mem r -> cells_ok (nset mem addr x) r.
Proof.
  induction r as [|[a b] r IH]; intros j mem addr x L Hlt C; cbn [cells_ok layout_ok] in *; [exact I|].
  destruct L as [L1 L2]. destruct C as (C1 & C2 & C3). repeat split.
  - rewrite getd_nset_ne; [exact C1|]. consts. lia.
  - rewrite getd_nset_ne; [exact C2|]. consts. lia.
  - apply (IH (j + 1)); [exact L2 | consts; lia | exact C3].
Qed.

Lemma to_vm_frame r : forall j mem addr,
  layout_ok j r -> addr < VM_MEMORY_BALANCES_OFFSET + j * BALANCE_ENTRY_SIZE -> getd (to_vm r mem) addr = getd mem addr.
Proof.
  induction r as [|[a b] r IH]; intros j mem addr L Hlt; cbn [to_vm layout_ok] in *; [reflexivity|].
  destruct L as [L1 L2]. rewrite (IH (j + 1)); [| exact L2 | consts; lia].
  rewrite getd_nset_ne; [|consts; lia]. rewrite getd_nset_ne; [reflexivity | consts; lia].
Qed.

Lemma to_vm_cells r : forall j mem, layout_ok j r -> cells_ok (to_vm r mem) r.
Proof.
  induction r as [|[a b] r IH]; intros j mem L; cbn [to_vm layout_ok cells_ok] in *; [exact I|].
  destruct L as [L1 L2]. repeat split.
  - rewrite (to_vm_frame r (j + 1)); [| exact L2 | consts; lia].
    rewrite getd_nset_ne; [|consts; lia]. rewrite getd_nset. rewrite N.eqb_refl. reflexivity.
  - rewrite (to_vm_frame r (j + 1)); [| exact L2 | consts; lia].
    rewrite getd_nset. rewrite N.eqb_refl. reflexivity.
  - apply (IH (j + 1)). exact L2.
Qed.

(* checked_balance_sub's two writes keep layout and cells *)
Lemma sub_cells st : forall j mem a nv val ofs,
  layout_ok j st -> cells_ok mem st -> nget st a = Some (val, ofs) ->
  layout_ok j (nset st a (nv, ofs)) /\ cells_ok (nset mem (ofs + ASSET_ID_LEN) nv) (nset st a (nv, ofs)) /\
  VM_MEMORY_BALANCES_OFFSET + j * BALANCE_ENTRY_SIZE <= ofs.
Proof.
  induction st as [|[a0 b0] r IH]; intros j mem a nv val ofs L C G; cbn [kget kset] in *; [discriminate|].
  cbn [layout_ok cells_ok] in L, C. destruct L as [L1 L2]. destruct C as (C1 & C2 & C3).
  destruct (N.eqb_spec a0 a) as [->|Hne].
  - injection G as ->. cbn [boffset snd] in *. cbn [layout_ok cells_ok boffset bvalue fst snd]. repeat split.
    + exact L1.
    + exact L2.
    + rewrite getd_nset_ne; [exact C1 | consts; lia].
    + rewrite getd_nset. rewrite N.eqb_refl. reflexivity.
    + apply (cells_frame r (j + 1)); [exact L2 | consts; lia | exact C3].
    + lia.
  - destruct (IH (j + 1) mem a nv val ofs L2 C3 G) as (L' & C' & Hge).
    cbn [layout_ok cells_ok]. repeat split.
    + exact L1.
    + exact L'.
    + rewrite getd_nset_ne; [exact C1 | consts; lia].
    + rewrite getd_nset_ne; [exact C2 | consts; lia].
    + exact C'.
    + consts; lia.
Qed.

Lemma table_of_cells st : forall i mem,
  layout_ok i st -> cells_ok mem st -> table_in_memory mem i (length st) = values_of st.
Proof.
  induction st as [|[a b] r IH]; intros i mem L C; cbn [length table_in_memory values_of map]; [reflexivity|].
  cbn [layout_ok cells_ok] in L, C. destruct L as [L1 L2]. destruct C as (C1 & C2 & C3).
  unfold mem_cell. rewrite <- L1. rewrite C1, C2. cbn [fst snd]. f_equal. apply IH; assumption.
Qed.

Definition tab_inv (s : vm) : Prop := layout_ok 0 (v_bal s) /\ cells_ok (v_mem s) (v_bal s).

Lemma checked_balance_sub_tab st mem a v st' mem' :
  checked_balance_sub st mem a v = Some (st', mem') ->
  layout_ok 0 st /\ cells_ok mem st -> layout_ok 0 st' /\ cells_ok mem' st'.
Proof.
  unfold checked_balance_sub. intros H [L C].
  destruct (nget st a) as [[val ofs]|] eqn:G; cbn [opt_bind bvalue boffset fst snd] in H.
  - destruct (checked_sub val v) as [nv|]; cbn [opt_bind] in H.
    + injection H as <- <-. destruct (sub_cells st 0 mem a nv val ofs L C G) as (L' & C' & _). split; assumption.
    + destruct (v =? 0); [|discriminate]. injection H as <- <-. split; assumption.
  - destruct (v =? 0); [|discriminate]. injection H as <- <-. split; assumption.
Qed.

Lemma sub_table (st : list (N * balance_t)) (mem : list (N * N)) (a v : N) (st' : list (N * balance_t)) (mem' : list (N * N)) :
  checked_balance_sub st mem a v = Some (st', mem') ->
  layout_ok 0 st /\ cells_ok mem st ->
  (layout_ok 0 st' /\ cells_ok mem' st') /\ table_in_memory mem' 0 (length st') = values_of st'.
Proof.
  intros H I. pose proof (checked_balance_sub_tab _ _ _ _ _ _ H I) as T.
  split; [exact T | apply table_of_cells; apply T].
Qed.

Section Table.
  Variable asset_of : N -> N -> N.
  Variable base : N.
  Variable inputs : list N.

  Lemma debit_tab s cx a amt s1 : debit s cx a amt = Ok s1 -> tab_inv s -> tab_inv s1.
  Proof.
    unfold debit, tab_inv. destruct cx as [|src].
    - unfold external_balance_sub. destruct (checked_balance_sub _ _ _ _) as [[st mem]|] eqn:E; [|discriminate].
      intros H; injection H as <-. cbn [v_bal v_mem]. apply (checked_balance_sub_tab _ _ _ _ _ _ E).
    - destruct (balance_decrease _ _ _ _) as [cb|]; cbn [rbind]; [|discriminate].
      intros H; injection H as <-. cbn [with_cbal v_bal v_mem]. auto.
  Qed.
  Lemma credit_tab s dst a amt s2 : credit s dst a amt = Ok s2 -> tab_inv s -> tab_inv s2.
  Proof.
    unfold credit, tab_inv. destruct (balance_increase _ _ _ _) as [p|]; cbn [rbind]; [|discriminate].
    intros H; injection H as <-. cbn [with_cbal v_bal v_mem]. auto.
  Qed.

  Lemma step_tab s o s' r : step asset_of base inputs s o = Ok (s', r) -> tab_inv s -> tab_inv s'.
  Proof.
    destruct o as [cx dst a amt|cx to idx a amt|cx dst a amt|cx sub amt|cx sub amt|cx amt]; cbn [step].
    - unfold transfer. destruct (negb _); [discriminate|]. destruct (amt =? 0); [discriminate|].
      destruct (debit s cx a amt) as [s1|] eqn:D; cbn [rbind]; [|discriminate].
      destruct (credit s1 dst a amt) as [s2|] eqn:C; cbn [rbind]; [|discriminate].
      intros H; injection H as <- <-. intros T. eapply credit_tab; [exact C|]. eapply debit_tab; eassumption.
    - unfold transfer_output. destruct (amt =? 0); [discriminate|].
      destruct (debit s cx a amt) as [s1|] eqn:D; cbn [rbind]; [|discriminate].
      destruct (replace_variable_output _ _ _) as [o'|]; [|discriminate].
      intros H; injection H as <- <-. intros T. pose proof (debit_tab _ _ _ _ _ D T) as T1.
      unfold tab_inv, with_outs in *; cbn [v_bal v_mem]. exact T1.
    - unfold call_forward.
      destruct (debit s cx a amt) as [s1|] eqn:D; cbn [rbind]; [|discriminate].
      destruct (negb _); [discriminate|].
      destruct (credit s1 dst a amt) as [s2|] eqn:C; cbn [rbind]; [|discriminate].
      intros H; injection H as <- <-. intros T. eapply credit_tab; [exact C|]. eapply debit_tab; eassumption.
    - unfold mint. destruct cx as [|c]; [discriminate|]. destruct (checked_add _ _ _); [|discriminate].
      intros H; injection H as <- <-. unfold tab_inv; cbn [v_bal v_mem]. auto.
    - unfold burn. destruct cx as [|c]; [discriminate|]. destruct (checked_sub _ _); [|discriminate].
      intros H; injection H as <- <-. unfold tab_inv; cbn [v_bal v_mem]. auto.
    - unfold message_output.
      destruct (debit s cx base amt) as [s1|] eqn:D; cbn [rbind]; [|discriminate].
      intros H; injection H as <- <-. intros T. pose proof (debit_tab _ _ _ _ _ D T) as T1.
      unfold tab_inv in *; cbn [v_bal v_mem]. exact T1.
  Qed.

  Lemma run_tab ops : forall s sf rcs p, run asset_of base inputs s ops = (sf, rcs, p) -> tab_inv s -> tab_inv sf.
  Proof.
    induction ops as [|o r IH]; intros s sf rcs p H T; cbn [run] in H.
    - injection H as <- _ _. exact T.
    - destruct (step asset_of base inputs s o) as [[s' rc]|x] eqn:S.
      + destruct (run asset_of base inputs s' r) as [[sf' rcs'] p'] eqn:R. injection H as <- _ _.
        eapply IH; [exact R|]. eapply step_tab; eassumption.
      + injection H as <- _ _. exact T.
  Qed.

  Lemma run_conserves ops : forall s sf rcs p,
    run asset_of base inputs s ops = (sf, rcs, p) ->
    forall a, total base a sf + getd (v_minted s) a = total base a s + getd (v_minted sf) a.
  Proof.
    induction ops as [|o r IH]; intros s sf rcs p H a; cbn [run] in H.
    - injection H as <- _ _. reflexivity.
    - destruct (step asset_of base inputs s o) as [[s' rc]|x] eqn:S.
      + destruct (run asset_of base inputs s' r) as [[sf' rcs'] p'] eqn:R. injection H as <- _ _.
        pose proof (IH _ _ _ _ R a). pose proof (step_conserves _ _ _ _ _ _ _ S a). lia.
      + injection H as <- _ _. reflexivity.
  Qed.
End Table.

(* ------------------------------------------------------------------ outputs *)
Definition oshape (a : N) (outs : list output) : N * N * bool := (out_coin a outs, change_count a outs, has_change a outs).

Lemma has_change_count a outs : has_change a outs = negb (change_count a outs =? 0).
Proof.
  induction outs as [|o r IH]; cbn [has_change change_count]; [reflexivity|].
  destruct o; try exact IH. rewrite IH. destruct (a0 =? a); cbn [orb].
  - destruct (N.eqb_spec (1 + change_count a r) 0); [lia | reflexivity].
  - reflexivity.
Qed.

Lemma prepare_shape a outs :
  oshape a (map prepare_output outs) = oshape a outs /\ out_variable a (map prepare_output outs) = 0.
Proof.
  unfold oshape. induction outs as [|o r [IH1 IH2]]; cbn [map out_coin change_count has_change out_variable]; [auto|].
  injection IH1 as E1 E2 E3.
  destruct o; cbn [prepare_output out_coin change_count has_change out_variable]; rewrite ?E1, ?E2, ?E3, ?IH2; split; try reflexivity.
  destruct (0 =? a); lia.
Qed.

Lemma replace_shape outs : forall idx to amt a o' b,
  replace_variable_output outs idx (OVariable to amt a) = Some o' -> oshape b o' = oshape b outs.
Proof.
  unfold oshape. induction outs as [|x r IH]; intros idx to amt a o' b H; cbn [replace_variable_output] in H; [discriminate|].
  destruct (idx =? 0).
  - destruct x; try discriminate. destruct (amt0 =? 0); [|discriminate]. injection H as <-. reflexivity.
  - destruct (replace_variable_output r (idx - 1) _) as [r'|] eqn:E; [|discriminate]. cbn [opt_bind] in H.
    specialize (IH _ _ _ _ _ b E). injection IH as E1 E2 E3.
    destruct x; injection H as <-; cbn [out_coin change_count has_change]; rewrite ?E1, ?E2, ?E3; reflexivity.
Qed.

Section Final.
  Variable asset_of : N -> N -> N.
  Variable base : N.
  Variable inputs : list N.

  Lemma step_shape s o s' r b :
    step asset_of base inputs s o = Ok (s', r) -> oshape b (v_outs s') = oshape b (v_outs s).
  Proof.
    destruct o as [cx dst a amt|cx to idx a amt|cx dst a amt|cx sub amt|cx sub amt|cx amt]; cbn [step].
    - unfold transfer. destruct (negb _); [discriminate|]. destruct (amt =? 0); [discriminate|].
      destruct (debit s cx a amt) as [s1|] eqn:D; cbn [rbind]; [|discriminate].
      destruct (credit s1 dst a amt) as [s2|] eqn:C; cbn [rbind]; [|discriminate].
      intros H; injection H as <- <-.
      destruct (debit_spec _ _ _ _ _ D) as (O1 & _). destruct (credit_spec _ _ _ _ _ C) as (O2 & _). rewrite O2, O1. reflexivity.
    - unfold transfer_output. destruct (amt =? 0); [discriminate|].
      destruct (debit s cx a amt) as [s1|] eqn:D; cbn [rbind]; [|discriminate].
      destruct (replace_variable_output _ _ _) as [o'|] eqn:R; [|discriminate].
      intros H; injection H as <- <-. destruct (debit_spec _ _ _ _ _ D) as (O1 & _).
      cbn [with_outs v_outs]. rewrite (replace_shape _ _ _ _ _ _ b R). rewrite O1. reflexivity.
    - unfold call_forward.
      destruct (debit s cx a amt) as [s1|] eqn:D; cbn [rbind]; [|discriminate].
      destruct (negb _); [discriminate|].
      destruct (credit s1 dst a amt) as [s2|] eqn:C; cbn [rbind]; [|discriminate].
      intros H; injection H as <- <-.
      destruct (debit_spec _ _ _ _ _ D) as (O1 & _). destruct (credit_spec _ _ _ _ _ C) as (O2 & _). rewrite O2, O1. reflexivity.
    - unfold mint. destruct cx as [|c]; [discriminate|]. destruct (checked_add _ _ _); [|discriminate].
      intros H; injection H as <- <-. reflexivity.
    - unfold burn. destruct cx as [|c]; [discriminate|]. destruct (checked_sub _ _); [|discriminate].
      intros H; injection H as <- <-. reflexivity.
    - unfold message_output.
      destruct (debit s cx base amt) as [s1|] eqn:D; cbn [rbind]; [|discriminate].
      intros H; injection H as <- <-. destruct (debit_spec _ _ _ _ _ D) as (O1 & _). cbn [v_outs]. rewrite O1. reflexivity.
  Qed.

  Lemma run_shape ops : forall s sf rcs p b,
    run asset_of base inputs s ops = (sf, rcs, p) -> oshape b (v_outs sf) = oshape b (v_outs s).
  Proof.
    induction ops as [|o r IH]; intros s sf rcs p b H; cbn [run] in H.
    - injection H as <- _ _. reflexivity.
    - destruct (step asset_of base inputs s o) as [[s' rc]|x] eqn:S.
      + destruct (run asset_of base inputs s' r) as [[sf' rcs'] p'] eqn:R. injection H as <- _ _.
        rewrite (IH _ _ _ _ b R). eapply step_shape; exact S.
      + injection H as <- _ _. reflexivity.
  Qed.

  (* what update_outputs leaves: coin outputs untouched, variable outputs zeroed on revert, every
     change output of asset a set to X a *)
  Definition change_amount (revert : bool) (refund : N) (initial : list (N * N)) (bal : list (N * balance_t)) (a : N) : N :=
    (if revert then getd initial a else fvl bal a) + (if a =? base then refund else 0).

  Lemma update_outputs_spec revert refund initial bal outs : forall o' a,
    update_outputs base revert refund initial bal outs = Some o' ->
    oshape a o' = oshape a outs /\
    out_variable a o' = (if revert then 0 else out_variable a outs) /\
    out_change a o' = change_count a outs * change_amount revert refund initial bal a.
  Proof.
    unfold oshape, change_amount.
    induction outs as [|o r IH]; intros o' a H; cbn [update_outputs] in H.
    - injection H as <-. cbn. destruct revert; repeat split; lia.
    - destruct (update_output base revert refund initial bal o) as [o1|] eqn:U; [|discriminate]. cbn [opt_bind] in H.
      destruct (update_outputs base revert refund initial bal r) as [r'|] eqn:R; [|discriminate]. cbn [opt_bind] in H.
      injection H as <-. destruct (IH _ a eq_refl) as (S1 & V1 & C1). injection S1 as E1 E2 E3.
      destruct o as [to amt a0|to amt a0|to amt a0|]; cbn [update_output] in U.
      + injection U as <-. cbn [out_coin change_count has_change out_variable out_change]. rewrite E1, E2, E3, V1, C1. auto.
      + (* Change *)
        assert (exists v, o1 = OChange to v a0 /\
                          v = (if revert then getd initial a0 else fvl bal a0) + (if a0 =? base then refund else 0)) as (v & -> & Hv).
        { destruct revert; cbn [andb] in U.
          - destruct (N.eqb_spec a0 base) as [->|Hne].
            + destruct (nget initial base) as [i|] eqn:G; [|discriminate]. cbn [opt_bind] in U.
              unfold checked_add in U. destruct (i + refund <? U64); [|discriminate]. cbn [opt_bind] in U.
              injection U as <-. eexists; split; [reflexivity|]. unfold getd. rewrite G. reflexivity.
            + destruct (nget initial a0) as [i|] eqn:G; [|discriminate]. cbn [opt_bind] in U.
              injection U as <-. eexists; split; [reflexivity|]. unfold getd. rewrite G. lia.
          - destruct (N.eqb_spec a0 base) as [->|Hne].
            + destruct (nget bal base) as [b|] eqn:G; [|discriminate]. cbn [opt_bind] in U.
              unfold checked_add in U. destruct (bvalue b + refund <? U64); [|discriminate]. cbn [opt_bind] in U.
              injection U as <-. eexists; split; [reflexivity|]. unfold fvl. rewrite G. reflexivity.
            + destruct (nget bal a0) as [b|] eqn:G; [|discriminate]. cbn [opt_bind] in U.
              injection U as <-. eexists; split; [reflexivity|]. unfold fvl. rewrite G. lia. }
        cbn [out_coin change_count has_change out_variable out_change]. rewrite E1, E2, E3, V1, C1.
        repeat split. destruct (N.eqb_spec a0 a) as [->|]; lia.
      + (* Variable *)
        destruct revert; injection U as <-; cbn [out_coin change_count has_change out_variable out_change];
          rewrite E1, E2, E3, V1, C1; repeat split; try (destruct (a0 =? a); lia).
      + injection U as <-. cbn [out_coin change_count has_change out_variable out_change]. rewrite E1, E2, E3, V1, C1. auto.
  Qed.

  Lemma getd_values_of st a : getd (values_of st) a = fvl st a.
  Proof.
    unfold getd, fvl, values_of. induction st as [|[k b] r IH]; cbn [map kget fst snd]; [reflexivity|].
    destruct (k =? a); [reflexivity | exact IH].
  Qed.

  Lemma init_vm_spec ins outs max_fee cb s0 initial :
    init_vm base ins outs max_fee cb = Some (s0, initial) ->
    exists retry,
      (forall a cd, in_spendable base a cd ins
                    = getd initial a + (if a =? base then max_fee else 0) + out_coin a outs
                      + (if (base =? a) && cd then retry else 0)) /\
      (forall a, free_value s0 a = getd initial a + (if a =? base then retry else 0)) /\
      tab_inv s0 /\ v_cbal s0 = cb /\ v_outs s0 = map prepare_output outs /\
      v_minted s0 = [] /\ v_burned s0 = [] /\ v_msgout s0 = 0.
  Proof.
    unfold init_vm. destruct (initial_free_balances base ins outs max_fee) as [[nr retry]|] eqn:I; [|discriminate].
    cbn [opt_bind fst snd]. destruct (runtime_balances_of base nr retry) as [st|] eqn:R; [|discriminate].
    cbn [opt_bind]. intros H; injection H as <- <-.
    destruct (initial_spec _ _ _ _ _ _ I) as [D E]. destruct (runtime_spec _ _ _ _ R D) as [L V].
    exists retry. repeat split; try reflexivity.
    - exact E.
    - intros a. unfold free_value; cbn [v_bal]. apply V.
    - exact L.
    - cbn [v_mem v_bal]. apply (to_vm_cells st 0). exact L.
  Qed.

  (* THE LEDGER EQUATION, for every operation sequence and every ending *)
  Theorem ledger_holds ins outs max_fee cb0 ops e refund f :
    execute asset_of base inputs ins outs max_fee cb0 ops e refund = Some f ->
    refund <= max_fee -> change_unique outs ->
    forall a, ledger_equation base a ins cb0 max_fee refund f.
  Proof.
    unfold execute. destruct (init_vm base ins outs max_fee cb0) as [[s0 initial]|] eqn:I; [|discriminate].
    cbn [opt_bind]. destruct (run asset_of base inputs s0 ops) as [[s rcs] pn] eqn:R.
    set (revert := match pn, e with None, EndReturn => false | _, _ => true end).
    destruct (update_outputs base revert refund initial (v_bal s) (v_outs s)) as [o|] eqn:U; [|discriminate].
    cbn [opt_bind]. intros H; injection H as <-. intros Hr Hu a.
    destruct (init_vm_spec _ _ _ _ _ _ I) as (retry & Ein & Efree & _ & Ecb & Eouts & Em & Eb & Eg).
    destruct (update_outputs_spec _ _ _ _ _ _ a U) as (Sh & Var & Chg).
    pose proof (run_shape _ _ _ _ _ a R) as Sh2. rewrite Eouts in Sh2.
    destruct (prepare_shape a outs) as [Sh3 Var0].
    rewrite Sh2, Sh3 in Sh. unfold oshape in Sh, Sh2, Sh3. injection Sh as Oc Cc Hc. injection Sh2 as Oc2 Cc2 Hc2. injection Sh3 as Oc3 Cc3 Hc3.
    pose proof (run_conserves _ _ _ _ _ _ _ _ R a) as Cons. unfold total in Cons.
    rewrite Em, Eb, Eg, Ecb, Eouts, Var0 in Cons. change (getd [] a) with 0 in Cons.
    rewrite (Efree a) in Cons.
    unfold ledger_equation, leftover.
    cbn [f_revert f_outs f_cbal f_free f_minted f_burned f_msgout].
    rewrite Oc, Hc, Var, Chg. rewrite Cc2, Cc3 in Chg |- *. rewrite has_change_count.
    specialize (Hu a). specialize (Ein a (negb revert)). rewrite Ein.
    unfold change_amount. fold (free_value s a).
    assert (Hcc : change_count a outs = 0 \/ change_count a outs = 1) by lia.
    destruct revert; cbn [negb andb] in *.
    - (* reverted: contracts rolled back, nothing minted / burned / sent *)
      rewrite Bool.andb_false_r. change (getd [] a) with 0.
      destruct Hcc as [-> | ->]; rewrite ?N.eqb_refl; change (1 =? 0) with false; cbn [negb]; destruct (a =? base); lia.
    - rewrite getd_values_of. unfold free_value. fold (fvl (v_bal s) a).
      unfold free_value in Cons. fold (fvl (v_bal s) a) in Cons.
      rewrite Bool.andb_true_r. rewrite (N.eqb_sym base a).
      destruct Hcc as [-> | ->]; rewrite ?N.eqb_refl; change (1 =? 0) with false; cbn [negb]; destruct (a =? base); lia.
  Qed.

  (* the table in memory equals the internal free balances after every operation sequence *)
  Theorem table_holds ins outs max_fee cb0 ops s0 initial s rcs p :
    init_vm base ins outs max_fee cb0 = Some (s0, initial) ->
    run asset_of base inputs s0 ops = (s, rcs, p) ->
    table_in_memory (v_mem s) 0 (length (v_bal s)) = values_of (v_bal s).
  Proof.
    intros I R. destruct (init_vm_spec _ _ _ _ _ _ I) as (_ & _ & _ & T & _).
    destruct (run_tab _ _ _ _ _ _ _ _ R T) as [L C]. apply table_of_cells; assumption.
  Qed.
End Final.

(* ------------------------------------------------------------------ failed executions *)
Lemma update_outputs_failed base refund initial bal outs : forall o',
  update_outputs base true refund initial bal outs = Some o' ->
  failed_outputs_ok base refund initial o' = true.
Proof.
  induction outs as [|o r IH]; intros o' H; cbn [update_outputs] in H.
  - injection H as <-. reflexivity.
  - destruct (update_output base true refund initial bal o) as [o1|] eqn:U; [|discriminate]. cbn [opt_bind] in H.
    destruct (update_outputs base true refund initial bal r) as [r'|] eqn:R; [|discriminate]. cbn [opt_bind] in H.
    injection H as <-. specialize (IH _ eq_refl).
    destruct o as [to amt a0|to amt a0|to amt a0|]; cbn [update_output andb] in U.
    + injection U as <-. exact IH.
    + destruct (N.eqb_spec a0 base) as [->|Hne].
      * destruct (nget initial base) as [i|] eqn:G; [|discriminate]. cbn [opt_bind] in U.
        unfold checked_add in U. destruct (i + refund <? U64); [|discriminate]. cbn [opt_bind] in U.
        injection U as <-. cbn [failed_outputs_ok]. rewrite IH, N.eqb_refl. unfold getd. rewrite G.
        rewrite N.eqb_refl. reflexivity.
      * destruct (nget initial a0) as [i|] eqn:G; [|discriminate]. cbn [opt_bind] in U.
        injection U as <-. cbn [failed_outputs_ok]. rewrite IH. unfold getd. rewrite G.
        destruct (N.eqb_spec a0 base); [contradiction|]. rewrite N.add_0_r, N.eqb_refl. reflexivity.
    + injection U as <-. cbn [failed_outputs_ok]. rewrite IH. reflexivity.
    + injection U as <-. exact IH.
Qed.

Section Failed.
  Variable asset_of : N -> N -> N.
  Variable base : N.
  Variable inputs : list N.

  (* a reverted / panicked execution: variable outputs zeroed, change = initial free balance
     (+ refund for the base asset), contract balances as before, free balances = initial *)
  Theorem failed_execution ins outs max_fee cb0 ops e refund f s0 initial :
    execute asset_of base inputs ins outs max_fee cb0 ops e refund = Some f ->
    init_vm base ins outs max_fee cb0 = Some (s0, initial) ->
    f_revert f = true ->
    failed_outputs_ok base refund initial (f_outs f) = true /\ f_cbal f = cb0 /\ f_free f = initial /\
    f_minted f = [] /\ f_burned f = [] /\ f_msgout f = 0.
  Proof.
    unfold execute. intros H I. rewrite I in H. cbn [opt_bind] in H.
    destruct (run asset_of base inputs s0 ops) as [[s rcs] pn].
    set (revert := match pn, e with None, EndReturn => false | _, _ => true end) in *.
    destruct (update_outputs base revert refund initial (v_bal s) (v_outs s)) as [o|] eqn:U; [|discriminate].
    cbn [opt_bind] in H. injection H as <-. cbn [f_revert f_outs f_cbal f_free f_minted f_burned f_msgout].
    intros ->. repeat split. eapply update_outputs_failed. exact U.
  Qed.

  (* the revert flag: set by any panicking operation, by a revert, by any other panic *)
  Theorem revert_flag ins outs max_fee cb0 ops e refund f s0 initial s rcs pn :
    execute asset_of base inputs ins outs max_fee cb0 ops e refund = Some f ->
    init_vm base ins outs max_fee cb0 = Some (s0, initial) ->
    run asset_of base inputs s0 ops = (s, rcs, pn) ->
    f_revert f = match pn, e with None, EndReturn => false | _, _ => true end.
  Proof.
    unfold execute. intros H I R. rewrite I in H. cbn [opt_bind] in H. rewrite R in H.
    destruct (update_outputs _ _ _ _ _ _) as [o|]; [|discriminate]. cbn [opt_bind] in H. injection H as <-. reflexivity.
  Qed.

  (* the receipts of a run are, one by one, those of its successful steps *)
  Theorem run_steps ops : forall s sf rcs p i o r,
    run asset_of base inputs s ops = (sf, rcs, p) ->
    nth_error ops i = Some o -> nth_error rcs i = Some r ->
    exists si si', run asset_of base inputs s (firstn i ops) = (si, firstn i rcs, None) /\
                   step asset_of base inputs si o = Ok (si', r).
  Proof.
    induction ops as [|o0 rest IH]; intros s sf rcs p i o r H Ho Hr; cbn [run] in H.
    - destruct i; discriminate.
    - destruct (step asset_of base inputs s o0) as [[s' rc]|x] eqn:S.
      + destruct (run asset_of base inputs s' rest) as [[sf' rcs'] p'] eqn:R. injection H as <- <- <-.
        destruct i as [|k]; cbn [nth_error firstn] in *.
        * injection Ho as <-. injection Hr as <-. exists s, s'. split; [reflexivity | exact S].
        * destruct (IH _ _ _ _ _ _ _ R Ho Hr) as (si & si' & Rk & Sk).
          exists si, si'. split; [|exact Sk]. cbn [run]. rewrite S, Rk. reflexivity.
      + injection H as <- <- <-. destruct i; discriminate.
  Qed.
End Failed.

(* ------------------------------------------------------------------ non-vacuity and necessity *)
Definition ex_asset_of (c s : N) : N := 1000 + 10 * c + s.
Definition ex_base : N := 7.
Definition ex_inputs : list input := [ICoin 7 1000; ICoin 9 300; IMsgCoin 50; IMsgData 20; IContract 100; IContract 200].
Definition ex_outs : list output := [OOther; OOther; OVariable 5 5 5; OChange 11 0 7; OCoin 12 40 9; OVariable 0 0 0].
Definition ex_cb0 : list ((N * N) * N) := [((100, 9), 17); ((200, 7), 3)].
Definition ex_ops : list op :=
  [OpCall Script 100 9 25; OpMint (Internal 100) 1 60; OpTransfer (Internal 100) 200 (ex_asset_of 100 1) 10;
   OpTransferOut (Internal 100) 77 2 9 30; OpBurn (Internal 100) 1 5; OpMessageOut Script 15;
   OpTransferOut Script 78 5 7 8; OpTransfer Script 200 7 1].

Example example_success :
  exists f, execute ex_asset_of ex_base [100; 200] ex_inputs ex_outs 100 ex_cb0 ex_ops EndReturn 30 = Some f /\
            f_revert f = false /\ change_unique_b ex_outs = true /\
            forallb (fun a => ledger_equation_b ex_base a ex_inputs ex_cb0 100 30 f) [7; 9; ex_asset_of 100 1; 5] = true.
Proof. eexists. split; [vm_compute; reflexivity|]. vm_compute. auto. Qed.

Example example_panic :
  exists f, execute ex_asset_of ex_base [100; 200] ex_inputs ex_outs 100 ex_cb0 (ex_ops ++ [OpBurn (Internal 200) 3 1]) EndReturn 30 = Some f /\
            f_revert f = true /\
            forallb (fun a => ledger_equation_b ex_base a ex_inputs ex_cb0 100 30 f) [7; 9; ex_asset_of 100 1; 5] = true.
Proof. eexists. split; [vm_compute; reflexivity|]. vm_compute. auto. Qed.

Lemma change_unique_b_sound outs : change_unique_b outs = true -> change_unique outs.
Proof.
  unfold change_unique_b, change_unique. intros H a.
  destruct (N.eqb_spec (change_count a outs) 0) as [E|Hne]; [lia|].
  assert (In_a : exists to amt, In (OChange to amt a) outs).
  { clear H. induction outs as [|o r IH]; cbn [change_count] in Hne; [lia|].
    destruct o as [| to amt a0 | |]; try (destruct (IH Hne) as (t & m & I); exists t, m; right; exact I).
    destruct (N.eqb_spec a0 a) as [->|].
    - exists to, amt. left. reflexivity.
    - destruct IH as (t & m & I); [lia|]. exists t, m. right. exact I. }
  destruct In_a as (to & amt & I). rewrite forallb_forall in H. specialize (H _ I). cbn in H.
  apply N.leb_le. exact H.
Qed.

(* two Change outputs of one asset: each receives the whole remaining balance (the validity
   rules forbid this transaction; the hypothesis change_unique cannot be dropped) *)
Lemma change_unique_needed :
  exists f, execute ex_asset_of ex_base [] [ICoin 7 100] [OChange 1 0 7; OChange 2 0 7] 0 [] [] EndReturn 0 = Some f /\
            ~ ledger_equation ex_base 7 [ICoin 7 100] [] 0 0 f.
Proof. eexists. split; [vm_compute; reflexivity|]. unfold ledger_equation. vm_compute. discriminate. Qed.
