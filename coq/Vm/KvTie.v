(* Vm/KvTie.v — the order of checks / slot calls the hand-written model Vm/KvModel.v was written
   against, as extracted from the Rust sources by tools/gen_kvtable.py on every check
   (Gen/KvTable.v).  A handler or slot function whose sequence of recognised steps changes
   (a new check, a reordered check, a different slot call) makes one of these fail: the model
   must then be re-read against the code. *)
From Coq Require Import List String.
From FV Require Import Gen.KvTable.
Import ListNotations.
Open Scope string_scope.

(* slot functions (interpreter/storage.rs) <-> KvModel.read_slot / slot_len_no_gas / write_slot / clear_slot_range *)
Example tie_read_slot : fp_storage_read_slot = ["cache_get"; "dependent_gas_charge"; "read_alloc"; "dependent_gas_charge"; "cache_insert"].
Proof. reflexivity. Qed.
Example tie_slot_len : fp_storage_slot_len_no_gas = ["cache_get"; "read_alloc"; "cache_insert"].
Proof. reflexivity. Qed.
Example tie_write_slot : fp_storage_write_slot =
  ["storage_slot_len_no_gas"; "max_storage_slot_length"; "storage_out_of_bounds"; "contract_state_insert"; "cache_insert"; "dependent_gas_charge"; "gas_charge"].
Proof. reflexivity. Qed.
Example tie_write_from_memory : fp_storage_write_slot_from_memory = ["storage_write_slot"].
Proof. reflexivity. Qed.
Example tie_clear_range : fp_storage_clear_slot_range =
  ["checked_add"; "too_many_slots"; "dependent_gas_charge"; "contract_state_remove_range"; "key_range"; "too_many_slots"; "cache_insert"].
Proof. reflexivity. Qed.
Example tie_key_range : fp_key_range = ["checked_add"].
Proof. reflexivity. Qed.
(* dynamic instructions <-> h_srdd / h_swrd / h_supd / h_spld *)
Example tie_dyn_read : fp_dynamic_storage_read = ["internal_contract"; "read_key"; "storage_read_to_memory"].
Proof. reflexivity. Qed.
Example tie_read_to_memory : fp_storage_read_to_memory =
  ["to_usize"; "memory_overflow"; "to_usize"; "memory_overflow"; "ownership_registers"; "set_err"; "storage_read_slot"; "saturating_add";
   "storage_out_of_bounds"; "mem_write"; "copy_from_slice"].
Proof. reflexivity. Qed.
Example tie_dyn_write : fp_dynamic_storage_write = ["internal_contract"; "read_key"; "storage_write_from_memory"].
Proof. reflexivity. Qed.
Example tie_write_from_mem : fp_storage_write_from_memory = ["to_usize"; "memory_overflow"; "storage_write_slot_from_memory"; "mem_read"].
Proof. reflexivity. Qed.
Example tie_dyn_update : fp_dynamic_storage_update = ["internal_contract"; "read_key"; "storage_update_from_memory"].
Proof. reflexivity. Qed.
Example tie_update_from_memory : fp_storage_update_from_memory =
  ["storage_read_slot"; "u64_max"; "to_usize"; "memory_overflow"; "storage_out_of_bounds"; "to_usize"; "memory_overflow"; "saturating_add";
   "max_storage_slot_length"; "storage_out_of_bounds"; "resize"; "copy_from_slice"; "mem_read"; "internal_contract"; "storage_write_slot"].
Proof. reflexivity. Qed.
Example tie_preload : fp_storage_preload = ["internal_contract"; "storage_read_slot"; "set_err"; "write_user_register"; "set_err"; "write_user_register"].
Proof. reflexivity. Qed.
(* opcode handlers (executors/opcodes_impl.rs) <-> h_scwq h_srw h_srwq h_sww h_swwq h_sclr and the dispatch of the dynamic ones *)
Example tie_SCWQ : fp_SCWQ = ["gas_charge"; "read_key"; "to_usize"; "too_many_slots"; "internal_contract"; "key_range"; "too_many_slots";
                              "storage_read_slot"; "write_user_register_legacy"; "storage_clear_slot_range"; "inc_pc"].
Proof. reflexivity. Qed.
Example tie_SRW : fp_SRW = ["gas_charge"; "read_key"; "internal_contract"; "a_eq_b"; "storage_read_slot"; "saturating_add"; "storage_out_of_bounds";
                            "copy_from_slice"; "write_user_register_legacy"; "write_user_register_legacy"; "write_user_register_legacy";
                            "write_user_register_legacy"; "inc_pc"].
Proof. reflexivity. Qed.
Example tie_SRWQ : fp_SRWQ = ["gas_charge"; "read_key"; "to_usize"; "too_many_slots"; "internal_contract"; "ownership_registers"; "key_range";
                              "too_many_slots"; "storage_read_slot"; "saturating_add"; "mem_write"; "storage_out_of_bounds"; "copy_from_slice";
                              "fill0"; "write_user_register_legacy"; "inc_pc"].
Proof. reflexivity. Qed.
Example tie_SWW : fp_SWW = ["gas_charge"; "read_key"; "internal_contract"; "copy_from_slice"; "storage_read_slot"; "storage_write_slot";
                            "write_user_register_legacy"; "inc_pc"].
Proof. reflexivity. Qed.
Example tie_SWWQ : fp_SWWQ = ["gas_charge"; "read_key"; "to_usize"; "too_many_slots"; "internal_contract"; "key_range"; "too_many_slots";
                              "storage_read_slot"; "storage_write_slot_from_memory"; "saturating_add"; "mem_read"; "write_user_register_legacy"; "inc_pc"].
Proof. reflexivity. Qed.
Example tie_SCLR : fp_SCLR = ["gas_charge"; "read_key"; "to_usize"; "too_many_slots"; "internal_contract"; "storage_clear_slot_range"; "inc_pc"].
Proof. reflexivity. Qed.
Example tie_SPLD : fp_SPLD = ["gas_charge"; "read_key"; "storage_preload"; "inc_pc"].
Proof. reflexivity. Qed.
Example tie_SRDD : fp_SRDD = ["gas_charge"; "dynamic_storage_read"; "inc_pc"] /\ fp_SRDI = fp_SRDD.
Proof. split; reflexivity. Qed.
Example tie_SWRD : fp_SWRD = ["gas_charge"; "dynamic_storage_write"; "inc_pc"] /\ fp_SWRI = fp_SWRD.
Proof. split; reflexivity. Qed.
Example tie_SUPD : fp_SUPD = ["gas_charge"; "dynamic_storage_update"; "inc_pc"] /\ fp_SUPI = fp_SUPD.
Proof. split; reflexivity. Qed.
(* the storage instruction set the model covers is the set of handlers that call the slot functions *)
Example tie_opcode_set : List.length storage_opcodes = 13%nat.
Proof. reflexivity. Qed.
