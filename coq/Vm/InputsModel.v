(* Vm/InputsModel.v — abstract machine for C30: which contract's state (code, storage slots,
   balances) an instruction may touch, and the guard the interpreter applies before.  Mirrors
     fuel-vm/src/verification.rs            Normal::check_contract_in_inputs
     fuel-vm/src/interpreter/flow.rs        prepare_call (CALL), return_from_context (RET/RETD)
     fuel-vm/src/interpreter/blockchain.rs  load_contract_code (LDC), code_copy (CCP), code_root (CROO),
                                            code_size (CSIZ), mint, burn, message_output (SMO)
     fuel-vm/src/interpreter/contract.rs    contract_balance (BAL), transfer (TR), transfer_output (TRO)
     fuel-vm/src/interpreter/storage.rs     every storage instruction acts on internal_contract()
     fuel-vm/src/interpreter/executors/instruction.rs   the predicate gate (Opcode::is_predicate_allowed)
     fuel-vm/src/storage/predicate.rs       PredicateStorage refuses the contract tables
   Definitions only.  State = the set of contract ids listed as transaction inputs + the call
   stack (ids of the active contracts) + "is this a predicate run".  An instruction is abstracted
   to its class and the contract id it names; its result is the list of contract-state accesses
   it makes BEFORE its guard, the guard's verdict, and the accesses it may make AFTER the guard. *)
From FV Require Import Base.Bytes Gen.KvTable.
Open Scope N_scope.

Inductive table := TCode | TState | TBalance.
Inductive access := ARead | AWrite.
Record touch := { t_table : table; t_cid : N; t_acc : access }.
Definition mk (t : table) (c : N) (a : access) : touch := {| t_table := t; t_cid := c; t_acc := a |}.

Record ist := {
  i_inputs : list N;          (* Interpreter::input_contracts: ids of the Input::Contract inputs *)
  i_frames : list N;          (* call stack, innermost first; [] = script (external context) *)
  i_pred : bool;              (* predicate verification / estimation *)
}.
Definition mem_n (x : N) (l : list N) : bool := existsb (N.eqb x) l.
Definition current (s : ist) : option N := match i_frames s with c :: _ => Some c | [] => None end.

(* instruction classes *)
Inductive codeop := CCcp | CCsiz | CCroo.
Inductive sop := S_SCWQ | S_SRW | S_SRWQ | S_SWW | S_SWWQ | S_SCLR | S_SRDD | S_SRDI | S_SWRD | S_SWRI | S_SUPD | S_SUPI | S_SPLD.
Inductive iop :=
| OpCall (target : N)                 (* CALL *)
| OpLdc (target : N) (mode : N)       (* LDC: mode 0 contract code, 1 blob, 2 memory *)
| OpCodeRead (k : codeop) (target : N)  (* CCP CSIZ CROO *)
| OpBal (target : N)                  (* BAL *)
| OpTr (target : N)                   (* TR *)
| OpTro                               (* TRO *)
| OpMint | OpBurn
| OpSmo                               (* SMO *)
| OpStorage (k : sop)                 (* the 13 storage instructions *)
| OpRet | OpRetd
| OpOther (opcode : N).               (* every other instruction: no contract state *)

Definition codeop_byte (k : codeop) : N := match k with CCcp => OP_CCP | CCsiz => OP_CSIZ | CCroo => OP_CROO end.
Definition sop_byte (k : sop) : N :=
  match k with
  | S_SCWQ => OP_SCWQ | S_SRW => OP_SRW | S_SRWQ => OP_SRWQ | S_SWW => OP_SWW | S_SWWQ => OP_SWWQ | S_SCLR => OP_SCLR
  | S_SRDD => OP_SRDD | S_SRDI => OP_SRDI | S_SWRD => OP_SWRD | S_SWRI => OP_SWRI | S_SUPD => OP_SUPD | S_SUPI => OP_SUPI
  | S_SPLD => OP_SPLD
  end.
Definition sop_writes (k : sop) : bool :=
  match k with S_SRW | S_SRWQ | S_SRDD | S_SRDI | S_SPLD => false | _ => true end.
Definition opcode_of (o : iop) : N :=
  match o with
  | OpCall _ => OP_CALL | OpLdc _ _ => OP_LDC | OpCodeRead k _ => codeop_byte k | OpBal _ => OP_BAL | OpTr _ => OP_TR
  | OpTro => OP_TRO | OpMint => OP_MINT | OpBurn => OP_BURN | OpSmo => OP_SMO | OpStorage k => sop_byte k
  | OpRet => OP_RET | OpRetd => OP_RETD | OpOther c => c
  end.

Inductive verdict :=
| VPass
| VNotInInputs                         (* PanicReason::ContractNotInInputs *)
| VExpectedInternal                    (* PanicReason::ExpectedInternalContext *)
| VNotAllowedInPredicate.              (* PanicReason::ContractInstructionNotAllowed *)

Record iresult := {
  r_pre : list touch;                  (* accesses made before the guard decides *)
  r_guard : verdict;
  r_post : list touch;                 (* accesses the instruction may make once the guard has passed *)
  r_next : ist;                        (* state if the instruction completes *)
}.
Definition res (pre : list touch) (g : verdict) (post : list touch) (n : ist) : iresult :=
  {| r_pre := pre; r_guard := g; r_post := post; r_next := n |}.

Definition guard_input (s : ist) (target : N) : verdict := if mem_n target (i_inputs s) then VPass else VNotInInputs.
Definition rw (t : table) (c : N) : list touch := [mk t c ARead; mk t c AWrite].
(* the debit side of TR / TRO / CALL / SMO: the current contract's balance, or the free balance in a script *)
Definition debit (s : ist) : list touch := match current s with Some c => rw TBalance c | None => [] end.

(* guard_first = false: the order of the Rust code (prepare_call reads the callee's code size and
   debits the caller BEFORE check_contract_in_inputs); false: the guard first *)
Definition step_gen (guard_first : bool) (s : ist) (o : iop) : iresult :=
  if i_pred s && negb (mem_n (opcode_of o) predicate_allowed_ops) then res [] VNotAllowedInPredicate [] s
  else
  match o with
  | OpCall t =>
      let probe := mk TCode t ARead :: debit s in     (* contract_size(call.to()); balance_decrease(current, ..) *)
      let push := {| i_inputs := i_inputs s; i_frames := t :: i_frames s; i_pred := i_pred s |} in
      if guard_first then res [] (guard_input s t) (probe ++ rw TBalance t ++ [mk TCode t ARead]) push
      else res probe (guard_input s t) (rw TBalance t ++ [mk TCode t ARead]) push
  | OpLdc t mode =>
      if mode =? 0 then
        if i_pred s then res [] VNotAllowedInPredicate [] s      (* load_contract_code: context.is_predicate() *)
        else res [] (guard_input s t) [mk TCode t ARead] s
      else res [] VPass [] s                                    (* blob / memory: no contract state *)
  | OpCodeRead _ t => res [] (guard_input s t) [mk TCode t ARead] s
  | OpBal t => res [] (guard_input s t) [mk TBalance t ARead] s
  | OpTr t => res [] (guard_input s t) (debit s ++ rw TBalance t) s
  | OpTro => res [] VPass (debit s) s
  | OpSmo => res [] VPass (debit s) s
  | OpMint | OpBurn =>
      match current s with
      | Some c => res [] VPass (rw TBalance c) s
      | None => res [] VExpectedInternal [] s
      end
  | OpStorage k =>
      match current s with
      | Some c => res [] VPass (mk TState c ARead :: if sop_writes k then [mk TState c AWrite] else []) s
      | None => res [] VExpectedInternal [] s
      end
  | OpRet | OpRetd => res [] VPass [] {| i_inputs := i_inputs s; i_frames := tl (i_frames s); i_pred := i_pred s |}
  | OpOther _ => res [] VPass [] s
  end.
Definition step := step_gen false.          (* the code as it is *)
Definition step_fixed := step_gen true.     (* the guard moved to the front of prepare_call *)

(* a run: the instruction completes (state advances) iff its guard passes AND nothing else stops
   it ([done] = the observed fact); every access of the trace is collected *)
Definition accesses (r : iresult) (completed : bool) : list touch :=
  match r_guard r with
  | VPass => r_pre r ++ r_post r            (* a later failure stops at some prefix: over-approximated by all *)
  | _ => r_pre r
  end.
Fixpoint run_gen (gf : bool) (s : ist) (prog : list (iop * bool)) : list touch * ist :=
  match prog with
  | [] => ([], s)
  | (o, completed) :: r =>
      let x := step_gen gf s o in
      let s' := match r_guard x with VPass => if completed then r_next x else s | _ => s end in
      let '(ts, sf) := run_gen gf s' r in (accesses x completed ++ ts, sf)
  end.
Definition run := run_gen false.
Definition run_fixed := run_gen true.

Definition touch_ok (s : ist) (t : touch) : bool := mem_n (t_cid t) (i_inputs s).
Definition frames_ok (s : ist) : bool := forallb (fun c => mem_n c (i_inputs s)) (i_frames s).
(* the one access the Rust order makes to a contract that may be absent from the inputs *)
Definition is_call_probe (t : touch) : bool :=
  match t_table t, t_acc t with TCode, ARead => true | _, _ => false end.
