(* Vm/OutcomeModel.v — L1 abstract machine of how a script execution ends (C28), mirroring

     ReceiptsCtx::{push, root, clear}                    (interpreter/receipts.rs)
     the run loop of run_program: Proceed / Return in a call / top-level Return / Revert /
       panic -> append_panic_receipt, then the ScriptResult push        (executors/main.rs)
     RetCtx::return_from_context (pop the frame, then push), revert, append_panic_receipt,
       the receipt / frame pushes of prepare_call                       (interpreter/flow.rs)
     StateTransition::should_revert                                     (state.rs)
     MemoryStorage::{commit, revert}, MemoryClient::transact            (storage/memory.rs, memory_client.rs)

   A program is abstracted to the sequence of instructions it executes, each classified by what
   it does to the receipt list and to the call depth; ALL sequences are considered.  Definitions
   only. *)
From FV Require Import Base.Bytes Base.U64 Gen.AssetTable Merkle.BinaryModel.
Open Scope N_scope.

Inductive receipt :=
| RcBody (k : N)                  (* Call, Log, LogData, Transfer, TransferOut, MessageOut, Mint, Burn: kind k *)
| RcReturn (top : bool) (k : N)   (* Return / ReturnData (kind k); top = pushed with no call frame left *)
| RcRevert
| RcPanic (reason : N)
| RcScriptResult (result gas : N).

Definition is_script_result (r : receipt) : bool := match r with RcScriptResult _ _ => true | _ => false end.
Definition is_panic (r : receipt) : bool := match r with RcPanic _ => true | _ => false end.

Fixpoint rlen (rs : list receipt) : N := match rs with [] => 0 | _ :: t => 1 + rlen t end.

(* ReceiptsCtx::push *)
Inductive push_res := PushOk (rs : list receipt) | PushFull (* Bug::ReceiptsCtxFull *) | PushTooMany (* PanicReason::TooManyReceipts *).
Definition push (rs : list receipt) (r : receipt) : push_res :=
  let n := rlen rs in
  if n =? MAX_RECEIPTS then PushFull
  else if ((n =? MAX_RECEIPTS - 1) && negb (is_script_result r))
          || ((n =? MAX_RECEIPTS - 2) && negb (is_script_result r || is_panic r))
       then PushTooMany
       else PushOk (rs ++ [r]).

(* ------------------------------------------------------------------ the run loop *)
Inductive instr :=
| IBody (k : N)          (* pushes one receipt and proceeds: LOG, LOGD, TR, TRO, SMO, MINT, BURN *)
| ISilent                (* no receipt: everything else that succeeds *)
| ICall (k : N)          (* CALL: pushes the Call receipt, then the frame *)
| IRet (k : N)           (* RET / RETD: pops the frame (if any), then pushes the receipt *)
| IRvrt                  (* RVRT *)
| IFail (reason : N).    (* an instruction (or the fetch) that panics for its own reasons *)

Record rstate := { st_receipts : list receipt; st_depth : N }.

Inductive exec_res :=
| XProceed (s : rstate)
| XReturn (s : rstate)            (* ExecuteState::Return / ReturnData *)
| XRevert (s : rstate)
| XErr (reason : N) (s : rstate)  (* a panic *)
| XBug.                           (* ReceiptsCtxFull *)

Definition exec (s : rstate) (i : instr) : exec_res :=
  match i with
  | ISilent => XProceed s
  | IFail r => XErr r s
  | IBody k =>
      match push (st_receipts s) (RcBody k) with
      | PushOk rs => XProceed {| st_receipts := rs; st_depth := st_depth s |}
      | PushTooMany => XErr PR_TooManyReceipts s
      | PushFull => XBug
      end
  | ICall k =>
      match push (st_receipts s) (RcBody k) with
      | PushOk rs => XProceed {| st_receipts := rs; st_depth := st_depth s + 1 |}
      | PushTooMany => XErr PR_TooManyReceipts s
      | PushFull => XBug
      end
  | IRet k =>
      let top := st_depth s =? 0 in
      let d := st_depth s - 1 in                          (* frames.pop() *)
      match push (st_receipts s) (RcReturn top k) with
      | PushOk rs => XReturn {| st_receipts := rs; st_depth := d |}
      | PushTooMany => XErr PR_TooManyReceipts {| st_receipts := st_receipts s; st_depth := d |}
      | PushFull => XBug
      end
  | IRvrt =>
      match push (st_receipts s) RcRevert with
      | PushOk rs => XRevert {| st_receipts := rs; st_depth := st_depth s |}
      | PushTooMany => XErr PR_TooManyReceipts s
      | PushFull => XBug
      end
  end.

Inductive outcome :=
| Done (receipts : list receipt) (result : N)     (* run_program returned Ok(state) *)
| Running (s : rstate)                            (* the instruction sequence did not reach an end *)
| HostPanic                                       (* append_panic_receipt's expect failed *)
| Aborted.                                        (* a push returned an error that run_program propagates with `?` *)

(* the ScriptResult push and the end of run_program *)
Definition finish (rs : list receipt) (result gas : N) : outcome :=
  match push rs (RcScriptResult result gas) with
  | PushOk rs' => Done rs' result
  | _ => Aborted
  end.

Fixpoint run (gas : N) (s : rstate) (prog : list instr) : outcome :=
  match prog with
  | [] => Running s
  | i :: rest =>
      let in_call := negb (st_depth s =? 0) in
      match exec s i with
      | XProceed s' => run gas s' rest
      | XReturn s' => if in_call then run gas s' rest else finish (st_receipts s') SER_Success gas
      | XRevert s' => finish (st_receipts s') SER_Revert gas
      | XErr reason s' =>
          match push (st_receipts s') (RcPanic reason) with      (* append_panic_receipt *)
          | PushOk rs => finish rs SER_Panic gas
          | _ => HostPanic
          end
      | XBug => Aborted
      end
  end.

Definition initial : rstate := {| st_receipts := []; st_depth := 0 |}.

(* StateTransition::should_revert *)
Definition should_revert (rs : list receipt) : bool :=
  existsb (fun r => match r with RcRevert | RcPanic _ => true | _ => false end) rs.

(* ------------------------------------------------------------------ receipts root *)
Section Root.
  Context {D : Type}.
  Variables (leaf_sum : bytes -> D) (node_sum : D -> D -> D) (empty_sum : D).
  Variable enc : receipt -> bytes.          (* Receipt::to_bytes (canonical encoding, C01) *)

  (* ReceiptsCtx { receipts, receipts_tree }: push feeds the encoded receipt to the root calculator *)
  Record rctx := { rc_receipts : list receipt; rc_tree : option (list (@node D)) }.
  Definition rctx_new : rctx := {| rc_receipts := []; rc_tree := Some [] |}.
  Definition rctx_push (c : rctx) (r : receipt) : option rctx :=
    match push (rc_receipts c) r with
    | PushOk rs => Some {| rc_receipts := rs; rc_tree := do t <- rc_tree c; calc_push leaf_sum node_sum t (enc r) |}
    | _ => None
    end.
  Definition rctx_root (c : rctx) : option D := do t <- rc_tree c; calc_root node_sum empty_sum t.
  (* pushes that fail leave the context unchanged *)
  Fixpoint rctx_push_all (c : rctx) (rs : list receipt) : rctx :=
    match rs with
    | [] => c
    | r :: t => rctx_push_all (match rctx_push c r with Some c' => c' | None => c end) t
    end.
End Root.

(* ------------------------------------------------------------------ MemoryStorage / MemoryClient *)
Section Client.
  Context {T : Type}.                      (* the tables of MemoryStorageInner *)
  Record mstorage := { ms_memory : T; ms_transacted : T }.
  Definition commit (s : mstorage) : mstorage := {| ms_memory := ms_memory s; ms_transacted := ms_memory s |}.
  Definition revert (s : mstorage) : mstorage := {| ms_memory := ms_transacted s; ms_transacted := ms_transacted s |}.
  (* MemoryClient::transact: the interpreter writes into `memory`; then commit or revert.
     [ok] = the transactor has a state transition (Ok); [rs] its receipts *)
  Definition client_transact (s : mstorage) (writes : T -> T) (ok : bool) (rs : list receipt) : mstorage :=
    let s' := {| ms_memory := writes (ms_memory s); ms_transacted := ms_transacted s |} in
    if ok then (if should_revert rs then revert s' else commit s') else revert s'.
  (* MemoryClient::deploy / upgrade / upload / blob: Transactor::deploy -> Interpreter::deploy writes
     into `memory`; there is NO commit *)
  Definition client_deploy (s : mstorage) (writes : T -> T) : mstorage :=
    {| ms_memory := writes (ms_memory s); ms_transacted := ms_transacted s |}.

  (* a history of client calls *)
  Inductive cevent :=
  | CDeploy (writes : T -> T)
  | CTransact (writes : T -> T) (ok : bool) (rs : list receipt).
  Definition client_step (s : mstorage) (e : cevent) : mstorage :=
    match e with
    | CDeploy w => client_deploy s w
    | CTransact w ok rs => client_transact s w ok rs
    end.
End Client.
