(* Vm/ReuseProofs.v — proofs about Vm/ReuseModel.v: initialisation forgets everything a previous
   use left in the instance (except the fields it does not touch), and indistinguishable
   instances stay indistinguishable under any step function that respects observations. *)
From Coq Require Import List NArith Bool Lia.
From FV Require Import Base.Bytes Base.U64 Vm.ReuseModel.
Import ListNotations.
Open Scope N_scope.

Section ReuseProofs.
  Variables (H Tx Params Storage Debugger Frame Receipt IB RB C Ecal Verifier Slot : Type).
  Variable E : env Tx Params Storage Debugger IB RB C Verifier.
  Variable heap_read : H -> N -> N.
  Local Notation vm := (vm H Tx Params Storage Debugger Frame Receipt IB RB C Ecal Verifier Slot).
  Local Notation init_result := (init_result H Tx Params Storage Debugger Frame Receipt IB RB C Ecal Verifier Slot).

  (* everything but the heap buffer *)
  Definition core (v : vm) :=
    (registers v, m_stack (mem v), m_hp (mem v), frames v, receipts v, tx v, initial_balances v, input_contracts v,
     input_contracts_index_to_output_index v, storage v, debugger v, ctx v, interpreter_params v,
     pctx v, ecal_state v, verifier v, owner_ptr v, storage_slot_cache v).

  (* related during initialisation: equal up to the heap buffer, nothing of the heap accessible;
     `balances` is compared only once to_vm has overwritten it (flag f) *)
  Definition R (f : bool) (a b : vm) : Prop :=
    core a = core b /\ m_hp (mem a) = MEM_SIZE /\ (f = true -> balances a = balances b).

  Definition res_R (a b : init_result) : Prop :=
    match a, b with
    | IOk x, IOk y => R true x y
    | IErr e _, IErr f _ => e = f
    | IHostPanic, IHostPanic => True
    | _, _ => False
    end.

  Lemma R_obs_eq (a b : vm) : R true a b -> obs_eq heap_read a b.
  Proof.
    intros (Hc & Hhp & Hb). specialize (Hb eq_refl).
    unfold core in Hc. injection Hc as H1 H2 H3 H4 H5 H6 H7 H8 H9 H10 H11 H12 H13 H14 H15 H16 H17 H18.
    unfold obs_eq, mem_obs_eq. repeat split; try assumption.
    intros x Hx Hlt. rewrite Hhp in Hx. lia.
  Qed.

  Lemma res_R_obs (a b : init_result) : res_R a b -> res_obs_eq heap_read a b.
  Proof. destruct a, b; cbn; auto using R_obs_eq. Qed.

  (* ---- memory operations depend on (stack, hp) only and leave hp alone *)
  Lemma grow_stack_R (m1 m2 : memory H) (n : N) :
    m_stack m1 = m_stack m2 -> m_hp m1 = m_hp m2 ->
    match mem_grow_stack m1 n, mem_grow_stack m2 n with
    | inl a, inl b => m_stack a = m_stack b /\ m_hp a = m_hp m1 /\ m_hp b = m_hp m2
    | inr r, inr s => r = s
    | _, _ => False
    end.
  Proof.
    intros Hs Hh. unfold mem_grow_stack. rewrite Hs, Hh.
    destruct (VM_MAX_RAM <? n); [reflexivity|].
    destruct (lenN (m_stack m2) <? n); [|auto].
    destruct (m_hp m2 <? n); cbn; auto.
  Qed.

  Lemma write_stack_R (m1 m2 : memory H) (a : N) (d : bytes) :
    m_stack m1 = m_stack m2 -> m_hp m1 = m_hp m2 ->
    match mem_write_stack m1 a d, mem_write_stack m2 a d with
    | Some x, Some y => m_stack x = m_stack y /\ m_hp x = m_hp m1 /\ m_hp y = m_hp m2
    | None, None => True
    | _, _ => False
    end.
  Proof.
    intros Hs Hh. unfold mem_write_stack, mem_verify. rewrite Hs, Hh.
    destruct ((MEM_SIZE <? a) || (MEM_SIZE <? lenN d)); [exact I|].
    destruct (MEM_SIZE <? a + lenN d); [exact I|].
    destruct ((a + lenN d <=? lenN (m_stack m2)) || (m_hp m2 <=? a)); [|exact I].
    destruct (a + lenN d <=? lenN (m_stack m2)); cbn; auto.
  Qed.

  Lemma write_entries_R (es : list (N * (bytes * N))) : forall (m1 m2 : memory H),
    m_stack m1 = m_stack m2 -> m_hp m1 = m_hp m2 ->
    match write_entries m1 es, write_entries m2 es with
    | Some x, Some y => m_stack x = m_stack y /\ m_hp x = m_hp m1 /\ m_hp y = m_hp m2
    | None, None => True
    | _, _ => False
    end.
  Proof.
    induction es as [|[ofs [asset value]] rest IH]; intros m1 m2 Hs Hh; cbn [write_entries]; [auto|].
    pose proof (write_stack_R m1 m2 ofs asset Hs Hh) as W1.
    destruct (mem_write_stack m1 ofs asset) as [a1|], (mem_write_stack m2 ofs asset) as [a2|]; try tauto.
    destruct W1 as (S1 & H1 & H2).
    pose proof (write_stack_R a1 a2 (saturating_add U64 ofs ASSET_LEN) (be_encode 8 value) S1 ltac:(congruence)) as W2.
    destruct (mem_write_stack a1 _ _) as [b1|], (mem_write_stack a2 _ _) as [b2|]; try tauto.
    destruct W2 as (S2 & H3 & H4).
    specialize (IH b1 b2 S2 ltac:(congruence)).
    destruct (write_entries b1 rest), (write_entries b2 rest); try tauto.
    destruct IH as (S3 & H5 & H6). repeat split; congruence.
  Qed.

  (* ---- field updates preserve R *)
  Lemma R_set_reg f (a b : vm) r x : R f a b -> R f (set_reg a r x) (set_reg b r x).
  Proof.
    intros (Hc & Hhp & Hb). split; [|split; [exact Hhp|exact Hb]].
    unfold core in *. cbn. injection Hc; intros; congruence.
  Qed.

  Lemma R_set_balances f (a b : vm) rb : R f a b -> R true (set_balances a rb) (set_balances b rb).
  Proof.
    intros (Hc & Hhp & Hb). split; [|split; [exact Hhp|reflexivity]].
    unfold core in *. cbn. injection Hc; intros; congruence.
  Qed.

  Lemma R_set_mem f (a b : vm) (m1 m2 : memory H) :
    R f a b -> m_stack m1 = m_stack m2 -> m_hp m1 = MEM_SIZE -> m_hp m2 = MEM_SIZE -> R f (set_mem a m1) (set_mem b m2).
  Proof.
    intros (Hc & Hhp & Hb) Hs H1 H2. split; [|split; [exact H1|exact Hb]].
    unfold core in *. cbn. injection Hc; intros; congruence.
  Qed.

  Lemma R_reg f (a b : vm) r : R f a b -> reg a r = reg b r.
  Proof. intros (Hc & _). unfold reg. unfold core in Hc. injection Hc; intros; congruence. Qed.
  Lemma R_stack f (a b : vm) : R f a b -> m_stack (mem a) = m_stack (mem b).
  Proof. intros (Hc & _). unfold core in Hc. injection Hc; intros; congruence. Qed.
  Lemma R_hp_l f (a b : vm) : R f a b -> m_hp (mem a) = MEM_SIZE.
  Proof. intros (_ & Hh & _). exact Hh. Qed.
  Lemma R_hp_r f (a b : vm) : R f a b -> m_hp (mem b) = MEM_SIZE.
  Proof. intros (Hc & Hh & _). unfold core in Hc. injection Hc; intros; congruence. Qed.
  Lemma R_params f (a b : vm) : R f a b -> interpreter_params a = interpreter_params b.
  Proof. intros (Hc & _). unfold core in Hc. injection Hc; intros; congruence. Qed.

  (* ---- the building blocks of init_inner *)
  Lemma push_stack_R f (a b : vm) (d : bytes) (k1 k2 : vm -> init_result) :
    R f a b -> (forall x y, R f x y -> res_R (k1 x) (k2 y)) -> res_R (push_stack a d k1) (push_stack b d k2).
  Proof.
    intros HR Hk. unfold push_stack. rewrite (R_reg _ _ _ REG_SSP HR).
    destruct (checked_add U64 (reg b REG_SSP) (lenN d)) as [new_ssp|]; [|exact I].
    pose proof (grow_stack_R (mem a) (mem b) new_ssp (R_stack _ _ _ HR) ltac:(rewrite (R_hp_l _ _ _ HR), (R_hp_r _ _ _ HR); reflexivity)) as G.
    destruct (mem_grow_stack (mem a) new_ssp) as [m1|r1], (mem_grow_stack (mem b) new_ssp) as [m2|r2]; try tauto.
    2:{ cbn. congruence. }
    destruct G as (S1 & H1 & H2). rewrite (R_hp_l _ _ _ HR) in H1. rewrite (R_hp_r _ _ _ HR) in H2.
    pose proof (write_stack_R m1 m2 (reg b REG_SSP) d S1 ltac:(congruence)) as W.
    destruct (mem_write_stack m1 (reg b REG_SSP) d) as [n1|], (mem_write_stack m2 (reg b REG_SSP) d) as [n2|]; try tauto.
    destruct W as (S2 & H3 & H4).
    apply Hk. apply R_set_mem; [|exact S2|congruence|congruence].
    apply R_set_reg. apply R_set_mem; assumption.
  Qed.

  Lemma to_vm_R f (a b : vm) (rb : RB) (k1 k2 : vm -> init_result) :
    R f a b -> (forall x y, R true x y -> res_R (k1 x) (k2 y)) -> res_R (to_vm E a rb k1) (to_vm E b rb k2).
  Proof.
    intros HR Hk. unfold to_vm. rewrite (R_reg _ _ _ REG_SSP HR), (R_params _ _ _ HR).
    destruct (checked_add U64 (reg b REG_SSP) _) as [new_ssp|]; [|exact I].
    pose proof (grow_stack_R (mem a) (mem b) new_ssp (R_stack _ _ _ HR) ltac:(rewrite (R_hp_l _ _ _ HR), (R_hp_r _ _ _ HR); reflexivity)) as G.
    destruct (mem_grow_stack (mem a) new_ssp) as [m1|r1], (mem_grow_stack (mem b) new_ssp) as [m2|r2]; try tauto.
    2:{ exact I. }
    destruct G as (S1 & H1 & H2). rewrite (R_hp_l _ _ _ HR) in H1. rewrite (R_hp_r _ _ _ HR) in H2.
    pose proof (write_entries_R (rb_entries E rb) m1 m2 S1 ltac:(congruence)) as W.
    destruct (write_entries m1 _) as [n1|], (write_entries m2 _) as [n2|]; try tauto.
    destruct W as (S2 & H3 & H4).
    apply Hk. apply (@R_set_balances f). apply R_set_reg. apply R_set_mem; [exact HR|exact S2|congruence|congruence].
  Qed.

  (* ---- init_inner / init_script / init_predicate from two arbitrary instances *)
  Lemma init_inner_R (v1 v2 : vm) (t : Tx) (ib : IB) (rb : RB) (g : N) :
    same_config E v1 v2 -> ctx v1 = ctx v2 ->
    res_R (init_inner E v1 t ib rb g) (init_inner E v2 t ib rb g).
  Proof.
    intros (Hs & Hd & Hp & Hpc & He & Hv) Hc. unfold init_inner. cbv zeta.
    cbn [interpreter_params tx mem input_contracts storage debugger ctx balances pctx ecal_state verifier]. rewrite Hp.
    destruct (owner_of E (interpreter_params v2) (prepare_sign E t)) as [owner|bug]; [|reflexivity].
    apply (@push_stack_R false).
    { split; [|split; [reflexivity|discriminate]]. unfold core. cbn. rewrite ?Hs, ?Hd, ?Hp, ?Hpc, ?He, ?Hv, ?Hc. reflexivity. }
    intros x1 y1 R1. rewrite (R_params _ _ _ R1). apply (@push_stack_R false); [exact R1|].
    intros x2 y2 R2. apply (@to_vm_R false); [exact R2|].
    intros x3 y3 R3. apply (@push_stack_R true); [repeat apply R_set_reg; exact R3|].
    intros x4 y4 R4. apply (@push_stack_R true); [exact R4|].
    intros x5 y5 R5. cbn. rewrite (R_reg _ _ _ REG_SSP R5). apply R_set_reg. exact R5.
  Qed.

  Lemma same_config_set_ctx (v1 v2 : vm) c : same_config E v1 v2 -> same_config E (set_ctx v1 c) (set_ctx v2 c).
  Proof. unfold same_config. cbn. tauto. Qed.

  Lemma res_R_tx (a b : init_result) : res_R a b ->
    match a, b with IOk x, IOk y => tx x = tx y /\ interpreter_params x = interpreter_params y | _, _ => True end.
  Proof.
    destruct a as [x| |], b as [y| |]; try exact (fun _ => I). intros (Hc & _).
    unfold core in Hc. injection Hc; intros; split; congruence.
  Qed.

  (* C31_init: a transaction initialises ANY two instances with the same untouched fields to
     indistinguishable states (or fails on both with the same error) *)
  Theorem init_script_reuse (v1 v2 : vm) (t : Tx) (ib : IB) :
    same_config E v1 v2 -> res_obs_eq heap_read (init_script E v1 t ib) (init_script E v2 t ib).
  Proof.
    intros Hsc. apply res_R_obs. pose proof Hsc as (Hs & _). unfold init_script. rewrite Hs.
    destruct (block_height E (storage v2)) as [bh|]; [|reflexivity].
    destruct (runtime_balances E ib) as [rb|]; [|reflexivity].
    pose proof (@init_inner_R (set_ctx v1 (CtxScript bh)) (set_ctx v2 (CtxScript bh)) t ib rb
                  (match script_gas_limit E t with Some g => g | None => 0 end)
                  (same_config_set_ctx _ _ _ Hsc) eq_refl) as HI.
    pose proof (res_R_tx _ _ HI) as HT.
    destruct (init_inner E (set_ctx v1 (CtxScript bh)) t ib rb _) as [x|e x|],
             (init_inner E (set_ctx v2 (CtxScript bh)) t ib rb _) as [y|e' y|]; cbn in HI; try tauto.
    destruct HT as (Htx & Hpp). rewrite Htx, Hpp.
    destruct (script_offset E (tx y)); [|exact HI].
    cbn. repeat apply R_set_reg. exact HI.
  Qed.

  Theorem init_predicate_reuse (v1 v2 : vm) (c : context) (t : Tx) (g : N) :
    same_config E v1 v2 -> res_obs_eq heap_read (init_predicate E v1 c t g) (init_predicate E v2 c t g).
  Proof.
    intros Hsc. apply res_R_obs. unfold init_predicate.
    destruct (runtime_balances E (ib_default E)) as [rb|]; [|reflexivity].
    pose proof (@init_inner_R (set_ctx v1 c) (set_ctx v2 c) t (ib_default E) rb g (same_config_set_ctx _ _ _ Hsc) eq_refl) as HI.
    destruct c; try exact I;
      destruct (init_inner E (set_ctx v1 _) t (ib_default E) rb g) as [x|e x|],
               (init_inner E (set_ctx v2 _) t (ib_default E) rb g) as [y|e' y|]; cbn in HI |- *; try tauto;
      repeat apply R_set_reg; exact HI.
  Qed.

  (* predicates: the interpreter is rebuilt around whatever memory the caller supplies *)
  Corollary predicate_memory_irrelevant (m1 m2 : memory H) (s : Storage) (p : Params) (e : Ecal) (c : context) (t : Tx) (g : N) :
    res_obs_eq heap_read (init_predicate E (predicate_vm Frame Receipt Slot E m1 s p e) c t g)
                         (init_predicate E (predicate_vm Frame Receipt Slot E m2 s p e) c t g).
  Proof. apply init_predicate_reuse. unfold same_config, predicate_vm, vm_fresh. cbn. tauto. Qed.

  (* a used instance versus a brand-new one over the same storage, parameters, ecal state *)
  Corollary init_script_vs_fresh (v : vm) (m0 : memory H) (t : Tx) (ib : IB) :
    clear_last_state E (debugger v) = clear_last_state E (debugger_default E) -> pctx v = PCNone -> verifier v = verifier_default E ->
    res_obs_eq heap_read (init_script E v t ib)
                         (init_script E (vm_fresh Frame Receipt Slot E m0 (storage v) (interpreter_params v) (ecal_state v)) t ib).
  Proof. intros Hd Hp Hv. apply init_script_reuse. unfold same_config, vm_fresh. cbn. tauto. Qed.

  (* ---------------------------------------------------------------- what initialisation leaves alone *)
  Definition okP (P : vm -> Prop) (r : init_result) : Prop := match r with IOk x => P x | _ => True end.
  Local Notation untouched := (untouched E).

  Lemma push_stack_P (v0 a : vm) d k :
    untouched v0 a -> (forall x, untouched v0 x -> okP (untouched v0) (k x)) -> okP (untouched v0) (push_stack a d k).
  Proof.
    intros Ha Hk. unfold push_stack.
    destruct (checked_add U64 (reg a REG_SSP) (lenN d)); [|exact I].
    destruct (mem_grow_stack (mem a) n); [|exact I].
    destruct (mem_write_stack m (reg a REG_SSP) d); [|exact I].
    apply Hk. exact Ha.
  Qed.
  Lemma to_vm_P (v0 a : vm) rb k :
    untouched v0 a -> (forall x, untouched v0 x -> okP (untouched v0) (k x)) -> okP (untouched v0) (to_vm E a rb k).
  Proof.
    intros Ha Hk. unfold to_vm.
    destruct (checked_add U64 (reg a REG_SSP) _); [|exact I].
    destruct (mem_grow_stack (mem a) n); [|exact I].
    destruct (write_entries m _); [|exact I].
    apply Hk. exact Ha.
  Qed.

  (* storage, parameters, panic context, ecal state and verifier are exactly as the previous use
     left them; so is the debugger, except that its last state has been forgotten *)
  Theorem init_script_untouched (v v' : vm) (t : Tx) (ib : IB) :
    init_script E v t ib = IOk v' -> untouched v v'.
  Proof.
    unfold init_script.
    destruct (block_height E (storage v)) as [bh|]; [|discriminate].
    destruct (runtime_balances E ib) as [rb|]; [|discriminate].
    assert (HI : okP (untouched v) (init_inner E (set_ctx v (CtxScript bh)) t ib rb (match script_gas_limit E t with Some g => g | None => 0 end))).
    { unfold init_inner. cbv zeta.
      cbn [interpreter_params tx mem input_contracts storage debugger ctx balances pctx ecal_state verifier set_ctx].
      destruct (owner_of E (interpreter_params v) (prepare_sign E t)); [|exact I].
      apply push_stack_P; [unfold ReuseModel.untouched; cbn; tauto|].
      intros x1 H1. apply push_stack_P; [exact H1|].
      intros x2 H2. apply to_vm_P; [exact H2|].
      intros x3 H3. apply push_stack_P; [exact H3|].
      intros x4 H4. apply push_stack_P; [exact H4|].
      intros x5 H5. exact H5. }
    destruct (init_inner E (set_ctx v (CtxScript bh)) t ib rb _) as [x|e x|]; try discriminate.
    cbn in HI. destruct (script_offset E (tx x)); intro Heq; injection Heq as <-; exact HI.
  Qed.

  (* ---------------------------------------------------------------- running *)
  Variable Res : Type.
  Variable step : vm -> vm + Res.
  (* the interpreter respects observations: what C23 (memory operations see accessible bytes only,
     freshly exposed heap bytes read zero) and determinism of the handlers provide *)
  Definition step_respects_obs : Prop :=
    forall a b, obs_eq heap_read a b ->
      match step a, step b with
      | inl a', inl b' => obs_eq heap_read a' b'
      | inr r, inr s => r = s
      | _, _ => False
      end.

  Lemma run_obs (Hstep : step_respects_obs) (n : nat) : forall a b, obs_eq heap_read a b -> run step n a = run step n b.
  Proof.
    induction n as [|n IH]; intros a b Hab; [reflexivity|]. cbn [run].
    specialize (Hstep a b Hab). destruct (step a) as [a'|r], (step b) as [b'|s]; try tauto.
    - apply IH, Hstep.
    - congruence.
  Qed.

  (* C31: the result of a transaction does not depend on what the instance was used for before *)
  Theorem transact_reuse (Hstep : step_respects_obs) (n : nat) (v1 v2 : vm) (t : Tx) (ib : IB) :
    same_config E v1 v2 -> transact E step n v1 t ib = transact E step n v2 t ib.
  Proof.
    intro Hsc. unfold transact. pose proof (init_script_reuse v1 v2 t ib Hsc) as HI.
    destruct (init_script E v1 t ib) as [x|e x|], (init_script E v2 t ib) as [y|e' y|]; cbn in HI; try tauto.
    - rewrite (run_obs Hstep n x y HI). reflexivity.
    - congruence.
  Qed.

  (* ---------------------------------------------------------------- the panic context is consumed *)
  Variable panic_receipt : vm -> N -> panic_context C -> Receipt.
  Variable exec : vm -> vm * instr_outcome.
  (* Verifier::check_contract_in_inputs sets the context and returns the panic at once *)
  Definition sets_pctx_only_with_panic : Prop :=
    forall v, pctx v = PCNone -> pctx (fst (exec v)) = PCNone \/ exists r, snd (exec v) = OPanic r.

  Theorem pctx_consumed (Hex : sets_pctx_only_with_panic) (n : nat) : forall v v',
    pctx v = PCNone -> run_program_pc panic_receipt exec n v = Some v' -> pctx v' = PCNone.
  Proof.
    induction n as [|n IH]; intros v v' Hp Hr; [discriminate|]. cbn [run_program_pc] in Hr.
    pose proof (Hex v Hp) as Hx. destruct (exec v) as [v1 o]. cbn [fst snd] in Hx.
    destruct o.
    - destruct Hx as [Hn|[r Hr']]; [exact (IH v1 v' Hn Hr)|discriminate].
    - injection Hr as <-. destruct Hx as [Hn|[r Hr']]; [exact Hn|discriminate].
    - injection Hr as <-. reflexivity.
    - injection Hr as <-. destruct Hx as [Hn|[r Hr']]; [exact Hn|discriminate].
  Qed.
End ReuseProofs.
Arguments step_respects_obs {H Tx Params Storage Debugger Frame Receipt IB RB C Ecal Verifier Slot} heap_read {Res} step.
Arguments sets_pctx_only_with_panic {H Tx Params Storage Debugger Frame Receipt IB RB C Ecal Verifier Slot} exec.

(* ---------------------------------------------------------------- non-vacuity of the premises *)
Module ReuseExamples.
  (* an interpreter that counts $ggas down, copying the top stack byte into a register, and ends
     with the registers: it respects observations *)
  Definition xvm := vm unit unit unit unit unit unit unit unit unit N unit unit unit.
  Definition xstep (v : xvm) : xvm + list N :=
    if reg v REG_GGAS =? 0 then inr (registers v)
    else inl (set_reg (set_reg v REG_GGAS (reg v REG_GGAS - 1)) 16 (nth 0 (m_stack (mem v)) 0)).
  Example step_respects_obs_satisfiable : step_respects_obs (fun (_ : unit) (_ : N) => 0) xstep.
  Proof.
    intros a b Hab. unfold xstep.
    destruct Hab as (Hr & (Hs & Hh & Hv) & Hrest).
    unfold reg. rewrite Hr, Hs.
    destruct (nth REG_GGAS (registers b) 0 =? 0); [reflexivity|].
    unfold obs_eq, mem_obs_eq. cbn. rewrite Hr. repeat split; try tauto.
  Qed.
  (* an instruction stream in which only panicking instructions set the panic context *)
  Definition xexec (v : xvm) : xvm * instr_outcome :=
    if reg v REG_GGAS =? 0 then (set_pctx v (PCContractId 5), OPanic 12)
    else (set_reg v REG_GGAS (reg v REG_GGAS - 1), OProceed).
  Example sets_pctx_only_with_panic_satisfiable : sets_pctx_only_with_panic xexec.
  Proof.
    intros v Hv. unfold xexec. destruct (reg v REG_GGAS =? 0); cbn; [right; eauto|left; exact Hv].
  Qed.
  (* a debugger = (configuration, last state): instances that differ in the last state only (one was
     left suspended by an abandoned debug session) agree in the sense of same_config *)
  Definition dvm := vm unit unit unit unit (bool * option N) unit unit unit unit N unit unit unit.
  Definition denv : env unit unit unit (bool * option N) unit unit N unit :=
    mkEnv (fun t => t) (fun _ => []) (fun _ _ => inl None) (fun _ => []) (fun _ _ => []) (fun _ => []) (fun _ => 0) (fun _ => 0)
          (fun _ => 0) (fun _ => []) (fun _ => None) (fun _ => None) (fun _ => Some tt) (fun _ => []) (fun _ => Some 0)
          (fun d => (fst d, None)) tt tt tt (false, None) tt.
  Example same_config_ignores_last_state (v : dvm) (l : option N) :
    same_config denv v (mkVm (registers v) (mem v) (frames v) (receipts v) (tx v) (initial_balances v) (input_contracts v)
                             (input_contracts_index_to_output_index v) (storage v) (fst (debugger v), l) (ctx v) (balances v)
                             (interpreter_params v) (pctx v) (ecal_state v) (verifier v) (owner_ptr v) (storage_slot_cache v)).
  Proof. unfold same_config. cbn. tauto. Qed.
End ReuseExamples.
