(* Vm/OwnProofs.v — proofs about the ownership model (Vm/OwnModel.v): what an owned write can
   change, which ranges are refused and why, the restricted owner of LDC. *)
From FV Require Import Base.Bytes Base.U64 Gen.VmConsts Vm.OwnModel.
Open Scope N_scope.

(* case analysis on every boolean comparison in sight *)
Ltac bcmp :=
  repeat match goal with
  | H : context [?a <=? ?b] |- _ => destruct (N.leb_spec a b)
  | H : context [?a <? ?b] |- _ => destruct (N.ltb_spec a b)
  | H : context [?a =? ?b] |- _ => destruct (N.eqb_spec a b)
  | |- context [?a <=? ?b] => destruct (N.leb_spec a b)
  | |- context [?a <? ?b] => destruct (N.ltb_spec a b)
  | |- context [?a =? ?b] => destruct (N.eqb_spec a b)
  end.

Lemma MEM_SIZE_val : MEM_SIZE = 67108864. Proof. reflexivity. Qed.
Lemma VM_MAX_RAM_val : VM_MAX_RAM = 67108864. Proof. reflexivity. Qed.

(* ------------------------------------------------------------------ set_range / zero_range *)
Lemma set_range_changed d a bs x : set_range d a bs x <> d x -> a <= x < a + lenN bs.
Proof.
  unfold set_range. intros H. bcmp; cbn [andb] in H; try lia; congruence.
Qed.

Lemma set_range_outside d a bs x : ~ (a <= x < a + lenN bs) -> set_range d a bs x = d x.
Proof.
  intros H. destruct (N.eq_dec (set_range d a bs x) (d x)) as [E|E]; [exact E|].
  exfalso. apply H. eapply set_range_changed; eauto.
Qed.

Lemma set_range_nil d a x : set_range d a [] x = d x.
Proof. apply set_range_outside. unfold lenN; cbn. lia. Qed.

Lemma zero_range_changed d lo hi x : zero_range d lo hi x <> d x -> lo <= x < hi.
Proof. unfold zero_range. intros H. bcmp; cbn [andb] in H; try lia; congruence. Qed.

(* ------------------------------------------------------------------ ownership of ranges *)
(* non-empty ranges: exactly "inside the stack region" or "inside the heap region" *)
Lemma has_ownership_stack_nonempty o s e :
  s < e ->
  (has_ownership_stack o s e = true <-> o_ssp o <= s /\ e <= o_sp o /\ e <= VM_MAX_RAM).
Proof.
  intros Hlt. unfold has_ownership_stack, range_empty.
  bcmp; cbn [andb negb]; split; intros; try discriminate; try reflexivity; try lia.
Qed.

Lemma has_ownership_heap_nonempty o s e :
  s < e ->
  (has_ownership_heap o s e = true <-> o_hp o <= s /\ e <= o_prev_hp o).
Proof.
  intros Hlt. unfold has_ownership_heap, range_empty.
  bcmp; cbn [andb negb]; split; intros; try discriminate; try reflexivity; try lia.
Qed.

Theorem ownership_nonempty o s e :
  s < e ->
  (has_ownership_range o s e = true <->
   (o_ssp o <= s /\ e <= o_sp o /\ e <= VM_MAX_RAM) \/ (o_hp o <= s /\ e <= o_prev_hp o)).
Proof.
  intros Hlt. unfold has_ownership_range. rewrite orb_true_iff.
  rewrite (has_ownership_stack_nonempty o s e Hlt), (has_ownership_heap_nonempty o s e Hlt). tauto.
Qed.

(* empty ranges (end <= start): "owned iff the start is owned", as the code comments say,
   with the two boundary rules: start = ssp and start = hp are always accepted *)
Theorem ownership_empty o s e :
  e <= s ->
  (has_ownership_range o s e = true <->
   s = o_ssp o \/ (o_ssp o <= s < o_sp o /\ o_ssp o <= e /\ e <= VM_MAX_RAM) \/
   s = o_hp o \/ (o_hp o <= s /\ o_hp o <> o_prev_hp o /\ e <= o_prev_hp o)).
Proof.
  intros Hle. unfold has_ownership_range, has_ownership_stack, has_ownership_heap, range_empty.
  bcmp; cbn [andb negb orb]; split; intros; try discriminate; try reflexivity; try lia.
Qed.

(* hp = prev_hp (the callee, or the script, has not allocated): no heap byte is owned *)
Theorem heap_unallocated_not_owned o s e :
  o_hp o = o_prev_hp o -> s < e -> has_ownership_heap o s e = false.
Proof.
  intros Heq Hlt. destruct (has_ownership_heap o s e) eqn:E; [|reflexivity].
  apply (has_ownership_heap_nonempty o s e Hlt) in E. lia.
Qed.

(* every byte of an owned non-empty range lies in one of the two regions *)
Lemma owned_range_bytes o s e x :
  has_ownership_range o s e = true -> s <= x < e -> in_owned o x.
Proof.
  intros H Hx. assert (Hlt : s < e) by lia.
  apply (ownership_nonempty o s e Hlt) in H. unfold in_owned, in_owned_stack, in_owned_heap.
  destruct H as [H|H]; [left|right]; lia.
Qed.

Lemma in_ownedb_spec o x : in_ownedb o x = true <-> in_owned o x.
Proof.
  unfold in_ownedb, in_owned, in_owned_stack, in_owned_heap.
  bcmp; cbn [andb orb]; split; intros; try discriminate; try reflexivity; try lia.
Qed.

(* ------------------------------------------------------------------ verify *)
Theorem verify_ok_iff m a n s e :
  verify m a n = Ok (s, e) <->
  s = a /\ e = a + n /\ a + n <= MEM_SIZE /\ (a + n <= m_stack_len m \/ m_hp m <= a).
Proof.
  unfold verify, to_addr, rbind. split.
  - intros H0. bcmp; cbn [orb] in H0; try discriminate; injection H0 as <- <-; repeat split; lia.
  - intros (-> & -> & H1 & H2). bcmp; cbn [orb]; try reflexivity; lia.
Qed.

Theorem verify_overflow m a n : MEM_SIZE < a + n -> verify m a n = Err PANIC_MemoryOverflow.
Proof.
  intros H. unfold verify, to_addr, rbind. bcmp; cbn [orb]; try reflexivity; lia.
Qed.

(* inside the address space, but not entirely below the stack high-water mark and not entirely
   at/above $hp: the range touches never-allocated memory or spans the two regions *)
Theorem verify_uninitialized m a n :
  a + n <= MEM_SIZE -> m_stack_len m < a + n -> a < m_hp m ->
  verify m a n = Err PANIC_UninitalizedMemoryAccess.
Proof.
  intros H1 H2 H3. unfold verify, to_addr, rbind. bcmp; cbn [orb]; try reflexivity; lia.
Qed.

(* a range containing a never-allocated byte is never accessible *)
Theorem verify_gap_refused m a n x :
  m_stack_len m <= x < m_hp m -> a <= x < a + n ->
  exists r, verify m a n = Err r /\ (r = PANIC_MemoryOverflow \/ r = PANIC_UninitalizedMemoryAccess).
Proof.
  intros Hx Ha. destruct (N.le_gt_cases (a + n) MEM_SIZE).
  - exists PANIC_UninitalizedMemoryAccess. split; [apply verify_uninitialized; lia | auto].
  - exists PANIC_MemoryOverflow. split; [apply verify_overflow; lia | auto].
Qed.

(* a range starting in the stack region and ending in the heap region is never accessible
   (stack.len() <= hp is the memory invariant of C23) *)
Theorem verify_spanning_refused m a n :
  m_stack_len m <= m_hp m -> a < m_stack_len m -> m_hp m < a + n -> m_stack_len m < m_hp m \/ 0 < n ->
  exists r, verify m a n = Err r /\ (r = PANIC_MemoryOverflow \/ r = PANIC_UninitalizedMemoryAccess).
Proof.
  intros Hinv H1 H2 _. destruct (N.le_gt_cases (a + n) MEM_SIZE).
  - exists PANIC_UninitalizedMemoryAccess. split; [apply verify_uninitialized; lia | auto].
  - exists PANIC_MemoryOverflow. split; [apply verify_overflow; lia | auto].
Qed.

Theorem verify_total m a n :
  (exists s e, verify m a n = Ok (s, e)) \/ verify m a n = Err PANIC_MemoryOverflow \/
  verify m a n = Err PANIC_UninitalizedMemoryAccess.
Proof.
  unfold verify, to_addr, rbind. bcmp; cbn [orb]; eauto.
Qed.

(* ------------------------------------------------------------------ writes *)
Lemma write_check_ok m o a n s e :
  write_check m o a n = Ok (s, e) ->
  s = a /\ e = a + n /\ a + n <= MEM_SIZE /\ has_ownership_range o a (a + n) = true.
Proof.
  unfold write_check, rbind, verify_ownership. intros H.
  destruct (verify m a n) as [[s' e']|r] eqn:V; [|discriminate].
  apply verify_ok_iff in V as (-> & -> & ? & ?).
  destruct (has_ownership_range o a (a + n)) eqn:O; [|discriminate].
  injection H as <- <-. auto.
Qed.

Lemma mem_write_check m o a bs m' :
  mem_write m o a bs = Ok m' ->
  write_check m o a (lenN bs) = Ok (a, a + lenN bs) /\ m' = with_data m (set_range (m_data m) a bs).
Proof.
  unfold mem_write, write_check, rbind. intros H.
  destruct (verify m a (lenN bs)) as [[s e]|r] eqn:V; [|discriminate].
  pose proof V as V'. apply verify_ok_iff in V' as (-> & -> & ? & ?).
  destruct (verify_ownership o a (a + lenN bs)) as [[]|r]; [|discriminate].
  injection H as <-. auto.
Qed.

(* THE ownership theorem: an instruction that writes through MemoryInstance::write changes only
   bytes of the current stack region [ssp, sp) or heap region [hp, prev_hp) *)
Theorem mem_write_owned m o a bs m' :
  mem_write m o a bs = Ok m' ->
  forall x, m_data m' x <> m_data m x -> in_owned o x.
Proof.
  intros H x Hx. apply mem_write_check in H as [C ->]. cbn [m_data with_data] in Hx.
  apply set_range_changed in Hx. apply write_check_ok in C as (_ & _ & _ & O).
  eapply owned_range_bytes; eauto.
Qed.

Theorem mem_write_bounds m o a bs m' :
  mem_write m o a bs = Ok m' -> m_stack_len m' = m_stack_len m /\ m_hp m' = m_hp m.
Proof. intros H. apply mem_write_check in H as [_ ->]. split; reflexivity. Qed.

Theorem mem_write_empty m o a m' :
  mem_write m o a [] = Ok m' -> forall x, m_data m' x = m_data m x.
Proof.
  intros H x. apply mem_write_check in H as [_ ->]. cbn [m_data with_data]. apply set_range_nil.
Qed.

(* refusals of a write, with the reason *)
Theorem mem_write_overflow m o a bs :
  MEM_SIZE < a + lenN bs -> mem_write m o a bs = Err PANIC_MemoryOverflow.
Proof. intros H. unfold mem_write, rbind. rewrite verify_overflow; auto. Qed.

Theorem mem_write_uninitialized m o a bs :
  a + lenN bs <= MEM_SIZE -> m_stack_len m < a + lenN bs -> a < m_hp m ->
  mem_write m o a bs = Err PANIC_UninitalizedMemoryAccess.
Proof. intros. unfold mem_write, rbind. rewrite verify_uninitialized; auto. Qed.

Theorem mem_write_not_owned m o a bs :
  a + lenN bs <= MEM_SIZE -> (a + lenN bs <= m_stack_len m \/ m_hp m <= a) ->
  has_ownership_range o a (a + lenN bs) = false ->
  mem_write m o a bs = Err PANIC_MemoryOwnership.
Proof.
  intros H1 H2 H3. unfold mem_write, rbind.
  assert (V : verify m a (lenN bs) = Ok (a, a + lenN bs)) by (apply verify_ok_iff; auto).
  rewrite V. unfold verify_ownership. rewrite H3. reflexivity.
Qed.

(* a non-empty write containing a byte outside both regions is refused, whatever the registers *)
Theorem mem_write_foreign_byte_refused m o a bs x :
  a <= x < a + lenN bs -> ~ in_owned o x -> exists r, mem_write m o a bs = Err r.
Proof.
  intros Hx Hn. destruct (mem_write m o a bs) as [m'|r] eqn:E; [|eauto].
  exfalso. apply Hn. apply mem_write_check in E as [C _].
  apply write_check_ok in C as (_ & _ & _ & O). eapply owned_range_bytes; eauto.
Qed.

(* memcopy: same guarantee for the destination *)
Lemma memcopy_check_ok m o dst src len ds de :
  memcopy_check m o dst src len = Ok (ds, de) ->
  ds = dst /\ de = dst + len /\ has_ownership_range o dst (dst + len) = true.
Proof.
  unfold memcopy_check, rbind, verify_ownership. intros H.
  destruct (verify m dst len) as [[s e]|r] eqn:V; [|discriminate].
  apply verify_ok_iff in V as (-> & -> & ? & ?).
  destruct (verify m src len) as [[s2 e2]|r] eqn:V2; [|discriminate].
  destruct (ranges_overlap _ _ _ _); [discriminate|].
  destruct (has_ownership_range o dst (dst + len)) eqn:O; [|discriminate].
  injection H as <- <-. auto.
Qed.

Lemma read_range_length d a n : length (read_range d a n) = n.
Proof. revert a; induction n; intros; cbn [read_range length]; auto. Qed.

Theorem mem_memcopy_owned m o dst src len m' :
  mem_memcopy m o dst src len = Ok m' ->
  forall x, m_data m' x <> m_data m x -> in_owned o x.
Proof.
  unfold mem_memcopy, rbind. intros H x Hx.
  destruct (memcopy_check m o dst src len) as [[ds de]|r] eqn:C; [|discriminate].
  injection H as <-. cbn [m_data with_data] in Hx.
  apply memcopy_check_ok in C as (-> & -> & O).
  apply set_range_changed in Hx. unfold lenN in Hx. rewrite read_range_length, N2Nat.id in Hx.
  eapply owned_range_bytes; eauto.
Qed.

(* overlapping source and destination are refused before the ownership check *)
Theorem memcopy_overlap_refused m o dst src len :
  0 < len -> dst + len <= MEM_SIZE -> src + len <= MEM_SIZE ->
  (dst + len <= m_stack_len m \/ m_hp m <= dst) -> (src + len <= m_stack_len m \/ m_hp m <= src) ->
  (dst <= src < dst + len \/ src <= dst < src + len) ->
  mem_memcopy m o dst src len = Err PANIC_MemoryWriteOverlap.
Proof.
  intros Hl H1 H2 H3 H4 H5. unfold mem_memcopy, memcopy_check, rbind.
  assert (V1 : verify m dst len = Ok (dst, dst + len)) by (apply verify_ok_iff; auto).
  assert (V2 : verify m src len = Ok (src, src + len)) by (apply verify_ok_iff; auto).
  rewrite V1, V2. unfold ranges_overlap.
  bcmp; cbn [andb orb]; try reflexivity; lia.
Qed.

(* ------------------------------------------------------------------ the restricted owner of LDC *)
Theorem stack_only_owner_refuses_heap sp ssp hp s e :
  s < e -> has_ownership_heap (only_allow_stack_write sp ssp hp) s e = false.
Proof. intros. apply heap_unallocated_not_owned; auto. Qed.

Theorem stack_only_owner_writes_stack m sp ssp hp a bs m' :
  mem_write m (only_allow_stack_write sp ssp hp) a bs = Ok m' ->
  forall x, m_data m' x <> m_data m x -> ssp <= x < sp.
Proof.
  intros H x Hx. pose proof (mem_write_owned _ _ _ _ _ H x Hx) as [S|Hh]; [exact S|].
  unfold in_owned_heap in Hh. cbn in Hh. lia.
Qed.

(* ------------------------------------------------------------------ stack / heap growth *)
Theorem grow_stack_spec m new_sp m' :
  grow_stack m new_sp = Ok m' ->
  m_hp m' = m_hp m /\ m_stack_len m' = N.max (m_stack_len m) new_sp /\ new_sp <= VM_MAX_RAM /\
  (m_stack_len m <= m_hp m -> m_stack_len m' <= m_hp m') /\
  (forall x, m_data m' x <> m_data m x -> m_stack_len m <= x < new_sp).
Proof.
  unfold grow_stack. intros H0.
  destruct (N.ltb_spec VM_MAX_RAM new_sp); [discriminate|].
  destruct (N.ltb_spec (m_stack_len m) new_sp).
  - destruct (N.ltb_spec (m_hp m) new_sp); [discriminate|].
    injection H0 as <-. cbn [m_hp m_stack_len m_data].
    split; [reflexivity|]. split; [lia|]. split; [lia|]. split; [lia|].
    intros y Hy. apply zero_range_changed in Hy. lia.
  - injection H0 as <-.
    split; [reflexivity|]. split; [lia|]. split; [lia|]. split; [lia|].
    intros y Hy. congruence.
Qed.

Theorem grow_heap_spec m sp amount m' :
  grow_heap_by m sp amount = Ok m' ->
  m_hp m' = m_hp m - amount /\ amount <= m_hp m /\ sp <= m_hp m' /\
  m_stack_len m' = N.min (m_stack_len m) (m_hp m') /\
  (forall x, m_data m' x <> m_data m x -> m_hp m' <= x < m_hp m).
Proof.
  unfold grow_heap_by, checked_sub. intros H0.
  destruct (N.leb_spec amount (m_hp m)); [|discriminate].
  destruct (N.ltb_spec (m_hp m - amount) sp); [discriminate|].
  injection H0 as <-. cbn [m_hp m_stack_len m_data].
  split; [reflexivity|]. split; [lia|]. split; [lia|]. split; [reflexivity|].
  intros y Hy. apply zero_range_changed in Hy. lia.
Qed.

Theorem try_update_sp_spec m ssp hp new_sp m' :
  try_update_sp m ssp hp new_sp = Ok m' -> ssp <= new_sp <= hp /\ grow_stack m new_sp = Ok m'.
Proof. unfold try_update_sp. intros H. bcmp; try discriminate. split; [lia | exact H]. Qed.

(* ------------------------------------------------------------------ simple instructions *)
Theorem store_check_ok m o size a imm s e :
  store_check m o size a imm = Ok (s, e) ->
  s = a + imm * size /\ e = s + size /\ has_ownership_range o s e = true /\ e <= MEM_SIZE.
Proof.
  unfold store_check, checked_add. intros H. bcmp; try discriminate.
  apply write_check_ok in H as (-> & -> & ? & ?). auto.
Qed.

(* ------------------------------------------------------------------ the tie tables *)
(* every Execute handler routes its memory writes through the method kind its class records *)
Theorem class_table_matches_handlers : forallb route_ok handler_routes = true.
Proof. vm_compute. reflexivity. Qed.

Open Scope string_scope.
(* the complete list of places where fuel-vm bypasses the ownership check (or restricts the
   owner), as found by the translator; each is accounted for by a VM-write class of the model
   (or is outside instruction execution: to_vm / init_inner initialise the VM, index_mut is a
   test helper, write and write_bytes_noownerchecks are the checked / unchecked primitives
   themselves) *)
Definition accounted_sites : list (string * string * string) := [
  ("interpreter/balances.rs", "set_memory_balance_inner", "write_bytes_noownerchecks");   (* WBal / WTro / WCall *)
  ("interpreter/balances.rs", "to_vm", "grow_stack");                                     (* initialisation *)
  ("interpreter/balances.rs", "to_vm", "write_bytes_noownerchecks");
  ("interpreter/balances.rs", "to_vm", "write_bytes_noownerchecks");
  ("interpreter/blockchain.rs", "load_contract_code", "grow_stack");                      (* WLdc *)
  ("interpreter/blockchain.rs", "load_contract_code", "only_allow_stack_write");
  ("interpreter/blockchain.rs", "load_contract_code", "write_bytes_noownerchecks");
  ("interpreter/blockchain.rs", "load_blob_code", "grow_stack");
  ("interpreter/blockchain.rs", "load_blob_code", "only_allow_stack_write");
  ("interpreter/blockchain.rs", "load_blob_code", "write_bytes_noownerchecks");
  ("interpreter/blockchain.rs", "load_memory_code", "grow_stack");
  ("interpreter/blockchain.rs", "load_memory_code", "only_allow_stack_write");
  ("interpreter/blockchain.rs", "load_memory_code", "write_bytes_noownerchecks");
  ("interpreter/blockchain.rs", "code_root", "write_noownerchecks");                      (* accessibility probe only, nothing stored *)
  ("interpreter/flow.rs", "prepare_call", "grow_stack");                                  (* WCall *)
  ("interpreter/flow.rs", "prepare_call", "write_noownerchecks");
  ("interpreter/initialization.rs", "init_inner", "grow_stack");                          (* initialisation *)
  ("interpreter/initialization.rs", "init_inner", "write_noownerchecks");
  ("interpreter/internal.rs", "update_memory_output", "write_noownerchecks");             (* WTro, finalisation *)
  ("interpreter/memory.rs", "write_bytes_noownerchecks", "write_noownerchecks");          (* the primitive *)
  ("interpreter/memory.rs", "write", "write_noownerchecks");                              (* after verify_ownership *)
  ("interpreter/memory.rs", "index_mut", "write_noownerchecks");                          (* test helper *)
  ("interpreter/memory.rs", "allocate", "grow_heap_by");                                  (* public API, not an opcode *)
  ("interpreter/memory.rs", "try_update_stack_pointer", "grow_stack");                    (* WGrow / WPush *)
  ("interpreter/memory.rs", "push_selected_registers", "write_noownerchecks");            (* WPush *)
  ("interpreter/memory.rs", "malloc", "grow_heap_by")                                     (* WAloc *)
].
Close Scope string_scope.

Theorem unchecked_sites_accounted : unchecked_write_sites = accounted_sites.
Proof. vm_compute. reflexivity. Qed.

(* ------------------------------------------------------------------ non-vacuity *)
Example owner_example := {| o_sp := 2000; o_ssp := 1000; o_hp := 67100000; o_prev_hp := 67108864 |}.
Example mem_example := {| m_data := fun _ => 0; m_stack_len := 2048; m_hp := 67100000 |}.
Definition write_result (r : res amem) (probe : N) : option N :=
  match r with Ok m' => Some (m_data m' probe) | Err _ => None end.
Example write_ok_example : write_result (mem_write mem_example owner_example 1200 [1; 2; 3]) 1201 = Some 2.
Proof. vm_compute. reflexivity. Qed.
Example write_heap_ok_example : write_result (mem_write mem_example owner_example 67100008 [7]) 67100008 = Some 7.
Proof. vm_compute. reflexivity. Qed.
Example write_tx_refused : mem_write mem_example owner_example 500 [1] = Err PANIC_MemoryOwnership.
Proof. vm_compute. reflexivity. Qed.
Example write_gap_refused : mem_write mem_example owner_example 5000 [1] = Err PANIC_UninitalizedMemoryAccess.
Proof. vm_compute. reflexivity. Qed.
Example write_end_refused : mem_write mem_example owner_example 67108860 [1;2;3;4;5;6;7;8] = Err PANIC_MemoryOverflow.
Proof. vm_compute. reflexivity. Qed.
(* the quirk of empty ranges: MCL $sp 0 is refused although nothing would be written *)
Example empty_at_sp_refused : mem_write mem_example owner_example 2000 [] = Err PANIC_MemoryOwnership.
Proof. vm_compute. reflexivity. Qed.
Example empty_at_ssp_ok : write_result (mem_write mem_example owner_example 1000 []) 1000 = Some 0.
Proof. vm_compute. reflexivity. Qed.
