(* Vm/OutcomeFast.v — an efficient implementation of the run loop of Vm/OutcomeModel.v (receipts
   kept newest-first together with their count, so that a push is O(1)), used by the trace
   checker for executions with tens of thousands of receipts, and the proof that it computes
   exactly OutcomeModel.run. *)
From FV Require Import Base.Bytes Base.U64 Gen.AssetTable Vm.OutcomeModel Vm.OutcomeProofs.
Open Scope N_scope.

Inductive fpush_res := FPushOk (rv : list receipt) (n : N) | FPushFull | FPushTooMany.
Definition fpush (rv : list receipt) (n : N) (r : receipt) : fpush_res :=
  if n =? MAX_RECEIPTS then FPushFull
  else if ((n =? MAX_RECEIPTS - 1) && negb (is_script_result r))
          || ((n =? MAX_RECEIPTS - 2) && negb (is_script_result r || is_panic r))
       then FPushTooMany
       else FPushOk (r :: rv) (n + 1).

Definition ffinish (rv : list receipt) (n : N) (result gas : N) : outcome :=
  match fpush rv n (RcScriptResult result gas) with
  | FPushOk rv' _ => Done (rev_append rv' []) result      (* = rev rv', linear time *)
  | _ => Aborted
  end.

Fixpoint frun (gas : N) (rv : list receipt) (n : N) (depth : N) (prog : list instr) : outcome :=
  match prog with
  | [] => Running {| st_receipts := rev rv; st_depth := depth |}
  | i :: rest =>
      let panic := fun reason =>
        match fpush rv n (RcPanic reason) with
        | FPushOk rv' n' => ffinish rv' n' SER_Panic gas
        | _ => HostPanic
        end in
      let body := fun r (depth' : N) (k : list receipt -> N -> outcome) =>
        match fpush rv n r with
        | FPushOk rv' n' => k rv' n'
        | FPushTooMany => panic PR_TooManyReceipts
        | FPushFull => Aborted
        end in
      match i with
      | ISilent => frun gas rv n depth rest
      | IFail r => panic r
      | IBody k => body (RcBody k) depth (fun rv' n' => frun gas rv' n' depth rest)
      | ICall k => body (RcBody k) depth (fun rv' n' => frun gas rv' n' (depth + 1) rest)
      | IRet k =>
          let top := depth =? 0 in
          body (RcReturn top k) (depth - 1)
               (fun rv' n' => if top then ffinish rv' n' SER_Success gas else frun gas rv' n' (depth - 1) rest)
      | IRvrt => body RcRevert depth (fun rv' n' => ffinish rv' n' SER_Revert gas)
      end
  end.

Lemma fpush_spec rv n r :
  n = rlen (rev rv) ->
  match fpush rv n r, push (rev rv) r with
  | FPushOk rv' n', PushOk rs' => rs' = rev rv' /\ n' = rlen (rev rv')
  | FPushFull, PushFull => True
  | FPushTooMany, PushTooMany => True
  | _, _ => False
  end.
Proof.
  intros ->. unfold fpush, push. destruct (rlen (rev rv) =? MAX_RECEIPTS); [exact I|].
  destruct (_ || _); [exact I|]. cbn [rev]. split; [reflexivity | rewrite rlen_app; reflexivity].
Qed.

Lemma ffinish_spec rv n result gas : n = rlen (rev rv) -> ffinish rv n result gas = finish (rev rv) result gas.
Proof.
  intros H. unfold ffinish, finish. pose proof (fpush_spec rv n (RcScriptResult result gas) H) as S.
  destruct (fpush rv n _) as [rv' n'| |], (push (rev rv) _) as [rs'| |]; try contradiction; try reflexivity.
  destruct S as [-> _]. rewrite <- rev_alt. reflexivity.
Qed.

Theorem frun_spec gas prog : forall rv n depth,
  n = rlen (rev rv) ->
  frun gas rv n depth prog = run gas {| st_receipts := rev rv; st_depth := depth |} prog.
Proof.
  induction prog as [|i rest IH]; intros rv n depth Hn; cbn [frun run]; [reflexivity|].
  assert (PANIC : forall reason d,
            match fpush rv n (RcPanic reason) with FPushOk rv' n' => ffinish rv' n' SER_Panic gas | _ => HostPanic end
            = match push (st_receipts {| st_receipts := rev rv; st_depth := d |}) (RcPanic reason) with
              | PushOk rs => finish rs SER_Panic gas | _ => HostPanic end).
  { intros reason d. cbn [st_receipts]. pose proof (fpush_spec rv n (RcPanic reason) Hn) as S.
    destruct (fpush rv n _) as [rv' n'| |], (push (rev rv) _) as [rs'| |]; try contradiction; try reflexivity.
    destruct S as [-> E]. apply ffinish_spec. exact E. }
  destruct i as [k| |k|k| |reason]; cbn [exec st_receipts st_depth].
  - pose proof (fpush_spec rv n (RcBody k) Hn) as S.
    destruct (fpush rv n _) as [rv' n'| |], (push (rev rv) _) as [rs'| |]; try contradiction.
    + destruct S as [-> E]. apply IH. exact E.
    + reflexivity.
    + apply (PANIC PR_TooManyReceipts depth).
  - apply IH. exact Hn.
  - pose proof (fpush_spec rv n (RcBody k) Hn) as S.
    destruct (fpush rv n _) as [rv' n'| |], (push (rev rv) _) as [rs'| |]; try contradiction.
    + destruct S as [-> E]. apply IH. exact E.
    + reflexivity.
    + apply (PANIC PR_TooManyReceipts depth).
  - pose proof (fpush_spec rv n (RcReturn (depth =? 0) k) Hn) as S.
    destruct (fpush rv n _) as [rv' n'| |], (push (rev rv) _) as [rs'| |]; try contradiction.
    + destruct S as [-> E]. destruct (depth =? 0); cbn [negb st_receipts].
      * apply ffinish_spec. exact E.
      * apply IH. exact E.
    + reflexivity.
    + apply (PANIC PR_TooManyReceipts (depth - 1)).
  - pose proof (fpush_spec rv n RcRevert Hn) as S.
    destruct (fpush rv n _) as [rv' n'| |], (push (rev rv) _) as [rs'| |]; try contradiction.
    + destruct S as [-> E]. cbn [st_receipts]. apply ffinish_spec. exact E.
    + reflexivity.
    + apply (PANIC PR_TooManyReceipts depth).
  - apply (PANIC reason depth).
Qed.

Corollary frun_initial gas prog : frun gas [] 0 0 prog = run gas initial prog.
Proof. apply (frun_spec gas prog [] 0 0). reflexivity. Qed.
