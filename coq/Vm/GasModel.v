(* Vm/GasModel.v — L1 model of the gas code of fuel-vm, function by function (definitions only):
     gas_charge                          (interpreter/gas.rs)        -> gas_charge
     DependentCost::resolve[_without_base] (fuel-tx .../gas.rs)      -> resolve, resolve_without_base
     PrepareCallCtx::prepare_call gas part (interpreter/flow.rs)     -> call_forward
     RetCtx::return_from_context gas part  (interpreter/flow.rs)     -> ret_credit
     run_program gas_used                  (executors/main.rs)       -> gas_used
   u64 arithmetic as written in the Rust code: unchecked `-` is modelled as a result that is
   flagged GBug when it would underflow (debug builds would panic, release builds wrap), the
   checked operations return GBug where the code returns Bug(...). *)
From FV Require Import Base.Bytes Base.U64 Vm.FlowSpec Vm.GasTypes Vm.GasSpec Gen.GasTable.
Open Scope N_scope.

Inductive gres :=
| GOk (s : gstate)
| GOutOfGas (s : gstate)        (* Err(PanicReason::OutOfGas), registers as left by gas_charge *)
| GBug.                         (* arithmetic the code assumes impossible *)

Definition gas_charge (s : gstate) (gas_to_use : N) : gres :=
  if cgas s <? gas_to_use then
    GOutOfGas {| cgas := 0; ggas := saturating_sub (ggas s) (cgas s); saved := saved s |}
  else
    (* `ggas_before - gas_to_use`: plain subtraction, relies on ggas >= cgas *)
    if ggas s <? gas_to_use then GBug
    else GOk {| cgas := cgas s - gas_to_use; ggas := ggas s - gas_to_use; saved := saved s |}.

Definition resolve_without_base (c : cost_val) (units : N) : N :=
  match c with
  | CFixed _ => 0
  | CLight _ upg => units / upg                       (* checked_div(..).expect: upg <> 0 *)
  | CHeavy _ gpu => saturating_mul U64 units gpu
  end.
Definition resolve (c : cost_val) (units : N) : N :=
  match c with
  | CFixed x => x
  | _ => saturating_add U64 (cost_base c) (resolve_without_base c units)
  end.

(* prepare_call after its charges: forward min(cgas, requested), keep the rest in the frame *)
Definition call_forward (s : gstate) (amount_of_gas_to_forward : N) : gres :=
  let forward_gas_amount := N.min (cgas s) amount_of_gas_to_forward in
  match checked_sub (cgas s) forward_gas_amount with
  | None => GBug                                      (* BugVariant::ContextGasUnderflow *)
  | Some rest => GOk {| cgas := forward_gas_amount; ggas := ggas s; saved := rest :: saved s |}
  end.

(* return_from_context: credit the frame's context gas back *)
Definition ret_credit (s : gstate) : gres :=
  match saved s with
  | [] => GOk s
  | k :: t => match checked_add U64 (cgas s) k with
              | None => GBug                          (* BugVariant::ContextGasOverflow *)
              | Some c => GOk {| cgas := c; ggas := ggas s; saved := t |}
              end
  end.

Definition model_event (s : gstate) (e : gevent) : gres :=
  match e with Charge x => gas_charge s x | Call a => call_forward s a | Return => ret_credit s end.

(* a history of events; stops at the first OutOfGas / Bug *)
Fixpoint run (s : gstate) (es : list gevent) : gres :=
  match es with
  | [] => GOk s
  | e :: t => match model_event s e with GOk s' => run s' t | r => r end
  end.

(* run_program: gas_used = gas_limit.checked_sub(remaining_gas) *)
Definition gas_used (limit : N) (s : gstate) : option N := checked_sub limit (ggas s).

(* ---- schedule lookup *)
Fixpoint slookup {A} (k : string) (l : list (string * A)) : option A :=
  match l with [] => None | (k', v) :: t => if String.eqb k k' then Some v else slookup k t end.
Fixpoint nlookup {A} (k : N) (l : list (N * A)) : option A :=
  match l with [] => None | (k', v) :: t => if k =? k' then Some v else nlookup k t end.

Definition first_sel (opcode : N) : option cost_sel := option_map snd (nlookup opcode gas_table).
Definition charges_more (opcode : N) : bool := existsb (N.eqb opcode) gas_more.

(* units of a dependent first charge, from the instruction word and the four operand registers *)
Definition units_of (opcode w : N) (v : rfield -> N) : N :=
  match nlookup opcode gas_units with
  | Some (UReg f) => v f
  | Some (UImm i) => imm i w
  | Some (UReg0is32 f) => if v f =? 0 then 32 else v f
  | None => 0
  end.

(* the first charge of an instruction under a schedule: (amount, exact?) — exact = the whole
   instruction charges exactly this amount when it does not run out of gas *)
Definition first_charge (costs : list (string * cost_val)) (opcode w : N) (v : rfield -> N) : option (N * bool) :=
  match first_sel opcode with
  | None => None
  | Some SelNone => Some (0, true)
  | Some (SelFixed f) => match slookup f costs with
                         | Some c => Some (cost_base c, negb (charges_more opcode)) | None => None end
  | Some (SelDep f) => match slookup f costs with
                       | Some c => Some (resolve c (units_of opcode w v), negb (charges_more opcode)) | None => None end
  | Some (SelDepBase f) | Some (SelInner f) =>
      match slookup f costs with Some c => Some (cost_base c, false) | None => None end
  end.

Definition base_cost_default (opcode : N) : option N :=
  match first_sel opcode with
  | Some s => match sel_field s with
              | Some f => option_map cost_base (slookup f default_costs)
              | None => None
              end
  | None => None
  end.
