(* Vm/GasModel.v — L1 model of the gas code of fuel-vm, function by function (definitions only):
     gas_charge                          (interpreter/gas.rs)        -> gas_charge
     DependentCost::resolve[_without_base] (fuel-tx .../gas.rs)      -> resolve, resolve_without_base
     PrepareCallCtx::prepare_call gas part (interpreter/flow.rs)     -> call_forward
     RetCtx::return_from_context gas part  (interpreter/flow.rs)     -> ret_credit
     run_program gas_used                  (executors/main.rs)       -> gas_used
   u64 arithmetic as written in the Rust code: unchecked `-` is modelled as a result that is
   flagged GBug when it would underflow (debug builds would panic, release builds wrap), the
   checked operations return GBug where the code returns Bug(...). *)
From FV Require Import Base.Bytes Base.U64 Vm.FlowSpec Vm.GasTypes Vm.GasSpec Gen.GasTable.
Open Scope N_scope.

Inductive gres :=
| GOk (s : gstate)
| GOutOfGas (s : gstate)        (* Err(PanicReason::OutOfGas), registers as left by gas_charge *)
| GBug.                         (* arithmetic the code assumes impossible *)

Definition gas_charge (s : gstate) (gas_to_use : N) : gres :=
  if cgas s <? gas_to_use then
    GOutOfGas {| cgas := 0; ggas := saturating_sub (ggas s) (cgas s); saved := saved s |}
  else
    (* `ggas_before - gas_to_use`: plain subtraction, relies on ggas >= cgas *)
    if ggas s <? gas_to_use then GBug
    else GOk {| cgas := cgas s - gas_to_use; ggas := ggas s - gas_to_use; saved := saved s |}.

Definition resolve_without_base (c : cost_val) (units : N) : N :=
  match c with
  | CFixed _ => 0
  | CLight _ upg => units / upg                       (* checked_div(..).expect: upg <> 0 *)
  | CHeavy _ gpu => saturating_mul U64 units gpu
  end.
Definition resolve (c : cost_val) (units : N) : N :=
  match c with
  | CFixed x => x
  | _ => saturating_add U64 (cost_base c) (resolve_without_base c units)
  end.

(* prepare_call after its charges: forward min(cgas, requested), keep the rest in the frame *)
Definition call_forward (s : gstate) (amount_of_gas_to_forward : N) : gres :=
  let forward_gas_amount := N.min (cgas s) amount_of_gas_to_forward in
  match checked_sub (cgas s) forward_gas_amount with
  | None => GBug                                      (* BugVariant::ContextGasUnderflow *)
  | Some rest => GOk {| cgas := forward_gas_amount; ggas := ggas s; saved := rest :: saved s |}
  end.

(* return_from_context: credit the frame's context gas back *)
Definition ret_credit (s : gstate) : gres :=
  match saved s with
  | [] => GOk s
  | k :: t => match checked_add U64 (cgas s) k with
              | None => GBug                          (* BugVariant::ContextGasOverflow *)
              | Some c => GOk {| cgas := c; ggas := ggas s; saved := t |}
              end
  end.

Definition model_event (s : gstate) (e : gevent) : gres :=
  match e with Charge x => gas_charge s x | Call a => call_forward s a | Return => ret_credit s end.

(* a history of events; stops at the first OutOfGas / Bug *)
Fixpoint run (s : gstate) (es : list gevent) : gres :=
  match es with
  | [] => GOk s
  | e :: t => match model_event s e with GOk s' => run s' t | r => r end
  end.

(* run_program: gas_used = gas_limit.checked_sub(remaining_gas) *)
Definition gas_used (limit : N) (s : gstate) : option N := checked_sub limit (ggas s).

(* ---- schedule lookup *)
Fixpoint slookup {A} (k : string) (l : list (string * A)) : option A :=
  match l with [] => None | (k', v) :: t => if String.eqb k k' then Some v else slookup k t end.
Fixpoint nlookup {A} (k : N) (l : list (N * A)) : option A :=
  match l with [] => None | (k', v) :: t => if k =? k' then Some v else nlookup k t end.

Definition first_sel (opcode : N) : option cost_sel := option_map snd (nlookup opcode gas_table).
Definition charges_more (opcode : N) : bool := existsb (N.eqb opcode) gas_more.

(* units of a dependent first charge, from the instruction word and the four operand registers *)
Definition units_of (opcode w : N) (v : rfield -> N) : N :=
  match nlookup opcode gas_units with
  | Some (UReg f) => v f
  | Some (UImm i) => imm i w
  | Some (UReg0is32 f) => if v f =? 0 then 32 else v f
  | None => 0
  end.

(* the first charge of an instruction under a schedule: (amount, exact?) — exact = the whole
   instruction charges exactly this amount when it does not run out of gas *)
Definition first_charge (costs : list (string * cost_val)) (opcode w : N) (v : rfield -> N) : option (N * bool) :=
  match first_sel opcode with
  | None => None
  | Some SelNone => Some (0, true)
  | Some (SelFixed f) => match slookup f costs with
                         | Some c => Some (cost_base c, negb (charges_more opcode)) | None => None end
  | Some (SelDep f) => match slookup f costs with
                       | Some c => Some (resolve c (units_of opcode w v), negb (charges_more opcode)) | None => None end
  | Some (SelDepBase f) | Some (SelInner f) =>
      match slookup f costs with Some c => Some (cost_base c, false) | None => None end
  end.

Definition base_cost_default (opcode : N) : option N :=
  match first_sel opcode with
  | Some s => match sel_field s with
              | Some f => option_map cost_base (slookup f default_costs)
              | None => None
              end
  | None => None
  end.

(* ---- exact totals: the charge sequence of one executed instruction *)
Definition obs := obsq -> option N.
Definition pad8 (x : N) : N := ((x + 7) / 8) * 8.
Fixpoint eval_u (u : uexpr) (w : N) (v : rfield -> N) (o : obs) : option N :=
  match u with
  | XReg f => Some (v f)
  | XImm i => Some (imm i w)
  | XObs q => o q
  | XMax a b => match eval_u a w v o, eval_u b w v o with Some x, Some y => Some (N.max x y) | _, _ => None end
  | XPad8 a => match eval_u a w v o with
               | Some x => if pad8 x <? U64 then Some (pad8 x) else None   (* ok_or(MemoryOverflow)? *)
               | None => None end
  | XPad8Max a => match eval_u a w v o with
                  | Some x => if pad8 x <? U64 then Some (pad8 x) else Some u64_max
                  | None => None end
  | XReg0is32 f => Some (if v f =? 0 then 32 else v f)
  end.
Fixpoint eval_g (g : cguard) (w : N) (v : rfield -> N) (o : obs) (new_entry : bool) : option bool :=
  match g with
  | GAlways => Some true
  | GModeIs n => Some (imm I06 w =? n)
  | GNewEntry => Some new_entry
  | GNz u => option_map (fun x => negb (x =? 0)) (eval_u u w v o)
  | GAnd a b => match eval_g a w v o new_entry with
                | Some false => Some false
                | Some true => eval_g b w v o new_entry
                | None => None end
  end.
Definition item_amount (costs : list (string * cost_val)) (it : charge_item) (w : N) (v : rfield -> N) (o : obs) : option N :=
  match it with
  | ChFixed f => option_map cost_base (slookup f costs)
  | ChBase f => option_map cost_base (slookup f costs)
  | ChDep f u => match slookup f costs, eval_u u w v o with Some c, Some x => Some (resolve c x) | _, _ => None end
  | ChDepNoBase f u => match slookup f costs, eval_u u w v o with Some c, Some x => Some (resolve_without_base c x) | _, _ => None end
  | ChPerByte n => option_map (fun c => saturating_mul U64 n (cost_base c)) (slookup "new_storage_per_byte" costs)
  end.
(* amounts in program order: the known prefix, and whether it is the whole sequence *)
Fixpoint seq_amounts (costs : list (string * cost_val)) (s : cseq) (w : N) (v : rfield -> N) (o : obs) (ne : bool) : list N * bool :=
  match s with
  | [] => ([], true)
  | (g, it) :: t =>
      match eval_g g w v o ne with
      | None => ([], false)
      | Some false => seq_amounts costs t w v o ne
      | Some true => match item_amount costs it w v o with
                     | None => ([], false)
                     | Some a => let '(l, c) := seq_amounts costs t w v o ne in (a :: l, c)
                     end
      end
  end.

Definition micro_amounts (costs : list (string * cost_val)) (m : smicro) : option (list N) :=
  match m with
  | MRead hot len => option_map (fun c => [resolve c len]) (slookup (if hot then "storage_read_hot" else "storage_read_cold") costs)
  | MWrite n o => match slookup "storage_write" costs, slookup "new_storage_per_byte" costs with
                  | Some c, Some p => Some [resolve c n; saturating_mul U64 (cost_base p) (n - o)]
                  | _, _ => None end
  | MClear r => option_map (fun c => [resolve c r]) (slookup "storage_clear" costs)
  end.
Fixpoint micros_amounts (costs : list (string * cost_val)) (ms : list smicro) : option (list N) :=
  match ms with
  | [] => Some []
  | m :: t => match micro_amounts costs m, micros_amounts costs t with Some a, Some b => Some (a ++ b)%list | _, _ => None end
  end.
Definition is_read (m : smicro) := match m with MRead _ _ => true | _ => false end.
Definition is_write (m : smicro) := match m with MWrite _ _ => true | _ => false end.
Definition is_clear (m : smicro) := match m with MClear _ => true | _ => false end.
Fixpoint alternating (ms : list smicro) : bool :=
  match ms with
  | [] => true
  | r :: [] => is_read r
  | r :: wr :: t => is_read r && is_write wr && alternating t
  end.
Fixpoint reads_then_clear (ms : list smicro) : bool :=
  match ms with
  | [] => true
  | m :: t => if is_read m then reads_then_clear t else is_clear m && match t with [] => true | _ => false end
  end.
(* the micro-operation list an instruction of this shape may attempt *)
Definition shape_ok (sh : sshape) (ms : list smicro) : bool :=
  match sh, ms with
  | ShRead, [m] => is_read m
  | ShReads, _ => forallb is_read ms
  | ShReadWrite, [r; wr] => is_read r && is_write wr
  | ShReadWrite, [r] => is_read r           (* the update panicked between read and write *)
  | ShReadWrites, _ => alternating ms
  | ShReadsClear, _ => reads_then_clear ms
  | ShClear, [m] => is_clear m
  | ShWrite, [m] => is_write m
  | _, [] => true                            (* panicked before touching storage *)
  | _, _ => false
  end.

(* all charges of one instruction, in order; bool = the list is complete *)
Definition step_charges (costs : list (string * cost_val)) (opcode w : N) (v : rfield -> N) (o : obs) (ne : bool)
           (ms : list smicro) : option (list N * bool) :=
  match nlookup opcode gas_seq with
  | None => None
  | Some s =>
      let '(l, c) := seq_amounts costs s w v o ne in
      match nlookup opcode gas_storage with
      | None => match ms with [] => Some (l, c) | _ => None end
      | Some sh => if shape_ok sh ms
                   then match micros_amounts costs ms with Some ml => Some ((l ++ ml)%list, c) | None => None end
                   else None
      end
  end.

Fixpoint prefix_sums (acc : N) (l : list N) : list N :=
  match l with [] => [] | x :: t => (acc + x) :: prefix_sums (acc + x) t end.
(* out of gas is justified: some charge of the sequence exceeds what is left at that point *)
Fixpoint oog_justified (cg : N) (l : list N) : bool :=
  match l with [] => false | x :: t => if cg <? x then true else oog_justified (cg - x) t end.
