(* Vm/KvModel.v — L1 model for C33, mirroring
     fuel-vm/src/interpreter/storage.rs        storage_read_slot, storage_slot_len_no_gas,
                                               storage_write_slot, storage_clear_slot_range,
                                               storage_read_to_memory, storage_update_from_memory,
                                               storage_preload, key_range
     fuel-vm/src/storage/memory.rs             contract_state_remove_range
     fuel-vm/src/interpreter/executors/opcodes_impl.rs
                                               SCWQ SRW SRWQ SWW SWWQ SCLR SRDD SRDI SWRD SWRI SUPD SUPI SPLD
   Definitions only.  State = backing store + in-transaction slot cache.  The three slot
   functions are the interpretation of the primitives of [KvSpec.kprog]; every handler is a
   [kprog] term with the checks in the order of the Rust code.  Memory and register
   subsystems enter as oracles ([henv]): what `memory.read(addr,len)` returns and whether
   `memory.write(owner,addr,len)` is admitted.  Gas is an output only ([gnote]). *)
From FV Require Import Base.Bytes Vm.KvSpec.
Open Scope N_scope.

(* ---------- association lists keyed by (contract id, key): BTreeMap<(ContractId,Bytes32),_> ---------- *)
Definition pkey := (N * N)%type.
Definition pkey_eqb (a b : pkey) : bool := (fst a =? fst b) && (snd a =? snd b).
Definition pmap (V : Type) := list (pkey * V).
Fixpoint pget {V} (m : pmap V) (k : pkey) : option V :=
  match m with
  | [] => None
  | (k', v) :: r => if pkey_eqb k' k then Some v else pget r k
  end.
Definition pset {V} (m : pmap V) (k : pkey) (v : V) : pmap V := (k, v) :: m.
Fixpoint pdel {V} (m : pmap V) (k : pkey) : pmap V :=
  match m with
  | [] => []
  | (k', v) :: r => if pkey_eqb k' k then pdel r k else (k', v) :: pdel r k
  end.

Record kst := { st_store : pmap bytes; st_cache : pmap (option bytes) }.
Definition st_begin_tx (st : kst) : kst := {| st_store := st_store st; st_cache := [] |}.  (* initialization.rs: storage_slot_cache.clear() *)

(* calls on the backing storage, in order (what a recording InterpreterStorage sees) *)
Inductive sevent :=
| ERead (c k : N) (v : option bytes)          (* StorageRead::read_alloc *)
| EWrite (c k : N) (v : bytes)                (* contract_state_insert *)
| ERemoveRange (c k n : N).                   (* contract_state_remove_range *)
(* gas charges, in order *)
Inductive gnote :=
| GReadHot (units : N) | GReadCold (units : N)
| GWrite (units new_bytes : N)                (* storage_write(units) then new_storage_per_byte * new_bytes *)
| GClear (n : N).

Definition olen (o : option bytes) : N := match o with Some v => lenN v | None => 0 end.
(* key_range: start + i, None beyond 2^256 - 1 *)
Definition key_add (k i : N) : option N := if k + i <? KEY_LIMIT then Some (k + i) else None.

(* storage_read_slot (the closure `f` is the continuation of the program) *)
Definition read_slot (st : kst) (c k : N) : option bytes * kst * list sevent * list gnote :=
  match pget (st_cache st) (c, k) with
  | Some v => (v, st, [], [GReadHot (olen v)])
  | None =>
      let v := pget (st_store st) (c, k) in
      (v, {| st_store := st_store st; st_cache := pset (st_cache st) (c, k) v |}, [ERead c k v], [GReadCold (olen v)])
  end.
(* storage_slot_len_no_gas *)
Definition slot_len_no_gas (st : kst) (c k : N) : N * kst * list sevent :=
  match pget (st_cache st) (c, k) with
  | Some v => (olen v, st, [])
  | None =>
      let v := pget (st_store st) (c, k) in
      (olen v, {| st_store := st_store st; st_cache := pset (st_cache st) (c, k) v |}, [ERead c k v])
  end.
(* storage_write_slot *)
Definition write_slot (max_len : N) (st : kst) (c k : N) (v : bytes)
  : sres unit * kst * list sevent * list gnote :=
  let '(old_len, st1, ev1) := slot_len_no_gas st c k in
  if max_len <? lenN v then (SPanic KR_StorageOutOfBounds, st1, ev1, [])
  else (SOk tt,
        {| st_store := pset (st_store st1) (c, k) v; st_cache := pset (st_cache st1) (c, k) (Some v) |},
        ev1 ++ [EWrite c k v], [GWrite (lenN v) (lenN v - old_len)]).
(* MemoryStorage::contract_state_remove_range: remove start, start+1, ... (range keys) *)
Fixpoint remove_range (n : nat) (s : pmap bytes) (c k : N) : pmap bytes :=
  match n with
  | O => s
  | S n' => remove_range n' (pdel s (c, k)) c (k + 1)
  end.
(* `for key in key_range(key, range) { cache.insert((contract, key?), None) }` *)
Fixpoint cache_clear (n : nat) (ca : pmap (option bytes)) (c k i : N) : option (pmap (option bytes)) :=
  match n with
  | O => Some ca
  | S n' => match key_add k i with
            | None => None
            | Some ki => cache_clear n' (pset ca (c, ki) None) c k (i + 1)
            end
  end.
(* storage_clear_slot_range *)
Definition clear_slot_range (st : kst) (c k n : N) : sres unit * kst * list sevent * list gnote :=
  if (1 <? n) && negb (k + (n - 1) <? KEY_LIMIT) then (SPanic KR_TooManySlots, st, [], [])
  else
    let store' := remove_range (N.to_nat n) (st_store st) c k in
    match cache_clear (N.to_nat n) (st_cache st) c k 0 with
    | Some ca => (SOk tt, {| st_store := store'; st_cache := ca |}, [ERemoveRange c k n], [GClear n])
    | None =>
        (* `key.ok_or(TooManySlots)?` inside the cache loop: dead code for a 32-byte key (the check
           above covers n > 1, and key + 0 never overflows: KvProofs.cache_clear_total); the model
           treats it like the check above *)
        (SPanic KR_TooManySlots, st, [], [])
    end.

(* interpretation of programs over store + cache *)
Fixpoint run_l1 {A} (max_len : N) (p : kprog A) (st : kst) : sres A * kst * list sevent * list gnote :=
  match p with
  | KRet a => (SOk a, st, [], [])
  | KFail r => (SPanic r, st, [], [])
  | KRead c k cont =>
      let '(v, st1, ev, g) := read_slot st c k in
      let '(r, st2, ev2, g2) := run_l1 max_len (cont v) st1 in (r, st2, ev ++ ev2, g ++ g2)
  | KWrite c k v cont =>
      let '(w, st1, ev, g) := write_slot max_len st c k v in
      match w with
      | SPanic r => (SPanic r, st1, ev, g)
      | SOk _ => let '(r, st2, ev2, g2) := run_l1 max_len cont st1 in (r, st2, ev ++ ev2, g ++ g2)
      end
  | KClear c k n cont =>
      let '(w, st1, ev, g) := clear_slot_range st c k n in
      match w with
      | SPanic r => (SPanic r, st1, ev, g)
      | SOk _ => let '(r, st2, ev2, g2) := run_l1 max_len cont st1 in (r, st2, ev ++ ev2, g ++ g2)
      end
  end.

(* the same interpreter with the cache switched off: every read goes to the backing store *)
Definition drop_cache (st : kst) : kst := {| st_store := st_store st; st_cache := [] |}.
Fixpoint run_nocache {A} (max_len : N) (p : kprog A) (st : kst) : sres A * kst * list sevent * list gnote :=
  match p with
  | KRet a => (SOk a, st, [], [])
  | KFail r => (SPanic r, st, [], [])
  | KRead c k cont =>
      let '(v, st1, ev, g) := read_slot (drop_cache st) c k in
      let '(r, st2, ev2, g2) := run_nocache max_len (cont v) (drop_cache st1) in (r, st2, ev ++ ev2, g ++ g2)
  | KWrite c k v cont =>
      let '(w, st1, ev, g) := write_slot max_len (drop_cache st) c k v in
      match w with
      | SPanic r => (SPanic r, drop_cache st1, ev, g)
      | SOk _ => let '(r, st2, ev2, g2) := run_nocache max_len cont (drop_cache st1) in (r, st2, ev ++ ev2, g ++ g2)
      end
  | KClear c k n cont =>
      let '(w, st1, ev, g) := clear_slot_range (drop_cache st) c k n in
      match w with
      | SPanic r => (SPanic r, drop_cache st1, ev, g)
      | SOk _ => let '(r, st2, ev2, g2) := run_nocache max_len cont (drop_cache st1) in (r, st2, ev ++ ev2, g ++ g2)
      end
  end.

(* persistent effects among the storage calls *)
Fixpoint writes_of (ev : list sevent) : list wevent :=
  match ev with
  | [] => []
  | ERead _ _ _ :: r => writes_of r
  | EWrite c k v :: r => WWrite c k v :: writes_of r
  | ERemoveRange c k n :: r => WRemoveRange c k n :: writes_of r
  end.

(* ---------- handlers ---------- *)
Inductive memres (A : Type) := MOk (a : A) | MFault (reason : N).
Arguments MOk {A} a.
Arguments MFault {A} reason.

Record henv := {
  h_ctx : option N;                   (* internal_contract(): None = ExpectedInternalContext *)
  h_max_len : N;                      (* interpreter_params.max_storage_slot_length *)
  h_rd : N -> N -> memres bytes;      (* memory.read(addr, len) *)
  h_wr : N -> N -> option N;          (* memory.write(owner, addr, len): Some reason = refused *)
}.

(* what a handler changes outside storage *)
Record kout := {
  o_regs : list (N * N);              (* register index, value written *)
  o_err : option N;                   (* $err, when the instruction sets it *)
  o_mem : list (N * bytes);           (* address, bytes written (in program order) *)
}.
Definition out0 : kout := {| o_regs := []; o_err := None; o_mem := [] |}.
Definition out_regs (l : list (N * N)) : kout := {| o_regs := l; o_err := None; o_mem := [] |}.

Definition REG_WRITABLE : N := 16.
Definition sat64 (x : N) : N := N.min x U64_MAX.

Section Handlers.
  Context (e : henv).

  Definition with_key {A} (ptr : N) (k : N -> kprog A) : kprog A :=
    match h_rd e ptr 32 with MOk bs => k (be_decode bs) | MFault r => KFail (KR_Other r) end.
  Definition with_ctx {A} (k : N -> kprog A) : kprog A :=
    match h_ctx e with Some c => k c | None => KFail KR_ExpectedInternalContext end.
  (* write_user_register_legacy: the check only; the value goes into [o_regs] *)
  (* convert::to_usize: only values that fit u32 convert *)
  Definition to_usize {A} (v : N) (err : kreason) (k : unit -> kprog A) : kprog A :=
    if U32_MAX <? v then KFail err else k tt.     (* a thunk: the runner evaluates call-by-value *)
  Definition wreg_legacy {A} (r : N) (k : kprog A) : kprog A :=
    if r <? REG_WRITABLE then KFail KR_ReservedRegisterNotWritable else k.

  (* `for key in key_range(key, range) { was_set = read_slot(..).is_some() }` of SCWQ *)
  Fixpoint isset_loop {A} (n : nat) (c key i : N) (allset : bool) (k : bool -> kprog A) : kprog A :=
    match n with
    | O => k allset
    | S n' => match key_add key i with
              | None => KFail KR_TooManySlots
              | Some ki => KRead c ki (fun v => isset_loop n' c key (i + 1) (allset && is_some v) k)
              end
    end.
  Definition h_scwq (b va vc : N) : kprog kout :=
    with_key va (fun key => to_usize vc KR_TooManySlots (fun _ => with_ctx (fun c =>
      isset_loop (N.to_nat vc) c key 0 true (fun allset =>
        wreg_legacy b (KClear c key vc (KRet (out_regs [(b, b2n allset)]))))))).

  Definition h_srw (a b vc d : N) : kprog kout :=
    with_key vc (fun key => with_ctx (fun c =>
      if a =? b then KFail KR_ReservedRegisterNotWritable
      else KRead c key (fun v =>
        match v with
        | Some bs =>
            if lenN bs <? 8 * d + 8 then KFail KR_StorageOutOfBounds
            else wreg_legacy a (wreg_legacy b (KRet (out_regs [(a, be_decode (slice bs (8 * d) 8)); (b, 1)])))
        | None => wreg_legacy a (wreg_legacy b (KRet (out_regs [(a, 0); (b, 0)])))
        end))).

  Fixpoint srwq_loop {A} (n : nat) (c key start i : N) (allset : bool) (acc : list (N * bytes))
           (k : bool -> list (N * bytes) -> kprog A) : kprog A :=
    match n with
    | O => k allset (rev acc)
    | S n' =>
        match key_add key i with
        | None => KFail KR_TooManySlots
        | Some ki =>
            KRead c ki (fun v =>
              let dst := sat64 (start + 32 * i) in
              match h_wr e dst 32 with
              | Some r => KFail (KR_Other r)
              | None =>
                  match v with
                  | Some bs => if lenN bs =? 32 then srwq_loop n' c key start (i + 1) allset ((dst, bs) :: acc) k
                               else KFail KR_StorageOutOfBounds
                  | None => srwq_loop n' c key start (i + 1) false ((dst, zeros 32) :: acc) k
                  end
              end)
        end
    end.
  Definition h_srwq (b va vc vd : N) : kprog kout :=
    with_key vc (fun key => to_usize vd KR_TooManySlots (fun _ => with_ctx (fun c =>
      srwq_loop (N.to_nat vd) c key va 0 true [] (fun allset mem =>
        wreg_legacy b (KRet {| o_regs := [(b, b2n allset)]; o_err := None; o_mem := mem |}))))).

  Definition h_sww (b va vc : N) : kprog kout :=
    with_key va (fun key => with_ctx (fun c =>
      KRead c key (fun v =>
        KWrite c key (word_value vc)
          (wreg_legacy b (KRet (out_regs [(b, b2n (negb (is_some v)))])))))).

  Fixpoint swwq_loop {A} (n : nat) (c key start i unset : N) (k : N -> kprog A) : kprog A :=
    match n with
    | O => k unset
    | S n' =>
        match key_add key i with
        | None => KFail KR_TooManySlots
        | Some ki =>
            KRead c ki (fun v =>
              match h_rd e (sat64 (start + 32 * i)) 32 with
              | MFault r => KFail (KR_Other r)
              | MOk bs => KWrite c ki bs (swwq_loop n' c key start (i + 1) (if is_some v then unset else unset + 1) k)
              end)
        end
    end.
  Definition h_swwq (b va vc vd : N) : kprog kout :=
    with_key va (fun key => to_usize vd KR_TooManySlots (fun _ => with_ctx (fun c =>
      swwq_loop (N.to_nat vd) c key vc 0 0 (fun unset =>
        wreg_legacy b (KRet (out_regs [(b, unset)])))))).

  Definition h_sclr (va vb : N) : kprog kout :=
    with_key va (fun key => to_usize vb KR_TooManySlots (fun _ => with_ctx (fun c => KClear c key vb (KRet out0)))).

  (* dynamic_storage_read + storage_read_to_memory (SRDD: len = $rD, SRDI: len = imm) *)
  Definition h_srdd (buf key_ptr off len : N) : kprog kout :=
    with_ctx (fun c => with_key key_ptr (fun key =>
      to_usize off KR_MemoryOverflow (fun _ => to_usize len KR_MemoryOverflow (fun _ =>
      KRead c key (fun v =>
        match v with
        | Some bs =>
            if off + len <=? lenN bs then
              match h_wr e buf len with
              | Some r => KFail (KR_Other r)
              | None => KRet {| o_regs := []; o_err := Some 0; o_mem := [(buf, slice bs off len)] |}
              end
            else KFail KR_StorageOutOfBounds
        | None => KRet {| o_regs := []; o_err := Some 1; o_mem := [] |}
        end))))).

  (* dynamic_storage_write + storage_write_from_memory *)
  Definition h_swrd (key_ptr val_ptr len : N) : kprog kout :=
    with_ctx (fun c => with_key key_ptr (fun key =>
      to_usize len KR_MemoryOverflow (fun _ =>
      match h_rd e val_ptr len with
      | MFault r => KFail (KR_Other r)
      | MOk bs => KWrite c key bs (KRet out0)
      end))).

  (* `if len_after > value.len() { value.resize(len_after, 0) }; value[offset..len_after].copy_from_slice(data)` *)
  Definition resize_splice (v : bytes) (off len_after : N) (data : bytes) : bytes :=
    let v2 := if lenN v <? len_after then v ++ zeros (N.to_nat (len_after - lenN v)) else v in
    firstn (N.to_nat off) v2 ++ data ++ skipn (N.to_nat len_after) v2.
  (* dynamic_storage_update + storage_update_from_memory *)
  Definition h_supd (key_ptr val_ptr off len : N) : kprog kout :=
    with_ctx (fun c => with_key key_ptr (fun key =>
      KRead c key (fun v =>
        let cur := match v with Some bs => bs | None => [] end in
        let off' := if off =? U64_MAX then lenN cur else off in
        if negb (off =? U64_MAX) && (U32_MAX <? off) then KFail KR_MemoryOverflow
        else if lenN cur <? off' then KFail KR_StorageOutOfBounds
        else to_usize len KR_MemoryOverflow (fun _ =>
          let len_after := sat64 (off' + len) in
          if h_max_len e <? len_after then KFail KR_StorageOutOfBounds
          else match h_rd e val_ptr len with
               | MFault r => KFail (KR_Other r)
               | MOk data => KWrite c key (resize_splice cur off' len_after data) (KRet out0)
               end)))).

  (* SPLD: write_user_register (a write to $zero is ignored) after $err is set *)
  Definition h_spld (a vb : N) : kprog kout :=
    with_key vb (fun key => with_ctx (fun c =>
      KRead c key (fun v =>
        let '(len, err) := match v with Some bs => (lenN bs, 0) | None => (0, 1) end in
        if a =? 0 then KRet {| o_regs := []; o_err := Some err; o_mem := [] |}
        else if a <? REG_WRITABLE then KFail KR_ReservedRegisterNotWritable
        else KRet {| o_regs := [(a, len)]; o_err := Some err; o_mem := [] |}))).
End Handlers.

(* ---------- one storage instruction ---------- *)
Inductive kinstr :=
| I_SCWQ (b va vc : N)
| I_SRW (a b vc d : N)
| I_SRWQ (b va vc vd : N)
| I_SWW (b va vc : N)
| I_SWWQ (b va vc vd : N)
| I_SCLR (va vb : N)
| I_SRD (buf key_ptr off len : N)          (* SRDD / SRDI *)
| I_SWR (key_ptr val_ptr len : N)          (* SWRD / SWRI *)
| I_SUP (key_ptr val_ptr off len : N)      (* SUPD / SUPI *)
| I_SPLD (a vb : N).

Definition handler (e : henv) (i : kinstr) : kprog kout :=
  match i with
  | I_SCWQ b va vc => h_scwq e b va vc
  | I_SRW a b vc d => h_srw e a b vc d
  | I_SRWQ b va vc vd => h_srwq e b va vc vd
  | I_SWW b va vc => h_sww e b va vc
  | I_SWWQ b va vc vd => h_swwq e b va vc vd
  | I_SCLR va vb => h_sclr e va vb
  | I_SRD buf kp off len => h_srdd e buf kp off len
  | I_SWR kp vp len => h_swrd e kp vp len
  | I_SUP kp vp off len => h_supd e kp vp off len
  | I_SPLD a vb => h_spld e a vb
  end.

(* a history: instructions executed by contracts, each with its own environment, grouped into
   transactions (the cache is cleared at the start of each; a failing instruction ends the
   transaction and its writes are discarded by the embedding node) *)
Definition kcall := (henv * kinstr)%type.

Fixpoint run_tx_l1 (calls : list kcall) (st : kst) : list (sres kout) * kst * bool :=
  match calls with
  | [] => ([], st, true)
  | (e, i) :: r =>
      let '(res, st1, _, _) := run_l1 (h_max_len e) (handler e i) st in
      match res with
      | SPanic _ => ([res], st1, false)
      | SOk _ => let '(outs, st2, ok) := run_tx_l1 r st1 in (res :: outs, st2, ok)
      end
  end.
Fixpoint run_history_l1 (txs : list (list kcall)) (st : kst) : list (list (sres kout)) * kst :=
  match txs with
  | [] => ([], st)
  | tx :: r =>
      let st0 := st_begin_tx st in
      let '(outs, st1, ok) := run_tx_l1 tx st0 in
      let st' := if ok then st1 else st0 in
      let '(rest, stf) := run_history_l1 r st' in (outs :: rest, stf)
  end.

Fixpoint run_tx_plain (calls : list kcall) (m : kvmap) : list (sres kout) * kvmap * bool :=
  match calls with
  | [] => ([], m, true)
  | (e, i) :: r =>
      let '(res, m1, _) := run_plain (h_max_len e) (handler e i) m in
      match res with
      | SPanic _ => ([res], m1, false)
      | SOk _ => let '(outs, m2, ok) := run_tx_plain r m1 in (res :: outs, m2, ok)
      end
  end.
Fixpoint run_history_plain (txs : list (list kcall)) (m : kvmap) : list (list (sres kout)) * kvmap :=
  match txs with
  | [] => ([], m)
  | tx :: r =>
      let '(outs, m1, ok) := run_tx_plain tx m in
      let m' := if ok then m1 else m in
      let '(rest, mf) := run_history_plain r m' in (outs :: rest, mf)
  end.
