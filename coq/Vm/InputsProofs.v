(* Vm/InputsProofs.v — proofs for C30 about Vm/InputsModel.v. *)
From FV Require Import Base.Bytes Gen.KvTable Vm.InputsModel.
Open Scope N_scope.

Lemma mem_n_In x l : mem_n x l = true <-> In x l.
Proof.
  unfold mem_n. rewrite existsb_exists. split.
  - intros (y & Hy & E). apply N.eqb_eq in E. subst. exact Hy.
  - intros H. exists x. split; [exact H | apply N.eqb_refl].
Qed.

Definition touches_ok (s : ist) (l : list touch) : Prop := forall t, In t l -> touch_ok s t = true.

Lemma touches_ok_app s a b : touches_ok s a -> touches_ok s b -> touches_ok s (a ++ b).
Proof. intros Ha Hb t H. apply in_app_or in H as [H|H]; auto. Qed.
Lemma touches_ok_nil s : touches_ok s [].
Proof. intros t []. Qed.
Lemma touches_ok_rw s tb c : mem_n c (i_inputs s) = true -> touches_ok s (rw tb c).
Proof. intros H t [<-|[<-|[]]]; exact H. Qed.

Lemma current_ok s c : frames_ok s = true -> current s = Some c -> mem_n c (i_inputs s) = true.
Proof.
  unfold frames_ok, current. destruct (i_frames s) as [|c' r]; [discriminate|].
  cbn [forallb]. intros H E. injection E as <-. apply andb_true_iff in H. tauto.
Qed.
Lemma debit_ok s : frames_ok s = true -> touches_ok s (debit s).
Proof.
  intros H. unfold debit. destruct (current s) as [c|] eqn:E; [|apply touches_ok_nil].
  apply touches_ok_rw. eapply current_ok; eauto.
Qed.

Lemma step_inputs gf s o : i_inputs (r_next (step_gen gf s o)) = i_inputs s.
Proof.
  unfold step_gen. destruct (i_pred s && negb (mem_n (opcode_of o) predicate_allowed_ops)); [reflexivity|].
  destruct o; cbn [r_next res i_inputs]; try reflexivity.
  - destruct gf; reflexivity.
  - destruct (mode =? 0); [destruct (i_pred s)|]; reflexivity.
  - destruct (current s); reflexivity.
  - destruct (current s); reflexivity.
  - destruct (current s); reflexivity.
Qed.

(* guard soundness: a passing guard means the named contract is an input *)
Definition target_of (o : iop) : option N :=
  match o with
  | OpCall t | OpCodeRead _ t | OpBal t | OpTr t => Some t
  | OpLdc t mode => if mode =? 0 then Some t else None
  | _ => None
  end.
Lemma guard_sound gf s o t :
  target_of o = Some t -> r_guard (step_gen gf s o) = VPass -> In t (i_inputs s).
Proof.
  unfold step_gen. destruct (i_pred s && negb (mem_n (opcode_of o) predicate_allowed_ops)); [discriminate|].
  destruct o; cbn [target_of]; try discriminate; intros E; try (injection E as ->).
  - destruct gf; cbn [r_guard res]; unfold guard_input; destruct (mem_n t (i_inputs s)) eqn:M; try discriminate; intros _; apply mem_n_In; exact M.
  - destruct (mode =? 0); [|discriminate]. injection E as ->.
    destruct (i_pred s); cbn [r_guard res]; [discriminate|].
    unfold guard_input; destruct (mem_n t (i_inputs s)) eqn:M; try discriminate; intros _; apply mem_n_In; exact M.
  - cbn [r_guard res]; unfold guard_input; destruct (mem_n t (i_inputs s)) eqn:M; try discriminate; intros _; apply mem_n_In; exact M.
  - cbn [r_guard res]; unfold guard_input; destruct (mem_n t (i_inputs s)) eqn:M; try discriminate; intros _; apply mem_n_In; exact M.
  - cbn [r_guard res]; unfold guard_input; destruct (mem_n t (i_inputs s)) eqn:M; try discriminate; intros _; apply mem_n_In; exact M.
Qed.

(* the active contract stays an input: frames are pushed only behind a passing guard *)
Lemma step_frames gf s o :
  frames_ok s = true -> r_guard (step_gen gf s o) = VPass -> frames_ok (r_next (step_gen gf s o)) = true.
Proof.
  intros Hf. unfold step_gen. destruct (i_pred s && negb (mem_n (opcode_of o) predicate_allowed_ops)); [discriminate|].
  destruct o; cbn [r_guard r_next res]; try (intros _; exact Hf).
  - (* CALL *) assert (G : guard_input s target = VPass -> frames_ok {| i_inputs := i_inputs s; i_frames := target :: i_frames s; i_pred := i_pred s |} = true).
    { unfold guard_input, frames_ok. cbn [i_inputs i_frames forallb]. destruct (mem_n target (i_inputs s)); [intros _; exact Hf | discriminate]. }
    destruct gf; exact G.
  - destruct (mode =? 0); [destruct (i_pred s)|]; cbn [r_guard r_next res]; intros _; exact Hf.
  - destruct (current s); cbn [r_guard r_next res]; intros _; exact Hf.
  - destruct (current s); cbn [r_guard r_next res]; intros _; exact Hf.
  - destruct (current s); cbn [r_guard r_next res]; intros _; exact Hf.
  - intros _. unfold frames_ok in *. cbn [i_inputs i_frames]. destruct (i_frames s) as [|c r]; [reflexivity|].
    cbn [tl forallb] in *. apply andb_true_iff in Hf. tauto.
  - intros _. unfold frames_ok in *. cbn [i_inputs i_frames]. destruct (i_frames s) as [|c r]; [reflexivity|].
    cbn [tl forallb] in *. apply andb_true_iff in Hf. tauto.
Qed.

(* accesses behind the guard concern input contracts only *)
Lemma post_ok gf s o :
  frames_ok s = true -> r_guard (step_gen gf s o) = VPass -> touches_ok s (r_post (step_gen gf s o)).
Proof.
  intros Hf. unfold step_gen. destruct (i_pred s && negb (mem_n (opcode_of o) predicate_allowed_ops)); [discriminate|].
  assert (Hd := debit_ok s Hf).
  assert (G : forall t, guard_input s t = VPass -> mem_n t (i_inputs s) = true).
  { intros t. unfold guard_input. destruct (mem_n t (i_inputs s)); [reflexivity|discriminate]. }
  destruct o; cbn [r_guard r_post res]; try (intros _; apply touches_ok_nil); try (intros _; exact Hd).
  - destruct gf; cbn [r_guard r_post res]; intros Hg; apply G in Hg.
    + apply touches_ok_app; [|apply touches_ok_app; [apply touches_ok_rw; exact Hg|]].
      * intros t [<-|H]; [exact Hg | apply Hd; exact H].
      * intros t [<-|[]]; exact Hg.
    + apply touches_ok_app; [apply touches_ok_rw; exact Hg|]. intros t [<-|[]]; exact Hg.
  - destruct (mode =? 0); [destruct (i_pred s)|]; cbn [r_guard r_post res]; try (intros _; apply touches_ok_nil).
    intros Hg; apply G in Hg. intros t [<-|[]]; exact Hg.
  - intros Hg; apply G in Hg. intros t [<-|[]]; exact Hg.
  - intros Hg; apply G in Hg. intros t [<-|[]]; exact Hg.
  - intros Hg; apply G in Hg. apply touches_ok_app; [exact Hd | apply touches_ok_rw; exact Hg].
  - destruct (current s) as [c|] eqn:E; cbn [r_guard r_post res]; [|discriminate]. intros _. apply touches_ok_rw. eapply current_ok; eauto.
  - destruct (current s) as [c|] eqn:E; cbn [r_guard r_post res]; [|discriminate]. intros _. apply touches_ok_rw. eapply current_ok; eauto.
  - destruct (current s) as [c|] eqn:E; cbn [r_guard r_post res]; [|discriminate]. intros _.
    pose proof (current_ok s c Hf E) as Hc. intros t [<-|Hin]; [exact Hc|]. destruct (sop_writes k); [destruct Hin as [<-|[]]; exact Hc | destruct Hin].
Qed.

(* accesses before the guard: with the guard first there are none; in the order of the code the
   only one that can concern a non-input contract is the code-size probe of CALL *)
Lemma pre_fixed s o : r_pre (step_gen true s o) = [].
Proof.
  unfold step_gen. destruct (i_pred s && negb (mem_n (opcode_of o) predicate_allowed_ops)); [reflexivity|].
  destruct o; cbn [r_pre res]; try reflexivity.
  - destruct (mode =? 0); [destruct (i_pred s)|]; reflexivity.
  - destruct (current s); reflexivity.
  - destruct (current s); reflexivity.
  - destruct (current s); reflexivity.
Qed.
Lemma pre_actual s o t :
  frames_ok s = true -> In t (r_pre (step_gen false s o)) ->
  touch_ok s t = true \/ (exists target, o = OpCall target /\ t = mk TCode target ARead).
Proof.
  intros Hf. unfold step_gen. destruct (i_pred s && negb (mem_n (opcode_of o) predicate_allowed_ops)); [intros []|].
  destruct o; cbn [r_pre res]; try (intros Hx; contradiction Hx).
  - intros [<-|H]; [right; eauto | left; apply (debit_ok s Hf); exact H].
  - destruct (mode =? 0); [destruct (i_pred s)|]; intros [].
  - destruct (current s); intros [].
  - destruct (current s); intros [].
  - destruct (current s); intros [].
Qed.

Lemma run_inputs gf prog : forall s, i_inputs (snd (run_gen gf s prog)) = i_inputs s.
Proof.
  induction prog as [|[o done] r IH]; intros s; [reflexivity|]. cbn [run_gen].
  set (x := step_gen gf s o).
  set (s' := match r_guard x with VPass => if done then r_next x else s | _ => s end).
  assert (Hs : i_inputs s' = i_inputs s).
  { subst s' x. destruct (r_guard (step_gen gf s o)); try reflexivity. destruct done; [apply step_inputs | reflexivity]. }
  specialize (IH s'). destruct (run_gen gf s' r) as [ts sf]. cbn [snd] in *. congruence.
Qed.

(* ---- all instruction sequences ---- *)
Theorem frames_invariant gf prog : forall s,
  frames_ok s = true -> frames_ok (snd (run_gen gf s prog)) = true.
Proof.
  induction prog as [|[o done] r IH]; intros s Hf; [exact Hf|]. cbn [run_gen].
  set (x := step_gen gf s o).
  set (s' := match r_guard x with VPass => if done then r_next x else s | _ => s end).
  assert (Hs : frames_ok s' = true).
  { subst s' x. destruct (r_guard (step_gen gf s o)) eqn:G; try exact Hf. destruct done; [apply step_frames; assumption | exact Hf]. }
  specialize (IH s' Hs). destruct (run_gen gf s' r) as [ts sf]. exact IH.
Qed.

Lemma touch_ok_inputs s s' t : i_inputs s' = i_inputs s -> touch_ok s' t = touch_ok s t.
Proof. intros H. unfold touch_ok. rewrite H. reflexivity. Qed.

Theorem run_fixed_touches prog : forall s,
  frames_ok s = true -> touches_ok s (fst (run_fixed s prog)).
Proof.
  unfold run_fixed. induction prog as [|[o done] r IH]; intros s Hf; [apply touches_ok_nil|]. cbn [run_gen].
  set (x := step_gen true s o).
  set (s' := match r_guard x with VPass => if done then r_next x else s | _ => s end).
  assert (Hs : frames_ok s' = true /\ i_inputs s' = i_inputs s).
  { subst s' x. destruct (r_guard (step_gen true s o)) eqn:G; try (split; [exact Hf|reflexivity]).
    destruct done; [split; [apply step_frames; assumption | apply step_inputs] | split; [exact Hf|reflexivity]]. }
  destruct Hs as [Hs Hi]. specialize (IH s' Hs). destruct (run_gen true s' r) as [ts sf]. cbn [fst] in *.
  apply touches_ok_app.
  - unfold accesses. subst x. rewrite pre_fixed. destruct (r_guard (step_gen true s o)) eqn:G; try apply touches_ok_nil.
    cbn [app]. apply post_ok; assumption.
  - intros t H. rewrite <- (touch_ok_inputs s s' t Hi). apply IH; exact H.
Qed.

Theorem run_actual_touches prog : forall s t,
  frames_ok s = true -> In t (fst (run s prog)) ->
  touch_ok s t = true \/ (exists target done, In (OpCall target, done) prog /\ t = mk TCode target ARead).
Proof.
  unfold run. induction prog as [|[o done] r IH]; intros s t Hf; [intros []|]. cbn [run_gen].
  set (x := step_gen false s o).
  set (s' := match r_guard x with VPass => if done then r_next x else s | _ => s end).
  assert (Hs : frames_ok s' = true /\ i_inputs s' = i_inputs s).
  { subst s' x. destruct (r_guard (step_gen false s o)) eqn:G; try (split; [exact Hf|reflexivity]).
    destruct done; [split; [apply step_frames; assumption | apply step_inputs] | split; [exact Hf|reflexivity]]. }
  destruct Hs as [Hs Hi]. specialize (IH s' t Hs). destruct (run_gen false s' r) as [ts sf]. cbn [fst] in *.
  intros H. apply in_app_or in H as [H|H].
  - unfold accesses in H. subst x.
    assert (Hpre : In t (r_pre (step_gen false s o)) -> touch_ok s t = true \/ (exists target done0, In (OpCall target, done0) ((o, done) :: r) /\ t = mk TCode target ARead)).
    { intros Hp. destruct (pre_actual s o t Hf Hp) as [?|(tg & -> & ->)]; [left; assumption | right; exists tg, done; split; [left; reflexivity | reflexivity]]. }
    destruct (r_guard (step_gen false s o)) eqn:G; try (apply Hpre; exact H).
    apply in_app_or in H as [H|H]; [apply Hpre; exact H | left; apply (post_ok false s o Hf G); exact H].
  - destruct (IH H) as [Ht|(tg & d & Hin & ->)].
    + left. rewrite <- (touch_ok_inputs s s' t Hi). exact Ht.
    + right. exists tg, d. split; [right; exact Hin | reflexivity].
Qed.

(* no storage slot, no balance, and no write of any kind outside the inputs, also in the order of the code *)
Corollary run_actual_no_foreign_state prog s t :
  frames_ok s = true -> In t (fst (run s prog)) -> touch_ok s t = false ->
  t_table t = TCode /\ t_acc t = ARead.
Proof.
  intros Hf Hin Hno. destruct (run_actual_touches prog s t Hf Hin) as [H|(tg & d & _ & ->)]; [congruence | split; reflexivity].
Qed.

(* the full statement is false for the order of the code: a CALL naming a contract that is not an
   input reads that contract's code size before the guard refuses *)
Definition all_touches_in_inputs (gf : bool) : Prop :=
  forall s prog t, frames_ok s = true -> In t (fst (run_gen gf s prog)) -> touch_ok s t = true.
Theorem actual_order_refuted : ~ all_touches_in_inputs false.
Proof.
  intros H.
  specialize (H {| i_inputs := [1]; i_frames := []; i_pred := false |} [(OpCall 2, false)] (mk TCode 2 ARead) eq_refl).
  assert (In (mk TCode 2 ARead) (fst (run_gen false {| i_inputs := [1]; i_frames := []; i_pred := false |} [(OpCall 2, false)]))) as Hin
    by (vm_compute; left; reflexivity).
  specialize (H Hin). vm_compute in H. discriminate.
Qed.
Theorem fixed_order_holds : all_touches_in_inputs true.
Proof. intros s prog t Hf Hin. exact (run_fixed_touches prog s Hf t Hin). Qed.

(* ---- predicates ---- *)
(* none of the instruction classes that touch contract state is admitted by Opcode::is_predicate_allowed,
   except LDC, whose contract mode is refused inside load_contract_code *)
Lemma predicate_gate_closed :
  forallb (fun c => negb (mem_n c predicate_allowed_ops))
    [OP_CALL; OP_CCP; OP_CSIZ; OP_CROO; OP_BAL; OP_TR; OP_TRO; OP_MINT; OP_BURN; OP_SMO;
     OP_SCWQ; OP_SRW; OP_SRWQ; OP_SWW; OP_SWWQ; OP_SCLR; OP_SRDD; OP_SRDI; OP_SWRD; OP_SWRI; OP_SUPD; OP_SUPI; OP_SPLD; OP_RETD] = true
  /\ mem_n OP_LDC predicate_allowed_ops = true.
Proof. vm_compute. split; reflexivity. Qed.

Theorem predicate_no_effect gf s o :
  i_pred s = true -> r_pre (step_gen gf s o) = [] /\ r_post (step_gen gf s o) = [].
Proof.
  intros Hp. unfold step_gen. rewrite Hp. cbn [andb].
  destruct (negb (mem_n (opcode_of o) predicate_allowed_ops)) eqn:E; [split; reflexivity|].
  destruct o as [t|t mode|k t|t|t| | | | |k| | |c]; try destruct k; try (vm_compute in E; discriminate E);
    cbn [r_pre r_post res]; try (split; reflexivity).
  destruct (mode =? 0); cbn [r_pre r_post res]; split; reflexivity.
Qed.

(* ---- non-vacuity ---- *)
Example example_state_ok : frames_ok {| i_inputs := [5; 7]; i_frames := [7; 5]; i_pred := false |} = true.
Proof. reflexivity. Qed.
Example example_run :
  run {| i_inputs := [5; 7]; i_frames := []; i_pred := false |}
      [(OpCall 5, true); (OpStorage S_SWW, true); (OpTr 9, false); (OpCall 7, true); (OpBal 5, true); (OpRet, true); (OpRet, true)]
  = ([mk TCode 5 ARead; mk TBalance 5 ARead; mk TBalance 5 AWrite; mk TCode 5 ARead;
      mk TState 5 ARead; mk TState 5 AWrite;
      mk TCode 7 ARead; mk TBalance 5 ARead; mk TBalance 5 AWrite; mk TBalance 7 ARead; mk TBalance 7 AWrite; mk TCode 7 ARead;
      mk TBalance 5 ARead],
     {| i_inputs := [5; 7]; i_frames := []; i_pred := false |}).
Proof. vm_compute. reflexivity. Qed.
