(* Vm/FlowModel.v — L1 model of the control-flow code of fuel-vm, function by function:
     JumpArgs::jump                 (interpreter/flow.rs)        -> jump_model
     inc_pc                         (interpreter/internal.rs)    -> inc_pc
     write_user_register            (interpreter/internal.rs)    -> write_user_register
     the jump handlers              (executors/opcodes_impl.rs)  -> model_exec over Gen.FlowTable.jump_table
     fetch_instruction              (executors/instruction.rs)   -> fetch_model
     MemoryInstance::verify         (interpreter/memory.rs)      -> mem_verify
     pc discipline of CALL/RET/RVRT/others                       -> step_pc
   Definitions only.  u64 arithmetic is written with the saturating/checked operations of
   Base/U64.v exactly where the Rust code uses them. *)
From FV Require Import Base.Bytes Base.U64 Vm.FlowSpec Gen.FlowTable.
Open Scope N_scope.

Definition INSTR_SIZE : N := 4.
Definition inc_pc (pc : N) : N := saturating_add U64 pc INSTR_SIZE.

(* JumpArgs::jump: None = Err(MemoryOverflow) *)
Definition jump_model (cond : bool) (m : jmode) (is pc dyn fixed : N) : option N :=
  if negb cond then Some (inc_pc pc)
  else
    let target :=
      match m with
      | Assign => Some (saturating_add U64 dyn (saturating_mul U64 fixed INSTR_SIZE))
      | RelIS =>
          let offset_instructions := saturating_add U64 dyn fixed in
          let offset_bytes := saturating_mul U64 offset_instructions INSTR_SIZE in
          Some (saturating_add U64 is offset_bytes)
      | RelFwd =>
          let offset_instructions := saturating_add U64 (saturating_add U64 dyn fixed) 1 in
          let offset_bytes := saturating_mul U64 offset_instructions INSTR_SIZE in
          Some (saturating_add U64 pc offset_bytes)
      | RelBwd =>
          let offset_instructions := saturating_add U64 (saturating_add U64 dyn fixed) 1 in
          let offset_bytes := saturating_mul U64 offset_instructions INSTR_SIZE in
          checked_sub pc offset_bytes
      end in
    match target with
    | None => None
    | Some t => if VM_MAX_RAM_gen <=? t then None else Some t
    end.

(* write_user_register: zero register ignored, other reserved registers refused *)
Definition write_user_register (r : N -> N) (reg val : N) : option ((N -> N) * option (N * N)) :=
  if reg =? 0 then Some (r, None)
  else if reg <? REG_WRITABLE then None
  else Some (upd r reg val, Some (reg, val)).

(* a jump handler, after its gas charge succeeded *)
Definition model_exec (e : jentry) (w : N) (r : N -> N) : fres :=
  let linked :=
    match j_link e with
    | None => Some (r, None)
    | Some f => write_user_register r (field f w) (saturating_add U64 (r REG_PC) INSTR_SIZE)
    end in
  match linked with
  | None => FPanic RReservedRegister
  | Some (r', wr) =>
      match jump_model (cond_val (j_cond e) w r') (j_mode e) (r REG_IS) (r REG_PC)
                       (src_val (j_dyn e) w r') (src_val (j_fixed e) w r') with
      | Some pc' => FOk pc' wr
      | None => FPanic RMemoryOverflow
      end
  end.

Fixpoint lookup {A} (k : N) (l : list (N * A)) : option A :=
  match l with [] => None | (k', v) :: t => if k =? k' then Some v else lookup k t end.

Definition jump_entry (opcode : N) : option jentry := option_map snd (lookup opcode jump_table).
Definition class_of (opcode : N) : option fclass := option_map snd (lookup opcode flow_class).

(* ---- instruction fetch *)
(* MemoryInstance::verify(addr, count): None = ok *)
Definition mem_verify (stack_len hp addr count : N) : option N :=
  let e := saturating_add U64 addr count in
  if VM_MAX_RAM_gen <? e then Some PANIC_MemoryOverflow
  else if (e <=? stack_len) || (hp <=? addr) then None
  else Some PANIC_UninitalizedMemoryAccess.

(* fetch_instruction: None = the instruction is fetched and executed *)
Definition fetch_model (is ssp stack_len hp pc : N) : option N :=
  match mem_verify stack_len hp pc 4 with
  | Some reason => Some reason
  | None => if (pc <? is) || (ssp <=? pc) then Some PANIC_MemoryNotExecutable else None
  end.

(* ---- program counter after one executed instruction, by handler class.
   outcome: 0 Proceed, 1 Return, 2 ReturnData, 3 Revert, 4 Panic.
   `caller_pc`: $pc saved in the innermost call frame (the CALL instruction), if any;
   `sp`: $sp before the step. *)
Definition step_pc (cls : fclass) (outcome : N) (pc sp : N) (caller_pc : option N) : option N :=
  match outcome with
  | 4 => Some pc                                   (* panic: pc untouched *)
  | 3 => match cls with KRevert => Some pc | _ => None end
  | 1 | 2 =>
      match cls with
      | KRet => match caller_pc with
                | Some cpc => Some (inc_pc cpc)    (* registers restored from the frame, then inc_pc *)
                | None => Some (inc_pc pc)
                end
      | _ => None
      end
  | 0 =>
      match cls with
      | KIncPc => Some (inc_pc pc)
      | KCall => Some (sp + CALLFRAME_SIZE)        (* code start = old $sp + frame size *)
      | _ => None                                  (* jumps are handled by model_exec *)
      end
  | _ => None
  end.
