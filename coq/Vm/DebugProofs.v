(* Vm/DebugProofs.v — proofs about Vm/DebugModel.v, for ANY interpreter step function, any
   breakpoint configuration and any (possibly stale) debugger last state. *)
From Coq Require Import List NArith Bool Lia.
From FV Require Import Vm.DebugModel.
Import ListNotations.
Open Scope N_scope.

(* order-preserving embedding: every element of the first list is matched by a distinct, later
   and later, element of the second one *)
Inductive sublist {A : Type} : list A -> list A -> Prop :=
| sub_nil : forall l, sublist [] l
| sub_take : forall x a b, sublist a b -> sublist (x :: a) (x :: b)
| sub_skip : forall x a b, sublist a b -> sublist a (x :: b).

Section DebugProofs.
  Variable C : Type.
  Variable C_eqb : C -> C -> bool.
  Variable C_default : C.
  Variable St : Type.
  Variable Res : Type.
  Variable fetch : St -> bool.
  Variable exec : St -> St + Res.
  Variable fault : St -> Res.
  Variable cur_contract : St -> option C.
  Variable pc_off : St -> N.
  Variable script_empty : bool.
  Variable empty_result : St -> Res.
  Hypothesis C_eqb_refl : forall c, C_eqb c c = true.

  Local Notation dbg := (debugger C Res).
  Local Notation run_loop := (run_loop C C_eqb C_default St Res fetch exec fault cur_contract pc_off).
  Local Notation run_program := (run_program C C_eqb C_default St Res fetch exec fault cur_contract pc_off script_empty empty_result).
  Local Notation resume := (resume C C_eqb C_default St Res fetch exec fault cur_contract pc_off script_empty empty_result).
  Local Notation drive_from := (drive_from C C_eqb C_default St Res fetch exec fault cur_contract pc_off script_empty empty_result).
  Local Notation drive := (drive C C_eqb C_default St Res fetch exec fault cur_contract pc_off script_empty empty_result).
  Local Notation drive_before := (drive_before_22c6df9 C C_eqb C_default St Res fetch exec fault cur_contract pc_off script_empty empty_result).
  Local Notation clear_last_state := (clear_last_state C Res).
  Local Notation plain_loop := (plain_loop St Res fetch exec fault).
  Local Notation plain_run := (plain_run St Res fetch exec fault script_empty empty_result).
  Local Notation arrivals := (arrivals St Res fetch exec).
  Local Notation loc := (loc C C_default St cur_contract pc_off).
  Local Notation wants := (wants C C_eqb C_default St Res cur_contract pc_off).
  Local Notation suppressed := (suppressed C C_eqb C_default St Res cur_contract pc_off).
  Local Notation triggers := (triggers C C_eqb C_default St Res cur_contract pc_off).
  Local Notation expected := (expected C C_eqb C_default St Res cur_contract pc_off).
  Local Notation ev_of := (ev_of C C_default St cur_contract pc_off).
  Local Notation guard := (guard C C_eqb C_default St Res cur_contract pc_off).
  Local Notation after := (after C Res).
  Local Notation take_last_state := (take_last_state C Res).
  Local Notation set_last_state := (set_last_state C Res).

  Lemma bp_eqb_refl (b : bpoint C) : bp_eqb C C_eqb b b = true.
  Proof. unfold bp_eqb. rewrite C_eqb_refl, N.eqb_refl. reflexivity. Qed.

  (* ---------------------------------------------------------------- the guard, case by case *)
  (* the guard lets the instruction through, and clears the last state, unless the location
     triggers; then it reports exactly the current location *)
  Lemma guard_spec (d : dbg) (s : St) :
    guard d s = if triggers d s then (take_last_state d, Some (DBreakpoint C (loc s)))
                else (after d, None).
  Proof.
    unfold guard, triggers, wants, suppressed, after, eval_debugger_state, eval_state, has_breakpoint, loc.
    destruct d as [act single bps last]; cbn [is_active single_stepping breakpoints last_state].
    destruct act; cbn [andb]; [|reflexivity].
    set (c := match cur_contract s with Some c => c | None => C_default end).
    destruct single; cbn [orb fst snd].
    - destruct last as [p|]; cbn [negb]; [|reflexivity].
      destruct (ps_eq_bp C C_eqb Res p (c, pc_off s)); reflexivity.
    - destruct (bp_get C C_eqb bps c) as [set|]; [|reflexivity].
      destruct (existsb (N.eqb (pc_off s)) set); cbn [andb]; [|reflexivity].
      destruct last as [p|]; cbn [negb]; [|reflexivity].
      destruct (ps_eq_bp C C_eqb Res p (c, pc_off s)); reflexivity.
  Qed.

  (* one iteration of the loop *)
  Lemma run_loop_step (n : nat) (d : dbg) (s : St) :
    run_loop (S n) d s =
      if fetch s then
        if triggers d s
        then (set_last_state (take_last_state d) (PRunProgram C Res (DBreakpoint C (loc s))),
              ODebug C St Res (DBreakpoint C (loc s)) s)
        else match exec s with
             | inl s' => run_loop n (after d) s'
             | inr r => (after d, OFinal r)
             end
      else (d, OFinal (fault s)).
  Proof.
    cbn [DebugModel.run_loop]. destruct (fetch s); [|reflexivity].
    rewrite guard_spec. destruct (triggers d s); reflexivity.
  Qed.

  (* the debugger as resume finds it after an event at s *)
  Definition stopped_at (d : dbg) (s : St) : dbg :=
    set_last_state (take_last_state d) (PRunProgram C Res (DBreakpoint C (loc s))).

  Lemma stopped_not_triggers (d : dbg) (s : St) : triggers (stopped_at d s) s = false.
  Proof.
    unfold triggers, suppressed, stopped_at. cbn [last_state DebugModel.set_last_state ps_eq_bp].
    rewrite bp_eqb_refl. cbn [negb]. apply andb_false_r.
  Qed.

  Lemma after_stopped (d : dbg) (s : St) : is_active C Res d = true -> after (stopped_at d s) = after d.
  Proof.
    intro Ha. unfold after, stopped_at.
    destruct d as [act single bps last]; cbn in *. subst act. reflexivity.
  Qed.

  Lemma triggers_active (d : dbg) (s : St) : triggers d s = true -> is_active C Res d = true.
  Proof. unfold triggers, wants. destruct (is_active C Res d); [reflexivity|discriminate]. Qed.

  (* "an event is reported at most once per arrival": resuming from an event at s executes the
     instruction at s before the debugger is consulted again *)
  Lemma resume_executes_first (n : nat) (d : dbg) (s : St) :
    fetch s = true -> is_active C Res d = true ->
    run_loop (S n) (stopped_at d s) s =
      match exec s with
      | inl s' => run_loop n (after d) s'
      | inr r => (after d, OFinal r)
      end.
  Proof.
    intros Hf Ha. rewrite run_loop_step, Hf, stopped_not_triggers, (after_stopped d s Ha). reflexivity.
  Qed.

  (* whatever run_loop returns with a debug event has that event as last state *)
  Lemma run_loop_debug_last (n : nat) : forall (d d' : dbg) (s s' : St) e,
    run_loop n d s = (d', ODebug C St Res e s') -> set_last_state d' (PRunProgram C Res e) = d'.
  Proof.
    induction n as [|n IH]; intros d d' s s' e H; [discriminate|].
    rewrite run_loop_step in H. destruct (fetch s); [|discriminate].
    destruct (triggers d s).
    - injection H as <- <- <-. reflexivity.
    - destruct (exec s) as [s1|r]; [eapply IH; exact H|discriminate].
  Qed.

  Lemma resume_stopped (n : nat) (d : dbg) (s : St) :
    script_empty = false ->
    resume n (stopped_at d s) s = (fst (run_loop n (stopped_at d s) s), ROut C St Res (snd (run_loop n (stopped_at d s) s))).
  Proof.
    intro He. unfold DebugModel.resume. cbn [last_state stopped_at DebugModel.set_last_state].
    unfold DebugModel.run_program. rewrite He.
    change (DebugModel.set_last_state C Res (take_last_state d) (PRunProgram C Res (DBreakpoint C (loc s)))) with (stopped_at d s).
    destruct (run_loop n (stopped_at d s) s) as [d' o] eqn:E. cbn [fst snd].
    destruct o as [r|e s'|]; try reflexivity.
    rewrite (run_loop_debug_last _ _ _ _ _ _ E). reflexivity.
  Qed.

  (* ---------------------------------------------------------------- main simulation lemma *)
  Lemma drive_from_final (k n : nat) (d : dbg) (r : Res) : drive_from k n d (OFinal r) = ([], Some r).
  Proof. destruct k; reflexivity. Qed.
  Lemma arrivals_length (n : nat) : forall s, (length (arrivals n s) <= n)%nat.
  Proof.
    induction n as [|n IH]; intro s; cbn; [lia|].
    destruct (fetch s); cbn; [|lia]. destruct (exec s) as [s'|r]; cbn; [specialize (IH s')|]; lia.
  Qed.

  Lemma drive_main (n : nat) : forall (s : St) (r : Res),
    script_empty = false ->
    plain_loop n s = Some r ->
    forall (d : dbg) (k m1 m2 : nat),
      (n < m1)%nat -> (n < m2)%nat -> (length (arrivals n s) <= k)%nat ->
      drive_from k m2 (fst (run_loop m1 d s)) (snd (run_loop m1 d s)) = (map ev_of (expected d (arrivals n s)), Some r).
  Proof.
    induction n as [|n IH]; intros s r He Hp d k m1 m2 H1 H2 Hk; [discriminate|].
    destruct m1 as [|m1]; [lia|]. destruct m2 as [|m2]; [lia|].
    cbn [DebugModel.plain_loop] in Hp. cbn [DebugModel.arrivals] in Hk |- *.
    rewrite run_loop_step.
    destruct (fetch s) eqn:Hf.
    2:{ injection Hp as <-. cbn [fst snd]. apply drive_from_final. }
    cbn [DebugModel.expected].
    destruct (triggers d s) eqn:Ht.
    - (* an event is reported at s; the client resumes *)
      cbn [fst snd]. cbn [length] in Hk. destruct k as [|k]; [lia|].
      cbn [DebugModel.drive_from].
      change (DebugModel.set_last_state C Res (take_last_state d) (PRunProgram C Res (DBreakpoint C (loc s)))) with (stopped_at d s).
      rewrite (resume_stopped _ _ _ He).
      rewrite (resume_executes_first m2 d s Hf (triggers_active _ _ Ht)).
      destruct (exec s) as [s'|r'] eqn:Hx.
      + rewrite (IH s' r He Hp (after d) k m2 (S m2)); [reflexivity|lia|lia|lia].
      + injection Hp as <-. cbn [fst snd]. rewrite drive_from_final. reflexivity.
    - destruct (exec s) as [s'|r'] eqn:Hx.
      + cbn [length] in Hk. cbn [app].
        apply (IH s' r He Hp (after d) k m1 (S m2)); lia.
      + injection Hp as <-. cbn [fst snd]. apply drive_from_final.
  Qed.

  (* ---------------------------------------------------------------- the three statements *)
  (* the client loop started with an arbitrary debugger (any left-over last state) *)
  Lemma drive_before_exact (n : nat) (s : St) (r : Res) (d : dbg) :
    plain_run n s = Some r ->
    drive_before (S n) (S n) d s = (map ev_of (if script_empty then [] else expected d (arrivals n s)), Some r).
  Proof.
    unfold DebugModel.plain_run, DebugModel.drive_before_22c6df9, DebugModel.run_program.
    destruct script_empty eqn:He; intro Hp.
    - injection Hp as <-. reflexivity.
    - pose proof (drive_main n s r He Hp d (S n) (S n) (S n)) as H.
      rewrite He in H. destruct (run_loop (S n) d s) as [d' o]. apply H; try lia.
      pose proof (arrivals_length n s). lia.
  Qed.

  (* C32_same (+ the exact list of events): transact, then resuming after every event until
     completion, yields the result of the plain run; the reported events are exactly `expected`
     for the debugger with its last state forgotten. *)
  Theorem drive_exact (n : nat) (s : St) (r : Res) (d : dbg) :
    plain_run n s = Some r ->
    drive (S n) (S n) d s = (map ev_of (if script_empty then [] else expected (clear_last_state d) (arrivals n s)), Some r).
  Proof. intro H. exact (drive_before_exact n s r (clear_last_state d) H). Qed.

  Theorem drive_same_result (n : nat) (s : St) (r : Res) (d : dbg) :
    plain_run n s = Some r -> snd (drive (S n) (S n) d s) = Some r.
  Proof. intro H. rewrite (drive_exact n s r d H). reflexivity. Qed.

  Lemma expected_sublist : forall (l : list St) (d : dbg), sublist (expected d l) l.
  Proof.
    induction l as [|s l IH]; intro d; cbn; [constructor|].
    destruct (triggers d s); cbn; [apply sub_take|apply sub_skip]; apply IH.
  Qed.

  Lemma arrivals_fetch (n : nat) : forall s x, In x (arrivals n s) -> fetch x = true.
  Proof.
    induction n as [|n IH]; intros s x; cbn; [tauto|].
    destruct (fetch s) eqn:Hf; [|cbn; tauto]. cbn. intros [<-|H]; [exact Hf|].
    destruct (exec s) as [s'|r]; [eapply IH; exact H|destruct H].
  Qed.

  Lemma sublist_In {A} (a b : list A) : sublist a b -> forall x, In x a -> In x b.
  Proof.
    induction 1; intros y Hy; cbn in *; [tauto| |right; auto].
    destruct Hy as [->|Hy]; [left; reflexivity|right; auto].
  Qed.

  (* C32_before: every reported event carries (i) the location of the suspended state and (ii) a
     state that the PLAIN run reaches, with the instruction at that location fetched but not yet
     executed; the events appear in the order of the plain run, each arrival being used by at most
     one event (C32_once). *)
  Theorem drive_events_embed (n : nat) (s : St) (r : Res) (d : dbg) :
    plain_run n s = Some r ->
    let evs := fst (drive (S n) (S n) d s) in
    sublist (map snd evs) (arrivals n s) /\
    Forall (fun e : event C St => fst e = loc (snd e) /\ fetch (snd e) = true) evs.
  Proof.
    intro H. rewrite (drive_exact n s r d H). cbn [fst].
    destruct script_empty.
    - split; constructor.
    - split.
      + rewrite map_map. cbn [ev_of snd]. rewrite map_id. apply expected_sublist.
      + apply Forall_forall. intros e He. apply in_map_iff in He. destruct He as [x [<- Hx]].
        cbn [ev_of DebugModel.ev_of fst snd]. split; [reflexivity|].
        apply (arrivals_fetch n s). apply (sublist_In _ _ (expected_sublist _ (clear_last_state d))). exact Hx.
  Qed.

  (* with no stale last state the reported arrivals are exactly those the configuration asks for *)
  Lemma expected_filter : forall (l : list St) (d : dbg),
    last_state C Res d = None -> expected d l = filter (wants d) l.
  Proof.
    assert (Hw : forall d x, wants (after d) x = wants d x).
    { intros d x. unfold DebugModel.wants, DebugModel.after, DebugModel.has_breakpoint.
      destruct d as [act single bps last]; cbn. destruct act; reflexivity. }
    assert (Hl : forall d, last_state C Res d = None -> last_state C Res (after d) = None).
    { intros d H. unfold DebugModel.after. destruct (is_active C Res d); [reflexivity|exact H]. }
    induction l as [|s l IH]; intros d Hn; cbn; [reflexivity|].
    unfold DebugModel.triggers, DebugModel.suppressed. rewrite Hn. cbn [negb]. rewrite andb_true_r.
    rewrite (IH (after d) (Hl d Hn)).
    rewrite (filter_ext _ _ (Hw d)).
    destruct (wants d s); reflexivity.
  Qed.

  Lemma wants_clear (d : dbg) (x : St) : wants (clear_last_state d) x = wants d x.
  Proof. reflexivity. Qed.

  (* whatever an earlier session left behind, the reported arrivals are exactly those the
     configuration asks for *)
  Theorem drive_events_fresh (n : nat) (s : St) (r : Res) (d : dbg) :
    plain_run n s = Some r -> script_empty = false ->
    fst (drive (S n) (S n) d s) = map ev_of (filter (wants d) (arrivals n s)).
  Proof.
    intros H He. rewrite (drive_exact n s r d H). rewrite He. cbn [fst].
    rewrite (expected_filter _ (clear_last_state d) eq_refl).
    rewrite (filter_ext _ _ (wants_clear d)). reflexivity.
  Qed.

  (* an inactive debugger reports nothing *)
  Theorem drive_inactive (n : nat) (s : St) (r : Res) (d : dbg) :
    plain_run n s = Some r -> is_active C Res d = false -> fst (drive (S n) (S n) d s) = [].
  Proof.
    intros H Ha. rewrite (drive_exact n s r d H). cbn [fst]. destruct script_empty; [reflexivity|].
    assert (forall l, expected (clear_last_state d) l = []) as E.
    { induction l as [|x l IH]; cbn [DebugModel.expected]; [reflexivity|].
      unfold DebugModel.triggers, DebugModel.wants, DebugModel.after. cbn [is_active DebugModel.clear_last_state].
      rewrite Ha. cbn. exact IH. }
    rewrite E. reflexivity.
  Qed.
End DebugProofs.

(* ---------------------------------------------------------------- non-vacuity / witnesses *)
(* A one-instruction self loop: the state is a counter, the location never changes, the
   instruction runs 4 times (3 jumps to itself, then the run ends with result = counter). *)
Module SelfLoop.
  Definition exec (s : N) : N + N := if s <? 3 then inl (s + 1) else inr s.
  Definition cfg (single : bool) (bps : list (bpoint N)) : debugger N N :=
    fold_left (set_breakpoint N N.eqb N) bps
      (if single then set_single_stepping N N (debugger_default) true else debugger_default).
  Definition go (d : debugger N N) :=
    drive N N.eqb 0 N N (fun _ => true) exec (fun s => s) (fun _ => None) (fun _ => 0) false (fun s => s) 5 5 d 0.
  Definition go_before_22c6df9 (d : debugger N N) :=
    drive_before_22c6df9 N N.eqb 0 N N (fun _ => true) exec (fun s => s) (fun _ => None) (fun _ => 0) false (fun s => s) 5 5 d 0.

  Example plain : plain_run N N (fun _ => true) exec (fun s => s) false (fun s => s) 4 0 = Some 3.
  Proof. reflexivity. Qed.
  (* a breakpoint on the self-loop location is reported once per iteration, state untouched *)
  Example breakpoint_on_self_loop :
    go (cfg false [(0, 0)]) = ([((0,0),0); ((0,0),1); ((0,0),2); ((0,0),3)], Some 3).
  Proof. vm_compute. reflexivity. Qed.
  Example single_stepping : go (cfg true []) = ([((0,0),0); ((0,0),1); ((0,0),2); ((0,0),3)], Some 3).
  Proof. vm_compute. reflexivity. Qed.
  Example other_breakpoint : go (cfg false [(0, 4); (7, 0)]) = ([], Some 3).
  Proof. vm_compute. reflexivity. Qed.
  (* a last state left by an abandoned session at the same location no longer matters *)
  Example stale_last_state_is_forgotten :
    go (set_last_state N N (cfg false [(0, 0)]) (PRunProgram N N (DBreakpoint N (0, 0))))
    = ([((0,0),0); ((0,0),1); ((0,0),2); ((0,0),3)], Some 3).
  Proof. vm_compute. reflexivity. Qed.
  (* HISTORICAL (code before repair 22c6df9, finding F9): without clear_last_state in init_inner the
     stale last state swallowed the first event, and only the first *)
  Lemma historical_stale_last_state_witness_before_22c6df9 :
    exists (d : debugger N N),
      last_state N N d <> None /\
      fst (go_before_22c6df9 d) <> fst (go_before_22c6df9 (take_last_state N N d)) /\
      snd (go_before_22c6df9 d) = snd (go_before_22c6df9 (take_last_state N N d)) /\
      go d = go (take_last_state N N d).
  Proof.
    exists (set_last_state N N (cfg false [(0, 0)]) (PRunProgram N N (DBreakpoint N (0, 0)))).
    split; [discriminate|]. split; [vm_compute; discriminate|]. split; vm_compute; reflexivity.
  Qed.
End SelfLoop.
