(* Alu/AluSpec.v — L3 specification of the ALU instructions (properties C21, C22), written from
   the instruction-set semantics (fuel-specs "Arithmetic/Logic (ALU) Instructions"), as
   mathematics over Z.  Independent of the implementation: no u128, no helpers, no loops.

   Conventions of the ISA section:
     - every ALU instruction advances $pc by 4 when it does not panic;
     - a mathematically undefined operation panics (ArithmeticError) unless F_UNSAFEMATH is set,
       in which case $err := 1 and the result is 0;
     - an overflowing operation panics (ArithmeticOverflow) unless F_WRAPPING is set, in which case
       $of := the overflowing part (ADD/SUB/MUL/MLDV, narrow ADD/MUL), or 1 (EXP, wide ops);
     - otherwise $of and $err are cleared.
   Operands b, c, d are the values of $rB, $rC, $rD (0 <= . < 2^64); imm the immediate. *)
From Coq Require Import ZArith Bool.
From FV Require Import Alu.AluSyntax.
Open Scope Z_scope.

Definition W64 : Z := 2 ^ 64.

Inductive spec_outcome :=
| S_ok (res of_ err : Z)        (* $rA := res, $of := of_, $err := err, $pc += 4 *)
| S_panic (r : reason).

(* result kept in full: low word to $rA, the rest ("as though $of were the high word") to $of *)
Definition capture (wrapping : bool) (exact : Z) : spec_outcome :=
  if (0 <=? exact) && (exact <? W64) then S_ok exact 0 0
  else if wrapping then S_ok (exact mod W64) ((exact / W64) mod W64) 0
  else S_panic ArithmeticOverflow.

(* result zeroed and $of := 1 on overflow *)
Definition flagged (wrapping : bool) (exact : Z) : spec_outcome :=
  if exact <? W64 then S_ok exact 0 0
  else if wrapping then S_ok 0 1 0
  else S_panic ArithmeticOverflow.

Definition undefined (unsafe : bool) : spec_outcome :=
  if unsafe then S_ok 0 0 1 else S_panic ArithmeticError.

Definition plain (v : Z) : spec_outcome := S_ok v 0 0.
Definition b2z (b : bool) : Z := if b then 1 else 0.

(* floor(log_c b) and floor(b^(1/c)) by their defining inequalities *)
Definition is_floor_log (b c r : Z) : Prop := 0 <= r /\ c ^ r <= b < c ^ (r + 1).
Definition is_floor_root (b c r : Z) : Prop := 0 <= r /\ r ^ c <= b < (r + 1) ^ c.

(* NIOP: imm = op (bits 0-3) | width (bits 4-5); operands are truncated to the width first *)
Definition narrow_spec (wrapping : bool) (imm b c : Z) : spec_outcome :=
  let opn := imm mod 16 in
  let wsel := (imm / 16) mod 4 in
  if (5 <? opn) || (2 <? wsel) then S_panic InvalidImmediateValue
  else
    let w := 2 ^ (8 * 2 ^ wsel) in               (* 2^8, 2^16, 2^32 *)
    let l := b mod w in
    let r := c mod w in
    let finish (res of_ : Z) :=
      if (of_ =? 0) || wrapping then S_ok res of_ 0 else S_panic ArithmeticOverflow in
    if opn =? 0 then finish ((l + r) mod w) ((l + r) / w)
    else if opn =? 1 then finish ((l - r) mod w) (if l <? r then W64 - 1 else 0)
    else if opn =? 2 then finish ((l * r) mod w) ((l * r) / w)
    else if opn =? 3 then (if l ^ r <? w then S_ok (l ^ r) 0 0 else finish 0 1)
    else if opn =? 4 then S_ok ((l * 2 ^ r) mod w) 0 0
    else S_ok (w - 1 - Z.lxor l r) 0 0.          (* XNOR within the width *)

(* C21: what the instruction must do, as a predicate on the outcome (a function for every
   instruction except MLOG/MROO, whose results are characterised by inequalities) *)
Definition alu_spec (unsafe wrapping : bool) (op : alu_op) (b c d imm : Z) (o : spec_outcome) : Prop :=
  match op with
  | O_ADD => o = capture wrapping (b + c)
  | O_ADDI => o = capture wrapping (b + imm)
  | O_SUB => o = capture wrapping (b - c)
  | O_SUBI => o = capture wrapping (b - imm)
  | O_MUL => o = capture wrapping (b * c)
  | O_MULI => o = capture wrapping (b * imm)
  | O_MLDV => o = capture wrapping ((b * c) / (if d =? 0 then W64 else d))
  | O_EXP => o = flagged wrapping (b ^ c)
  | O_EXPI => o = flagged wrapping (b ^ imm)
  | O_DIV => o = if c =? 0 then undefined unsafe else plain (b / c)
  | O_DIVI => o = if imm =? 0 then undefined unsafe else plain (b / imm)
  | O_MOD => o = if c =? 0 then undefined unsafe else plain (b mod c)
  | O_MODI => o = if imm =? 0 then undefined unsafe else plain (b mod imm)
  | O_MLOG => if (b =? 0) || (c <=? 1) then o = undefined unsafe
              else exists r, is_floor_log b c r /\ o = plain r
  | O_MROO => if c =? 0 then o = undefined unsafe
              else exists r, is_floor_root b c r /\ o = plain r
  | O_AND => o = plain (Z.land b c)
  | O_ANDI => o = plain (Z.land b imm)
  | O_OR => o = plain (Z.lor b c)
  | O_ORI => o = plain (Z.lor b imm)
  | O_XOR => o = plain (Z.lxor b c)
  | O_XORI => o = plain (Z.lxor b imm)
  | O_NOT => o = plain (W64 - 1 - b)
  | O_EQ => o = plain (b2z (b =? c))
  | O_GT => o = plain (b2z (c <? b))
  | O_LT => o = plain (b2z (b <? c))
  | O_MOVE => o = plain b
  | O_MOVI => o = plain imm
  | O_SLL => o = plain ((b * 2 ^ c) mod W64)
  | O_SLLI => o = plain ((b * 2 ^ imm) mod W64)
  | O_SRL => o = plain (b / 2 ^ c)
  | O_SRLI => o = plain (b / 2 ^ imm)
  | O_NIOP => o = narrow_spec wrapping imm b c
  | O_NOOP => o = plain 0                          (* no destination: only $of/$err cleared, $pc += 4 *)
  | _ => False                                     (* wide-integer opcodes: see wide_spec *)
  end.

Definition is_c21_op (op : alu_op) : bool :=
  match op with
  | O_WDCM | O_WQCM | O_WDOP | O_WQOP | O_WDML | O_WQML | O_WDDV | O_WQDV
  | O_WDMD | O_WQMD | O_WDAM | O_WQAM | O_WDMM | O_WQMM => false
  | _ => true
  end.

(* ------------------------------------------------------------------ C22: wide integers *)
(* value of a big-endian byte string: sum of byte_k * 256^(n-1-k) *)
Fixpoint be_value (bs : list Z) : Z :=
  match bs with
  | nil => 0
  | cons b r => b * 256 ^ Z.of_nat (length r) + be_value r
  end.

Inductive wide_outcome :=
| W_reg (res : Z)                   (* compares: $rA := res, $of := 0, $err := 0 *)
| W_mem (value of_ err : Z)         (* MEM[$rA, width/8] := value (big-endian), $of, $err *)
| W_panic (r : reason).

Definition wflagged (wrapping : bool) (M exact : Z) : wide_outcome :=
  if (0 <=? exact) && (exact <? M) then W_mem exact 0 0
  else if wrapping then W_mem (exact mod M) 1 0
  else W_panic ArithmeticOverflow.
Definition wundefined (unsafe : bool) : wide_outcome :=
  if unsafe then W_mem 0 0 1 else W_panic ArithmeticError.

Definition leading_zeros_spec (bits x : Z) : Z := if x =? 0 then bits else bits - 1 - Z.log2 x.

(* compare modes 0..6 (imm bits 0-2): EQ NE LT GT LTE GTE LZC *)
Definition wide_cmp_spec (bits mode l r : Z) : Z :=
  if mode =? 0 then b2z (l =? r)
  else if mode =? 1 then b2z (negb (l =? r))
  else if mode =? 2 then b2z (l <? r)
  else if mode =? 3 then b2z (r <? l)
  else if mode =? 4 then b2z (l <=? r)
  else if mode =? 5 then b2z (r <=? l)
  else leading_zeros_spec bits l.

(* math ops 0..7 (imm bits 0-4): ADD SUB NOT OR XOR AND SHL SHR; shifts >= width give 0 *)
Definition wide_op_spec (wrapping : bool) (bits opn l r : Z) : wide_outcome :=
  let M := 2 ^ bits in
  if opn =? 0 then wflagged wrapping M (l + r)
  else if opn =? 1 then wflagged wrapping M (l - r)
  else if opn =? 2 then W_mem (M - 1 - l) 0 0
  else if opn =? 3 then W_mem (Z.lor l r) 0 0
  else if opn =? 4 then W_mem (Z.lxor l r) 0 0
  else if opn =? 5 then W_mem (Z.land l r) 0 0
  else if opn =? 6 then W_mem ((l * 2 ^ r) mod M) 0 0
  else W_mem (l / 2 ^ r) 0 0.

Definition wide_mul_spec (wrapping : bool) (bits l r : Z) : wide_outcome := wflagged wrapping (2 ^ bits) (l * r).
Definition wide_div_spec (unsafe : bool) (l r : Z) : wide_outcome :=
  if r =? 0 then wundefined unsafe else W_mem (l / r) 0 0.
Definition wide_addmod_spec (unsafe : bool) (l r m : Z) : wide_outcome :=
  if m =? 0 then wundefined unsafe else W_mem ((l + r) mod m) 0 0.
Definition wide_mulmod_spec (unsafe : bool) (l r m : Z) : wide_outcome :=
  if m =? 0 then wundefined unsafe else W_mem ((l * r) mod m) 0 0.
(* divisor 0 stands for 2^bits *)
Definition wide_muldiv_spec (wrapping : bool) (bits l r dv : Z) : wide_outcome :=
  wflagged wrapping (2 ^ bits) ((l * r) / (if dv =? 0 then 2 ^ bits else dv)).

(* immediate validity (reserved bits must be zero) and addressing modes:
   (valid, lhs indirect, rhs indirect) *)
Definition cmp_imm_spec (imm : Z) := (((imm / 8) mod 4 =? 0) && (imm mod 8 <=? 6), true, (imm / 32) mod 2 =? 1).
Definition op_imm_spec (imm : Z) := (imm mod 32 <=? 7, true, (imm / 32) mod 2 =? 1).
Definition mul_imm_spec (imm : Z) := (imm mod 16 =? 0, (imm / 16) mod 2 =? 1, (imm / 32) mod 2 =? 1).
Definition div_imm_spec (imm : Z) := (imm mod 32 =? 0, true, (imm / 32) mod 2 =? 1).
