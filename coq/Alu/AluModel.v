(* Alu/AluModel.v — L1 executable model of the ALU of fuel-vm (properties C21, C22).
   Mirrors, function by function:
     fuel-vm/src/interpreter/alu.rs            alu_capture_overflow / alu_boolean_overflow / alu_error / alu_set / alu_clear / exp
     fuel-vm/src/interpreter/alu/muldiv.rs     alu_muldiv / muldiv
     fuel-vm/src/interpreter/alu/narrowint.rs  split_overflow / truncate / alu_narrowint_op
     fuel-vm/src/interpreter/alu/wideint.rs    the wideint_ops! macro (u128 and U256 instances)
     fuel-vm/src/interpreter/executors/instruction.rs   checked_nth_root
     fuel-vm/src/constraints/reg_key.rs        WriteRegKey::new
     fuel-vm/src/interpreter/gas.rs            gas_charge        (first statement of every handler)
     fuel-vm/src/interpreter/internal.rs       inc_pc
     fuel-vm/src/interpreter/memory.rs         verify / read_bytes / write_bytes / OwnershipRegisters (flat view)
     fuel-asm/src/args/{narrowint,wideint}.rs  from_imm decoders
     core::num                                 u64::{overflowing_pow, checked_pow, checked_ilog}
   Which helper/operator each opcode uses is NOT written here: it comes from the generated
   Gen/AluTable.v.  Definitions only (proofs: Alu/AluProofs.v).
   Integers are N with explicit moduli.  `HostPanic` stands for a Rust-level panic
   (`expect`/`unwrap`), which the theorems exclude. *)
From FV Require Export Alu.AluSyntax Gen.AluTable.
Open Scope N_scope.

Definition U256 : N := 115792089237316195423570985008687907853269984665640564039457584007913129639936. (* 2^256 *)
Definition b2n (b : bool) : N := if b then 1 else 0.

(* ------------------------------------------------------------------ state *)
(* memory, flat view: bytes [0, m_stack_len) (stack.len()) and [m_hp, MEM_SIZE) are accessible *)
Record mem := { m_stack_len : N; m_hp : N; m_byte : N -> N }.
(* registers: index -> value; prev_hp: HP of the last call frame (VM_MAX_RAM without frames) *)
Record state := { regs : N -> N; memo : mem; prev_hp : N }.

Inductive outcome :=
| Done (s : state)
| Panic (r : reason) (s : state)      (* VM panic with reason r; s = state left behind *)
| HostPanic.                          (* the Rust code would panic (expect/unwrap) *)

Definition rset (r : N -> N) (i v : N) : N -> N := fun j => if j =? i then v else r j.
Definition set_reg (s : state) (i v : N) : state :=
  {| regs := rset (regs s) i v; memo := memo s; prev_hp := prev_hp s |}.
Definition set_mem (s : state) (m : mem) : state :=
  {| regs := regs s; memo := m; prev_hp := prev_hp s |}.

(* Flags::from_bits_truncate(flag).contains(..) *)
Definition is_wrapping (s : state) : bool := N.testbit (regs s REG_FLAG) FLAG_WRAPPING_BIT.
Definition is_unsafe_math (s : state) : bool := N.testbit (regs s REG_FLAG) FLAG_UNSAFEMATH_BIT.

(* gas.rs gas_charge (relies on the cgas <= ggas invariant for `ggas - gas`) *)
Definition gas_charge (gas : N) (s : state) : outcome :=
  let cgas := regs s REG_CGAS in
  let ggas := regs s REG_GGAS in
  if cgas <? gas
  then Panic OutOfGas (set_reg (set_reg s REG_GGAS (saturating_sub ggas cgas)) REG_CGAS 0)
  else Done (set_reg (set_reg s REG_GGAS (ggas - gas)) REG_CGAS (cgas - gas)).

(* internal.rs inc_pc: *pc = pc.saturating_add(Instruction::SIZE) *)
Definition inc_pc (s : state) : state :=
  set_reg s REG_PC (saturating_add U64 (regs s REG_PC) INSTRUCTION_SIZE).

(* reg_key.rs WriteRegKey::new *)
Definition write_reg_key (ra : N) : option N := if REG_WRITABLE <=? ra then Some ra else None.

(* the common tail of the register helpers: *of = ..; *err = ..; *dest = ..; inc_pc *)
Definition commit (ra res of_ err : N) (s : state) : outcome :=
  Done (inc_pc (set_reg (set_reg (set_reg s REG_OF of_) REG_ERR err) ra res)).

(* ------------------------------------------------------------------ core::num *)
(* u64::overflowing_pow: square-and-multiply from the least significant exponent bit *)
Fixpoint pow_loop (e : positive) (base acc : N) (ov : bool) : N * bool :=
  match e with
  | xH => let r := acc * base in (r mod U64, ov || (U64 <=? r))
  | xO p => let b2 := base * base in pow_loop p (b2 mod U64) acc (ov || (U64 <=? b2))
  | xI p => let a := acc * base in let b2 := base * base in
            pow_loop p (b2 mod U64) (a mod U64) (ov || (U64 <=? a) || (U64 <=? b2))
  end.
Definition overflowing_pow (b e : N) : N * bool :=
  match e with 0 => (1, false) | Npos p => pow_loop p b 1 false end.

(* u64::checked_pow: same loop with checked_mul *)
Fixpoint cpow_loop (e : positive) (base acc : N) : option N :=
  match e with
  | xH => checked_mul U64 acc base
  | xO p => do b2 <- checked_mul U64 base base; cpow_loop p b2 acc
  | xI p => do a <- checked_mul U64 acc base; do b2 <- checked_mul U64 base base; cpow_loop p b2 a
  end.
Definition checked_pow (b e : N) : option N :=
  match e with 0 => Some 1 | Npos p => cpow_loop p b 1 end.

(* u64::checked_ilog (BITS = 64 branch): while r <= self / base { n += 1; r *= base } *)
Fixpoint ilog_loop (fuel : nat) (self base n r : N) : option N :=
  match fuel with
  | O => None
  | S k => if r <=? self / base then ilog_loop k self base (n + 1) (r * base) else Some n
  end.
Definition checked_ilog (self base : N) : option N :=
  if (self =? 0) || (base <=? 1) then None
  else if self <? base then Some 0
  else ilog_loop 65 self base 1 base.

(* checked_shl / checked_shr on a `bits`-wide unsigned integer, then unwrap_or_default *)
Definition shl_or_zero (bits a s : N) : N := if s <? bits then (a * 2 ^ s) mod 2 ^ bits else 0.
Definition shr_or_zero (bits a s : N) : N := if s <? bits then a / 2 ^ s else 0.

(* ------------------------------------------------------------------ alu.rs *)
Definition u128_op (f : f128) (b c : N) : N :=      (* .0 of u128::overflowing_*; the helper ignores .1 *)
  match f with
  | F_overflowing_add => wrapping_add U128 b c
  | F_overflowing_sub => wrapping_sub U128 b c
  | F_overflowing_mul => wrapping_mul U128 b c
  end.

Definition alu_capture_overflow (ra result : N) (s : state) : outcome :=
  match write_reg_key ra with
  | None => Panic ReservedRegisterNotWritable s
  | Some ra =>
    if (u64_max <? result) && negb (is_wrapping s) then Panic ArithmeticOverflow s
    else commit ra (N.land result u64_max) ((result / U64) mod U64) 0 s
  end.

(* alu::exp *)
Definition alu_exp (b c : N) : N * bool :=
  if c <? U32 then overflowing_pow b c
  else if b <? 2 then (b, false) else (0, true).

Definition bool_op (f : fbool) (b c : N) : N * bool :=
  match f with F_alu_exp => alu_exp b c | F_overflowing_pow => overflowing_pow b c end.

Definition alu_boolean_overflow (ra : N) (r : N * bool) (s : state) : outcome :=
  match write_reg_key ra with
  | None => Panic ReservedRegisterNotWritable s
  | Some ra =>
    let '(result, overflow) := r in
    if overflow && negb (is_wrapping s) then Panic ArithmeticOverflow s
    else commit ra (if overflow then 0 else result) (b2n overflow) 0 s
  end.

(* instruction.rs checked_nth_root; the f64 `powf` starting point is the oracle argument
   `guess`.  None = the function returns None or hits its `expect`. *)
Definition is_nth_power_below_target (target n v : N) : bool :=
  match checked_pow v n with Some p => target <? p | None => true end.
Definition checked_nth_root (guess target nth_root : N) : option N :=
  if nth_root =? 0 then None
  else if (nth_root =? 1) || (target <=? 1) then Some target
  else if (target <=? nth_root) || (64 <? nth_root) then Some 1
  else if is_nth_power_below_target target nth_root guess then Some (saturating_sub guess 1)
  else match checked_add U64 guess 1 with
       | None => None
       | Some guess_plus_one =>
         if is_nth_power_below_target target nth_root guess_plus_one then Some guess
         else Some guess_plus_one
       end.

(* the closure/operator passed to alu_error; None = its `expect` fails *)
Definition err_op (guess : N) (f : ferr) (b c : N) : option N :=
  match f with
  | F_div => Some (b / c)
  | F_wrapping_rem => Some (b mod c)
  | F_checked_ilog => checked_ilog b c
  | F_checked_nth_root => checked_nth_root guess b c
  end.

Definition alu_error (ra : N) (f : unit -> option N) (err_bool : bool) (s : state) : outcome :=
  match write_reg_key ra with
  | None => Panic ReservedRegisterNotWritable s
  | Some ra =>
    if err_bool && negb (is_unsafe_math s) then Panic ArithmeticError s
    else if err_bool then commit ra 0 0 1 s
    else match f tt with
         | Some v => commit ra v 0 0 s
         | None => HostPanic
         end
  end.

Definition alu_set (ra b : N) (s : state) : outcome :=
  match write_reg_key ra with
  | None => Panic ReservedRegisterNotWritable s
  | Some ra => commit ra b 0 0 s
  end.

Definition alu_clear (s : state) : outcome :=
  Done (inc_pc (set_reg (set_reg s REG_OF 0) REG_ERR 0)).

(* ------------------------------------------------------------------ alu/muldiv.rs *)
Definition muldiv (lhs rhs divider : N) : option (N * N) :=
  do intermediate <- checked_mul U128 lhs rhs;            (* .expect("Cannot overflow ...") *)
  if divider =? 0 then Some ((intermediate / U64) mod U64, 0)
  else let result := intermediate / divider in Some (result mod U64, (result / U64) mod U64).

Definition alu_muldiv (ra lhs rhs divider : N) (s : state) : outcome :=
  match write_reg_key ra with
  | None => Panic ReservedRegisterNotWritable s
  | Some ra =>
    match muldiv lhs rhs divider with
    | None => HostPanic
    | Some (result, overflow) =>
      if negb (overflow =? 0) && negb (is_wrapping s) then Panic ArithmeticOverflow s
      else commit ra result overflow 0 s
    end
  end.

(* ------------------------------------------------------------------ alu/narrowint.rs *)
Definition nw_bits (w : narrow_width) : N := match w with NW_U8 => 8 | NW_U16 => 16 | NW_U32 => 32 end.
Definition split_overflow (value : N) (w : narrow_width) : N * N :=
  (N.land value (N.ones (nw_bits w)), N.shiftr value (nw_bits w)).
Definition truncate (value : N) (w : narrow_width) : N := fst (split_overflow value w).

(* fuel-asm narrowint::MathArgs::from_imm *)
Definition narrow_from_imm (bits : N) : option (narrow_mathop * narrow_width) :=
  do op <- narrow_mathop_from_repr (N.land bits 15);
  do w <- narrow_width_from_repr (N.land (N.shiftr bits 4) 3);
  Some (op, w).

Definition narrow_compute (op : narrow_mathop) (w : narrow_width) (lhs0 rhs0 : N) : N * N :=
  let lhs := truncate lhs0 w in
  let rhs := truncate rhs0 w in
  match op with
  | NM_ADD => split_overflow (lhs + rhs) w
  | NM_SUB => (truncate (wrapping_sub U64 lhs rhs) w, if lhs <? rhs then u64_max else 0)
  | NM_MUL => split_overflow (lhs * rhs) w
  | NM_EXP => match checked_pow lhs rhs with
              | Some v => let '(wrapped, overflow) := split_overflow v w in
                          if negb (overflow =? 0) then (0, 1) else (wrapped, 0)
              | None => (0, 1)
              end
  | NM_SLL => (truncate (shl_or_zero 64 lhs rhs) w, 0)
  | NM_XNOR => (truncate (N.lxor lhs (u64_max - rhs)) w, 0)
  end.

Definition alu_narrowint_op (ra lhs rhs : N) (args : narrow_mathop * narrow_width) (s : state) : outcome :=
  match write_reg_key ra with
  | None => Panic ReservedRegisterNotWritable s
  | Some ra =>
    let '(wrapped, overflow) := narrow_compute (fst args) (snd args) lhs rhs in
    if negb (overflow =? 0) && negb (is_wrapping s) then Panic ArithmeticOverflow s
    else commit ra wrapped overflow 0 s
  end.

(* ------------------------------------------------------------------ memory.rs (flat view) *)
Inductive res (A : Type) := ROk (a : A) | RErr (r : reason).
Arguments ROk {A} a. Arguments RErr {A} r.
Definition rbind {A B} (x : res A) (f : A -> res B) : res B :=
  match x with ROk a => f a | RErr r => RErr r end.
Notation "'rdo' x <- o ; k" := (rbind o (fun x => k)) (at level 200, x name, o at level 100, k at level 200).

(* ToAddr for Word / usize *)
Definition to_addr (x : N) : res N := if MEM_SIZE <? x then RErr MemoryOverflow else ROk x.

(* MemoryInstance::verify; returns (start, end) *)
Definition mem_verify (m : mem) (addr count : N) : res (N * N) :=
  rdo start <- to_addr addr;
  rdo len <- to_addr count;
  let end_ := start + len in
  if MEM_SIZE <? end_ then RErr MemoryOverflow
  else if (end_ <=? m_stack_len m) || (m_hp m <=? start) then ROk (start, end_)
  else RErr UninitalizedMemoryAccess.

Definition bytes_at (f : N -> N) (start : N) (n : nat) : bytes :=
  map (fun k => f (start + N.of_nat k)) (seq 0 n).

(* read_bytes::<C> *)
Definition mem_read (m : mem) (addr : N) (n : nat) : res bytes :=
  rdo r <- mem_verify m addr (N.of_nat n);
  ROk (bytes_at (m_byte m) (fst r) n).

Record owner := { o_sp : N; o_ssp : N; o_hp : N; o_prev_hp : N }.
Definition ownership_registers (s : state) : owner :=
  {| o_sp := regs s REG_SP; o_ssp := regs s REG_SSP; o_hp := regs s REG_HP; o_prev_hp := prev_hp s |}.

Definition has_ownership_stack (o : owner) (start end_ : N) : bool :=
  if (end_ <=? start) && (start =? o_ssp o) then true
  else if negb ((o_ssp o <=? start) && (start <? o_sp o)) then false
  else if VM_MAX_RAM <? end_ then false
  else (o_ssp o <=? end_) && (end_ <=? o_sp o).
Definition has_ownership_heap (o : owner) (start end_ : N) : bool :=
  if (end_ <=? start) && (start =? o_hp o) then true
  else if start <? o_hp o then false
  else negb (o_hp o =? o_prev_hp o) && (end_ <=? o_prev_hp o).
Definition has_ownership_range (o : owner) (start end_ : N) : bool :=
  has_ownership_stack o start end_ || has_ownership_heap o start end_.

Definition write_at (f : N -> N) (start : N) (data : bytes) : N -> N :=
  fun a => if (start <=? a) && (a <? start + lenN data) then nth (N.to_nat (a - start)) data 0 else f a.

(* write_bytes(owner, addr, data) *)
Definition mem_write (o : owner) (m : mem) (addr : N) (data : bytes) : res mem :=
  rdo r <- mem_verify m addr (lenN data);
  if has_ownership_range o (fst r) (snd r)
  then ROk {| m_stack_len := m_stack_len m; m_hp := m_hp m; m_byte := write_at (m_byte m) (fst r) data |}
  else RErr MemoryOwnership.

(* ------------------------------------------------------------------ alu/wideint.rs *)
Definition wmod (w : width) : N := match w with W128 => U128 | W256 => U256 end.
Definition wbits (w : width) : N := match w with W128 => 128 | W256 => 256 end.
Definition wbytes (w : width) : nat := match w with W128 => 16%nat | W256 => 32%nat end.

(* $t::from_be_bytes(self.memory.as_ref().read_bytes(b)?) *)
Definition read_wide (w : width) (m : mem) (addr : N) : res N :=
  rdo bs <- mem_read m addr (wbytes w); ROk (be_decode bs).
(* indirect ? read : c.into() *)
Definition read_arg (w : width) (indirect : bool) (m : mem) (v : N) : res N :=
  if indirect then read_wide w m v else ROk v.

(* fuel-asm wideint::*Args::from_imm *)
Definition bit_is_set (bits k : N) : bool := N.land (N.shiftr bits k) 1 =? 1.
Definition compare_from_imm (bits : N) : option (compare_mode * bool) :=
  let indirect_rhs := bit_is_set bits 5 in
  let reserved := N.land (N.shiftr bits 3) 3 in
  if negb (reserved =? 0) then None
  else do mode <- compare_mode_from_repr (N.land bits 7); Some (mode, indirect_rhs).
Definition math_from_imm (bits : N) : option (wide_mathop * bool) :=
  let indirect_rhs := bit_is_set bits 5 in
  do op <- wide_mathop_from_repr (N.land bits 31); Some (op, indirect_rhs).
Definition mul_from_imm (bits : N) : option (bool * bool) :=
  let indirect_lhs := bit_is_set bits 4 in
  let indirect_rhs := bit_is_set bits 5 in
  if negb (N.land bits 15 =? 0) then None else Some (indirect_lhs, indirect_rhs).
Definition div_from_imm (bits : N) : option bool :=
  let indirect_rhs := bit_is_set bits 5 in
  if negb (N.land bits 31 =? 0) then None else Some indirect_rhs.

Definition leading_zeros (w : width) (x : N) : N := wbits w - N.size x.
Definition cmp_wide (w : width) (lhs rhs : N) (mode : compare_mode) : N :=
  match mode with
  | CM_EQ => b2n (lhs =? rhs)
  | CM_NE => b2n (negb (lhs =? rhs))
  | CM_GT => b2n (rhs <? lhs)
  | CM_LT => b2n (lhs <? rhs)
  | CM_GTE => b2n (rhs <=? lhs)
  | CM_LTE => b2n (lhs <=? rhs)
  | CM_LZC => leading_zeros w lhs
  end.

Definition op_overflowing (w : width) (lhs rhs : N) (op : wide_mathop) : N * bool :=
  let M := wmod w in
  match op with
  | WM_ADD => (wrapping_add M lhs rhs, M <=? lhs + rhs)
  | WM_SUB => (wrapping_sub M lhs rhs, lhs <? rhs)
  | WM_OR => (N.lor lhs rhs, false)
  | WM_XOR => (N.lxor lhs rhs, false)
  | WM_AND => (N.land lhs rhs, false)
  | WM_NOT => (M - 1 - lhs, false)
  | WM_SHL => if rhs <? U32 then (shl_or_zero (wbits w) lhs rhs, false) else (0, false)
  | WM_SHR => if rhs <? U32 then (shr_or_zero (wbits w) lhs rhs, false) else (0, false)
  end.

(* shared tail of the memory-writing wide helpers:
   self.memory.write_bytes(owner_regs, dest_addr, result.to_be_bytes())?; inc_pc(pc) *)
Definition write_wide_and_inc (w : width) (o : owner) (dest_addr result : N) (s : state) : outcome :=
  match mem_write o (memo s) dest_addr (be_encode (wbytes w) result) with
  | RErr r => Panic r s
  | ROk m' => Done (inc_pc (set_mem s m'))
  end.

Definition alu_wideint_cmp (w : width) (ra b c : N) (args : compare_mode * bool) (s : state) : outcome :=
  match write_reg_key ra with
  | None => Panic ReservedRegisterNotWritable s
  | Some ra =>
    match read_wide w (memo s) b with
    | RErr r => Panic r s
    | ROk lhs =>
      match read_arg w (snd args) (memo s) c with
      | RErr r => Panic r s
      | ROk rhs =>
        (* *dest = cmp; *of = 0; *err = 0; inc_pc *)
        Done (inc_pc (set_reg (set_reg (set_reg s ra (cmp_wide w lhs rhs (fst args))) REG_OF 0) REG_ERR 0))
      end
    end
  end.

Definition alu_wideint_op (w : width) (dest_addr b c : N) (args : wide_mathop * bool) (s : state) : outcome :=
  let o := ownership_registers s in
  match read_wide w (memo s) b with
  | RErr r => Panic r s
  | ROk lhs =>
    match read_arg w (snd args) (memo s) c with
    | RErr r => Panic r s
    | ROk rhs =>
      let '(wrapped, overflow) := op_overflowing w lhs rhs (fst args) in
      if overflow && negb (is_wrapping s) then Panic ArithmeticOverflow s
      else write_wide_and_inc w o dest_addr wrapped (set_reg (set_reg s REG_OF (b2n overflow)) REG_ERR 0)
    end
  end.

Definition alu_wideint_mul (w : width) (dest_addr b c : N) (args : bool * bool) (s : state) : outcome :=
  let o := ownership_registers s in
  match read_arg w (fst args) (memo s) b with
  | RErr r => Panic r s
  | ROk lhs =>
    match read_arg w (snd args) (memo s) c with
    | RErr r => Panic r s
    | ROk rhs =>
      let wrapped := wrapping_mul (wmod w) lhs rhs in
      let overflow := wmod w <=? lhs * rhs in
      if overflow && negb (is_wrapping s) then Panic ArithmeticOverflow s
      else write_wide_and_inc w o dest_addr wrapped (set_reg (set_reg s REG_OF (b2n overflow)) REG_ERR 0)
    end
  end.

(* the three "mathematically undefined" helpers share:
     Some(v) => { *err = 0; v }   None => unsafe ? { *err = 1; 0 } : panic;   *of = 0; write; inc_pc *)
Definition wide_err_tail (w : width) (o : owner) (dest_addr : N) (r : option N) (s : state) : outcome :=
  match r with
  | Some v => write_wide_and_inc w o dest_addr v (set_reg (set_reg s REG_ERR 0) REG_OF 0)
  | None => if is_unsafe_math s
            then write_wide_and_inc w o dest_addr 0 (set_reg (set_reg s REG_ERR 1) REG_OF 0)
            else Panic ArithmeticError s
  end.

Definition alu_wideint_div (w : width) (dest_addr b c : N) (indirect_rhs : bool) (s : state) : outcome :=
  let o := ownership_registers s in
  match read_wide w (memo s) b with
  | RErr r => Panic r s
  | ROk lhs =>
    match read_arg w indirect_rhs (memo s) c with
    | RErr r => Panic r s
    | ROk rhs => wide_err_tail w o dest_addr (if rhs =? 0 then None else Some (lhs / rhs)) s
    end
  end.

Definition read3 (w : width) (m : mem) (b c d : N) : res (N * N * N) :=
  rdo x <- read_wide w m b; rdo y <- read_wide w m c; rdo z <- read_wide w m d; ROk (x, y, z).

Definition alu_wideint_addmod (w : width) (dest_addr b c d : N) (s : state) : outcome :=
  let o := ownership_registers s in
  match read3 w (memo s) b c d with
  | RErr r => Panic r s
  | ROk (lhs, rhs, modulus) =>
    (* checked_add on the double-width type cannot overflow; truncate_from_prim keeps the low half *)
    wide_err_tail w o dest_addr (if modulus =? 0 then None else Some (((lhs + rhs) mod modulus) mod wmod w)) s
  end.

Definition alu_wideint_mulmod (w : width) (dest_addr b c d : N) (s : state) : outcome :=
  let o := ownership_registers s in
  match read3 w (memo s) b c d with
  | RErr r => Panic r s
  | ROk (lhs, rhs, modulus) =>
    wide_err_tail w o dest_addr (if modulus =? 0 then None else Some (((lhs * rhs) mod modulus) mod wmod w)) s
  end.

Definition alu_wideint_muldiv (w : width) (dest_addr b c d : N) (s : state) : outcome :=
  let o := ownership_registers s in
  match read3 w (memo s) b c d with
  | RErr r => Panic r s
  | ROk (lhs, rhs, divider) =>
    let product := lhs * rhs in
    let product_div_max := product / wmod w in
    let result := if divider =? 0 then product_div_max else product / divider in
    let lower := result mod wmod w in
    let higher := result / wmod w in
    let overflows := negb (higher =? 0) in
    if overflows && negb (is_wrapping s) then Panic ArithmeticOverflow s
    else write_wide_and_inc w o dest_addr lower (set_reg (set_reg s REG_OF (b2n overflows)) REG_ERR 0)
  end.

(* ------------------------------------------------------------------ opcodes_impl.rs *)
Definition operand (i : instr) (s : state) (x : src) : N :=
  match x with
  | SRegB => regs s (i_rb i) | SRegC => regs s (i_rc i) | SRegD => regs s (i_rd i)
  | SImm => i_imm i
  end.

Definition eval_cond (v : src -> N) (c : errcond) : bool :=
  match c with
  | C_is_zero x => v x =? 0
  | C_log l r => (v l =? 0) || (v r <=? 1)
  end.

Definition eval_set (v : src -> N) (e : setexpr) : N :=
  match e with
  | E_and x y => N.land (v x) (v y)
  | E_or x y => N.lor (v x) (v y)
  | E_xor x y => N.lxor (v x) (v y)
  | E_not x => u64_max - v x
  | E_eq x y => b2n (v x =? v y)
  | E_gt x y => b2n (v y <? v x)
  | E_lt x y => b2n (v x <? v y)
  | E_src x => v x
  | E_shl_reg x y => if v y <? U32 then shl_or_zero 64 (v x) (v y) else 0
  | E_shr_reg x y => if v y <? U32 then shr_or_zero 64 (v x) (v y) else 0
  | E_shl_imm x y => shl_or_zero 64 (v x) (v y)
  | E_shr_imm x y => shr_or_zero 64 (v x) (v y)
  end.

Definition with_args {A} (a : option A) (s : state) (k : A -> outcome) : outcome :=
  match a with None => Panic InvalidImmediateValue s | Some x => k x end.

(* the body of a handler after its gas charge *)
Definition exec_kind (guess : N) (i : instr) (k : kind) (s : state) : outcome :=
  let v := operand i s in
  let ra := i_ra i in
  let r := regs s in
  match k with
  | K_capture f b c => alu_capture_overflow ra (u128_op f (v b) (v c)) s
  | K_boolean f b c => alu_boolean_overflow ra (bool_op f (v b) (v c)) s
  | K_error f b c cond => alu_error ra (fun _ => err_op guess f (v b) (v c)) (eval_cond v cond) s
  | K_set e => alu_set ra (eval_set v e) s
  | K_clear => alu_clear s
  | K_muldiv b c d => alu_muldiv ra (v b) (v c) (v d) s
  | K_narrow b c => with_args (narrow_from_imm (i_imm i)) s (fun args => alu_narrowint_op ra (v b) (v c) args s)
  | K_wcmp w => with_args (compare_from_imm (i_imm i)) s (fun args => alu_wideint_cmp w ra (r (i_rb i)) (r (i_rc i)) args s)
  | K_wop w => with_args (math_from_imm (i_imm i)) s (fun args => alu_wideint_op w (r ra) (r (i_rb i)) (r (i_rc i)) args s)
  | K_wmul w => with_args (mul_from_imm (i_imm i)) s (fun args => alu_wideint_mul w (r ra) (r (i_rb i)) (r (i_rc i)) args s)
  | K_wdiv w => with_args (div_from_imm (i_imm i)) s (fun args => alu_wideint_div w (r ra) (r (i_rb i)) (r (i_rc i)) args s)
  | K_wmuldiv w => alu_wideint_muldiv w (r ra) (r (i_rb i)) (r (i_rc i)) (r (i_rd i)) s
  | K_waddmod w => alu_wideint_addmod w (r ra) (r (i_rb i)) (r (i_rc i)) (r (i_rd i)) s
  | K_wmulmod w => alu_wideint_mulmod w (r ra) (r (i_rb i)) (r (i_rc i)) (r (i_rd i)) s
  end.

(* one ALU instruction: gas_charge(cost)?; then the handler body.  `cost` is the value of the
   gas-cost selector alu_gas_selector (i_op i) (property C26 is about its value);
   `guess` is the floating-point starting point used by MROO only. *)
Definition exec_alu (cost guess : N) (i : instr) (s0 : state) : outcome :=
  match gas_charge cost s0 with
  | Done s => exec_kind guess i (alu_table (i_op i)) s
  | o => o
  end.
