(* Alu/AluSyntax.v — syntax shared by the generated table (Gen/AluTable.v, produced by
   tools/gen_alutable.py from fuel-vm/src/interpreter/executors/opcodes_impl.rs) and the L1
   model (Alu/AluModel.v).  Definitions only. *)
From FV Require Export Base.Bytes Base.U64.
Open Scope N_scope.

(* the ALU opcodes of properties C21 (register ALU) and C22 (wide integers) *)
Inductive alu_op :=
| O_ADD | O_ADDI | O_AND | O_ANDI | O_DIV | O_DIVI | O_EQ | O_EXP | O_EXPI | O_GT | O_LT
| O_MLOG | O_MOD | O_MODI | O_MOVE | O_MOVI | O_MROO | O_MUL | O_MULI | O_MLDV | O_NIOP
| O_NOOP | O_NOT | O_OR | O_ORI | O_SLL | O_SLLI | O_SRL | O_SRLI | O_SUB | O_SUBI | O_XOR | O_XORI
| O_WDCM | O_WQCM | O_WDOP | O_WQOP | O_WDML | O_WQML | O_WDDV | O_WQDV
| O_WDMD | O_WQMD | O_WDAM | O_WQAM | O_WDMM | O_WQMM.

Definition all_alu_ops : list alu_op :=
  [O_ADD; O_ADDI; O_AND; O_ANDI; O_DIV; O_DIVI; O_EQ; O_EXP; O_EXPI; O_GT; O_LT;
   O_MLOG; O_MOD; O_MODI; O_MOVE; O_MOVI; O_MROO; O_MUL; O_MULI; O_MLDV; O_NIOP;
   O_NOOP; O_NOT; O_OR; O_ORI; O_SLL; O_SLLI; O_SRL; O_SRLI; O_SUB; O_SUBI; O_XOR; O_XORI;
   O_WDCM; O_WQCM; O_WDOP; O_WQOP; O_WDML; O_WQML; O_WDDV; O_WQDV;
   O_WDMD; O_WQMD; O_WDAM; O_WQAM; O_WDMM; O_WQMM].

(* where a handler takes an operand from: `interpreter.registers[b|c|d]` or the immediate
   (zero-extended: `imm.into()`, `Word::from(imm)`, `u32::from(imm)`) *)
Inductive src := SRegB | SRegC | SRegD | SImm.

(* operators passed to the helpers *)
Inductive f128 := F_overflowing_add | F_overflowing_sub | F_overflowing_mul.   (* u128::overflowing_* *)
Inductive fbool := F_alu_exp | F_overflowing_pow.                              (* alu::exp | Word::overflowing_pow *)
Inductive ferr := F_div | F_wrapping_rem | F_checked_ilog | F_checked_nth_root.
Inductive errcond :=
| C_is_zero (x : src)            (* x == 0 *)
| C_log (l r : src).             (* l == 0 || r <= 1 *)
Inductive setexpr :=
| E_and (x y : src) | E_or (x y : src) | E_xor (x y : src) | E_not (x : src)
| E_eq (x y : src) | E_gt (x y : src) | E_lt (x y : src) | E_src (x : src)
| E_shl_reg (x y : src)   (* if let Ok(c) = y.try_into() { Word::checked_shl(x, c).unwrap_or_default() } else { 0 } *)
| E_shr_reg (x y : src)
| E_shl_imm (x y : src)   (* x.checked_shl(u32::from(imm)).unwrap_or_default() *)
| E_shr_imm (x y : src).

Inductive width := W128 | W256.

(* the fixed shapes of the ALU handlers *)
Inductive kind :=
| K_capture (f : f128) (b c : src)                 (* alu_capture_overflow(a, f, b, c) *)
| K_boolean (f : fbool) (b c : src)                (* alu_boolean_overflow(a, f, b, c) *)
| K_error (f : ferr) (b c : src) (cond : errcond)  (* alu_error(a, f, b, c, cond) *)
| K_set (e : setexpr)                              (* alu_set(a, e) *)
| K_clear                                          (* alu_clear() *)
| K_muldiv (b c d : src)                           (* alu_muldiv(a, b, c, d) *)
| K_narrow (b c : src)                             (* narrowint::MathArgs::from_imm(imm)?; alu_narrowint_op(a, b, c, args) *)
| K_wcmp (w : width)                               (* CompareArgs::from_imm(imm)?; alu_wideint_cmp_<w>(a, r[b], r[c], args) *)
| K_wop (w : width)                                (* MathArgs::from_imm(imm)?;    alu_wideint_op_<w>(r[a], r[b], r[c], args) *)
| K_wmul (w : width)                               (* MulArgs::from_imm(imm)?;     alu_wideint_mul_<w>(...) *)
| K_wdiv (w : width)                               (* DivArgs::from_imm(imm)?;     alu_wideint_div_<w>(...) *)
| K_wmuldiv (w : width)                            (* alu_wideint_muldiv_<w>(r[a], r[b], r[c], r[d]) *)
| K_waddmod (w : width)
| K_wmulmod (w : width).

(* fuel-asm/src/args/narrowint.rs *)
Inductive narrow_mathop := NM_ADD | NM_SUB | NM_MUL | NM_EXP | NM_SLL | NM_XNOR.
Inductive narrow_width := NW_U8 | NW_U16 | NW_U32.
(* fuel-asm/src/args/wideint.rs *)
Inductive compare_mode := CM_EQ | CM_NE | CM_LT | CM_GT | CM_LTE | CM_GTE | CM_LZC.
Inductive wide_mathop := WM_ADD | WM_SUB | WM_NOT | WM_OR | WM_XOR | WM_AND | WM_SHL | WM_SHR.

(* panic reasons an ALU instruction can raise (numeric codes come from Gen/AluTable.v) *)
Inductive reason :=
| OutOfGas | MemoryOverflow | ArithmeticOverflow | MemoryOwnership
| ReservedRegisterNotWritable | InvalidImmediateValue | ArithmeticError | UninitalizedMemoryAccess.

(* decoded instruction: fields the opcode does not have are ignored *)
Record instr := { i_op : alu_op; i_ra : N; i_rb : N; i_rc : N; i_rd : N; i_imm : N }.
