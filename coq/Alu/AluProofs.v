(* Alu/AluProofs.v — proofs about the L1 ALU model (Alu/AluModel.v + Gen/AluTable.v) against the
   L3 specification (Alu/AluSpec.v).  Part 1: register frame (reserved registers, pc, untouched
   registers).  Part 2: arithmetic of the helpers.  Part 3: per-opcode model = spec. *)
From Coq Require Import ZArith Lia Bool List.
From FV Require Import Alu.AluSyntax Gen.AluTable Alu.AluModel Alu.AluSpec.
Open Scope N_scope.

(* ================================================================== Part 1: frame *)

(* the state after a successful gas charge *)
Definition charged (cost : N) (s : state) : state :=
  set_reg (set_reg s REG_GGAS (regs s REG_GGAS - cost)) REG_CGAS (regs s REG_CGAS - cost).

Lemma gas_charge_ok cost s : cost <= regs s REG_CGAS -> gas_charge cost s = Done (charged cost s).
Proof.
  intros H. unfold gas_charge. destruct (N.ltb_spec (regs s REG_CGAS) cost); [lia|reflexivity].
Qed.

Lemma gas_charge_oog cost s : regs s REG_CGAS < cost ->
  exists s', gas_charge cost s = Panic OutOfGas s' /\
             (forall r, r <> REG_CGAS -> r <> REG_GGAS -> regs s' r = regs s r) /\ memo s' = memo s.
Proof.
  intros H. unfold gas_charge. destruct (N.ltb_spec (regs s REG_CGAS) cost); [|lia].
  eexists; split; [reflexivity|]. split; [|reflexivity].
  intros r H1 H2. cbn [regs set_reg]. unfold rset.
  destruct (N.eqb_spec r REG_CGAS); [contradiction|]. destruct (N.eqb_spec r REG_GGAS); [contradiction|reflexivity].
Qed.

Lemma charged_other cost s r : r <> REG_CGAS -> r <> REG_GGAS -> regs (charged cost s) r = regs s r.
Proof.
  intros H1 H2. unfold charged. cbn [regs set_reg]. unfold rset.
  destruct (N.eqb_spec r REG_CGAS); [contradiction|]. destruct (N.eqb_spec r REG_GGAS); [contradiction|reflexivity].
Qed.
Lemma charged_memo cost s : memo (charged cost s) = memo s. Proof. reflexivity. Qed.
Lemma charged_prev_hp cost s : prev_hp (charged cost s) = prev_hp s. Proof. reflexivity. Qed.

Lemma write_reg_key_reserved ra : ra < 16 -> write_reg_key ra = None.
Proof. intros H. unfold write_reg_key, REG_WRITABLE. destruct (N.leb_spec 16 ra); [lia|reflexivity]. Qed.
Lemma write_reg_key_writable ra : 16 <= ra -> write_reg_key ra = Some ra.
Proof. intros H. unfold write_reg_key, REG_WRITABLE. destruct (N.leb_spec 16 ra); [reflexivity|lia]. Qed.

(* opcodes that write a destination REGISTER: all of C21 except NOOP, plus the wide compares *)
Definition writes_register (op : alu_op) : bool :=
  match op with
  | O_NOOP | O_WDOP | O_WQOP | O_WDML | O_WQML | O_WDDV | O_WQDV
  | O_WDMD | O_WQMD | O_WDAM | O_WQAM | O_WDMM | O_WQMM => false
  | _ => true
  end.

(* the immediate of the opcode decodes (vacuous for opcodes without a decoded immediate) *)
Definition imm_decodes (i : instr) : bool :=
  match alu_table (i_op i) with
  | K_narrow _ _ => match narrow_from_imm (i_imm i) with Some _ => true | None => false end
  | K_wcmp _ => match compare_from_imm (i_imm i) with Some _ => true | None => false end
  | K_wop _ => match math_from_imm (i_imm i) with Some _ => true | None => false end
  | K_wmul _ => match mul_from_imm (i_imm i) with Some _ => true | None => false end
  | K_wdiv _ => match div_from_imm (i_imm i) with Some _ => true | None => false end
  | _ => true
  end.

(* C21 (second sentence): writing a reserved register panics with ReservedRegisterNotWritable;
   only the gas registers differ from the state before, memory is untouched *)
Theorem reserved_register_panics : forall cost guess i s,
  writes_register (i_op i) = true -> imm_decodes i = true ->
  cost <= regs s REG_CGAS -> i_ra i < 16 ->
  exec_alu cost guess i s = Panic ReservedRegisterNotWritable (charged cost s) /\
  (forall r, r <> REG_CGAS -> r <> REG_GGAS -> regs (charged cost s) r = regs s r) /\
  memo (charged cost s) = memo s.
Proof.
  intros cost guess i s Hw Hd Hc Hra.
  split; [|split; [intros; now apply charged_other|reflexivity]].
  unfold exec_alu. rewrite gas_charge_ok by exact Hc.
  pose proof (write_reg_key_reserved _ Hra) as Hk.
  unfold imm_decodes in Hd.
  destruct (i_op i); try discriminate Hw; cbn [alu_table] in *; cbn [exec_kind];
    unfold alu_capture_overflow, alu_boolean_overflow, alu_error, alu_set, alu_muldiv;
    try (rewrite Hk; reflexivity).
  - (* NIOP *) destruct (narrow_from_imm (i_imm i)); [|discriminate]. cbn [with_args].
    unfold alu_narrowint_op. rewrite Hk. reflexivity.
  - (* WDCM *) destruct (compare_from_imm (i_imm i)); [|discriminate]. cbn [with_args].
    unfold alu_wideint_cmp. rewrite Hk. reflexivity.
  - (* WQCM *) destruct (compare_from_imm (i_imm i)); [|discriminate]. cbn [with_args].
    unfold alu_wideint_cmp. rewrite Hk. reflexivity.
Qed.

(* ---- the register file after a successful helper *)
Definition next_pc (pc : N) : N := saturating_add U64 pc INSTRUCTION_SIZE.

Lemma next_pc_plus4 pc : pc + 4 < U64 -> next_pc pc = pc + 4.
Proof. intros H. unfold next_pc, saturating_add, INSTRUCTION_SIZE, U64 in *. lia. Qed.

(* effect of `commit` on every register, for a writable destination *)
Lemma commit_regs ra res o e s s' : 16 <= ra -> commit ra res o e s = Done s' ->
  regs s' REG_PC = next_pc (regs s REG_PC) /\ regs s' ra = res /\ regs s' REG_OF = o /\ regs s' REG_ERR = e /\
  (forall r, r <> REG_PC -> r <> ra -> r <> REG_OF -> r <> REG_ERR -> regs s' r = regs s r) /\
  memo s' = memo s /\ prev_hp s' = prev_hp s.
Proof.
  intros Hra H. unfold commit in H. injection H as <-.
  assert (Hpc : (REG_PC =? ra) = false) by (apply N.eqb_neq; unfold REG_PC; lia).
  assert (Hof : (REG_OF =? ra) = false) by (apply N.eqb_neq; unfold REG_OF; lia).
  assert (Her : (REG_ERR =? ra) = false) by (apply N.eqb_neq; unfold REG_ERR; lia).
  assert (Hra2 : (ra =? REG_PC) = false) by (apply N.eqb_neq; unfold REG_PC; lia).
  unfold inc_pc. cbn [regs set_reg memo prev_hp]. unfold rset.
  rewrite !N.eqb_refl, Hpc, Hra2, Hof, Her.
  repeat split.
  intros r H1 H2 H3 H4.
  destruct (N.eqb_spec r REG_PC); [contradiction|]. destruct (N.eqb_spec r ra); [contradiction|].
  destruct (N.eqb_spec r REG_ERR); [contradiction|]. destruct (N.eqb_spec r REG_OF); [contradiction|reflexivity].
Qed.

(* the outcome of a register helper as data: result, $of, $err — or a panic *)
Inductive nres := NOk (res of_ err : N) | NPanic (r : reason) | NHost.

Definition realize (ra : N) (o : nres) (s : state) : outcome :=
  match o with NOk r o e => commit ra r o e s | NPanic r => Panic r s | NHost => HostPanic end.

Definition pure_capture (w : bool) (result : N) : nres :=
  if (u64_max <? result) && negb w then NPanic ArithmeticOverflow
  else NOk (N.land result u64_max) ((result / U64) mod U64) 0.
Definition pure_boolean (w : bool) (r : N * bool) : nres :=
  if snd r && negb w then NPanic ArithmeticOverflow
  else NOk (if snd r then 0 else fst r) (b2n (snd r)) 0.
Definition pure_error (u : bool) (f : unit -> option N) (eb : bool) : nres :=
  if eb && negb u then NPanic ArithmeticError
  else if eb then NOk 0 0 1
  else match f tt with Some v => NOk v 0 0 | None => NHost end.
Definition pure_muldiv (w : bool) (l r d : N) : nres :=
  match muldiv l r d with
  | None => NHost
  | Some (res, ov) => if negb (ov =? 0) && negb w then NPanic ArithmeticOverflow else NOk res ov 0
  end.
Definition pure_narrow (w : bool) (args : narrow_mathop * narrow_width) (l r : N) : nres :=
  let p := narrow_compute (fst args) (snd args) l r in
  if negb (snd p =? 0) && negb w then NPanic ArithmeticOverflow else NOk (fst p) (snd p) 0.

(* what a register-writing C21 handler computes, independent of the destination *)
Definition pure_kind (guess : N) (i : instr) (k : kind) (s : state) : nres :=
  let v := operand i s in
  match k with
  | K_capture f b c => pure_capture (is_wrapping s) (u128_op f (v b) (v c))
  | K_boolean f b c => pure_boolean (is_wrapping s) (bool_op f (v b) (v c))
  | K_error f b c cond => pure_error (is_unsafe_math s) (fun _ => err_op guess f (v b) (v c)) (eval_cond v cond)
  | K_set e => NOk (eval_set v e) 0 0
  | K_muldiv b c d => pure_muldiv (is_wrapping s) (v b) (v c) (v d)
  | K_narrow b c => match narrow_from_imm (i_imm i) with
                    | None => NPanic InvalidImmediateValue
                    | Some args => pure_narrow (is_wrapping s) args (v b) (v c)
                    end
  | _ => NHost
  end.

Definition is_reg_kind (k : kind) : bool :=
  match k with
  | K_capture _ _ _ | K_boolean _ _ _ | K_error _ _ _ _ | K_set _ | K_muldiv _ _ _ | K_narrow _ _ => true
  | _ => false
  end.

(* every register handler = decode the immediate, check the destination, then realise the pure result *)
Lemma exec_kind_pure guess i k s : is_reg_kind k = true -> 16 <= i_ra i ->
  exec_kind guess i k s = realize (i_ra i) (pure_kind guess i k s) s.
Proof.
  intros Hk Hra. pose proof (write_reg_key_writable _ Hra) as Hw.
  destruct k; try discriminate Hk; cbn [exec_kind pure_kind].
  - unfold alu_capture_overflow, pure_capture. rewrite Hw.
    destruct ((u64_max <? _) && negb (is_wrapping s)); reflexivity.
  - unfold alu_boolean_overflow, pure_boolean. rewrite Hw. destruct (bool_op _ _ _) as [r ov]. cbn [fst snd].
    destruct (ov && negb (is_wrapping s)); reflexivity.
  - unfold alu_error, pure_error. rewrite Hw.
    destruct (eval_cond _ _ && negb (is_unsafe_math s)); [reflexivity|].
    destruct (eval_cond _ _); [reflexivity|]. destruct (err_op _ _ _ _); reflexivity.
  - unfold alu_set. rewrite Hw. reflexivity.
  - unfold alu_muldiv, pure_muldiv. rewrite Hw. destruct (muldiv _ _ _) as [[r ov]|]; [|reflexivity].
    destruct (negb (ov =? 0) && negb (is_wrapping s)); reflexivity.
  - destruct (narrow_from_imm (i_imm i)) as [args|]; cbn [with_args realize]; [|reflexivity].
    unfold alu_narrowint_op, pure_narrow. rewrite Hw.
    destruct (narrow_compute _ _ _ _) as [wr ov]. cbn [fst snd].
    destruct (negb (ov =? 0) && negb (is_wrapping s)); reflexivity.
Qed.

Lemma c21_kind_is_reg op : is_c21_op op = true -> op <> O_NOOP -> is_reg_kind (alu_table op) = true.
Proof. destruct op; intros H1 H2; try discriminate H1; try reflexivity. contradiction. Qed.

(* flags are not affected by the gas charge *)
Lemma charged_wrapping cost s : is_wrapping (charged cost s) = is_wrapping s.
Proof. unfold is_wrapping. rewrite charged_other; [reflexivity| |]; unfold REG_FLAG, REG_CGAS, REG_GGAS; lia. Qed.
Lemma charged_unsafe cost s : is_unsafe_math (charged cost s) = is_unsafe_math s.
Proof. unfold is_unsafe_math. rewrite charged_other; [reflexivity| |]; unfold REG_FLAG, REG_CGAS, REG_GGAS; lia. Qed.

(* ---- pc and untouched registers, for every ALU opcode (C21 and C22) *)
Lemma inc_pc_regs t r : regs (inc_pc t) r = if r =? REG_PC then next_pc (regs t REG_PC) else regs t r.
Proof. reflexivity. Qed.

Lemma wwi_done w o d v t s' : write_wide_and_inc w o d v t = Done s' ->
  exists m', mem_write o (memo t) d (be_encode (wbytes w) v) = ROk m' /\ s' = inc_pc (set_mem t m').
Proof. unfold write_wide_and_inc. destruct (mem_write _ _ _ _) as [m'|r]; intros H; [|discriminate].
  injection H as <-. eexists; split; reflexivity. Qed.

Lemma wide_err_tail_done w o d r t s' : wide_err_tail w o d r t = Done s' ->
  exists m' e, s' = inc_pc (set_mem (set_reg (set_reg t REG_ERR e) REG_OF 0) m').
Proof.
  unfold wide_err_tail. destruct r as [v|].
  - intros H. apply wwi_done in H as (m' & _ & ->). now exists m', 0.
  - destruct (is_unsafe_math t); [|discriminate]. intros H. apply wwi_done in H as (m' & _ & ->). now exists m', 1.
Qed.

(* registers after a successful wide memory-writing helper: pc advanced, $of/$err set, rest equal *)
Definition wide_regs_ok (s s' : state) : Prop :=
  regs s' REG_PC = next_pc (regs s REG_PC) /\
  (forall r, r <> REG_PC -> r <> REG_OF -> r <> REG_ERR -> regs s' r = regs s r) /\
  prev_hp s' = prev_hp s.

Lemma wide_regs_ok_of_err s m' o e :
  wide_regs_ok s (inc_pc (set_mem (set_reg (set_reg s REG_OF o) REG_ERR e) m')).
Proof.
  split; [reflexivity|]. split; [|reflexivity]. intros r H1 H2 H3.
  rewrite inc_pc_regs. cbn [regs set_mem set_reg]. unfold rset.
  destruct (N.eqb_spec r REG_PC); [contradiction|]. destruct (N.eqb_spec r REG_ERR); [contradiction|].
  destruct (N.eqb_spec r REG_OF); [contradiction|reflexivity].
Qed.
Lemma wide_regs_ok_err_of s m' o e :
  wide_regs_ok s (inc_pc (set_mem (set_reg (set_reg s REG_ERR e) REG_OF o) m')).
Proof.
  split; [reflexivity|]. split; [|reflexivity]. intros r H1 H2 H3.
  rewrite inc_pc_regs. cbn [regs set_mem set_reg]. unfold rset.
  destruct (N.eqb_spec r REG_PC); [contradiction|]. destruct (N.eqb_spec r REG_OF); [contradiction|].
  destruct (N.eqb_spec r REG_ERR); [contradiction|reflexivity].
Qed.

Lemma wide_mem_kind_regs guess i k s s' :
  match k with K_wop _ | K_wmul _ | K_wdiv _ | K_wmuldiv _ | K_waddmod _ | K_wmulmod _ => True | _ => False end ->
  exec_kind guess i k s = Done s' -> wide_regs_ok s s'.
Proof.
  destruct k; intros Hk; try contradiction; cbn [exec_kind]; intros H.
  - destruct (math_from_imm (i_imm i)) as [args|]; [|discriminate]. cbn [with_args] in H.
    unfold alu_wideint_op in H. destruct (read_wide _ _ _); [|discriminate]. destruct (read_arg _ _ _ _); [|discriminate].
    destruct (op_overflowing _ _ _ _) as [wr ov]. destruct (ov && negb (is_wrapping s)); [discriminate|].
    apply wwi_done in H as (m' & _ & ->). apply wide_regs_ok_of_err.
  - destruct (mul_from_imm (i_imm i)) as [args|]; [|discriminate]. cbn [with_args] in H.
    unfold alu_wideint_mul in H. destruct (read_arg _ _ _ _); [|discriminate]. destruct (read_arg _ _ _ _); [|discriminate].
    destruct ((wmod w <=? _) && negb (is_wrapping s)); [discriminate|].
    apply wwi_done in H as (m' & _ & ->). apply wide_regs_ok_of_err.
  - destruct (div_from_imm (i_imm i)) as [args|]; [|discriminate]. cbn [with_args] in H.
    unfold alu_wideint_div in H. destruct (read_wide _ _ _); [|discriminate]. destruct (read_arg _ _ _ _); [|discriminate].
    apply wide_err_tail_done in H as (m' & e & ->). apply wide_regs_ok_err_of.
  - unfold alu_wideint_muldiv in H. destruct (read3 _ _ _ _ _) as [[[x y] z]|]; [|discriminate].
    destruct (negb (_ =? 0) && negb (is_wrapping s)); [discriminate|].
    apply wwi_done in H as (m' & _ & ->). apply wide_regs_ok_of_err.
  - unfold alu_wideint_addmod in H. destruct (read3 _ _ _ _ _) as [[[x y] z]|]; [|discriminate].
    apply wide_err_tail_done in H as (m' & e & ->). apply wide_regs_ok_err_of.
  - unfold alu_wideint_mulmod in H. destruct (read3 _ _ _ _ _) as [[[x y] z]|]; [|discriminate].
    apply wide_err_tail_done in H as (m' & e & ->). apply wide_regs_ok_err_of.
Qed.

(* registers after a successful wide compare *)
Lemma wide_cmp_regs guess i w s s' : exec_kind guess i (K_wcmp w) s = Done s' ->
  16 <= i_ra i /\ regs s' REG_PC = next_pc (regs s REG_PC) /\ regs s' REG_OF = 0 /\ regs s' REG_ERR = 0 /\
  (forall r, r <> REG_PC -> r <> REG_OF -> r <> REG_ERR -> r <> i_ra i -> regs s' r = regs s r) /\
  memo s' = memo s /\ prev_hp s' = prev_hp s.
Proof.
  cbn [exec_kind]. destruct (compare_from_imm (i_imm i)) as [args|]; [|discriminate]. cbn [with_args].
  unfold alu_wideint_cmp, write_reg_key, REG_WRITABLE. destruct (N.leb_spec 16 (i_ra i)) as [Hra|]; [|discriminate].
  destruct (read_wide _ _ _); [|discriminate]. destruct (read_arg _ _ _ _); [|discriminate].
  intros H. injection H as <-. split; [exact Hra|].
  assert (Hpc : (REG_PC =? i_ra i) = false) by (apply N.eqb_neq; unfold REG_PC; lia).
  assert (Hof : (REG_OF =? i_ra i) = false) by (apply N.eqb_neq; unfold REG_OF; lia).
  assert (Her : (REG_ERR =? i_ra i) = false) by (apply N.eqb_neq; unfold REG_ERR; lia).
  rewrite !inc_pc_regs. cbn [regs set_reg memo prev_hp inc_pc]. unfold rset.
  rewrite Hpc. repeat split.
  intros r H1 H2 H3 H4.
  destruct (N.eqb_spec r REG_PC); [contradiction|]. destruct (N.eqb_spec r REG_ERR); [contradiction|].
  destruct (N.eqb_spec r REG_OF); [contradiction|]. destruct (N.eqb_spec r (i_ra i)); [contradiction|reflexivity].
Qed.

Lemma realize_done ra o s s' : realize ra o s = Done s' -> exists r f e, o = NOk r f e /\ commit ra r f e s = Done s'.
Proof. destruct o; cbn [realize]; intros H; try discriminate. eauto. Qed.

(* C21 (pc, frame): a successful ALU instruction advances pc by one instruction and changes no
   register other than its destination, $of, $err, $pc and the gas registers; register
   instructions leave memory alone *)
Theorem alu_success_frame : forall cost guess i s s',
  exec_alu cost guess i s = Done s' ->
  regs s' REG_PC = next_pc (regs s REG_PC) /\
  (forall r, r <> REG_PC -> r <> REG_OF -> r <> REG_ERR -> r <> REG_CGAS -> r <> REG_GGAS ->
             (writes_register (i_op i) = true -> r <> i_ra i) -> regs s' r = regs s r) /\
  (writes_register (i_op i) = true -> 16 <= i_ra i) /\
  (is_c21_op (i_op i) = true -> memo s' = memo s) /\
  prev_hp s' = prev_hp s.
Proof.
  intros cost guess i s s' H. unfold exec_alu in H.
  destruct (N.le_gt_cases cost (regs s REG_CGAS)) as [Hc|Hc].
  2:{ destruct (gas_charge_oog _ _ Hc) as (x & E & _). rewrite E in H. discriminate. }
  rewrite gas_charge_ok in H by exact Hc.
  assert (Hpc1 : regs (charged cost s) REG_PC = regs s REG_PC)
    by (apply charged_other; unfold REG_PC, REG_CGAS, REG_GGAS; lia).
  destruct (is_reg_kind (alu_table (i_op i))) eqn:Hk.
  - (* register helpers *)
    assert (Hw : writes_register (i_op i) = true) by (destruct (i_op i); try reflexivity; discriminate Hk).
    assert (Hc21 : is_c21_op (i_op i) = true) by (destruct (i_op i); try reflexivity; discriminate Hk).
    destruct (N.le_gt_cases 16 (i_ra i)) as [Hra|Hra].
    2:{ exfalso. assert (Hd : imm_decodes i = true \/ imm_decodes i = false) by (destruct (imm_decodes i); auto).
        destruct Hd as [Hd|Hd].
        - pose proof (reserved_register_panics cost guess i s Hw Hd Hc Hra) as [E _].
          unfold exec_alu in E. rewrite gas_charge_ok in E by exact Hc. rewrite E in H. discriminate.
        - unfold imm_decodes in Hd. destruct (i_op i); try discriminate Hk; cbn [alu_table] in *; try discriminate Hd.
          cbn [exec_kind] in H. destruct (narrow_from_imm (i_imm i)); [discriminate Hd|discriminate H]. }
    rewrite exec_kind_pure in H by assumption.
    apply realize_done in H as (r & f & e & _ & H).
    apply (commit_regs _ _ _ _ _ _ Hra) in H as (P1 & _ & _ & _ & P5 & P6 & P7).
    rewrite P1, Hpc1. split; [reflexivity|]. split.
    { intros x H1 H2 H3 H4 H5 H6. rewrite P5 by auto. now apply charged_other. }
    split; [auto|]. split; [intros _; now rewrite P6|now rewrite P7].
  - destruct (alu_table (i_op i)) eqn:Ht; try discriminate Hk.
    + (* NOOP *)
      assert (Hop : i_op i = O_NOOP) by (destruct (i_op i); try discriminate Ht; reflexivity).
      cbn [exec_kind] in H. unfold alu_clear in H. injection H as <-.
      rewrite !inc_pc_regs. rewrite Hop. cbn [writes_register is_c21_op regs set_reg memo prev_hp inc_pc]. unfold rset.
      change (REG_PC =? REG_PC) with true. cbv iota.
      change (REG_PC =? REG_ERR) with false. change (REG_PC =? REG_OF) with false. cbv iota. rewrite Hpc1.
      split; [reflexivity|]. split.
      { intros x H1 H2 H3 H4 H5 _.
        destruct (N.eqb_spec x REG_PC); [contradiction|]. destruct (N.eqb_spec x REG_ERR); [contradiction|].
        destruct (N.eqb_spec x REG_OF); [contradiction|]. now apply charged_other. }
      split; [discriminate|]. split; reflexivity.
    + (* wide compare *)
      apply wide_cmp_regs in H as (Hra & P1 & _ & _ & P5 & P6 & P7).
      rewrite P1, Hpc1. split; [reflexivity|]. split.
      { intros x H1 H2 H3 H4 H5 H6.
        assert (Hw : writes_register (i_op i) = true) by (destruct (i_op i); try discriminate Ht; reflexivity).
        rewrite P5 by auto. now apply charged_other. }
      split; [auto|]. split; [intros _; now rewrite P6|now rewrite P7].
    + apply wide_mem_kind_regs in H as (P1 & P2 & P3); [|exact I]. rewrite P1, Hpc1.
      assert (Hw : writes_register (i_op i) = false) by (destruct (i_op i); try discriminate Ht; reflexivity).
      assert (Hc21 : is_c21_op (i_op i) = false) by (destruct (i_op i); try discriminate Ht; reflexivity).
      rewrite Hw, Hc21. split; [reflexivity|]. split; [intros x H1 H2 H3 H4 H5 _; rewrite P2 by auto; now apply charged_other|].
      split; [discriminate|]. split; [discriminate|now rewrite P3].
    + apply wide_mem_kind_regs in H as (P1 & P2 & P3); [|exact I]. rewrite P1, Hpc1.
      assert (Hw : writes_register (i_op i) = false) by (destruct (i_op i); try discriminate Ht; reflexivity).
      assert (Hc21 : is_c21_op (i_op i) = false) by (destruct (i_op i); try discriminate Ht; reflexivity).
      rewrite Hw, Hc21. split; [reflexivity|]. split; [intros x H1 H2 H3 H4 H5 _; rewrite P2 by auto; now apply charged_other|].
      split; [discriminate|]. split; [discriminate|now rewrite P3].
    + apply wide_mem_kind_regs in H as (P1 & P2 & P3); [|exact I]. rewrite P1, Hpc1.
      assert (Hw : writes_register (i_op i) = false) by (destruct (i_op i); try discriminate Ht; reflexivity).
      assert (Hc21 : is_c21_op (i_op i) = false) by (destruct (i_op i); try discriminate Ht; reflexivity).
      rewrite Hw, Hc21. split; [reflexivity|]. split; [intros x H1 H2 H3 H4 H5 _; rewrite P2 by auto; now apply charged_other|].
      split; [discriminate|]. split; [discriminate|now rewrite P3].
    + apply wide_mem_kind_regs in H as (P1 & P2 & P3); [|exact I]. rewrite P1, Hpc1.
      assert (Hw : writes_register (i_op i) = false) by (destruct (i_op i); try discriminate Ht; reflexivity).
      assert (Hc21 : is_c21_op (i_op i) = false) by (destruct (i_op i); try discriminate Ht; reflexivity).
      rewrite Hw, Hc21. split; [reflexivity|]. split; [intros x H1 H2 H3 H4 H5 _; rewrite P2 by auto; now apply charged_other|].
      split; [discriminate|]. split; [discriminate|now rewrite P3].
    + apply wide_mem_kind_regs in H as (P1 & P2 & P3); [|exact I]. rewrite P1, Hpc1.
      assert (Hw : writes_register (i_op i) = false) by (destruct (i_op i); try discriminate Ht; reflexivity).
      assert (Hc21 : is_c21_op (i_op i) = false) by (destruct (i_op i); try discriminate Ht; reflexivity).
      rewrite Hw, Hc21. split; [reflexivity|]. split; [intros x H1 H2 H3 H4 H5 _; rewrite P2 by auto; now apply charged_other|].
      split; [discriminate|]. split; [discriminate|now rewrite P3].
    + apply wide_mem_kind_regs in H as (P1 & P2 & P3); [|exact I]. rewrite P1, Hpc1.
      assert (Hw : writes_register (i_op i) = false) by (destruct (i_op i); try discriminate Ht; reflexivity).
      assert (Hc21 : is_c21_op (i_op i) = false) by (destruct (i_op i); try discriminate Ht; reflexivity).
      rewrite Hw, Hc21. split; [reflexivity|]. split; [intros x H1 H2 H3 H4 H5 _; rewrite P2 by auto; now apply charged_other|].
      split; [discriminate|]. split; [discriminate|now rewrite P3].
Qed.

(* ================================================================== Part 2: arithmetic *)
Definition zo (x : N) : Z := Z.of_N x.

Definition to_spec (o : nres) : option spec_outcome :=
  match o with
  | NOk r f e => Some (S_ok (zo r) (zo f) (zo e))
  | NPanic r => Some (S_panic r)
  | NHost => None
  end.

Lemma U64_pos : 0 < U64. Proof. reflexivity. Qed.
Lemma U64_pow : U64 = 2 ^ 64. Proof. reflexivity. Qed.
Lemma U128_sq : U128 = U64 * U64. Proof. reflexivity. Qed.
Lemma zo_U64 : zo U64 = W64. Proof. reflexivity. Qed.
Lemma u64_max_succ : u64_max + 1 = U64. Proof. reflexivity. Qed.
Lemma land_u64_max x : N.land x u64_max = x mod U64.
Proof. change u64_max with (N.ones 64). rewrite N.land_ones. reflexivity. Qed.

(* alu_capture_overflow: for a 128-bit result X, low word / high word / panic = `capture` *)
Lemma pure_capture_spec w X : X < U128 -> to_spec (pure_capture w X) = Some (capture w (zo X)).
Proof.
  intros HX. unfold pure_capture, capture. rewrite land_u64_max.
  pose proof U64_pos. pose proof u64_max_succ.
  assert (Hz : (0 <= zo X)%Z) by apply N2Z.is_nonneg.
  destruct (N.ltb_spec u64_max X) as [Hgt|Hle].
  - assert ((zo X <? W64)%Z = false) as ->.
    { apply Z.ltb_ge. rewrite <- zo_U64. unfold zo. lia. }
    rewrite andb_false_r. destruct w; cbn [negb andb to_spec]; [|reflexivity].
    unfold zo. rewrite N2Z.inj_mod, N2Z.inj_mod, N2Z.inj_div. reflexivity.
  - cbn [andb to_spec].
    assert ((0 <=? zo X)%Z = true) as -> by (apply Z.leb_le; exact Hz).
    assert ((zo X <? W64)%Z = true) as ->.
    { apply Z.ltb_lt. rewrite <- zo_U64. unfold zo. lia. }
    cbn [andb]. rewrite N.mod_small by lia. rewrite N.div_small by lia.
    rewrite N.mod_small by lia. reflexivity.
Qed.

(* a negative exact value -k (0 < k <= 2^64), seen through the 128-bit two's complement *)
Lemma capture_neg w e : (- W64 <= e < 0)%Z -> capture w (e + W64 * W64) = capture w e.
Proof.
  intros He. unfold capture.
  assert (HW : (2 <= W64)%Z) by (apply Z.leb_le; reflexivity).
  assert ((0 <=? e)%Z = false) as -> by (apply Z.leb_gt; lia).
  assert ((e + W64 * W64 <? W64)%Z = false) as -> by (apply Z.ltb_ge; nia).
  rewrite andb_false_r. cbn [andb]. destruct w; [|reflexivity].
  rewrite Z_mod_plus_full, Z_div_plus_full by lia.
  replace (e / W64 + W64)%Z with (e / W64 + 1 * W64)%Z by lia. rewrite Z_mod_plus_full. reflexivity.
Qed.

Lemma wrapping_add_128 b c : b < U64 -> c < U64 -> wrapping_add U128 b c = b + c.
Proof. intros. unfold wrapping_add. apply N.mod_small. rewrite U128_sq. pose proof U64_pos. nia. Qed.
Lemma wrapping_mul_128 b c : b < U64 -> c < U64 -> wrapping_mul U128 b c = b * c.
Proof. intros. unfold wrapping_mul. apply N.mod_small. rewrite U128_sq. pose proof U64_pos. nia. Qed.
Lemma wrapping_sub_ge M b c : 0 < M -> b < M -> c <= b -> wrapping_sub M b c = b - c.
Proof.
  intros HM Hb Hc. unfold wrapping_sub. rewrite (N.mod_small c) by lia.
  replace (b + M - c) with ((b - c) + 1 * M) by lia. rewrite N.mod_add by lia. apply N.mod_small. lia.
Qed.
Lemma wrapping_sub_lt M b c : 0 < M -> c < M -> b < c -> wrapping_sub M b c = M - (c - b).
Proof.
  intros HM Hc Hb. unfold wrapping_sub. rewrite (N.mod_small c) by lia.
  replace (b + M - c) with (M - (c - b)) by lia. apply N.mod_small. lia.
Qed.

Lemma capture_add w b c : b < U64 -> c < U64 ->
  to_spec (pure_capture w (u128_op F_overflowing_add b c)) = Some (capture w (zo b + zo c)).
Proof.
  intros Hb Hc. cbn [u128_op]. rewrite wrapping_add_128 by assumption.
  rewrite pure_capture_spec. { unfold zo. rewrite N2Z.inj_add. reflexivity. }
  rewrite U128_sq. pose proof U64_pos. nia.
Qed.
Lemma capture_mul w b c : b < U64 -> c < U64 ->
  to_spec (pure_capture w (u128_op F_overflowing_mul b c)) = Some (capture w (zo b * zo c)).
Proof.
  intros Hb Hc. cbn [u128_op]. rewrite wrapping_mul_128 by assumption.
  rewrite pure_capture_spec. { unfold zo. rewrite N2Z.inj_mul. reflexivity. }
  rewrite U128_sq. pose proof U64_pos. nia.
Qed.
Lemma capture_sub w b c : b < U64 -> c < U64 ->
  to_spec (pure_capture w (u128_op F_overflowing_sub b c)) = Some (capture w (zo b - zo c)).
Proof.
  intros Hb Hc. cbn [u128_op]. pose proof U64_pos as HU.
  assert (H128 : 0 < U128) by reflexivity.
  assert (HbM : b < U128) by (rewrite U128_sq; nia).
  assert (HcM : c < U128) by (rewrite U128_sq; nia).
  destruct (N.le_gt_cases c b) as [Hle|Hlt].
  - rewrite wrapping_sub_ge by assumption. rewrite pure_capture_spec by lia.
    unfold zo. rewrite N2Z.inj_sub by exact Hle. reflexivity.
  - rewrite wrapping_sub_lt by assumption. rewrite pure_capture_spec by lia.
    rewrite <- (capture_neg w (zo b - zo c)).
    + f_equal. f_equal. unfold zo. rewrite N2Z.inj_sub by lia. rewrite N2Z.inj_sub by lia.
      change (Z.of_N U128) with (W64 * W64)%Z. lia.
    + rewrite <- zo_U64. unfold zo. lia.
Qed.

(* ---- u64::overflowing_pow *)
Lemma mul_mod_idem a b : ((a mod U64) * (b mod U64)) mod U64 = (a * b) mod U64.
Proof. symmetry. apply N.mul_mod. discriminate. Qed.

Lemma pow_loop_zero : forall e acc ov, pow_loop e 0 acc ov = (0, ov).
Proof.
  induction e as [p IH|p IH|]; intros acc ov; cbn [pow_loop]; cbv zeta; rewrite ?N.mul_0_r;
    change (0 * 0) with 0; change (0 mod U64) with 0; change (U64 <=? 0) with false;
    rewrite ?orb_false_r; auto.
Qed.

Lemma leb_or_mul A B : 1 <= A -> 1 <= B ->
  ((U64 <=? A) || (U64 <=? B)) || (U64 <=? (A mod U64) * (B mod U64)) = (U64 <=? A * B).
Proof.
  intros HA HB. pose proof U64_pos.
  destruct (N.leb_spec U64 A) as [H1|H1]; cbn [orb].
  { symmetry. apply N.leb_le. nia. }
  destruct (N.leb_spec U64 B) as [H2|H2]; cbn [orb].
  { symmetry. apply N.leb_le. nia. }
  rewrite !N.mod_small by assumption. reflexivity.
Qed.

Lemma pow_loop_spec : forall e tB tA, 1 <= tA -> 1 <= tB ->
  pow_loop e (tB mod U64) (tA mod U64) ((U64 <=? tA) || (U64 <=? tB)) =
  ((tA * tB ^ Npos e) mod U64, U64 <=? tA * tB ^ Npos e).
Proof.
  pose proof U64_pos as HU.
  induction e as [p IH|p IH|]; intros tB tA HA HB; cbn [pow_loop].
  - (* xI *)
    rewrite !mul_mod_idem.
    assert (HB2 : 1 <= tB * tB) by nia. assert (HA2 : 1 <= tA * tB) by nia.
    specialize (IH (tB * tB) (tA * tB) HA2 HB2).
    replace (((U64 <=? tA) || (U64 <=? tB)) || (U64 <=? tA mod U64 * (tB mod U64)) || (U64 <=? tB mod U64 * (tB mod U64)))
      with ((U64 <=? tA * tB) || (U64 <=? tB * tB)).
    2:{ rewrite <- (leb_or_mul tA tB HA HB). rewrite <- (leb_or_mul tB tB HB HB).
        destruct (U64 <=? tA), (U64 <=? tB), (U64 <=? tA mod U64 * (tB mod U64)), (U64 <=? tB mod U64 * (tB mod U64)); reflexivity. }
    rewrite IH. replace (N.pos p~1) with (1 + 2 * N.pos p) by lia.
    rewrite N.pow_add_r, N.pow_1_r, N.pow_mul_r, N.pow_2_r, N.mul_assoc. reflexivity.
  - (* xO *)
    rewrite !mul_mod_idem.
    assert (HB2 : 1 <= tB * tB) by nia.
    specialize (IH (tB * tB) tA HA HB2).
    replace (((U64 <=? tA) || (U64 <=? tB)) || (U64 <=? tB mod U64 * (tB mod U64)))
      with ((U64 <=? tA) || (U64 <=? tB * tB)).
    2:{ rewrite <- (leb_or_mul tB tB HB HB).
        destruct (U64 <=? tA), (U64 <=? tB), (U64 <=? tB mod U64 * (tB mod U64)); reflexivity. }
    rewrite IH. replace (N.pos p~0) with (2 * N.pos p) by lia.
    rewrite N.pow_mul_r, N.pow_2_r. reflexivity.
  - (* xH *)
    rewrite mul_mod_idem, N.pow_1_r. f_equal. apply leb_or_mul; assumption.
Qed.

Theorem overflowing_pow_spec b e : b < U64 -> overflowing_pow b e = ((b ^ e) mod U64, U64 <=? b ^ e).
Proof.
  intros Hb. destruct e as [|p]; [reflexivity|]. cbn [overflowing_pow].
  destruct (N.eq_dec b 0) as [->|Hnz].
  - rewrite pow_loop_zero. rewrite N.pow_0_l by discriminate. reflexivity.
  - pose proof (pow_loop_spec p b 1) as H. rewrite N.mod_small in H by exact Hb.
    change (1 mod U64) with 1 in H. change (U64 <=? 1) with false in H.
    assert ((U64 <=? b) = false) as Hf by (apply N.leb_gt; exact Hb). rewrite Hf in H. cbn [orb] in H.
    rewrite H by lia. rewrite N.mul_1_l. reflexivity.
Qed.

Lemma pure_boolean_pow w b e : b < U64 ->
  to_spec (pure_boolean w ((b ^ e) mod U64, U64 <=? b ^ e)) = Some (flagged w (zo b ^ zo e)).
Proof.
  intros Hb. unfold pure_boolean, flagged. cbn [fst snd].
  unfold zo. rewrite <- N2Z.inj_pow. fold (zo (b ^ e)).
  destruct (N.leb_spec U64 (b ^ e)) as [H|H].
  - assert ((zo (b ^ e) <? W64)%Z = false) as -> by (apply Z.ltb_ge; rewrite <- zo_U64; unfold zo; lia).
    destruct w; reflexivity.
  - assert ((zo (b ^ e) <? W64)%Z = true) as -> by (apply Z.ltb_lt; rewrite <- zo_U64; unfold zo; lia).
    cbn [andb to_spec b2n]. rewrite N.mod_small by exact H. reflexivity.
Qed.

Lemma boolean_overflowing_pow w b e : b < U64 ->
  to_spec (pure_boolean w (overflowing_pow b e)) = Some (flagged w (zo b ^ zo e)).
Proof. intros Hb. rewrite overflowing_pow_spec by exact Hb. now apply pure_boolean_pow. Qed.

Lemma boolean_alu_exp w b e : b < U64 ->
  to_spec (pure_boolean w (alu_exp b e)) = Some (flagged w (zo b ^ zo e)).
Proof.
  intros Hb. unfold alu_exp. destruct (N.ltb_spec e U32) as [He|He].
  - now apply boolean_overflowing_pow.
  - rewrite <- (pure_boolean_pow w b e Hb).
    destruct (N.ltb_spec b 2) as [Hb2|Hb2].
    + assert (Hp : b ^ e = b).
      { assert (b = 0 \/ b = 1) as [->| ->] by lia.
        - apply N.pow_0_l. unfold U32 in He. lia.
        - apply N.pow_1_l. }
      rewrite Hp. rewrite N.mod_small by exact Hb.
      assert ((U64 <=? b) = false) as -> by (apply N.leb_gt; exact Hb). reflexivity.
    + assert (Hbig : U64 <= b ^ e).
      { rewrite U64_pow. transitivity (2 ^ e).
        - apply N.pow_le_mono_r; [discriminate|]. unfold U32 in He. lia.
        - apply N.pow_le_mono_l. exact Hb2. }
      assert ((U64 <=? b ^ e) = true) as -> by (apply N.leb_le; exact Hbig).
      unfold pure_boolean. cbn [fst snd]. reflexivity.
Qed.

(* ---- u64::checked_pow *)
Lemma checked_mul_spec a b : checked_mul U64 a b = if a * b <? U64 then Some (a * b) else None.
Proof. reflexivity. Qed.

Lemma cpow_loop_zero : forall e acc, acc < U64 -> cpow_loop e 0 acc = Some 0.
Proof.
  induction e as [p IH|p IH|]; intros acc Ha; cbn [cpow_loop]; unfold checked_mul; rewrite ?N.mul_0_r;
    change (0 * 0) with 0; change (0 <? U64) with true; cbn [opt_bind]; auto.
  apply IH. reflexivity.
Qed.

Lemma cpow_loop_spec : forall e base acc, 1 <= acc -> 1 <= base -> acc < U64 -> base < U64 ->
  cpow_loop e base acc = if acc * base ^ Npos e <? U64 then Some (acc * base ^ Npos e) else None.
Proof.
  pose proof U64_pos as HU.
  induction e as [p IH|p IH|]; intros base acc HA HB HAl HBl; cbn [cpow_loop]; unfold checked_mul.
  - replace (N.pos p~1) with (1 + 2 * N.pos p) by lia.
    rewrite N.pow_add_r, N.pow_1_r, N.pow_mul_r, N.pow_2_r, N.mul_assoc.
    assert (Hpp : 1 <= (base * base) ^ N.pos p).
    { rewrite <- (N.pow_1_l (N.pos p)). apply N.pow_le_mono_l. nia. }
    assert (Hge : base * base <= (base * base) ^ N.pos p).
    { rewrite <- (N.pow_1_r (base * base)) at 1. apply N.pow_le_mono_r; nia. }
    destruct (N.ltb_spec (acc * base) U64) as [H1|H1]; cbn [opt_bind].
    + destruct (N.ltb_spec (base * base) U64) as [H2|H2]; cbn [opt_bind].
      * apply IH; nia.
      * destruct (N.ltb_spec (acc * base * (base * base) ^ N.pos p) U64); [nia|reflexivity].
    + destruct (N.ltb_spec (acc * base * (base * base) ^ N.pos p) U64); [nia|reflexivity].
  - replace (N.pos p~0) with (2 * N.pos p) by lia. rewrite N.pow_mul_r, N.pow_2_r.
    assert (Hge : base * base <= (base * base) ^ N.pos p).
    { rewrite <- (N.pow_1_r (base * base)) at 1. apply N.pow_le_mono_r; nia. }
    destruct (N.ltb_spec (base * base) U64) as [H2|H2]; cbn [opt_bind].
    + apply IH; nia.
    + destruct (N.ltb_spec (acc * (base * base) ^ N.pos p) U64); [nia|reflexivity].
  - rewrite N.pow_1_r. reflexivity.
Qed.

Theorem checked_pow_spec b e : b < U64 -> checked_pow b e = if b ^ e <? U64 then Some (b ^ e) else None.
Proof.
  intros Hb. destruct e as [|p]; [reflexivity|]. cbn [checked_pow].
  destruct (N.eq_dec b 0) as [->|Hnz].
  - rewrite cpow_loop_zero by reflexivity. rewrite N.pow_0_l by discriminate. reflexivity.
  - rewrite cpow_loop_spec; [rewrite N.mul_1_l; reflexivity|lia|lia|reflexivity|exact Hb].
Qed.

(* ---- u64::checked_ilog *)
Lemma div_test r b c : 0 < c -> (r <= b / c <-> r * c <= b).
Proof.
  intros Hc. split; intros H.
  - pose proof (N.mul_div_le b c). nia.
  - apply N.div_le_lower_bound; lia.
Qed.

Lemma ilog_loop_spec b c : 2 <= c -> b < U64 ->
  forall fuel n, c ^ n <= b -> 64 <= n + N.of_nat fuel ->
  exists r, ilog_loop fuel b c n (c ^ n) = Some r /\ c ^ r <= b < c ^ (r + 1).
Proof.
  intros Hc Hb. induction fuel as [|k IH]; intros n Hn Hf.
  - exfalso. assert (2 ^ 64 <= c ^ n).
    { transitivity (2 ^ n). - apply N.pow_le_mono_r; lia. - apply N.pow_le_mono_l; lia. }
    rewrite <- U64_pow in H. lia.
  - cbn [ilog_loop]. destruct (N.leb_spec (c ^ n) (b / c)) as [Hle|Hgt].
    + apply div_test in Hle; [|lia].
      replace (c ^ n * c) with (c ^ (n + 1)) by (rewrite N.pow_add_r, N.pow_1_r; reflexivity).
      apply IH; [rewrite N.pow_add_r, N.pow_1_r; exact Hle|lia].
    + exists n. split; [reflexivity|]. split; [exact Hn|].
      rewrite N.pow_add_r, N.pow_1_r.
      destruct (N.le_gt_cases (c ^ n * c) b) as [Hx|Hx]; [|exact Hx].
      apply div_test in Hx; lia.
Qed.

Theorem checked_ilog_spec b c : 1 <= b -> b < U64 -> 2 <= c ->
  exists r, checked_ilog b c = Some r /\ c ^ r <= b < c ^ (r + 1).
Proof.
  intros Hb1 Hb Hc. unfold checked_ilog.
  assert ((b =? 0) = false) as -> by (apply N.eqb_neq; lia).
  assert ((c <=? 1) = false) as -> by (apply N.leb_gt; lia). cbn [orb].
  destruct (N.ltb_spec b c) as [Hlt|Hge].
  - exists 0. split; [reflexivity|]. rewrite N.pow_0_r, N.pow_1_r. lia.
  - pose proof (ilog_loop_spec b c Hc Hb 65 1) as H. rewrite N.pow_1_r in H. apply H; [exact Hge|lia].
Qed.

(* ---- checked_nth_root with the floating-point starting point as an oracle *)
Lemma floor_root_unique b c r1 r2 : 1 <= c ->
  r1 ^ c <= b < (r1 + 1) ^ c -> r2 ^ c <= b < (r2 + 1) ^ c -> r1 = r2.
Proof.
  intros Hc [H1 H2] [H3 H4].
  destruct (N.lt_trichotomy r1 r2) as [Hlt|[Heq|Hgt]]; [|exact Heq|]; exfalso.
  - assert ((r1 + 1) ^ c <= r2 ^ c) by (apply N.pow_le_mono_l; lia). lia.
  - assert ((r2 + 1) ^ c <= r1 ^ c) by (apply N.pow_le_mono_l; lia). lia.
Qed.

Lemma floor_root_exists b c : 1 <= c -> exists r, r ^ c <= b < (r + 1) ^ c.
Proof.
  intros Hc.
  assert (H : forall n, exists r, r <= n /\ r ^ c <= b /\ (forall r', r < r' <= n -> b < r' ^ c)).
  { induction n as [|n IH] using N.peano_ind.
    - exists 0. split; [lia|]. split; [rewrite N.pow_0_l by lia; lia|]. intros r' Hr. lia.
    - destruct IH as (r & Hr & Hp & Hmax).
      destruct (N.le_gt_cases (N.succ n ^ c) b) as [Hle|Hgt].
      + exists (N.succ n). split; [lia|]. split; [exact Hle|]. intros r' Hr'. lia.
      + exists r. split; [lia|]. split; [exact Hp|]. intros r' Hr'.
        destruct (N.eq_dec r' (N.succ n)) as [->|Hne]; [exact Hgt|]. apply Hmax. lia. }
  destruct (H b) as (r & Hr & Hp & Hmax). exists r. split; [exact Hp|].
  destruct (N.eq_dec r b) as [->|Hne].
  - assert (b + 1 <= (b + 1) ^ c).
    { rewrite <- (N.pow_1_r (b + 1)) at 1. apply N.pow_le_mono_r; lia. }
    lia.
  - apply Hmax. lia.
Qed.

Lemma below_spec target n v : v < U64 -> target < U64 ->
  is_nth_power_below_target target n v = (target <? v ^ n).
Proof.
  intros Hv Ht. unfold is_nth_power_below_target. rewrite checked_pow_spec by exact Hv.
  destruct (N.ltb_spec (v ^ n) U64); [reflexivity|]. symmetry. apply N.ltb_lt. lia.
Qed.

(* C21 MROO: whatever the floating-point library returns, as long as it is within one of the
   true root, the integer correction yields exactly the true root *)
Theorem checked_nth_root_spec guess b c r : b < U64 -> 1 <= c ->
  r ^ c <= b < (r + 1) ^ c ->
  (r <= guess + 1 /\ guess <= r + 1) ->
  checked_nth_root guess b c = Some r.
Proof.
  intros Hb Hc Hr Hg. unfold checked_nth_root.
  assert ((c =? 0) = false) as -> by (apply N.eqb_neq; lia).
  destruct (N.eqb_spec c 1) as [->|Hc1]; cbn [orb].
  { rewrite !N.pow_1_r in Hr. f_equal. lia. }
  destruct (N.leb_spec b 1) as [Hb1|Hb1].
  { f_equal. destruct (N.eq_dec b 0) as [->|Hb0].
    - destruct (N.eq_dec r 0) as [->|Hr0]; [reflexivity|]. exfalso.
      assert (1 ^ c <= r ^ c) by (apply N.pow_le_mono_l; lia). rewrite N.pow_1_l in H. lia.
    - assert (b = 1) as -> by lia. apply (floor_root_unique 1 c); [lia| |exact Hr].
      rewrite N.pow_1_l. split; [lia|]. change (1 + 1) with 2.
      assert (2 ^ 1 <= 2 ^ c) by (apply N.pow_le_mono_r; lia). rewrite N.pow_1_r in H. lia. }
  destruct ((b <=? c) || (64 <? c)) eqn:Hshort.
  { f_equal. apply (floor_root_unique b c); [lia| |exact Hr].
    rewrite N.pow_1_l. split; [lia|]. change (1 + 1) with 2.
    apply orb_true_iff in Hshort as [H|H].
    - apply N.leb_le in H. pose proof (N.pow_gt_lin_r 2 c). lia.
    - apply N.ltb_lt in H. assert (2 ^ 64 <= 2 ^ c) by (apply N.pow_le_mono_r; lia).
      rewrite <- U64_pow in H0. lia. }
  apply orb_false_iff in Hshort as [H1 H2]. apply N.leb_gt in H1. apply N.ltb_ge in H2.
  (* the root is below 2^32 *)
  assert (Hr32 : r < U32).
  { destruct (N.lt_ge_cases r U32) as [|Hge]; [assumption|]. exfalso.
    assert (U32 ^ 2 <= r ^ c).
    { transitivity (r ^ 2). - apply N.pow_le_mono_l; exact Hge.
      - apply N.pow_le_mono_r; unfold U32 in Hge; lia. }
    change (U32 ^ 2) with U64 in H. lia. }
  assert (HgU : guess + 1 < U64) by (unfold U32, U64 in *; lia).
  rewrite below_spec by (unfold U64 in *; lia).
  destruct Hr as [Hlo Hhi]. destruct Hg as [Hg1 Hg2].
  assert (Hcases : guess = r + 1 \/ guess = r \/ guess + 1 = r) by lia.
  destruct Hcases as [->|[->|Hm]].
  - assert ((b <? (r + 1) ^ c) = true) as -> by (apply N.ltb_lt; exact Hhi).
    f_equal. unfold saturating_sub. lia.
  - assert ((b <? r ^ c) = false) as -> by (apply N.ltb_ge; exact Hlo).
    unfold checked_add. assert ((r + 1 <? U64) = true) as -> by (apply N.ltb_lt; exact HgU).
    rewrite below_spec by assumption.
    assert ((b <? (r + 1) ^ c) = true) as -> by (apply N.ltb_lt; exact Hhi). reflexivity.
  - assert (guess ^ c <= r ^ c) by (apply N.pow_le_mono_l; lia).
    assert ((b <? guess ^ c) = false) as -> by (apply N.ltb_ge; lia).
    unfold checked_add. assert ((guess + 1 <? U64) = true) as -> by (apply N.ltb_lt; exact HgU).
    rewrite below_spec by assumption. rewrite Hm.
    assert ((b <? r ^ c) = false) as -> by (apply N.ltb_ge; exact Hlo). reflexivity.
Qed.

(* ---- muldiv *)
Lemma high_word_zero X : X < U128 -> ((X / U64) mod U64 =? 0) = (X <? U64).
Proof.
  intros HX. pose proof U64_pos. rewrite U128_sq in HX.
  assert (X / U64 < U64) by (apply N.div_lt_upper_bound; lia).
  rewrite N.mod_small by assumption.
  destruct (N.ltb_spec X U64) as [Hs|Hs].
  - rewrite N.div_small by assumption. reflexivity.
  - apply N.eqb_neq. assert (1 <= X / U64) by (apply N.div_le_lower_bound; lia). lia.
Qed.

Lemma pure_muldiv_spec w b c d : b < U64 -> c < U64 -> d < U64 ->
  to_spec (pure_muldiv w b c d) = Some (capture w ((zo b * zo c) / (if (zo d =? 0)%Z then W64 else zo d))).
Proof.
  intros Hb Hc Hd. pose proof U64_pos as HU. unfold pure_muldiv, muldiv.
  assert (Hp : b * c < U128) by (rewrite U128_sq; nia).
  unfold checked_mul. assert ((b * c <? U128) = true) as -> by (apply N.ltb_lt; exact Hp). cbn [opt_bind].
  assert (Hq : forall dd, 0 < dd -> b * c / dd < U128).
  { intros dd Hdd. apply N.le_lt_trans with (b * c); [|exact Hp]. apply N.div_le_upper_bound; nia. }
  set (dd := if d =? 0 then U64 else d).
  assert (Hdd : 0 < dd) by (unfold dd; destruct (N.eqb_spec d 0); lia).
  assert (Hz : (if (zo d =? 0)%Z then W64 else zo d) = zo dd).
  { unfold dd. destruct (N.eqb_spec d 0) as [->|Hn]; [reflexivity|].
    assert ((zo d =? 0)%Z = false) as -> by (apply Z.eqb_neq; unfold zo; lia). reflexivity. }
  rewrite Hz. unfold zo. rewrite <- N2Z.inj_mul, <- N2Z.inj_div. fold (zo (b * c / dd)).
  rewrite <- (pure_capture_spec w (b * c / dd)) by (apply Hq; exact Hdd).
  unfold pure_capture. rewrite land_u64_max.
  assert (Hflag : (u64_max <? b * c / dd) = negb (b * c / dd <? U64)).
  { pose proof u64_max_succ. destruct (N.ltb_spec u64_max (b*c/dd)), (N.ltb_spec (b*c/dd) U64); try reflexivity; lia. }
  unfold dd. destruct (N.eqb_spec d 0) as [->|Hn].
  - (* divider 0: high word of the product, never overflows *)
    assert (Hs : b * c / U64 < U64) by (apply N.div_lt_upper_bound; [lia|rewrite <- U128_sq; exact Hp]).
    change (0 =? 0) with true. cbn [negb andb].
    assert ((u64_max <? b * c / U64) = false) as ->.
    { apply N.ltb_ge. pose proof u64_max_succ. lia. }
    cbn [andb]. rewrite (N.mod_small (b*c/U64)) by exact Hs.
    rewrite (N.div_small (b*c/U64)) by exact Hs. reflexivity.
  - fold dd in Hflag |- *. assert (dd = d) as Hdd' by (unfold dd; destruct (N.eqb_spec d 0); [contradiction|reflexivity]).
    rewrite Hdd' in *. rewrite Hflag. rewrite high_word_zero by (apply Hq; lia). reflexivity.
Qed.

(* ---- alu_error with div / rem *)
Lemma zo_eqb a b : (zo a =? zo b)%Z = (a =? b).
Proof. unfold zo. destruct (N.eqb_spec a b) as [->|H]; [apply Z.eqb_refl|]. apply Z.eqb_neq. lia. Qed.
Lemma zo_ltb a b : (zo a <? zo b)%Z = (a <? b).
Proof. unfold zo. destruct (N.ltb_spec a b); [apply Z.ltb_lt|apply Z.ltb_ge]; lia. Qed.
Lemma zo_leb a b : (zo a <=? zo b)%Z = (a <=? b).
Proof. unfold zo. destruct (N.leb_spec a b); [apply Z.leb_le|apply Z.leb_gt]; lia. Qed.

Lemma pure_error_spec u f eb v : (eb = false -> f tt = Some v) ->
  to_spec (pure_error u f eb) = Some (if eb then undefined u else plain (zo v)).
Proof.
  intros H. unfold pure_error, undefined, plain. destruct eb; cbn [andb].
  - destruct u; reflexivity.
  - rewrite (H eq_refl). reflexivity.
Qed.

(* ---- alu_set expressions *)
Lemma zo_land a b : zo (N.land a b) = Z.land (zo a) (zo b).
Proof. destruct a, b; reflexivity. Qed.
Lemma zo_lor a b : zo (N.lor a b) = Z.lor (zo a) (zo b).
Proof. destruct a, b; reflexivity. Qed.
Lemma zo_lxor a b : zo (N.lxor a b) = Z.lxor (zo a) (zo b).
Proof. destruct a, b; reflexivity. Qed.
Lemma zo_b2n x : zo (b2n x) = b2z x. Proof. destruct x; reflexivity. Qed.

Lemma zo_not b : b < U64 -> zo (u64_max - b) = (W64 - 1 - zo b)%Z.
Proof. intros H. unfold zo. pose proof u64_max_succ. rewrite N2Z.inj_sub by lia.
  change (Z.of_N u64_max) with (W64 - 1)%Z. reflexivity. Qed.

Lemma shl_spec b c : b < U64 -> zo (if c <? U32 then shl_or_zero 64 b c else 0) = ((zo b * 2 ^ zo c) mod W64)%Z.
Proof.
  intros Hb. change W64 with (zo (2 ^ 64)). unfold zo. change 2%Z with (Z.of_N 2).
  rewrite <- N2Z.inj_pow, <- N2Z.inj_mul, <- N2Z.inj_mod. f_equal.
  assert (Hbig : 64 <= c -> (b * 2 ^ c) mod 2 ^ 64 = 0).
  { intros Hc. replace c with (64 + (c - 64)) by lia. rewrite N.pow_add_r.
    replace (b * (2 ^ 64 * 2 ^ (c - 64))) with ((b * 2 ^ (c - 64)) * 2 ^ 64) by lia.
    apply N.mod_mul. discriminate. }
  unfold shl_or_zero. destruct (N.ltb_spec c U32) as [H32|H32].
  - destruct (N.ltb_spec c 64); [reflexivity|]. symmetry. apply Hbig. assumption.
  - symmetry. apply Hbig. unfold U32 in H32. lia.
Qed.
Lemma shl_imm_spec b c : b < U64 -> zo (shl_or_zero 64 b c) = ((zo b * 2 ^ zo c) mod W64)%Z.
Proof.
  intros Hb. rewrite <- (shl_spec b c Hb). unfold shl_or_zero.
  destruct (N.ltb_spec c U32) as [H32|H32]; [reflexivity|].
  destruct (N.ltb_spec c 64); [unfold U32 in H32; lia|reflexivity].
Qed.
Lemma shr_imm_spec b c : b < U64 -> zo (shr_or_zero 64 b c) = (zo b / 2 ^ zo c)%Z.
Proof.
  intros Hb. unfold zo. change 2%Z with (Z.of_N 2). rewrite <- N2Z.inj_pow, <- N2Z.inj_div. f_equal.
  unfold shr_or_zero. destruct (N.ltb_spec c 64) as [H|H]; [reflexivity|].
  symmetry. apply N.div_small. apply N.lt_le_trans with (2 ^ 64); [exact Hb|]. apply N.pow_le_mono_r; lia.
Qed.
Lemma shr_spec b c : b < U64 -> zo (if c <? U32 then shr_or_zero 64 b c else 0) = (zo b / 2 ^ zo c)%Z.
Proof.
  intros Hb. rewrite <- (shr_imm_spec b c Hb). unfold shr_or_zero.
  destruct (N.ltb_spec c U32) as [H32|H32]; [reflexivity|].
  destruct (N.ltb_spec c 64); [unfold U32 in H32; lia|reflexivity].
Qed.

(* ---- narrow integers (NIOP) *)
Definition nW (w : narrow_width) : N := 2 ^ nw_bits w.
Lemma nW_pos w : 0 < nW w. Proof. destruct w; reflexivity. Qed.
Lemma nW_le_U32 w : nW w <= U32. Proof. destruct w; unfold nW, nw_bits, U32; cbn; lia. Qed.
Lemma nW_divides w : exists q, 0 < q /\ U64 = nW w * q.
Proof. destruct w; [exists (2^56)|exists (2^48)|exists (2^32)]; split; reflexivity. Qed.

Lemma truncate_spec v w : truncate v w = v mod nW w.
Proof. unfold truncate, split_overflow. cbn [fst]. apply N.land_ones. Qed.
Lemma split_overflow_spec v w : split_overflow v w = (v mod nW w, v / nW w).
Proof. unfold split_overflow. rewrite N.land_ones, N.shiftr_div_pow2. reflexivity. Qed.

Lemma mod_mod_mul a W q : 0 < W -> 0 < q -> (a mod (W * q)) mod W = a mod W.
Proof.
  intros HW Hq. rewrite N.mod_mul_r by lia. rewrite (N.mul_comm W), N.mod_add by lia. apply N.mod_mod. lia.
Qed.
Lemma mod_U64_nW a w : (a mod U64) mod nW w = a mod nW w.
Proof. destruct (nW_divides w) as (q & Hq & ->). apply mod_mod_mul; [apply nW_pos|exact Hq]. Qed.

(* the value/overflow pair of each narrow operation, over N *)
Definition narrow_ref (op : narrow_mathop) (W l r : N) : N * N :=
  match op with
  | NM_ADD => ((l + r) mod W, (l + r) / W)
  | NM_SUB => ((l + U64 - r) mod W, if l <? r then u64_max else 0)
  | NM_MUL => ((l * r) mod W, (l * r) / W)
  | NM_EXP => if l ^ r <? W then (l ^ r, 0) else (0, 1)
  | NM_SLL => ((l * 2 ^ r) mod W, 0)
  | NM_XNOR => (W - 1 - N.lxor l r, 0)
  end.

Lemma lxor_lt_pow2 a b k : a < 2 ^ k -> b < 2 ^ k -> N.lxor a b < 2 ^ k.
Proof.
  intros Ha Hb. destruct (N.eq_dec (N.lxor a b) 0) as [->|Hnz]; [apply N.neq_0_lt_0, N.pow_nonzero; discriminate|].
  apply N.log2_lt_pow2; [lia|].
  apply N.le_lt_trans with (N.max (N.log2 a) (N.log2 b)); [apply N.log2_lxor|].
  destruct (N.eq_dec a 0) as [->|Ha0], (N.eq_dec b 0) as [->|Hb0].
  - rewrite N.lxor_0_l in Hnz. contradiction.
  - rewrite N.max_r by apply N.le_0_l. apply N.log2_lt_pow2; lia.
  - rewrite N.max_l by apply N.le_0_l. apply N.log2_lt_pow2; lia.
  - apply N.max_lub_lt; apply N.log2_lt_pow2; lia.
Qed.

Lemma xnor_spec l r k : k <= 64 -> l < 2 ^ k -> r < 2 ^ k ->
  N.land (N.lxor l (u64_max - r)) (N.ones k) = 2 ^ k - 1 - N.lxor l r.
Proof.
  intros Hk Hl Hr.
  assert (Hx : N.lxor l r < 2 ^ k) by (apply lxor_lt_pow2; assumption).
  assert (H64 : 2 ^ k <= 2 ^ 64) by (apply N.pow_le_mono_r; lia).
  assert (Hnot : u64_max - r = N.lnot r 64).
  { destruct (N.eq_dec r 0) as [->|Hr0]; [reflexivity|].
    symmetry. change u64_max with (N.ones 64). apply N.lnot_sub_low. apply N.log2_lt_pow2; lia. }
  assert (Hgoal : 2 ^ k - 1 - N.lxor l r = N.lnot (N.lxor l r) k).
  { rewrite <- N.pred_sub, <- N.ones_equiv.
    destruct (N.eq_dec (N.lxor l r) 0) as [E|Hx0]; [rewrite E; unfold N.lnot; rewrite N.lxor_0_l, N.sub_0_r; reflexivity|].
    symmetry. apply N.lnot_sub_low. apply N.log2_lt_pow2; lia. }
  rewrite Hgoal, Hnot. apply N.bits_inj. intros n.
  rewrite N.land_spec, N.lxor_spec. unfold N.lnot. rewrite !N.lxor_spec.
  destruct (N.lt_ge_cases n k) as [Hn|Hn].
  - rewrite !N.ones_spec_low by lia. rewrite andb_true_r, xorb_assoc. reflexivity.
  - rewrite (N.ones_spec_high k n) by exact Hn. rewrite andb_false_r, xorb_false_r.
    assert (Hbit : forall x, x < 2 ^ k -> N.testbit x n = false).
    { intros x Hxk. destruct (N.eq_dec x 0) as [->|Hx0]; [apply N.bits_0|].
      apply N.bits_above_log2. apply N.lt_le_trans with k; [apply N.log2_lt_pow2; lia|exact Hn]. }
    rewrite (Hbit l Hl), (Hbit r Hr). reflexivity.
Qed.

Lemma narrow_compute_ref op w b c : b < U64 -> c < U64 ->
  narrow_compute op w b c = narrow_ref op (nW w) (b mod nW w) (c mod nW w).
Proof.
  intros Hb Hc. unfold narrow_compute. rewrite !truncate_spec.
  set (W := nW w). set (l := b mod W). set (r := c mod W).
  pose proof (nW_pos w) as HW. pose proof (nW_le_U32 w) as HW32. fold W in HW, HW32.
  assert (Hl : l < W) by (apply N.mod_lt; lia). assert (Hr : r < W) by (apply N.mod_lt; lia).
  assert (HlU : l < U64) by (unfold U32, U64 in *; lia). assert (HrU : r < U64) by (unfold U32, U64 in *; lia).
  destruct op; cbn [narrow_ref].
  - apply split_overflow_spec.
  - f_equal. unfold wrapping_sub. rewrite (N.mod_small r) by exact HrU.
    apply mod_U64_nW.
  - apply split_overflow_spec.
  - rewrite checked_pow_spec by exact HlU.
    destruct (N.ltb_spec (l ^ r) U64) as [Hs|Hs].
    + rewrite split_overflow_spec. fold W. destruct (N.ltb_spec (l ^ r) W) as [Hw|Hw].
      * rewrite N.div_small by exact Hw. change (negb (0 =? 0)) with false. cbv iota. rewrite N.mod_small by exact Hw. reflexivity.
      * assert (1 <= l ^ r / W) by (apply N.div_le_lower_bound; lia).
        assert ((l ^ r / W =? 0) = false) as -> by (apply N.eqb_neq; lia). reflexivity.
    + destruct (N.ltb_spec (l ^ r) W); [unfold U32, U64 in *; lia|reflexivity].
  - f_equal. unfold shl_or_zero. destruct (N.ltb_spec r 64) as [H64|H64].
    + change (2 ^ 64) with U64. apply mod_U64_nW.
    + rewrite N.mod_0_l by lia. symmetry.
      assert (Hk : nw_bits w <= r) by (destruct w; cbn [nw_bits]; lia).
      unfold W, nW. replace r with (nw_bits w + (r - nw_bits w)) at 1 by lia. rewrite N.pow_add_r.
      replace (l * (2 ^ nw_bits w * 2 ^ (r - nw_bits w))) with ((l * 2 ^ (r - nw_bits w)) * 2 ^ nw_bits w) by lia.
      apply N.mod_mul. apply N.pow_nonzero. discriminate.
  - f_equal. unfold W, nW. rewrite <- N.land_ones. apply xnor_spec.
    + destruct w; cbn [nw_bits]; lia.
    + exact Hl.
    + exact Hr.
Qed.

(* decoding of the NIOP immediate *)
Lemma land_15 x : N.land x 15 = x mod 16. Proof. change 15 with (N.ones 4). apply N.land_ones. Qed.
Lemma land_3_shr4 x : N.land (N.shiftr x 4) 3 = (x / 16) mod 4.
Proof. change 3 with (N.ones 2). rewrite N.land_ones, N.shiftr_div_pow2. reflexivity. Qed.

Definition narrow_op_code (op : narrow_mathop) : N :=
  match op with NM_ADD => 0 | NM_SUB => 1 | NM_MUL => 2 | NM_EXP => 3 | NM_SLL => 4 | NM_XNOR => 5 end.
Definition narrow_width_code (w : narrow_width) : N := match w with NW_U8 => 0 | NW_U16 => 1 | NW_U32 => 2 end.

Lemma narrow_from_imm_spec imm :
  match narrow_from_imm imm with
  | Some (op, w) => imm mod 16 = narrow_op_code op /\ (imm / 16) mod 4 = narrow_width_code w
  | None => 5 < imm mod 16 \/ 2 < (imm / 16) mod 4
  end.
Proof.
  unfold narrow_from_imm. rewrite land_15, land_3_shr4.
  assert (H1 : imm mod 16 < 16) by (apply N.mod_lt; discriminate).
  assert (H2 : (imm / 16) mod 4 < 4) by (apply N.mod_lt; discriminate).
  remember (imm mod 16) as x. remember ((imm / 16) mod 4) as y.
  assert (Hx : x = 0 \/ x = 1 \/ x = 2 \/ x = 3 \/ x = 4 \/ x = 5 \/ x = 6 \/ x = 7 \/ x = 8 \/ x = 9 \/
               x = 10 \/ x = 11 \/ x = 12 \/ x = 13 \/ x = 14 \/ x = 15) by lia.
  assert (Hy : y = 0 \/ y = 1 \/ y = 2 \/ y = 3) by lia.
  clear Heqx Heqy H1 H2.
  repeat (destruct Hx as [->|Hx]); try subst x;
    repeat (destruct Hy as [->|Hy]); try subst y;
    cbn [narrow_mathop_from_repr narrow_width_from_repr opt_bind narrow_op_code narrow_width_code];
    first [split; reflexivity | left; reflexivity | right; reflexivity].
Qed.

Lemma nW_zo w : zo (nW w) = (2 ^ (8 * 2 ^ zo (narrow_width_code w)))%Z.
Proof. destruct w; reflexivity. Qed.

Theorem narrow_spec_ok wr imm b c : b < U64 -> c < U64 ->
  to_spec (match narrow_from_imm imm with
           | None => NPanic InvalidImmediateValue
           | Some args => pure_narrow wr args b c end) = Some (narrow_spec wr (zo imm) (zo b) (zo c)).
Proof.
  intros Hb Hc. pose proof (narrow_from_imm_spec imm) as Hd. unfold narrow_spec.
  assert (E16 : (zo imm mod 16)%Z = zo (imm mod 16)) by (unfold zo; rewrite N2Z.inj_mod; reflexivity).
  assert (E4 : ((zo imm / 16) mod 4)%Z = zo ((imm / 16) mod 4)) by (unfold zo; rewrite N2Z.inj_mod, N2Z.inj_div; reflexivity).
  rewrite E16, E4.
  destruct (narrow_from_imm imm) as [[op w]|].
  2:{ cbn [to_spec]. change 5%Z with (zo 5). change 2%Z with (zo 2). rewrite !zo_ltb.
      destruct Hd as [H|H]; apply N.ltb_lt in H; rewrite H; [reflexivity|rewrite orb_true_r; reflexivity]. }
  destruct Hd as [Ho Hw]. rewrite Ho, Hw.
  assert (((5 <? zo (narrow_op_code op))%Z || (2 <? zo (narrow_width_code w))%Z) = false) as -> by (destruct op, w; reflexivity).
  rewrite <- nW_zo. unfold pure_narrow. cbn [fst snd]. rewrite narrow_compute_ref by assumption.
  set (W := nW w). pose proof (nW_pos w) as HW. fold W in HW.
  assert (El : (zo b mod zo W)%Z = zo (b mod W)) by (unfold zo; rewrite N2Z.inj_mod; reflexivity).
  assert (Er : (zo c mod zo W)%Z = zo (c mod W)) by (unfold zo; rewrite N2Z.inj_mod; reflexivity).
  rewrite El, Er. set (l := b mod W). set (r := c mod W).
  assert (Hl : l < W) by (apply N.mod_lt; lia). assert (Hr : r < W) by (apply N.mod_lt; lia).
  destruct op; cbn [narrow_op_code narrow_ref fst snd]; cbv beta.
  - (* ADD *) change (zo 0 =? 0)%Z with true. cbv iota.
    replace ((zo l + zo r) mod zo W)%Z with (zo ((l + r) mod W)) by (unfold zo; rewrite N2Z.inj_mod, N2Z.inj_add; reflexivity).
    replace ((zo l + zo r) / zo W)%Z with (zo ((l + r) / W)) by (unfold zo; rewrite N2Z.inj_div, N2Z.inj_add; reflexivity).
    change 0%Z with (zo 0). rewrite zo_eqb.
    destruct ((l + r) / W =? 0); cbn [negb andb orb]; [reflexivity|]. destruct wr; reflexivity.
  - (* SUB *) change (zo 1 =? 0)%Z with false. change (zo 1 =? 1)%Z with true. cbv iota.
    rewrite zo_ltb.
    replace ((zo l - zo r) mod zo W)%Z with (zo ((l + U64 - r) mod W)).
    2:{ unfold zo. rewrite N2Z.inj_mod. destruct (nW_divides w) as (q & Hq & Eq). fold W in Eq.
        assert (HlU : r <= l + U64) by (pose proof (nW_le_U32 w); fold W in H; unfold U32, U64 in *; lia).
        rewrite N2Z.inj_sub by exact HlU. rewrite N2Z.inj_add, Eq, N2Z.inj_mul.
        replace (Z.of_N l + Z.of_N W * Z.of_N q - Z.of_N r)%Z with (Z.of_N l - Z.of_N r + Z.of_N q * Z.of_N W)%Z by lia.
        apply Z_mod_plus_full. }
    destruct (l <? r).
    + change ((W64 - 1 =? 0)%Z) with false. change (negb (u64_max =? 0)) with true. cbn [andb orb].
      destruct wr; reflexivity.
    + reflexivity.
  - (* MUL *) change (zo 2 =? 0)%Z with false. change (zo 2 =? 1)%Z with false. change (zo 2 =? 2)%Z with true. cbv iota.
    replace ((zo l * zo r) mod zo W)%Z with (zo ((l * r) mod W)) by (unfold zo; rewrite N2Z.inj_mod, N2Z.inj_mul; reflexivity).
    replace ((zo l * zo r) / zo W)%Z with (zo ((l * r) / W)) by (unfold zo; rewrite N2Z.inj_div, N2Z.inj_mul; reflexivity).
    change 0%Z with (zo 0). rewrite zo_eqb.
    destruct ((l * r) / W =? 0); cbn [negb andb orb]; [reflexivity|]. destruct wr; reflexivity.
  - (* EXP *) change (zo 3 =? 0)%Z with false. change (zo 3 =? 1)%Z with false. change (zo 3 =? 2)%Z with false.
    change (zo 3 =? 3)%Z with true. cbv iota.
    replace (zo l ^ zo r)%Z with (zo (l ^ r)) by (unfold zo; rewrite N2Z.inj_pow; reflexivity).
    rewrite zo_ltb. destruct (l ^ r <? W); cbn [fst snd].
    + reflexivity.
    + change (negb (1 =? 0)) with true. change (1 =? 0)%Z with false. cbn [andb orb]. destruct wr; reflexivity.
  - (* SLL *) change (zo 4 =? 0)%Z with false. change (zo 4 =? 1)%Z with false. change (zo 4 =? 2)%Z with false.
    change (zo 4 =? 3)%Z with false. change (zo 4 =? 4)%Z with true. cbv iota.
    change (negb (0 =? 0)) with false. cbn [andb to_spec]. f_equal. f_equal.
    unfold zo. change 2%Z with (Z.of_N 2). rewrite <- N2Z.inj_pow, <- N2Z.inj_mul, <- N2Z.inj_mod. reflexivity.
  - (* XNOR *) change (zo 5 =? 0)%Z with false. change (zo 5 =? 1)%Z with false. change (zo 5 =? 2)%Z with false.
    change (zo 5 =? 3)%Z with false. change (zo 5 =? 4)%Z with false. cbv iota.
    change (negb (0 =? 0)) with false. cbn [andb to_spec]. f_equal. f_equal.
    rewrite <- zo_lxor. assert (Hx : N.lxor l r < W) by (apply lxor_lt_pow2; assumption).
    unfold zo. rewrite !N2Z.inj_sub by lia. reflexivity.
Qed.

(* ================================================================== Part 3: C21, opcode by opcode *)
Definition wf_regs (s : state) : Prop := forall r, regs s r < U64.

(* contract of the floating-point oracle used by MROO: within one of the true root *)
Definition guess_within_one (guess b c : N) : Prop :=
  forall r, r ^ c <= b < (r + 1) ^ c -> r <= guess + 1 /\ guess <= r + 1.

Lemma wf_charged cost s : wf_regs s -> wf_regs (charged cost s).
Proof.
  intros H r. unfold charged. cbn [regs set_reg]. unfold rset.
  destruct (r =? REG_CGAS); [pose proof (H REG_CGAS); lia|].
  destruct (r =? REG_GGAS); [pose proof (H REG_GGAS); lia|apply H].
Qed.

Lemma zo_0 : zo 0 = 0%Z. Proof. reflexivity. Qed.
Lemma zo_1 : zo 1 = 1%Z. Proof. reflexivity. Qed.

Lemma spec_div u b c : to_spec (pure_error u (fun _ => Some (b / c)) (c =? 0)) =
  Some (if (zo c =? 0)%Z then undefined u else plain (zo b / zo c)).
Proof.
  rewrite (pure_error_spec u _ _ (b / c)) by reflexivity. rewrite <- zo_0, zo_eqb.
  unfold zo. rewrite N2Z.inj_div. reflexivity.
Qed.
Lemma spec_mod u b c : to_spec (pure_error u (fun _ => Some (b mod c)) (c =? 0)) =
  Some (if (zo c =? 0)%Z then undefined u else plain (zo b mod zo c)).
Proof.
  rewrite (pure_error_spec u _ _ (b mod c)) by reflexivity. rewrite <- zo_0, zo_eqb.
  unfold zo. rewrite N2Z.inj_mod. reflexivity.
Qed.

Lemma spec_mlog u b c : b < U64 ->
  exists o, to_spec (pure_error u (fun _ => checked_ilog b c) ((b =? 0) || (c <=? 1))) = Some o /\
            (if ((zo b =? 0) || (zo c <=? 1))%Z then o = undefined u
             else exists r, is_floor_log (zo b) (zo c) r /\ o = plain r).
Proof.
  intros Hb. rewrite <- zo_0, <- zo_1, zo_eqb, zo_leb.
  destruct ((b =? 0) || (c <=? 1)) eqn:Hc.
  - eexists. split; [apply (pure_error_spec u _ true 0); discriminate|reflexivity].
  - apply orb_false_iff in Hc as [H1 H2]. apply N.eqb_neq in H1. apply N.leb_gt in H2.
    destruct (checked_ilog_spec b c) as (r & Hr & Hlo & Hhi); [lia|exact Hb|lia|].
    eexists. split; [apply (pure_error_spec u _ false r); intros _; exact Hr|].
    exists (zo r). split; [|reflexivity]. unfold is_floor_log, zo. split; [apply N2Z.is_nonneg|].
    change 1%Z with (Z.of_N 1). rewrite <- N2Z.inj_add, <- !N2Z.inj_pow. lia.
Qed.

Lemma spec_mroo u guess b c : b < U64 -> guess_within_one guess b c ->
  exists o, to_spec (pure_error u (fun _ => checked_nth_root guess b c) (c =? 0)) = Some o /\
            (if (zo c =? 0)%Z then o = undefined u
             else exists r, is_floor_root (zo b) (zo c) r /\ o = plain r).
Proof.
  intros Hb Hg. rewrite <- zo_0, zo_eqb. destruct (N.eqb_spec c 0) as [->|Hc].
  - eexists. split; [apply (pure_error_spec u _ true 0); discriminate|reflexivity].
  - destruct (floor_root_exists b c) as (r & Hr); [lia|].
    pose proof (checked_nth_root_spec guess b c r Hb ltac:(lia) Hr (Hg r Hr)) as Hroot.
    eexists. split; [apply (pure_error_spec u _ false r); intros _; exact Hroot|].
    exists (zo r). split; [|reflexivity]. unfold is_floor_root, zo. split; [apply N2Z.is_nonneg|].
    change 1%Z with (Z.of_N 1). rewrite <- N2Z.inj_add, <- !N2Z.inj_pow. lia.
Qed.

Lemma some_plain x y : zo x = y -> to_spec (NOk x 0 0) = Some (plain y).
Proof. intros <-. reflexivity. Qed.

(* C21 (first sentence), arithmetic content: what every register handler computes is what the
   specification prescribes — result, $of, $err or the panic reason *)
Theorem c21_pure_spec guess i s :
  is_c21_op (i_op i) = true -> i_op i <> O_NOOP -> wf_regs s -> i_imm i < U64 ->
  (i_op i = O_MROO -> guess_within_one guess (regs s (i_rb i)) (regs s (i_rc i))) ->
  exists o, to_spec (pure_kind guess i (alu_table (i_op i)) s) = Some o /\
            alu_spec (is_unsafe_math s) (is_wrapping s) (i_op i)
                     (zo (regs s (i_rb i))) (zo (regs s (i_rc i))) (zo (regs s (i_rd i))) (zo (i_imm i)) o.
Proof.
  intros Hop Hnoop Hwf Himm Hguess.
  pose proof (Hwf (i_rb i)) as Hb. pose proof (Hwf (i_rc i)) as Hc. pose proof (Hwf (i_rd i)) as Hd.
  destruct (i_op i); try discriminate Hop; try (exfalso; apply Hnoop; reflexivity);
    cbn [alu_table pure_kind operand alu_spec bool_op err_op eval_cond eval_set].
  - (* ADD *) eexists; split; [apply capture_add; assumption|reflexivity].
  - (* ADDI *) eexists; split; [apply capture_add; assumption|reflexivity].
  - (* AND *) eexists; split; [apply some_plain, zo_land|reflexivity].
  - (* ANDI *) eexists; split; [apply some_plain, zo_land|reflexivity].
  - (* DIV *) eexists; split; [apply spec_div|reflexivity].
  - (* DIVI *) eexists; split; [apply spec_div|reflexivity].
  - (* EQ *) eexists; split; [apply some_plain; rewrite zo_b2n, <- zo_eqb; reflexivity|reflexivity].
  - (* EXP *) eexists; split; [apply boolean_alu_exp; assumption|reflexivity].
  - (* EXPI *) eexists; split; [apply boolean_overflowing_pow; assumption|reflexivity].
  - (* GT *) eexists; split; [apply some_plain; rewrite zo_b2n, <- zo_ltb; reflexivity|reflexivity].
  - (* LT *) eexists; split; [apply some_plain; rewrite zo_b2n, <- zo_ltb; reflexivity|reflexivity].
  - (* MLOG *) apply spec_mlog; assumption.
  - (* MOD *) eexists; split; [apply spec_mod|reflexivity].
  - (* MODI *) eexists; split; [apply spec_mod|reflexivity].
  - (* MOVE *) eexists; split; [apply some_plain; reflexivity|reflexivity].
  - (* MOVI *) eexists; split; [apply some_plain; reflexivity|reflexivity].
  - (* MROO *) apply spec_mroo; [assumption|apply Hguess; reflexivity].
  - (* MUL *) eexists; split; [apply capture_mul; assumption|reflexivity].
  - (* MULI *) eexists; split; [apply capture_mul; assumption|reflexivity].
  - (* MLDV *) eexists; split; [apply pure_muldiv_spec; assumption|reflexivity].
  - (* NIOP *) eexists; split; [apply narrow_spec_ok; assumption|reflexivity].
  - (* NOT *) eexists; split; [apply some_plain, zo_not; assumption|reflexivity].
  - (* OR *) eexists; split; [apply some_plain, zo_lor|reflexivity].
  - (* ORI *) eexists; split; [apply some_plain, zo_lor|reflexivity].
  - (* SLL *) eexists; split; [apply some_plain, shl_spec; assumption|reflexivity].
  - (* SLLI *) eexists; split; [apply some_plain, shl_imm_spec; assumption|reflexivity].
  - (* SRL *) eexists; split; [apply some_plain, shr_spec; assumption|reflexivity].
  - (* SRLI *) eexists; split; [apply some_plain, shr_imm_spec; assumption|reflexivity].
  - (* SUB *) eexists; split; [apply capture_sub; assumption|reflexivity].
  - (* SUBI *) eexists; split; [apply capture_sub; assumption|reflexivity].
  - (* XOR *) eexists; split; [apply some_plain, zo_lxor|reflexivity].
  - (* XORI *) eexists; split; [apply some_plain, zo_lxor|reflexivity].
Qed.

(* what it means for the executed instruction to realise a specification outcome, starting from
   the state s1 left by the gas charge *)
Definition outcome_meets (ra : N) (s1 : state) (o : spec_outcome) (out : outcome) : Prop :=
  match o with
  | S_panic r => out = Panic r s1
  | S_ok res of_ err =>
    exists s', out = Done s' /\
      zo (regs s' ra) = res /\ zo (regs s' REG_OF) = of_ /\ zo (regs s' REG_ERR) = err /\
      regs s' REG_PC = next_pc (regs s1 REG_PC) /\
      (forall r, r <> REG_PC -> r <> ra -> r <> REG_OF -> r <> REG_ERR -> regs s' r = regs s1 r) /\
      memo s' = memo s1 /\ prev_hp s' = prev_hp s1
  end.

Theorem c21_op_correct : forall cost guess i s,
  is_c21_op (i_op i) = true -> i_op i <> O_NOOP -> wf_regs s -> i_imm i < U64 ->
  cost <= regs s REG_CGAS -> 16 <= i_ra i ->
  (i_op i = O_MROO ->
   guess_within_one guess (regs (charged cost s) (i_rb i)) (regs (charged cost s) (i_rc i))) ->
  let s1 := charged cost s in
  exists o,
    alu_spec (is_unsafe_math s) (is_wrapping s) (i_op i)
             (zo (regs s1 (i_rb i))) (zo (regs s1 (i_rc i))) (zo (regs s1 (i_rd i))) (zo (i_imm i)) o /\
    outcome_meets (i_ra i) s1 o (exec_alu cost guess i s).
Proof.
  intros cost guess i s Hop Hnoop Hwf Himm Hcost Hra Hguess s1.
  destruct (c21_pure_spec guess i s1 Hop Hnoop (wf_charged cost s Hwf) Himm Hguess) as (o & Hto & Hspec).
  unfold s1 in Hspec. rewrite charged_unsafe, charged_wrapping in Hspec. fold s1 in Hspec.
  exists o. split; [exact Hspec|].
  unfold exec_alu. rewrite gas_charge_ok by exact Hcost. fold s1.
  rewrite exec_kind_pure by (try apply c21_kind_is_reg; assumption).
  destruct (pure_kind guess i (alu_table (i_op i)) s1) as [res f e|r|]; cbn [to_spec] in Hto; [| |discriminate];
    injection Hto as <-; cbn [realize outcome_meets]; [|reflexivity].
  destruct (commit (i_ra i) res f e s1) as [s'| |] eqn:Hcm; try discriminate Hcm.
  destruct (commit_regs _ _ _ _ _ _ Hra Hcm) as (P1 & P2 & P3 & P4 & P5 & P6 & P7).
  exists s'. rewrite P2, P3, P4. repeat split; assumption.
Qed.

(* NOOP: clears $of and $err, advances $pc, touches nothing else *)
Theorem noop_correct : forall cost guess i s, i_op i = O_NOOP -> cost <= regs s REG_CGAS ->
  exists s', exec_alu cost guess i s = Done s' /\ regs s' REG_OF = 0 /\ regs s' REG_ERR = 0 /\
             regs s' REG_PC = next_pc (regs s REG_PC) /\
             (forall r, r <> REG_PC -> r <> REG_OF -> r <> REG_ERR -> r <> REG_CGAS -> r <> REG_GGAS -> regs s' r = regs s r) /\
             memo s' = memo s.
Proof.
  intros cost guess i s Hop Hc.
  assert (E : exec_alu cost guess i s = Done (inc_pc (set_reg (set_reg (charged cost s) REG_OF 0) REG_ERR 0))).
  { unfold exec_alu. rewrite gas_charge_ok by exact Hc. rewrite Hop. reflexivity. }
  eexists. split; [exact E|].
  destruct (alu_success_frame _ _ _ _ _ E) as (P1 & P2 & _ & P4 & _).
  split; [reflexivity|]. split; [reflexivity|]. split; [exact P1|]. split.
  - intros r H1 H2 H3 H4 H5. apply P2; auto. rewrite Hop. discriminate.
  - apply P4. rewrite Hop. reflexivity.
Qed.

(* out of gas: nothing but the gas registers changes *)
Theorem out_of_gas : forall cost guess i s, regs s REG_CGAS < cost ->
  exists s', exec_alu cost guess i s = Panic OutOfGas s' /\
             (forall r, r <> REG_CGAS -> r <> REG_GGAS -> regs s' r = regs s r) /\ memo s' = memo s.
Proof.
  intros cost guess i s H. destruct (gas_charge_oog cost s H) as (s' & E & P).
  exists s'. unfold exec_alu. rewrite E. split; [reflexivity|exact P].
Qed.

(* ---- the hypotheses above are satisfiable by non-trivial values (and needed) *)
Definition ex_state (flag b c : N) : state :=
  {| regs := fun r => if r =? REG_ONE then 1 else if r =? REG_PC then 1000 else if r =? REG_CGAS then 50
                      else if r =? REG_GGAS then 60 else if r =? REG_FLAG then flag
                      else if r =? 17 then b else if r =? 18 then c else 0;
     memo := {| m_stack_len := 0; m_hp := MEM_SIZE; m_byte := fun _ => 0 |}; prev_hp := VM_MAX_RAM |}.
Definition ex_instr (op : alu_op) (ra : N) : instr :=
  {| i_op := op; i_ra := ra; i_rb := 17; i_rc := 18; i_rd := 0; i_imm := 5 |}.

Example ex_wf_regs : wf_regs (ex_state 2 (2 ^ 64 - 1) 7).
Proof.
  intros r. unfold ex_state. cbn [regs].
  repeat match goal with |- (if ?c then _ else _) < _ => destruct c end; reflexivity.
Qed.
Example ex_sub_wraps :
  match exec_alu 1 0 (ex_instr O_SUB 16) (ex_state 2 3 5) with
  | Done s' => regs s' 16 = 2 ^ 64 - 2 /\ regs s' REG_OF = 2 ^ 64 - 1 /\ regs s' REG_PC = 1004
  | _ => False end.
Proof. vm_compute. repeat split. Qed.
Example ex_reserved : exec_alu 1 0 (ex_instr O_ADD 3) (ex_state 0 3 5) =
                      Panic ReservedRegisterNotWritable (charged 1 (ex_state 0 3 5)).
Proof. apply reserved_register_panics; [reflexivity|reflexivity|vm_compute; discriminate|reflexivity]. Qed.
Example ex_guess_within_one : guess_within_one 9 1000 3.
Proof.
  intros r Hr. assert (r = 10); [|lia].
  apply (floor_root_unique 1000 3); [lia|exact Hr|]. vm_compute. split; [discriminate|reflexivity].
Qed.
(* without the oracle contract the model does NOT return the root: the premise is necessary *)
Example mroo_needs_the_contract : exists guess b c r,
  r ^ c <= b < (r + 1) ^ c /\ checked_nth_root guess b c <> Some r.
Proof. exists 5, 1000, 3, 10. split; [vm_compute; split; [discriminate|reflexivity]|vm_compute; discriminate]. Qed.

Lemma pow_specs : forall b e : N, b < U64 ->
  overflowing_pow b e = ((b ^ e) mod U64, U64 <=? b ^ e) /\
  checked_pow b e = (if b ^ e <? U64 then Some (b ^ e) else None).
Proof. intros b e H. split; [exact (overflowing_pow_spec b e H)|exact (checked_pow_spec b e H)]. Qed.

(* ================================================================== Part 4: C22, wide integers *)

(* ---- big-endian reads *)
Lemma be_decode_acc_value : forall bs acc,
  zo (be_decode_acc acc bs) = (zo acc * 256 ^ Z.of_nat (length bs) + be_value (map zo bs))%Z.
Proof.
  induction bs as [|b bs IH]; intros acc; cbn [be_decode_acc map be_value length].
  - change (Z.of_nat 0) with 0%Z. rewrite Z.pow_0_r. lia.
  - rewrite IH. rewrite Nat2Z.inj_succ, Z.pow_succ_r by apply Nat2Z.is_nonneg.
    rewrite map_length. unfold zo. rewrite N2Z.inj_add, N2Z.inj_mul. change (Z.of_N 256) with 256%Z. lia.
Qed.
Lemma be_decode_value bs : zo (be_decode bs) = be_value (map zo bs).
Proof. unfold be_decode. rewrite be_decode_acc_value. change (zo 0) with 0%Z. lia. Qed.

Lemma bytes_at_length f a n : length (bytes_at f a n) = n.
Proof. unfold bytes_at. rewrite map_length, seq_length. reflexivity. Qed.

(* C22: an operand is the big-endian value of the width/8 bytes at the address, and the whole
   range must be inside memory and inside the allocated stack or the heap *)
Theorem read_wide_be w m a v : read_wide w m a = ROk v ->
  zo v = be_value (map zo (bytes_at (m_byte m) a (wbytes w))) /\
  a + N.of_nat (wbytes w) <= MEM_SIZE /\
  (a + N.of_nat (wbytes w) <= m_stack_len m \/ m_hp m <= a).
Proof.
  unfold read_wide, mem_read, mem_verify, to_addr. cbn [rbind].
  destruct (N.ltb_spec MEM_SIZE a) as [|Ha]; [discriminate|]. cbn [rbind].
  destruct (N.ltb_spec MEM_SIZE (N.of_nat (wbytes w))) as [|Hn]; [discriminate|]. cbn [rbind].
  destruct (N.ltb_spec MEM_SIZE (a + N.of_nat (wbytes w))) as [|He]; [discriminate|].
  destruct ((a + N.of_nat (wbytes w) <=? m_stack_len m) || (m_hp m <=? a)) eqn:Hacc; [|discriminate].
  cbn [rbind fst]. intros H. injection H as <-. split; [apply be_decode_value|]. split; [exact He|].
  apply orb_true_iff in Hacc as [H|H]; [left; apply N.leb_le|right; apply N.leb_le]; exact H.
Qed.

Lemma be_decode_bound : forall bs acc, (forall b, In b bs -> b < 256) ->
  be_decode_acc acc bs < (acc + 1) * 256 ^ N.of_nat (length bs).
Proof.
  induction bs as [|b bs IH]; intros acc Hb; cbn [be_decode_acc length].
  - change (N.of_nat 0) with 0. rewrite N.pow_0_r. lia.
  - eapply N.lt_le_trans; [apply IH; intros x Hx; apply Hb; right; exact Hx|].
    rewrite Nat2N.inj_succ, N.pow_succ_r'. pose proof (Hb b (or_introl eq_refl)).
    assert (0 < 256 ^ N.of_nat (length bs)) by (apply N.neq_0_lt_0, N.pow_nonzero; discriminate). nia.
Qed.

(* ---- memory writes *)
Lemma write_at_inside f start data k : (k < length data)%nat ->
  write_at f start data (start + N.of_nat k) = nth k data 0.
Proof.
  intros Hk. unfold write_at, lenN.
  destruct (N.leb_spec start (start + N.of_nat k)); [|lia].
  destruct (N.ltb_spec (start + N.of_nat k) (start + N.of_nat (length data))); [|lia].
  cbn [andb]. replace (start + N.of_nat k - start) with (N.of_nat k) by lia. rewrite Nat2N.id. reflexivity.
Qed.
Lemma write_at_outside f start data a : a < start \/ start + lenN data <= a -> write_at f start data a = f a.
Proof.
  intros H. unfold write_at. destruct (N.leb_spec start a), (N.ltb_spec a (start + lenN data)); try reflexivity. lia.
Qed.
Lemma nth_map_seq {A} (g : nat -> A) n k d : (k < n)%nat -> nth k (map g (seq 0 n)) d = g k.
Proof.
  intros Hk. rewrite (nth_indep _ d (g 0%nat)) by (rewrite map_length, seq_length; exact Hk).
  rewrite map_nth, seq_nth by exact Hk. reflexivity.
Qed.
Lemma bytes_at_write_at f start data : bytes_at (write_at f start data) start (length data) = data.
Proof.
  unfold bytes_at. apply nth_ext with (d := 0) (d' := 0).
  - rewrite map_length, seq_length. reflexivity.
  - intros k Hk. rewrite map_length, seq_length in Hk.
    rewrite nth_map_seq by exact Hk. apply write_at_inside. exact Hk.
Qed.

(* C22: a successful destination write stores exactly the big-endian bytes in an owned, accessible
   range and changes no other byte *)
Theorem mem_write_spec o m d data m' : mem_write o m d data = ROk m' ->
  d + lenN data <= MEM_SIZE /\ (d + lenN data <= m_stack_len m \/ m_hp m <= d) /\
  has_ownership_range o d (d + lenN data) = true /\
  bytes_at (m_byte m') d (length data) = data /\
  (forall a, a < d \/ d + lenN data <= a -> m_byte m' a = m_byte m a) /\
  m_stack_len m' = m_stack_len m /\ m_hp m' = m_hp m.
Proof.
  unfold mem_write, mem_verify, to_addr. cbn [rbind].
  destruct (N.ltb_spec MEM_SIZE d) as [|Ha]; [discriminate|]. cbn [rbind].
  destruct (N.ltb_spec MEM_SIZE (lenN data)) as [|Hn]; [discriminate|]. cbn [rbind].
  destruct (N.ltb_spec MEM_SIZE (d + lenN data)) as [|He]; [discriminate|].
  destruct ((d + lenN data <=? m_stack_len m) || (m_hp m <=? d)) eqn:Hacc; [|discriminate].
  cbn [rbind fst snd]. destruct (has_ownership_range o d (d + lenN data)) eqn:Hown; [|discriminate].
  intros H. injection H as <-. cbn [m_byte m_stack_len m_hp].
  split; [exact He|]. split.
  { apply orb_true_iff in Hacc as [H|H]; [left; apply N.leb_le|right; apply N.leb_le]; exact H. }
  split; [reflexivity|]. split; [apply bytes_at_write_at|]. split; [|split; reflexivity].
  intros a Ha'. apply write_at_outside. exact Ha'.
Qed.

Lemma wmod_pow w : wmod w = 2 ^ wbits w. Proof. destruct w; reflexivity. Qed.
Lemma wmod_bytes w : wmod w = 256 ^ N.of_nat (wbytes w). Proof. destruct w; reflexivity. Qed.
Lemma wmod_pos w : 0 < wmod w. Proof. destruct w; reflexivity. Qed.
Lemma zo_wmod w : zo (wmod w) = (2 ^ zo (wbits w))%Z. Proof. destruct w; reflexivity. Qed.

(* what was written reads back as the same integer *)
Theorem write_then_read w o m d v m' : v < wmod w ->
  mem_write o m d (be_encode (wbytes w) v) = ROk m' -> read_wide w m' d = ROk v.
Proof.
  intros Hv H. apply mem_write_spec in H as (He & Hacc & _ & Hb & _ & Hs & Hh).
  unfold lenN in *. rewrite be_encode_length in *.
  unfold read_wide, mem_read, mem_verify, to_addr. rewrite Hs, Hh.
  destruct (N.ltb_spec MEM_SIZE d); [lia|]. cbn [rbind].
  destruct (N.ltb_spec MEM_SIZE (N.of_nat (wbytes w))); [lia|]. cbn [rbind].
  destruct (N.ltb_spec MEM_SIZE (d + N.of_nat (wbytes w))); [lia|].
  assert (((d + N.of_nat (wbytes w) <=? m_stack_len m) || (m_hp m <=? d)) = true) as ->.
  { apply orb_true_iff. destruct Hacc; [left|right]; apply N.leb_le; assumption. }
  cbn [rbind fst]. rewrite Hb. f_equal. apply be_decode_encode. rewrite <- wmod_bytes. exact Hv.
Qed.

(* ---- wide arithmetic against the Z specification *)
Inductive wres := WReg (v : N) | WMem (v o e : N) | WPanic (r : reason).
Definition to_wspec (x : wres) : wide_outcome :=
  match x with
  | WReg v => W_reg (zo v)
  | WMem v o e => W_mem (zo v) (zo o) (zo e)
  | WPanic r => W_panic r
  end.

Definition wflag_pure (wr : bool) (p : N * bool) : wres :=
  if snd p && negb wr then WPanic ArithmeticOverflow else WMem (fst p) (b2n (snd p)) 0.
Definition werr_pure (u : bool) (r : option N) : wres :=
  match r with Some v => WMem v 0 0 | None => if u then WMem 0 0 1 else WPanic ArithmeticError end.

Lemma wflag_exact wr M x : 0 < M -> to_wspec (wflag_pure wr (x mod M, M <=? x)) = wflagged wr (zo M) (zo x).
Proof.
  intros HM. unfold wflag_pure, wflagged. cbn [fst snd].
  assert ((0 <=? zo x)%Z = true) as -> by (apply Z.leb_le, N2Z.is_nonneg). cbn [andb].
  rewrite zo_ltb. destruct (N.leb_spec M x) as [H|H].
  - assert ((x <? M) = false) as -> by (apply N.ltb_ge; exact H). destruct wr; cbn [negb andb to_wspec b2n]; [|reflexivity].
    unfold zo. rewrite N2Z.inj_mod. reflexivity.
  - assert ((x <? M) = true) as -> by (apply N.ltb_lt; exact H). cbn [andb to_wspec b2n]. rewrite N.mod_small by exact H. reflexivity.
Qed.

Lemma wflag_sub wr M l r : 0 < M -> l < M -> r < M ->
  to_wspec (wflag_pure wr (wrapping_sub M l r, l <? r)) = wflagged wr (zo M) (zo l - zo r).
Proof.
  intros HM Hl Hr. unfold wflag_pure, wflagged. cbn [fst snd].
  destruct (N.ltb_spec l r) as [Hlt|Hge].
  - assert ((0 <=? zo l - zo r)%Z = false) as -> by (apply Z.leb_gt; unfold zo; lia). cbn [andb].
    destruct wr; cbn [negb andb to_wspec b2n]; [|reflexivity].
    rewrite wrapping_sub_lt by assumption. f_equal.
    apply Z.mod_unique with (-1)%Z; [left; unfold zo; lia|].
    unfold zo. rewrite N2Z.inj_sub by lia. rewrite N2Z.inj_sub by lia. lia.
  - rewrite wrapping_sub_ge by assumption.
    assert ((0 <=? zo l - zo r)%Z = true) as -> by (apply Z.leb_le; unfold zo; lia).
    assert ((zo l - zo r <? zo M)%Z = true) as -> by (apply Z.ltb_lt; unfold zo; lia).
    cbn [andb to_wspec b2n]. unfold zo. rewrite N2Z.inj_sub by exact Hge. reflexivity.
Qed.

Definition wide_mathop_code (op : wide_mathop) : N :=
  match op with WM_ADD => 0 | WM_SUB => 1 | WM_NOT => 2 | WM_OR => 3 | WM_XOR => 4 | WM_AND => 5 | WM_SHL => 6 | WM_SHR => 7 end.
Definition compare_mode_code (m : compare_mode) : N :=
  match m with CM_EQ => 0 | CM_NE => 1 | CM_LT => 2 | CM_GT => 3 | CM_LTE => 4 | CM_GTE => 5 | CM_LZC => 6 end.

Lemma shl_wide bits l r : zo (if r <? U32 then shl_or_zero bits l r else 0) = ((zo l * 2 ^ zo r) mod 2 ^ zo bits)%Z \/ U32 <= bits.
Proof.
  destruct (N.le_gt_cases U32 bits) as [Hb|Hb]; [right; exact Hb|left].
  unfold zo. change 2%Z with (Z.of_N 2). rewrite <- !N2Z.inj_pow, <- N2Z.inj_mul, <- N2Z.inj_mod. f_equal.
  assert (Hbig : bits <= r -> (l * 2 ^ r) mod 2 ^ bits = 0).
  { intros Hc. replace r with (bits + (r - bits)) by lia. rewrite N.pow_add_r.
    replace (l * (2 ^ bits * 2 ^ (r - bits))) with ((l * 2 ^ (r - bits)) * 2 ^ bits) by lia.
    apply N.mod_mul. apply N.pow_nonzero. discriminate. }
  unfold shl_or_zero. destruct (N.ltb_spec r U32) as [H32|H32].
  - destruct (N.ltb_spec r bits); [reflexivity|]. symmetry. apply Hbig. assumption.
  - symmetry. apply Hbig. lia.
Qed.
Lemma shr_wide bits l r : l < 2 ^ bits -> bits < U32 ->
  zo (if r <? U32 then shr_or_zero bits l r else 0) = (zo l / 2 ^ zo r)%Z.
Proof.
  intros Hl Hb. unfold zo. change 2%Z with (Z.of_N 2). rewrite <- N2Z.inj_pow, <- N2Z.inj_div. f_equal.
  assert (Hbig : bits <= r -> l / 2 ^ r = 0).
  { intros Hc. apply N.div_small. apply N.lt_le_trans with (2 ^ bits); [exact Hl|]. apply N.pow_le_mono_r; lia. }
  unfold shr_or_zero. destruct (N.ltb_spec r U32) as [H32|H32].
  - destruct (N.ltb_spec r bits); [reflexivity|]. symmetry. apply Hbig. assumption.
  - symmetry. apply Hbig. lia.
Qed.

Lemma wbits_small w : wbits w < U32. Proof. destruct w; reflexivity. Qed.

(* WDOP / WQOP *)
Theorem wide_op_ok wr w op l r : l < wmod w -> r < wmod w ->
  to_wspec (wflag_pure wr (op_overflowing w l r op)) =
  wide_op_spec wr (zo (wbits w)) (zo (wide_mathop_code op)) (zo l) (zo r).
Proof.
  intros Hl Hr. pose proof (wmod_pos w) as HM. unfold wide_op_spec. rewrite <- zo_wmod.
  destruct op; cbn [op_overflowing wide_mathop_code].
  - change (zo 0 =? 0)%Z with true. cbv iota. unfold wrapping_add.
    rewrite wflag_exact by exact HM. unfold zo. rewrite N2Z.inj_add. reflexivity.
  - change (zo 1 =? 0)%Z with false. change (zo 1 =? 1)%Z with true. cbv iota. apply wflag_sub; assumption.
  - change (zo 2 =? 0)%Z with false. change (zo 2 =? 1)%Z with false. change (zo 2 =? 2)%Z with true. cbv iota.
    unfold wflag_pure. cbn [fst snd andb to_wspec b2n]. f_equal. unfold zo. rewrite !N2Z.inj_sub by lia. reflexivity.
  - change (zo 3 =? 0)%Z with false. change (zo 3 =? 1)%Z with false. change (zo 3 =? 2)%Z with false.
    change (zo 3 =? 3)%Z with true. cbv iota. unfold wflag_pure. cbn [fst snd andb to_wspec b2n]. rewrite zo_lor. reflexivity.
  - change (zo 4 =? 0)%Z with false. change (zo 4 =? 1)%Z with false. change (zo 4 =? 2)%Z with false.
    change (zo 4 =? 3)%Z with false. change (zo 4 =? 4)%Z with true. cbv iota.
    unfold wflag_pure. cbn [fst snd andb to_wspec b2n]. rewrite zo_lxor. reflexivity.
  - change (zo 5 =? 0)%Z with false. change (zo 5 =? 1)%Z with false. change (zo 5 =? 2)%Z with false.
    change (zo 5 =? 3)%Z with false. change (zo 5 =? 4)%Z with false. change (zo 5 =? 5)%Z with true. cbv iota.
    unfold wflag_pure. cbn [fst snd andb to_wspec b2n]. rewrite zo_land. reflexivity.
  - change (zo 6 =? 0)%Z with false. change (zo 6 =? 1)%Z with false. change (zo 6 =? 2)%Z with false.
    change (zo 6 =? 3)%Z with false. change (zo 6 =? 4)%Z with false. change (zo 6 =? 5)%Z with false.
    change (zo 6 =? 6)%Z with true. cbv iota.
    destruct (shl_wide (wbits w) l r) as [E|E]; [|pose proof (wbits_small w); lia].
    rewrite zo_wmod, <- E. destruct (r <? U32); reflexivity.
  - change (zo 7 =? 0)%Z with false. change (zo 7 =? 1)%Z with false. change (zo 7 =? 2)%Z with false.
    change (zo 7 =? 3)%Z with false. change (zo 7 =? 4)%Z with false. change (zo 7 =? 5)%Z with false.
    change (zo 7 =? 6)%Z with false. cbv iota.
    rewrite <- (shr_wide (wbits w) l r) by (try apply wbits_small; rewrite <- wmod_pow; exact Hl).
    destruct (r <? U32); reflexivity.
Qed.

(* WDML / WQML *)
Theorem wide_mul_ok wr w l r :
  to_wspec (wflag_pure wr (wrapping_mul (wmod w) l r, wmod w <=? l * r)) = wide_mul_spec wr (zo (wbits w)) (zo l) (zo r).
Proof.
  unfold wide_mul_spec, wrapping_mul. rewrite <- zo_wmod, wflag_exact by apply wmod_pos.
  unfold zo. rewrite N2Z.inj_mul. reflexivity.
Qed.

(* WDDV / WQDV *)
Theorem wide_div_ok u l r :
  to_wspec (werr_pure u (if r =? 0 then None else Some (l / r))) = wide_div_spec u (zo l) (zo r).
Proof.
  unfold wide_div_spec, wundefined, werr_pure. rewrite <- zo_0, zo_eqb.
  destruct (r =? 0); [destruct u; reflexivity|]. cbn [to_wspec]. unfold zo. rewrite N2Z.inj_div. reflexivity.
Qed.

(* WDAM / WQAM, WDMM / WQMM *)
Theorem wide_addmod_ok u w l r m : m < wmod w ->
  to_wspec (werr_pure u (if m =? 0 then None else Some (((l + r) mod m) mod wmod w))) = wide_addmod_spec u (zo l) (zo r) (zo m).
Proof.
  intros Hm. unfold wide_addmod_spec, wundefined, werr_pure. rewrite <- zo_0, zo_eqb.
  destruct (N.eqb_spec m 0); [destruct u; reflexivity|]. cbn [to_wspec].
  rewrite N.mod_small by (apply N.lt_trans with m; [apply N.mod_lt; assumption|exact Hm]).
  unfold zo. rewrite N2Z.inj_mod, N2Z.inj_add. reflexivity.
Qed.
Theorem wide_mulmod_ok u w l r m : m < wmod w ->
  to_wspec (werr_pure u (if m =? 0 then None else Some (((l * r) mod m) mod wmod w))) = wide_mulmod_spec u (zo l) (zo r) (zo m).
Proof.
  intros Hm. unfold wide_mulmod_spec, wundefined, werr_pure. rewrite <- zo_0, zo_eqb.
  destruct (N.eqb_spec m 0); [destruct u; reflexivity|]. cbn [to_wspec].
  rewrite N.mod_small by (apply N.lt_trans with m; [apply N.mod_lt; assumption|exact Hm]).
  unfold zo. rewrite N2Z.inj_mod, N2Z.inj_mul. reflexivity.
Qed.

(* WDMD / WQMD *)
Theorem wide_muldiv_ok wr w l r d :
  let result := if d =? 0 then l * r / wmod w else l * r / d in
  to_wspec (wflag_pure wr (result mod wmod w, negb (result / wmod w =? 0))) =
  wide_muldiv_spec wr (zo (wbits w)) (zo l) (zo r) (zo d).
Proof.
  intros result. pose proof (wmod_pos w) as HM. unfold wide_muldiv_spec. rewrite <- zo_wmod.
  assert (Hr : zo result = (zo l * zo r / (if (zo d =? 0)%Z then zo (wmod w) else zo d))%Z).
  { unfold result. rewrite <- zo_0, zo_eqb. destruct (d =? 0); unfold zo; rewrite N2Z.inj_div, N2Z.inj_mul; reflexivity. }
  rewrite <- Hr. rewrite <- wflag_exact by exact HM. f_equal. f_equal.
  destruct (N.leb_spec (wmod w) result) as [H|H].
  - assert (1 <= result / wmod w) by (apply N.div_le_lower_bound; lia).
    assert ((result / wmod w =? 0) = false) as -> by (apply N.eqb_neq; lia). reflexivity.
  - rewrite N.div_small by exact H. reflexivity.
Qed.

(* WDCM / WQCM *)
Lemma zo_log2 x : Z.log2 (zo x) = zo (N.log2 x).
Proof. destruct x as [|[p|p|]]; reflexivity. Qed.

Ltac zsel := repeat match goal with
  | |- context [(zo 0 =? ?b)%Z] => let v := eval vm_compute in (zo 0 =? b)%Z in change (zo 0 =? b)%Z with v
  | |- context [(zo (N.pos ?p) =? ?b)%Z] =>
      let v := eval vm_compute in (zo (N.pos p) =? b)%Z in change (zo (N.pos p) =? b)%Z with v
  end.

Theorem wide_cmp_ok w mode l r : l < wmod w ->
  zo (cmp_wide w l r mode) = wide_cmp_spec (zo (wbits w)) (zo (compare_mode_code mode)) (zo l) (zo r).
Proof.
  intros Hl. unfold wide_cmp_spec.
  destruct mode; cbn [cmp_wide compare_mode_code]; zsel;
    cbv iota; rewrite ?zo_b2n, ?zo_eqb, ?zo_ltb, ?zo_leb; try reflexivity.
  (* LZC *)
  unfold leading_zeros, leading_zeros_spec. rewrite <- zo_0, zo_eqb.
  destruct (N.eqb_spec l 0) as [->|Hnz]; [cbn [N.size]; unfold zo; rewrite N.sub_0_r; reflexivity|].
  rewrite N.size_log2 by exact Hnz. rewrite zo_log2.
  assert (N.log2 l < wbits w) by (apply N.log2_lt_pow2; [lia|rewrite <- wmod_pow; exact Hl]).
  unfold zo. rewrite N2Z.inj_sub by lia. rewrite N2Z.inj_succ. lia.
Qed.

(* ================================================================== Part 5: C22, instruction level *)

(* ---- the four immediate decoders agree with the specification on all 64 immediates *)
Definition eqb_bool (a b : bool) : bool := if a then b else negb b.
Definition imm_check (imm : N) : bool :=
  (match compare_from_imm imm, cmp_imm_spec (zo imm) with
   | Some (mode, ind), (true, _, ind') => (compare_mode_code mode =? imm mod 8) && eqb_bool ind ind'
   | None, (false, _, _) => true
   | _, _ => false end) &&
  (match math_from_imm imm, op_imm_spec (zo imm) with
   | Some (op, ind), (true, _, ind') => (wide_mathop_code op =? imm mod 32) && eqb_bool ind ind'
   | None, (false, _, _) => true
   | _, _ => false end) &&
  (match mul_from_imm imm, mul_imm_spec (zo imm) with
   | Some (il, ir), (true, il', ir') => eqb_bool il il' && eqb_bool ir ir'
   | None, (false, _, _) => true
   | _, _ => false end) &&
  (match div_from_imm imm, div_imm_spec (zo imm) with
   | Some ir, (true, _, ir') => eqb_bool ir ir'
   | None, (false, _, _) => true
   | _, _ => false end).

Lemma imm_check_sweep : forallb imm_check (map N.of_nat (seq 0 64)) = true.
Proof. vm_compute. reflexivity. Qed.

Theorem wide_imm_ok imm : imm < 64 -> imm_check imm = true.
Proof.
  intros H. pose proof imm_check_sweep as Hs. rewrite forallb_forall in Hs. apply Hs.
  apply in_map_iff. exists (N.to_nat imm). split; [apply N2Nat.id|]. apply in_seq. lia.
Qed.

(* ---- the shared tail: write the result, then pc *)
Definition wide_mem_meets (w : width) (s1 : state) (dest : N) (x : wres) (out : outcome) : Prop :=
  match x with
  | WPanic r => out = Panic r s1
  | WReg _ => False
  | WMem v o e =>
    match mem_write (ownership_registers s1) (memo s1) dest (be_encode (wbytes w) v) with
    | RErr r => exists s'', out = Panic r s'' /\ memo s'' = memo s1 /\
                  (forall x, x <> REG_OF -> x <> REG_ERR -> regs s'' x = regs s1 x)
    | ROk m' => exists s', out = Done s' /\ memo s' = m' /\ regs s' REG_OF = o /\ regs s' REG_ERR = e /\
                  regs s' REG_PC = next_pc (regs s1 REG_PC) /\
                  (forall x, x <> REG_OF -> x <> REG_ERR -> x <> REG_PC -> regs s' x = regs s1 x) /\
                  prev_hp s' = prev_hp s1
    end
  end.

Definition finish_oe (w : width) (s : state) (d : N) (x : wres) : outcome :=
  match x with
  | WPanic r => Panic r s
  | WMem v o e => write_wide_and_inc w (ownership_registers s) d v (set_reg (set_reg s REG_OF o) REG_ERR e)
  | WReg _ => HostPanic
  end.
Definition finish_eo (w : width) (s : state) (d : N) (x : wres) : outcome :=
  match x with
  | WPanic r => Panic r s
  | WMem v o e => write_wide_and_inc w (ownership_registers s) d v (set_reg (set_reg s REG_ERR e) REG_OF o)
  | WReg _ => HostPanic
  end.

Lemma tail_meets w s d v o e t :
  memo t = memo s -> prev_hp t = prev_hp s -> regs t REG_OF = o -> regs t REG_ERR = e ->
  (forall x, x <> REG_OF -> x <> REG_ERR -> regs t x = regs s x) ->
  wide_mem_meets w s d (WMem v o e) (write_wide_and_inc w (ownership_registers s) d v t).
Proof.
  intros Hm Hp Ho He Hr. unfold wide_mem_meets, write_wide_and_inc. rewrite Hm.
  destruct (mem_write _ _ _ _) as [m'|r].
  - eexists. split; [reflexivity|]. rewrite !inc_pc_regs. cbn [memo set_mem regs prev_hp inc_pc set_reg].
    change (REG_OF =? REG_PC) with false. change (REG_ERR =? REG_PC) with false. change (REG_PC =? REG_PC) with true. cbv iota.
    split; [reflexivity|]. split; [exact Ho|]. split; [exact He|]. split.
    { rewrite Hr; [reflexivity| |]; unfold REG_PC, REG_OF, REG_ERR; lia. }
    split; [|exact Hp]. intros x H1 H2 H3. unfold rset. destruct (N.eqb_spec x REG_PC); [contradiction|]. now apply Hr.
  - exists t. split; [reflexivity|]. split; [exact Hm|exact Hr].
Qed.

Lemma finish_oe_meets w s d x : (forall v, x <> WReg v) -> wide_mem_meets w s d x (finish_oe w s d x).
Proof.
  intros Hx. destruct x as [v|v o e|r]; [exfalso; now apply (Hx v)| |reflexivity].
  cbn [finish_oe]. apply tail_meets; try reflexivity.
  intros x H1 H2. cbn [regs set_reg]. unfold rset.
  destruct (N.eqb_spec x REG_ERR); [contradiction|]. destruct (N.eqb_spec x REG_OF); [contradiction|reflexivity].
Qed.
Lemma finish_eo_meets w s d x : (forall v, x <> WReg v) -> wide_mem_meets w s d x (finish_eo w s d x).
Proof.
  intros Hx. destruct x as [v|v o e|r]; [exfalso; now apply (Hx v)| |reflexivity].
  cbn [finish_eo]. apply tail_meets; try reflexivity.
  intros x H1 H2. cbn [regs set_reg]. unfold rset.
  destruct (N.eqb_spec x REG_OF); [contradiction|]. destruct (N.eqb_spec x REG_ERR); [contradiction|reflexivity].
Qed.

Lemma wflag_not_reg wr p v : wflag_pure wr p <> WReg v.
Proof. unfold wflag_pure. destruct (snd p && negb wr); discriminate. Qed.
Lemma werr_not_reg u r v : werr_pure u r <> WReg v.
Proof. unfold werr_pure. destruct r; [discriminate|]. destruct u; discriminate. Qed.

Lemma wide_err_tail_eo w s d r :
  wide_err_tail w (ownership_registers s) d r s = finish_eo w s d (werr_pure (is_unsafe_math s) r).
Proof. unfold wide_err_tail, werr_pure. destruct r; [reflexivity|]. destruct (is_unsafe_math s); reflexivity. Qed.

(* ---- each helper, once its operands are loaded, is `finish` of its pure result *)
Lemma wide_op_eq w d b c op ind s l r :
  read_wide w (memo s) b = ROk l -> read_arg w ind (memo s) c = ROk r ->
  alu_wideint_op w d b c (op, ind) s = finish_oe w s d (wflag_pure (is_wrapping s) (op_overflowing w l r op)).
Proof.
  intros Hl Hr. unfold alu_wideint_op. cbn [fst snd]. rewrite Hl, Hr. unfold wflag_pure.
  destruct (op_overflowing w l r op) as [wr ov]. cbn [fst snd]. destruct (ov && negb (is_wrapping s)); reflexivity.
Qed.
Lemma wide_mul_eq w d b c il ir s l r :
  read_arg w il (memo s) b = ROk l -> read_arg w ir (memo s) c = ROk r ->
  alu_wideint_mul w d b c (il, ir) s =
  finish_oe w s d (wflag_pure (is_wrapping s) (wrapping_mul (wmod w) l r, wmod w <=? l * r)).
Proof.
  intros Hl Hr. unfold alu_wideint_mul. cbn [fst snd]. rewrite Hl, Hr. unfold wflag_pure. cbn [fst snd].
  destruct ((wmod w <=? l * r) && negb (is_wrapping s)); reflexivity.
Qed.
Lemma wide_div_eq w d b c ir s l r :
  read_wide w (memo s) b = ROk l -> read_arg w ir (memo s) c = ROk r ->
  alu_wideint_div w d b c ir s = finish_eo w s d (werr_pure (is_unsafe_math s) (if r =? 0 then None else Some (l / r))).
Proof. intros Hl Hr. unfold alu_wideint_div. rewrite Hl, Hr. apply wide_err_tail_eo. Qed.
Lemma read3_ok w m b c d l r t :
  read_wide w m b = ROk l -> read_wide w m c = ROk r -> read_wide w m d = ROk t -> read3 w m b c d = ROk (l, r, t).
Proof. intros H1 H2 H3. unfold read3. rewrite H1, H2, H3. reflexivity. Qed.
Lemma wide_addmod_eq w d b c dd s l r t : read3 w (memo s) b c dd = ROk (l, r, t) ->
  alu_wideint_addmod w d b c dd s =
  finish_eo w s d (werr_pure (is_unsafe_math s) (if t =? 0 then None else Some (((l + r) mod t) mod wmod w))).
Proof. intros H. unfold alu_wideint_addmod. rewrite H. apply wide_err_tail_eo. Qed.
Lemma wide_mulmod_eq w d b c dd s l r t : read3 w (memo s) b c dd = ROk (l, r, t) ->
  alu_wideint_mulmod w d b c dd s =
  finish_eo w s d (werr_pure (is_unsafe_math s) (if t =? 0 then None else Some (((l * r) mod t) mod wmod w))).
Proof. intros H. unfold alu_wideint_mulmod. rewrite H. apply wide_err_tail_eo. Qed.
Lemma wide_muldiv_eq w d b c dd s l r t : read3 w (memo s) b c dd = ROk (l, r, t) ->
  alu_wideint_muldiv w d b c dd s =
  finish_oe w s d (let result := if t =? 0 then l * r / wmod w else l * r / t in
                   wflag_pure (is_wrapping s) (result mod wmod w, negb (result / wmod w =? 0))).
Proof.
  intros H. unfold alu_wideint_muldiv. rewrite H. cbv zeta. unfold wflag_pure. cbn [fst snd].
  destruct (negb (_ =? 0) && negb (is_wrapping s)); reflexivity.
Qed.

(* ---- results stay below 2^width (so be_encode does not truncate) *)
Definition wres_bounded (w : width) (x : wres) : Prop :=
  match x with WMem v _ _ => v < wmod w | _ => True end.

Lemma lor_lt_pow2 a b k : a < 2 ^ k -> b < 2 ^ k -> N.lor a b < 2 ^ k.
Proof.
  intros Ha Hb. destruct (N.eq_dec (N.lor a b) 0) as [->|Hnz]; [apply N.neq_0_lt_0, N.pow_nonzero; discriminate|].
  apply N.log2_lt_pow2; [lia|]. rewrite N.log2_lor.
  destruct (N.eq_dec a 0) as [->|Ha0], (N.eq_dec b 0) as [->|Hb0].
  - rewrite N.lor_0_l in Hnz. contradiction.
  - rewrite N.max_r by apply N.le_0_l. apply N.log2_lt_pow2; lia.
  - rewrite N.max_l by apply N.le_0_l. apply N.log2_lt_pow2; lia.
  - apply N.max_lub_lt; apply N.log2_lt_pow2; lia.
Qed.
Lemma land_lt_pow2 a b k : a < 2 ^ k -> N.land a b < 2 ^ k.
Proof.
  intros Ha. destruct (N.eq_dec (N.land a b) 0) as [->|Hnz]; [apply N.neq_0_lt_0, N.pow_nonzero; discriminate|].
  apply N.log2_lt_pow2; [lia|]. apply N.le_lt_trans with (N.min (N.log2 a) (N.log2 b)); [apply N.log2_land|].
  apply N.le_lt_trans with (N.log2 a); [apply N.le_min_l|].
  destruct (N.eq_dec a 0) as [->|Ha0]; [rewrite N.land_0_l in Hnz; contradiction|]. apply N.log2_lt_pow2; lia.
Qed.

Lemma wide_op_bounded wr w op l r : l < wmod w -> r < wmod w ->
  wres_bounded w (wflag_pure wr (op_overflowing w l r op)).
Proof.
  intros Hl Hr. pose proof (wmod_pos w) as HM. unfold wflag_pure.
  destruct (snd (op_overflowing w l r op) && negb wr); [exact I|]. cbn [wres_bounded].
  destruct op; cbn [op_overflowing fst].
  - apply N.mod_lt. lia.
  - apply N.mod_lt. lia.
  - lia.
  - rewrite wmod_pow in *. apply lor_lt_pow2; assumption.
  - rewrite wmod_pow in *. apply lxor_lt_pow2; assumption.
  - rewrite wmod_pow in *. apply land_lt_pow2; assumption.
  - destruct (r <? U32); cbn [fst]; [|exact HM]. unfold shl_or_zero. destruct (r <? wbits w); [|exact HM].
    rewrite wmod_pow. apply N.mod_lt. apply N.pow_nonzero. discriminate.
  - destruct (r <? U32); cbn [fst]; [|exact HM]. unfold shr_or_zero. destruct (r <? wbits w); [|exact HM].
    assert (Hp : 2 ^ r <> 0) by (apply N.pow_nonzero; discriminate).
    apply N.le_lt_trans with l; [|exact Hl]. apply N.div_le_upper_bound; [exact Hp|]. nia.
Qed.
Lemma wflag_mod_bounded wr w x b : wres_bounded w (wflag_pure wr (x mod wmod w, b)).
Proof. unfold wflag_pure. cbn [fst snd]. destruct (b && negb wr); [exact I|]. cbn [wres_bounded].
  apply N.mod_lt. pose proof (wmod_pos w). lia. Qed.
Lemma werr_bounded u w r : (forall v, r = Some v -> v < wmod w) -> wres_bounded w (werr_pure u r).
Proof. intros H. unfold werr_pure. destruct r as [v|]; [apply H; reflexivity|]. destruct u; [apply wmod_pos|exact I]. Qed.

(* ---- from the pure result to the Z specification *)
Definition wide_meets_spec (w : width) (s1 : state) (dest : N) (ws : wide_outcome) (out : outcome) : Prop :=
  match ws with
  | W_panic r => out = Panic r s1
  | W_reg _ => False
  | W_mem v o e =>
    exists vN, zo vN = v /\ vN < wmod w /\
    match mem_write (ownership_registers s1) (memo s1) dest (be_encode (wbytes w) vN) with
    | RErr r => exists s'', out = Panic r s'' /\ memo s'' = memo s1 /\
                  (forall x, x <> REG_OF -> x <> REG_ERR -> regs s'' x = regs s1 x)
    | ROk m' => exists s', out = Done s' /\ memo s' = m' /\ zo (regs s' REG_OF) = o /\ zo (regs s' REG_ERR) = e /\
                  regs s' REG_PC = next_pc (regs s1 REG_PC) /\
                  (forall x, x <> REG_OF -> x <> REG_ERR -> x <> REG_PC -> regs s' x = regs s1 x) /\
                  prev_hp s' = prev_hp s1
    end
  end.

Lemma meets_to_spec w s d x out : wide_mem_meets w s d x out -> wres_bounded w x ->
  wide_meets_spec w s d (to_wspec x) out.
Proof.
  destruct x as [v|v o e|r]; cbn [wide_mem_meets to_wspec wide_meets_spec wres_bounded]; auto.
  intros H Hb. exists v. split; [reflexivity|]. split; [exact Hb|].
  destruct (mem_write _ _ _ _); [|exact H].
  destruct H as (s' & E & P1 & P2 & P3 & P4). exists s'. rewrite P2, P3. repeat split; try assumption; apply P4.
Qed.

(* memory bytes are bytes *)
Definition wf_mem (m : mem) : Prop := forall a, m_byte m a < 256.

Lemma read_wide_bound w m a v : wf_mem m -> read_wide w m a = ROk v -> v < wmod w.
Proof.
  intros Hwf. unfold read_wide, mem_read. destruct (mem_verify _ _ _) as [r|]; cbn [rbind]; [|discriminate].
  intros H. injection H as <-. unfold be_decode.
  eapply N.lt_le_trans; [apply be_decode_bound|].
  - intros b Hb. unfold bytes_at in Hb. apply in_map_iff in Hb as (k & <- & _). apply Hwf.
  - rewrite bytes_at_length, wmod_bytes. lia.
Qed.
Lemma read_arg_bound w ind m c v : wf_mem m -> c < U64 -> read_arg w ind m c = ROk v -> v < wmod w.
Proof.
  intros Hwf Hc. unfold read_arg. destruct ind; [apply read_wide_bound; exact Hwf|].
  intros H. injection H as <-. apply N.lt_trans with U64; [exact Hc|]. destruct w; reflexivity.
Qed.

(* ---- per family: instruction = specification *)
Section Families.
  Variables (w : width) (s : state) (d b c dd : N).
  Hypothesis Hwf : wf_mem (memo s).

  Theorem wdop_correct op ind l r : c < U64 ->
    read_wide w (memo s) b = ROk l -> read_arg w ind (memo s) c = ROk r ->
    wide_meets_spec w s d (wide_op_spec (is_wrapping s) (zo (wbits w)) (zo (wide_mathop_code op)) (zo l) (zo r))
                    (alu_wideint_op w d b c (op, ind) s).
  Proof.
    intros Hc Hl Hr. pose proof (read_wide_bound _ _ _ _ Hwf Hl). pose proof (read_arg_bound _ _ _ _ _ Hwf Hc Hr).
    rewrite (wide_op_eq _ _ _ _ _ _ _ _ _ Hl Hr). rewrite <- wide_op_ok by assumption.
    apply meets_to_spec; [apply finish_oe_meets; intros v; apply wflag_not_reg|apply wide_op_bounded; assumption].
  Qed.

  Theorem wdml_correct il ir l r :
    read_arg w il (memo s) b = ROk l -> read_arg w ir (memo s) c = ROk r ->
    wide_meets_spec w s d (wide_mul_spec (is_wrapping s) (zo (wbits w)) (zo l) (zo r))
                    (alu_wideint_mul w d b c (il, ir) s).
  Proof.
    intros Hl Hr. rewrite (wide_mul_eq _ _ _ _ _ _ _ _ _ Hl Hr). rewrite <- wide_mul_ok.
    apply meets_to_spec; [apply finish_oe_meets; intros v; apply wflag_not_reg|apply wflag_mod_bounded].
  Qed.

  Theorem wddv_correct ir l r : read_wide w (memo s) b = ROk l -> read_arg w ir (memo s) c = ROk r ->
    wide_meets_spec w s d (wide_div_spec (is_unsafe_math s) (zo l) (zo r)) (alu_wideint_div w d b c ir s).
  Proof.
    intros Hl Hr. pose proof (read_wide_bound _ _ _ _ Hwf Hl) as Hlb.
    rewrite (wide_div_eq _ _ _ _ _ _ _ _ Hl Hr). rewrite <- wide_div_ok.
    apply meets_to_spec; [apply finish_eo_meets; intros v; apply werr_not_reg|].
    apply werr_bounded. intros v Hv. destruct (N.eqb_spec r 0); [discriminate|]. injection Hv as <-.
    apply N.le_lt_trans with l; [|exact Hlb]. apply N.div_le_upper_bound; [assumption|]. nia.
  Qed.

  Theorem wdam_correct l r t : read3 w (memo s) b c dd = ROk (l, r, t) -> t < wmod w ->
    wide_meets_spec w s d (wide_addmod_spec (is_unsafe_math s) (zo l) (zo r) (zo t)) (alu_wideint_addmod w d b c dd s).
  Proof.
    intros H Ht. rewrite (wide_addmod_eq _ _ _ _ _ _ _ _ _ H). rewrite <- (wide_addmod_ok _ w) by exact Ht.
    apply meets_to_spec; [apply finish_eo_meets; intros v; apply werr_not_reg|].
    apply werr_bounded. intros v Hv. destruct (t =? 0); [discriminate|]. injection Hv as <-.
    apply N.mod_lt. pose proof (wmod_pos w). lia.
  Qed.

  Theorem wdmm_correct l r t : read3 w (memo s) b c dd = ROk (l, r, t) -> t < wmod w ->
    wide_meets_spec w s d (wide_mulmod_spec (is_unsafe_math s) (zo l) (zo r) (zo t)) (alu_wideint_mulmod w d b c dd s).
  Proof.
    intros H Ht. rewrite (wide_mulmod_eq _ _ _ _ _ _ _ _ _ H). rewrite <- (wide_mulmod_ok _ w) by exact Ht.
    apply meets_to_spec; [apply finish_eo_meets; intros v; apply werr_not_reg|].
    apply werr_bounded. intros v Hv. destruct (t =? 0); [discriminate|]. injection Hv as <-.
    apply N.mod_lt. pose proof (wmod_pos w). lia.
  Qed.

  Theorem wdmd_correct l r t : read3 w (memo s) b c dd = ROk (l, r, t) ->
    wide_meets_spec w s d (wide_muldiv_spec (is_wrapping s) (zo (wbits w)) (zo l) (zo r) (zo t)) (alu_wideint_muldiv w d b c dd s).
  Proof.
    intros H. rewrite (wide_muldiv_eq _ _ _ _ _ _ _ _ _ H). rewrite <- wide_muldiv_ok. cbv zeta.
    apply meets_to_spec; [apply finish_oe_meets; intros v; apply wflag_not_reg|apply wflag_mod_bounded].
  Qed.

  (* compares write a register *)
  Theorem wdcm_correct ra mode ind l r : 16 <= ra ->
    read_wide w (memo s) b = ROk l -> read_arg w ind (memo s) c = ROk r ->
    exists s', alu_wideint_cmp w ra b c (mode, ind) s = Done s' /\
      zo (regs s' ra) = wide_cmp_spec (zo (wbits w)) (zo (compare_mode_code mode)) (zo l) (zo r) /\
      regs s' REG_OF = 0 /\ regs s' REG_ERR = 0 /\ regs s' REG_PC = next_pc (regs s REG_PC) /\
      (forall x, x <> ra -> x <> REG_OF -> x <> REG_ERR -> x <> REG_PC -> regs s' x = regs s x) /\
      memo s' = memo s.
  Proof.
    intros Hra Hl Hr. pose proof (read_wide_bound _ _ _ _ Hwf Hl) as Hlb.
    unfold alu_wideint_cmp. rewrite write_reg_key_writable by exact Hra. cbn [fst snd]. rewrite Hl, Hr.
    eexists. split; [reflexivity|].
    assert (Hpc : (REG_PC =? ra) = false) by (apply N.eqb_neq; unfold REG_PC; lia).
    assert (Hof : (REG_OF =? ra) = false) by (apply N.eqb_neq; unfold REG_OF; lia).
    assert (Her : (REG_ERR =? ra) = false) by (apply N.eqb_neq; unfold REG_ERR; lia).
    assert (Hra1 : (ra =? REG_PC) = false) by (apply N.eqb_neq; unfold REG_PC; lia).
    assert (Hra2 : (ra =? REG_OF) = false) by (apply N.eqb_neq; unfold REG_OF; lia).
    assert (Hra3 : (ra =? REG_ERR) = false) by (apply N.eqb_neq; unfold REG_ERR; lia).
    rewrite !inc_pc_regs. cbn [regs set_reg memo inc_pc]. unfold rset.
    rewrite Hra1, Hra2, Hra3, Hpc, N.eqb_refl.
    change (REG_OF =? REG_PC) with false. change (REG_ERR =? REG_PC) with false. change (REG_PC =? REG_PC) with true.
    change (REG_OF =? REG_ERR) with false. change (REG_OF =? REG_OF) with true. change (REG_ERR =? REG_ERR) with true.
    change (REG_PC =? REG_ERR) with false. change (REG_PC =? REG_OF) with false. cbv iota.
    split; [apply wide_cmp_ok; exact Hlb|]. repeat split.
    intros x H1 H2 H3 H4.
    destruct (N.eqb_spec x REG_PC); [contradiction|]. destruct (N.eqb_spec x REG_ERR); [contradiction|].
    destruct (N.eqb_spec x REG_OF); [contradiction|]. destruct (N.eqb_spec x ra); [contradiction|reflexivity].
  Qed.
End Families.

(* ---- panic table: a failing operand read is the panic of the instruction *)
Theorem wide_read_panics : forall w s d b c dd (e : reason),
  (read_wide w (memo s) b = RErr e ->
     (forall op ind, alu_wideint_op w d b c (op, ind) s = Panic e s) /\
     (forall ir, alu_wideint_div w d b c ir s = Panic e s) /\
     (forall ir, alu_wideint_mul w d b c (true, ir) s = Panic e s) /\
     alu_wideint_muldiv w d b c dd s = Panic e s /\ alu_wideint_addmod w d b c dd s = Panic e s /\
     alu_wideint_mulmod w d b c dd s = Panic e s /\
     (forall ra mode ind, 16 <= ra -> alu_wideint_cmp w ra b c (mode, ind) s = Panic e s)).
Proof.
  intros w s d b c dd e H. repeat split; intros.
  - unfold alu_wideint_op. rewrite H. reflexivity.
  - unfold alu_wideint_div. rewrite H. reflexivity.
  - unfold alu_wideint_mul, read_arg. cbn [fst]. rewrite H. reflexivity.
  - unfold alu_wideint_muldiv, read3. rewrite H. reflexivity.
  - unfold alu_wideint_addmod, read3. rewrite H. reflexivity.
  - unfold alu_wideint_mulmod, read3. rewrite H. reflexivity.
  - unfold alu_wideint_cmp. rewrite write_reg_key_writable by assumption. rewrite H. reflexivity.
Qed.

(* an undecodable immediate panics with InvalidImmediateValue right after the gas charge *)
Theorem wide_invalid_imm : forall cost guess i s,
  imm_decodes i = false -> cost <= regs s REG_CGAS ->
  exec_alu cost guess i s = Panic InvalidImmediateValue (charged cost s).
Proof.
  intros cost guess i s Hd Hc. unfold exec_alu. rewrite gas_charge_ok by exact Hc. unfold imm_decodes in Hd.
  destruct (alu_table (i_op i)); try discriminate Hd; cbn [exec_kind].
  - destruct (narrow_from_imm (i_imm i)); [discriminate|reflexivity].
  - destruct (compare_from_imm (i_imm i)); [discriminate|reflexivity].
  - destruct (math_from_imm (i_imm i)); [discriminate|reflexivity].
  - destruct (mul_from_imm (i_imm i)); [discriminate|reflexivity].
  - destruct (div_from_imm (i_imm i)); [discriminate|reflexivity].
Qed.

(* ---- C22 at the level of the whole instruction (after the gas charge) *)
Lemma wf_mem_charged cost s : wf_mem (memo s) -> wf_mem (memo (charged cost s)).
Proof. intros H. exact H. Qed.

Theorem c22_exec_correct : forall cost guess i s,
  cost <= regs s REG_CGAS -> wf_regs s -> wf_mem (memo s) ->
  let s1 := charged cost s in
  let R := regs s1 in
  let m := memo s1 in
  let out := exec_alu cost guess i s in
  match alu_table (i_op i) with
  | K_wcmp w => forall mode ind l r,
      compare_from_imm (i_imm i) = Some (mode, ind) -> 16 <= i_ra i ->
      read_wide w m (R (i_rb i)) = ROk l -> read_arg w ind m (R (i_rc i)) = ROk r ->
      exists s', out = Done s' /\
        zo (regs s' (i_ra i)) = wide_cmp_spec (zo (wbits w)) (zo (compare_mode_code mode)) (zo l) (zo r) /\
        regs s' REG_OF = 0 /\ regs s' REG_ERR = 0 /\ regs s' REG_PC = next_pc (R REG_PC) /\
        (forall x, x <> i_ra i -> x <> REG_OF -> x <> REG_ERR -> x <> REG_PC -> regs s' x = R x) /\
        memo s' = m
  | K_wop w => forall op ind l r,
      math_from_imm (i_imm i) = Some (op, ind) ->
      read_wide w m (R (i_rb i)) = ROk l -> read_arg w ind m (R (i_rc i)) = ROk r ->
      wide_meets_spec w s1 (R (i_ra i))
        (wide_op_spec (is_wrapping s) (zo (wbits w)) (zo (wide_mathop_code op)) (zo l) (zo r)) out
  | K_wmul w => forall il ir l r,
      mul_from_imm (i_imm i) = Some (il, ir) ->
      read_arg w il m (R (i_rb i)) = ROk l -> read_arg w ir m (R (i_rc i)) = ROk r ->
      wide_meets_spec w s1 (R (i_ra i)) (wide_mul_spec (is_wrapping s) (zo (wbits w)) (zo l) (zo r)) out
  | K_wdiv w => forall ir l r,
      div_from_imm (i_imm i) = Some ir ->
      read_wide w m (R (i_rb i)) = ROk l -> read_arg w ir m (R (i_rc i)) = ROk r ->
      wide_meets_spec w s1 (R (i_ra i)) (wide_div_spec (is_unsafe_math s) (zo l) (zo r)) out
  | K_wmuldiv w => forall l r t,
      read_wide w m (R (i_rb i)) = ROk l -> read_wide w m (R (i_rc i)) = ROk r -> read_wide w m (R (i_rd i)) = ROk t ->
      wide_meets_spec w s1 (R (i_ra i)) (wide_muldiv_spec (is_wrapping s) (zo (wbits w)) (zo l) (zo r) (zo t)) out
  | K_waddmod w => forall l r t,
      read_wide w m (R (i_rb i)) = ROk l -> read_wide w m (R (i_rc i)) = ROk r -> read_wide w m (R (i_rd i)) = ROk t ->
      wide_meets_spec w s1 (R (i_ra i)) (wide_addmod_spec (is_unsafe_math s) (zo l) (zo r) (zo t)) out
  | K_wmulmod w => forall l r t,
      read_wide w m (R (i_rb i)) = ROk l -> read_wide w m (R (i_rc i)) = ROk r -> read_wide w m (R (i_rd i)) = ROk t ->
      wide_meets_spec w s1 (R (i_ra i)) (wide_mulmod_spec (is_unsafe_math s) (zo l) (zo r) (zo t)) out
  | _ => True
  end.
Proof.
  intros cost guess i s Hc Hwr Hwm s1 R m out.
  assert (Hwm1 : wf_mem (memo s1)) by exact Hwm.
  assert (Hrc : R (i_rc i) < U64) by (apply wf_charged; exact Hwr).
  assert (Eout : out = exec_kind guess i (alu_table (i_op i)) s1).
  { unfold out, exec_alu. rewrite gas_charge_ok by exact Hc. reflexivity. }
  destruct (alu_table (i_op i)) eqn:Hk; try exact I; rewrite Eout; cbn [exec_kind].
  - intros mode ind l r Hd Hra Hl Hr. rewrite Hd. cbn [with_args].
    apply (wdcm_correct w s1 (R (i_rb i)) (R (i_rc i)) Hwm1 (i_ra i) mode ind l r Hra Hl Hr).
  - intros op ind l r Hd Hl Hr. rewrite Hd. cbn [with_args].
    rewrite <- (charged_wrapping cost s). apply wdop_correct; assumption.
  - intros il ir l r Hd Hl Hr. rewrite Hd. cbn [with_args].
    rewrite <- (charged_wrapping cost s). apply wdml_correct; assumption.
  - intros ir l r Hd Hl Hr. rewrite Hd. cbn [with_args].
    rewrite <- (charged_unsafe cost s). apply wddv_correct; assumption.
  - intros l r t Hl Hr Ht. rewrite <- (charged_wrapping cost s). apply wdmd_correct. apply read3_ok; assumption.
  - intros l r t Hl Hr Ht. rewrite <- (charged_unsafe cost s).
    apply wdam_correct; [apply read3_ok; assumption|apply (read_wide_bound _ _ _ _ Hwm1 Ht)].
  - intros l r t Hl Hr Ht. rewrite <- (charged_unsafe cost s).
    apply wdmm_correct; [apply read3_ok; assumption|apply (read_wide_bound _ _ _ _ Hwm1 Ht)].
Qed.

(* satisfiability of the hypotheses: a concrete WDOP (ADD, indirect) on a small memory *)
Definition ex_wstate : state :=
  {| regs := fun r => if r =? REG_ONE then 1 else if r =? REG_SSP then 0 else if r =? REG_SP then 64
                      else if r =? REG_HP then MEM_SIZE else if r =? REG_CGAS then 50 else if r =? REG_GGAS then 60
                      else if r =? REG_FLAG then 2 else if r =? 16 then 0 else if r =? 17 then 16 else if r =? 18 then 32 else 0;
     memo := {| m_stack_len := 64; m_hp := MEM_SIZE; m_byte := fun a => if a <? 48 then 255 else 0 |};
     prev_hp := VM_MAX_RAM |}.
Example ex_wf_mem : wf_mem (memo ex_wstate).
Proof. intros a. cbn. destruct (a <? 48); reflexivity. Qed.
Example ex_wdop_add_wraps :
  match exec_alu 1 0 {| i_op := O_WDOP; i_ra := 16; i_rb := 17; i_rc := 18; i_rd := 0; i_imm := 32 |} ex_wstate with
  | Done s' => read_wide W128 (memo s') 0 = ROk (2 ^ 128 - 2) /\ regs s' REG_OF = 1
  | _ => False end.
Proof. vm_compute. split; reflexivity. Qed.

(* ---- the specification determines the outcome (so "exists o, alu_spec .. o /\ .." pins it down) *)
Lemma floor_log_unique_Z b c r1 r2 : (2 <= c)%Z -> is_floor_log b c r1 -> is_floor_log b c r2 -> r1 = r2.
Proof.
  intros Hc (H0 & H1 & H2) (H3 & H4 & H5).
  destruct (Z.lt_trichotomy r1 r2) as [Hlt|[Heq|Hgt]]; [|exact Heq|]; exfalso.
  - assert ((c ^ (r1 + 1) <= c ^ r2)%Z) by (apply Z.pow_le_mono_r; lia). lia.
  - assert ((c ^ (r2 + 1) <= c ^ r1)%Z) by (apply Z.pow_le_mono_r; lia). lia.
Qed.
Lemma floor_root_unique_Z b c r1 r2 : (1 <= c)%Z -> is_floor_root b c r1 -> is_floor_root b c r2 -> r1 = r2.
Proof.
  intros Hc (H0 & H1 & H2) (H3 & H4 & H5).
  destruct (Z.lt_trichotomy r1 r2) as [Hlt|[Heq|Hgt]]; [|exact Heq|]; exfalso.
  - assert (((r1 + 1) ^ c <= r2 ^ c)%Z) by (apply Z.pow_le_mono_l; lia). lia.
  - assert (((r2 + 1) ^ c <= r1 ^ c)%Z) by (apply Z.pow_le_mono_l; lia). lia.
Qed.

Theorem alu_spec_deterministic : forall u w op b c d imm o1 o2, (0 <= c)%Z ->
  alu_spec u w op b c d imm o1 -> alu_spec u w op b c d imm o2 -> o1 = o2.
Proof.
  intros u w op b c d imm o1 o2 Hc H1 H2.
  destruct op; cbn [alu_spec] in H1, H2; try contradiction; try (rewrite H1, H2; reflexivity).
  - (* MLOG *) destruct ((b =? 0)%Z || (c <=? 1)%Z) eqn:E; [rewrite H1, H2; reflexivity|].
    apply orb_false_iff in E as [_ E]. apply Z.leb_gt in E.
    destruct H1 as (r1 & Hr1 & ->), H2 as (r2 & Hr2 & ->). f_equal. apply (floor_log_unique_Z b c); [lia|assumption|assumption].
  - (* MROO *) destruct (Z.eqb_spec c 0) as [|E]; [rewrite H1, H2; reflexivity|].
    destruct H1 as (r1 & Hr1 & ->), H2 as (r2 & Hr2 & ->). f_equal. apply (floor_root_unique_Z b c); [lia|assumption|assumption].
Qed.
