(* Alu/AluMemTable.v — the memory half of the C22 panic table.
   (1) Bridging lemmas: the flat verify / write / ownership view used by Alu/AluModel.v is, function
       by function, the model of property C24 (Vm/OwnModel.v: verify, mem_write, has_ownership_range;
       itself the flat array of C23), with panic reasons mapped to their PanicReason bytes.
   (2) From the refusal theorems of Vm/OwnProofs.v: the exact reason of a failing operand read and of
       a failing destination write.
   (3) Order: operands are read in the order the handler reads them, the FIRST failing access
       determines the reason, and the destination is checked after $of/$err have been set. *)
From Coq Require Import ZArith Lia Bool List.
From FV Require Import Alu.AluSyntax Gen.AluTable Alu.AluModel Alu.AluSpec Alu.AluProofs.
From FV Require Gen.VmConsts Vm.OwnModel Vm.OwnProofs.
Open Scope N_scope.

(* ------------------------------------------------------------------ (1) bridge to C24/C23 *)
Definition to_amem (m : mem) : OwnModel.amem :=
  {| OwnModel.m_data := m_byte m; OwnModel.m_stack_len := m_stack_len m; OwnModel.m_hp := m_hp m |}.
Definition to_ownregs (o : owner) : OwnModel.ownregs :=
  {| OwnModel.o_sp := o_sp o; OwnModel.o_ssp := o_ssp o; OwnModel.o_hp := o_hp o; OwnModel.o_prev_hp := o_prev_hp o |}.
Definition code_res {A B} (f : A -> B) (r : res A) : OwnModel.res B :=
  match r with ROk a => OwnModel.Ok (f a) | RErr e => OwnModel.Err (reason_code e) end.

Lemma reason_code_inj r1 r2 : reason_code r1 = reason_code r2 -> r1 = r2.
Proof. destruct r1, r2; intros H; try reflexivity; discriminate H. Qed.

Lemma verify_bridge m a n : code_res (fun x => x) (mem_verify m a n) = OwnModel.verify (to_amem m) a n.
Proof.
  unfold mem_verify, OwnModel.verify, to_addr, OwnModel.to_addr, rbind, OwnModel.rbind.
  change VmConsts.MEM_SIZE with MEM_SIZE. cbn [to_amem OwnModel.m_stack_len OwnModel.m_hp].
  destruct (MEM_SIZE <? a); [reflexivity|]. destruct (MEM_SIZE <? n); [reflexivity|].
  destruct (MEM_SIZE <? a + n); [reflexivity|].
  destruct ((a + n <=? m_stack_len m) || (m_hp m <=? a)); reflexivity.
Qed.

Lemma leb_negb_ltb x y : (y <=? x) = negb (x <? y).
Proof. destruct (N.leb_spec y x), (N.ltb_spec x y); try reflexivity; lia. Qed.

Lemma ownership_bridge o s e :
  has_ownership_range o s e = OwnModel.has_ownership_range (to_ownregs o) s e.
Proof.
  unfold has_ownership_range, OwnModel.has_ownership_range, has_ownership_stack, OwnModel.has_ownership_stack,
    has_ownership_heap, OwnModel.has_ownership_heap, OwnModel.range_empty.
  change VmConsts.VM_MAX_RAM with VM_MAX_RAM. cbn [to_ownregs OwnModel.o_sp OwnModel.o_ssp OwnModel.o_hp OwnModel.o_prev_hp].
  rewrite (leb_negb_ltb s e). reflexivity.
Qed.

Lemma write_bridge o m a data :
  code_res to_amem (mem_write o m a data) = OwnModel.mem_write (to_amem m) (to_ownregs o) a data.
Proof.
  unfold OwnModel.mem_write, mem_write. rewrite <- verify_bridge.
  destruct (mem_verify m a (lenN data)) as [[s e]|r]; cbn [rbind code_res OwnModel.rbind fst snd]; [|reflexivity].
  unfold OwnModel.verify_ownership. rewrite <- ownership_bridge.
  destruct (has_ownership_range o s e); reflexivity.
Qed.

(* a failing read fails exactly when, and as, the range check fails *)
Lemma read_wide_verify w m a :
  match mem_verify m a (N.of_nat (wbytes w)) with
  | ROk _ => exists v, read_wide w m a = ROk v
  | RErr e => read_wide w m a = RErr e
  end.
Proof.
  unfold read_wide, mem_read. destruct (mem_verify m a (N.of_nat (wbytes w))); cbn [rbind]; eauto.
Qed.

Lemma verify_err_from_bridge m a n code r :
  OwnModel.verify (to_amem m) a n = OwnModel.Err code -> reason_code r = code -> mem_verify m a n = RErr r.
Proof.
  intros H Hc. rewrite <- verify_bridge in H. destruct (mem_verify m a n) as [x|r']; cbn [code_res] in H; [discriminate|].
  injection H as H. f_equal. apply reason_code_inj. congruence.
Qed.

(* ------------------------------------------------------------------ (2) reasons *)
Definition wlen (w : width) : N := N.of_nat (wbytes w).   (* 16 or 32 *)

(* C22 panic table, operand reads: beyond MEM_SIZE => MemoryOverflow; inside the address space but
   neither entirely below the allocated stack nor entirely at/above $hp (the gap, or spanning both
   regions) => UninitalizedMemoryAccess; otherwise the read succeeds *)
Theorem read_wide_table w m a :
  (MEM_SIZE < a + wlen w -> read_wide w m a = RErr MemoryOverflow) /\
  (a + wlen w <= MEM_SIZE -> m_stack_len m < a + wlen w -> a < m_hp m ->
     read_wide w m a = RErr UninitalizedMemoryAccess) /\
  (a + wlen w <= MEM_SIZE -> (a + wlen w <= m_stack_len m \/ m_hp m <= a) -> exists v, read_wide w m a = ROk v).
Proof.
  unfold wlen. pose proof (read_wide_verify w m a) as Hv. repeat split.
  - intros H. rewrite (verify_err_from_bridge m a _ _ MemoryOverflow (OwnProofs.verify_overflow (to_amem m) a _ H) eq_refl) in Hv.
    exact Hv.
  - intros H1 H2 H3.
    rewrite (verify_err_from_bridge m a _ _ UninitalizedMemoryAccess
               (OwnProofs.verify_uninitialized (to_amem m) a _ H1 H2 H3) eq_refl) in Hv. exact Hv.
  - intros H1 H2.
    assert (V : OwnModel.verify (to_amem m) a (N.of_nat (wbytes w)) = OwnModel.Ok (a, a + N.of_nat (wbytes w))).
    { apply OwnProofs.verify_ok_iff. repeat split; assumption. }
    rewrite <- verify_bridge in V. destruct (mem_verify m a (N.of_nat (wbytes w))); [exact Hv|discriminate V].
Qed.

(* the three cases are exhaustive: a read either succeeds or fails with one of the two reasons *)
Theorem read_wide_total w m a :
  (exists v, read_wide w m a = ROk v) \/ read_wide w m a = RErr MemoryOverflow \/
  read_wide w m a = RErr UninitalizedMemoryAccess.
Proof.
  destruct (read_wide_table w m a) as (T1 & T2 & T3).
  destruct (N.le_gt_cases (a + wlen w) MEM_SIZE) as [H|H]; [|right; left; now apply T1].
  destruct (N.le_gt_cases (a + wlen w) (m_stack_len m)) as [Hs|Hs]; [left; apply T3; auto|].
  destruct (N.le_gt_cases (m_hp m) a) as [Hh|Hh]; [left; apply T3; auto|].
  right; right. now apply T2.
Qed.

(* C22 panic table, destination write: MemoryOverflow / UninitalizedMemoryAccess as for reads,
   MemoryOwnership for an accessible range that the ownership registers do not cover, success
   otherwise (then exactly the owned bytes change: C24's mem_write_owned through the bridge) *)
Theorem mem_write_table o m d data :
  (MEM_SIZE < d + lenN data -> mem_write o m d data = RErr MemoryOverflow) /\
  (d + lenN data <= MEM_SIZE -> m_stack_len m < d + lenN data -> d < m_hp m ->
     mem_write o m d data = RErr UninitalizedMemoryAccess) /\
  (d + lenN data <= MEM_SIZE -> (d + lenN data <= m_stack_len m \/ m_hp m <= d) ->
     has_ownership_range o d (d + lenN data) = false -> mem_write o m d data = RErr MemoryOwnership) /\
  (d + lenN data <= MEM_SIZE -> (d + lenN data <= m_stack_len m \/ m_hp m <= d) ->
     has_ownership_range o d (d + lenN data) = true -> exists m', mem_write o m d data = ROk m').
Proof.
  assert (Hfrom : forall code r, OwnModel.mem_write (to_amem m) (to_ownregs o) d data = OwnModel.Err code ->
                                 reason_code r = code -> mem_write o m d data = RErr r).
  { intros code r H Hc. rewrite <- write_bridge in H. destruct (mem_write o m d data) as [x|r']; cbn [code_res] in H; [discriminate|].
    injection H as H. f_equal. apply reason_code_inj. congruence. }
  repeat split.
  - intros H. apply (Hfrom _ MemoryOverflow (OwnProofs.mem_write_overflow (to_amem m) (to_ownregs o) d data H) eq_refl).
  - intros H1 H2 H3.
    apply (Hfrom _ UninitalizedMemoryAccess (OwnProofs.mem_write_uninitialized (to_amem m) (to_ownregs o) d data H1 H2 H3) eq_refl).
  - intros H1 H2 H3. rewrite ownership_bridge in H3.
    apply (Hfrom _ MemoryOwnership (OwnProofs.mem_write_not_owned (to_amem m) (to_ownregs o) d data H1 H2 H3) eq_refl).
  - intros H1 H2 H3. unfold mem_write.
    assert (V : OwnModel.verify (to_amem m) d (lenN data) = OwnModel.Ok (d, d + lenN data)).
    { apply OwnProofs.verify_ok_iff. repeat split; assumption. }
    rewrite <- verify_bridge in V. destruct (mem_verify m d (lenN data)) as [[s e]|]; [|discriminate V].
    cbn [code_res] in V. injection V as -> ->. cbn [rbind fst snd]. rewrite H3. eauto.
Qed.

(* a successful destination write changes only bytes owned by the current context (C24) *)
Theorem mem_write_only_owned o m d data m' : mem_write o m d data = ROk m' ->
  forall x, m_byte m' x <> m_byte m x -> OwnModel.in_owned (to_ownregs o) x.
Proof.
  intros H x Hx. pose proof (write_bridge o m d data) as B. rewrite H in B. cbn [code_res] in B. symmetry in B.
  exact (OwnProofs.mem_write_owned _ _ _ _ _ B x Hx).
Qed.

(* ------------------------------------------------------------------ (3) order of the accesses *)
Lemma read_arg_direct w m v : read_arg w false m v = ROk v. Proof. reflexivity. Qed.

(* second operand: the first one was readable *)
Theorem second_read_panics : forall w s d b c dd (e : reason) l,
  read_wide w (memo s) b = ROk l ->
  (forall ind, read_arg w ind (memo s) c = RErr e ->
     (forall op, alu_wideint_op w d b c (op, ind) s = Panic e s) /\
     alu_wideint_div w d b c ind s = Panic e s /\
     alu_wideint_mul w d b c (true, ind) s = Panic e s /\
     (forall ra mode, 16 <= ra -> alu_wideint_cmp w ra b c (mode, ind) s = Panic e s)) /\
  (read_wide w (memo s) c = RErr e ->
     alu_wideint_muldiv w d b c dd s = Panic e s /\ alu_wideint_addmod w d b c dd s = Panic e s /\
     alu_wideint_mulmod w d b c dd s = Panic e s).
Proof.
  intros w s d b c dd e l Hl. split.
  - intros ind Hr. repeat split; intros.
    + unfold alu_wideint_op. cbn [snd]. rewrite Hl, Hr. reflexivity.
    + unfold alu_wideint_div. rewrite Hl, Hr. reflexivity.
    + unfold alu_wideint_mul, read_arg at 1. cbn [fst snd]. rewrite Hl, Hr. reflexivity.
    + unfold alu_wideint_cmp. rewrite write_reg_key_writable by assumption. cbn [snd]. rewrite Hl, Hr. reflexivity.
  - intros Hr. repeat split.
    + unfold alu_wideint_muldiv, read3. rewrite Hl, Hr. reflexivity.
    + unfold alu_wideint_addmod, read3. rewrite Hl, Hr. reflexivity.
    + unfold alu_wideint_mulmod, read3. rewrite Hl, Hr. reflexivity.
Qed.

(* WDML/WQML with a direct first operand: only the second one can fail *)
Theorem mul_direct_lhs_second_read_panics : forall w s d b c (e : reason) ir,
  read_arg w ir (memo s) c = RErr e -> alu_wideint_mul w d b c (false, ir) s = Panic e s.
Proof. intros. unfold alu_wideint_mul. cbn [fst snd read_arg] in *. rewrite H. reflexivity. Qed.

(* third operand: the first two were readable *)
Theorem third_read_panics : forall w s d b c dd (e : reason) l r,
  read_wide w (memo s) b = ROk l -> read_wide w (memo s) c = ROk r -> read_wide w (memo s) dd = RErr e ->
  alu_wideint_muldiv w d b c dd s = Panic e s /\ alu_wideint_addmod w d b c dd s = Panic e s /\
  alu_wideint_mulmod w d b c dd s = Panic e s.
Proof.
  intros w s d b c dd e l r Hl Hr Ht. repeat split.
  - unfold alu_wideint_muldiv, read3. rewrite Hl, Hr, Ht. reflexivity.
  - unfold alu_wideint_addmod, read3. rewrite Hl, Hr, Ht. reflexivity.
  - unfold alu_wideint_mulmod, read3. rewrite Hl, Hr, Ht. reflexivity.
Qed.

(* the destination is checked last: when the write is refused, the arithmetic did not panic and
   $of/$err already hold the values of the specification; nothing else has changed *)
Theorem dest_failure_after_flags : forall w s d v o e (r : reason),
  mem_write (ownership_registers s) (memo s) d (be_encode (wbytes w) v) = RErr r ->
  (exists s'', finish_oe w s d (WMem v o e) = Panic r s'' /\ regs s'' REG_OF = o /\ regs s'' REG_ERR = e /\
               memo s'' = memo s /\ (forall x, x <> REG_OF -> x <> REG_ERR -> regs s'' x = regs s x)) /\
  (exists s'', finish_eo w s d (WMem v o e) = Panic r s'' /\ regs s'' REG_OF = o /\ regs s'' REG_ERR = e /\
               memo s'' = memo s /\ (forall x, x <> REG_OF -> x <> REG_ERR -> regs s'' x = regs s x)).
Proof.
  intros w s d v o e r H. split.
  - cbn [finish_oe]. unfold write_wide_and_inc. cbn [memo set_reg]. rewrite H.
    eexists. split; [reflexivity|]. cbn [regs set_reg memo]. unfold rset.
    change (REG_OF =? REG_ERR) with false. rewrite !N.eqb_refl. repeat split.
    intros x H1 H2. destruct (N.eqb_spec x REG_ERR); [contradiction|]. destruct (N.eqb_spec x REG_OF); [contradiction|reflexivity].
  - cbn [finish_eo]. unfold write_wide_and_inc. cbn [memo set_reg]. rewrite H.
    eexists. split; [reflexivity|]. cbn [regs set_reg memo]. unfold rset.
    change (REG_ERR =? REG_OF) with false. rewrite !N.eqb_refl. repeat split.
    intros x H1 H2. destruct (N.eqb_spec x REG_OF); [contradiction|]. destruct (N.eqb_spec x REG_ERR); [contradiction|reflexivity].
Qed.

(* the instruction is its helper applied to the state left by the gas charge (so the helper-level
   tables above are tables of the instruction) *)
Theorem exec_wide_unfold : forall cost guess i s, cost <= regs s REG_CGAS ->
  match alu_table (i_op i) with
  | K_wcmp w => forall args, compare_from_imm (i_imm i) = Some args ->
      exec_alu cost guess i s =
      alu_wideint_cmp w (i_ra i) (regs (charged cost s) (i_rb i)) (regs (charged cost s) (i_rc i)) args (charged cost s)
  | K_wop w => forall args, math_from_imm (i_imm i) = Some args ->
      exec_alu cost guess i s =
      alu_wideint_op w (regs (charged cost s) (i_ra i)) (regs (charged cost s) (i_rb i)) (regs (charged cost s) (i_rc i)) args (charged cost s)
  | K_wmul w => forall args, mul_from_imm (i_imm i) = Some args ->
      exec_alu cost guess i s =
      alu_wideint_mul w (regs (charged cost s) (i_ra i)) (regs (charged cost s) (i_rb i)) (regs (charged cost s) (i_rc i)) args (charged cost s)
  | K_wdiv w => forall args, div_from_imm (i_imm i) = Some args ->
      exec_alu cost guess i s =
      alu_wideint_div w (regs (charged cost s) (i_ra i)) (regs (charged cost s) (i_rb i)) (regs (charged cost s) (i_rc i)) args (charged cost s)
  | K_wmuldiv w => exec_alu cost guess i s =
      alu_wideint_muldiv w (regs (charged cost s) (i_ra i)) (regs (charged cost s) (i_rb i)) (regs (charged cost s) (i_rc i))
                         (regs (charged cost s) (i_rd i)) (charged cost s)
  | K_waddmod w => exec_alu cost guess i s =
      alu_wideint_addmod w (regs (charged cost s) (i_ra i)) (regs (charged cost s) (i_rb i)) (regs (charged cost s) (i_rc i))
                         (regs (charged cost s) (i_rd i)) (charged cost s)
  | K_wmulmod w => exec_alu cost guess i s =
      alu_wideint_mulmod w (regs (charged cost s) (i_ra i)) (regs (charged cost s) (i_rb i)) (regs (charged cost s) (i_rc i))
                         (regs (charged cost s) (i_rd i)) (charged cost s)
  | _ => True
  end.
Proof.
  intros cost guess i s Hc. unfold exec_alu. rewrite gas_charge_ok by exact Hc.
  destruct (alu_table (i_op i)); try exact I; cbn [exec_kind]; try reflexivity; intros args ->; reflexivity.
Qed.

(* satisfiability / non-vacuity of the table on a concrete memory: 64-byte stack, empty heap *)
Example ex_table_reasons :
  read_wide W128 (memo ex_wstate) (MEM_SIZE - 15) = RErr MemoryOverflow /\
  read_wide W128 (memo ex_wstate) 60 = RErr UninitalizedMemoryAccess /\
  read_wide W128 (memo ex_wstate) 48 = ROk 0 /\
  mem_write {| o_sp := 32; o_ssp := 0; o_hp := MEM_SIZE; o_prev_hp := VM_MAX_RAM |} (memo ex_wstate) 40 (be_encode 16 1)
    = RErr MemoryOwnership.
Proof. vm_compute. repeat split. Qed.

Lemma memory_bridge : forall (o : owner) (m : mem) (a n : N) (data : bytes),
  code_res (fun x => x) (mem_verify m a n) = OwnModel.verify (to_amem m) a n /\
  has_ownership_range o a (a + n) = OwnModel.has_ownership_range (to_ownregs o) a (a + n) /\
  code_res to_amem (mem_write o m a data) = OwnModel.mem_write (to_amem m) (to_ownregs o) a data.
Proof. intros. split; [apply verify_bridge|split; [apply ownership_bridge|apply write_bridge]]. Qed.
