(* Asm/EncodeProofs.v — proofs about the L1 model of Asm/EncodeModel.v (C08).

   Structure:
     1. arithmetic: shifts/masks/`|` as div/mod/+            (all 2^32 words by arithmetic)
     2. L3 layout facts (Asm/EncodeSpec.v): put/get round trips, by induction on the shape
     3. bytes <-> u32
     4. one argument position of pack.rs/unpack.rs is a bit field        (field_ok)
     5. one macro arm implements the specified layout of its shape        (row_ok)
     6. closed boolean checks of the GENERATED tables by vm_compute (~130 rows, 9 shapes):
        distinct bytes, every row has a correct arm, interpreter dispatch is the identity
     7. decoder/encoder theorems, interpreter agreement, bijection corollaries
   No enumeration of words anywhere: the only vm_compute calls are the finite table checks
   of part 6 (and closed Examples). *)
From FV Require Import Base.Bytes Base.U64 Gen.OpTable Gen.PackTable Asm.EncodeSpec Asm.EncodeModel.
Open Scope N_scope.

(* ------------------------------------------------------------------ arithmetic *)

Lemma pow2_pos k : 0 < 2 ^ k.
Proof. apply N.neq_0_lt_0. apply N.pow_nonzero. discriminate. Qed.
Lemma pow2_nz k : 2 ^ k <> 0.
Proof. apply N.pow_nonzero. discriminate. Qed.

Lemma pow2_split a b : a <= b -> 2 ^ b = 2 ^ a * 2 ^ (b - a).
Proof. intros H. rewrite <- N.pow_add_r. f_equal. lia. Qed.

(* (x mod 2^c) mod 2^w = x mod 2^w  for w <= c *)
Lemma mod_mod_pow2_le x w c : w <= c -> (x mod 2 ^ c) mod 2 ^ w = x mod 2 ^ w.
Proof.
  intros H. rewrite (pow2_split w c H).
  rewrite N.mod_mul_r by apply pow2_nz.
  rewrite N.mul_comm, N.mod_add by apply pow2_nz. apply N.mod_mod. apply pow2_nz.
Qed.

Lemma land_ones_mod x w : N.land x (N.ones w) = x mod 2 ^ w.
Proof. apply N.land_ones. Qed.

(* a * 2^k and b < 2^k have no common bit *)
Lemma lor_disjoint a b k : b < 2 ^ k -> N.lor (a * 2 ^ k) b = a * 2 ^ k + b.
Proof.
  intros Hb.
  assert (Hl : N.land (a * 2 ^ k) b = 0).
  { apply N.bits_inj_0. intros n. rewrite N.land_spec.
    destruct (N.lt_ge_cases n k) as [Hn|Hn].
    - rewrite N.mul_pow2_bits_low by exact Hn. reflexivity.
    - rewrite <- (N.mod_small b (2 ^ k)) by exact Hb.
      rewrite N.mod_pow2_bits_high by exact Hn. apply andb_false_r. }
  rewrite N.add_nocarry_lxor by exact Hl. symmetry. apply N.lxor_lor. exact Hl.
Qed.

(* a field below bit k does not see a multiple of 2^k *)
Lemma field_get_ignore_high o w k v x :
  o + w <= k -> field_get (o, w) (v * 2 ^ k + x) = field_get (o, w) x.
Proof.
  intros H. unfold field_get; cbn [fst snd].
  replace (2 ^ k) with (2 ^ (k - o - w) * 2 ^ w * 2 ^ o).
  2:{ rewrite <- !N.pow_add_r. f_equal. lia. }
  rewrite !N.mul_assoc, N.div_add_l by apply pow2_nz.
  rewrite N.add_comm, N.mod_add by apply pow2_nz. reflexivity.
Qed.

(* ------------------------------------------------------------------ spec-level layout facts *)
Lemma layout_below r s : Forall (fun ow => fst ow + snd ow <= r + total_width s) (layout_above r s).
Proof.
  induction s as [|a s IH]; cbn [layout_above total_width]; constructor.
  - cbn [fst snd]. lia.
  - eapply Forall_impl; [|exact IH]. intros [o w] H. cbn [fst snd] in *. lia.
Qed.

Lemma args_in_range_cons a s v args :
  args_in_range (a :: s) (v :: args) = true <-> v < 2 ^ width a /\ args_in_range s args = true.
Proof. cbn [args_in_range]. rewrite andb_true_iff, N.ltb_lt. reflexivity. Qed.

(* the payload carrying in-range arguments: below the top of the layout, multiple of 2^r *)
Lemma put_all_bounds r s : forall args, args_in_range s args = true ->
  put_all (layout_above r s) args < 2 ^ (r + total_width s) /\
  put_all (layout_above r s) args mod 2 ^ r = 0.
Proof.
  induction s as [|a s IH]; intros [|v args] H; try discriminate H.
  - cbn [layout_above put_all]. split; [apply pow2_pos | apply N.mod_0_l, pow2_nz].
  - apply args_in_range_cons in H as [Hv Hr]. specialize (IH args Hr) as [IH1 IH2].
    cbn [layout_above put_all total_width]. unfold field_put; cbn [fst].
    split.
    + replace (r + (width a + total_width s)) with (width a + (r + total_width s)) by lia.
      rewrite (N.pow_add_r 2 (width a)).
      assert (Hm : (v + 1) * 2 ^ (r + total_width s) <= 2 ^ width a * 2 ^ (r + total_width s)).
      { apply N.mul_le_mono_r. lia. }
      rewrite N.mul_add_distr_r, N.mul_1_l in Hm. lia.
    + rewrite (N.add_comm r), N.pow_add_r, N.mul_assoc.
      rewrite N.add_comm, N.mod_add by apply pow2_nz. exact IH2.
Qed.

(* reading back what was put *)
Lemma get_put_all r s : forall args, args_in_range s args = true ->
  map (fun ow => field_get ow (put_all (layout_above r s) args)) (layout_above r s) = args.
Proof.
  induction s as [|a s IH]; intros [|v args] H; try discriminate H; [reflexivity|].
  pose proof H as H0. apply args_in_range_cons in H as [Hv Hr].
  destruct (put_all_bounds r s args Hr) as [Hb _].
  cbn [layout_above put_all map]. unfold field_put; cbn [fst]. f_equal.
  - unfold field_get; cbn [fst snd].
    rewrite N.div_add_l by apply pow2_nz. rewrite (N.div_small _ _ Hb), N.add_0_r.
    apply N.mod_small. exact Hv.
  - etransitivity; [|exact (IH args Hr)]. apply map_ext_in. intros [o w] Hin.
    apply field_get_ignore_high.
    pose proof (layout_below r s) as F. rewrite Forall_forall in F. apply (F _ Hin).
Qed.

(* putting back what was read *)
Lemma put_get_all r s : forall p, p < 2 ^ (r + total_width s) -> p mod 2 ^ r = 0 ->
  put_all (layout_above r s) (map (fun ow => field_get ow p) (layout_above r s)) = p.
Proof.
  induction s as [|a s IH]; intros p Hp Hz.
  - cbn [layout_above map put_all]. cbn [total_width] in Hp. rewrite N.add_0_r in Hp.
    rewrite N.mod_small in Hz by exact Hp. congruence.
  - cbn [layout_above map put_all total_width] in *. set (o := r + total_width s) in *.
    assert (Hsplit : p = (p / 2 ^ o) * 2 ^ o + p mod 2 ^ o).
    { rewrite N.mul_comm. apply N.div_mod. apply pow2_nz. }
    assert (Hlow : p mod 2 ^ o < 2 ^ o) by (apply N.mod_lt, pow2_nz).
    assert (Hhd : field_get (o, width a) p = p / 2 ^ o).
    { unfold field_get; cbn [fst snd]. apply N.mod_small. apply N.div_lt_upper_bound; [apply pow2_nz|].
      rewrite <- N.pow_add_r. replace (o + width a) with (r + (width a + total_width s)) by (unfold o; lia). exact Hp. }
    rewrite Hhd. unfold field_put; cbn [fst].
    rewrite (map_ext_in _ (fun ow => field_get ow (p mod 2 ^ o))).
    + rewrite IH; [symmetry; exact Hsplit | exact Hlow |].
      rewrite mod_mod_pow2_le by (unfold o; lia). exact Hz.
    + intros [o' w'] Hin. rewrite Hsplit at 1. apply field_get_ignore_high.
      pose proof (layout_below r s) as F. rewrite Forall_forall in F. apply (F _ Hin).
Qed.

Lemma get_all_in_range r s p :
  args_in_range s (map (fun ow => field_get ow p) (layout_above r s)) = true.
Proof.
  induction s as [|a s IH]; [reflexivity|]. cbn [layout_above map]. apply args_in_range_cons. split; [|exact IH].
  unfold field_get; cbn [snd]. apply N.mod_lt, pow2_nz.
Qed.

(* ------------------------------------------------------------------ bytes <-> u32 *)
Lemma u32_of_u8x3_eq a b c : u32_of_u8x3 a b c = a * 65536 + b * 256 + c.
Proof. unfold u32_of_u8x3, from_be_bytes4. change (2 ^ 16) with 65536. change (2 ^ 8) with 256. lia. Qed.

Lemma to_be_bytes4_spec w : w < 2 ^ 32 ->
  exists a b c, to_be_bytes4 w = (w / 2 ^ 24, a, b, c) /\ a < 256 /\ b < 256 /\ c < 256 /\
                u32_of_u8x3 a b c = w mod 2 ^ 24.
Proof.
  intros Hw. exists ((w / 2 ^ 16) mod 256), ((w / 2 ^ 8) mod 256), (w mod 256).
  unfold to_be_bytes4. rewrite u32_of_u8x3_eq.
  change (2 ^ 32) with 4294967296 in Hw.
  change (2 ^ 24) with 16777216. change (2 ^ 16) with 65536. change (2 ^ 8) with 256.
  assert (H1 : (w / 16777216) mod 256 = w / 16777216).
  { apply N.mod_small. apply N.div_lt_upper_bound; lia. }
  rewrite H1. repeat split; try (apply N.mod_lt; lia).
  pose proof (N.div_mod w 16777216). pose proof (N.mod_lt w 16777216).
  pose proof (N.div_mod w 65536). pose proof (N.mod_lt w 65536).
  pose proof (N.div_mod w 256). pose proof (N.mod_lt w 256).
  pose proof (N.div_mod (w / 65536) 256). pose proof (N.mod_lt (w / 65536) 256).
  pose proof (N.div_mod (w / 256) 256). pose proof (N.mod_lt (w / 256) 256).
  assert (D1 : w / 65536 / 256 = w / 16777216) by (rewrite N.div_div by lia; reflexivity).
  assert (D2 : w / 256 / 256 = w / 65536) by (rewrite N.div_div by lia; reflexivity).
  lia.
Qed.

Lemma to_be_bytes4_from b0 a b c : b0 < 256 -> a < 256 -> b < 256 -> c < 256 ->
  from_be_bytes4 (b0, a, b, c) < 2 ^ 32 /\
  from_be_bytes4 (b0, a, b, c) / 2 ^ 24 = b0 /\
  from_be_bytes4 (b0, a, b, c) mod 2 ^ 24 = u32_of_u8x3 a b c.
Proof.
  intros H0 Ha Hb Hc. rewrite u32_of_u8x3_eq. unfold from_be_bytes4.
  change (2 ^ 32) with 4294967296.
  change (2 ^ 24) with 16777216. change (2 ^ 16) with 65536. change (2 ^ 8) with 256.
  assert (Hp : a * 65536 + b * 256 + c < 16777216) by lia.
  replace (b0 * 16777216 + a * 65536 + b * 256 + c) with (b0 * 16777216 + (a * 65536 + b * 256 + c)) by lia.
  split; [lia|]. split.
  - rewrite N.div_add_l by lia. rewrite N.div_small by exact Hp. lia.
  - rewrite N.add_comm, N.mod_add by lia. apply N.mod_small. exact Hp.
Qed.

(* u8x3_from_u8x4(u.to_be_bytes()) of a 24-bit value: its three bytes *)
Lemma u8x3_of_u32_spec p : p < 2 ^ 24 ->
  exists a b c, u8x3_of_u32 p = (a, b, c) /\ a < 256 /\ b < 256 /\ c < 256 /\ u32_of_u8x3 a b c = p.
Proof.
  intros Hp. assert (Hw : p < 2 ^ 32).
  { eapply N.lt_trans; [exact Hp|]. change (2 ^ 24) with 16777216. change (2 ^ 32) with 4294967296. lia. }
  destruct (to_be_bytes4_spec p Hw) as (a & b & c & E & Ha & Hb & Hc & Hu).
  exists a, b, c. unfold u8x3_of_u32. rewrite E. repeat split; try assumption.
  rewrite Hu. apply N.mod_small. exact Hp.
Qed.

(* ------------------------------------------------------------------ one argument position *)
Definition fld_pos (f : fld) : N * N := (unpack_shift f, width (fld_type f)).

(* what makes a position of pack.rs/unpack.rs a bit field: same shift both ways, the type's
   mask is exactly `width` ones, the cast keeps at least `width` bits, it fits a u32 *)
Definition field_ok (f : fld) : bool :=
  (pack_shift f =? unpack_shift f) &&
  (type_mask (fld_type f) =? N.ones (width (fld_type f))) &&
  (width (fld_type f) <=? unpack_cast_bits f) &&
  (unpack_shift f + width (fld_type f) <=? 32).

Lemma field_ok_inv f : field_ok f = true ->
  pack_shift f = unpack_shift f /\ type_mask (fld_type f) = N.ones (width (fld_type f)) /\
  width (fld_type f) <= unpack_cast_bits f /\ unpack_shift f + width (fld_type f) <= 32.
Proof.
  unfold field_ok. rewrite !andb_true_iff, !N.eqb_eq, !N.leb_le. tauto.
Qed.

Lemma unpack_field_get f u : field_ok f = true -> unpack_field f u = field_get (fld_pos f) u.
Proof.
  intros H. apply field_ok_inv in H as (_ & Hm & Hc & _).
  unfold unpack_field, type_new, cast, field_get, fld_pos; cbn [fst snd].
  rewrite Hm, land_ones_mod, N.shiftr_div_pow2. apply mod_mod_pow2_le. exact Hc.
Qed.

Lemma pack_field_put f v : field_ok f = true -> v < 2 ^ width (fld_type f) ->
  pack_field f v = field_put (fld_pos f) v.
Proof.
  intros H Hv. apply field_ok_inv in H as (Hs & _ & _ & Hb).
  unfold pack_field, shl32, field_put, fld_pos; cbn [fst]. rewrite Hs, N.shiftl_mul_pow2.
  apply N.mod_small.
  apply N.lt_le_trans with (2 ^ width (fld_type f) * 2 ^ unpack_shift f).
  - apply N.mul_lt_mono_pos_r; [apply pow2_pos | exact Hv].
  - rewrite <- N.pow_add_r. apply N.pow_le_mono_r; lia.
Qed.

Lemma unpack_fields_get fs u : forallb field_ok fs = true ->
  unpack_fields fs u = map (fun ow => field_get ow u) (map fld_pos fs).
Proof.
  intros H. unfold unpack_fields. rewrite map_map. apply map_ext_in. intros f Hin.
  apply unpack_field_get. rewrite forallb_forall in H. apply H, Hin.
Qed.

(* `|` of the single-position words = the sum, because the positions are stacked *)
Lemma pack_fields_put r s : forall fs args, forallb field_ok fs = true ->
  map fld_pos fs = layout_above r s -> args_in_range s args = true ->
  pack_fields fs args = put_all (layout_above r s) args.
Proof.
  induction s as [|a s IH]; intros fs args Hok Hl Hr.
  - destruct fs; [|discriminate Hl]. reflexivity.
  - destruct fs as [|f fs]; [discriminate Hl|]. destruct args as [|v args]; [discriminate Hr|].
    cbn [map layout_above] in Hl. unfold fld_pos at 1 in Hl. injection Hl as Hsh Hw Hl.
    cbn [forallb] in Hok. apply andb_true_iff in Hok as [Hf Hok].
    apply args_in_range_cons in Hr as [Hv Hr].
    assert (Hpos : fld_pos f = (r + total_width s, width a)) by (unfold fld_pos; congruence).
    cbn [pack_fields layout_above put_all].
    rewrite pack_field_put by (try rewrite Hw; assumption).
    rewrite (IH fs args Hok Hl Hr). rewrite Hpos. unfold field_put; cbn [fst].
    apply lor_disjoint. apply (put_all_bounds r s args Hr).
Qed.

(* ------------------------------------------------------------------ one macro arm (shape row) *)
Fixpoint layout_eqb (a b : list (N * N)) : bool :=
  match a, b with
  | [], [] => true
  | x :: a', y :: b' => (fst x =? fst y) && (snd x =? snd y) && layout_eqb a' b'
  | _, _ => false
  end.
Lemma layout_eqb_eq a : forall b, layout_eqb a b = true -> a = b.
Proof.
  induction a as [|[o w] a IH]; intros [|[o' w'] b] H; try discriminate H; [reflexivity|].
  cbn [layout_eqb fst snd] in H. rewrite !andb_true_iff, !N.eqb_eq in H. destruct H as [[-> ->] H].
  f_equal. apply IH, H.
Qed.

(* a row of Gen/PackTable.shape_table implements the specified layout of its shape:
   `new` writes and `unpack` reads exactly the specified positions, and the reserved rule
   tests exactly the unused low bits *)
Definition row_ok (r : shape_row) : bool :=
  let s := sr_shape r in
  (total_width s <=? 24) &&
  forallb field_ok (sr_new r) && forallb field_ok (sr_unpack r) &&
  layout_eqb (map fld_pos (sr_new r)) (spec_layout s) &&
  layout_eqb (map fld_pos (sr_unpack r)) (spec_layout s) &&
  match sr_reserved r with
  | ResTrue => total_width s =? 24
  | ResBytesZero => total_width s =? 0
  | ResFieldZero f => field_ok f && (unpack_shift f =? 0) && (width (fld_type f) =? reserved_bits s)
  end.

Section Row.
  Variable r : shape_row.
  Hypothesis Hok : row_ok r = true.
  Let s := sr_shape r.

  Lemma row_width : total_width s <= 24.
  Proof. unfold row_ok in Hok. rewrite !andb_true_iff in Hok. apply N.leb_le. tauto. Qed.

  Lemma row_top : reserved_bits s + total_width s = 24.
  Proof. pose proof row_width. unfold reserved_bits. lia. Qed.

  Lemma row_unpack u : unpack_fields (sr_unpack r) u = spec_args s u.
  Proof.
    unfold row_ok in Hok. rewrite !andb_true_iff in Hok. destruct Hok as [[[[[_ _] Hu] _] Hl] _].
    rewrite unpack_fields_get by exact Hu. unfold spec_args. f_equal. apply layout_eqb_eq, Hl.
  Qed.

  Lemma row_new args : args_in_range s args = true -> pack_fields (sr_new r) args = spec_payload s args.
  Proof.
    intros Hr. unfold row_ok in Hok. rewrite !andb_true_iff in Hok. destruct Hok as [[[[[_ Hn] _] Hl] _] _].
    unfold spec_payload, spec_layout. apply pack_fields_put; [exact Hn | apply layout_eqb_eq, Hl | exact Hr].
  Qed.

  Lemma row_payload_bounds args : args_in_range s args = true ->
    spec_payload s args < 2 ^ 24 /\ reserved_zero s (spec_payload s args).
  Proof.
    intros Hr. destruct (put_all_bounds (reserved_bits s) s args Hr) as [H1 H2].
    rewrite row_top in H1. split; assumption.
  Qed.

  Lemma row_reserved a b c : a < 256 -> b < 256 -> c < 256 ->
    (reserved_rule_holds (sr_reserved r) a b c = true <-> reserved_zero s (u32_of_u8x3 a b c)).
  Proof.
    intros Ha Hb Hc. unfold reserved_zero.
    unfold row_ok in Hok. rewrite !andb_true_iff in Hok. destruct Hok as [_ Hrule]. fold s in Hrule.
    destruct (sr_reserved r) as [| |f]; cbn [reserved_rule_holds].
    - apply N.eqb_eq in Hrule. unfold reserved_bits. rewrite Hrule. change (24 - 24) with 0.
      rewrite N.pow_0_r, N.mod_1_r. tauto.
    - apply N.eqb_eq in Hrule. unfold reserved_bits. rewrite Hrule. change (24 - 0) with 24.
      rewrite u32_of_u8x3_eq. rewrite N.mod_small by (change (2 ^ 24) with 16777216; lia).
      rewrite !andb_true_iff, !N.eqb_eq. lia.
    - rewrite !andb_true_iff, !N.eqb_eq in Hrule. destruct Hrule as [[Hf Hs] Hw].
      rewrite unpack_field_get by exact Hf. unfold field_get, fld_pos; cbn [fst snd].
      rewrite Hs, Hw, N.pow_0_r, N.div_1_r. apply N.eqb_eq.
  Qed.
End Row.

(* ------------------------------------------------------------------ facts about the generated tables
   (closed boolean checks over the ~130 rows / 9 shapes, evaluated by the kernel) *)
Fixpoint nodupb (l : list N) : bool :=
  match l with [] => true | x :: l' => negb (existsb (N.eqb x) l') && nodupb l' end.
Lemma nodupb_NoDup l : nodupb l = true -> NoDup l.
Proof.
  induction l as [|x l IH]; intros H; constructor; cbn [nodupb] in H; apply andb_true_iff in H as [H1 H2].
  - intros Hin. apply negb_true_iff in H1. assert (existsb (N.eqb x) l = true); [|congruence].
    apply existsb_exists. exists x. split; [exact Hin | apply N.eqb_refl].
  - apply IH, H2.
Qed.

Lemma argty_eqb_eq a b : argty_eqb a b = true -> a = b.
Proof. destruct a, b; cbn; congruence. Qed.
Lemma shape_eqb_eq a : forall b, shape_eqb a b = true -> a = b.
Proof.
  induction a as [|x a IH]; intros [|y b] H; try discriminate H; [reflexivity|].
  cbn [shape_eqb] in H. apply andb_true_iff in H as [H1 H2]. f_equal; [apply argty_eqb_eq, H1 | apply IH, H2].
Qed.
Lemma shape_eqb_refl a : shape_eqb a a = true.
Proof. induction a as [|x a IH]; [reflexivity|]. cbn [shape_eqb]. rewrite IH. destruct x; reflexivity. Qed.

Definition entry_eqb (e e' : opentry) : bool :=
  (op_byte e =? op_byte e') && String.eqb (op_name e) (op_name e') &&
  String.eqb (OpTable.op_ctor e) (OpTable.op_ctor e') && shape_eqb (op_shape e) (op_shape e').
Lemma entry_eqb_eq e e' : entry_eqb e e' = true -> e = e'.
Proof.
  destruct e as [b1 n1 c1 s1], e' as [b2 n2 c2 s2]. unfold entry_eqb; cbn [op_byte op_name OpTable.op_ctor op_shape].
  rewrite !andb_true_iff, N.eqb_eq, !String.eqb_eq. intros [[[-> ->] ->] H]. apply shape_eqb_eq in H. congruence.
Qed.

(* (1) opcode bytes are pairwise distinct and fit a u8 *)
Lemma optable_bytes_nodupb : nodupb (map op_byte optable) = true.
Proof. vm_compute. reflexivity. Qed.
Lemma optable_bytes_u8 : forallb (fun e => op_byte e <? 256) optable = true.
Proof. vm_compute. reflexivity. Qed.
(* (2) every row's shape has a macro arm, and that arm implements the specified layout *)
Definition entry_row_ok (e : opentry) : bool :=
  match find_row (op_shape e) with Some r => row_ok r | None => false end.
Lemma optable_rows_ok : forallb entry_row_ok optable = true.
Proof. vm_compute. reflexivity. Qed.
(* (3) the interpreter's `match opcode` sends every opcode to the struct of the same row *)
Definition entry_dispatch_ok (e : opentry) : bool :=
  match execute_dispatch e with Some e' => entry_eqb e e' | None => false end.
Lemma interp_dispatch_identity : forallb entry_dispatch_ok optable = true.
Proof. vm_compute. reflexivity. Qed.
(* (4) every arm of the shape table is a correct layout (also those no opcode uses) *)
Lemma shape_table_rows_ok : forallb row_ok shape_table = true.
Proof. vm_compute. reflexivity. Qed.
Fixpoint nodupb_str (l : list string) : bool :=
  match l with [] => true | x :: l' => negb (existsb (String.eqb x) l') && nodupb_str l' end.
Lemma nodupb_str_NoDup l : nodupb_str l = true -> NoDup l.
Proof.
  induction l as [|x l IH]; intros H; constructor; cbn [nodupb_str] in H; apply andb_true_iff in H as [H1 H2].
  - intros Hin. apply negb_true_iff in H1. assert (existsb (String.eqb x) l = true); [|congruence].
    apply existsb_exists. exists x. split; [exact Hin | apply String.eqb_refl].
  - apply IH, H2.
Qed.
(* (5) opcode names are pairwise distinct *)
Lemma optable_names_nodup : NoDup (map op_name optable).
Proof. apply nodupb_str_NoDup. vm_compute. reflexivity. Qed.

Lemma optable_bytes_nodup : NoDup (map op_byte optable).
Proof. apply nodupb_NoDup, optable_bytes_nodupb. Qed.

(* consequences for one row of the table *)
Lemma entry_facts e : In e optable ->
  op_byte e < 256 /\
  exists r, find_row (op_shape e) = Some r /\ row_ok r = true /\ sr_shape r = op_shape e.
Proof.
  intros Hin. split.
  - pose proof optable_bytes_u8 as H. rewrite forallb_forall in H. apply N.ltb_lt, (H e Hin).
  - pose proof optable_rows_ok as H. rewrite forallb_forall in H. specialize (H e Hin).
    unfold entry_row_ok in H. destruct (find_row (op_shape e)) as [r|] eqn:E; [|discriminate H].
    exists r. repeat split; [exact H|]. unfold find_row in E. apply find_some in E as [_ E].
    apply shape_eqb_eq, E.
Qed.

Lemma find_byte_unique (l : list opentry) e : NoDup (map op_byte l) -> In e l ->
  find (fun x => op_byte x =? op_byte e) l = Some e.
Proof.
  induction l as [|x l IH]; intros Hnd Hin; [destruct Hin|].
  cbn [map] in Hnd. inversion Hnd as [|? ? Hx Hnd']; subst. cbn [find].
  destruct Hin as [->|Hin].
  - rewrite N.eqb_refl. reflexivity.
  - destruct (N.eqb_spec (op_byte x) (op_byte e)) as [E|_].
    + exfalso. apply Hx. rewrite E. apply in_map, Hin.
    + apply IH; assumption.
Qed.

Lemma find_byte_some b e : find (fun x => op_byte x =? b) optable = Some e -> In e optable /\ op_byte e = b.
Proof. intros H. apply find_some in H as [H1 H2]. split; [exact H1 | apply N.eqb_eq, H2]. Qed.

(* ------------------------------------------------------------------ the three per-row functions *)
Lemma reserved_iff e a b c : In e optable -> a < 256 -> b < 256 -> c < 256 ->
  (reserved_part_is_zero (op_shape e) a b c = true <-> reserved_zero (op_shape e) (u32_of_u8x3 a b c)).
Proof.
  intros Hin Ha Hb Hc. destruct (entry_facts e Hin) as (_ & r & Hf & Hok & Hs).
  unfold reserved_part_is_zero. rewrite Hf, <- Hs. apply row_reserved; assumption.
Qed.

Lemma unpack_args_spec e a b c : In e optable ->
  unpack_args (op_shape e) a b c = spec_args (op_shape e) (u32_of_u8x3 a b c).
Proof.
  intros Hin. destruct (entry_facts e Hin) as (_ & r & Hf & Hok & Hs).
  unfold unpack_args. rewrite Hf, <- Hs. apply row_unpack, Hok.
Qed.

Lemma new_bytes_spec e args : In e optable -> args_in_range (op_shape e) args = true ->
  exists a b c, new_bytes (op_shape e) args = (a, b, c) /\ a < 256 /\ b < 256 /\ c < 256 /\
                u32_of_u8x3 a b c = spec_payload (op_shape e) args /\
                reserved_zero (op_shape e) (spec_payload (op_shape e) args).
Proof.
  intros Hin Hr. destruct (entry_facts e Hin) as (_ & r & Hf & Hok & Hs).
  unfold new_bytes. rewrite Hf. rewrite <- Hs in *. rewrite (row_new r Hok args Hr).
  destruct (row_payload_bounds r Hok args Hr) as [Hlt Hz].
  destruct (u8x3_of_u32_spec _ Hlt) as (a & b & c & E & Ha & Hb & Hc & Hu).
  exists a, b, c. repeat split; assumption.
Qed.

(* ------------------------------------------------------------------ the decoder *)
(* soundness: what a successful decode tells about the word *)
Lemma try_from_u32_sound w r : w < 2 ^ 32 -> try_from_u32 w = Some r ->
  In (r_op r) optable /\ op_byte (r_op r) = w / 2 ^ 24 /\
  r_a r < 256 /\ r_b r < 256 /\ r_c r < 256 /\
  u32_of_u8x3 (r_a r) (r_b r) (r_c r) = w mod 2 ^ 24 /\
  reserved_zero (op_shape (r_op r)) (w mod 2 ^ 24).
Proof.
  intros Hw H. destruct (to_be_bytes4_spec w Hw) as (a & b & c & E & Ha & Hb & Hc & Hu).
  unfold try_from_u32 in H. rewrite E in H. unfold try_from_bytes in H.
  destruct (find _ optable) as [e|] eqn:F; [|discriminate H].
  apply find_byte_some in F as [Hin Hbyte].
  destruct (reserved_part_is_zero (op_shape e) a b c) eqn:R; cbn [negb] in H; [|discriminate H].
  injection H as <-. cbn [r_op r_a r_b r_c]. repeat split; try assumption.
  rewrite <- Hu. apply (reserved_iff e a b c Hin Ha Hb Hc), R.
Qed.

(* completeness: a word with a defined top byte and zero reserved bits decodes *)
Lemma try_from_u32_complete w e : w < 2 ^ 32 -> In e optable -> op_byte e = w / 2 ^ 24 ->
  reserved_zero (op_shape e) (w mod 2 ^ 24) ->
  exists a b c, try_from_u32 w = Some {| r_op := e; r_a := a; r_b := b; r_c := c |} /\
                u32_of_u8x3 a b c = w mod 2 ^ 24.
Proof.
  intros Hw Hin Hbyte Hz. destruct (to_be_bytes4_spec w Hw) as (a & b & c & E & Ha & Hb & Hc & Hu).
  exists a, b, c. split; [|exact Hu]. unfold try_from_u32. rewrite E. unfold try_from_bytes.
  rewrite <- Hbyte, (find_byte_unique optable e optable_bytes_nodup Hin).
  rewrite <- Hu in Hz. apply (reserved_iff e a b c Hin Ha Hb Hc) in Hz. rewrite Hz. reflexivity.
Qed.

Theorem decode_sound w i : w < 2 ^ 32 -> decode w = Some i ->
  In (i_op i) optable /\ op_byte (i_op i) = w / 2 ^ 24 /\
  reserved_zero (op_shape (i_op i)) (w mod 2 ^ 24) /\
  i_args i = spec_args (op_shape (i_op i)) (w mod 2 ^ 24) /\
  args_in_range (op_shape (i_op i)) (i_args i) = true.
Proof.
  intros Hw H. unfold decode in H. destruct (try_from_u32 w) as [r|] eqn:E; [|discriminate H].
  injection H as <-. destruct (try_from_u32_sound w r Hw E) as (Hin & Hb & _ & _ & _ & Hu & Hz).
  cbn [view i_op i_args]. unfold unpack. rewrite (unpack_args_spec _ _ _ _ Hin), Hu.
  repeat split; try assumption. apply get_all_in_range.
Qed.

Theorem decode_complete w e : w < 2 ^ 32 -> In e optable -> op_byte e = w / 2 ^ 24 ->
  reserved_zero (op_shape e) (w mod 2 ^ 24) ->
  decode w = Some {| i_op := e; i_args := spec_args (op_shape e) (w mod 2 ^ 24) |}.
Proof.
  intros Hw Hin Hb Hz. destruct (try_from_u32_complete w e Hw Hin Hb Hz) as (a & b & c & E & Hu).
  unfold decode. rewrite E. cbn [option_map]. unfold view, unpack; cbn [r_op r_a r_b r_c].
  rewrite (unpack_args_spec _ _ _ _ Hin), Hu. reflexivity.
Qed.

(* decoding succeeds exactly on the valid words *)
Theorem decode_iff w : w < 2 ^ 32 -> (decode w <> None <-> valid_word optable w).
Proof.
  intros Hw. split.
  - intros H. destruct (decode w) as [i|] eqn:E; [|congruence].
    destruct (decode_sound w i Hw E) as (Hin & Hb & Hz & _). exists (i_op i). auto.
  - intros (e & Hin & Hb & Hz). rewrite (decode_complete w e Hw Hin Hb Hz). discriminate.
Qed.

(* ------------------------------------------------------------------ the encoder *)
Theorem encode_spec e args : In e optable -> args_in_range (op_shape e) args = true ->
  encode {| i_op := e; i_args := args |} = spec_word e args /\
  spec_word e args < 2 ^ 32 /\ spec_word e args / 2 ^ 24 = op_byte e /\
  spec_word e args mod 2 ^ 24 = spec_payload (op_shape e) args /\
  reserved_zero (op_shape e) (spec_payload (op_shape e) args).
Proof.
  intros Hin Hr. destruct (new_bytes_spec e args Hin Hr) as (a & b & c & E & Ha & Hb & Hc & Hu & Hz).
  destruct (entry_facts e Hin) as (Hbyte & _).
  destruct (to_be_bytes4_from (op_byte e) a b c Hbyte Ha Hb Hc) as (H32 & Hdiv & Hmod).
  assert (Henc : encode {| i_op := e; i_args := args |} = from_be_bytes4 (op_byte e, a, b, c)).
  { unfold encode, op_new; cbn [i_op i_args]. rewrite E. unfold to_u32, to_bytes; cbn [r_op r_a r_b r_c].
    unfold cast. rewrite N.mod_small by exact Hbyte. reflexivity. }
  assert (Hsw : spec_word e args = from_be_bytes4 (op_byte e, a, b, c)).
  { unfold spec_word. rewrite <- Hu, u32_of_u8x3_eq. unfold from_be_bytes4.
    change (2 ^ 16) with 65536. change (2 ^ 8) with 256. lia. }
  rewrite Henc, Hsw, <- Hu. repeat split; try assumption. rewrite Hu. exact Hz.
Qed.

(* decode w = Some i -> encode i = w *)
Theorem encode_decode w i : w < 2 ^ 32 -> decode w = Some i -> encode i = w.
Proof.
  intros Hw H. destruct (decode_sound w i Hw H) as (Hin & Hb & Hz & Ha & Hr).
  destruct i as [e args]; cbn [i_op i_args] in *.
  destruct (encode_spec e args Hin Hr) as (-> & _).
  destruct (entry_facts e Hin) as (_ & r & _ & Hok & Hs).
  unfold spec_word, spec_payload, spec_layout. rewrite Ha. unfold spec_args, spec_layout.
  rewrite put_get_all.
  - rewrite Hb, N.mul_comm. symmetry. apply N.div_mod. apply pow2_nz.
  - rewrite <- Hs, (row_top r Hok). apply N.mod_lt, pow2_nz.
  - exact Hz.
Qed.

(* in-range arguments: the constructed instruction decodes to itself *)
Theorem decode_encode e args : In e optable -> args_in_range (op_shape e) args = true ->
  decode (encode {| i_op := e; i_args := args |}) = Some {| i_op := e; i_args := args |}.
Proof.
  intros Hin Hr. destruct (encode_spec e args Hin Hr) as (-> & H32 & Hdiv & Hmod & Hz).
  rewrite (decode_complete _ e H32 Hin (eq_sym Hdiv)) by (rewrite Hmod; exact Hz).
  rewrite Hmod. unfold spec_args, spec_payload, spec_layout. rewrite get_put_all by exact Hr. reflexivity.
Qed.

(* ------------------------------------------------------------------ the interpreter's decoder *)
Lemma execute_dispatch_id e : In e optable -> execute_dispatch e = Some e.
Proof.
  intros Hin. pose proof interp_dispatch_identity as H. rewrite forallb_forall in H. specialize (H e Hin).
  unfold entry_dispatch_ok in H. destruct (execute_dispatch e) as [e'|]; [|discriminate H].
  apply entry_eqb_eq in H. congruence.
Qed.

Theorem interp_agrees w : interp_decode w = decode w.
Proof.
  unfold interp_decode, decode, try_from_u32. destruct (to_be_bytes4 w) as [[[b0 b1] b2] b3].
  f_equal. unfold interp_parse, try_from_bytes, opcode_try_from.
  destruct (find (fun e => op_byte e =? b0) optable) as [opc|] eqn:F; [|reflexivity].
  apply find_byte_some in F as [Hin _]. rewrite (execute_dispatch_id opc Hin). reflexivity.
Qed.

(* ------------------------------------------------------------------ bijection corollaries *)
Corollary decode_injective w1 w2 i : w1 < 2 ^ 32 -> w2 < 2 ^ 32 ->
  decode w1 = Some i -> decode w2 = Some i -> w1 = w2.
Proof. intros H1 H2 D1 D2. rewrite <- (encode_decode w1 i H1 D1). apply (encode_decode w2 i H2 D2). Qed.

Corollary encode_injective e1 a1 e2 a2 :
  In e1 optable -> args_in_range (op_shape e1) a1 = true ->
  In e2 optable -> args_in_range (op_shape e2) a2 = true ->
  encode {| i_op := e1; i_args := a1 |} = encode {| i_op := e2; i_args := a2 |} -> e1 = e2 /\ a1 = a2.
Proof.
  intros H1 R1 H2 R2 E. pose proof (decode_encode e1 a1 H1 R1) as D1. rewrite E, (decode_encode e2 a2 H2 R2) in D1.
  injection D1 as -> ->. auto.
Qed.

(* the raw instruction value: re-encoding the decoded struct gives the word back *)
Theorem to_u32_try_from w r : w < 2 ^ 32 -> try_from_u32 w = Some r -> to_u32 r = w.
Proof.
  intros Hw H. destruct (try_from_u32_sound w r Hw H) as (Hin & Hb & Ha & Hb' & Hc & Hu & _).
  destruct (entry_facts _ Hin) as (Hbyte & _).
  destruct (to_be_bytes4_from (op_byte (r_op r)) (r_a r) (r_b r) (r_c r) Hbyte Ha Hb' Hc) as (_ & Hdiv & Hmod).
  unfold to_u32, to_bytes, cast. rewrite (N.mod_small (op_byte (r_op r)) (2 ^ 8)) by exact Hbyte.
  rewrite (N.div_mod (from_be_bytes4 _) (2 ^ 24)) by apply pow2_nz. rewrite Hdiv, Hmod, Hu, Hb.
  symmetry. apply N.div_mod. apply pow2_nz.
Qed.

(* shorthand constructors: panic exactly on an out-of-range argument, otherwise op::X::new *)
Lemma type_new_checked_spec t v : type_mask t = N.ones (width t) -> width t <= type_repr_bits t ->
  type_new_checked t v = if v <? 2 ^ width t then Some v else None.
Proof.
  intros Hm Hw. unfold type_new_checked, type_new. rewrite Hm, land_ones_mod.
  destruct (N.ltb_spec v (2 ^ width t)) as [H|H].
  - rewrite N.mod_small by exact H. rewrite N.eqb_refl, andb_true_r.
    replace (v <? 2 ^ type_repr_bits t) with true; [reflexivity|]. symmetry. apply N.ltb_lt.
    eapply N.lt_le_trans; [exact H|]. apply N.pow_le_mono_r; [discriminate | exact Hw].
  - replace (v mod 2 ^ width t =? v) with false; [rewrite andb_false_r; reflexivity|]. symmetry. apply N.eqb_neq.
    intros E. pose proof (N.mod_lt v (2 ^ width t) (pow2_nz _)). lia.
Qed.
Lemma types_ok : forallb (fun t => (type_mask t =? N.ones (width t)) && (width t <=? type_repr_bits t))
                         [RegId; Imm06; Imm12; Imm18; Imm24] = true.
Proof. vm_compute. reflexivity. Qed.
Lemma check_args_spec s : forall args,
  check_args s args = if args_in_range s args then Some args else None.
Proof.
  induction s as [|t s IH]; intros [|v args]; try reflexivity. cbn [check_args args_in_range].
  assert (Ht : type_mask t = N.ones (width t) /\ width t <= type_repr_bits t).
  { pose proof types_ok as H. rewrite forallb_forall in H.
    assert (Hin : In t [RegId; Imm06; Imm12; Imm18; Imm24]) by (destruct t; cbn; tauto).
    specialize (H t Hin). apply andb_true_iff in H as [H1 H2]. split; [apply N.eqb_eq, H1 | apply N.leb_le, H2]. }
  destruct Ht as [Hm Hw]. rewrite (type_new_checked_spec t v Hm Hw), IH.
  destruct (v <? 2 ^ width t), (args_in_range s args); reflexivity.
Qed.
Theorem op_shorthand_spec e args :
  op_shorthand e args = if args_in_range (op_shape e) args then Some (op_new e args) else None.
Proof. unfold op_shorthand. rewrite check_args_spec. destruct (args_in_range _ _); reflexivity. Qed.

(* ------------------------------------------------------------------ non-vacuity *)
(* The hypotheses of the theorems are satisfiable by non-trivial values, and the reserved-bit rule
   is not vacuous.  The witnesses are computed from the generated table (first row with arguments,
   first row with reserved bits, first undefined byte), so a legitimate change of the table does
   not break them. *)
Example ex_in_range : exists e args,
  In e optable /\ args <> [] /\ args_in_range (op_shape e) args = true /\
  encode {| i_op := e; i_args := args |} < 2 ^ 32 /\
  valid_word optable (encode {| i_op := e; i_args := args |}) /\
  decode (encode {| i_op := e; i_args := args |}) = Some {| i_op := e; i_args := args |}.
Proof.
  destruct (find (fun e => negb (shape_eqb (op_shape e) [])) optable) as [e|] eqn:E;
    [|vm_compute in E; discriminate E].
  pose proof (find_some _ _ E) as [Hin _]. vm_compute in E. injection E as <-.
  match type of Hin with In ?e _ => exists e, (map (fun _ => 1) (op_shape e)) end.
  split; [exact Hin|]. split; [vm_compute; discriminate|].
  split; [vm_compute; reflexivity|]. split; [vm_compute; reflexivity|]. split.
  - eexists. split; [exact Hin|]. split; vm_compute; reflexivity.
  - vm_compute. reflexivity.
Qed.
Example ex_reserved_rejected : exists e,
  In e optable /\ op_byte e * 2 ^ 24 + 1 < 2 ^ 32 /\
  decode (op_byte e * 2 ^ 24) <> None /\ decode (op_byte e * 2 ^ 24 + 1) = None.
Proof.
  destruct (find (fun e => total_width (op_shape e) <? 24) optable) as [e|] eqn:E;
    [|vm_compute in E; discriminate E].
  pose proof (find_some _ _ E) as [Hin _]. vm_compute in E. injection E as <-.
  eexists. split; [exact Hin|]. split; [vm_compute; reflexivity|]. split; vm_compute; [discriminate | reflexivity].
Qed.
Example ex_undefined_rejected : exists b, b < 256 /\ opcode_try_from b = None /\ decode (b * 2 ^ 24) = None.
Proof.
  destruct (find (fun b => match opcode_try_from b with None => true | Some _ => false end)
                 (map N.of_nat (seq 0 256))) as [b|] eqn:E; [|vm_compute in E; discriminate E].
  exists b. vm_compute in E. injection E as <-. repeat split; vm_compute; reflexivity.
Qed.
