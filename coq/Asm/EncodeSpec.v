(* Asm/EncodeSpec.v — L3 specification of the FuelVM instruction word (C08).

   Written from the property text and the instruction-set layout of fuel-specs ("op (8 bits),
   then the arguments, most significant first: register ids 6 bits, immediates 6/12/18/24
   bits; bits not used by the arguments are zero"), NOT from pack.rs/unpack.rs.  It knows an
   opcode row only as (byte, argument kinds); rows come from Gen/OpTable.v.

     word     =  byte * 2^24 + payload                        (32 bits, big endian)
     payload  =  arguments laid out MSB first, directly above r = 24 - (sum of widths)
                 reserved low bits, which are zero.                                     *)
From Coq Require Import NArith List Bool.
From FV Require Import Gen.OpTable.
Import ListNotations.
Open Scope N_scope.

Definition width (a : argty) : N :=
  match a with RegId => 6 | Imm06 => 6 | Imm12 => 12 | Imm18 => 18 | Imm24 => 24 end.

Fixpoint total_width (s : list argty) : N :=
  match s with [] => 0 | a :: s' => width a + total_width s' end.

(* number of unused low bits of the 24-bit payload *)
Definition reserved_bits (s : list argty) : N := 24 - total_width s.

(* (offset, width) of every argument, first argument highest, all above the r low bits *)
Fixpoint layout_above (r : N) (s : list argty) : list (N * N) :=
  match s with
  | [] => []
  | a :: s' => (r + total_width s', width a) :: layout_above r s'
  end.
Definition spec_layout (s : list argty) : list (N * N) := layout_above (reserved_bits s) s.

Definition field_get (ow : N * N) (p : N) : N := (p / 2 ^ fst ow) mod 2 ^ snd ow.
Definition field_put (ow : N * N) (v : N) : N := v * 2 ^ fst ow.

Fixpoint put_all (l : list (N * N)) (args : list N) : N :=
  match l, args with
  | ow :: l', v :: args' => field_put ow v + put_all l' args'
  | _, _ => 0
  end.

(* the arguments found in a payload / the payload carrying given arguments *)
Definition spec_args (s : list argty) (p : N) : list N := map (fun ow => field_get ow p) (spec_layout s).
Definition spec_payload (s : list argty) (args : list N) : N := put_all (spec_layout s) args.

(* one value per argument, each within its width *)
Fixpoint args_in_range (s : list argty) (args : list N) : bool :=
  match s, args with
  | [], [] => true
  | a :: s', v :: args' => (v <? 2 ^ width a) && args_in_range s' args'
  | _, _ => false
  end.

(* "every bit not used by that opcode's arguments is zero" *)
Definition reserved_zero (s : list argty) (p : N) : Prop := p mod 2 ^ reserved_bits s = 0.

(* the word of (row, arguments) *)
Definition spec_word (e : opentry) (args : list N) : N :=
  op_byte e * 2 ^ 24 + spec_payload (op_shape e) args.

(* valid words: top byte is the byte of a row and the row's reserved bits are zero *)
Definition valid_word (tbl : list opentry) (w : N) : Prop :=
  exists e, In e tbl /\ op_byte e = w / 2 ^ 24 /\ reserved_zero (op_shape e) (w mod 2 ^ 24).
