(* Asm/EncodeModel.v — L1 executable model of fuel-asm's instruction encoding (C08).
   Definitions only; proofs are in Asm/EncodeProofs.v.

   Mirrors, function by function:
     fuel-asm/src/pack.rs, unpack.rs        pack_field / unpack_field (+ the composite functions)
     fuel-asm/src/lib.rs                    RegId::new / ImmNN::new (mask), new_checked,
                                            Instruction <-> u32 / [u8;4] conversions
     fuel-asm/src/macros.rs                 Opcode::try_from(u8), Instruction::try_from([u8;4]),
                                            op::X::{new, unpack, reserved_part_is_zero,
                                            from_raw_args}, From<op::X> for [u8;4]
     fuel-vm/.../executors/instruction.rs   instruction_inner + execute_instruction (decode part)
   All shift amounts, cast widths, masks, the shape -> pack/unpack/reserved-rule mapping and the
   opcode rows come from the GENERATED files Gen/PackTable.v and Gen/OpTable.v.

   Representation: a `u32` is an N below 2^32; `[u8; 4]` is four N below 256; the struct
   `op::X([u8; 3])` is (row X, a, b, c).  `Err(InvalidOpcode)` / a panicking constructor = None. *)
From FV Require Import Base.Bytes Base.U64 Gen.OpTable Gen.PackTable.
Open Scope N_scope.

(* ---------------------------------------------------------------- Rust integer idioms *)
Definition cast (bits x : N) : N := x mod 2 ^ bits.                 (* `x as uN` (truncation)      *)
Definition shl32 (x k : N) : N := (N.shiftl x k) mod 2 ^ 32.        (* u32 `x << k`, k < 32        *)

(* u32::to_be_bytes / from_be_bytes *)
Definition to_be_bytes4 (w : N) : N * N * N * N :=
  ((w / 2 ^ 24) mod 256, (w / 2 ^ 16) mod 256, (w / 2 ^ 8) mod 256, w mod 256).
Definition from_be_bytes4 (bs : N * N * N * N) : N :=
  let '(b0, b1, b2, b3) := bs in b0 * 2 ^ 24 + b1 * 2 ^ 16 + b2 * 2 ^ 8 + b3.

(* unpack.rs: u32::from_be_bytes(u8x4_from_u8x3([a, b, c])) with u8x4_from_u8x3 = [0, a, b, c] *)
Definition u32_of_u8x3 (a b c : N) : N := from_be_bytes4 (0, a, b, c).
(* pack.rs: u8x3_from_u8x4(u.to_be_bytes()) with u8x3_from_u8x4([_, a, b, c]) = [a, b, c] *)
Definition u8x3_of_u32 (u : N) : N * N * N :=
  let '(_, a, b, c) := to_be_bytes4 u in (a, b, c).

(* ---------------------------------------------------------------- lib.rs: argument types *)
Definition type_new (t : argty) (u : N) : N := N.land u (type_mask t).        (* T::new(u) = T(u & MASK) *)
(* T::new_checked(u): Some iff masking changes nothing; u must fit T's integer type to be
   passed at all *)
Definition type_new_checked (t : argty) (u : N) : option N :=
  if (u <? 2 ^ type_repr_bits t) && (type_new t u =? u) then Some (type_new t u) else None.

(* ---------------------------------------------------------------- unpack.rs / pack.rs *)
(* <f>_from_u32(u) = T::new((u >> k) as uN) *)
Definition unpack_field (f : fld) (u : N) : N :=
  type_new (fld_type f) (cast (unpack_cast_bits f) (N.shiftr u (unpack_shift f))).
(* u32_from_<f>(x) = (x.0 as u32) << k *)
Definition pack_field (f : fld) (v : N) : N := shl32 v (pack_shift f).

(* composite unpack functions: a tuple of single-position reads of the same bytes *)
Definition unpack_fields (fs : list fld) (u : N) : list N := map (fun f => unpack_field f u) fs.
(* composite pack functions: `|` of the single-position words *)
Fixpoint pack_fields (fs : list fld) (args : list N) : N :=
  match fs, args with
  | f :: fs', v :: args' => N.lor (pack_field f v) (pack_fields fs' args')
  | _, _ => 0
  end.

(* ---------------------------------------------------------------- macros.rs: per-shape arms *)
Definition argty_eqb (a b : argty) : bool :=
  match a, b with
  | RegId, RegId | Imm06, Imm06 | Imm12, Imm12 | Imm18, Imm18 | Imm24, Imm24 => true
  | _, _ => false
  end.
Fixpoint shape_eqb (a b : list argty) : bool :=
  match a, b with
  | [], [] => true
  | x :: a', y :: b' => argty_eqb x y && shape_eqb a' b'
  | _, _ => false
  end.
(* macro arm selection: the arm whose token pattern is the row's field-type list *)
Definition find_row (s : list argty) : option shape_row :=
  find (fun r => shape_eqb (sr_shape r) s) shape_table.

Definition reserved_rule_holds (rule : reserved_rule) (a b c : N) : bool :=
  match rule with
  | ResTrue => true
  | ResBytesZero => (a =? 0) && (b =? 0) && (c =? 0)                 (* self.0 == [0; 3] *)
  | ResFieldZero f => unpack_field f (u32_of_u8x3 a b c) =? 0         (* imm.0 == 0 *)
  end.

(* op::X(bytes).reserved_part_is_zero() for a row of shape s (no macro arm: does not compile; None-like false) *)
Definition reserved_part_is_zero (s : list argty) (a b c : N) : bool :=
  match find_row s with Some r => reserved_rule_holds (sr_reserved r) a b c | None => false end.
(* op::X(bytes).unpack() as a list *)
Definition unpack_args (s : list argty) (a b c : N) : list N :=
  match find_row s with Some r => unpack_fields (sr_unpack r) (u32_of_u8x3 a b c) | None => [] end.
(* bytes of op::X::new(args) *)
Definition new_bytes (s : list argty) (args : list N) : N * N * N :=
  match find_row s with Some r => u8x3_of_u32 (pack_fields (sr_new r) args) | None => (0, 0, 0) end.

(* ---------------------------------------------------------------- Opcode / Instruction *)
(* Instruction::NAME(op::NAME([a, b, c])) *)
Record rinstr : Set := { r_op : opentry; r_a : N; r_b : N; r_c : N }.

(* Opcode::try_from(u8): `match u { $ix => Ok(Opcode::$Op), ... _ => Err }` (first arm wins) *)
Definition opcode_try_from (b : N) : option opentry := find (fun e => op_byte e =? b) optable.

(* Instruction::try_from([op, a, b, c]) *)
Definition try_from_bytes (op a b c : N) : option rinstr :=
  match find (fun e => op_byte e =? op) optable with
  | None => None
  | Some e => if negb (reserved_part_is_zero (op_shape e) a b c) then None
              else Some {| r_op := e; r_a := a; r_b := b; r_c := c |}
  end.
(* Instruction::try_from(u: u32) = Self::try_from(u.to_be_bytes()) *)
Definition try_from_u32 (w : N) : option rinstr :=
  let '(op, a, b, c) := to_be_bytes4 w in try_from_bytes op a b c.

(* From<Instruction> for [u8; 4] = [OPCODE as u8, a, b, c];  Instruction::to_bytes *)
Definition to_bytes (r : rinstr) : N * N * N * N := (cast 8 (op_byte (r_op r)), r_a r, r_b r, r_c r).
(* From<Instruction> for u32 = u32::from_be_bytes(inst.into()) *)
Definition to_u32 (r : rinstr) : N := from_be_bytes4 (to_bytes r).

Definition unpack (r : rinstr) : list N := unpack_args (op_shape (r_op r)) (r_a r) (r_b r) (r_c r).
(* op::X::new(typed args).into() *)
Definition op_new (e : opentry) (args : list N) : rinstr :=
  let '(a, b, c) := new_bytes (op_shape e) args in {| r_op := e; r_a := a; r_b := b; r_c := c |}.

(* shorthand constructors op::x(ra, .., imm): every argument goes through new_checked
   (CheckRegId::check / check_immNN), a failed check panics (None) *)
Fixpoint check_args (s : list argty) (args : list N) : option (list N) :=
  match s, args with
  | [], [] => Some []
  | t :: s', v :: args' =>
      match type_new_checked t v, check_args s' args' with
      | Some x, Some r => Some (x :: r)
      | _, _ => None
      end
  | _, _ => None
  end.
Definition op_shorthand (e : opentry) (args : list N) : option rinstr :=
  match check_args (op_shape e) args with Some xs => Some (op_new e xs) | None => None end.

(* ---------------------------------------------------------------- abstract view: (row, arguments) *)
Record instr : Set := { i_op : opentry; i_args : list N }.
Definition view (r : rinstr) : instr := {| i_op := r_op r; i_args := unpack r |}.

(* general decoder / encoder on 32-bit words *)
Definition decode (w : N) : option instr := option_map view (try_from_u32 w).
Definition encode (i : instr) : N := to_u32 (op_new (i_op i) (i_args i)).

(* ---------------------------------------------------------------- interpreter path *)
(* op::X::from_raw_args(args) *)
Definition from_raw_args (e : opentry) (a b c : N) : option rinstr :=
  let op := {| r_op := e; r_a := a; r_b := b; r_c := c |} in
  if negb (reserved_part_is_zero (op_shape e) a b c) then None else Some op.

(* execute_instruction: `match opcode { Opcode::X => execute_op!(Y), .. }`: the struct type Y
   whose from_raw_args parses the arguments of opcode X (a missing arm does not compile: None) *)
Definition execute_dispatch (opc : opentry) : option opentry :=
  match find (fun xy => String.eqb (fst xy) (op_name opc)) interp_dispatch with
  | Some (_, y) => find (fun e => String.eqb (op_name e) y) optable
  | None => None
  end.

(* instruction_inner(raw: [u8; 4]) up to the call of `.execute`: None = PanicReason::InvalidInstruction *)
Definition interp_parse (raw0 raw1 raw2 raw3 : N) : option rinstr :=
  match opcode_try_from raw0 with
  | None => None
  | Some opc =>
      match execute_dispatch opc with
      | None => None
      | Some e => from_raw_args e raw1 raw2 raw3
      end
  end.
(* Interpreter::instruction(raw: u32): raw.to_be_bytes(), then the above; the handler then calls unpack() *)
Definition interp_decode (w : N) : option instr :=
  let '(b0, b1, b2, b3) := to_be_bytes4 w in option_map view (interp_parse b0 b1 b2 b3).
