(* Ids/IdsModel.v — L1: executable model mirroring, function by function,

     fuel-tx/src/contract.rs                     Contract::{root_from_code, initial_state_root,
                                                 default_state_root, id}
     fuel-tx/src/transaction/types/input.rs      Input::{predicate_owner, is_predicate_owner_valid}
     fuel-tx/src/transaction/types/create.rs     CreateMetadata::compute, the ContractCreated
                                                 output rule of Create::check_unique_rules
     fuel-vm/src/interpreter/executors/main.rs   deploy_inner (which id the contract is stored under)
     fuel-vm/src/interpreter/blockchain.rs       CodeRootCtx::code_root (CROO: what is written)

   Constants and the order of the hasher inputs come from Gen/IdsConsts.v (regenerated from
   the Rust source on every check).  The binary Merkle calculator is Merkle/BinaryModel.v
   (property C09); the sparse Merkle `root_from_set` is an oracle [smt_root_from_set] whose
   contract is property C12 (Run/Ids.v instantiates it with Merkle/SparseModel.v).
   Where the Rust code would panic (slice index out of range, division by zero, usize
   overflow) the model returns None.  Definitions only. *)
From FV Require Import Base.Bytes Base.U64 Merkle.BinaryModel Gen.IdsConsts.
Open Scope N_scope.

(* core::slice::Chunks: next() = if v.is_empty() None else split_at(min(v.len(), chunk_size)) *)
Fixpoint chunks_loop (fuel : nat) (chunk_size : nat) (v : bytes) : list bytes :=
  match fuel with
  | O => []
  | S f => match v with
           | [] => []
           | _ => let n := Nat.min (length v) chunk_size in
                  firstn n v :: chunks_loop f chunk_size (skipn n v)
           end
  end.
(* slice::chunks panics for chunk_size = 0 *)
Definition slice_chunks (chunk_size : nat) (v : bytes) : option (list bytes) :=
  match chunk_size with O => None | _ => Some (chunks_loop (length v) chunk_size v) end.

(* usize::next_multiple_of: panics if rhs = 0 or on overflow *)
Definition next_multiple_of (n m : N) : option N :=
  if m =? 0 then None
  else let r := n mod m in
       if r =? 0 then Some n else checked_add U64 n (m - r).

Section IdsModel.
  Variable h : bytes -> bytes.                                   (* SHA-256 (fuel_crypto::Hasher) *)
  Variable smt_root_from_set : list (bytes * bytes) -> bytes.    (* sparse::in_memory::MerkleTree::root_from_set *)

  (* fuel_merkle::binary::{leaf_sum, node_sum, empty_sum} *)
  Definition leaf_sum (d : bytes) : bytes := h (0 :: d).
  Definition node_sum (l r : bytes) : bytes := h (1 :: l ++ r).
  Definition empty_sum : bytes := h [].

  (* the body of the closure in root_from_code: what is pushed for one chunk *)
  Definition leaf_of_chunk (leaf : bytes) : option bytes :=
    let len := lenN leaf in
    if MULTIPLE =? 0 then None                                   (* len % MULTIPLE *)
    else if (len =? LEAF_SIZE) || (len mod MULTIPLE =? 0) then Some leaf
    else
      do padding_size <- next_multiple_of len MULTIPLE;
      (* let mut padded_leaf = [PADDING_BYTE; LEAF_SIZE]; padded_leaf[0..len].clone_from_slice(leaf) *)
      if LEAF_SIZE <? len then None
      else let padded_leaf := leaf ++ repeat PADDING_BYTE (N.to_nat (LEAF_SIZE - len)) in
           (* padded_leaf[..padding_size] *)
           if LEAF_SIZE <? padding_size then None
           else Some (firstn (N.to_nat padding_size) padded_leaf).

  (* bytes.chunks(LEAF_SIZE).for_each(|leaf| tree.push(..)) on the root calculator's stack *)
  Fixpoint push_chunks (stack : list (@node bytes)) (cs : list bytes) : option (list (@node bytes)) :=
    match cs with
    | [] => Some stack
    | c :: r => do leaf <- leaf_of_chunk c;
                do s <- calc_push leaf_sum node_sum stack leaf;
                push_chunks s r
    end.

  Definition root_from_code (code : bytes) : option bytes :=
    do cs <- slice_chunks (N.to_nat LEAF_SIZE) code;
    do s <- push_chunks [] cs;
    calc_root node_sum empty_sum s.

  (* MerkleTreeKey::new(key) = sha256(key); values are passed raw *)
  Definition initial_state_root (slots : list (bytes * bytes)) : bytes :=
    smt_root_from_set (map (fun s => (h (fst s), snd s)) slots).
  Definition default_state_root : bytes := initial_state_root [].

  (* Hasher::input in the order read from the source *)
  Definition feed (salt root state_root : bytes) (i : hash_input) : bytes :=
    match i with
    | HSeed => CONTRACT_ID_SEED
    | HSalt => salt
    | HRoot => root
    | HStateRoot => state_root
    end.
  Definition contract_id (salt root state_root : bytes) : bytes :=
    h (flat_map (feed salt root state_root) CONTRACT_ID_INPUTS).

  Definition predicate_owner (predicate : bytes) : option bytes :=
    do root <- root_from_code predicate;
    Some (h (flat_map (feed [] root []) PREDICATE_OWNER_INPUTS)).
  Definition is_predicate_owner_valid (owner predicate : bytes) : option bool :=
    do o <- predicate_owner predicate; Some (bytes_eqb owner o).

  (* ---------------------------------------------------------------- Create transactions *)
  Record create_tx := mkCreate {
    c_salt : bytes;
    c_bytecode : bytes;                         (* witnesses[bytecode_witness_index] *)
    c_slots : list (bytes * bytes);
    c_created : list (bytes * bytes);           (* the Output::ContractCreated {contract_id, state_root} outputs *)
  }.
  Record create_metadata := mkMeta { m_contract_id : bytes; m_contract_root : bytes; m_state_root : bytes }.

  (* CreateMetadata::compute *)
  Definition metadata_compute (tx : create_tx) : option create_metadata :=
    do contract_root <- root_from_code (c_bytecode tx);
    let state_root := initial_state_root (c_slots tx) in
    let id := contract_id (c_salt tx) contract_root state_root in
    Some (mkMeta id contract_root state_root).

  (* Create::check_unique_rules, the part about Output::ContractCreated: every such output
     must carry the computed id and state root, and there must be exactly one *)
  Definition check_contract_created (tx : create_tx) (md : option create_metadata) : option bool :=
    do m <- match md with Some m => Some m | None => metadata_compute tx end;
    Some (forallb (fun o => bytes_eqb (fst o) (m_contract_id m) && bytes_eqb (snd o) (m_state_root m)) (c_created tx)
          && Nat.eqb (length (c_created tx)) 1).

  (* ---------------------------------------------------------------- VM side *)
  (* ContractsRawCode / ContractsState of the storage, keyed by contract id *)
  Definition storage := list (bytes * (bytes * list (bytes * bytes))).
  Fixpoint st_get (s : storage) (id : bytes) : option (bytes * list (bytes * bytes)) :=
    match s with
    | [] => None
    | (k, v) :: r => if bytes_eqb k id then Some v else st_get r id
    end.

  Inductive deploy_result := DeployOk (s : storage) | DeployAlreadyDeployed | DeployPanic.

  (* deploy_inner up to deploy_contract_with_id (the fee/output part is property C18/C35):
     root, state root and id are taken from the cached metadata when present *)
  Definition deploy_inner (tx : create_tx) (md : option create_metadata) (s : storage) : deploy_result :=
    match (match md with Some m => Some m | None => metadata_compute tx end) with
    | None => DeployPanic
    | Some m =>
        let id := m_contract_id m in
        match st_get s id with
        | Some _ => DeployAlreadyDeployed
        | None => DeployOk ((id, (c_bytecode tx, c_slots tx)) :: s)
        end
    end.

  (* CROO: storage_contract(&contract_id)?.root()  —  Contract::root = root_from_code(self) *)
  Inductive croo_result := CrooOk (root : bytes) | CrooContractNotFound | CrooPanic.
  Definition code_root (s : storage) (id : bytes) : croo_result :=
    match st_get s id with
    | None => CrooContractNotFound
    | Some (code, _) => match root_from_code code with Some r => CrooOk r | None => CrooPanic end
    end.
End IdsModel.
