(* Ids/IdsSpec.v — L3 specification of the identifiers of property C15, written from the
   property text and fuel-specs `identifiers/contract-id.md`, `identifiers/predicate-id.md`,
   independently of the Rust code:

     code root      = binary Merkle root (RFC 6962 MTH, Merkle/RFC6962.v) of the code split into
                      16 KiB chunks, the final partial chunk zero-padded to a multiple of 8 bytes
     state root     = compact sparse Merkle root (Merkle/SparseSpec.v, depth 256) of the map
                      { SHA-256(slot key)  |->  slot value }
     contract id    = SHA-256( "FUEL" || salt || code root || state root )
     predicate owner= SHA-256( "FUEL" || code root of the predicate )

   The hash [h] is a Section variable; nothing is assumed about it. *)
From FV Require Import Base.Bytes Merkle.RFC6962 Merkle.SparseSpec.
Open Scope N_scope.

(* ---------------------------------------------------------------- bits <-> bytes (MSB first) *)
Definition byte_bits (b : N) : list bool :=
  [N.testbit b 7; N.testbit b 6; N.testbit b 5; N.testbit b 4; N.testbit b 3; N.testbit b 2; N.testbit b 1; N.testbit b 0].
Definition bits_of_bytes (bs : bytes) : list bool := flat_map byte_bits bs.
Definition bit_val (b : bool) : N := if b then 1 else 0.
Fixpoint bytes_of_bits (l : list bool) : bytes :=
  match l with
  | b7 :: b6 :: b5 :: b4 :: b3 :: b2 :: b1 :: b0 :: r =>
      (128 * bit_val b7 + 64 * bit_val b6 + 32 * bit_val b5 + 16 * bit_val b4
       + 8 * bit_val b3 + 4 * bit_val b2 + 2 * bit_val b1 + bit_val b0) :: bytes_of_bits r
  | _ => []
  end.

(* ---------------------------------------------------------------- chunking (index based) *)
Definition ceil_div (a b : N) : N := (a + b - 1) / b.
(* the i-th chunk of size L: bytes [i*L, min((i+1)*L, len)) *)
Definition chunk_at (L : nat) (c : bytes) (i : nat) : bytes := firstn L (skipn (i * L) c).
Definition chunks_of (L : N) (c : bytes) : list bytes :=
  map (chunk_at (N.to_nat L) c) (seq 0 (N.to_nat (ceil_div (lenN c) L))).
(* zero padding up to the next multiple of m *)
Definition pad_to_multiple (m : N) (b : bytes) : bytes :=
  b ++ zeros (N.to_nat ((m - lenN b mod m) mod m)).
(* only the final chunk is padded *)
Definition pad_last (m : N) (cs : list bytes) : list bytes :=
  match rev cs with
  | [] => []
  | l :: r => rev r ++ [pad_to_multiple m l]
  end.

Definition KIB16 : N := 16384.
Definition code_leaves (code : bytes) : list bytes := pad_last 8 (chunks_of KIB16 code).

Definition FUEL_SEED : bytes := [0x46; 0x55; 0x45; 0x4C].     (* "FUEL" *)

Section IdsSpec.
  Variable h : bytes -> bytes.                     (* SHA-256 *)

  (* binary Merkle tree of fuel-specs: leaves prefixed 0x00, nodes 0x01, empty = h "" *)
  Definition leaf_hash (d : bytes) : bytes := h (0 :: d).
  Definition node_hash (l r : bytes) : bytes := h (1 :: l ++ r).
  Definition empty_hash : bytes := h [].

  Definition spec_code_root (code : bytes) : bytes :=
    MTH leaf_hash node_hash empty_hash (code_leaves code).

  (* sparse Merkle tree of fuel-specs: leaf = h(0x00 || key || h(value)), placeholder = 32 zero bytes *)
  Definition sparse_leaf (k : key) (v : bytes) : bytes := h (0 :: bytes_of_bits k ++ h v).
  Definition slot_map (slots : list (bytes * bytes)) : @smap bytes :=
    map_of_list (map (fun s => (bits_of_bytes (h (fst s)), snd s)) slots).
  Definition spec_state_root (slots : list (bytes * bytes)) : bytes :=
    smt_root (zeros 32) sparse_leaf node_hash 256 (slot_map slots).

  Definition spec_contract_id_of_roots (salt root state_root : bytes) : bytes :=
    h (FUEL_SEED ++ salt ++ root ++ state_root).
  Definition spec_contract_id (salt code : bytes) (slots : list (bytes * bytes)) : bytes :=
    spec_contract_id_of_roots salt (spec_code_root code) (spec_state_root slots).
  Definition spec_predicate_owner (predicate : bytes) : bytes :=
    h (FUEL_SEED ++ spec_code_root predicate).
End IdsSpec.
