(* Ids/IdsProofs.v — proofs for property C15: the L1 model of Ids/IdsModel.v (which mirrors the
   Rust code) computes the identifiers of the L3 specification Ids/IdsSpec.v. *)
From FV Require Import Base.Bytes Base.U64 Merkle.RFC6962 Merkle.BinaryModel Merkle.BinaryProofs
  Merkle.SparseSpec Gen.IdsConsts Ids.IdsSpec Ids.IdsModel.
From Coq Require Import ZArith Lia.
Open Scope N_scope.

(* lia with division/modulo by constants on N and Z *)
Ltac elia := zify; Z.to_euclidean_division_equations; lia.

(* ---------------------------------------------------------------- the constants read from the source *)
Lemma gen_leaf_size : LEAF_SIZE = KIB16.  Proof. reflexivity. Qed.
Lemma gen_multiple : MULTIPLE = 8.  Proof. reflexivity. Qed.
Lemma gen_padding_byte : PADDING_BYTE = 0.  Proof. reflexivity. Qed.
Lemma gen_seed : CONTRACT_ID_SEED = FUEL_SEED.  Proof. reflexivity. Qed.
Lemma gen_contract_id_inputs : CONTRACT_ID_INPUTS = [HSeed; HSalt; HRoot; HStateRoot].  Proof. reflexivity. Qed.
Lemma gen_predicate_owner_inputs : PREDICATE_OWNER_INPUTS = [HSeed; HRoot].  Proof. reflexivity. Qed.
(* the padded slice fits the scratch buffer only because the leaf size is a multiple of 8 *)
Lemma gen_leaf_multiple : LEAF_SIZE mod MULTIPLE = 0 /\ 0 < MULTIPLE /\ 0 < LEAF_SIZE /\ LEAF_SIZE < 2 ^ 32.
Proof. repeat split. Qed.

(* ---------------------------------------------------------------- list helpers *)
Lemma skipn_skipn' {A} (a b : nat) (l : list A) : skipn a (skipn b l) = skipn (b + a) l.
Proof.
  revert l; induction b as [|b IH]; intros l; [reflexivity|].
  destruct l as [|x l]; [now rewrite !skipn_nil|]. cbn [skipn Nat.add]. apply IH.
Qed.

Lemma lenN_skipn {A} (n : nat) (l : list A) : lenN (skipn n l) = lenN l - N.of_nat n.
Proof. unfold lenN. rewrite skipn_length. lia. Qed.
Lemma lenN_app {A} (a b : list A) : lenN (a ++ b) = lenN a + lenN b.
Proof. unfold lenN. rewrite app_length. lia. Qed.
Lemma lenN_nil_iff {A} (l : list A) : lenN l = 0 <-> l = [].
Proof. unfold lenN. destruct l; cbn [length]; split; intros H; try reflexivity; try discriminate; lia. Qed.

(* ---------------------------------------------------------------- chunking: index form = loop form *)
Section Chunks.
  Variable L : N.
  Hypothesis Lpos : 0 < L.
  Let n := N.to_nat L.

  Lemma ceil_div_0 : ceil_div 0 L = 0.
  Proof. unfold ceil_div. apply N.div_small. lia. Qed.

  Lemma ceil_div_step a : 0 < a -> ceil_div a L = N.succ (ceil_div (a - L) L).
  Proof.
    intros Ha. unfold ceil_div. destruct (N.le_gt_cases a L) as [Hle|Hgt].
    - replace (a - L) with 0 by lia. replace (0 + L - 1) with (L - 1) by lia.
      rewrite (N.div_small (L - 1) L) by lia.
      symmetry. apply (N.div_unique (a + L - 1) L 1 (a - 1)); lia.
    - replace (a + L - 1) with ((a - L + L - 1) + 1 * L) by lia.
      rewrite N.div_add by lia. lia.
  Qed.

  Lemma ceil_div_le a : ceil_div a L <= a.
  Proof.
    unfold ceil_div. destruct (N.eq_dec a 0) as [->|Ha].
    - rewrite N.div_small by lia. lia.
    - apply N.div_le_upper_bound; [lia|]. nia.
  Qed.

  Lemma chunks_of_nil : chunks_of L [] = [].
  Proof. unfold chunks_of. change (lenN (@nil N)) with 0. rewrite ceil_div_0. reflexivity. Qed.

  Lemma chunks_of_cons v : v <> [] ->
    chunks_of L v = firstn n v :: chunks_of L (skipn n v).
  Proof.
    intros Hv. unfold chunks_of. fold n.
    assert (Hlen : 0 < lenN v) by (destruct v; [congruence | unfold lenN; cbn [length]; lia]).
    rewrite (ceil_div_step (lenN v) Hlen).
    rewrite lenN_skipn. subst n. rewrite N2Nat.id. rewrite N2Nat.inj_succ.
    set (m := N.to_nat (ceil_div (lenN v - L) L)).
    cbn [seq map]. f_equal.
    rewrite <- seq_shift, map_map. apply map_ext. intros i.
    unfold chunk_at. rewrite skipn_skipn'. reflexivity.
  Qed.

  (* Chunks::next as modelled = the index-based definition *)
  Lemma chunks_loop_eq : forall fuel v, (length v <= fuel)%nat ->
    chunks_loop fuel n v = chunks_of L v.
  Proof.
    induction fuel as [|f IH]; intros v Hf.
    - destruct v; [|cbn [length] in Hf; lia]. cbn [chunks_loop]. now rewrite chunks_of_nil.
    - destruct v as [|x v']; [cbn [chunks_loop]; now rewrite chunks_of_nil|].
      cbn [chunks_loop]. set (v := x :: v') in *. cbv zeta.
      rewrite (chunks_of_cons v) by (subst v; congruence).
      assert (Hn : (0 < n)%nat) by (subst n; lia).
      assert (E1 : firstn (Nat.min (length v) n) v = firstn n v).
      { destruct (Nat.le_gt_cases (length v) n) as [H|H].
        - rewrite Nat.min_l by exact H. rewrite firstn_all. symmetry. now apply firstn_all2.
        - rewrite Nat.min_r by lia. reflexivity. }
      assert (E2 : skipn (Nat.min (length v) n) v = skipn n v).
      { destruct (Nat.le_gt_cases (length v) n) as [H|H].
        - rewrite Nat.min_l by exact H. rewrite skipn_all. symmetry. now apply skipn_all2.
        - rewrite Nat.min_r by lia. reflexivity. }
      rewrite E1, E2. f_equal. apply IH. rewrite skipn_length. subst v. cbn [length] in *. lia.
  Qed.

  Lemma slice_chunks_eq v : slice_chunks n v = Some (chunks_of L v).
  Proof.
    unfold slice_chunks. destruct n eqn:E; [subst n; lia|]. rewrite <- E.
    f_equal. apply chunks_loop_eq. lia.
  Qed.

  (* shape: every chunk but the last has exactly L bytes; the last has 1..L bytes; the
     chunks concatenate to the input *)
  Lemma chunks_shape : forall fuel v, (length v <= fuel)%nat -> v <> [] ->
    exists full last, chunks_of L v = full ++ [last] /\
      Forall (fun c => lenN c = L) full /\ 0 < lenN last <= L.
  Proof.
    induction fuel as [|f IH]; intros v Hf Hv.
    - destruct v; [congruence | cbn [length] in Hf; lia].
    - rewrite (chunks_of_cons v Hv).
      assert (Hn : (0 < n)%nat) by (subst n; lia).
      destruct (Nat.le_gt_cases (length v) n) as [Hle|Hgt].
      + rewrite (skipn_all2 v Hle), chunks_of_nil. rewrite (firstn_all2 v Hle).
        exists [], v. split; [reflexivity|]. split; [constructor|].
        unfold lenN. destruct v; [congruence|]. cbn [length] in *. subst n. lia.
      + destruct (IH (skipn n v)) as [full [last [E [HF HL]]]].
        * rewrite skipn_length. lia.
        * intros C. apply (f_equal (@length N)) in C. rewrite skipn_length in C. cbn [length] in C. lia.
        * exists (firstn n v :: full), last. rewrite E. split; [reflexivity|]. split; [|exact HL].
          constructor; [|exact HF]. unfold lenN. rewrite firstn_length. subst n. lia.
  Qed.

  Lemma chunks_concat : forall fuel v, (length v <= fuel)%nat -> concat (chunks_of L v) = v.
  Proof.
    induction fuel as [|f IH]; intros v Hf.
    - destruct v; [now rewrite chunks_of_nil | cbn [length] in Hf; lia].
    - destruct v as [|x v']; [now rewrite chunks_of_nil|].
      set (v := x :: v') in *. rewrite (chunks_of_cons v) by (subst v; congruence).
      cbn [concat]. rewrite IH.
      + apply firstn_skipn.
      + rewrite skipn_length. subst v. cbn [length] in *. subst n. lia.
  Qed.

  Lemma chunks_count v : lenN (chunks_of L v) <= lenN v.
  Proof.
    unfold chunks_of, lenN. rewrite map_length, seq_length, N2Nat.id. apply ceil_div_le.
  Qed.
End Chunks.

(* ---------------------------------------------------------------- padding *)
Lemma pad_full m c : 0 < m -> lenN c mod m = 0 -> pad_to_multiple m c = c.
Proof.
  intros Hm H. unfold pad_to_multiple. rewrite H, N.sub_0_r, N.mod_same by lia.
  cbn [N.to_nat zeros repeat]. apply app_nil_r.
Qed.

Lemma pad_last_snoc m full last : pad_last m (full ++ [last]) = full ++ [pad_to_multiple m last].
Proof. unfold pad_last. rewrite rev_app_distr. cbn [rev app]. now rewrite rev_involutive. Qed.

Lemma map_pad_shape m L full last : 0 < m -> L mod m = 0 ->
  Forall (fun c => lenN c = L) full ->
  map (pad_to_multiple m) (full ++ [last]) = pad_last m (full ++ [last]).
Proof.
  intros Hm HL HF. rewrite pad_last_snoc, map_app. cbn [map]. f_equal.
  induction HF as [|c r Hc _ IH]; [reflexivity|]. cbn [map]. rewrite IH. f_equal.
  apply pad_full; [exact Hm | now rewrite Hc].
Qed.

Lemma pad_length_multiple m c : 0 < m -> lenN (pad_to_multiple m c) mod m = 0.
Proof.
  intros Hm. unfold pad_to_multiple. rewrite lenN_app. unfold zeros, lenN at 2.
  rewrite repeat_length, N2Nat.id.
  set (a := lenN c). pose proof (N.mod_upper_bound a m ltac:(lia)) as Hr.
  rewrite (N.div_mod a m) at 1 by lia. set (r := a mod m) in *.
  destruct (N.eq_dec r 0) as [->|Hr0].
  - rewrite N.sub_0_r, N.mod_same, !N.add_0_r by lia. rewrite N.mul_comm. apply N.mod_mul. lia.
  - rewrite (N.mod_small (m - r) m) by lia.
    replace (m * (a / m) + r + (m - r)) with ((a / m + 1) * m) by lia. apply N.mod_mul. lia.
Qed.

(* ---------------------------------------------------------------- one chunk: what is pushed *)
Lemma firstn_app_repeat {A} (l : list A) (x : A) (k extra : nat) : (k <= extra)%nat ->
  firstn (length l + k) (l ++ repeat x extra) = l ++ repeat x k.
Proof.
  intros H. rewrite firstn_app. rewrite firstn_all2 by lia. f_equal.
  replace (length l + k - length l)%nat with k by lia.
  replace extra with (k + (extra - k))%nat by lia. rewrite repeat_app.
  rewrite firstn_app, repeat_length, Nat.sub_diag. cbn [firstn]. rewrite app_nil_r.
  apply firstn_all2. rewrite repeat_length. lia.
Qed.

Lemma leaf_of_chunk_spec c : 0 < lenN c <= KIB16 ->
  leaf_of_chunk c = Some (pad_to_multiple 8 c).
Proof.
  intros [H0 H1]. unfold leaf_of_chunk. rewrite gen_multiple, gen_leaf_size, gen_padding_byte.
  change (8 =? 0) with false. cbv iota.
  set (len := lenN c) in *. unfold KIB16 in *.
  destruct ((len =? 16384) || (len mod 8 =? 0)) eqn:E.
  - f_equal. symmetry. apply pad_full; [lia|].
    apply orb_true_iff in E as [E|E]; [apply N.eqb_eq in E; unfold len in E; rewrite E; reflexivity | apply N.eqb_eq in E; exact E].
  - apply orb_false_iff in E as [E1 E2]. apply N.eqb_neq in E1. apply N.eqb_neq in E2.
    unfold next_multiple_of. change (8 =? 0) with false. cbv iota.
    set (r := len mod 8) in *. pose proof (N.mod_upper_bound len 8 ltac:(lia)) as Hr. fold r in Hr.
    assert (E3 : (r =? 0) = false) by (apply N.eqb_neq; exact E2). rewrite E3.
    unfold checked_add, U64.
    assert (E4 : (len + (8 - r) <? 18446744073709551616) = true) by (apply N.ltb_lt; lia). rewrite E4.
    cbn [opt_bind].
    assert (E5 : (16384 <? len) = false) by (apply N.ltb_ge; lia). rewrite E5.
    assert (Hps : len + (8 - r) <= 16384) by (subst r; elia).
    assert (E6 : (16384 <? len + (8 - r)) = false) by (apply N.ltb_ge; exact Hps). rewrite E6.
    f_equal. unfold pad_to_multiple, zeros. change (lenN c) with len. change (len mod 8) with r.
    rewrite (N.mod_small (8 - r) 8) by lia.
    replace (N.to_nat (len + (8 - r))) with (length c + N.to_nat (8 - r))%nat by (unfold len, lenN; lia).
    apply firstn_app_repeat. unfold len, lenN in *. lia.
Qed.

(* ---------------------------------------------------------------- code root *)
Section CodeRoot.
  Variable h : bytes -> bytes.

  Lemma push_chunks_map (f : bytes -> bytes) : forall cs st,
    (forall c, In c cs -> leaf_of_chunk c = Some (f c)) ->
    push_chunks h st cs = calc_push_all (leaf_sum h) (node_sum h) st (map f cs).
  Proof.
    induction cs as [|c r IH]; intros st H; [reflexivity|].
    cbn [push_chunks map calc_push_all]. rewrite (H c (or_introl eq_refl)). cbn [opt_bind].
    destruct (calc_push (leaf_sum h) (node_sum h) st (f c)) as [s|]; cbn [opt_bind]; [|reflexivity].
    apply IH. intros c' Hc'. apply H. now right.
  Qed.

  (* the leaves pushed by root_from_code are the specification's leaves *)
  Lemma pushed_leaves code :
    (forall c, In c (chunks_of KIB16 code) -> leaf_of_chunk c = Some (pad_to_multiple 8 c)) /\
    map (pad_to_multiple 8) (chunks_of KIB16 code) = code_leaves code.
  Proof.
    assert (HL : 0 < KIB16) by (unfold KIB16; lia).
    destruct code as [|x code'].
    - rewrite (chunks_of_nil KIB16 HL). split; [intros c []|]. unfold code_leaves. now rewrite (chunks_of_nil KIB16 HL).
    - set (code := x :: code').
      destruct (chunks_shape KIB16 HL (length code) code (Nat.le_refl _) ltac:(subst code; congruence))
        as [full [last [E [HF HLast]]]].
      unfold code_leaves. rewrite E. split.
      + intros c Hc. apply leaf_of_chunk_spec. apply in_app_or in Hc as [Hc|[<-|[]]].
        * rewrite Forall_forall in HF. rewrite (HF c Hc). unfold KIB16. lia.
        * exact HLast.
      + apply (map_pad_shape 8 KIB16); [lia | reflexivity | exact HF].
  Qed.

  Theorem root_from_code_is_MTH (code : bytes) : lenN code < 2 ^ 63 ->
    root_from_code h code = Some (spec_code_root h code).
  Proof.
    intros Hb. unfold root_from_code. rewrite gen_leaf_size.
    rewrite (slice_chunks_eq KIB16 ltac:(unfold KIB16; lia)). cbn [opt_bind].
    destruct (pushed_leaves code) as [H1 H2].
    rewrite (push_chunks_map (pad_to_multiple 8) _ [] H1). rewrite H2.
    pose proof (calculator_root_is_MTH (leaf_sum h) (node_sum h) (empty_sum h) (code_leaves code)) as HC.
    unfold root_from_iterator in HC. unfold spec_code_root.
    change (leaf_hash h) with (leaf_sum h). change (node_hash h) with (node_sum h).
    change (empty_hash h) with (empty_sum h).
    apply HC. rewrite <- H2. rewrite map_length.
    pose proof (chunks_count KIB16 ltac:(unfold KIB16; lia) code) as Hc. unfold lenN in *. lia.
  Qed.

  (* chunking facts of the property text, about the specification's leaves *)
  Theorem code_leaves_facts (code : bytes) :
    (code = [] -> code_leaves code = []) /\
    (code <> [] -> exists full last,
        chunks_of KIB16 code = full ++ [last] /\
        code_leaves code = full ++ [pad_to_multiple 8 last] /\
        Forall (fun c => lenN c = KIB16) full /\ 0 < lenN last <= KIB16 /\
        concat (full ++ [last]) = code /\
        lenN (pad_to_multiple 8 last) mod 8 = 0 /\ lenN (pad_to_multiple 8 last) < lenN last + 8).
  Proof.
    assert (HL : 0 < KIB16) by (unfold KIB16; lia). split.
    - intros ->. unfold code_leaves. now rewrite (chunks_of_nil KIB16 HL).
    - intros Hne.
      destruct (chunks_shape KIB16 HL (length code) code (Nat.le_refl _) Hne) as [full [last [E [HF HLast]]]].
      exists full, last. split; [exact E|]. split; [unfold code_leaves; rewrite E; apply pad_last_snoc|].
      split; [exact HF|]. split; [exact HLast|]. split.
      + rewrite <- E. apply (chunks_concat KIB16 HL (length code)). lia.
      + split; [apply pad_length_multiple; lia|].
        unfold pad_to_multiple. rewrite lenN_app. unfold zeros, lenN at 2. rewrite repeat_length, N2Nat.id.
        pose proof (N.mod_upper_bound (8 - lenN last mod 8) 8 ltac:(lia)). lia.
  Qed.

  Theorem root_from_code_empty : root_from_code h [] = Some (h []) /\ spec_code_root h [] = h [].
  Proof. split; reflexivity. Qed.

  (* ---------------------------------------------------------------- state root, ids *)
  (* contract of the sparse-tree oracle = property C12 (`root_from_set` computes the compact
     sparse Merkle root of the map collected from the pairs, last duplicate wins; values are
     hashed inside the leaf) *)
  Definition root_from_set_contract (rfs : list (bytes * bytes) -> bytes) : Prop :=
    forall kvs, rfs kvs =
      smt_root (zeros 32) (sparse_leaf h) (node_hash h) 256
               (map_of_list (map (fun e => (bits_of_bytes (fst e), snd e)) kvs)).

  Variable rfs : list (bytes * bytes) -> bytes.

  Theorem initial_state_root_is_spec slots : root_from_set_contract rfs ->
    initial_state_root h rfs slots = spec_state_root h slots.
  Proof.
    intros C. unfold initial_state_root, spec_state_root, slot_map. rewrite C, map_map. reflexivity.
  Qed.

  Theorem contract_id_is_spec salt root state_root :
    contract_id h salt root state_root = spec_contract_id_of_roots h salt root state_root.
  Proof.
    unfold contract_id, spec_contract_id_of_roots. rewrite gen_contract_id_inputs.
    cbn [flat_map feed]. rewrite gen_seed, app_nil_r. reflexivity.
  Qed.

  Theorem predicate_owner_is_spec p : lenN p < 2 ^ 63 ->
    predicate_owner h p = Some (spec_predicate_owner h p).
  Proof.
    intros Hb. unfold predicate_owner. rewrite (root_from_code_is_MTH p Hb). cbn [opt_bind].
    rewrite gen_predicate_owner_inputs. cbn [flat_map feed]. rewrite gen_seed, app_nil_r. reflexivity.
  Qed.

  Theorem is_predicate_owner_valid_iff owner p : lenN p < 2 ^ 63 ->
    exists b, is_predicate_owner_valid h owner p = Some b /\ (b = true <-> owner = spec_predicate_owner h p).
  Proof.
    intros Hb. unfold is_predicate_owner_valid. rewrite (predicate_owner_is_spec p Hb). cbn [opt_bind].
    eexists. split; [reflexivity|]. apply bytes_eqb_eq.
  Qed.

  (* ---------------------------------------------------------------- Create metadata, deployment, CROO *)
  Theorem metadata_compute_is_spec tx : root_from_set_contract rfs -> lenN (c_bytecode tx) < 2 ^ 63 ->
    metadata_compute h rfs tx =
      Some (mkMeta (spec_contract_id h (c_salt tx) (c_bytecode tx) (c_slots tx))
                   (spec_code_root h (c_bytecode tx)) (spec_state_root h (c_slots tx))).
  Proof.
    intros C Hb. unfold metadata_compute. rewrite (root_from_code_is_MTH _ Hb). cbn [opt_bind].
    rewrite contract_id_is_spec, (initial_state_root_is_spec _ C). reflexivity.
  Qed.

  Lemma st_get_head s id v : st_get ((id, v) :: s) id = Some v.
  Proof. cbn [st_get]. now rewrite (proj2 (bytes_eqb_eq id id) eq_refl). Qed.

  (* a Create transaction whose cached metadata is what CreateMetadata::compute returns (or
     that has no cached metadata) is stored under the specification's contract id, with
     exactly its bytecode and slots; and it is refused iff that id is already taken *)
  Theorem deploy_uses_spec_id tx md s : root_from_set_contract rfs -> lenN (c_bytecode tx) < 2 ^ 63 ->
    (md = None \/ md = metadata_compute h rfs tx) ->
    let id := spec_contract_id h (c_salt tx) (c_bytecode tx) (c_slots tx) in
    match st_get s id with
    | Some _ => deploy_inner h rfs tx md s = DeployAlreadyDeployed
    | None => exists s', deploy_inner h rfs tx md s = DeployOk s' /\
                         st_get s' id = Some (c_bytecode tx, c_slots tx) /\
                         (forall id', id' <> id -> st_get s' id' = st_get s id')
    end.
  Proof.
    intros C Hb Hmd id.
    assert (E : match md with Some m => Some m | None => metadata_compute h rfs tx end
                = Some (mkMeta id (spec_code_root h (c_bytecode tx)) (spec_state_root h (c_slots tx)))).
    { destruct Hmd as [-> | ->]; rewrite (metadata_compute_is_spec tx C Hb); reflexivity. }
    unfold deploy_inner. rewrite E. cbn [m_contract_id].
    destruct (st_get s id) eqn:G; [reflexivity|].
    eexists. split; [reflexivity|]. split; [apply st_get_head|].
    intros id' Hne. cbn [st_get].
    destruct (bytes_eqb id id') eqn:B; [apply bytes_eqb_eq in B; congruence | reflexivity].
  Qed.

  (* the ContractCreated output accepted by the Create rules names the specification's id and state root *)
  Theorem contract_created_is_spec tx md : root_from_set_contract rfs -> lenN (c_bytecode tx) < 2 ^ 63 ->
    (md = None \/ md = metadata_compute h rfs tx) ->
    check_contract_created h rfs tx md = Some true ->
    c_created tx = [(spec_contract_id h (c_salt tx) (c_bytecode tx) (c_slots tx), spec_state_root h (c_slots tx))].
  Proof.
    intros C Hb Hmd. unfold check_contract_created.
    assert (E : match md with Some m => Some m | None => metadata_compute h rfs tx end
                = metadata_compute h rfs tx) by (destruct Hmd as [-> | ->]; [reflexivity | now destruct (metadata_compute h rfs tx)]).
    rewrite E, (metadata_compute_is_spec tx C Hb). cbn [opt_bind m_contract_id m_state_root].
    intros H. injection H as H. apply andb_true_iff in H as [H1 H2].
    destruct (c_created tx) as [|[a b] [|? ?]]; cbn [length Nat.eqb] in H2; try discriminate.
    cbn [forallb fst snd] in H1. rewrite andb_true_r in H1. apply andb_true_iff in H1 as [Ha Hb'].
    apply bytes_eqb_eq in Ha. apply bytes_eqb_eq in Hb'. now subst.
  Qed.

  (* CROO on a stored contract writes the specification's code root of the stored bytecode *)
  Theorem croo_is_spec s id code slots : st_get s id = Some (code, slots) -> lenN code < 2 ^ 63 ->
    code_root h s id = CrooOk (spec_code_root h code).
  Proof. intros G Hb. unfold code_root. rewrite G, (root_from_code_is_MTH code Hb). reflexivity. Qed.

  Corollary deploy_then_croo tx s s' : root_from_set_contract rfs -> lenN (c_bytecode tx) < 2 ^ 63 ->
    deploy_inner h rfs tx (metadata_compute h rfs tx) s = DeployOk s' ->
    code_root h s' (spec_contract_id h (c_salt tx) (c_bytecode tx) (c_slots tx))
      = CrooOk (spec_code_root h (c_bytecode tx)).
  Proof.
    intros C Hb HD.
    pose proof (deploy_uses_spec_id tx (metadata_compute h rfs tx) s C Hb (or_intror eq_refl)) as H.
    cbv zeta in H. destruct (st_get s _) eqn:G.
    - rewrite H in HD. discriminate.
    - destruct H as [s'' [E [G' _]]]. rewrite E in HD. injection HD as <-.
      apply (croo_is_spec _ _ _ _ G' Hb).
  Qed.
End CodeRoot.

(* ---------------------------------------------------------------- the premises are satisfiable *)
(* the oracle contract holds of the specification function itself *)
Example root_from_set_contract_sat (h : bytes -> bytes) : exists rfs, root_from_set_contract h rfs.
Proof. eexists. intros kvs. reflexivity. Qed.

(* a 3-byte code is padded to 8 bytes; an 8-byte code is not padded (toy hash: identity) *)
Example code_leaves_small :
  code_leaves [1; 2; 3] = [[1; 2; 3; 0; 0; 0; 0; 0]] /\ code_leaves [1; 2; 3; 4; 5; 6; 7; 8] = [[1; 2; 3; 4; 5; 6; 7; 8]].
Proof. split; vm_compute; reflexivity. Qed.
