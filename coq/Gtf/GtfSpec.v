(* Gtf/GtfSpec.v — L3 specification of GTF / GM (property C05), written from the selector
   descriptions of fuel-asm/src/args.rs / the fuel-specs GTF table ("Set $rA to tx.inputs[$rB].amount",
   "Set $rA to Memory address of tx.inputs[$rB].owner", ...), independent of metadata.rs:

   every GTF selector DENOTES either a field of the transaction placed in VM memory — named by a
   C04 selector into the canonical encoding — that is returned by value or by address, or a
   configured quantity, or the panic specified for an absent index / a selector of another
   transaction kind.  [gtf_spec] is that total decision table.  Definitions only. *)
From FV Require Export Codec.CodecModel Gen.Schemas Gen.GtfTable TxId.IdSyntax TxId.IdSpec Offsets.OffsetSpec.
Local Open Scope string_scope.
Local Open Scope list_scope.
Open Scope N_scope.

Inductive gspec : Type :=
| SpValue (s : sel)       (* the unsigned integer whose canonical (static) bytes are at s *)
| SpHead (s : sel)        (* the first word of the encoding at s: a discriminant *)
| SpPointer (s : sel)     (* tx_offset + position of s; memory there holds exactly the bytes of s *)
| SpConst (n : N)
| SpPolicy (k : nat)      (* value of policy k (Tip, WitnessLimit, Maturity, MaxFee, Expiration, Owner) *)
| SpPolicyBits
| SpTxLength              (* the size of the transaction in memory *)
| SpContractOutput        (* index of the Output::Contract whose input_index is $rB *)
| SpPanic (r : N).

(* the part of the (prepared) transaction the table looks at *)
Definition fields_of (t : ty) (v : val) (name : string) : list val :=
  match struct_field name t v with Some (VL xs) => xs | _ => [] end.
Definition variant_of (v : val) : nat := match v with VE j _ => j | _ => 99%nat end.
Definition nth_small {A} (l : list A) (b : N) : option (nat * A) :=
  if b <? N.of_nat (length l) then
    match nth_error l (N.to_nat b) with Some x => Some (N.to_nat b, x) | None => None end
  else None.

Definition inp (i : nat) (j : nat) (field : list string) (p : part) : sel :=
  SField "inputs" (SElem i (SVariant (nth j input_names "")
    (fold_right (fun n acc => SField n acc) (SHere p) field))).
Definition outp (i : nat) (j : nat) (field : list string) (p : part) : sel :=
  SField "outputs" (SElem i (SVariant (nth j output_names "")
    (fold_right (fun n acc => SField n acc) (SHere p) field))).
Definition bodyp (field : string) (p : part) : sel := SField "body" (SField field (SHere p)).

Section Spec.
Variable k : kind.
Variable v : val.          (* the transaction as placed in memory *)
Variable b : N.            (* $rB *)
Let T := kind_ty k.
Let ins := fields_of T v "inputs".
Let outs := fields_of T v "outputs".
Let wits := fields_of T v "witnesses".
Let body : val := match struct_field "body" T v with Some x => x | None => VUnit end.
Definition body_ty_of : ty :=
  match k with
  | KScript => S_ScriptBody | KCreate => S_CreateBody | KUpgrade => S_UpgradeBody
  | KUpload => S_UploadBody | KBlob => S_BlobBody | KMint => TOpaque ""
  end.
Definition body_list (name : string) : list val := fields_of body_ty_of body name.

(* selector of a particular transaction kind: InvalidMetadataIdentifier for the others *)
Definition only (want : kind) (r : gspec) : gspec :=
  if String.eqb (kind_name k) (kind_name want) then r else SpPanic P_InvalidMetadataIdentifier.
(* selector of input $rB, defined for the variants in [js]; [absent] otherwise / out of range *)
Definition on_input (js : list nat) (absent : N) (f : nat -> nat -> gspec) : gspec :=
  match nth_small ins b with
  | Some (i, iv) => if mem_nat (variant_of iv) js then f i (variant_of iv) else SpPanic absent
  | None => SpPanic absent
  end.
Definition on_output (js : list nat) (absent : N) (f : nat -> nat -> gspec) : gspec :=
  match nth_small outs b with
  | Some (i, ov) => if mem_nat (variant_of ov) js then f i (variant_of ov) else SpPanic absent
  | None => SpPanic absent
  end.
Definition on_index (l : list val) (absent : N) (f : nat -> gspec) : gspec :=
  match nth_small l b with Some (i, _) => f i | None => SpPanic absent end.

Definition coins : list nat := [0; 1]%nat.
Definition messages : list nat := [3; 4; 5; 6]%nat.
Definition NF := P_InputNotFound.
Definition ONF := P_OutputNotFound.

Definition gtf_spec (a : gtf_arg) : gspec :=
  match a with
  | GTF_Type => match zlookup (kind_name k) TransactionRepr_discriminants with Some n => SpConst n | None => SpPanic P_InvalidMetadataIdentifier end
  | GTF_ScriptGasLimit => match k with KScript => SpValue (bodyp "script_gas_limit" PStatic) | _ => SpConst 0 end
  | GTF_ScriptLength => only KScript (SpValue (bodyp "script" PStatic))
  | GTF_ScriptDataLength => only KScript (SpValue (bodyp "script_data" PStatic))
  | GTF_Script => only KScript (SpPointer (bodyp "script" PDynamic))
  | GTF_ScriptData => only KScript (SpPointer (bodyp "script_data" PDynamic))
  | GTF_ScriptInputsCount | GTF_CreateInputsCount | GTF_TxInputsCount => SpValue (fld "inputs" PStatic)
  | GTF_ScriptOutputsCount | GTF_CreateOutputsCount | GTF_TxOutputsCount => SpValue (fld "outputs" PStatic)
  | GTF_ScriptWitnessesCount | GTF_CreateWitnessesCount | GTF_TxWitnessesCount => SpValue (fld "witnesses" PStatic)
  | GTF_ScriptInputAtIndex | GTF_CreateInputAtIndex | GTF_TxInputAtIndex =>
      on_index ins NF (fun i => SpPointer (SField "inputs" (SElem i (SHere PFull))))
  | GTF_ScriptOutputAtIndex | GTF_CreateOutputAtIndex | GTF_TxOutputAtIndex =>
      on_index outs ONF (fun i => SpPointer (SField "outputs" (SElem i (SHere PFull))))
  | GTF_ScriptWitnessAtIndex | GTF_CreateWitnessAtIndex | GTF_TxWitnessAtIndex =>
      on_index wits P_WitnessNotFound (fun i => SpPointer (SField "witnesses" (SElem i (SHere PFull))))
  | GTF_TxLength => SpTxLength
  | GTF_CreateBytecodeWitnessIndex => only KCreate (SpValue (bodyp "bytecode_witness_index" PStatic))
  | GTF_CreateStorageSlotsCount => only KCreate (SpValue (bodyp "storage_slots" PStatic))
  | GTF_CreateSalt => only KCreate (SpPointer (bodyp "salt" PStatic))
  | GTF_CreateStorageSlotAtIndex =>
      only KCreate (on_index (body_list "storage_slots") P_StorageSlotsNotFound
                      (fun i => SpPointer (SField "body" (SField "storage_slots" (SElem i (SHere PFull))))))
  (* inputs *)
  | GTF_InputType => on_index ins NF (fun i => SpHead (SField "inputs" (SElem i (SHere PStatic))))
  | GTF_InputCoinTxId => on_input coins NF (fun i j => SpPointer (inp i j ["utxo_id"; "tx_id"] PStatic))
  | GTF_InputCoinOutputIndex => on_input coins NF (fun i j => SpValue (inp i j ["utxo_id"; "output_index"] PStatic))
  | GTF_InputCoinOwner => on_input coins NF (fun i j => SpPointer (inp i j ["owner"] PStatic))
  | GTF_InputCoinAmount => on_input coins NF (fun i j => SpValue (inp i j ["amount"] PStatic))
  | GTF_InputCoinAssetId => on_input coins NF (fun i j => SpPointer (inp i j ["asset_id"] PStatic))
  | GTF_InputCoinTxPointer => on_input coins NF (fun i j => SpPointer (inp i j ["tx_pointer"] PStatic))
  | GTF_InputCoinWitnessIndex => on_input [0]%nat NF (fun i j => SpValue (inp i j ["witness_index"] PStatic))
  | GTF_InputCoinPredicateLength => on_input coins NF (fun i j => SpValue (inp i j ["predicate"] PStatic))
  | GTF_InputCoinPredicateDataLength => on_input coins NF (fun i j => SpValue (inp i j ["predicate_data"] PStatic))
  | GTF_InputCoinPredicate => on_input [1]%nat NF (fun i j => SpPointer (inp i j ["predicate"] PDynamic))
  | GTF_InputCoinPredicateData => on_input [1]%nat NF (fun i j => SpPointer (inp i j ["predicate_data"] PDynamic))
  | GTF_InputCoinPredicateGasUsed => on_input [1]%nat NF (fun i j => SpValue (inp i j ["predicate_gas_used"] PStatic))
  | GTF_InputContractTxId => on_input [2]%nat NF (fun i j => SpPointer (inp i j ["utxo_id"; "tx_id"] PStatic))
  | GTF_InputContractOutputIndex => if b <? 65536 then SpContractOutput else SpPanic P_InvalidMetadataIdentifier
  | GTF_InputContractId => on_input [2]%nat NF (fun i j => SpPointer (inp i j ["contract_id"] PStatic))
  | GTF_InputMessageSender => on_input messages NF (fun i j => SpPointer (inp i j ["sender"] PStatic))
  | GTF_InputMessageRecipient => on_input messages NF (fun i j => SpPointer (inp i j ["recipient"] PStatic))
  | GTF_InputMessageAmount => on_input messages NF (fun i j => SpValue (inp i j ["amount"] PStatic))
  | GTF_InputMessageNonce => on_input messages NF (fun i j => SpPointer (inp i j ["nonce"] PStatic))
  | GTF_InputMessageWitnessIndex => on_input [3; 5]%nat NF (fun i j => SpValue (inp i j ["witness_index"] PStatic))
  | GTF_InputMessageDataLength => on_input messages NF (fun i j => SpValue (inp i j ["data"] PStatic))
  | GTF_InputMessagePredicateLength => on_input messages NF (fun i j => SpValue (inp i j ["predicate"] PStatic))
  | GTF_InputMessagePredicateDataLength => on_input messages NF (fun i j => SpValue (inp i j ["predicate_data"] PStatic))
  | GTF_InputMessageData => on_input messages NF (fun i j => SpPointer (inp i j ["data"] PDynamic))
  | GTF_InputMessagePredicate => on_input [4; 6]%nat NF (fun i j => SpPointer (inp i j ["predicate"] PDynamic))
  | GTF_InputMessagePredicateData => on_input [4; 6]%nat NF (fun i j => SpPointer (inp i j ["predicate_data"] PDynamic))
  | GTF_InputMessagePredicateGasUsed => on_input [4; 6]%nat NF (fun i j => SpValue (inp i j ["predicate_gas_used"] PStatic))
  (* outputs *)
  | GTF_OutputType => on_index outs ONF (fun i => SpHead (SField "outputs" (SElem i (SHere PStatic))))
  | GTF_OutputCoinTo => on_output [0; 2]%nat ONF (fun i j => SpPointer (outp i j ["to"] PStatic))
  | GTF_OutputCoinAmount => on_output [0]%nat ONF (fun i j => SpValue (outp i j ["amount"] PStatic))
  | GTF_OutputCoinAssetId => on_output [0; 2]%nat ONF (fun i j => SpPointer (outp i j ["asset_id"] PStatic))
  | GTF_OutputContractInputIndex => on_output [1]%nat P_InputNotFound (fun i j => SpValue (outp i j ["0"; "input_index"] PStatic))
  | GTF_OutputContractCreatedContractId => on_output [4]%nat ONF (fun i j => SpPointer (outp i j ["contract_id"] PStatic))
  | GTF_OutputContractCreatedStateRoot => on_output [4]%nat ONF (fun i j => SpPointer (outp i j ["state_root"] PStatic))
  (* witnesses *)
  | GTF_WitnessDataLength => on_index wits P_WitnessNotFound (fun i => SpValue (SField "witnesses" (SElem i (fld "data" PStatic))))
  | GTF_WitnessData => on_index wits P_WitnessNotFound (fun i => SpPointer (SField "witnesses" (SElem i (fld "data" PDynamic))))
  (* policies *)
  | GTF_PolicyTypes => SpPolicyBits
  | GTF_PolicyTip => SpPolicy 0
  | GTF_PolicyWitnessLimit => SpPolicy 1
  | GTF_PolicyMaturity => SpPolicy 2
  | GTF_PolicyMaxFee => SpPolicy 3
  | GTF_PolicyExpiration => SpPolicy 4
  | GTF_PolicyOwner => SpPolicy 5
  (* upload / blob / upgrade *)
  | GTF_UploadRoot => only KUpload (SpPointer (bodyp "root" PStatic))
  | GTF_UploadWitnessIndex => only KUpload (SpValue (bodyp "witness_index" PStatic))
  | GTF_UploadSubsectionIndex => only KUpload (SpValue (bodyp "subsection_index" PStatic))
  | GTF_UploadSubsectionsCount => only KUpload (SpValue (bodyp "subsections_number" PStatic))
  | GTF_UploadProofSetCount => only KUpload (SpValue (bodyp "proof_set" PStatic))
  | GTF_UploadProofSetAtIndex =>
      only KUpload (on_index (body_list "proof_set") P_ProofInUploadNotFound
                      (fun i => SpPointer (SField "body" (SField "proof_set" (SElem i (SHere PFull))))))
  | GTF_BlobId => only KBlob (SpPointer (bodyp "id" PStatic))
  | GTF_BlobWitnessIndex => only KBlob (SpValue (bodyp "witness_index" PStatic))
  | GTF_UpgradePurpose => only KUpgrade (SpPointer (bodyp "purpose" PStatic))
  end.
End Spec.

(* ---------------------------------------------------------------- GM *)
(* "The metadata queries for chain id, base asset, transaction start, gas price and owner return
   the configured values": what each GM selector is specified to return, in an external context
   (script or predicate) *)
Inductive gm_spec_res : Type :=
| GmChainId | GmBaseAssetPtr | GmTxStart | GmGasPrice | GmOwnerPtr | GmPredicateIndex | GmInternalOnly.
Definition gm_spec (a : gm_arg) : gm_spec_res :=
  match a with
  | GM_GetChainId => GmChainId
  | GM_BaseAssetId => GmBaseAssetPtr
  | GM_TxStart => GmTxStart
  | GM_GetGasPrice => GmGasPrice
  | GM_GetOwner => GmOwnerPtr
  | GM_GetVerifyingPredicate => GmPredicateIndex
  | GM_IsCallerExternal | GM_GetCaller => GmInternalOnly
  end.

(* ---------------------------------------------------------------- the owner of a transaction *)
(* "GM GetOwner": the owner of the input the Owner policy points at, if that policy is set;
   otherwise the owner shared by all inputs that have one (coin owner / message recipient),
   unknown if they differ or there is none *)
Definition owner_of_input (iv : val) : option val :=
  match iv with
  | VE j [x] =>
      let t := input_sel j S_CoinSigned S_CoinPredicate S_input_Contract S_MessageCoinSigned
                         S_MessageCoinPredicate S_MessageDataSigned S_MessageDataPredicate in
      if mem_nat j [0; 1]%nat then struct_field "owner" t x
      else if mem_nat j [3; 4; 5; 6]%nat then struct_field "recipient" t x else None
  | _ => None
  end.
Definition owner_spec (k : kind) (v : val) : option (nat * val) :=
  let ins := fields_of (kind_ty k) v "inputs" in
  let pol := match struct_field "policies" (kind_ty k) v with Some p => p | None => VUnit end in
  match pol with
  | VS (VN bits :: vs) =>
      if N.testbit bits 5 then
        match nth 5 vs VUnit with
        | VN i => match nth_small ins i with
                  | Some (j, iv) => match owner_of_input iv with Some o => Some (j, o) | None => None end
                  | None => None
                  end
        | _ => None
        end
      else
        let owners := flat_map (fun p => match owner_of_input (snd p) with Some o => [(fst p, o)] | None => [] end)
                               (combine (seq 0 (length ins)) ins) in
        match owners with
        | [] => None
        | (j, o) :: r => if forallb (fun q => val_eqb (snd q) o) r then Some (j, o) else None
        end
  | _ => None
  end.
