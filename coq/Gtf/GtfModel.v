(* Gtf/GtfModel.v — L1 executable model of in-VM transaction introspection (property C05):

     Interpreter::init_inner (fuel-vm initialization.rs)   [init_vm]: the transaction is prepared
        (prepare_sign), the owner pointer is computed, the Contract-output map is built, and the
        stack is initialised with  tx id ‖ base asset id ‖ balances area ‖ tx size ‖ tx bytes
     GTFInput::get_transaction_field (metadata.rs)          [gtf]: one arm per GTFArgs selector
     metadata (metadata.rs)                                 [gm]:  one arm per GMArgs selector

   Selectors are the inductive types generated from fuel-asm/src/args.rs (Gen/GtfTable.v): a
   selector added to the source makes the matches below non-exhaustive.  Offsets come from the
   C04 model (Offsets/OffsetModel.v), preparation from the C03 model (TxId/IdModel.v).
   Definitions only. *)
From FV Require Export Codec.CodecModel Gen.Schemas Gen.TxConsts Gen.GtfTable TxId.IdModel
     Offsets.OffsetSpec Offsets.OffsetModel.
Local Open Scope string_scope.
Local Open Scope list_scope.
Open Scope N_scope.

(* ---------------------------------------------------------------- results *)
Inductive gres : Type := GOk (v : N) | GPanic (reason : N).
Definition ok_or (o : option N) (r : N) : gres := match o with Some v => GOk v | None => GPanic r end.

(* ---------------------------------------------------------------- execution context *)
Inductive gctx : Type :=
| CtxScript
| CtxPredicateVerification (idx : N)
| CtxPredicateEstimation (idx : N)
| CtxCall (parent_fp : option N)          (* frames.last().registers[FP], None = no frame *)
| CtxNotInitialized.
Definition ctx_predicate (c : gctx) : option N :=
  match c with CtxPredicateVerification i | CtxPredicateEstimation i => Some i | _ => None end.

(* configured values (InterpreterParams) *)
Record gparams : Type := {
  p_chain_id : N;
  p_gas_price : N;
  p_base_asset : bytes;       (* 32 bytes *)
  p_max_inputs : N;
  p_tx_offset : N;
}.
(* TxParameters::tx_offset *)
Definition tx_offset_of (max_inputs : N) : N :=
  match cmul max_inputs BALANCE_ENTRY_SIZE with
  | Some b => sat b TX_OFFSET_FIXED
  | None => 0                                             (* the code panics *)
  end.

(* what the two instructions read from the interpreter *)
Record vmst : Type := {
  v_tx : otx;                          (* self.tx: prepared, with its cached metadata *)
  v_params : gparams;
  v_ctx : gctx;
  v_tx_size : N;                       (* the word stored just below the tx bytes *)
  v_owner_ptr : option N;
  v_contract_out : list (N * N);       (* input_contracts_index_to_output_index *)
}.

(* ---------------------------------------------------------------- value accessors *)
Definition num (v : val) : option N := match v with VN n => Some n | _ => None end.
Definition in_field (name : string) (iv : val) : option val :=
  match iv with VE i [x] => struct_field name (input_comp i) x | _ => None end.
Definition in_num (name : string) (iv : val) : option N := obind (in_field name iv) num.
Definition is_coin (iv : val) : bool := mem_nat (input_index iv) [0; 1]%nat.
Definition is_contract (iv : val) : bool := mem_nat (input_index iv) [2]%nat.
Definition is_message (iv : val) : bool := mem_nat (input_index iv) [3; 4; 5; 6]%nat.
(* Input::input_owner: coin owner / message recipient *)
Definition input_owner (iv : val) : option val :=
  if is_coin iv then in_field "owner" iv else if is_message iv then in_field "recipient" iv else None.

Definition output_variants : variants := match S_Output with TEnum vs => vs | _ => VNil end.
Definition output_index (ov : val) : nat := match ov with VE j _ => j | _ => 99%nat end.
Definition out_field (name : string) (ov : val) : option val :=
  match ov with
  | VE j vs => match nth_variant_named output_variants j with Some (_, fs) => get_field name fs vs | None => None end
  | _ => None
  end.
Definition policy_get (pol : val) (k : nat) : option N :=
  match pol with
  | VS (VN bits :: vs) => if N.testbit bits (N.of_nat k) then num (nth k vs VUnit) else None
  | _ => None
  end.
Definition policy_bits (pol : val) : N := match pol with VS (VN bits :: _) => bits | _ => 0 end.
Fixpoint assoc (k : N) (l : list (N * N)) : option N :=
  match l with [] => None | (a, b) :: r => if a =? k then Some b else assoc k r end.

(* ---------------------------------------------------------------- GTF *)
Section Gtf.
Variable st : vmst.
Let tx := v_tx st.
Let k := o_kind tx.
Let ofs := p_tx_offset (v_params st).
Variable b : N.

Definition input_b : option val := get (tx_inputs tx) b.
Definition output_b : option val := get (tx_outputs tx) b.
Definition witness_b : option val := get (tx_witnesses tx) b.
(* `ofs.saturating_add(X.ok_or(reason)?)` *)
Definition ptr (o : option N) (r : N) : gres := ok_or (omap (sat ofs) o) r.
(* tx.inputs().get(b).filter(F).map(Input::repr).and_then(|r| r.<f>())
     .and_then(|ofs| tx.inputs_offset_at(b).map(|o| o.saturating_add(ofs))) *)
Definition in_rel (filt : val -> bool) (rel : val -> option N) : option N :=
  obind input_b (fun iv => if filt iv then obind (rel iv) (fun o => omap (fun a => sat a o) (inputs_offset_at tx b)) else None).
Definition in_val (filt : val -> bool) (f : val -> option N) : option N :=
  obind input_b (fun iv => if filt iv then f iv else None).
Definition out_rel (filt : val -> bool) (f : outfn) : option N :=
  obind output_b (fun ov => if filt ov then obind (output_fn f ov) (fun o => omap (fun a => sat a o) (outputs_offset_at tx b)) else None).
Definition out_val (filt : val -> bool) (f : val -> option N) : option N :=
  obind output_b (fun ov => if filt ov then f ov else None).
Definition out_is (l : list nat) (ov : val) : bool := mem_nat (output_index ov) l.
Definition repr_code (tbl : list (string * N)) (name : string) : option N := zlookup name tbl.

Definition specific (want : kind) (r : gres) : gres :=
  if String.eqb (kind_name k) (kind_name want) then r else GPanic P_InvalidMetadataIdentifier.
Definition body_num (name : string) : option N := num (body_field tx name).

Definition gtf_eval (a : gtf_arg) : gres :=
  let NF := P_InputNotFound in
  match a with
  | GTF_Type => ok_or (repr_code TransactionRepr_discriminants (kind_name k)) P_InvalidMetadataIdentifier
  | GTF_ScriptGasLimit => GOk (match k with KScript => match body_num "script_gas_limit" with Some n => n | None => 0 end | _ => 0 end)
  | GTF_PolicyTypes => GOk (policy_bits (tx_policies tx))
  | GTF_PolicyTip => ok_or (policy_get (tx_policies tx) 0) P_PolicyIsNotSet
  | GTF_PolicyWitnessLimit => ok_or (policy_get (tx_policies tx) 1) P_PolicyIsNotSet
  | GTF_PolicyMaturity => ok_or (policy_get (tx_policies tx) 2) P_PolicyIsNotSet
  | GTF_PolicyMaxFee => ok_or (policy_get (tx_policies tx) 3) P_PolicyIsNotSet
  | GTF_PolicyExpiration => ok_or (policy_get (tx_policies tx) 4) P_PolicyIsNotSet
  | GTF_PolicyOwner => ok_or (policy_get (tx_policies tx) 5) P_PolicyIsNotSet
  | GTF_ScriptInputsCount | GTF_CreateInputsCount | GTF_TxInputsCount => GOk (lenN (tx_inputs tx))
  | GTF_ScriptOutputsCount | GTF_CreateOutputsCount | GTF_TxOutputsCount => GOk (lenN (tx_outputs tx))
  | GTF_ScriptWitnessesCount | GTF_CreateWitnessesCount | GTF_TxWitnessesCount => GOk (lenN (tx_witnesses tx))
  | GTF_ScriptInputAtIndex | GTF_CreateInputAtIndex | GTF_TxInputAtIndex => ptr (inputs_offset_at tx b) P_InputNotFound
  | GTF_ScriptOutputAtIndex | GTF_CreateOutputAtIndex | GTF_TxOutputAtIndex => ptr (outputs_offset_at tx b) P_OutputNotFound
  | GTF_ScriptWitnessAtIndex | GTF_CreateWitnessAtIndex | GTF_TxWitnessAtIndex => ptr (witnesses_offset_at tx b) P_WitnessNotFound
  | GTF_TxLength => GOk (v_tx_size st)
  (* inputs *)
  | GTF_InputType => ok_or (obind input_b (fun iv => repr_code InputRepr_discriminants (input_repr iv))) NF
  | GTF_InputCoinTxId => ptr (in_rel is_coin (input_fn UtxoIdOffset)) NF
  | GTF_InputCoinOutputIndex =>
      ok_or (in_val is_coin (fun iv => obind (in_field "utxo_id" iv) (fun u => obind (struct_field "output_index" S_UtxoId u) num))) NF
  | GTF_InputCoinOwner => ptr (in_rel is_coin (input_fn OwnerOffset)) NF
  | GTF_InputCoinAmount => ok_or (in_val is_coin (in_num "amount")) NF
  | GTF_InputCoinAssetId => ptr (in_rel is_coin (input_fn AssetIdOffset)) NF
  | GTF_InputCoinTxPointer => ptr (in_rel is_coin (input_fn TxPointerOffsetI)) NF
  | GTF_InputCoinWitnessIndex => ok_or (in_val is_coin (in_num "witness_index")) NF
  | GTF_InputCoinPredicateLength => ok_or (in_val is_coin predicate_len) NF
  | GTF_InputCoinPredicateDataLength => ok_or (in_val is_coin predicate_data_len) NF
  | GTF_InputCoinPredicateGasUsed => ok_or (in_val is_coin (in_num "predicate_gas_used")) NF
  | GTF_InputCoinPredicate => ptr (in_rel is_coin predicate_offset) NF
  | GTF_InputCoinPredicateData => ptr (in_rel is_coin predicate_data_offset) NF
  | GTF_InputContractTxId => ptr (in_rel is_contract (input_fn UtxoIdOffset)) NF
  | GTF_InputContractOutputIndex =>
      if b <? 65536 then ok_or (assoc b (v_contract_out st)) NF else GPanic P_InvalidMetadataIdentifier
  | GTF_InputContractId => ptr (in_rel is_contract (input_fn ContractIdOffset)) NF
  | GTF_InputMessageSender => ptr (in_rel is_message (input_fn MessageSenderOffset)) NF
  | GTF_InputMessageRecipient => ptr (in_rel is_message (input_fn MessageRecipientOffset)) NF
  | GTF_InputMessageAmount => ok_or (in_val is_message (in_num "amount")) NF
  | GTF_InputMessageNonce => ptr (in_rel is_message (input_fn MessageNonceOffset)) NF
  | GTF_InputMessageWitnessIndex => ok_or (in_val is_message (in_num "witness_index")) NF
  | GTF_InputMessageDataLength => ok_or (in_val is_message input_data_len) NF
  | GTF_InputMessagePredicateLength => ok_or (in_val is_message predicate_len) NF
  | GTF_InputMessagePredicateDataLength => ok_or (in_val is_message predicate_data_len) NF
  | GTF_InputMessagePredicateGasUsed => ok_or (in_val is_message (in_num "predicate_gas_used")) NF
  | GTF_InputMessageData => ptr (in_rel is_message (input_fn DataOffset)) NF
  | GTF_InputMessagePredicate => ptr (in_rel is_message predicate_offset) NF
  | GTF_InputMessagePredicateData => ptr (in_rel is_message predicate_data_offset) NF
  (* outputs *)
  | GTF_OutputType => ok_or (obind output_b (fun ov => obind (zlookup (output_variant ov) output_repr_of) (repr_code OutputRepr_discriminants))) P_OutputNotFound
  | GTF_OutputCoinTo => ptr (out_rel (out_is [0; 2]%nat) ToOffset) P_OutputNotFound
  | GTF_OutputCoinAmount => ok_or (out_val (out_is [0]%nat) (fun ov => obind (out_field "amount" ov) num)) P_OutputNotFound
  | GTF_OutputCoinAssetId => ptr (out_rel (out_is [0; 2]%nat) AssetIdOffsetO) P_OutputNotFound
  | GTF_OutputContractInputIndex =>
      ok_or (out_val (out_is [1]%nat) (fun ov => obind (out_field "0" ov) (fun c => obind (struct_field "input_index" S_output_Contract c) num))) P_InputNotFound
  | GTF_OutputContractCreatedContractId => ptr (out_rel (out_is [4]%nat) ContractIdOffsetO) P_OutputNotFound
  | GTF_OutputContractCreatedStateRoot => ptr (out_rel (out_is [4]%nat) ContractCreatedStateRootOffset) P_OutputNotFound
  (* witnesses *)
  | GTF_WitnessDataLength => ok_or (omap (fun w => byte_len (sfield "data" S_Witness w)) witness_b) P_WitnessNotFound
  | GTF_WitnessData => ok_or (omap (fun w => sat (sat ofs w) WORD_SIZE) (witnesses_offset_at tx b)) P_WitnessNotFound
  (* kind specific *)
  | GTF_ScriptLength => specific KScript (GOk (byte_len (body_field tx "script")))
  | GTF_ScriptDataLength => specific KScript (GOk (byte_len (body_field tx "script_data")))
  | GTF_Script => specific KScript (GOk (sat ofs (script_offset)))
  | GTF_ScriptData => specific KScript (GOk (sat ofs (script_data_offset tx)))
  | GTF_CreateBytecodeWitnessIndex => specific KCreate (ok_or (body_num "bytecode_witness_index") P_InvalidMetadataIdentifier)
  | GTF_CreateStorageSlotsCount => specific KCreate (GOk (lenN (vlist (body_field tx "storage_slots"))))
  | GTF_CreateSalt => specific KCreate (GOk (sat ofs (static_of KCreate "salt_offset_static")))
  | GTF_CreateStorageSlotAtIndex => specific KCreate (ptr (storage_slots_offset_at tx b) P_StorageSlotsNotFound)
  | GTF_BlobId => specific KBlob (GOk (sat ofs (static_of KBlob "blob_id_offset_static")))
  | GTF_BlobWitnessIndex => specific KBlob (ok_or (body_num "witness_index") P_InvalidMetadataIdentifier)
  | GTF_UploadRoot => specific KUpload (GOk (sat ofs (static_of KUpload "bytecode_root_offset_static")))
  | GTF_UploadWitnessIndex => specific KUpload (ok_or (body_num "witness_index") P_InvalidMetadataIdentifier)
  | GTF_UploadSubsectionIndex => specific KUpload (ok_or (body_num "subsection_index") P_InvalidMetadataIdentifier)
  | GTF_UploadSubsectionsCount => specific KUpload (ok_or (body_num "subsections_number") P_InvalidMetadataIdentifier)
  | GTF_UploadProofSetCount => specific KUpload (GOk (lenN (vlist (body_field tx "proof_set"))))
  | GTF_UploadProofSetAtIndex => specific KUpload (ptr (proof_set_offset_at tx b) P_ProofInUploadNotFound)
  | GTF_UpgradePurpose => specific KUpgrade (GOk (sat ofs (static_of KUpgrade "upgrade_purpose_offset_static")))
  end.
End Gtf.

Definition gtf_of_code (imm : N) : option gtf_arg := find (fun a => gtf_code a =? imm) all_gtf_args.
(* GTF $rA, $rB, imm *)
(* `convert::to_usize(b)`: "a way that's consistent on 32-bit and 64-bit platforms": $rB must fit in u32 *)
Definition to_usize (b : N) : option N := if b <? 4294967296 then Some b else None.
Definition gtf (st : vmst) (imm : N) (b : N) : gres :=
  match to_usize b with
  | None => GPanic P_InvalidMetadataIdentifier
  | Some b' =>
      match gtf_of_code imm with
      | Some a => gtf_eval st b' a
      | None => GPanic P_InvalidMetadataIdentifier
      end
  end.

(* ---------------------------------------------------------------- GM *)
Definition gm_of_code (imm : N) : option gm_arg := find (fun a => gm_code a =? imm) all_gm_args.
Definition gm_eval (st : vmst) (a : gm_arg) : gres :=
  let parent := match v_ctx st with CtxCall p => p | _ => None end in
  match a with
  | GM_GetVerifyingPredicate => ok_or (ctx_predicate (v_ctx st)) P_TransactionValidity
  | GM_GetChainId => GOk (p_chain_id (v_params st))
  | GM_BaseAssetId => GOk VM_MEMORY_BASE_ASSET_ID_OFFSET
  | GM_TxStart => GOk (p_tx_offset (v_params st))
  | GM_GetCaller =>
      match parent with
      | Some 0 => GPanic P_ExpectedNestedCaller
      | Some p => GOk p
      | None => GPanic P_ExpectedInternalContext
      end
  | GM_IsCallerExternal =>
      match parent with
      | Some p => GOk (if p =? 0 then 1 else 0)
      | None => GPanic P_ExpectedInternalContext
      end
  | GM_GetGasPrice =>
      match v_ctx st with
      | CtxPredicateVerification _ | CtxPredicateEstimation _ => GPanic P_CanNotGetGasPriceInPredicate
      | _ => GOk (p_gas_price (v_params st))
      end
  | GM_GetOwner => ok_or (v_owner_ptr st) P_OwnerIsUnknown
  end.
Definition gm (st : vmst) (imm : N) : gres :=
  match gm_of_code imm with
  | Some a => gm_eval st a
  | None => GPanic P_InvalidMetadataIdentifier
  end.

(* ---------------------------------------------------------------- init_inner *)
(* `tx.prepare_sign()` of ChargeableTransaction (witnesses are kept) *)
Definition prepare_tx (k : kind) (v : val) : val :=
  ps prepare_sign_table (body_of k) ps_fuel "ChargeableTransaction" (kind_ty k) v.

(* owner: Ok(None) unknown, Ok(Some (idx)) the input holding it; None = Bug error *)
Definition owner_index (tx : otx) : option (option N) :=
  let ins := tx_inputs tx in
  match policy_get (tx_policies tx) 5 with
  | Some oi =>
      if 4294967296 <=? oi then None
      else match get ins oi with
           | None => None
           | Some iv => match input_owner iv with Some _ => Some (Some oi) | None => None end
           end
  | None =>
      (* first owner seen; a different one later => unknown *)
      let fix go (i : N) (l : list val) (cur : option (N * val)) : option N :=
        match l with
        | [] => omap fst cur
        | iv :: r =>
            match input_owner iv, cur with
            | Some o, None => go (i + 1) r (Some (i, o))
            | Some o, Some (_, c) => if val_eqb o c then go (i + 1) r cur else None
            | None, _ => go (i + 1) r cur
            end
        end in
      Some (go 0 ins None)
  end.
Definition owner_ptr_of (tx : otx) (tx_offset : N) (idx : N) : option N :=
  obind (get (tx_inputs tx) idx) (fun iv =>
    obind (input_fn OwnerOffset iv) (fun o =>
      omap (fun a => sat tx_offset (sat a o)) (inputs_offset_at tx idx))).
(* outputs().enumerate().filter_map(Output::Contract { input_index } => (input_index, output_idx)).collect::<BTreeMap>() :
   a later output with the same input index replaces the earlier one *)
Definition contract_out_map (outs : list val) : list (N * N) :=
  let fix go (j : N) (l : list val) (acc : list (N * N)) : list (N * N) :=
    match l with
    | [] => acc
    | ov :: r =>
        match (if Nat.eqb (output_index ov) 1 then obind (out_field "0" ov) (fun c => obind (struct_field "input_index" S_output_Contract c) num) else None) with
        | Some ii => go (j + 1) r ((ii, j) :: acc)
        | None => go (j + 1) r acc
        end
    end in
  go 0 outs [].

(* the initial state and stack; [meta] is the metadata the transaction arrives with (the offsets part),
   [id] the bytes `self.transaction().id(chain_id)` pushes, [balances] the balances area *)
Definition init_vm (par : gparams) (ctx : gctx) (k : kind) (v : val) (meta : option (cmeta * option N))
    : option vmst :=
  let v' := prepare_tx k v in
  let tx := {| o_kind := k; o_val := v'; o_meta := meta |} in
  match owner_index tx with
  | None => None
  | Some oi =>
      Some {| v_tx := tx; v_params := par; v_ctx := ctx;
              v_tx_size := size (kind_ty k) v';
              v_owner_ptr := obind oi (owner_ptr_of tx (p_tx_offset par));
              v_contract_out := contract_out_map (tx_outputs tx) |}
  end.
Definition init_memory (st : vmst) (id balances : bytes) : bytes :=
  id ++ p_base_asset (v_params st) ++ balances ++ be8 (v_tx_size st) ++
  enc (kind_ty (o_kind (v_tx st))) (o_val (v_tx st)).
