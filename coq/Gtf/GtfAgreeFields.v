(* Gtf/GtfAgreeFields.v — generic lemmas towards the agreement of the GTF model with the decision
   table for the FIELD selectors of input $rB (index in range): a named static field of a typed
   struct is both what struct_field returns and what the C04 specification locates (soff_field,
   struct_value_field); the specification's position of a selector inside input i of a chargeable
   transaction (spec_input_elem, locate_input_at); inversion of typed inputs; in-range lookups.
   The per-selector agreement theorem built on these is not finished (C05_gtf_spec_statement stays open). *)
From Coq Require Import Arith PeanoNat.
From FV Require Import Codec.CodecProofs Codec.CodecInstances TxId.IdProofs Offsets.OffsetProofs Offsets.OffsetDynamic.
From FV Require Export Gtf.GtfAgree.
Local Open Scope string_scope.
Local Open Scope list_scope.
Open Scope N_scope.

Fixpoint no_skip (fs : fields) : bool :=
  match fs with FNil => true | FCons _ sk _ r => negb sk && no_skip r end.

(* soff_ok, also naming the field value *)
Lemma soff_field fs : forall vs name d ft, typed_fields fs vs = true -> no_skip fs = true -> soff fs name = Some (d, ft) ->
  exists fv, get_field name fs vs = Some fv /\ typed ft fv = true /\
    forall s' so dyo, exists dyo', locate_fields fs vs name s' so dyo = locate ft fv s' (so + d) dyo'.
Proof.
  induction fs as [|n sk t r IH]; intros vs name d ft H Hn E; [discriminate E|].
  destruct vs as [|v vs]; [discriminate H|]. cbn [typed_fields] in H. apply andb_true_iff in H as [H1 H2].
  cbn [no_skip] in Hn. apply andb_true_iff in Hn as [Hsk Hn]. destruct sk; [discriminate Hsk|].
  cbn [soff] in E. cbn [orb] in H1. cbn [get_field]. destruct (String.eqb n name) eqn:En.
  - injection E as <- <-. exists v. split; [reflexivity|]. split; [exact H1|]. intros s' so dyo. exists dyo.
    cbn [locate_fields]. rewrite En, N.add_0_r. reflexivity.
  - destruct (ssize t) as [a|] eqn:Ea; [|discriminate E].
    destruct (soff r name) as [[b ft']|] eqn:Eb; [|discriminate E]. injection E as <- <-.
    destruct (IH vs name b ft' H2 Hn Eb) as (fv & Hg & Hfv & L). exists fv. split; [exact Hg|]. split; [exact Hfv|].
    intros s' so dyo. cbn [locate_fields]. rewrite En.
    destruct (L s' (so + lenN (enc_static t v)) (dyo + lenN (enc_dynamic t v))) as [dyo' Ld].
    exists dyo'. rewrite Ld, (proj1 ssize_ok_all t v a H1 Ea). f_equal. lia.
Qed.

Definition p8 (p : option N) : N := match p with Some _ => 8 | None => 0 end.
Lemma struct_value_field t p fs x name d ft :
  t = TStruct p fs -> typed t x = true -> no_skip fs = true -> soff fs name = Some (d, ft) ->
  exists fv, struct_field name t x = Some fv /\ typed ft fv = true /\
    forall s' so dyo, exists dyo', locate t x (SField name s') so dyo = locate ft fv s' (so + p8 p + d) dyo'.
Proof.
  intros -> Hx Hn E. destruct x as [| | | |vs| |]; try discriminate Hx. cbn [typed] in Hx. apply andb_true_iff in Hx as [_ Hx].
  destruct (soff_field fs vs name d ft Hx Hn E) as (fv & Hg & Hfv & L). exists fv. split; [exact Hg|]. split; [exact Hfv|].
  intros s' so dyo. cbn [locate struct_field]. apply L.
Qed.
Lemma empty_inv t x : typed (TEmpty t) x = true -> x = VUnit.
Proof. destruct x; try discriminate. reflexivity. Qed.

(* ---------------------------------------------------------------- input $rB *)
Lemma locate_vec_elem te xs i s' so dyo :
  locate (TVec te) (VL xs) (SElem i s') so dyo =
  match nth_error xs i with
  | Some x => locate te x s' (dyo + lenN (enc_all te (firstn i xs))) (dyo + lenN (enc_all te (firstn i xs)) + lenN (enc_static te x))
  | None => None
  end.
Proof. reflexivity. Qed.
Lemma spec_input_elem k body pol ins outs wits meta i s' : k <> KMint ->
  exists O, locate_in (kind_ty k) (cval body pol ins outs wits meta) (SField "inputs" (SElem i s')) =
  match nth_error ins i with
  | Some x => locate S_Input x s' (O + lenN (enc_all S_Input (firstn i ins))) (O + lenN (enc_all S_Input (firstn i ins)) + lenN (enc_static S_Input x))
  | None => None
  end.
Proof.
  intros Hk.
  exists (lenN (enc_static (kind_ty k) (cval body pol ins outs wits meta)) + lenN (enc_dynamic (body_ty k) body) + lenN (enc_dynamic S_Policies pol)).
  rewrite <- (locate_vec_elem S_Input ins i s' 0 _). destruct k; try congruence; reflexivity.
Qed.
Lemma locate_input_at j x s' so dyo : (j < 7)%nat ->
  locate S_Input (VE j [x]) (SVariant (nth j input_names "") s') so dyo = locate (input_comp j) x s' (so + 8) dyo.
Proof. intros H. unfold S_Input, input_comp. cbn [locate]. rewrite String.eqb_refl. reflexivity. Qed.
Lemma input_inv iv : typed S_Input iv = true -> exists j x, iv = VE j [x] /\ (j < 7)%nat /\ typed (input_comp j) x = true.
Proof.
  unfold S_Input, input_comp. destruct iv as [| | | | |j l|]; try discriminate. destruct l as [|x [|]]; try discriminate.
  cbn [typed]. intros H. apply andb_true_iff in H as [H1 H2]. apply Nat.ltb_lt in H1. eauto.
Qed.
Lemma tx_inputs_cval k body pol ins outs wits meta m : k <> KMint ->
  tx_inputs {| o_kind := k; o_val := cval body pol ins outs wits meta; o_meta := m |} = ins /\
  fields_of (kind_ty k) (cval body pol ins outs wits meta) "inputs" = ins.
Proof. intros Hk. destruct k; try congruence; split; reflexivity. Qed.
Lemma nth_small_in {A} (l : list A) b x : b < lenN l -> nth_error l (N.to_nat b) = Some x -> nth_small l b = Some (N.to_nat b, x).
Proof. intros H E. unfold nth_small. apply N.ltb_lt in H. unfold lenN in H. rewrite H, E. reflexivity. Qed.
Lemma get_in {A} (l : list A) b x : b < lenN l -> nth_error l (N.to_nat b) = Some x -> get l b = Some x.
Proof. intros H E. unfold get. apply N.ltb_lt in H. rewrite H. exact E. Qed.
