(* Gtf/GtfProofs.v — proofs for property C05.

   1. initial memory layout: the transaction id, the base asset id, the size word and the
      canonical bytes of the (prepared) transaction are where GM / GTF say they are;
   2. pointers: any position the C04 specification locates inside the transaction is, shifted by
      tx_offset, a position of the VM memory holding exactly the field's canonical bytes
      (C04 locate_sound + layout);
   3. the GM decision table; unknown selectors; $rB above u32::MAX;
   4. absent indices: the specified panic for every indexed selector. *)
From Coq Require Import Arith PeanoNat.
From FV Require Import Codec.CodecProofs Offsets.OffsetProofs.
From FV Require Export Gtf.GtfSpec Gtf.GtfModel.
Local Open Scope string_scope.
Local Open Scope list_scope.
Open Scope N_scope.

(* ================================================================ 1. layout *)
Lemma slice_shift (pre e : bytes) o n : slice (pre ++ e) (lenN pre + o) n = slice e o n.
Proof.
  unfold slice. f_equal. rewrite Nnat.N2Nat.inj_add, lenN_nat.
  rewrite skipn_app. rewrite skipn_all2 by lia. cbn [app]. f_equal. lia.
Qed.
Lemma slice_prefix (a rest : bytes) : slice (a ++ rest) 0 (lenN a) = a.
Proof. unfold slice. cbn [N.to_nat skipn]. rewrite lenN_nat, firstn_app, firstn_all, Nat.sub_diag. cbn [firstn]. apply app_nil_r. Qed.

Definition prepared_ty (st : vmst) : ty := kind_ty (o_kind (v_tx st)).
Definition prepared_val (st : vmst) : val := o_val (v_tx st).
Definition layout_ok (st : vmst) (id balances : bytes) : Prop :=
  lenN id = 32 /\ lenN (p_base_asset (v_params st)) = 32 /\
  lenN balances = p_max_inputs (v_params st) * BALANCE_ENTRY_SIZE /\
  p_tx_offset (v_params st) = TX_OFFSET_FIXED + p_max_inputs (v_params st) * BALANCE_ENTRY_SIZE.

Theorem memory_layout st id balances : layout_ok st id balances ->
  let mem := init_memory st id balances in
  let ofs := p_tx_offset (v_params st) in
  slice mem 0 32 = id /\
  slice mem VM_MEMORY_BASE_ASSET_ID_OFFSET 32 = p_base_asset (v_params st) /\
  slice mem (ofs - 8) 8 = be8 (v_tx_size st) /\
  slice mem ofs (lenN (enc (prepared_ty st) (prepared_val st))) = enc (prepared_ty st) (prepared_val st) /\
  lenN mem = ofs + lenN (enc (prepared_ty st) (prepared_val st)).
Proof.
  intros (Hid & Hb & Hbal & Hofs) mem ofs. subst mem ofs. unfold init_memory.
  set (base := p_base_asset (v_params st)) in *. set (e := enc _ _). change (enc (prepared_ty st) (prepared_val st)) with e.
  assert (Lpre : lenN (id ++ base ++ balances) + 8 = TX_OFFSET_FIXED + p_max_inputs (v_params st) * BALANCE_ENTRY_SIZE)
    by (rewrite !lenN_app, Hid, Hb, Hbal; change TX_OFFSET_FIXED with 72; lia).
  repeat split.
  - pose proof (slice_prefix id (base ++ balances ++ be8 (v_tx_size st) ++ e)) as E. rewrite Hid in E. exact E.
  - pose proof (slice_mid id base (balances ++ be8 (v_tx_size st) ++ e)) as E. rewrite Hid, Hb in E. exact E.
  - pose proof (slice_mid (id ++ base ++ balances) (be8 (v_tx_size st)) e) as E.
    rewrite lenN_be8 in E. rewrite <- !app_assoc in E.
    replace (p_tx_offset (v_params st) - 8) with (lenN (id ++ base ++ balances)) by (rewrite Hofs; lia). exact E.
  - pose proof (slice_mid (id ++ base ++ balances ++ be8 (v_tx_size st)) e []) as E.
    rewrite app_nil_r in E. rewrite <- !app_assoc in E.
    replace (p_tx_offset (v_params st)) with (lenN (id ++ base ++ balances ++ be8 (v_tx_size st)))
      by (rewrite Hofs, <- Lpre, !lenN_app, lenN_be8; lia). exact E.
  - rewrite Hofs, <- Lpre, !lenN_app, lenN_be8. lia.
Qed.

(* ================================================================ 2. pointers *)
(* whatever field the C04 specification locates at offset o of the transaction is, in VM
   memory, at tx_offset + o: the memory there holds exactly the field's canonical bytes *)
Theorem pointer_holds_field st id balances s o bs : layout_ok st id balances ->
  locate_in (prepared_ty st) (prepared_val st) s = Some (o, bs) ->
  slice (init_memory st id balances) (p_tx_offset (v_params st) + o) (lenN bs) = bs.
Proof.
  intros (Hid & Hb & Hbal & Hofs) L. pose proof (locate_sound _ _ _ _ _ L) as S.
  unfold init_memory. set (base := p_base_asset (v_params st)) in *.
  replace (id ++ base ++ balances ++ be8 (v_tx_size st) ++ enc (kind_ty (o_kind (v_tx st))) (o_val (v_tx st)))
    with ((id ++ base ++ balances ++ be8 (v_tx_size st)) ++ enc (prepared_ty st) (prepared_val st))
    by (rewrite <- !app_assoc; reflexivity).
  replace (p_tx_offset (v_params st)) with (lenN (id ++ base ++ balances ++ be8 (v_tx_size st)))
    by (rewrite Hofs, !lenN_app, Hid, Hb, Hbal, lenN_be8; change TX_OFFSET_FIXED with 72; lia).
  rewrite slice_shift. exact S.
Qed.

(* ================================================================ 3. GM, unknown selectors, large $rB *)
Theorem gm_table st :
  gm st (gm_code GM_GetChainId) = GOk (p_chain_id (v_params st)) /\
  gm st (gm_code GM_BaseAssetId) = GOk VM_MEMORY_BASE_ASSET_ID_OFFSET /\
  gm st (gm_code GM_TxStart) = GOk (p_tx_offset (v_params st)) /\
  gm st (gm_code GM_GetOwner) = match v_owner_ptr st with Some p => GOk p | None => GPanic P_OwnerIsUnknown end /\
  gm st (gm_code GM_GetGasPrice) =
    match v_ctx st with
    | CtxPredicateVerification _ | CtxPredicateEstimation _ => GPanic P_CanNotGetGasPriceInPredicate
    | _ => GOk (p_gas_price (v_params st))
    end /\
  gm st (gm_code GM_GetVerifyingPredicate) =
    match ctx_predicate (v_ctx st) with Some i => GOk i | None => GPanic P_TransactionValidity end /\
  (forall imm, gm_of_code imm = None -> gm st imm = GPanic P_InvalidMetadataIdentifier).
Proof.
  repeat split; try reflexivity.
  intros imm H. unfold gm. rewrite H. reflexivity.
Qed.

Theorem gtf_unknown_selector st imm b : gtf_of_code imm = None -> gtf st imm b = GPanic P_InvalidMetadataIdentifier.
Proof. intros H. unfold gtf. destruct (to_usize b); [rewrite H|]; reflexivity. Qed.

(* fuel-vm convert::to_usize: $rB must fit in u32, for every selector — also those that do not use it *)
Theorem gtf_large_rb st imm b : 4294967296 <= b -> gtf st imm b = GPanic P_InvalidMetadataIdentifier.
Proof.
  intros H. unfold gtf, to_usize. destruct (b <? 4294967296) eqn:E; [apply N.ltb_lt in E; lia | reflexivity].
Qed.
(* in particular the statement "GTF Type returns the transaction type whatever $rB is" is refuted *)
Lemma gtf_type_ignores_rb_refuted :
  exists st b, gtf st (gtf_code GTF_Type) 0 = GOk 0 /\ gtf st (gtf_code GTF_Type) b <> GOk 0.
Proof.
  exists {| v_tx := {| o_kind := KScript; o_val := VUnit; o_meta := None |};
            v_params := {| p_chain_id := 0; p_gas_price := 0; p_base_asset := []; p_max_inputs := 0; p_tx_offset := 72 |};
            v_ctx := CtxScript; v_tx_size := 0; v_owner_ptr := None; v_contract_out := [] |}, 4294967296.
  vm_compute. split; [reflexivity | discriminate].
Qed.

(* ================================================================ 4. absent indices *)
Lemma get_none {A} (l : list A) b : lenN l <= b -> get l b = None.
Proof. intros H. unfold get. destruct (b <? lenN l) eqn:E; [apply N.ltb_lt in E; lia | reflexivity]. Qed.

Inductive idom : Type := DInputs | DOutputs | DWitnesses.
(* indexed selectors that read input / output / witness $rB itself (not through the cached offsets) *)
Definition index_domain (a : gtf_arg) : option (idom * N) :=
  match a with
  | GTF_InputType | GTF_InputCoinTxId | GTF_InputCoinOutputIndex | GTF_InputCoinOwner | GTF_InputCoinAmount
  | GTF_InputCoinAssetId | GTF_InputCoinTxPointer | GTF_InputCoinWitnessIndex | GTF_InputCoinPredicateLength
  | GTF_InputCoinPredicateDataLength | GTF_InputCoinPredicate | GTF_InputCoinPredicateData | GTF_InputCoinPredicateGasUsed
  | GTF_InputContractTxId | GTF_InputContractId | GTF_InputMessageSender | GTF_InputMessageRecipient
  | GTF_InputMessageAmount | GTF_InputMessageNonce | GTF_InputMessageWitnessIndex | GTF_InputMessageDataLength
  | GTF_InputMessagePredicateLength | GTF_InputMessagePredicateDataLength | GTF_InputMessageData
  | GTF_InputMessagePredicate | GTF_InputMessagePredicateData | GTF_InputMessagePredicateGasUsed =>
      Some (DInputs, P_InputNotFound)
  | GTF_OutputType | GTF_OutputCoinTo | GTF_OutputCoinAmount | GTF_OutputCoinAssetId
  | GTF_OutputContractCreatedContractId | GTF_OutputContractCreatedStateRoot => Some (DOutputs, P_OutputNotFound)
  | GTF_OutputContractInputIndex => Some (DOutputs, P_InputNotFound)
  | GTF_WitnessDataLength => Some (DWitnesses, P_WitnessNotFound)
  | _ => None
  end.
Definition dom_len (st : vmst) (d : idom) : N :=
  match d with
  | DInputs => lenN (tx_inputs (v_tx st))
  | DOutputs => lenN (tx_outputs (v_tx st))
  | DWitnesses => lenN (tx_witnesses (v_tx st))
  end.

(* an index at or beyond the number of inputs / outputs / witnesses gives the specified panic *)
Theorem gtf_absent_index st a b d r :
  index_domain a = Some (d, r) -> dom_len st d <= b -> gtf_eval st b a = GPanic r.
Proof.
  intros Hd Hb.
  destruct a; cbn [index_domain] in Hd; try discriminate Hd; injection Hd as <- <-; cbn [dom_len] in Hb;
    unfold gtf_eval, ptr, in_rel, in_val, out_rel, out_val, input_b, output_b, witness_b;
    rewrite (get_none _ _ Hb); reflexivity.
Qed.

(* ================================================================ 5. element pointers, end to end *)
From FV Require Import Offsets.OffsetDynamic.

Definition element_selector (a : gtf_arg) : option atfn :=
  match a with
  | GTF_ScriptInputAtIndex | GTF_CreateInputAtIndex | GTF_TxInputAtIndex => Some InputsOffsetAt
  | GTF_ScriptOutputAtIndex | GTF_CreateOutputAtIndex | GTF_TxOutputAtIndex => Some OutputsOffsetAt
  | GTF_ScriptWitnessAtIndex | GTF_CreateWitnessAtIndex | GTF_TxWitnessAtIndex => Some WitnessesOffsetAt
  | _ => None
  end.
Definition element_absent (f : atfn) : N :=
  match f with InputsOffsetAt => P_InputNotFound | OutputsOffsetAt => P_OutputNotFound | _ => P_WitnessNotFound end.

(* GTF {Script,Create,Tx}{Input,Output,Witness}AtIndex on a transaction without cached metadata:
   for an index in range the result is a pointer at which VM memory holds exactly the element's
   canonical encoding; otherwise the specified panic *)
Theorem element_pointers st id balances a f b :
  layout_ok st id balances -> element_selector a = Some f ->
  o_kind (v_tx st) <> KMint -> o_meta (v_tx st) = None ->
  typed (prepared_ty st) (prepared_val st) = true ->
  p_tx_offset (v_params st) + lenN (enc (prepared_ty st) (prepared_val st)) <= u64_max ->
  match gtf_eval st b a with
  | GOk p => exists i s bs, b = N.of_nat i /\ at_sel (o_kind (v_tx st)) f i = Some s /\
                            locate_in (prepared_ty st) (prepared_val st) s = Some (p - p_tx_offset (v_params st), bs) /\
                            slice (init_memory st id balances) p (lenN bs) = bs
  | GPanic r => r = element_absent f
  end.
Proof.
  intros Hl Ha Hk Hm Hv Hs.
  destruct st as [tx par ctx size owner cmap]. destruct tx as [k v m]. unfold prepared_ty, prepared_val in *. cbn [v_tx o_kind o_meta v_params o_val] in *. subst m.
  assert (Hs' : lenN (enc (kind_ty k) v) <= u64_max) by lia.
  assert (E : gtf_eval {| v_tx := {| o_kind := k; o_val := v; o_meta := None |}; v_params := par; v_ctx := ctx; v_tx_size := size;
                          v_owner_ptr := owner; v_contract_out := cmap |} b a =
              match tx_offset_at (tx0 k v) f b with
              | Some o => GOk (sat (p_tx_offset par) o)
              | None => GPanic (element_absent f)
              end).
  { assert (Hc : chargeable k = true) by (destruct k; try congruence; reflexivity).
    destruct a; try discriminate Ha; injection Ha as <-; unfold gtf_eval, ptr, ok_or, omap, tx_offset_at, tx0;
      cbn [v_tx v_params o_kind]; rewrite Hc;
      destruct (inputs_offset_at {| o_kind := k; o_val := v; o_meta := None |} b);
      destruct (outputs_offset_at {| o_kind := k; o_val := v; o_meta := None |} b);
      destruct (witnesses_offset_at {| o_kind := k; o_val := v; o_meta := None |} b); reflexivity. }
  rewrite E. clear E.
  assert (Hf : element_fn f = true) by (destruct a; try discriminate Ha; injection Ha as <-; reflexivity).
  pose proof (elements_locate k v f b Hk Hv Hs' Hf) as L.
  pose proof (elements_offset_le k v f b) as Le. unfold tx0 in *.
  destruct (tx_offset_at {| o_kind := k; o_val := v; o_meta := None |} f b) as [o|]; [|reflexivity].
  destruct L as (i & s & bs & -> & Hsel & Hloc & Hslice).
  specialize (Le o Hk Hv Hs' Hf eq_refl).
  rewrite sat_is_cap, cap_small by lia.
  exists i, s, bs. repeat split; try assumption.
  - replace (p_tx_offset par + o - p_tx_offset par) with o by lia. exact Hloc.
  - apply (pointer_holds_field _ id balances s o bs Hl). exact Hloc.
Qed.
