(* Gtf/GtfAgree.v — agreement of the per-selector GTF model (Gtf/GtfModel.v gtf_eval) with the
   decision table (Gtf/GtfSpec.v gtf_spec) for the transaction-level selectors: what the table
   DENOTES on the transaction in memory ([denote]: the integer whose canonical bytes the C04
   specification locates / tx_offset + the located position / a configured quantity / the
   specified panic) is what the model returns.  Case analysis is over the generated selector
   type and the six kinds; values are only destructed as far as the selected field. *)
From Coq Require Import Arith PeanoNat.
From FV Require Import Codec.CodecProofs Codec.CodecInstances TxId.IdProofs Offsets.OffsetProofs Offsets.OffsetDynamic.
From FV Require Export Gtf.GtfProofs.
Local Open Scope string_scope.
Local Open Scope list_scope.
Open Scope N_scope.

(* what a row of the decision table denotes on the state *)
Definition denote (st : vmst) (sp : gspec) : option gres :=
  let tx := v_tx st in
  let T := kind_ty (o_kind tx) in
  let v := o_val tx in
  let ofs := p_tx_offset (v_params st) in
  match sp with
  | SpValue s => match locate_in T v s with Some (_, bs) => Some (GOk (be_decode bs)) | None => None end
  | SpHead s => match locate_in T v s with Some (_, bs) => Some (GOk (be_decode (firstn 8 bs))) | None => None end
  | SpPointer s => match locate_in T v s with Some (o, _) => Some (GOk (ofs + o)) | None => None end
  | SpConst n => Some (GOk n)
  | SpPolicy i => Some (ok_or (policy_get (tx_policies tx) i) P_PolicyIsNotSet)
  | SpPolicyBits => Some (GOk (policy_bits (tx_policies tx)))
  | SpTxLength => Some (GOk (lenN (enc T v)))
  | SpContractOutput => None
  | SpPanic r => Some (GPanic r)
  end.
Definition agrees (st : vmst) (b : N) (a : gtf_arg) : Prop :=
  denote st (gtf_spec (o_kind (v_tx st)) (o_val (v_tx st)) b a) = Some (gtf_eval st b a).

(* ================================================================ policies, type *)
Definition config_selectors : list gtf_arg :=
  [GTF_Type; GTF_PolicyTypes; GTF_PolicyTip; GTF_PolicyWitnessLimit; GTF_PolicyMaturity; GTF_PolicyMaxFee;
   GTF_PolicyExpiration; GTF_PolicyOwner].
Theorem agree_config st b a : In a config_selectors -> agrees st b a.
Proof.
  intros Hin. destruct st as [[k v m] par ctx size owner cmap]. unfold agrees. cbn [v_tx o_kind o_val].
  cbn [config_selectors In] in Hin.
  repeat (destruct Hin as [<- | Hin]; [try reflexivity; destruct k; reflexivity|]). contradiction.
Qed.

(* ================================================================ selectors of another kind *)
Definition selector_kind (a : gtf_arg) : option kind :=
  match a with
  | GTF_ScriptLength | GTF_ScriptDataLength | GTF_Script | GTF_ScriptData => Some KScript
  | GTF_CreateBytecodeWitnessIndex | GTF_CreateStorageSlotsCount | GTF_CreateSalt | GTF_CreateStorageSlotAtIndex => Some KCreate
  | GTF_UploadRoot | GTF_UploadWitnessIndex | GTF_UploadSubsectionIndex | GTF_UploadSubsectionsCount
  | GTF_UploadProofSetCount | GTF_UploadProofSetAtIndex => Some KUpload
  | GTF_BlobId | GTF_BlobWitnessIndex => Some KBlob
  | GTF_UpgradePurpose => Some KUpgrade
  | _ => None
  end.
(* a selector of another transaction kind: InvalidMetadataIdentifier, in the table and in the model *)
Theorem agree_other_kind st b a want :
  selector_kind a = Some want -> o_kind (v_tx st) <> want ->
  gtf_spec (o_kind (v_tx st)) (o_val (v_tx st)) b a = SpPanic P_InvalidMetadataIdentifier /\
  gtf_eval st b a = GPanic P_InvalidMetadataIdentifier /\ agrees st b a.
Proof.
  intros Hs Hk. destruct st as [[k v m] par ctx size owner cmap]. unfold agrees. cbn [v_tx o_kind o_val] in *.
  destruct a; try discriminate Hs; injection Hs as <-; destruct k; try congruence; repeat split; reflexivity.
Qed.

(* ================================================================ leaves *)
Lemma be_decode_zeros p : forall acc, be_decode_acc acc (zeros p) = acc * 256 ^ N.of_nat p.
Proof.
  unfold zeros. induction p as [|p IH]; intros acc; [cbn; lia|]. cbn [repeat be_decode_acc]. rewrite IH.
  rewrite Nnat.Nat2N.inj_succ, N.pow_succ_r'. lia.
Qed.
Lemma be_decode_enc_uint w n : n < 256 ^ N.of_nat w -> be_decode (enc_uint w n) = n.
Proof.
  intros H. unfold be_decode, enc_uint. rewrite be_decode_acc_app, be_decode_zeros, be_decode_acc_encode by exact H. lia.
Qed.
Lemma be_decode_be8 n : n < U64 -> be_decode (be8 n) = n.
Proof. intros H. unfold be8. apply be_decode_encode. exact H. Qed.
Lemma uint_inv w x : typed (TUInt w) x = true -> exists n, x = VN n /\ n < 256 ^ N.of_nat w.
Proof. destruct x; try discriminate. cbn [typed]. intros H. apply N.ltb_lt in H. eauto. Qed.

Ltac val_case SP BYTES :=
  unfold agrees; cbn [v_tx o_kind o_val];
  match goal with |- denote ?st (gtf_spec ?k ?v ?b ?a) = _ => change (gtf_spec k v b a) with SP end;
  unfold denote; cbn [v_tx o_kind o_val];
  match goal with |- match locate_in ?T ?v ?s with _ => _ end = _ =>
    let L := fresh "L" in assert (L : exists o, locate_in T v s = Some (o, BYTES)) by (eexists; reflexivity);
    destruct L as [? L]; rewrite L end.

(* ================================================================ counts and TxLength *)
Definition count_selectors : list gtf_arg :=
  [GTF_ScriptInputsCount; GTF_CreateInputsCount; GTF_TxInputsCount; GTF_ScriptOutputsCount; GTF_CreateOutputsCount;
   GTF_TxOutputsCount; GTF_ScriptWitnessesCount; GTF_CreateWitnessesCount; GTF_TxWitnessesCount].

Theorem agree_counts st b a :
  In a count_selectors -> o_kind (v_tx st) <> KMint -> typed (kind_ty (o_kind (v_tx st))) (o_val (v_tx st)) = true ->
  lenN (tx_inputs (v_tx st)) < U64 -> lenN (tx_outputs (v_tx st)) < U64 -> lenN (tx_witnesses (v_tx st)) < U64 ->
  agrees st b a.
Proof.
  intros Hin Hk Hv. destruct st as [[k v m] par ctx size owner cmap]. cbn [v_tx o_kind o_val] in *.
  destruct (typed_chargeable k v Hk Hv) as (body & pol & ins & outs & wits & meta & -> & _).
  intros Hi Ho Hw.
  assert (Ei : tx_inputs {| o_kind := k; o_val := cval body pol ins outs wits meta; o_meta := m |} = ins) by (destruct k; try congruence; reflexivity).
  assert (Eo : tx_outputs {| o_kind := k; o_val := cval body pol ins outs wits meta; o_meta := m |} = outs) by (destruct k; try congruence; reflexivity).
  assert (Ew : tx_witnesses {| o_kind := k; o_val := cval body pol ins outs wits meta; o_meta := m |} = wits) by (destruct k; try congruence; reflexivity).
  rewrite Ei in Hi. rewrite Eo in Ho. rewrite Ew in Hw.
  cbn [count_selectors In] in Hin.
  repeat (destruct Hin as [<- | Hin];
    [ destruct k; try congruence;
      first [ val_case (SpValue (fld "inputs" PStatic)) (be8 (lenN ins)); rewrite (be_decode_be8 _ Hi); reflexivity
            | val_case (SpValue (fld "outputs" PStatic)) (be8 (lenN outs)); rewrite (be_decode_be8 _ Ho); reflexivity
            | val_case (SpValue (fld "witnesses" PStatic)) (be8 (lenN wits)); rewrite (be_decode_be8 _ Hw); reflexivity ] | ]).
  contradiction.
Qed.

(* GTF TxLength: the word below the transaction is the length of its encoding *)
Theorem agree_tx_length st b :
  v_tx_size st = lenN (enc (kind_ty (o_kind (v_tx st))) (o_val (v_tx st))) -> agrees st b GTF_TxLength.
Proof. intros H. unfold agrees. cbn [gtf_spec denote gtf_eval]. rewrite H. reflexivity. Qed.
(* init_inner stores exactly that, for a typed transaction shorter than 2^64 bytes *)
Lemma init_vm_size par ctx k v meta st : init_vm par ctx k v meta = Some st ->
  typed (kind_ty k) (prepare_tx k v) = true -> lenN (enc (kind_ty k) (prepare_tx k v)) <= u64_max ->
  v_tx_size st = lenN (enc (kind_ty (o_kind (v_tx st))) (o_val (v_tx st))).
Proof.
  unfold init_vm. destruct (owner_index _); [|discriminate]. intros H Ht Hs. injection H as <-. cbn [v_tx_size v_tx o_kind o_val].
  rewrite (proj1 (inst_size _ _ (kind_is_codec k) Ht)). apply N.min_l. exact Hs.
Qed.

(* ================================================================ scalar fields of the body *)
Definition lengths_small (tx : otx) : Prop :=
  byte_len (body_field tx "script") < U64 /\ byte_len (body_field tx "script_data") < U64 /\
  lenN (vlist (body_field tx "storage_slots")) < U64 /\ lenN (vlist (body_field tx "proof_set")) < U64.

Ltac close_uint H := (rewrite (be_decode_enc_uint _ _ H); reflexivity).

Theorem agree_script_scalars st b a :
  In a [GTF_ScriptGasLimit; GTF_ScriptLength; GTF_ScriptDataLength] -> o_kind (v_tx st) = KScript ->
  typed S_Script (o_val (v_tx st)) = true -> lengths_small (v_tx st) -> agrees st b a.
Proof.
  intros Hin Hk Hv Hl. destruct st as [[k v m] par ctx size owner cmap]. cbn [v_tx o_kind o_val] in *. subst k.
  destruct (typed_chargeable KScript v ltac:(discriminate) Hv) as (body & pol & ins & outs & wits & meta & -> & Hb & _).
  cbn [body_ty] in Hb. pose proof (typed_shaped _ _ Hb) as Hs. shape Hs.
  match type of Hb with
  | typed S_ScriptBody (VS [?g; ?r; VS [?x]; ?dd]) = true =>
      change ((0 <? U64) && (typed (TUInt 8) g && (typed S_Bytes32 r && ((true && (typed TByteVec x && true)) && (typed TByteVec dd && true)))) = true) in Hb;
      rename g into vg; rename r into vr; rename x into vx; rename dd into vd
  end.
  rewrite !andb_true_iff in Hb. destruct Hb as (_ & Hg & _ & (_ & Hx & _) & Hd & _).
  destruct (uint_inv _ _ Hg) as (g & -> & Hg'). destruct (bytevec_inv _ Hx) as [s ->]. destruct (bytevec_inv _ Hd) as [d ->].
  destruct Hl as (Hl1 & Hl2 & _).
  change (byte_len (body_field {| o_kind := KScript; o_val := cval (VS [VN g; vr; VS [VB s]; VB d]) pol ins outs wits meta; o_meta := m |} "script")) with (lenN s) in Hl1.
  change (byte_len (body_field {| o_kind := KScript; o_val := cval (VS [VN g; vr; VS [VB s]; VB d]) pol ins outs wits meta; o_meta := m |} "script_data")) with (lenN d) in Hl2.
  cbn [In] in Hin. destruct Hin as [<- | [<- | [<- | []]]].
  - val_case (SpValue (bodyp "script_gas_limit" PStatic)) (enc_uint 8 g). close_uint Hg'.
  - val_case (SpValue (bodyp "script" PStatic)) (be8 (lenN s) ++ []). rewrite app_nil_r, (be_decode_be8 _ Hl1). reflexivity.
  - val_case (SpValue (bodyp "script_data" PStatic)) (be8 (lenN d)). rewrite (be_decode_be8 _ Hl2). reflexivity.
Qed.

(* ScriptGasLimit on the other kinds: 0 *)
Theorem agree_gas_limit_other st b : o_kind (v_tx st) <> KScript -> agrees st b GTF_ScriptGasLimit.
Proof.
  intros Hk. destruct st as [[k v m] par ctx size owner cmap]. unfold agrees. cbn [v_tx o_kind o_val] in *.
  destruct k; try congruence; reflexivity.
Qed.

Theorem agree_create_scalars st b a :
  In a [GTF_CreateBytecodeWitnessIndex; GTF_CreateStorageSlotsCount] -> o_kind (v_tx st) = KCreate ->
  typed S_Create (o_val (v_tx st)) = true -> lengths_small (v_tx st) -> agrees st b a.
Proof.
  intros Hin Hk Hv Hl. destruct st as [[k v m] par ctx size owner cmap]. cbn [v_tx o_kind o_val] in *. subst k.
  destruct (typed_chargeable KCreate v ltac:(discriminate) Hv) as (body & pol & ins & outs & wits & meta & -> & Hb & _).
  cbn [body_ty] in Hb. pose proof (typed_shaped _ _ Hb) as Hs. shape Hs.
  match type of Hb with
  | typed S_CreateBody (VS [?a0; ?b0; VL ?l]) = true =>
      change ((1 <? U64) && (typed (TUInt 2) a0 && (typed S_Salt b0 && (forallb (typed S_StorageSlot) l && true))) = true) in Hb;
      rename l into slots; rename a0 into va; rename b0 into vb
  end.
  rewrite !andb_true_iff in Hb. destruct Hb as (_ & Ha & _).
  destruct (uint_inv _ _ Ha) as (wi & -> & Hwi). destruct Hl as (_ & _ & Hl3 & _).
  change (lenN (vlist (body_field {| o_kind := KCreate; o_val := cval (VS [VN wi; vb; VL slots]) pol ins outs wits meta; o_meta := m |} "storage_slots"))) with (lenN slots) in Hl3.
  cbn [In] in Hin. destruct Hin as [<- | [<- | []]].
  - val_case (SpValue (bodyp "bytecode_witness_index" PStatic)) (enc_uint 2 wi). close_uint Hwi.
  - val_case (SpValue (bodyp "storage_slots" PStatic)) (be8 (lenN slots)). rewrite (be_decode_be8 _ Hl3). reflexivity.
Qed.

Theorem agree_upload_scalars st b a :
  In a [GTF_UploadWitnessIndex; GTF_UploadSubsectionIndex; GTF_UploadSubsectionsCount; GTF_UploadProofSetCount] ->
  o_kind (v_tx st) = KUpload -> typed S_Upload (o_val (v_tx st)) = true -> lengths_small (v_tx st) -> agrees st b a.
Proof.
  intros Hin Hk Hv Hl. destruct st as [[k v m] par ctx size owner cmap]. cbn [v_tx o_kind o_val] in *. subst k.
  destruct (typed_chargeable KUpload v ltac:(discriminate) Hv) as (body & pol & ins & outs & wits & meta & -> & Hb & _).
  cbn [body_ty] in Hb. pose proof (typed_shaped _ _ Hb) as Hs. shape Hs.
  match type of Hb with
  | typed S_UploadBody (VS [?a0; ?b0; ?c0; ?d0; VL ?l]) = true =>
      change ((4 <? U64) && (typed S_Bytes32 a0 && (typed (TUInt 2) b0 && (typed (TUInt 2) c0 && (typed (TUInt 2) d0 &&
              (forallb (typed S_Bytes32) l && true))))) = true) in Hb;
      rename l into proofs; rename a0 into va; rename b0 into vb; rename c0 into vc; rename d0 into vd
  end.
  rewrite !andb_true_iff in Hb. destruct Hb as (_ & _ & Hb1 & Hc1 & Hd1 & _).
  destruct (uint_inv _ _ Hb1) as (wi & -> & Hwi). destruct (uint_inv _ _ Hc1) as (si & -> & Hsi). destruct (uint_inv _ _ Hd1) as (sn & -> & Hsn).
  destruct Hl as (_ & _ & _ & Hl4).
  change (lenN (vlist (body_field {| o_kind := KUpload; o_val := cval (VS [va; VN wi; VN si; VN sn; VL proofs]) pol ins outs wits meta; o_meta := m |} "proof_set"))) with (lenN proofs) in Hl4.
  cbn [In] in Hin. destruct Hin as [<- | [<- | [<- | [<- | []]]]].
  - val_case (SpValue (bodyp "witness_index" PStatic)) (enc_uint 2 wi). close_uint Hwi.
  - val_case (SpValue (bodyp "subsection_index" PStatic)) (enc_uint 2 si). close_uint Hsi.
  - val_case (SpValue (bodyp "subsections_number" PStatic)) (enc_uint 2 sn). close_uint Hsn.
  - val_case (SpValue (bodyp "proof_set" PStatic)) (be8 (lenN proofs)). rewrite (be_decode_be8 _ Hl4). reflexivity.
Qed.

Theorem agree_blob_scalars st b :
  o_kind (v_tx st) = KBlob -> typed S_Blob (o_val (v_tx st)) = true -> agrees st b GTF_BlobWitnessIndex.
Proof.
  intros Hk Hv. destruct st as [[k v m] par ctx size owner cmap]. cbn [v_tx o_kind o_val] in *. subst k.
  destruct (typed_chargeable KBlob v ltac:(discriminate) Hv) as (body & pol & ins & outs & wits & meta & -> & Hb & _).
  cbn [body_ty] in Hb. pose proof (typed_shaped _ _ Hb) as Hs. shape Hs.
  match type of Hb with
  | typed S_BlobBody (VS [?a0; ?b0]) = true =>
      change ((5 <? U64) && (typed S_BlobId a0 && (typed (TUInt 2) b0 && true)) = true) in Hb; rename a0 into va; rename b0 into vb
  end.
  rewrite !andb_true_iff in Hb. destruct Hb as (_ & _ & Hb1 & _). destruct (uint_inv _ _ Hb1) as (wi & -> & Hwi).
  val_case (SpValue (bodyp "witness_index" PStatic)) (enc_uint 2 wi). close_uint Hwi.
Qed.

(* ================================================================ pointers to static body fields *)
Lemma sat_ofs ofs c : ofs <= 4294967296 -> c <= 4294967296 -> sat ofs c = ofs + c.
Proof. intros H1 H2. rewrite sat_is_cap. apply cap_small. change u64_max with 18446744073709551615. lia. Qed.

Ltac ptr_case SP OFF :=
  unfold agrees; cbn [v_tx o_kind o_val];
  match goal with |- denote ?st (gtf_spec ?k ?v ?b ?a) = _ => change (gtf_spec k v b a) with SP end;
  unfold denote; cbn [v_tx o_kind o_val v_params];
  match goal with |- match locate_in ?T ?v ?s with _ => _ end = _ =>
    let L := fresh "L" in assert (L : exists bs, locate_in T v s = Some (OFF, bs)) by (eexists; reflexivity);
    destruct L as [? L]; rewrite L end.

(* GTF CreateSalt / UploadRoot / BlobId / UpgradePurpose: tx_offset + the position of the field *)
Theorem agree_static_pointers st b a :
  In a [GTF_CreateSalt; GTF_UploadRoot; GTF_BlobId; GTF_UpgradePurpose] -> selector_kind a = Some (o_kind (v_tx st)) ->
  typed (kind_ty (o_kind (v_tx st))) (o_val (v_tx st)) = true -> p_tx_offset (v_params st) <= 4294967296 -> agrees st b a.
Proof.
  intros Hin Hsk Hv Hofs. destruct st as [[k v m] par ctx size owner cmap]. cbn [v_tx o_kind o_val v_params] in *.
  cbn [In] in Hin. destruct Hin as [<- | [<- | [<- | [<- | []]]]]; cbn [selector_kind] in Hsk; apply Some_inj in Hsk; subst k;
    (match type of Hv with typed (kind_ty ?K) _ = true =>
       destruct (typed_chargeable K v ltac:(discriminate) Hv) as (body & pol & ins & outs & wits & meta & -> & Hb & _) end);
    cbn [body_ty] in Hb; pose proof (typed_shaped _ _ Hb) as Hs; shape Hs.
  all: match goal with
       | |- agrees _ _ GTF_CreateSalt =>
           match type of Hb with
           | typed S_CreateBody (VS [?a0; ?b0; VL ?l]) = true =>
               change ((1 <? U64) && (typed (TUInt 2) a0 && (typed S_Salt b0 && (forallb (typed S_StorageSlot) l && true))) = true) in Hb
           end;
           rewrite !andb_true_iff in Hb; destruct Hb as (_ & Ha & _); destruct (uint_inv _ _ Ha) as (wi & -> & Hwi);
           ptr_case (SpPointer (bodyp "salt" PStatic)) 16;
           change (gtf_eval _ b GTF_CreateSalt) with (GOk (sat (p_tx_offset par) 16)); rewrite sat_ofs by lia; reflexivity
       | |- agrees _ _ GTF_UploadRoot =>
           ptr_case (SpPointer (bodyp "root" PStatic)) 8;
           change (gtf_eval _ b GTF_UploadRoot) with (GOk (sat (p_tx_offset par) 8)); rewrite sat_ofs by lia; reflexivity
       | |- agrees _ _ GTF_BlobId =>
           ptr_case (SpPointer (bodyp "id" PStatic)) 8;
           change (gtf_eval _ b GTF_BlobId) with (GOk (sat (p_tx_offset par) 8)); rewrite sat_ofs by lia; reflexivity
       | |- agrees _ _ GTF_UpgradePurpose =>
           ptr_case (SpPointer (bodyp "purpose" PStatic)) 8;
           change (gtf_eval _ b GTF_UpgradePurpose) with (GOk (sat (p_tx_offset par) 8)); rewrite sat_ofs by lia; reflexivity
       end.
Qed.
