(* Run/Frames.v — trace validation for C34 (cases produced by harness/src/bin/frames.rs).
   A case is one traced transaction.  The checker keeps its own stack of model frames: at every
   successful CALL it computes the callee's registers and the frame with the model
   (Vm/FrameModel.v: call_regs, frame_bytes) and compares them with all 64 registers after the
   step and with the 600 bytes the interpreter wrote at the new $fp; at every RET/RETD executed
   in a callee it computes the restored registers from the frame saved at the matching CALL
   (ret_regs) and compares all 64; in between, no step may change a byte of
   [vm_hi, $sp at the call) of any pending caller. *)
From FV Require Import Base.Bytes Base.U64 Gen.VmConsts Vm.OwnModel Vm.FrameModel.
Open Scope N_scope.

Definition bad {A} (chk : A -> bool) (cs : list (N * A)) : list N :=
  map fst (filter (fun c => negb (chk (snd c))) cs).

Inductive fstep :=
| FQuiet (count : N) (depth : N)         (* count consecutive steps that changed no memory, all at this depth *)
| FOther (depth_after : N) (changed : list (N * N))
| FCall (rb ra : list N)                (* the 64 registers before / after *)
        (to asset : bytes) (a b : N)    (* Call structure at $rA, asset id at $rC (read before the step) *)
        (vb vd : N)                     (* $rB coins, $rD gas to forward *)
        (code_size : N)                 (* size of the callee's code in storage *)
        (frame_mem : list N)            (* the CF_SIZE bytes at the new $fp after the step, as 75 big-endian words *)
        (code_ok : bool)                (* harness: bytes after the frame = code ++ zero padding *)
        (depth_after : N) (changed : list (N * N))
| FRet (retd : bool) (fa : N)           (* register index of the instruction's field A *)
       (rb ra : list N) (vb : N)       (* $rB before the step (RETD length; read before the gas charge) *)
       (depth_after : N) (changed : list (N * N)).

Record fcase := { fc_vm_hi : N; fc_steps : list fstep }.

(* a pending call: the model frame, the caller's registers at the CALL *)
Record pending := { p_frame : frame; p_regs : list N }.

Definition getr (l : list N) (k : N) : N := nth (N.to_nat k) l 0.
Definition p_sp (p : pending) : N := getr (p_regs p) REG_SP.

Definition untouched (vm_hi : N) (stack : list pending) (changed : list (N * N)) : bool :=
  match stack with
  | [] => true
  | p :: _ => forallb (fun c => (p_sp p <=? fst c) || (fst c + snd c <=? vm_hi)) changed
  end.

Definition preserved_ids : list N :=
  filter (fun k => negb ((k =? REG_CGAS) || (k =? REG_GGAS) || (k =? REG_RET) || (k =? REG_RETL) || (k =? REG_HP) || (k =? REG_PC)))
         reg_ids.

Definition bytes_of_words (ws : list N) : bytes := flat_map word_bytes ws.

Definition check_call (rb ra : list N) (to asset : bytes) (a b vb vd code_size : N) (frame_words : list N)
  : option pending :=
  let frame_mem := bytes_of_words frame_words in
  let r := regs_of_list rb in
  let padded := padded_len code_size in
  let total := CF_SIZE + padded in
  let cgas_after := getr ra REG_CGAS in
  let saved_cgas := word_at frame_mem (CF_REGS_OFFSET + 8 * REG_CGAS) in
  let cgas1 := saved_cgas + cgas_after in
  let ggas1 := getr ra REG_GGAS in
  let '(saved, r') := call_regs r total vb vd cgas1 ggas1 in
  let f := {| f_to := to; f_asset := asset; f_regs := saved; f_code_size_padded := padded; f_a := a; f_b := b |} in
  if regs_eqb r' ra && bytes_eqb (frame_bytes f) frame_mem &&
     (cgas1 <=? getr rb REG_CGAS) && (ggas1 <=? getr rb REG_GGAS) &&
     (getr rb REG_CGAS - cgas1 =? getr rb REG_GGAS - ggas1)        (* one charge, applied to both *)
  then Some {| p_frame := f; p_regs := rb |} else None.

(* RET / RETD charge their own gas before returning: the charge is what $ggas lost in the step
   (gas accounting is C26's subject); the model runs on the registers after that charge *)
Definition check_ret (p : pending) (retd : bool) (fa : N) (rb ra : list N) (vb : N) : bool :=
  let charge := getr rb REG_GGAS - getr ra REG_GGAS in
  let r := upd (upd (regs_of_list rb) REG_CGAS (getr rb REG_CGAS - charge)) REG_GGAS (getr rb REG_GGAS - charge) in
  (getr ra REG_GGAS <=? getr rb REG_GGAS) && (charge <=? getr rb REG_CGAS) &&
  (* RET / RETD read $rA after the charge (it differs from the value before only when rA is a gas register) *)
  match ret_regs r (Some (p_frame p)) (r fa) (if retd then vb else 0) with
  | None => false
  | Some r' =>
      regs_eqb r' ra &&
      (* the statement itself, against the registers observed at the matching CALL *)
      forallb (fun k => getr ra k =? getr (p_regs p) k) preserved_ids &&
      (getr ra REG_PC =? getr (p_regs p) REG_PC + 4) &&
      (getr ra REG_HP <=? getr (p_regs p) REG_HP)
  end.

Fixpoint check_steps (vm_hi : N) (stack : list pending) (steps : list fstep) : bool :=
  match steps with
  | [] => true
  | FQuiet _ d :: rest => (d =? lenN stack) && check_steps vm_hi stack rest
  | FOther d ch :: rest =>
      (d =? lenN stack) && untouched vm_hi stack ch && check_steps vm_hi stack rest
  | FCall rb ra to asset a b vb vd code_size frame_mem code_ok d ch :: rest =>
      match check_call rb ra to asset a b vb vd code_size frame_mem with
      | None => false
      | Some p =>
          code_ok && (d =? lenN stack + 1) && untouched vm_hi stack ch &&
          (* the CALL itself writes only at or above the caller's $sp (or the balance table) *)
          forallb (fun c => (getr rb REG_SP <=? fst c) || (fst c + snd c <=? vm_hi)) ch &&
          check_steps vm_hi (p :: stack) rest
      end
  | FRet retd fa rb ra vb d ch :: rest =>
      match stack with
      | [] => (d =? 0) && check_steps vm_hi [] rest          (* the script's own return ends the run *)
      | p :: stack' =>
          check_ret p retd fa rb ra vb && (d =? lenN stack') &&
          match ch with [] => true | _ => false end &&
          check_steps vm_hi stack' rest
      end
  end.

Definition check_fcase (c : fcase) : bool := check_steps (fc_vm_hi c) [] (fc_steps c).
Definition bad_fcases := bad check_fcase.
