(* Run/Kv.v — trace validation for C33 (cases produced by harness/src/bin/kv.rs).
   A case is a history on ONE world: the initial contract state, then transactions; every
   storage instruction the real interpreter executed is a [kstep] with what it read through
   its pointer registers (oracle tables for the memory subsystem), and what was observed:
   outcome, result registers, $err, destination memory, the calls on the backing storage
   (RecStorage) and the gas charged.  The checker threads the L1 state (store + cache) through
   the whole history, replays Vm.KvModel.handler on each step and must predict every
   observation; after each transaction the store must equal the dump of the real storage and
   the cache the interpreter's slot cache.  It returns the positions it cannot explain. *)
From FV Require Import Base.Bytes Vm.KvSpec Vm.KvModel Gen.KvTable Run.KvLit.
Open Scope N_scope.

Definition bad {A} (chk : A -> bool) (cs : list (N * A)) : list N :=
  map fst (filter (fun c => negb (chk (snd c))) cs).

(* gas schedule entries used by the storage instructions *)
Inductive kcost := CFixed (n : N) | CLight (base units_per_gas : N) | CHeavy (base gas_per_unit : N).
Definition sat (x : N) : N := N.min x U64_MAX.
Definition resolve (c : kcost) (units : N) : N :=
  match c with
  | CFixed n => n
  | CLight b upg => sat (b + units / upg)
  | CHeavy b gpu => sat (b + sat (units * gpu))
  end.
Record kcosts := {
  kc_noop : N; kc_hot : kcost; kc_cold : kcost; kc_write : kcost; kc_clear : kcost; kc_new_byte : N;
}.
Definition gas_of (k : kcosts) (g : gnote) : N :=
  match g with
  | GReadHot u => resolve (kc_hot k) u
  | GReadCold u => resolve (kc_cold k) u
  | GWrite u nb => resolve (kc_write k) u + sat (kc_new_byte k * nb)
  | GClear n => resolve (kc_clear k) n
  end.
Definition total_gas (k : kcosts) (gs : list gnote) : N :=
  fold_left (fun acc g => acc + gas_of k g) gs (kc_noop k).

(* storage calls as recorded; anything else on the contract-state table is [OOther] *)
Inductive oevent := OEv (e : sevent) | OOther.

Record kstep := {
  ks_op : N;
  ks_f : N * N * N * N;             (* raw 6-bit fields a b c d *)
  ks_v : N * N * N * N;             (* values of those registers before the step *)
  ks_ctx : option N;                (* executing contract (id at $fp), None in a script *)
  ks_rd : list (N * N * memres bytes);    (* (addr, len, memory.read result) for the reads the handler can make *)
  ks_wr : list (N * N * option N);        (* (addr, len, refusal reason of memory.write) *)
  ks_outcome : N;                   (* 0 proceed, 4 panic, other = unexpected *)
  ks_reason : N;
  ks_ab' : N * N;                   (* values after the step of the registers named by fields a, b *)
  ks_err' : N;
  ks_pc : N * N;                    (* $pc before, after *)
  ks_dst : N * N;                   (* destination address, length observed *)
  ks_mem : option (bytes * bytes);  (* bytes at the destination before / after (None: unreadable) *)
  ks_events : list oevent;
  ks_gas : N;
}.

Definition fa (s : kstep) := let '(a, _, _, _) := ks_f s in a.
Definition fb (s : kstep) := let '(_, b, _, _) := ks_f s in b.
Definition fd (s : kstep) := let '(_, _, _, d) := ks_f s in d.
Definition fcd (s : kstep) := let '(_, _, c, d) := ks_f s in c * 64 + d.     (* imm12 of SWRI *)
Definition va (s : kstep) := let '(a, _, _, _) := ks_v s in a.
Definition vb (s : kstep) := let '(_, b, _, _) := ks_v s in b.
Definition vc (s : kstep) := let '(_, _, c, _) := ks_v s in c.
Definition vd (s : kstep) := let '(_, _, _, d) := ks_v s in d.

Definition instr_of (s : kstep) : option kinstr :=
  let o := ks_op s in
  if o =? OP_SCWQ then Some (I_SCWQ (fb s) (va s) (vc s))
  else if o =? OP_SRW then Some (I_SRW (fa s) (fb s) (vc s) (fd s))
  else if o =? OP_SRWQ then Some (I_SRWQ (fb s) (va s) (vc s) (vd s))
  else if o =? OP_SWW then Some (I_SWW (fb s) (va s) (vc s))
  else if o =? OP_SWWQ then Some (I_SWWQ (fb s) (va s) (vc s) (vd s))
  else if o =? OP_SCLR then Some (I_SCLR (va s) (vb s))
  else if o =? OP_SRDD then Some (I_SRD (va s) (vb s) (vc s) (vd s))
  else if o =? OP_SRDI then Some (I_SRD (va s) (vb s) (vc s) (fd s))
  else if o =? OP_SWRD then Some (I_SWR (va s) (vb s) (vc s))
  else if o =? OP_SWRI then Some (I_SWR (va s) (vb s) (fcd s))
  else if o =? OP_SUPD then Some (I_SUP (va s) (vb s) (vc s) (vd s))
  else if o =? OP_SUPI then Some (I_SUP (va s) (vb s) (vc s) (fd s))
  else if o =? OP_SPLD then Some (I_SPLD (fa s) (vb s))
  else None.

(* number of loop iterations the handler may run: the runner refuses to evaluate beyond it *)
Definition LOOP_CAP : N := 65536.
Definition loop_count (i : kinstr) : N :=
  match i with
  | I_SCWQ _ _ n | I_SRWQ _ _ _ n | I_SWWQ _ _ _ n | I_SCLR _ n => if U32_MAX <? n then 0 else n   (* > u32: refused before the loop *)
  | _ => 0
  end.

Fixpoint lookup_rd (t : list (N * N * memres bytes)) (a l : N) : memres bytes :=
  match t with
  | [] => MFault 255
  | (a', l', r) :: t' => if (a' =? a) && (l' =? l) then r else lookup_rd t' a l
  end.
Fixpoint lookup_wr (t : list (N * N * option N)) (a l : N) : option N :=
  match t with
  | [] => Some 255
  | (a', l', r) :: t' => if (a' =? a) && (l' =? l) then r else lookup_wr t' a l
  end.
Definition env_of (max_len : N) (s : kstep) : henv :=
  {| h_ctx := ks_ctx s; h_max_len := max_len; h_rd := lookup_rd (ks_rd s); h_wr := lookup_wr (ks_wr s) |}.

Definition reason_byte (r : kreason) : N :=
  match r with
  | KR_StorageOutOfBounds => PR_StorageOutOfBounds
  | KR_TooManySlots => PR_TooManySlots
  | KR_ExpectedInternalContext => PR_ExpectedInternalContext
  | KR_ReservedRegisterNotWritable => PR_ReservedRegisterNotWritable
  | KR_MemoryOverflow => PR_MemoryOverflow
  | KR_Other b => b
  end.

Definition obytes_eqb (a b : option bytes) : bool :=
  match a, b with Some x, Some y => bytes_eqb x y | None, None => true | _, _ => false end.
Definition sevent_eqb (a b : sevent) : bool :=
  match a, b with
  | ERead c k v, ERead c' k' v' => (c =? c') && (k =? k') && obytes_eqb v v'
  | EWrite c k v, EWrite c' k' v' => (c =? c') && (k =? k') && bytes_eqb v v'
  | ERemoveRange c k n, ERemoveRange c' k' n' => (c =? c') && (k =? k') && (n =? n')
  | _, _ => false
  end.
(* obs is a prefix of (exact = false) / equal to (exact = true) the predicted calls *)
Fixpoint events_match (exact : bool) (obs : list oevent) (pred : list sevent) : bool :=
  match obs, pred with
  | [], [] => true
  | [], _ :: _ => negb exact
  | OEv e :: o', p :: p' => sevent_eqb e p && events_match exact o' p'
  | _, _ => false
  end.

Definition obs_reg (s : kstep) (r : N) : option N :=
  if r =? fa s then Some (fst (ks_ab' s)) else if r =? fb s then Some (snd (ks_ab' s)) else None.
Definition regs_ok (s : kstep) (l : list (N * N)) : bool :=
  forallb (fun '(r, v) => match obs_reg s r with Some x => x =? v | None => false end) l.
Definition mem_ok (s : kstep) (out : kout) : bool :=
  match o_mem out with
  | [] => match ks_mem s with Some (b, a) => bytes_eqb b a | None => true end       (* nothing written *)
  | (a0, _) :: _ =>
      let data := concat (map snd (o_mem out)) in
      (a0 =? fst (ks_dst s)) && (lenN data =? snd (ks_dst s)) &&
      match ks_mem s with Some (_, a) => bytes_eqb a data | None => lenN data =? 0 end
  end.

(* result of checking one step: the next model state, and whether the model is still exact
   (an OutOfGas stop inside an instruction leaves an unknown prefix of its effects) *)
Definition check_step (costs : kcosts) (max_len : N) (st : kst) (s : kstep) : option (kst * bool) :=
  match instr_of s with
  | None => None
  | Some i =>
      if LOOP_CAP <? loop_count i then
        (* too long for the runner: explained only if it stopped without a persistent effect *)
        if (ks_outcome s =? 4) && forallb (fun e => match e with OEv (ERead _ _ _) => true | _ => false end) (ks_events s)
        then Some (st, false) else None
      else
        let '(res, st', ev, g) := run_l1 max_len (handler (env_of max_len s) i) st in
        if (ks_outcome s =? 4) && (ks_reason s =? PR_OutOfGas) then
          if events_match false (ks_events s) ev then Some (st', false) else None
        else
          match res with
          | SPanic r =>
              if (ks_outcome s =? 4) && (ks_reason s =? reason_byte r) && events_match true (ks_events s) ev
                 && (snd (ks_pc s) =? fst (ks_pc s))
              then Some (st', true) else None
          | SOk out =>
              if (ks_outcome s =? 0) && events_match true (ks_events s) ev && regs_ok s (o_regs out)
                 && match o_err out with Some x => ks_err' s =? x | None => true end
                 && mem_ok s out && (snd (ks_pc s) =? fst (ks_pc s) + 4)
                 && (ks_gas s =? total_gas costs g)
              then Some (st', true) else None
          end
  end.

Record ktx := {
  kt_max_len : N;
  kt_costs : kcosts;
  kt_steps : list kstep;
  kt_commit : bool;                              (* the script succeeded: the node keeps its writes *)
  kt_store_diff : list (pkey * option bytes);    (* MemoryStorage::all_contract_state after the run, as a
                                                    difference to the storage the run started from *)
  kt_cache_after : list (pkey * option bytes);   (* the interpreter's slot cache after the run *)
}.
Record khist := { kh_init : list (pkey * bytes); kh_txs : list ktx }.

Fixpoint run_steps (costs : kcosts) (max_len : N) (st : kst) (exact : bool) (ss : list kstep) (i : N)
  : kst * bool * list N :=
  match ss with
  | [] => (st, exact, [])
  | s :: r =>
      match check_step costs max_len st s with
      | None => (st, false, [i])          (* unexplained: stop threading this transaction *)
      | Some (st', ex) => run_steps costs max_len st' (exact && ex) r (i + 1)
      end
  end.

Definition apply_diff (s : pmap bytes) (d : list (pkey * option bytes)) : pmap bytes :=
  fold_left (fun acc '(k, v) => match v with Some x => pset acc k x | None => pdel acc k end) d s.
Definition store_matches (store expected : pmap bytes) : bool :=
  forallb (fun '(k, _) => obytes_eqb (pget store k) (pget expected k)) expected &&
  forallb (fun '(k, _) => obytes_eqb (pget store k) (pget expected k)) store.
Definition oobytes_eqb (a b : option (option bytes)) : bool :=
  match a, b with Some x, Some y => obytes_eqb x y | None, None => true | _, _ => false end.
Definition cache_matches (cache : pmap (option bytes)) (dump : list (pkey * option bytes)) : bool :=
  forallb (fun '(k, v) => oobytes_eqb (pget cache k) (Some v)) dump &&
  forallb (fun '(k, _) => oobytes_eqb (pget cache k) (pget dump k)) cache.

(* positions are 1000 * transaction index + step index; 1000*t + 998 / 999 = store / cache mismatch *)
Fixpoint run_txs (st : kst) (txs : list ktx) (t : N) : list N :=
  match txs with
  | [] => []
  | tx :: r =>
      let st0 := st_begin_tx st in
      let '(st1, exact, badsteps) := run_steps (kt_costs tx) (kt_max_len tx) st0 true (kt_steps tx) 0 in
      let b1 := map (fun i => 1000 * t + i) badsteps in
      let observed := apply_diff (st_store st0) (kt_store_diff tx) in
      let b2 := if exact && negb (store_matches (st_store st1) observed) then [1000 * t + 998] else [] in
      let b3 := if exact && negb (cache_matches (st_cache st1) (kt_cache_after tx)) then [1000 * t + 999] else [] in
      (* resynchronise on the observed storage: committed -> the observed storage, else the state before *)
      let next := if kt_commit tx then {| st_store := observed; st_cache := [] |} else st0 in
      b1 ++ b2 ++ b3 ++ run_txs next r (t + 1)
  end.
Definition check_hist_detail (h : khist) : list N :=
  run_txs {| st_store := kh_init h; st_cache := [] |} (kh_txs h) 0.
Definition check_hist (h : khist) : bool := match check_hist_detail h with [] => true | _ => false end.
Definition bad_khists := bad check_hist.
