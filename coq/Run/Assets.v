(* Run/Assets.v — trace validation for C27 (cases produced by harness/src/bin/assets.rs).
   One case = one script execution on the real interpreter: the transaction's inputs / outputs /
   max fee, the contracts' balance table before, every executed TR / TRO / CALL / MINT / BURN /
   SMO step (operands read from registers and VM memory before the step, panic reason or
   success, the receipt pushed, the contract balances written, the balance table read back from
   VM memory after the step), how the script ended, the refund, the outputs of the final
   transaction and the balance table of the MemoryClient's storage afterwards.
   The checker replays the abstract machine Vm/AssetModel.v and reports every case in which a
   step, the final outputs, the final storage or the memory table is not reproduced, or in
   which the executed ledger equation of Vm/AssetSpec.v fails on the observed data. *)
From FV Require Import Base.Bytes Base.U64 Gen.AssetTable Vm.AssetModel Vm.AssetSpec.
Open Scope N_scope.

Definition bad {A} (chk : A -> bool) (cs : list (N * A)) : list N :=
  map fst (filter (fun c => negb (chk (snd c))) cs).

(* Identifiers (asset ids, contract ids, addresses, sub ids) are printed by the harness as their RANK
   among the identifiers of the case (order-preserving and injective; the all-zero id is 0): the
   machine only compares and orders them.  ContractId::asset_id (SHA-256(contract || sub)) is
   therefore given as the table of the (contract, sub id) pairs that occur, computed by the real code. *)
Definition asset_of_tbl (tbl : list ((N * N) * N)) (c sub : N) : N :=
  match cget tbl (c, sub) with Some a => a | None => 0 end.

Fixpoint list_eqb {A} (eqb : A -> A -> bool) (a b : list A) : bool :=
  match a, b with
  | [], [] => true
  | x :: a', y :: b' => eqb x y && list_eqb eqb a' b'
  | _, _ => false
  end.
Definition pairN_eqb (x y : N * N) : bool := (fst x =? fst y) && (snd x =? snd y).

Definition output_eqb (x y : output) : bool :=
  match x, y with
  | OCoin t m a, OCoin t' m' a' => (t =? t') && (m =? m') && (a =? a')
  | OChange t m a, OChange t' m' a' => (t =? t') && (m =? m') && (a =? a')
  | OVariable t m a, OVariable t' m' a' => (t =? t') && (m =? m') && (a =? a')
  | OOther, OOther => true
  | _, _ => false
  end.

Definition areceipt_eqb (x y : areceipt) : bool :=
  match x, y with
  | RTransfer f t m a, RTransfer f' t' m' a' => (f =? f') && (t =? t') && (m =? m') && (a =? a')
  | RTransferOut f t m a, RTransferOut f' t' m' a' => (f =? f') && (t =? t') && (m =? m') && (a =? a')
  | RCall f t m a, RCall f' t' m' a' => (f =? f') && (t =? t') && (m =? m') && (a =? a')
  | RMint s c m, RMint s' c' m' => (s =? s') && (c =? c') && (m =? m')
  | RBurn s c m, RBurn s' c' m' => (s =? s') && (c =? c') && (m =? m')
  | RMessageOut m, RMessageOut m' => m =? m'
  | _, _ => false
  end.

Record astep := {
  as_op : op;
  as_obs : option N;                     (* None: the instruction completed; Some r: it panicked with reason byte r *)
  as_receipt : option areceipt;          (* the receipt the step pushed *)
  as_table : list N;                     (* values of the balance table read from VM memory after the step *)
  as_cwrites : list ((N * N) * N);       (* (contract, asset) -> value of the last ContractsAssets write of the step *)
}.

Record acase := {
  ac_base : N;
  ac_input_contracts : list N;
  ac_ins : list input;
  ac_outs : list output;                 (* outputs of the submitted transaction *)
  ac_max_fee : N;
  ac_cb0 : list ((N * N) * N);           (* ContractsAssets before *)
  ac_initial : list (N * N);             (* Interpreter::initial_balances().non_retryable *)
  ac_table0 : list (N * N);              (* balance table in VM memory before the first instruction *)
  ac_steps : list astep;
  ac_end : N;                            (* ScriptResult: 0 success, 1 revert, 2 panic *)
  ac_refund : N;
  ac_outs_final : list output;
  ac_cb_final : list ((N * N) * N);      (* ContractsAssets of the MemoryClient afterwards *)
  ac_table_final : list (N * N);         (* balance table in VM memory at the end *)
  ac_assets : list N;                    (* every asset id that occurs anywhere in the case *)
  ac_subassets : list ((N * N) * N);     (* (contract, sub id) -> asset id, for the MINT / BURN steps *)
}.

(* panic reasons that the parts of an instruction NOT modelled here can raise: gas, operand
   memory reads, call-frame construction, receipt capacity.  [late]: after the balances were
   touched (the model says Ok), [early]: before (whatever the model says). *)
Definition env_common : list N :=
  [PR_OutOfGas; PR_MemoryOverflow; PR_MemoryOwnership; PR_UninitalizedMemoryAccess; PR_MemoryNotExecutable].
Definition env_late (o : op) : list N :=
  match o with
  | OpCall _ _ _ _ => [PR_OutOfGas; PR_TooManyReceipts; PR_MemoryOverflow; PR_MemoryGrowthOverlap; PR_ContractNotFound]
  | _ => [PR_OutOfGas; PR_TooManyReceipts]
  end.
Definition env_early (o : op) : list N :=
  match o with
  | OpCall _ _ _ _ => PR_ContractNotFound :: PR_MalformedCallStructure :: env_common
  | OpMessageOut _ _ => PR_MessageDataTooLong :: env_common
  | _ => env_common
  end.
Definition mem (x : N) (l : list N) : bool := existsb (N.eqb x) l.

Definition opt_receipt_eqb (a b : option areceipt) : bool :=
  match a, b with Some x, Some y => areceipt_eqb x y | None, None => true | _, _ => false end.

Definition table_of (s : vm) : list (N * N) := table_in_memory (v_mem s) 0 (length (v_bal s)).

(* replay: state, operations the model executed or refused (for [execute]), panicked?, ok? *)
Fixpoint replay (asset_of : N -> N -> N) (base : N) (inputs : list N) (s : vm) (steps : list astep) (acc : list op)
  : vm * list op * bool * bool :=
  match steps with
  | [] => (s, rev acc, false, true)
  | st :: rest =>
      let o := as_op st in
      match as_obs st, step asset_of base inputs s o with
      | None, Ok (s', r) =>
          if opt_receipt_eqb (as_receipt st) (Some r)
             && list_eqb N.eqb (map snd (table_of s')) (as_table st)
             && forallb (fun kv => match cget (v_cbal s') (fst kv) with Some v => v =? snd kv | None => false end) (as_cwrites st)
          then replay asset_of base inputs s' rest (o :: acc)
          else (s, rev acc, false, false)
      | None, Panic _ => (s, rev acc, false, false)
      | Some rb, Ok _ =>
          (* the model's part succeeded; something later in the instruction panicked *)
          (s, rev acc, true, mem rb (env_late o) && match rest with [] => true | _ => false end)
      | Some rb, Panic rm =>
          (s, rev (o :: acc), true,
           ((rb =? rm) || mem rb (env_early o)) && match rest with [] => true | _ => false end)
      end
  end.

Definition cb_agree (model observed : list ((N * N) * N)) : bool :=
  (* every observed entry is the model's, and every model entry is observed (absent = 0 on both sides) *)
  forallb (fun kv => balance model (fst (fst kv)) (snd (fst kv)) =? snd kv) observed &&
  forallb (fun kv => balance observed (fst (fst kv)) (snd (fst kv)) =? snd kv) model.

Definition initial_agree (m o : list (N * N)) : bool :=
  forallb (fun kv => getd o (fst kv) =? snd kv) m && forallb (fun kv => getd m (fst kv) =? snd kv) o
  && (N.of_nat (length m) =? N.of_nat (length o)).

Fixpoint sum_receipts (sel : areceipt -> option (N * N)) (rs : list areceipt) (acc : list (N * N)) : list (N * N) :=
  match rs with
  | [] => acc
  | r :: t => sum_receipts sel t (match sel r with Some (a, m) => bump acc a m | None => acc end)
  end.

Definition check_acase (c : acase) : bool :=
  let base := ac_base c in
  let asset_of := asset_of_tbl (ac_subassets c) in
  match init_vm base (ac_ins c) (ac_outs c) (ac_max_fee c) (ac_cb0 c) with
  | None => false
  | Some (s0, initial) =>
      initial_agree initial (ac_initial c) &&
      list_eqb pairN_eqb (table_of s0) (ac_table0 c) &&
      let '(s, ops, panicked, ok) := replay asset_of base (ac_input_contracts c) s0 (ac_steps c) [] in
      ok &&
      (* a panicking asset instruction ends the script with result Panic *)
      (if panicked then ac_end c =? SER_Panic else true) &&
      let e := if ac_end c =? SER_Success then EndReturn else if ac_end c =? SER_Revert then EndRevert else EndPanic in
      match execute asset_of base (ac_input_contracts c) (ac_ins c) (ac_outs c) (ac_max_fee c) (ac_cb0 c) ops e (ac_refund c) with
      | None => false
      | Some f =>
          Bool.eqb (f_revert f) (negb (ac_end c =? SER_Success)) &&
          list_eqb output_eqb (f_outs f) (ac_outs_final c) &&
          cb_agree (f_cbal f) (ac_cb_final c) &&
          (* an asset instruction that panics after its debit leaves the debited table behind (the run is
             reverted; nobody can read it): the model's table is the one before that instruction *)
          (panicked || list_eqb pairN_eqb (f_table f) (ac_table_final c)) &&
          (ac_refund c <=? ac_max_fee c) && change_unique_b (ac_outs c) &&
          (* the specification, executed on the model's result ... *)
          forallb (fun a => ledger_equation_b base a (ac_ins c) (ac_cb0 c) (ac_max_fee c) (ac_refund c) f) (ac_assets c) &&
          (* ... and on the observed data alone (receipts, final outputs, final storage, final table) *)
          let rcs := flat_map (fun st => match as_obs st, as_receipt st with None, Some r => [r] | _, _ => [] end) (ac_steps c) in
          let revert := negb (ac_end c =? SER_Success) in
          let fobs := {| f_revert := revert; f_outs := ac_outs_final c; f_cbal := ac_cb_final c;
                         f_free := if revert then ac_initial c else ac_table_final c;
                         f_minted := if revert then [] else
                           sum_receipts (fun r => match r with RMint sub cc m => Some (asset_of cc sub, m) | _ => None end) rcs [];
                         f_burned := if revert then [] else
                           sum_receipts (fun r => match r with RBurn sub cc m => Some (asset_of cc sub, m) | _ => None end) rcs [];
                         f_msgout := if revert then 0 else
                           fold_left (fun acc r => match r with RMessageOut m => acc + m | _ => acc end) rcs 0;
                         f_receipts := rcs; f_table := ac_table_final c |} in
          forallb (fun a => ledger_equation_b base a (ac_ins c) (ac_cb0 c) (ac_max_fee c) (ac_refund c) fobs) (ac_assets c) &&
          (if revert then failed_outputs_ok base (ac_refund c) (ac_initial c) (ac_outs_final c) else true)
      end
  end.
Definition bad_acases := bad check_acase.
