(* Run/KvLit.v — compact literals for the generated case files of C30 / C33.
   coqc elaborates a string literal at ~0.1 ms per character and a 20-digit N literal at ~1 ms,
   a decimal primitive-integer literal at ~0.05 ms: byte strings are therefore printed as lists of
   63-bit words holding 7 bytes each, 64-bit values above 2^31 as two halves, and converted here
   (inside vm_compute). *)
From Coq Require Import Uint63 ZArith.
From FV Require Import Base.Bytes.
Open Scope N_scope.

Definition i2n (x : int) : N := Z.to_N (Uint63.to_Z x).
(* [wb words len]: the first len bytes of the big-endian 7-byte groups *)
Definition wb (ws : list int) (len : N) : bytes :=
  firstn (N.to_nat len) (concat (map (fun w => be_encode 7 (i2n w)) ws)).
(* 32-byte big-endian value (contract id, storage key) as a number *)
Definition k256w (ws : list int) : N := be_decode (wb ws 32).
Definition big (hi lo : N) : N := hi * 4294967296 + lo.

(* word lists: every element is read as a primitive integer *)
Notation "'wl' [ ]" := (@nil int) (at level 0).
Notation "'wl' [ x ; .. ; y ]" := (@cons int x%uint63 .. (@cons int y%uint63 (@nil int)) ..) (at level 0).
