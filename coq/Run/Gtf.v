(* Run/Gtf.v — case runner of the GTF / GM correspondence (C05); cases are produced by
   harness/src/bin/gtf.rs from a real Interpreter.  Per case: the transaction handed to the VM,
   the configured parameters, the context, the VM memory [0, end of tx) read back from the real
   VM, and every executed (selector, $rB) with its result.  The L1 model (Gtf/GtfModel.v) must
   reproduce the initial memory and every result; the L3 specification (Gtf/GtfSpec.v) is executed
   on every result: a value is the integer whose canonical bytes the C04 specification locates,
   a pointer is tx_offset + the located position and the REAL memory there holds the field bytes. *)
From FV Require Import Base.Bytes Base.U64 Base.Sha256 Codec.Schema Codec.CodecModel Gen.Schemas Gen.GtfTable
     TxId.IdSpec TxId.IdModel Offsets.OffsetSpec Offsets.OffsetModel Gtf.GtfSpec Gtf.GtfModel Run.Codec.
Local Open Scope list_scope.
Open Scope N_scope.

Inductive gobs : Type :=
| OGtf (imm b : N) (r : gres)
| OGm (imm : N) (r : gres).

Inductive gtf_case : Type :=
| gc (kind : nat) (v : val) (precomputed : bool) (chain_id gas_price : N) (base_asset : bytes)
     (max_inputs : N) (ctx : gctx) (mem : bytes) (obs : list gobs).

Definition gres_eqb (a b : gres) : bool :=
  match a, b with
  | GOk x, GOk y => x =? y
  | GPanic x, GPanic y => x =? y
  | _, _ => false
  end.

(* ---- the specification executed on one GTF result *)
Definition spec_holds (st : vmst) (mem : bytes) (imm b : N) (r : gres) : bool :=
  let tx := v_tx st in
  let k := o_kind tx in
  let T := kind_ty k in
  let v := o_val tx in
  let ofs := p_tx_offset (v_params st) in
  if 4294967296 <=? b then gres_eqb r (GPanic P_InvalidMetadataIdentifier)      (* $rB must fit in u32 *)
  else
  match gtf_of_code imm with
  | None => gres_eqb r (GPanic P_InvalidMetadataIdentifier)
  | Some a =>
      match gtf_spec k v b a with
      | SpValue s =>
          match locate_in T v s with
          | Some (_, bs) => gres_eqb r (GOk (be_decode bs))
          | None => false
          end
      | SpHead s =>
          match locate_in T v s with
          | Some (_, bs) => gres_eqb r (GOk (be_decode (firstn 8 bs)))
          | None => false
          end
      | SpPointer s =>
          match locate_in T v s with
          | Some (o, bs) => gres_eqb r (GOk (ofs + o)) && bytes_eqb (slice mem (ofs + o) (lenN bs)) bs
          | None => false
          end
      | SpConst n => gres_eqb r (GOk n)
      | SpPolicy i =>
          match policy_get (tx_policies tx) i with
          | Some x => gres_eqb r (GOk x)
          | None => gres_eqb r (GPanic P_PolicyIsNotSet)
          end
      | SpPolicyBits => gres_eqb r (GOk (policy_bits (tx_policies tx)))
      | SpTxLength => gres_eqb r (GOk (lenN (enc T v))) && gres_eqb r (GOk (be_decode (slice mem (ofs - 8) 8)))
      | SpContractOutput =>
          (* the last Output::Contract whose input_index is $rB *)
          let hits := filter (fun p => match snd p with
                                       | VE 1%nat [VS (VN ii :: _)] => ii =? b
                                       | _ => false
                                       end)
                             (combine (seq 0 (length (tx_outputs tx))) (tx_outputs tx)) in
          match rev hits with
          | (j, _) :: _ => gres_eqb r (GOk (N.of_nat j))
          | [] => gres_eqb r (GPanic P_InputNotFound)
          end
      | SpPanic reason => gres_eqb r (GPanic reason)
      end
  end.

Definition gm_spec_holds (st : vmst) (mem : bytes) (imm : N) (r : gres) : bool :=
  let tx := v_tx st in
  let par := v_params st in
  let predicate := match v_ctx st with CtxPredicateVerification _ | CtxPredicateEstimation _ => true | _ => false end in
  match gm_of_code imm with
  | None => gres_eqb r (GPanic P_InvalidMetadataIdentifier)
  | Some a =>
      match gm_spec a with
      | GmChainId => gres_eqb r (GOk (p_chain_id par))
      | GmBaseAssetPtr =>
          match r with GOk p => bytes_eqb (slice mem p 32) (p_base_asset par) | _ => false end
      | GmTxStart =>
          match r with
          | GOk p => (p =? p_tx_offset par) &&
                     bytes_eqb (slice mem p (lenN mem - p)) (enc (kind_ty (o_kind tx)) (o_val tx))
          | _ => false
          end
      | GmGasPrice =>
          if predicate then gres_eqb r (GPanic P_CanNotGetGasPriceInPredicate) else gres_eqb r (GOk (p_gas_price par))
      | GmOwnerPtr =>
          match owner_spec (o_kind tx) (o_val tx), r with
          | Some (_, VB o), GOk p => bytes_eqb (slice mem p 32) o
          | None, GPanic reason => reason =? P_OwnerIsUnknown
          | _, _ => false
          end
      | GmPredicateIndex =>
          match ctx_predicate (v_ctx st) with
          | Some i => gres_eqb r (GOk i)
          | None => gres_eqb r (GPanic P_TransactionValidity)
          end
      | GmInternalOnly =>
          match v_ctx st with CtxCall _ => true | _ => gres_eqb r (GPanic P_ExpectedInternalContext) end
      end
  end.

Definition check_gtf (c : gtf_case) : bool :=
  match c with
  | gc ki v precomputed chain gas_price base max_inputs ctx mem obs =>
      match kind_of_index ki with
      | None => false
      | Some k =>
          let par := {| p_chain_id := chain; p_gas_price := gas_price; p_base_asset := base;
                        p_max_inputs := max_inputs; p_tx_offset := tx_offset_of max_inputs |} in
          let meta := if precomputed
                      then match precompute_offsets true {| o_kind := k; o_val := v; o_meta := None |} with
                           | Some t => o_meta t | None => None end
                      else None in
          typed (kind_ty k) v &&
          match init_vm par ctx k v meta with
          | None => false
          | Some st =>
              let id := id_model sha256 chain {| m_kind := k; m_val := v; m_cache := None |} in
              let balances := slice mem VM_MEMORY_BALANCES_OFFSET (max_inputs * BALANCE_ENTRY_SIZE) in
              (* the initial stack: tx id ‖ base asset ‖ balances ‖ tx size ‖ tx bytes at tx_offset *)
              bytes_eqb (init_memory st id balances) mem &&
              (lenN (id ++ base ++ balances) + 8 =? p_tx_offset par) &&
              forallb (fun o =>
                match o with
                | OGtf imm b r => gres_eqb (gtf st imm b) r && spec_holds st mem imm b r
                | OGm imm r => gres_eqb (gm st imm) r && gm_spec_holds st mem imm r
                end) obs
          end
      end
  end.
Definition bad_gtf := bad check_gtf.
