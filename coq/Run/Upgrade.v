(* Run/Upgrade.v — case runner for C35: replays a history (produced by harness/src/bin/upgrade.rs
   from the real Interpreter/Transactor on one MemoryStorage) through the L1 model and compares,
   after EVERY event, the verdict and the full canonical dump of the tables. *)
From FV Require Import Base.Bytes Upgrade.UpgradeSpec Upgrade.UpgradeModel.
Open Scope N_scope.

(* 32-byte identifiers (ContractId, BlobId, Bytes32 roots/keys) as big-endian numbers: the order
   of the numbers is the lexicographic order of the byte arrays, i.e. BTreeMap's order *)
Definition idn (s : string) : N := be_decode (hex s).

(* The model the correspondence is run against: [step] = the current code (upgrade_inner restores
   the replaced version entry before returning an Overriding error; `fix:` commit for finding F8).
   [step_before_fix] is the historical model; against it the two F8 corpus cases disagree. *)
Definition model_step : mstate -> event -> mstate * res := step.

Definition err_eqb (a b : err) : bool :=
  match a, b with
  | ContractIdAlreadyDeployed, ContractIdAlreadyDeployed
  | BlobIdAlreadyUploaded, BlobIdAlreadyUploaded
  | BytecodeAlreadyUploaded, BytecodeAlreadyUploaded
  | ThePartIsNotSequentiallyConnected, ThePartIsNotSequentiallyConnected
  | UnknownStateTransactionBytecodeRoot, UnknownStateTransactionBytecodeRoot
  | OverridingConsensusParameters, OverridingConsensusParameters
  | OverridingStateTransactionBytecode, OverridingStateTransactionBytecode
  | ArithmeticOverflow, ArithmeticOverflow
  | BugNextSubsectionIndexIsHigherThanTotalNumberOfParts, BugNextSubsectionIndexIsHigherThanTotalNumberOfParts
  | BugUncomputableRefund, BugUncomputableRefund
  | MalformedTransaction, MalformedTransaction => true
  | _, _ => false
  end.
Definition res_eqb (a b : res) : bool :=
  match a, b with
  | Ok, Ok => true
  | Err x, Err y => err_eqb x y
  | _, _ => false
  end.

Fixpoint list_eqb {A} (eqb : A -> A -> bool) (a b : list A) : bool :=
  match a, b with
  | [], [] => true
  | x :: a', y :: b' => eqb x y && list_eqb eqb a' b'
  | _, _ => false
  end.
Definition uploaded_eqb (a b : uploaded) : bool :=
  match a, b with
  | Uncompleted x n, Uncompleted y m => bytes_eqb x y && (n =? m)
  | Completed x, Completed y => bytes_eqb x y
  | _, _ => false
  end.
Definition mstate_eqb (a b : mstate) : bool :=
  list_eqb (fun x y => (fst x =? fst y) && bytes_eqb (snd x) (snd y)) (m_contracts a) (m_contracts b) &&
  list_eqb (fun x y => (fst (fst x) =? fst (fst y)) && (snd (fst x) =? snd (fst y)) && bytes_eqb (snd x) (snd y))
           (m_state a) (m_state b) &&
  list_eqb (fun x y => (fst x =? fst y) && bytes_eqb (snd x) (snd y)) (m_blobs a) (m_blobs b) &&
  list_eqb (fun x y => (fst x =? fst y) && uploaded_eqb (snd x) (snd y)) (m_uploads a) (m_uploads b) &&
  list_eqb (fun x y => (fst x =? fst y) && bytes_eqb (snd x) (snd y)) (m_cpv a) (m_cpv b) &&
  list_eqb (fun x y => (fst x =? fst y) && (snd x =? snd y)) (m_stv a) (m_stv b) &&
  (m_cp_cur a =? m_cp_cur b) && (m_st_cur a =? m_st_cur b).

(* one history: initial current versions; per event what the implementation answered and the
   dump of its tables afterwards (an [mstate] term: sorted association lists; [None] = the dump
   is identical to the dump before the event) *)
Record hist_case := {
  hc_cp0 : N; hc_st0 : N;
  hc_steps : list (event * res * option mstate);
}.

(* [prev] = the implementation's previous dump *)
Fixpoint replay (s prev : mstate) (steps : list (event * res * option mstate)) : bool :=
  match steps with
  | [] => true
  | (e, r, od) :: rest =>
      let d := match od with Some d => d | None => prev end in
      let '(s', r') := model_step s e in
      res_eqb r' r && mstate_eqb s' d && replay s' d rest
  end.

(* the L3 specification, executed on the same history, must give the same verdicts (a test of the
   statement of C35_refines_spec, not a proof) *)
Fixpoint spec_verdicts_agree (s : sstate) (steps : list (event * res * option mstate)) : bool :=
  match steps with
  | [] => true
  | (e, r, _) :: rest => let '(s', r') := spec_step s e in res_eqb r' r && spec_verdicts_agree s' rest
  end.

Definition check_hist (c : hist_case) : bool :=
  replay (minit (hc_cp0 c) (hc_st0 c)) (minit (hc_cp0 c) (hc_st0 c)) (hc_steps c) &&
  spec_verdicts_agree (sinit (hc_cp0 c) (hc_st0 c)) (hc_steps c).

Definition bad {A} (chk : A -> bool) (cs : list (N * A)) : list N :=
  map fst (filter (fun c => negb (chk (snd c))) cs).
Definition bad_hist := bad check_hist.
