(* Run/Validity.v — case runner of the C19 correspondence check (cases are produced by
   harness/src/bin/validity.rs: the abstract record of a real transaction, the consensus
   parameters, the block height, and what IntoChecked::into_checked_basic returned). *)
From FV Require Import Base.Bytes Base.U64 Validity.ValiditySpec Validity.ValidityModel.
Open Scope N_scope.

(* a verr as its constructor number followed by its payload (injective) *)
Definition verr_code (e : verr) : list N :=
  match e with
  | ENoSpendableInput => [0]
  | EInputWitnessIndexBounds x0 => [1; x0]
  | EInputPredicateEmpty x0 => [2; x0]
  | EInputPredicateLength x0 => [3; x0]
  | EInputPredicateDataLength x0 => [4; x0]
  | EInputContractAssociatedOutputContract x0 => [5; x0]
  | EInputMessageDataLength x0 => [6; x0]
  | EDuplicateInputUtxoId x0 => [7; x0]
  | EDuplicateInputNonce x0 => [8; x0]
  | EDuplicateInputContractId x0 => [9; x0]
  | EOutputContractInputIndex x0 => [10; x0]
  | ETransactionInputContainsNonBaseAssetId x0 => [11; x0]
  | ETransactionInputContainsContract x0 => [12; x0]
  | ETransactionInputContainsMessageData x0 => [13; x0]
  | ETransactionOutputContainsContract x0 => [14; x0]
  | ETransactionOutputContainsVariable x0 => [15; x0]
  | ETransactionChangeChangeUsesNotBaseAsset x0 => [16; x0]
  | ETransactionCreateOutputContractCreatedDoesntMatch x0 => [17; x0]
  | ETransactionCreateOutputContractCreatedMultiple x0 => [18; x0]
  | ETransactionCreateBytecodeLen => [19]
  | ETransactionCreateBytecodeWitnessIndex => [20]
  | ETransactionCreateStorageSlotMax => [21]
  | ETransactionCreateStorageSlotOrder => [22]
  | ETransactionScriptLength => [23]
  | ETransactionScriptDataLength => [24]
  | ETransactionOutputContainsContractCreated x0 => [25; x0]
  | ETransactionMintIncorrectBlockHeight => [26]
  | ETransactionMintIncorrectOutputIndex => [27]
  | ETransactionMintNonBaseAsset => [28]
  | ETransactionUpgradeNoPrivilegedAddress => [29]
  | ETransactionUpgradeConsensusParametersChecksumMismatch => [30]
  | ETransactionUpgradeConsensusParametersDeserialization => [31]
  | ETransactionUploadRootVerificationFailed => [32]
  | ETransactionUploadTooManyBytecodeSubsections => [33]
  | ETransactionSizeLimitExceeded => [34]
  | ETransactionMaxGasExceeded => [35]
  | ETransactionWitnessLimitExceeded => [36]
  | ETransactionPoliciesAreInvalid => [37]
  | ETransactionMaturity => [38]
  | ETransactionExpiration => [39]
  | ETransactionMaxFeeNotSet => [40]
  | ETransactionInputsMax => [41]
  | ETransactionOutputsMax => [42]
  | ETransactionWitnessesMax => [43]
  | ETransactionOutputChangeAssetIdDuplicated x0 => [44; x0]
  | ETransactionOutputChangeAssetIdNotFound x0 => [45; x0]
  | ETransactionOutputCoinAssetIdNotFound x0 => [46; x0]
  | EInsufficientFeeAmount x0 x1 => [47; x0; x1]
  | EInsufficientInputAmount x0 x1 x2 => [48; x0; x1; x2]
  | EBalanceOverflow => [49]
  | ETransactionOutputDoesntContainContractCreated => [50]
  | ETransactionBlobIdVerificationFailed => [51]
  | ETransactionOwnerIndexOutOfBounds => [52]
  | ETransactionOwnerInputHasNoOwner x0 => [53; x0]
  | EOther x0 => [54; x0]
  end.
Fixpoint listN_eqb (a b : list N) : bool :=
  match a, b with
  | [], [] => true
  | x :: r, y :: r' => (x =? y) && listN_eqb r r'
  | _, _ => false
  end.
Definition verr_beq (a b : verr) : bool := listN_eqb (verr_code a) (verr_code b).

Fixpoint bmap_eqb (a b : bmap) : bool :=
  match a, b with
  | [], [] => true
  | (k, v) :: r, (k', v') :: r' => (k =? k') && (v =? v') && bmap_eqb r r'
  | _, _ => false
  end.
Definition checked_eqb (a b : checked) : bool :=
  match a, b with
  | COk m r, COk m' r' => bmap_eqb m m' && (r =? r')
  | CErr e, CErr e' => verr_beq e e'
  | _, _ => false
  end.

Record validity_case := {
  vc_params : params;
  vc_height : N;
  vc_tx : tx;
  vc_result : checked;          (* what the Rust code returned *)
}.

(* the no-std variant of next_duplicate must report a duplicate exactly when the std one does *)
Definition dup_paths_agree (x : tx) : bool :=
  match x with
  | TxCharge t =>
      let same (l : list N) :=
        match next_duplicate l, next_duplicate_nostd l with
        | Some _, Some _ | None, None => true
        | _, _ => false
        end in
      same (select coin_utxo (t_inputs t)) && same (select input_contract_id (t_inputs t)) &&
      same (select message_nonce (t_inputs t))
  | TxMint _ => true
  end.

Definition check_validity (c : validity_case) : bool :=
  checked_eqb (into_checked_basic (vc_params c) (vc_height c) (vc_tx c)) (vc_result c) &&
  dup_paths_agree (vc_tx c).

Definition bad {A} (chk : A -> bool) (cs : list (N * A)) : list N :=
  map fst (filter (fun c => negb (chk (snd c))) cs).
Definition bad_validity := bad check_validity.

(* smoke test: one coin input covering fee 10 and a coin output of 5 *)
Definition demo_params : params :=
  {| max_inputs := 255; max_outputs := 255; max_witnesses := 255; max_gas_per_tx := 100000000; max_size := 112640;
     max_bytecode_subsections := 255; max_predicate_length := 1048576; max_predicate_data_length := 1048576;
     max_message_data_length := 1048576; max_script_length := 1048576; max_script_data_length := 1048576;
     contract_max_size := 102400; max_storage_slots := 255; base_asset := 0; privileged_address := 0 |}.
Definition demo_tx : tx :=
  TxCharge {| t_body := BScript 4 0;
              t_policies := {| p_bits := 8; p_tip := 0; p_witness_limit := 0; p_maturity := 0; p_max_fee := 10; p_expiration := 0; p_owner := 0 |};
              t_inputs := [ICoinSigned 1 7 100 0 0; ICoinSigned 2 7 50 9 0];
              t_outputs := [OCoin 5 0; OChange 9];
              t_witnesses := [64]; t_size := 300; t_max_gas := 1000 |}.
Example demo_ok : into_checked_basic demo_params 0 demo_tx = COk [(0, 85); (9, 50)] 0.
Proof. vm_compute. reflexivity. Qed.
