(* Run/Asm.v — case runner of the instruction-encoding correspondence check (C08).
   Cases are produced by harness/src/bin/asm.rs: inputs + what the Rust code returned; the
   functions below recompute everything with the L1 model (Asm/EncodeModel.v) and report the
   indices that differ. *)
From Coq Require Import ZArith Uint63.
From FV Require Import Base.Bytes Base.U64 Gen.OpTable Gen.PackTable Asm.EncodeSpec Asm.EncodeModel.
Open Scope N_scope.

(* a decoded instruction as the harness prints it: opcode byte (inst.opcode() as u8) and the
   unpacked arguments; the Debug name of every opcode is compared once per opcode (Nm cases) *)
Definition dec := option (N * list N).

Fixpoint nlist_eqb (a b : list N) : bool :=
  match a, b with
  | [], [] => true
  | x :: a', y :: b' => (x =? y) && nlist_eqb a' b'
  | _, _ => false
  end.
Definition on_eqb (a b : option N) : bool :=
  match a, b with Some x, Some y => x =? y | None, None => true | _, _ => false end.
Definition onl_eqb (a b : option (list N)) : bool :=
  match a, b with Some x, Some y => nlist_eqb x y | None, None => true | _, _ => false end.

Definition dec_of (o : option instr) : dec :=
  match o with Some i => Some (op_byte (i_op i), i_args i) | None => None end.
Definition dec_eqb (a b : dec) : bool :=
  match a, b with
  | Some (b1, a1), Some (b2, a2) => (b1 =? b2) && nlist_eqb a1 a2
  | None, None => true
  | _, _ => false
  end.

Definition m_raw (w : N) : option (option (list N)) :=
  let '(b0, b1, b2, b3) := to_be_bytes4 w in
  match opcode_try_from b0 with
  | None => None
  | Some opc =>
      match execute_dispatch opc with
      | None => None
      | Some e => Some (option_map unpack (from_raw_args e b1 b2 b3))
      end
  end.

(* ---- W: a raw word.  (positional constructor arguments keep the case files small)
     w            the word
     d            Instruction::try_from(w: u32) -> (opcode() as u8, unpack())
     bytes_agree  Instruction::try_from(w.to_be_bytes()) returned the same
     reenc        u32::from(inst)
     bytes        u32::from_be_bytes(inst.to_bytes())
     raw          Opcode::try_from(b0), then op::X::from_raw_args([b1,b2,b3]).unpack():
                  None = invalid opcode, Some None = from_raw_args returned Err
     inv          Interpreter::instruction(w) ended in PanicReason::InvalidInstruction
   ---- C: an opcode byte with an argument tuple (each value fits the Rust parameter type)
     short        u32::from(op::x(args..)); None = the constructor panicked
     masked       u32::from(op::X::new(RegId::new(a), .., ImmNN::new(i)))
     d            Instruction::try_from(masked)
   ---- Nm: format!("{:?}", Opcode::try_from(b)) *)
Inductive asm_case :=
| W (w : N) (d : dec) (bytes_agree : bool) (reenc : option N) (bytes : option N)
    (raw : option (option (list N))) (inv : bool)
| C (b : N) (args : list N) (short : option N) (masked : N) (d : dec)
| Nm (b : N) (name : option string).

(* abbreviations used by the harness when (and only when) the Rust observations have exactly this
   form — they expand to full cases, so nothing is checked differently:
     Wv w args   a word that decodes: opcode byte = top byte of w, both decoders agree, u32::from and
                 to_bytes give w back, from_raw_args+unpack gives the same arguments, interpreter
                 does not report InvalidInstruction
     Wi w k      a word that does not decode (k = 0: Opcode::try_from fails, k = 1: from_raw_args
                 fails), interpreter reports InvalidInstruction
     Cs b args   the shorthand constructor succeeded with word x, op::X::new gives the same x, and x
                 decodes to (b, args); x is recomputed from the specification by cs_word below and
                 compared with the observed x by the harness before it uses this form *)
Definition Wv (w : N) (args : list N) : asm_case :=
  W w (Some (w / 2 ^ 24, args)) true (Some w) (Some w) (Some (Some args)) false.
Definition Wi (w k : N) : asm_case :=
  W w None true None None (if k =? 0 then None else Some None) true.
Definition Cs (b : N) (args : list N) (x : N) : asm_case :=
  C b args (Some x) x (Some (b, args)).

(* The case files write every number as a primitive 63-bit integer literal (`(wv 268701824 [1; 1; 2])%uint63`):
   parsing a decimal N literal costs ~0.3 ms, a primitive literal nothing.  All values are below
   2^32.  The lower-case constructors convert and build the cases above. *)
Definition n (i : int) : N := Z.to_N (Uint63.to_Z i).
Definition nd (d : option (int * list int)) : dec :=
  match d with Some (b, a) => Some (n b, map n a) | None => None end.
Definition wv (w : int) (args : list int) : asm_case := Wv (n w) (map n args).
Definition wi (w k : int) : asm_case := Wi (n w) (n k).
Definition cs (b : int) (args : list int) (x : int) : asm_case := Cs (n b) (map n args) (n x).
Definition wf (w : int) (d : option (int * list int)) (bytes_agree : bool) (reenc bytes : option int)
           (raw : option (option (list int))) (inv : bool) : asm_case :=
  W (n w) (nd d) bytes_agree (option_map n reenc) (option_map n bytes)
    (option_map (option_map (map n)) raw) inv.
Definition cf (b : int) (args : list int) (short : option int) (masked : int) (d : option (int * list int)) : asm_case :=
  C (n b) (map n args) (option_map n short) (n masked) (nd d).
Definition nm (b : int) (name : option string) : asm_case := Nm (n b) name.

Definition check_word (w : N) (d : dec) (bytes_agree : bool) (reenc bytes : option N)
           (raw : option (option (list N))) (inv : bool) : bool :=
  let r := try_from_u32 w in
  dec_eqb (dec_of (decode w)) d &&
  Bool.eqb bytes_agree
    (dec_eqb (dec_of (let '(b0, b1, b2, b3) := to_be_bytes4 w in option_map view (try_from_bytes b0 b1 b2 b3)))
             (dec_of (decode w))) &&
  bytes_agree &&
  on_eqb (option_map to_u32 r) reenc &&
  on_eqb (option_map (fun x => from_be_bytes4 (to_bytes x)) r) bytes &&
  match m_raw w, raw with
  | None, None => true
  | Some a, Some b => onl_eqb a b
  | _, _ => false
  end &&
  Bool.eqb (match interp_decode w with None => true | Some _ => false end) inv &&
  (* the L3 specification, executed, agrees too (a test of the theorems' statement) *)
  match d with
  | Some (b, args) =>
      match opcode_try_from b with
      | Some e => (spec_word e args =? w) && args_in_range (op_shape e) args
      | None => false
      end
  | None => true
  end.

Definition check_ctor (b : N) (args : list N) (short : option N) (masked : N) (d : dec) : bool :=
  match opcode_try_from b with
  | None => false
  | Some e =>
      on_eqb (option_map to_u32 (op_shorthand e args)) short &&
      let margs := map (fun ta => type_new (fst ta) (snd ta)) (combine (op_shape e) args) in
      (to_u32 (op_new e margs) =? masked) &&
      dec_eqb (dec_of (decode masked)) d &&
      (* L3: in-range tuples give the specified word; out-of-range ones make the constructor panic *)
      (if args_in_range (op_shape e) args
       then on_eqb (Some (spec_word e args)) short
       else match short with None => true | Some _ => false end)
  end.

Definition check_name (b : N) (name : option string) : bool :=
  match opcode_try_from b, name with
  | Some e, Some n => String.eqb (op_name e) n
  | None, None => true
  | _, _ => false
  end.

Definition check_asm (c : asm_case) : bool :=
  match c with
  | W w d ba re by_ raw inv => check_word w d ba re by_ raw inv
  | C b args short masked d => check_ctor b args short masked d
  | Nm b name => check_name b name
  end.

Definition bad {A} (chk : A -> bool) (cs : list (N * A)) : list N :=
  map fst (filter (fun c => negb (chk (snd c))) cs).
Definition bad_asm := bad check_asm.
