(* Run/Bmt.v — executable instance of the binary-Merkle L1 model (SHA-256) and the case
   runner used by the correspondence check (cases are produced by harness/src/bin/bmt.rs). *)
From FV Require Import Base.Bytes Base.U64 Base.Map Base.Sha256 Merkle.BinaryModel Merkle.RFC6962.
Open Scope N_scope.

Definition leaf_sum (d : bytes) : bytes := sha256 (0 :: d).
Definition node_sum (l r : bytes) : bytes := sha256 (1 :: l ++ r).
Definition empty_sum : bytes := sha256 [].

Definition m_calc_root (ls : list bytes) : option bytes := root_from_iterator leaf_sum node_sum empty_sum ls.

Definition m_tree_of (ls : list bytes) : option (tree (D:=bytes)) :=
  fold_left (fun ot d => match ot with
                         | Some t => match tree_push leaf_sum node_sum t d with PushOk t' => Some t' | _ => None end
                         | None => None end) ls (Some tree_new).
Definition m_tree_root (ls : list bytes) : option bytes :=
  do t <- m_tree_of ls; tree_root node_sum empty_sum t.
Definition m_from_hashes_root (ls : list bytes) : option bytes :=
  do s <- from_leaf_hashes node_sum [] (map leaf_sum ls); calc_root node_sum empty_sum s.

Definition obytes_eqb (a : option bytes) (b : bytes) : bool :=
  match a with Some x => bytes_eqb x b | None => false end.

(* ---- C09: all root computations on one leaf list; expected = what Rust returned *)
Record roots_case := {
  rc_leaves : list bytes;
  rc_calc : bytes; rc_inmem : bytes; rc_storage : bytes; rc_hashes : bytes;
}.
Definition check_roots (c : roots_case) : bool :=
  obytes_eqb (m_calc_root (rc_leaves c)) (rc_calc c) &&
  obytes_eqb (m_tree_root (rc_leaves c)) (rc_inmem c) &&
  obytes_eqb (m_tree_root (rc_leaves c)) (rc_storage c) &&
  obytes_eqb (m_from_hashes_root (rc_leaves c)) (rc_hashes c) &&
  (* and the L3 spec, executed, agrees too (test of the theorem's statement, not a proof) *)
  bytes_eqb (MTH leaf_sum node_sum empty_sum (rc_leaves c)) (rc_calc c).

Definition bad {A} (chk : A -> bool) (cs : list (N * A)) : list N :=
  map fst (filter (fun c => negb (chk (snd c))) cs).
Definition bad_roots := bad check_roots.

(* ---- C10 / C11 cases *)
Notation hop := BinaryModel.hop.
Notation hobs := (@BinaryModel.hobs bytes).
Inductive bcase :=
| CProve (leaves : list bytes) (i : N) (res : option (bytes * list bytes))
| CVerify (root data : bytes) (proof : list bytes) (i n : N) (verdict : bool)
| CHistory (ops : list hop) (obs : list hobs).

Fixpoint list_eqb {A} (eqb : A -> A -> bool) (a b : list A) : bool :=
  match a, b with
  | [], [] => true
  | x :: a', y :: b' => eqb x y && list_eqb eqb a' b'
  | _, _ => false
  end.

Definition proof_res_eqb (a b : option (bytes * list bytes)) : bool :=
  match a, b with
  | None, None => true
  | Some (r1, p1), Some (r2, p2) => bytes_eqb r1 r2 && list_eqb bytes_eqb p1 p2
  | _, _ => false
  end.

Definition hobs_eqb (a b : hobs) : bool :=
  match a, b with
  | OUnit, OUnit => true
  | ORoot r1 c1, ORoot r2 c2 => bytes_eqb r1 r2 && (c1 =? c2)
  | OProof p1, OProof p2 => proof_res_eqb p1 p2
  | OLoad b1, OLoad b2 => Bool.eqb b1 b2
  | _, _ => false
  end.

Definition check_bcase (c : bcase) : bool :=
  match c with
  | CProve leaves i res =>
      match m_tree_of leaves with
      | Some t => match m_prove node_sum t i with Some r => proof_res_eqb r res | None => false end
      | None => false
      end
  | CVerify root data proof i n verdict =>
      Bool.eqb (verify leaf_sum node_sum bytes_eqb root data proof i n) verdict
  | CHistory ops obs =>
      match m_run leaf_sum node_sum empty_sum tree_new ops with
      | Some obs' => list_eqb hobs_eqb obs obs'
      | None => false
      end
  end.
Definition bad_bcases := bad check_bcase.
